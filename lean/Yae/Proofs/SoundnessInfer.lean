/-
  Soundness of `inferFun` (the instantiation of a possibly polymorphic signature against ground
  argument types): when `inferFun` succeeds and the unified parameter types pass the checker's
  `tyEq` assertion against the argument types, the result type is an instance of the signature
  (`Inst`).

  `inferFun` runs the second `unify` under a substitution that is not ground: it still contains
  the bindings `s<i> ↦ param_i`, `t<n> ↦ ret` of the first `unify`.  Signature variables never
  start with `s` or `t` (`okVars`), so these "junk" bindings are never consulted.  The matching
  lemmas of `Proofs/TyEq` are therefore re-proved with `Subst.Ground m` weakened to `OkG m`
  (ground on the names satisfying `okVarName`), and strengthened: junk bindings are untouched, and
  if the returned type is `tyEq` to the ground right-hand side the instance is `StructEq` to it.
-/
import Yae.Spec.WF
import Std.Data.String.ToNat
namespace Yae.Sound

/-! ### names -/

theorem freshName_inj (pre : String) {a b : Nat} (h : freshName pre a = freshName pre b) :
    a = b := by
  unfold freshName at h
  have h2 : (toString a : String) = toString b := by
    have := congrArg String.toList h
    simp only [String.toList_append] at this
    exact String.toList_injective (List.append_cancel_left this)
  exact Nat.repr_injective h2

theorem okVarName_s (n : Nat) : okVarName (freshName "s" n) = false := by
  unfold okVarName freshName
  simp [String.toList_append]

theorem okVarName_t (n : Nat) : okVarName (freshName "t" n) = false := by
  unfold okVarName freshName
  simp [String.toList_append]

theorem s_ne_t (a b : Nat) : freshName "s" a ≠ freshName "t" b := by
  intro h
  have := congrArg String.toList h
  simp [freshName, String.toList_append] at this

theorem ne_of_ok {a b : String} (ha : okVarName a = true) (hb : okVarName b = false) : a ≠ b := by
  rintro rfl; rw [ha] at hb; cases hb

/-! ### substitutions that are ground on signature-variable names -/

/-- the bindings of names a signature may use are variable free and well formed -/
def OkG (m : Subst) : Prop :=
  ∀ n k, okVarName n = true → m.get? n = some k → slotFree k = true ∧ k.wf = true

/-- no name a signature may use is bound -/
def NoOk (m : Subst) : Prop := ∀ n, okVarName n = true → m.get? n = none

theorem NoOk.okG {m : Subst} (h : NoOk m) : OkG m := by
  intro n k hn hk; rw [h n hn] at hk; cases hk

theorem OkG.set {m : Subst} {n : String} {t : Ty} (hm : OkG m)
    (h1 : slotFree t = true) (h2 : t.wf = true) : OkG (m.set n t) := by
  intro n' k hok hk
  by_cases hn : n = n'
  · subst hn; rw [Subst.get?_set_self] at hk; cases hk; exact ⟨h1, h2⟩
  · rw [Subst.get?_set_ne _ _ _ _ hn] at hk; exact hm n' k hok hk

theorem NoOk.set {m : Subst} {n : String} {t : Ty} (hm : NoOk m) (hn : okVarName n = false) :
    NoOk (m.set n t) := by
  intro n' hok
  rw [Subst.get?_set_ne _ _ _ _ (ne_of_ok hok hn).symm]; exact hm n' hok

mutual
theorem slotFree_okVars : ∀ t, slotFree t = true → okVars t = true
  | .var _, h => by simp [slotFree] at h
  | .top, _ | .bot, _ | .num, _ | .str, _ | .bool, _ | .time, _ => by simp [okVars]
  | .tuple ts, h => by
    simp only [slotFree] at h; simp only [okVars, slotFreeList_okVars ts h]
  | .list a, h => by
    simp only [slotFree] at h; simp only [okVars, slotFree_okVars a h]
  | .map k v, h => by
    simp only [slotFree, Bool.and_eq_true] at h
    simp [okVars, slotFree_okVars k h.1, slotFree_okVars v h.2]
  | .obj fs, h => by
    simp only [slotFree] at h; simp only [okVars, slotFreeFields_okVars fs h]
  | .fn _ ps r, h => by
    simp only [slotFree, Bool.and_eq_true] at h
    simp [okVars, slotFreeList_okVars ps h.1, slotFree_okVars r h.2]
  | .maybe a, h => by
    simp only [slotFree] at h; simp only [okVars, slotFree_okVars a h]
theorem slotFreeList_okVars : ∀ ts, slotFreeList ts = true → okVarsList ts = true
  | .nil, _ => by simp [okVarsList]
  | .cons t ts, h => by
    simp only [slotFreeList, Bool.and_eq_true] at h
    simp [okVarsList, slotFree_okVars t h.1, slotFreeList_okVars ts h.2]
theorem slotFreeFields_okVars : ∀ fs, slotFreeFields fs = true → okVarsFields fs = true
  | .nil, _ => by simp [okVarsFields]
  | .cons _ t fs, h => by
    simp only [slotFreeFields, Bool.and_eq_true] at h
    simp [okVarsFields, slotFree_okVars t h.1, slotFreeFields_okVars fs h.2]
end

theorem okVarsFields_find : ∀ (fs : FieldList) (n : String) (t : Ty),
    okVarsFields fs = true → fs.find? n = some t → okVars t = true
  | .nil, n, t, _, h => by simp [FieldList.find?] at h
  | .cons m t' fs, n, t, hw, h => by
    simp only [okVarsFields, Bool.and_eq_true] at hw
    simp only [FieldList.find?] at h
    split at h
    · cases h; exact hw.1
    · exact okVarsFields_find fs n t hw.2 h

mutual
/-- a junk name does not occur in a type whose variables are signature variables -/
theorem okVars_freeFrom {s : String} (hs : okVarName s = false) : ∀ t, okVars t = true →
    freeFrom s t = true
  | .var n, h => by
    simp only [okVars] at h
    simp only [freeFrom, bne_iff_ne]
    exact ne_of_ok h hs
  | .top, _ | .bot, _ | .num, _ | .str, _ | .bool, _ | .time, _ => by simp [freeFrom]
  | .tuple ts, h => by
    simp only [okVars] at h; simp only [freeFrom, okVarsList_freeFrom hs ts h]
  | .list a, h => by
    simp only [okVars] at h; simp only [freeFrom, okVars_freeFrom hs a h]
  | .map k v, h => by
    simp only [okVars, Bool.and_eq_true] at h
    simp [freeFrom, okVars_freeFrom hs k h.1, okVars_freeFrom hs v h.2]
  | .obj fs, h => by
    simp only [okVars] at h; simp only [freeFrom, okVarsFields_freeFrom hs fs h]
  | .fn _ ps r, h => by
    simp only [okVars, Bool.and_eq_true] at h
    simp [freeFrom, okVarsList_freeFrom hs ps h.1, okVars_freeFrom hs r h.2]
  | .maybe a, h => by
    simp only [okVars] at h; simp only [freeFrom, okVars_freeFrom hs a h]
theorem okVarsList_freeFrom {s : String} (hs : okVarName s = false) : ∀ ts,
    okVarsList ts = true → freeFromList s ts = true
  | .nil, _ => by simp [freeFromList]
  | .cons t ts, h => by
    simp only [okVarsList, Bool.and_eq_true] at h
    simp [freeFromList, okVars_freeFrom hs t h.1, okVarsList_freeFrom hs ts h.2]
theorem okVarsFields_freeFrom {s : String} (hs : okVarName s = false) : ∀ fs,
    okVarsFields fs = true → freeFromFields s fs = true
  | .nil, _ => by simp [freeFromFields]
  | .cons _ t fs, h => by
    simp only [okVarsFields, Bool.and_eq_true] at h
    simp [freeFromFields, okVars_freeFrom hs t h.1, okVarsFields_freeFrom hs fs h.2]
end

/-! ### `substG` only looks at the variables of the type -/

mutual
theorem substG_agree {σ m : Subst} (hag : ∀ n, okVarName n = true → σ.get? n = m.get? n) :
    ∀ t, okVars t = true → substG σ t = substG m t
  | .var n, h => by
    simp only [okVars] at h
    simp only [substG, hag n h]
  | .top, _ | .bot, _ | .num, _ | .str, _ | .bool, _ | .time, _ => rfl
  | .tuple ts, h => by
    simp only [okVars] at h; simp only [substG, substGList_agree hag ts h]
  | .list a, h => by
    simp only [okVars] at h; simp only [substG, substG_agree hag a h]
  | .map k v, h => by
    simp only [okVars, Bool.and_eq_true] at h
    simp only [substG, substG_agree hag k h.1, substG_agree hag v h.2]
  | .obj fs, h => by
    simp only [okVars] at h; simp only [substG, substGFields_agree hag fs h]
  | .fn _ ps r, h => by
    simp only [okVars, Bool.and_eq_true] at h
    simp only [substG, substGList_agree hag ps h.1, substG_agree hag r h.2]
  | .maybe a, h => by
    simp only [okVars] at h; simp only [substG, substG_agree hag a h]
theorem substGList_agree {σ m : Subst} (hag : ∀ n, okVarName n = true → σ.get? n = m.get? n) :
    ∀ ts, okVarsList ts = true → substGList σ ts = substGList m ts
  | .nil, _ => rfl
  | .cons t ts, h => by
    simp only [okVarsList, Bool.and_eq_true] at h
    simp only [substGList, substG_agree hag t h.1, substGList_agree hag ts h.2]
theorem substGFields_agree {σ m : Subst} (hag : ∀ n, okVarName n = true → σ.get? n = m.get? n) :
    ∀ fs, okVarsFields fs = true → substGFields σ fs = substGFields m fs
  | .nil, _ => rfl
  | .cons n t fs, h => by
    simp only [okVarsFields, Bool.and_eq_true] at h
    simp only [substGFields, substG_agree hag t h.1, substGFields_agree hag fs h.2]
end

mutual
theorem substG_nil : ∀ t, substG [] t = t
  | .var n => by simp [substG, Subst.get?]
  | .top | .bot | .num | .str | .bool | .time => rfl
  | .tuple ts => by simp only [substG, substGList_nil ts]
  | .list a => by simp only [substG, substG_nil a]
  | .map k v => by simp only [substG, substG_nil k, substG_nil v]
  | .obj fs => by simp only [substG, substGFields_nil fs]
  | .fn _ ps r => by simp only [substG, substGList_nil ps, substG_nil r]
  | .maybe a => by simp only [substG, substG_nil a]
theorem substGList_nil : ∀ ts, substGList [] ts = ts
  | .nil => rfl
  | .cons t ts => by simp only [substGList, substG_nil t, substGList_nil ts]
theorem substGFields_nil : ∀ fs, substGFields [] fs = fs
  | .nil => rfl
  | .cons n t fs => by simp only [substGFields, substG_nil t, substGFields_nil fs]
end

theorem substG_noOk {m : Subst} (hm : NoOk m) (t : Ty) (ht : okVars t = true) :
    substG m t = t := by
  rw [substG_agree (σ := m) (m := []) (fun n hn => by rw [hm n hn]; rfl) t ht, substG_nil]

theorem substGList_noOk {m : Subst} (hm : NoOk m) (ts : TyList) (ht : okVarsList ts = true) :
    substGList m ts = ts := by
  rw [substGList_agree (σ := m) (m := []) (fun n hn => by rw [hm n hn]; rfl) ts ht,
    substGList_nil]

mutual
theorem okVars_substG {m : Subst} (hm : OkG m) : ∀ t, okVars t = true →
    okVars (substG m t) = true
  | .var n, h => by
    simp only [okVars] at h
    simp only [substG]
    cases hn : m.get? n with
    | none => simpa [okVars] using h
    | some k => exact slotFree_okVars k (hm n k h hn).1
  | .top, _ | .bot, _ | .num, _ | .str, _ | .bool, _ | .time, _ => by simp [substG, okVars]
  | .tuple ts, h => by
    simp only [okVars] at h; simp only [substG, okVars, okVarsList_substG hm ts h]
  | .list a, h => by
    simp only [okVars] at h; simp only [substG, okVars, okVars_substG hm a h]
  | .map k v, h => by
    simp only [okVars, Bool.and_eq_true] at h
    simp [substG, okVars, okVars_substG hm k h.1, okVars_substG hm v h.2]
  | .obj fs, h => by
    simp only [okVars] at h; simp only [substG, okVars, okVarsFields_substG hm fs h]
  | .fn _ ps r, h => by
    simp only [okVars, Bool.and_eq_true] at h
    simp [substG, okVars, okVarsList_substG hm ps h.1, okVars_substG hm r h.2]
  | .maybe a, h => by
    simp only [okVars] at h; simp only [substG, okVars, okVars_substG hm a h]
theorem okVarsList_substG {m : Subst} (hm : OkG m) : ∀ ts, okVarsList ts = true →
    okVarsList (substGList m ts) = true
  | .nil, _ => by simp [substGList, okVarsList]
  | .cons t ts, h => by
    simp only [okVarsList, Bool.and_eq_true] at h
    simp [substGList, okVarsList, okVars_substG hm t h.1, okVarsList_substG hm ts h.2]
theorem okVarsFields_substG {m : Subst} (hm : OkG m) : ∀ fs, okVarsFields fs = true →
    okVarsFields (substGFields m fs) = true
  | .nil, _ => by simp [substGFields, okVarsFields]
  | .cons _ t fs, h => by
    simp only [okVarsFields, Bool.and_eq_true] at h
    simp [substGFields, okVarsFields, okVars_substG hm t h.1, okVarsFields_substG hm fs h.2]
end

/-! ### `applySubst` against `substG`, for `OkG` substitutions -/

mutual
theorem applySubst_eq_substG' (m : Subst) (hm : OkG m) : ∀ (f : Nat) t t', okVars t = true →
    applySubst f m t = .ok t' → t' = substG m t
  | f, .var n, t', ho, h => by
    simp only [okVars] at ho
    rw [applySubst.eq_1] at h
    simp only [substG]
    split at h
    · next hn => simp only [hn]; exact (UM.pure_eq_ok.1 h).symm
    · next r hn =>
      simp only [hn]
      have hr := (hm n r ho hn).1
      split at h
      · simp [slotFree] at hr
      · cases f with
        | zero => simp at h
        | succ f => exact applySubst_ground f m r t' hr h
  | _, .top, _, _, h | _, .bot, _, _, h | _, .num, _, _, h | _, .str, _, _, h
  | _, .bool, _, _, h | _, .time, _, _, h => by
    simp [applySubst] at h; exact h.symm
  | f, .tuple ts, t', ho, h => by
    simp only [okVars] at ho
    simp only [applySubst, UM.bind_eq_ok, UM.pure_eq_ok] at h
    obtain ⟨x, hx, rfl⟩ := h
    rw [applySubstList_eq_substG' m hm f ts x ho hx, substG]
  | f, .list a, t', ho, h => by
    simp only [okVars] at ho
    simp only [applySubst, UM.bind_eq_ok, UM.pure_eq_ok] at h
    obtain ⟨x, hx, rfl⟩ := h
    rw [applySubst_eq_substG' m hm f a x ho hx, substG]
  | f, .map k v, t', ho, h => by
    simp only [okVars, Bool.and_eq_true] at ho
    simp only [applySubst, UM.bind_eq_ok, mkMap_eq_ok] at h
    obtain ⟨x, hx, y, hy, _, rfl⟩ := h
    rw [applySubst_eq_substG' m hm f k x ho.1 hx, applySubst_eq_substG' m hm f v y ho.2 hy,
      substG]
  | f, .obj fs, t', ho, h => by
    simp only [okVars] at ho
    simp only [applySubst, UM.bind_eq_ok, UM.pure_eq_ok] at h
    obtain ⟨x, hx, rfl⟩ := h
    rw [applySubstFields_eq_substG' m hm f fs x ho hx, substG]
  | f, .fn _ ps r, t', ho, h => by
    simp only [okVars, Bool.and_eq_true] at ho
    simp only [applySubst, UM.bind_eq_ok, UM.pure_eq_ok] at h
    obtain ⟨x, hx, y, hy, rfl⟩ := h
    rw [applySubstList_eq_substG' m hm f ps x ho.1 hx,
      applySubst_eq_substG' m hm f r y ho.2 hy, substG]
  | f, .maybe a, t', ho, h => by
    simp only [okVars] at ho
    simp only [applySubst, UM.bind_eq_ok, UM.pure_eq_ok] at h
    obtain ⟨x, hx, rfl⟩ := h
    rw [applySubst_eq_substG' m hm f a x ho hx, substG]
theorem applySubstList_eq_substG' (m : Subst) (hm : OkG m) : ∀ (f : Nat) ts ts',
    okVarsList ts = true → applySubstList f m ts = .ok ts' → ts' = substGList m ts
  | _, .nil, _, _, h => by simp [applySubstList] at h; exact h.symm
  | f, .cons t ts, _, ho, h => by
    simp only [okVarsList, Bool.and_eq_true] at ho
    simp only [applySubstList, UM.bind_eq_ok, UM.pure_eq_ok] at h
    obtain ⟨x, hx, y, hy, rfl⟩ := h
    rw [applySubst_eq_substG' m hm f t x ho.1 hx, applySubstList_eq_substG' m hm f ts y ho.2 hy,
      substGList]
theorem applySubstFields_eq_substG' (m : Subst) (hm : OkG m) : ∀ (f : Nat) fs fs',
    okVarsFields fs = true → applySubstFields f m fs = .ok fs' → fs' = substGFields m fs
  | _, .nil, _, _, h => by simp [applySubstFields] at h; exact h.symm
  | f, .cons n t fs, _, ho, h => by
    simp only [okVarsFields, Bool.and_eq_true] at ho
    simp only [applySubstFields, UM.bind_eq_ok, UM.pure_eq_ok] at h
    obtain ⟨x, hx, y, hy, rfl⟩ := h
    rw [applySubst_eq_substG' m hm f t x ho.1 hx,
      applySubstFields_eq_substG' m hm f fs y ho.2 hy, substGFields]
end

mutual
/-- a successful `applySubst` of a well-formed type is well formed (every `types.Map` key
assertion passed; names of object fields are unchanged) -/
theorem applySubst_wf (m : Subst) (hm : OkG m) : ∀ (f : Nat) t t', okVars t = true →
    t.wf = true → applySubst f m t = .ok t' → t'.wf = true
  | f, .var n, t', ho, _, h => by
    simp only [okVars] at ho
    rw [applySubst.eq_1] at h
    split at h
    · rw [← UM.pure_eq_ok.1 h]; rfl
    · next r hn =>
      have hr := hm n r ho hn
      split at h
      · simp [slotFree] at hr
      · cases f with
        | zero => simp at h
        | succ f => rw [applySubst_ground f m r t' hr.1 h]; exact hr.2
  | _, .top, _, _, _, h | _, .bot, _, _, _, h | _, .num, _, _, _, h | _, .str, _, _, _, h
  | _, .bool, _, _, _, h | _, .time, _, _, _, h => by
    simp [applySubst] at h; rw [← h]; rfl
  | f, .tuple ts, t', ho, hw, h => by
    simp only [okVars] at ho; simp only [Ty.wf] at hw
    simp only [applySubst, UM.bind_eq_ok, UM.pure_eq_ok] at h
    obtain ⟨x, hx, rfl⟩ := h
    simp only [Ty.wf]; exact applySubstList_wf m hm f ts x ho hw hx
  | f, .list a, t', ho, hw, h => by
    simp only [okVars] at ho; simp only [Ty.wf] at hw
    simp only [applySubst, UM.bind_eq_ok, UM.pure_eq_ok] at h
    obtain ⟨x, hx, rfl⟩ := h
    simp only [Ty.wf]; exact applySubst_wf m hm f a x ho hw hx
  | f, .map k v, t', ho, hw, h => by
    simp only [okVars, Bool.and_eq_true] at ho
    simp only [Ty.wf, Bool.and_eq_true] at hw
    simp only [applySubst, UM.bind_eq_ok, mkMap_eq_ok] at h
    obtain ⟨x, hx, y, hy, hk, rfl⟩ := h
    simp only [Ty.wf, Bool.and_eq_true]
    exact ⟨⟨hk, applySubst_wf m hm f k x ho.1 hw.1.2 hx⟩, applySubst_wf m hm f v y ho.2 hw.2 hy⟩
  | f, .obj fs, t', ho, hw, h => by
    simp only [okVars] at ho; simp only [Ty.wf] at hw
    simp only [applySubst, UM.bind_eq_ok, UM.pure_eq_ok] at h
    obtain ⟨x, hx, rfl⟩ := h
    simp only [Ty.wf]; exact applySubstFields_wf m hm f fs x ho hw hx
  | f, .fn _ ps r, t', ho, hw, h => by
    simp only [okVars, Bool.and_eq_true] at ho
    simp only [Ty.wf, Bool.and_eq_true] at hw
    simp only [applySubst, UM.bind_eq_ok, UM.pure_eq_ok] at h
    obtain ⟨x, hx, y, hy, rfl⟩ := h
    simp only [Ty.wf, Bool.and_eq_true]
    exact ⟨applySubstList_wf m hm f ps x ho.1 hw.1 hx, applySubst_wf m hm f r y ho.2 hw.2 hy⟩
  | f, .maybe a, t', ho, hw, h => by
    simp only [okVars] at ho; simp only [Ty.wf] at hw
    simp only [applySubst, UM.bind_eq_ok, UM.pure_eq_ok] at h
    obtain ⟨x, hx, rfl⟩ := h
    simp only [Ty.wf]; exact applySubst_wf m hm f a x ho hw hx
theorem applySubstList_wf (m : Subst) (hm : OkG m) : ∀ (f : Nat) ts ts',
    okVarsList ts = true → wfList ts = true → applySubstList f m ts = .ok ts' →
    wfList ts' = true
  | _, .nil, _, _, _, h => by simp [applySubstList] at h; rw [← h]; rfl
  | f, .cons t ts, _, ho, hw, h => by
    simp only [okVarsList, Bool.and_eq_true] at ho
    simp only [wfList, Bool.and_eq_true] at hw
    simp only [applySubstList, UM.bind_eq_ok, UM.pure_eq_ok] at h
    obtain ⟨x, hx, y, hy, rfl⟩ := h
    simp only [wfList, Bool.and_eq_true]
    exact ⟨applySubst_wf m hm f t x ho.1 hw.1 hx, applySubstList_wf m hm f ts y ho.2 hw.2 hy⟩
theorem applySubstFields_wf (m : Subst) (hm : OkG m) : ∀ (f : Nat) fs fs',
    okVarsFields fs = true → wfFields fs = true → applySubstFields f m fs = .ok fs' →
    wfFields fs' = true
  | _, .nil, _, _, _, h => by simp [applySubstFields] at h; rw [← h]; rfl
  | f, .cons n t fs, _, ho, hw, h => by
    simp only [okVarsFields, Bool.and_eq_true] at ho
    simp only [wfFields, Bool.and_eq_true] at hw
    simp only [applySubstFields, UM.bind_eq_ok, UM.pure_eq_ok] at h
    obtain ⟨x, hx, y, hy, rfl⟩ := h
    simp only [wfFields, Bool.and_eq_true]
    refine ⟨⟨?_, applySubst_wf m hm f t x ho.1 hw.1.2 hx⟩,
      applySubstFields_wf m hm f fs y ho.2 hw.2 hy⟩
    rw [applySubstFields_eq_substG' m hm f fs y ho.2 hy, find?_substGFields, Option.isNone_map]
    exact hw.1.1
end

/-! ### substitution and `StructEq` -/

mutual
/-- Growing the substitution keeps an instance structurally equal to a variable-free type. -/
theorem substG_monoS {m m' : Subst} (hle : m.le m') : ∀ p g, slotFree g = true →
    StructEq (substG m p) g → StructEq (substG m' p) g
  | .var n, g, hg, h => by
    simp only [substG] at h ⊢
    cases hn : m.get? n with
    | none =>
      simp only [hn] at h
      cases h; simp [slotFree] at hg
    | some k =>
      obtain ⟨k', hk', e⟩ := hle n k hn
      simp only [hn] at h
      simp only [hk']
      exact StructEq.trans k' k g (StructEq.symm _ _ e) h
  | .top, _, _, h | .bot, _, _, h | .num, _, _, h | .str, _, _, h | .bool, _, _, h
  | .time, _, _, h => by
    simp only [substG] at h ⊢; exact h
  | .tuple ts, g, hg, h => by
    simp only [substG] at h ⊢
    cases h with
    | tuple h => exact .tuple (substG_monoSList hle ts _ (by simpa [slotFree] using hg) h)
  | .list a, g, hg, h => by
    simp only [substG] at h ⊢
    cases h with
    | list h => exact .list (substG_monoS hle a _ (by simpa [slotFree] using hg) h)
  | .map k v, g, hg, h => by
    simp only [substG] at h ⊢
    cases h with
    | map h1 h2 =>
      simp only [slotFree, Bool.and_eq_true] at hg
      exact .map (substG_monoS hle k _ hg.1 h1) (substG_monoS hle v _ hg.2 h2)
  | .obj fs, g, hg, h => by
    simp only [substG] at h ⊢
    cases h with
    | obj hl hs hr =>
      rename_i gs
      simp only [slotFree] at hg
      refine .obj (by rw [length_substGFields] at hl ⊢; exact hl)
        (fun n => by rw [← hs n, find?_substGFields, find?_substGFields]; simp) ?_
      intro n t' u ht' hu
      obtain ⟨t, ht, rfl⟩ := find?_substGFields_some ht'
      exact substG_monoSFields hle fs n t ht u (slotFreeFields_find gs n u hg hu)
        (hr n (substG m t) u (by rw [find?_substGFields, ht]; rfl) hu)
  | .fn _ ps r, g, hg, h => by
    simp only [substG] at h ⊢
    cases h with
    | fn h1 h2 =>
      simp only [slotFree, Bool.and_eq_true] at hg
      exact .fn (substG_monoSList hle ps _ hg.1 h1) (substG_monoS hle r _ hg.2 h2)
  | .maybe a, g, hg, h => by
    simp only [substG] at h ⊢
    cases h with
    | maybe h => exact .maybe (substG_monoS hle a _ (by simpa [slotFree] using hg) h)
theorem substG_monoSList {m m' : Subst} (hle : m.le m') : ∀ ps gs, slotFreeList gs = true →
    StructEqList (substGList m ps) gs → StructEqList (substGList m' ps) gs
  | .nil, _, _, h => by simp only [substGList] at h ⊢; exact h
  | .cons p ps, _, hg, h => by
    simp only [substGList] at h ⊢
    cases h with
    | cons h1 h2 =>
      simp only [slotFreeList, Bool.and_eq_true] at hg
      exact .cons (substG_monoS hle p _ hg.1 h1) (substG_monoSList hle ps _ hg.2 h2)
theorem substG_monoSFields {m m' : Subst} (hle : m.le m') : ∀ (fs : FieldList) n t,
    fs.find? n = some t → ∀ u, slotFree u = true → StructEq (substG m t) u →
      StructEq (substG m' t) u
  | .nil, n, t, h, _, _, _ => by simp [FieldList.find?] at h
  | .cons k t' fs, n, t, h, u, hu, hb => by
    simp only [FieldList.find?] at h
    split at h
    · cases h; exact substG_monoS hle t' u hu hb
    · exact substG_monoSFields hle fs n t h u hu hb
end

mutual
/-- Substituting first with an earlier substitution changes nothing up to `StructEq`. -/
theorem substG_substG' {m m1 : Subst} (hm : OkG m) (hle : m.le m1) : ∀ p, okVars p = true →
    StructEq (substG m1 (substG m p)) (substG m1 p)
  | .var n, ho => by
    simp only [okVars] at ho
    cases hn : m.get? n with
    | none => simp only [substG, hn]; exact StructEq.refl _
    | some k =>
      obtain ⟨k', hk', e⟩ := hle n k hn
      simp only [substG, hn, hk']
      rw [substG_ground m1 k (hm n k ho hn).1]; exact e
  | .top, _ | .bot, _ | .num, _ | .str, _ | .bool, _ | .time, _ => by
    simp only [substG]; exact StructEq.refl _
  | .tuple ts, ho => by
    simp only [okVars] at ho
    simp only [substG]; exact .tuple (substG_substGList' hm hle ts ho)
  | .list a, ho => by
    simp only [okVars] at ho
    simp only [substG]; exact .list (substG_substG' hm hle a ho)
  | .map k v, ho => by
    simp only [okVars, Bool.and_eq_true] at ho
    simp only [substG]; exact .map (substG_substG' hm hle k ho.1) (substG_substG' hm hle v ho.2)
  | .obj fs, ho => by
    simp only [okVars] at ho
    simp only [substG]
    refine .obj (by simp only [length_substGFields]) (fun n => by
      simp only [find?_substGFields, Option.isSome_map]) ?_
    intro n t' u' ht' hu'
    obtain ⟨t1, ht1, rfl⟩ := find?_substGFields_some ht'
    obtain ⟨t, ht, rfl⟩ := find?_substGFields_some ht1
    obtain ⟨t2, ht2, rfl⟩ := find?_substGFields_some hu'
    have : t = t2 := by simpa [ht] using ht2
    subst this
    exact substG_substGFields' hm hle fs ho n t ht
  | .fn _ ps r, ho => by
    simp only [okVars, Bool.and_eq_true] at ho
    simp only [substG]
    exact .fn (substG_substGList' hm hle ps ho.1) (substG_substG' hm hle r ho.2)
  | .maybe a, ho => by
    simp only [okVars] at ho
    simp only [substG]; exact .maybe (substG_substG' hm hle a ho)
theorem substG_substGList' {m m1 : Subst} (hm : OkG m) (hle : m.le m1) : ∀ ps,
    okVarsList ps = true → StructEqList (substGList m1 (substGList m ps)) (substGList m1 ps)
  | .nil, _ => by simp only [substGList]; exact .nil
  | .cons p ps, ho => by
    simp only [okVarsList, Bool.and_eq_true] at ho
    simp only [substGList]
    exact .cons (substG_substG' hm hle p ho.1) (substG_substGList' hm hle ps ho.2)
theorem substG_substGFields' {m m1 : Subst} (hm : OkG m) (hle : m.le m1) :
    ∀ (fs : FieldList), okVarsFields fs = true → ∀ n t, fs.find? n = some t →
      StructEq (substG m1 (substG m t)) (substG m1 t)
  | .nil, _, n, t, h => by simp [FieldList.find?] at h
  | .cons k t' fs, ho, n, t, h => by
    simp only [okVarsFields, Bool.and_eq_true] at ho
    simp only [FieldList.find?] at h
    split at h
    · cases h; exact substG_substG' hm hle t' ho.1
    · exact substG_substGFields' hm hle fs ho.2 n t h
end

/-! ### soundness of matching under a substitution with junk bindings -/

/-- Bindings of names no signature may use are the same in `m` and `m'`. -/
def JunkEq (m m' : Subst) : Prop := ∀ n, okVarName n = false → m'.get? n = m.get? n

theorem JunkEq.refl (m : Subst) : JunkEq m m := fun _ _ => rfl

theorem JunkEq.trans {a b c : Subst} (h1 : JunkEq a b) (h2 : JunkEq b c) : JunkEq a c :=
  fun n hn => (h2 n hn).trans (h1 n hn)

/-- `USound` with `Subst.Ground m` weakened to `OkG m` (for patterns whose variables are
signature variables), and strengthened: junk bindings are untouched, and when the returned type
is `tyEq` to `g` the instance is structurally equal to `g`. -/
def USnd (f : Nat) : Prop :=
  ∀ p g m t m', slotFree g = true → g.wf = true → okVars p = true → p.wf = true → OkG m →
    unify f p g m = .ok (t, m') →
    OkG m' ∧ Subst.le m m' ∧ JunkEq m m' ∧ (tyEq t g = true → StructEq (substG m' p) g)

def USndComp (f : Nat) : Prop :=
  ∀ p g m t m', slotFree g = true → g.wf = true → okVars p = true → p.wf = true → OkG m →
    unifyComposite f p g m = .ok (t, m') →
    OkG m' ∧ Subst.le m m' ∧ JunkEq m m' ∧ (tyEq t g = true → StructEq (substG m' p) g)

theorem usnd_zero : USnd 0 := by
  intro p g m t m' _ _ _ _ _ h
  simp [unify] at h

theorem prim_structEq (m : Subst) {p g : Ty}
    (h : (p.isPrimitive && g.isPrimitive && p.kind == g.kind) = true) :
    StructEq (substG m p) g := by
  cases p <;> cases g <;>
    simp [Ty.isPrimitive, Ty.kind, Kind.isPrimitive] at h <;>
    simp only [substG] <;> constructor

theorem botTop_structEq (m : Subst) {p g : Ty} (hp : p.kind ≠ .tyvar)
    (h : (g.kind == .bot || p.kind == .top) = true) (he : tyEq p g = true) :
    StructEq (substG m p) g := by
  simp only [Bool.or_eq_true, beq_iff_eq] at h
  rcases h with h | h
  · cases g <;> simp [Ty.kind] at h
    cases p <;> simp [tyEq] at he
    simp only [substG]; exact .bot
  · cases p <;> simp [Ty.kind] at h
    cases g <;> simp [tyEq] at he
    simp only [substG]; exact .top

theorem usnd_succ {f : Nat} (hc : USndComp f) : USnd (f+1) := by
  intro p g m t m' hg hw hpo hpw hm h
  have hgk := slotFree_kind hg
  by_cases hp : p.kind = .tyvar
  · cases p <;> simp [Ty.kind] at hp
    rename_i xn
    simp only [okVars] at hpo
    rw [unify_var_left f xn g m hgk] at h
    simp only [UM.bind_eq_ok] at h
    obtain ⟨y1, hy1, h⟩ := h
    rw [applySubst_ground f m g y1 hg hy1] at h
    have hfin : (∀ k, m.get? xn = some k → tyEq k g = true) →
        (pure (g, m.set xn g) : UM (Ty × Subst)) = .ok (t, m') →
        OkG m' ∧ Subst.le m m' ∧ JunkEq m m' ∧
          (tyEq t g = true → StructEq (substG m' (.var xn)) g) := by
      intro hk h
      have h := UM.pure_eq_ok.1 h
      cases h
      refine ⟨OkG.set hm hg hw, Subst.le_set (fun k hk' => ?_), ?_, fun _ => ?_⟩
      · exact tyEq_sound k g (hm xn k hpo hk').2 (hk k hk')
      · intro n hn
        exact Subst.get?_set_ne _ _ _ _ (ne_of_ok hpo hn)
      · simp only [substG, Subst.get?_set_self]; exact StructEq.refl _
    split at h
    · split at h
      · next k hk =>
        split at h
        · exact absurd h UM.throw_ne_ok
        · next hne =>
          refine hfin (fun k' hk' => ?_) h
          rw [hk] at hk'; cases hk'
          simpa using hne
      · next hk => exact hfin (fun k' hk' => by rw [hk] at hk'; cases hk') h
    · exact absurd h UM.throw_ne_ok
  · rw [unify_nonvar f p g m hp hgk] at h
    split at h
    · next hc1 =>
      have h := UM.pure_eq_ok.1 h
      cases h
      exact ⟨hm, Subst.le_refl m, JunkEq.refl m, fun _ => prim_structEq m hc1⟩
    · split at h
      · exact hc p g m t m' hg hw hpo hpw hm h
      · split at h
        · next hc3 =>
          have h := UM.pure_eq_ok.1 h
          cases h
          exact ⟨hm, Subst.le_refl m, JunkEq.refl m, fun he => botTop_structEq m hp hc3 he⟩
        · exact absurd h UM.throw_ne_ok

theorem usnd_list {f : Nat} (hu : USnd f) : ∀ ps gs m ts m',
    slotFreeList gs = true → wfList gs = true → okVarsList ps = true → wfList ps = true →
    OkG m → ps.length = gs.length → unifyList f ps gs m = .ok (ts, m') →
    OkG m' ∧ Subst.le m m' ∧ JunkEq m m' ∧
      (tyEqList ts gs = true → StructEqList (substGList m' ps) gs)
  | .nil, .nil, m, ts, m', _, _, _, _, hm, _, h => by
    simp only [unifyList, UM.pure_eq_ok] at h
    cases h
    exact ⟨hm, Subst.le_refl _, JunkEq.refl _, fun _ => .nil⟩
  | .nil, .cons _ _, _, _, _, _, _, _, _, _, hl, _ => by simp [TyList.length] at hl
  | .cons _ _, .nil, _, _, _, _, _, _, _, _, hl, _ => by simp [TyList.length] at hl
  | .cons p ps, .cons g gs, m, ts, m', hg, hw, hpo, hpw, hm, hl, h => by
    simp only [slotFreeList, Bool.and_eq_true] at hg
    simp only [wfList, Bool.and_eq_true] at hw hpw
    simp only [okVarsList, Bool.and_eq_true] at hpo
    simp only [TyList.length, Nat.add_right_cancel_iff] at hl
    simp only [unifyList, UM.bind_eq_ok, UM.pure_eq_ok] at h
    obtain ⟨⟨t, m1⟩, h1, ⟨ts', m2⟩, h2, h3⟩ := h
    cases h3
    obtain ⟨hm1, hle1, hj1, hb1⟩ := hu p g m t m1 hg.1 hw.1 hpo.1 hpw.1 hm h1
    obtain ⟨hm2, hle2, hj2, hb2⟩ :=
      usnd_list hu ps gs m1 ts' m2 hg.2 hw.2 hpo.2 hpw.2 hm1 hl h2
    refine ⟨hm2, Subst.le_trans hle1 hle2, JunkEq.trans hj1 hj2, fun he => ?_⟩
    simp only [tyEqList, Bool.and_eq_true] at he
    simp only [substGList]
    exact .cons (substG_monoS hle2 p g hg.1 (hb1 he.1)) (hb2 he.2)

theorem usnd_params {f : Nat} (hu : USnd f) : ∀ ps gs m ts m',
    slotFreeList gs = true → wfList gs = true → okVarsList ps = true → wfList ps = true →
    OkG m → ps.length = gs.length → unifyParams f ps gs m = .ok (ts, m') →
    OkG m' ∧ Subst.le m m' ∧ JunkEq m m' ∧
      (tyEqList ts gs = true → StructEqList (substGList m' ps) gs)
  | .nil, .nil, m, ts, m', _, _, _, _, hm, _, h => by
    simp only [unifyParams, UM.pure_eq_ok] at h
    cases h
    exact ⟨hm, Subst.le_refl _, JunkEq.refl _, fun _ => .nil⟩
  | .nil, .cons _ _, _, _, _, _, _, _, _, _, hl, _ => by simp [TyList.length] at hl
  | .cons _ _, .nil, _, _, _, _, _, _, _, _, hl, _ => by simp [TyList.length] at hl
  | .cons p ps, .cons g gs, m, ts, m', hg, hw, hpo, hpw, hm, hl, h => by
    simp only [slotFreeList, Bool.and_eq_true] at hg
    simp only [wfList, Bool.and_eq_true] at hw hpw
    simp only [okVarsList, Bool.and_eq_true] at hpo
    simp only [TyList.length, Nat.add_right_cancel_iff] at hl
    simp only [unifyParams, UM.bind_eq_ok, UM.pure_eq_ok] at h
    obtain ⟨p1, hp1, q1, hq1, ⟨t, m1⟩, h1, ⟨ts', m2⟩, h2, h3⟩ := h
    cases h3
    have hp1w := applySubst_wf m hm f p p1 hpo.1 hpw.1 hp1
    have e1 := applySubst_eq_substG' m hm f p p1 hpo.1 hp1
    have e2 := applySubst_ground f m g q1 hg.1 hq1
    subst e1 e2
    obtain ⟨hm1, hle1, hj1, hb1⟩ :=
      hu _ _ m t m1 hg.1 hw.1 (okVars_substG hm p hpo.1) hp1w hm h1
    obtain ⟨hm2, hle2, hj2, hb2⟩ :=
      usnd_params hu ps gs m1 ts' m2 hg.2 hw.2 hpo.2 hpw.2 hm1 hl h2
    refine ⟨hm2, Subst.le_trans hle1 hle2, JunkEq.trans hj1 hj2, fun he => ?_⟩
    simp only [tyEqList, Bool.and_eq_true] at he
    simp only [substGList]
    have hb1' : StructEq (substG m1 p) q1 :=
      StructEq.trans _ _ _ (StructEq.symm _ _ (substG_substG' hm hle1 p hpo.1)) (hb1 he.1)
    exact .cons (substG_monoS hle2 p q1 hg.1 hb1') (hb2 he.2)

theorem usnd_fields {f : Nat} (hu : USnd f) : ∀ (fs gs : FieldList) m fs' m',
    slotFreeFields gs = true → wfFields gs = true → okVarsFields fs = true →
    wfFields fs = true → OkG m →
    unifyFields f fs gs m = .ok (fs', m') →
    OkG m' ∧ Subst.le m m' ∧ JunkEq m m' ∧
      (tyEqFields fs' gs = true →
        ∀ n t, fs.find? n = some t → ∃ u, gs.find? n = some u ∧ StructEq (substG m' t) u)
  | .nil, gs, m, fs', m', _, _, _, _, hm, h => by
    simp only [unifyFields, UM.pure_eq_ok] at h
    cases h
    exact ⟨hm, Subst.le_refl _, JunkEq.refl _, fun _ n t ht => by simp [FieldList.find?] at ht⟩
  | .cons k t rest, gs, m, fs', m', hg, hw, hpo, hpw, hm, h => by
    simp only [okVarsFields, Bool.and_eq_true] at hpo
    simp only [wfFields, Bool.and_eq_true] at hpw
    simp only [unifyFields] at h
    split at h
    · exact absurd h UM.throw_ne_ok
    · next u hu' =>
      simp only [UM.bind_eq_ok, UM.pure_eq_ok] at h
      obtain ⟨⟨t', m1⟩, h1, ⟨fs1, m2⟩, h2, h3⟩ := h
      cases h3
      have hgu := slotFreeFields_find gs k u hg hu'
      obtain ⟨hm1, hle1, hj1, hb1⟩ :=
        hu t u m t' m1 hgu (wfFields_find gs k u hw hu') hpo.1 hpw.1.2 hm h1
      obtain ⟨hm2, hle2, hj2, hb2⟩ :=
        usnd_fields hu rest gs m1 fs1 m2 hg hw hpo.2 hpw.2 hm1 h2
      refine ⟨hm2, Subst.le_trans hle1 hle2, JunkEq.trans hj1 hj2, fun he => ?_⟩
      simp only [tyEqFields, hu', Bool.and_eq_true] at he
      intro n t0 ht0
      simp only [FieldList.find?] at ht0
      split at ht0
      · next hkn =>
        cases ht0; subst hkn
        exact ⟨u, hu', substG_monoS hle2 t u hgu (hb1 he.1)⟩
      · exact hb2 he.2 n t0 ht0

theorem usnd_comp {f : Nat} (hu : USnd f) : USndComp f := by
  intro p g m t m' hg hw hpo hpw hm h
  cases p with
  | list a =>
    cases g with
    | list b =>
      simp only [unifyComposite, UM.bind_eq_ok, UM.pure_eq_ok] at h
      obtain ⟨⟨el, m1⟩, h1, h2⟩ := h
      cases h2
      obtain ⟨hm1, hle1, hj1, hb1⟩ := hu a b m el m1 (by simpa [slotFree] using hg)
        (by simpa [Ty.wf] using hw) (by simpa [okVars] using hpo) (by simpa [Ty.wf] using hpw)
        hm h1
      exact ⟨hm1, hle1, hj1, fun he => by
        simp only [substG]; exact .list (hb1 (by simpa [tyEq] using he))⟩
    | _ => simp [unifyComposite] at h
  | maybe a =>
    cases g with
    | maybe b =>
      simp only [unifyComposite, UM.bind_eq_ok, UM.pure_eq_ok] at h
      obtain ⟨⟨el, m1⟩, h1, h2⟩ := h
      cases h2
      obtain ⟨hm1, hle1, hj1, hb1⟩ := hu a b m el m1 (by simpa [slotFree] using hg)
        (by simpa [Ty.wf] using hw) (by simpa [okVars] using hpo) (by simpa [Ty.wf] using hpw)
        hm h1
      exact ⟨hm1, hle1, hj1, fun he => by
        simp only [substG]; exact .maybe (hb1 (by simpa [tyEq] using he))⟩
    | _ => simp [unifyComposite] at h
  | map k v =>
    cases g with
    | map k' v' =>
      simp only [slotFree, Bool.and_eq_true] at hg
      simp only [Ty.wf, Bool.and_eq_true] at hw hpw
      simp only [okVars, Bool.and_eq_true] at hpo
      simp only [unifyComposite, UM.bind_eq_ok, UM.pure_eq_ok, mkMap_eq_ok] at h
      obtain ⟨⟨k1, m1⟩, h1, ⟨v1, m2⟩, h2, t', ⟨_, rfl⟩, h3⟩ := h
      cases h3
      obtain ⟨hm1, hle1, hj1, hb1⟩ := hu k k' m k1 m1 hg.1 hw.1.2 hpo.1 hpw.1.2 hm h1
      obtain ⟨hm2, hle2, hj2, hb2⟩ := hu v v' m1 v1 m2 hg.2 hw.2 hpo.2 hpw.2 hm1 h2
      refine ⟨hm2, Subst.le_trans hle1 hle2, JunkEq.trans hj1 hj2, fun he => ?_⟩
      simp only [tyEq, Bool.and_eq_true] at he
      simp only [substG]
      exact .map (substG_monoS hle2 k k' hg.1 (hb1 he.1)) (hb2 he.2)
    | _ => simp [unifyComposite] at h
  | tuple xs =>
    cases g with
    | tuple ys =>
      simp only [unifyComposite] at h
      split at h
      · exact absurd h UM.throw_ne_ok
      · next hl =>
        simp only [UM.bind_eq_ok, UM.pure_eq_ok] at h
        obtain ⟨⟨ts, m1⟩, h1, h2⟩ := h
        cases h2
        obtain ⟨hm1, hle1, hj1, hb1⟩ := usnd_list hu xs ys m ts m1
          (by simpa [slotFree] using hg) (by simpa [Ty.wf] using hw)
          (by simpa [okVars] using hpo) (by simpa [Ty.wf] using hpw) hm (by simpa using hl) h1
        exact ⟨hm1, hle1, hj1, fun he => by
          simp only [substG]; exact .tuple (hb1 (by simpa [tyEq] using he))⟩
    | _ => simp [unifyComposite] at h
  | obj xfs =>
    cases g with
    | obj yfs =>
      simp only [unifyComposite] at h
      split at h
      · exact absurd h UM.throw_ne_ok
      · next hl =>
        simp only [UM.bind_eq_ok, UM.pure_eq_ok] at h
        obtain ⟨⟨fs, m1⟩, h1, h2⟩ := h
        cases h2
        have hxw : wfFields xfs = true := by simpa [Ty.wf] using hpw
        obtain ⟨hm1, hle1, hj1, hb1⟩ := usnd_fields hu xfs yfs m fs m1
          (by simpa [slotFree] using hg) (by simpa [Ty.wf] using hw)
          (by simpa [okVars] using hpo) hxw hm h1
        refine ⟨hm1, hle1, hj1, fun he => ?_⟩
        simp only [tyEq, Bool.and_eq_true] at he
        have hb1 := hb1 he.2
        have hlen : xfs.length = yfs.length := by simpa using hl
        simp only [substG]
        refine .obj (by rw [length_substGFields]; exact hlen) ?_ ?_
        · intro n
          rw [find?_substGFields, Option.isSome_map]
          refine find?_isSome_eq_of_sub hxw hlen (fun n hn => ?_) n
          obtain ⟨t0, ht0⟩ := Option.isSome_iff_exists.1 hn
          obtain ⟨u, hu', _⟩ := hb1 n t0 ht0
          simp [hu']
        · intro n t' u ht' hu'
          obtain ⟨t0, ht0, rfl⟩ := find?_substGFields_some ht'
          obtain ⟨u', hu'', hb⟩ := hb1 n t0 ht0
          have : u = u' := by simpa [hu'] using hu''
          subst this; exact hb
    | _ => simp [unifyComposite] at h
  | fn name ps r =>
    cases g with
    | fn name' qs s =>
      simp only [slotFree, Bool.and_eq_true] at hg
      simp only [Ty.wf, Bool.and_eq_true] at hw hpw
      simp only [okVars, Bool.and_eq_true] at hpo
      simp only [unifyComposite] at h
      split at h
      · exact absurd h UM.throw_ne_ok
      · next hl =>
        simp only [UM.bind_eq_ok, UM.pure_eq_ok] at h
        obtain ⟨⟨ps', m1⟩, h1, ⟨r', m2⟩, h2, h3⟩ := h
        cases h3
        obtain ⟨hm1, hle1, hj1, hb1⟩ := usnd_params hu ps qs m ps' m1 hg.1 hw.1 hpo.1 hpw.1 hm
          (by simpa using hl) h1
        obtain ⟨hm2, hle2, hj2, hb2⟩ := hu r s m1 r' m2 hg.2 hw.2 hpo.2 hpw.2 hm1 h2
        refine ⟨hm2, Subst.le_trans hle1 hle2, JunkEq.trans hj1 hj2, fun he => ?_⟩
        simp only [tyEq, Bool.and_eq_true] at he
        simp only [substG]
        exact .fn (substG_monoSList hle2 ps qs hg.1 (hb1 he.1)) (hb2 he.2)
    | _ => simp [unifyComposite] at h
  | _ => simp [unifyComposite] at h

theorem usnd : ∀ f, USnd f
  | 0 => usnd_zero
  | f+1 => usnd_succ (usnd_comp (usnd f))

/-! ### the first `unify` of `inferFun`: binding the fresh names -/

theorem applySubst_var_none {f : Nat} {m : Subst} {n : String} (h : m.get? n = none) :
    applySubst f m (.var n) = .ok (.var n) := by
  rw [applySubst.eq_1]; simp only [h]; rfl

/-- chasing a bound variable: either it is bound to itself or `applySubst` continues with the
binding -/
theorem applySubst_chase {f : Nat} {m : Subst} {n : String} {r x : Ty}
    (hn : m.get? n = some r) (h : applySubst f m (.var n) = .ok x) :
    r = .var n ∨ ∃ f', applySubst f' m r = .ok x := by
  rw [applySubst.eq_1] at h
  split at h
  · next hn' => rw [hn] at hn'; cases hn'
  · next r' hn' =>
    rw [hn] at hn'; cases hn'
    split at h
    · split at h
      · next e => left; rw [e]
      · cases f with
        | zero => simp at h
        | succ f => exact Or.inr ⟨f, h⟩
    · cases f with
      | zero => simp at h
      | succ f => exact Or.inr ⟨f, h⟩

theorem applySubst_noOk {f : Nat} {m : Subst} (hm : NoOk m) {t t' : Ty} (ht : okVars t = true)
    (h : applySubst f m t = .ok t') : t' = t := by
  rw [applySubst_eq_substG' m hm.okG f t t' ht h, substG_noOk hm t ht]

/-- `unify (var x) p m` for a junk name `x` not bound in `m` binds it to `p` -/
theorem unify_bind_junk (f : Nat) (x : String) (p : Ty) (m : Subst) (t : Ty) (m' : Subst)
    (hx : okVarName x = false) (hp : okVars p = true) (hm : NoOk m) (hxm : m.get? x = none)
    (h : unify (f+1) (.var x) p m = .ok (t, m')) : m' = m.set x p := by
  by_cases hk : p.kind = .tyvar
  · cases p <;> simp [Ty.kind] at hk
    rename_i b
    simp only [okVars] at hp
    have hne : b ≠ x := ne_of_ok hp hx
    simp only [unify, applySubst_var_none hxm, applySubst_var_none (hm b hp), UM.ok_bind] at h
    have hxb : (x == b) = false := by simp [Ne.symm hne]
    simp only [pure_bind, tyEq, hxb, Ty.isPrimitive, Ty.isComposite, Ty.kind, Kind.isPrimitive,
      Kind.isComposite, freeFrom, hxm, Bool.false_eq_true, if_false, Bool.and_false,
      Bool.false_and, bne_iff_ne, ne_eq, hne, not_false_eq_true, if_true] at h
    cases UM.pure_eq_ok.1 h; rfl
  · rw [unify_var_left f x p m hk] at h
    simp only [UM.bind_eq_ok] at h
    obtain ⟨y1, hy1, h⟩ := h
    have := applySubst_noOk hm hp hy1
    subst this
    rw [okVars_freeFrom hx _ hp] at h
    simp only [hxm, if_true] at h
    cases UM.pure_eq_ok.1 h; rfl

/-- the names `s<start>`, `s<start+1>`, … are bound to the given types, in order -/
def Bound (m : Subst) : Nat → TyList → Prop
  | _, .nil => True
  | s, .cons p ps => m.get? (freshName "s" s) = some p ∧ Bound m (s+1) ps

theorem Bound.congr {m m' : Subst} (h : ∀ j, m'.get? (freshName "s" j) = m.get? (freshName "s" j)) :
    ∀ (start : Nat) (ps : TyList), Bound m start ps → Bound m' start ps
  | _, .nil, _ => trivial
  | s, .cons p ps, hb => ⟨by rw [h s]; exact hb.1, Bound.congr h (s+1) ps hb.2⟩

theorem phase1_list (f : Nat) : ∀ (ps : TyList) (start : Nat) (m : Subst) ts m',
    okVarsList ps = true → NoOk m → (∀ j, start ≤ j → m.get? (freshName "s" j) = none) →
    unifyList (f+1) (freshVars "s" start ps.length) ps m = .ok (ts, m') →
    NoOk m' ∧ Bound m' start ps ∧
      (∀ n, (∀ j, start ≤ j → n ≠ freshName "s" j) → m'.get? n = m.get? n)
  | .nil, start, m, ts, m', _, hm, _, h => by
    simp only [TyList.length, freshVars, unifyList, UM.pure_eq_ok] at h
    cases h
    exact ⟨hm, trivial, fun _ _ => rfl⟩
  | .cons p ps, start, m, ts, m', hpo, hm, hfree, h => by
    simp only [okVarsList, Bool.and_eq_true] at hpo
    simp only [TyList.length, freshVars, unifyList, UM.bind_eq_ok, UM.pure_eq_ok] at h
    obtain ⟨⟨t, m1⟩, h1, ⟨ts', m2⟩, h2, h3⟩ := h
    cases h3
    have e := unify_bind_junk f _ p m t m1 (okVarName_s start) hpo.1 hm
      (hfree start (Nat.le_refl _)) h1
    subst e
    have hm1 : NoOk (m.set (freshName "s" start) p) := hm.set (okVarName_s start)
    have hfree1 : ∀ j, start + 1 ≤ j →
        (m.set (freshName "s" start) p).get? (freshName "s" j) = none := by
      intro j hj
      rw [Subst.get?_set_ne _ _ _ _ (fun e => by have := freshName_inj "s" e; omega)]
      exact hfree j (by omega)
    obtain ⟨hm2, hb2, hfr2⟩ := phase1_list f ps (start+1) _ ts' m2 hpo.2 hm1 hfree1 h2
    refine ⟨hm2, ⟨?_, hb2⟩, fun n hn => ?_⟩
    · rw [hfr2 _ (fun j hj e => by have := freshName_inj "s" e; omega), Subst.get?_set_self]
    · rw [hfr2 n (fun j hj => hn j (by omega)),
        Subst.get?_set_ne _ _ _ _ (Ne.symm (hn start (Nat.le_refl _)))]

theorem length_freshVars (pre : String) : ∀ (k start : Nat), (freshVars pre start k).length = k
  | 0, _ => rfl
  | k+1, start => by simp [freshVars, TyList.length, length_freshVars pre k (start+1)]

theorem applySubst_nil {f : Nat} {t t' : Ty} (h : applySubst f [] t = .ok t') : t' = t := by
  rw [applySubst_eq_substG [] Subst.ground_nil f t t' h, substG_nil]

/-- The first `unify` of `inferFun` binds `s<i> ↦ param_i` and `t<n> ↦ ret`, nothing else. -/
theorem phase1 (f : Nat) (name : String) (start tn : Nat) (ps : TyList) (k : Nat) (ret x : Ty)
    (m : Subst) (hpo : okVarsList ps = true) (hro : okVars ret = true)
    (h : unify (f+3)
          (.fn name (.cons (.tuple (freshVars "s" start k)) .nil) (.var (freshName "t" tn)))
          (.fn name (.cons (.tuple ps) .nil) ret) [] = .ok (x, m)) :
    k = ps.length ∧ NoOk m ∧ Bound m start ps ∧ m.get? (freshName "t" tn) = some ret := by
  rw [unify_nonvar _ _ _ _ (by simp [Ty.kind]) (by simp [Ty.kind])] at h
  simp only [Ty.isPrimitive, Ty.isComposite, Ty.kind, Kind.isPrimitive, Kind.isComposite,
    Bool.false_and, Bool.false_eq_true, if_false, beq_self_eq_true, if_true,
    Bool.and_self] at h
  simp only [unifyComposite, TyList.length, bne_self_eq_false, Bool.false_eq_true, if_false,
    unifyParams, UM.bind_eq_ok, UM.pure_eq_ok] at h
  obtain ⟨⟨ps', m1⟩, ⟨p1, hp1, q1, hq1, ⟨t1, m0⟩, h1, ⟨ts0, m0'⟩, h2, h3⟩, ⟨r', m2⟩, h4, h5⟩ := h
  cases h2; cases h3; cases h5
  simp only at h4
  have e1 := applySubst_nil hp1
  have e2 := applySubst_nil hq1
  subst e1 e2
  rw [unify_nonvar _ _ _ _ (by simp [Ty.kind]) (by simp [Ty.kind])] at h1
  simp only [Ty.isPrimitive, Ty.isComposite, Ty.kind, Kind.isPrimitive, Kind.isComposite,
    Bool.false_and, Bool.false_eq_true, if_false, beq_self_eq_true, if_true,
    Bool.and_self] at h1
  simp only [unifyComposite, length_freshVars] at h1
  split at h1
  · exact absurd h1 UM.throw_ne_ok
  · next hl =>
    have hl : k = ps.length := by simpa using hl
    subst hl
    simp only [UM.bind_eq_ok, UM.pure_eq_ok] at h1
    obtain ⟨⟨ts, m3⟩, h1, h6⟩ := h1
    cases h6
    obtain ⟨hm3, hb3, hfr3⟩ := phase1_list f ps start [] ts m3 hpo
      (fun _ _ => rfl) (fun _ _ => rfl) h1
    have ht0 : m3.get? (freshName "t" tn) = none := by
      rw [hfr3 _ (fun j _ e => s_ne_t j tn e.symm)]; rfl
    have e := unify_bind_junk (f+1) _ ret m3 r' _ (okVarName_t tn) hro hm3 ht0 h4
    subst e
    refine ⟨rfl, hm3.set (okVarName_t tn), ?_, Subst.get?_set_self _ _ _⟩
    exact Bound.congr (fun j => Subst.get?_set_ne _ _ _ _ (Ne.symm (s_ne_t j tn))) start ps hb3

/-! ### `applySubst` of the fresh tuple gives back the parameters -/

theorem phase2 (f : Nat) (m : Subst) (hm : NoOk m) : ∀ (ps : TyList) (start : Nat) (r : TyList),
    okVarsList ps = true → Bound m start ps →
    applySubstList f m (freshVars "s" start ps.length) = .ok r → r = ps
  | .nil, _, r, _, _, h => by
    simp only [TyList.length, freshVars, applySubstList, UM.pure_eq_ok] at h
    exact h.symm
  | .cons p ps, start, r, hpo, hb, h => by
    simp only [okVarsList, Bool.and_eq_true] at hpo
    simp only [TyList.length, freshVars, applySubstList, UM.bind_eq_ok, UM.pure_eq_ok] at h
    obtain ⟨x, hx, y, hy, rfl⟩ := h
    have ey := phase2 f m hm ps (start+1) y hpo.2 hb.2 hy
    subst ey
    rcases applySubst_chase hb.1 hx with e | ⟨f', hf'⟩
    · subst e
      have := hpo.1
      simp only [okVars, okVarName_s] at this
      cases this
    · rw [applySubst_noOk hm hpo.1 hf']

/-! ### the substitution: the signature-variable part of the final `m` -/

def okPart (m : Subst) : Subst := m.filter (fun e => okVarName e.1)

theorem get?_okPart : ∀ (m : Subst) (n : String),
    (okPart m).get? n = if okVarName n = true then m.get? n else none
  | [], n => by simp [okPart, Subst.get?]
  | (k, v) :: rest, n => by
    have ih := get?_okPart rest n
    unfold okPart at ih ⊢
    simp only [List.filter]
    by_cases hk : okVarName k = true
    · simp only [hk, Subst.get?]
      by_cases hkn : k = n
      · subst hkn; simp [hk]
      · simp only [hkn, if_false]; exact ih
    · simp only [hk]
      rw [ih]
      by_cases hn : okVarName n = true
      · have hkn : k ≠ n := by rintro rfl; exact hk hn
        simp [hn, Subst.get?, hkn]
      · simp [hn]

theorem okPart_ground {m : Subst} (hm : OkG m) : (okPart m).Ground := by
  intro n k hk
  rw [get?_okPart] at hk
  split at hk
  · next hn => exact hm n k hn hk
  · cases hk

theorem okPart_agree (m : Subst) : ∀ n, okVarName n = true → (okPart m).get? n = m.get? n := by
  intro n hn; rw [get?_okPart, if_pos hn]

/-! ### the theorem -/

theorem inferFun_inst {ctr : Nat} {name : String} {ps : TyList} {ret : Ty}
    {args ps' : TyList} {ret' : Ty}
    (hps : wfList ps = true) (hret : ret.wf = true)
    (hokp : okVarsList ps = true) (hokr : okVars ret = true)
    (hargs : slotFreeList args = true) (hargsw : wfList args = true)
    (h : inferFun ctr name ps ret args = .ok (ps', ret'))
    (hass : tyEqList ps' args = true) :
    Inst ps ret args ret' := by
  unfold inferFun at h
  simp only [UM.bind_eq_ok] at h
  obtain ⟨⟨x1, m1⟩, h1, targ1, h2, ⟨targ2, m2⟩, h3, h4⟩ := h
  simp only at h2 h3 h4
  -- first `unify`: the junk bindings
  obtain ⟨hlen, hm1, hb1, ht1⟩ := phase1 99997 name (ctr+1) (ctr+args.length+1) ps args.length
    ret x1 m1 hokp hokr h1
  -- `applySubst` of the fresh tuple: the parameters
  simp only [applySubst, UM.bind_eq_ok, UM.pure_eq_ok] at h2
  obtain ⟨r, hr, rfl⟩ := h2
  rw [hlen] at hr
  have er := phase2 _ m1 hm1 ps (ctr+1) r hokp hb1 hr
  subst er
  -- second `unify`: matching against the argument types
  obtain ⟨hm2, _, hj2, hb2⟩ := usnd defaultFuel (.tuple r) (.tuple args) m1 targ2 m2
    (by simpa [slotFree] using hargs) (by simpa [Ty.wf] using hargsw)
    (by simpa [okVars] using hokp) (by simpa [Ty.wf] using hps) hm1.okG h3
  split at h4
  · next ps0 =>
    simp only [UM.bind_eq_ok] at h4
    obtain ⟨tres, h5, h6⟩ := h4
    split at h6
    · exact absurd h6 (by simp [bind, Except.bind, throw, throwThe, MonadExceptOf.throw])
    · next hsf =>
      cases UM.pure_eq_ok.1 h6
      have hsf : slotFree ret' = true := by simpa using hsf
      -- the result type: chase `t ↦ ret`
      have ht2 : m2.get? (freshName "t" (ctr + args.length + 1)) = some ret := by
        rw [hj2 _ (okVarName_t _)]; exact ht1
      have hres : ∃ f', applySubst f' m2 ret = .ok ret' := by
        rcases applySubst_chase ht2 h5 with e | h
        · subst e
          simp only [okVars, okVarName_t] at hokr
          cases hokr
        · exact h
      obtain ⟨f', hf'⟩ := hres
      have hse := hb2 (by simpa [tyEq] using hass)
      simp only [substG] at hse
      cases hse with
      | tuple hse =>
        refine ⟨okPart m2, okPart_ground hm2, ?_, ?_, applySubst_wf m2 hm2 f' ret ret' hokr hret hf',
          hsf⟩
        · rw [substGList_agree (okPart_agree m2) r hokp]; exact hse
        · rw [substG_agree (okPart_agree m2) ret hokr]
          exact applySubst_eq_substG' m2 hm2 f' ret ret' hokr hf'
  · exact absurd h4 UM.throw_ne_ok

end Yae.Sound

#print axioms Yae.Sound.inferFun_inst
