/-
  The induction on fuel: every annotated tree evaluates, in a conforming environment, to a
  value of its type or stops with an allowed failure; with more fuel than the depth of the tree
  it never runs out of fuel.
-/
import Yae.Proofs.SoundnessCall
namespace Yae.Sound

theorem resolveStatic_mem {funs : List FunDecl} {key : String} {i : Int} {d : FunDecl}
    (h : resolveStatic funs key i = some d) : d ∈ funs := by
  unfold resolveStatic at h
  split at h
  · exact (lookupMono_some h).1
  · exact lookupPoly_some h

theorem tyEq_num_right {a : Ty} (h : tyEq a .num = true) : a = .num := by
  cases a <;> simp [tyEq] at h; rfl

section
variable {Γ : TEnv} {ρ : REnv} {dbg : Bool} {fuel : Nat}

theorem evalOK_zero : EvalOK Γ ρ dbg 0 := by
  intro e T _
  simp only [eval]
  exact Sat.fuel (by omega)

theorem evalOK_succ (hf : FunsOK Γ.funs) (henv : EnvOK Γ ρ) (ih : EvalOK Γ ρ dbg fuel) :
    EvalOK Γ ρ dbg (fuel+1) := by
  have hvars : VarsOK Γ := henv.tys
  intro e T hA
  have hT := ann_wf hvars e T hA
  cases hA with
  | str => simp only [eval]; exact Sat.pure ⟨rfl, rfl⟩
  | num => simp only [eval]; exact Sat.pure ⟨rfl, rfl⟩
  | time => simp only [eval]; exact Sat.pure ⟨rfl, rfl⟩
  | bool => simp only [eval]; exact Sat.pure ⟨rfl, rfl⟩
  | listNil => simp only [eval]; exact Sat.pure ⟨rfl, rfl⟩
  | @listCons p e es el a1 rest =>
    have hel := (ann_wf hvars e el a1).1
    simp only [eval]
    refine Sat.bind (evalElems_ok hvars ih hel (.cons e es) (.cons a1 (tyEq_refl' hel) rest))
      (by simp only [Expr.depth]; omega) (fun vs hvs => ?_)
    exact Sat.pure ⟨by simp [WF, hvs, hT.1], tyEq_refl' hT.1⟩
  | mapNil => simp only [eval]; exact Sat.pure ⟨rfl, rfl⟩
  | @mapCons p k v ps kT vT a1 hp a2 rest =>
    have hk := (ann_wf hvars k kT a1).1
    have hv := (ann_wf hvars v vT a2).1
    simp only [eval]
    refine Sat.bind (evalPairs_ok hvars ih hk hp hv (.cons k v ps) .nil
      (.cons a1 (tyEq_refl' hk) a2 (tyEq_refl' hv) rest) rfl)
      (by simp only [Expr.depth]; omega) (fun es hes => ?_)
    exact Sat.pure ⟨by simp [WF, hes, hT.1], tyEq_refl' hT.1⟩
  | @obj p fs tys a1 hsh =>
    cases fs with
    | nil =>
      cases a1
      simp only [eval]
      exact Sat.pure ⟨rfl, rfl⟩
    | cons n e fs =>
      simp only [eval]
      refine Sat.bind (evalFields_ok ih _ tys a1) (by simp only [Expr.depth]; omega)
        (fun vs hvs => ?_)
      exact Sat.pure ⟨by simp [WF, hvs, hT.1], tyEq_refl' hT.1⟩
  | @ident p name T hl =>
    obtain ⟨v, hv, hvT⟩ := henv.vars name T hl
    simp only [eval, hv]
    exact Sat.recDbg hvT
  | @callStatic p col callee args cty resolved index As d n ps ret T hargs hne hres hty hinst =>
    obtain ⟨σ, hσ, hse, rfl, hTw, hTs⟩ := hinst
    have hmem := resolveStatic_mem hres
    have hok := hf d hmem
    have hd : d = ⟨.fn n ps ret, d.ref, d.isLazy⟩ := by cases d; simp_all
    rw [hd] at hok
    simp only [eval, hne, henv.funs, hres, Bool.false_eq_true, if_false]
    refine Sat.bind (callFun_ok hvars ih hok hσ hargs hse hTw)
      (by simp only [Expr.depth]; omega) (fun v hv => ?_)
    exact Sat.recDbg hv
  | @callDyn p col callee args cty index As n ps ret T hcallee hargs hinst =>
    obtain ⟨σ, hσ, hse, rfl, hTw, hTs⟩ := hinst
    obtain ⟨hfw, hfs⟩ := ann_wf hvars callee _ hcallee
    simp only [eval, beq_self_eq_true, if_true]
    refine Sat.bind (Q := fun v => HasTy v (substG σ ret)) ?_ id (fun v hv => Sat.recDbg hv)
    refine Sat.bind (ih callee _ hcallee) (by simp only [Expr.depth]; omega) (fun fv hfv => ?_)
    obtain ⟨n', ps', r', ref, l, rfl, hok, hte⟩ := hfv.fn_inv
    simp only []
    -- the static function type is variable free: the instance is the type itself
    simp only [Ty.wf, slotFree, Bool.and_eq_true] at hfw hfs
    rw [substGList_ground σ ps hfs.1] at hse
    rw [substG_ground σ ret hfs.2] at hTw ⊢
    have hse2 := tyEq_sound _ _ (by simp [Ty.wf, hfw.1, hfw.2]) hte
    cases hse2 with
    | fn hps hr =>
      have hok' := hok
      simp only [declOK, Bool.and_eq_true] at hok'
      have hr'w : r'.wf = true := hok'.1.1.1.2
      have h1 : StructEqList (substGList [] ps') As := by
        rw [substGList_nil]
        exact StructEqList.trans _ _ _ (StructEqList.symm _ _ hps) hse
      have h2 : (substG [] r').wf = true := by rw [substG_nil]; exact hr'w
      refine (callFun_ok hvars ih hok Subst.ground_nil hargs h1 h2).mono (fun v hv => ?_)
        (by simp only [Expr.depth]; omega)
      rw [substG_nil] at hv
      exact hv.convS hr'w hfw.2 hr
  | @subList p col var idx vty el iT a1 a2 he =>
    obtain ⟨hLw, _⟩ := ann_wf hvars var _ a1
    simp only [eval]
    refine Sat.bind (ih var _ a1) (by simp only [Expr.depth]; omega) (fun x hx => ?_)
    obtain ⟨el', vs, rfl, hw', hwl, hee⟩ := hx.list_inv
    refine Sat.bind (Q := fun v => HasTy v T) ?_ id (fun v hv => Sat.recDbg hv)
    simp only []
    refine Sat.bind (ih idx _ a2) (by simp only [Expr.depth]; omega) (fun i hi => ?_)
    have := tyEq_num_right he; subst this
    obtain ⟨f, rfl⟩ := hi.num_inv
    simp only []
    split
    · exact Sat.fail trivial
    · split
      · next v hv =>
        obtain ⟨h1, h2⟩ := WFList_get? el' vs _ v hwl hv
        exact Sat.pure ⟨h1, tyEq_trans' hT.1 (by simpa [Ty.wf] using hw') hee h2⟩
      · exact Sat.fail trivial
  | @subMap p col var idx vty k v iT a1 a2 he =>
    obtain ⟨hMw, hMs⟩ := ann_wf hvars var _ a1
    obtain ⟨hiw, _⟩ := ann_wf hvars idx _ a2
    simp only [eval]
    refine Sat.bind (ih var _ a1) (by simp only [Expr.depth]; omega) (fun x hx => ?_)
    obtain ⟨k', v', es, rfl, hw', hwe, hke, hve⟩ := hx.map_inv
    refine Sat.bind (Q := fun w => HasTy w T) ?_ id (fun w hw => Sat.recDbg hw)
    simp only []
    refine Sat.bind (ih idx _ a2) (by simp only [Expr.depth]; omega) (fun i hi => ?_)
    simp only [Ty.wf, slotFree, Bool.and_eq_true] at hMw hMs hw'
    have hik : HasTy i k := hi.conv hiw hMw.1.2 (by rw [tyEq_symm' hMw.1.2 hiw]; exact he)
    rcases keyable_ground hMw.1.1 hMs.1 with hprim | rfl
    · obtain ⟨ks, hks⟩ := hik.key_of_prim hprim
      simp only [hks]
      split
      · next w hw =>
        obtain ⟨h1, h2⟩ := WFEntries_find? k' v' es _ ks w hwe hw
        exact Sat.pure ⟨h1, tyEq_trans' hT.1 hw'.2 hve h2⟩
      · exact Sat.fail trivial
    · exact absurd hik HasTy.bot_inv
  | @member p col o field fp oty index fs T a1 hfind =>
    obtain ⟨hOw, _⟩ := ann_wf hvars o _ a1
    simp only [eval]
    refine Sat.bind (ih o _ a1) (by simp only [Expr.depth]; omega) (fun x hx => ?_)
    obtain ⟨gs, vs, rfl, hw', hwo, hte⟩ := hx.obj_inv
    refine Sat.bind (Q := fun w => HasTy w T) ?_ id (fun w hw => Sat.recDbg hw)
    simp only []
    obtain ⟨v, hv, hvT⟩ := objGet_of_hasTy hOw hw' hwo hte hfind
    simp only [hv]
    exact Sat.pure hvT

theorem evalOK (hf : FunsOK Γ.funs) (henv : EnvOK Γ ρ) : ∀ fuel, EvalOK Γ ρ dbg fuel
  | 0 => evalOK_zero
  | fuel+1 => evalOK_succ hf henv (evalOK hf henv fuel)

end

end Yae.Sound
