/-
  A statically dispatched call to a total strict built-in (every strict built-in except `%`,
  `match`, `strtotime`; in particular the `get`-with-default family) never fails once its
  arguments have been evaluated.
-/
import Yae.Proofs.SoundnessExample
namespace Yae.Sound

theorem recDbg_ok (dbg : Bool) (v : Val) (col : Int) (log : List Event) :
    ∃ log', recDbg dbg v col log = (.ok v, log') := by
  cases dbg
  · exact ⟨_, rfl⟩
  · exact ⟨_, rfl⟩

theorem call_builtin_total {Γ : TEnv} {ρ : REnv} (hf : FunsOK Γ.funs) (henv : EnvOK Γ ρ)
    {p : Pos} {col : Int} {callee : Expr} {args : ExprList} {cty : Option Ty}
    {resolved : String} {index : Int} {T : Ty}
    (hA : Ann Γ (.call p col callee args cty resolved index) T)
    (hne : (resolved == "") = false)
    {d : FunDecl} (hres : resolveStatic Γ.funs resolved index = some d)
    {i : Nat} {b : BuiltinDecl} (hd : d.ref = .builtin i) (hb : builtins[i]? = some b)
    (hstrict : b.isLazy = false)
    (hid : b.id ≠ .MOD_NUM_NUM ∧ b.id ≠ .MATCH_STR_STR ∧ b.id ≠ .STRTOTIME_STR)
    {fuel : Nat} {dbg : Bool} {log log1 : List Event} {vs : ValList}
    (hargs : evalList fuel dbg ρ args log = (.ok vs, log1)) :
    ∃ v log', eval (fuel+1) dbg ρ (.call p col callee args cty resolved index) log =
      (.ok v, log') ∧ HasTy v T := by
  have hvars : VarsOK Γ := henv.tys
  cases hA with
  | @callStatic _ _ _ _ _ _ _ As d' n ps ret _ hargsA _ hres' hty hinst =>
    rw [hres] at hres'; cases hres'
    obtain ⟨σ, hσ, hse, rfl, hTw, hTs⟩ := hinst
    have hok := hf d (resolveStatic_mem hres)
    simp only [declOK, hty, hd, hb, Bool.and_eq_true, beq_iff_eq] at hok
    obtain ⟨⟨⟨⟨hpsw, hretw⟩, hokp⟩, hokr⟩, hbeq, hlz⟩ := hok
    have hty' : b.ty = .fn n ps ret := tyBeq_eq _ _ hbeq
    obtain ⟨hAw, hAs⟩ := annArgs_wf hvars args As hargsA
    have hPw : wfList (substGList σ ps) = true := wf_substGList_of_structEq hσ ps As hpsw hAw hse
    have hPs : slotFreeList (substGList σ ps) = true := slotFreeList_of_structEq _ _ hPw hse hAs
    have hvs := evalArgs_ok (evalOK (dbg := dbg) hf henv fuel) args As hargsA log
    rw [hargs] at hvs
    have hvs' : HasTyList vs.toList (substGList σ ps) := HasTyList.convS hvs hse hPw hAw
    obtain ⟨v, evs, happ, hv⟩ := builtin_total_typed ρ.ext b (List.mem_of_getElem? hb) hstrict
      hty' σ hσ hPw hPs vs.toList hvs' hid
    have hdl : d.isLazy = false := by rw [← hlz, hstrict]
    obtain ⟨log', hlog'⟩ := recDbg_ok dbg v col (evs.reverse ++ log1)
    refine ⟨v, log', ?_, hv⟩
    simp only [eval, hne, henv.funs, hres, hd, hdl, callFun, hb, Bool.false_eq_true, if_false]
    rw [EvalM.bind_ok (a := v) (l := evs.reverse ++ log1)]
    · exact hlog'
    · rw [EvalM.bind_ok hargs]
      rw [EvalM.bind_ok (a := (v, evs)) (l := log1)]
      · rfl
      · show (applyBuiltin ρ.ext b.id vs.toList, log1) = _
        rw [happ]
  | callDyn _ _ _ => exact absurd hne (by decide)

/-- What the syntactic condition `hostRespects` means for a strict host function: at every
instance `σ` of its signature, on well-formed arguments of the instantiated parameter types, it
returns a well-formed value of the instantiated return type or fails on purpose (`hostFail`). -/
theorem hostRespects_sound {n : String} {ps : TyList} {ret : Ty} {name : String} {beh : HostBeh}
    (h : hostRespects (.fn n ps ret) beh false = true) (σ : Subst)
    (vs : List Val) (hvs : HasTyList vs (substGList σ ps)) (log : List Event) :
    match (hostStrict name beh vs log).1 with
    | .ok v => HasTy v (substG σ ret)
    | .error f => f = .hostFail name := by
  have hemit : ∀ e : Event, EvalM.emit e log = (.ok (), e :: log) := fun _ => rfl
  simp only [hostRespects] at h
  cases beh with
  | retArg i =>
    simp only [Bool.not_false, Bool.true_and] at h
    cases hpi : ps.get? i with
    | none => simp [hpi] at h
    | some p =>
      simp only [hpi] at h
      have := tyBeq_eq _ _ h; subst this
      have h1 : (substGList σ ps).get? i = some (substG σ p) := by
        rw [TyList.get?_substGList, hpi]; rfl
      obtain ⟨v, hv, hvT⟩ := hvs.get? i _ h1
      simp only [hostStrict]
      rw [EvalM.bind_ok (hemit _)]
      simp only [hv]
      exact hvT
  | constNum x =>
    simp only [Bool.not_false, Bool.true_and] at h
    have := tyBeq_eq _ _ h; subst this
    simp only [hostStrict]
    rw [EvalM.bind_ok (hemit _)]
    exact ⟨rfl, rfl⟩
  | constStr x =>
    simp only [Bool.not_false, Bool.true_and] at h
    have := tyBeq_eq _ _ h; subst this
    simp only [hostStrict]
    rw [EvalM.bind_ok (hemit _)]
    exact ⟨rfl, rfl⟩
  | constBool x =>
    simp only [Bool.not_false, Bool.true_and] at h
    have := tyBeq_eq _ _ h; subst this
    simp only [hostStrict]
    rw [EvalM.bind_ok (hemit _)]
    exact ⟨rfl, rfl⟩
  | fail =>
    simp only [hostStrict]
    rw [EvalM.bind_ok (hemit _)]
    rfl
  | force order => simp at h

end Yae.Sound
