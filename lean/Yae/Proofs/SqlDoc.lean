/-
  C20, intermediate layer: the *shape* of the text `sql.Compile` produces.

  A `Doc` is the produced text with its structure still visible: literals, back-quoted names,
  `from_unixtime(n)`, rows, parenthesised expressions, the conditions, and the connectives.
    * `dchars d`  — the characters of the text,
    * `dtoks d`   — the tokens the reference reader's tokenizer makes of it,
    * `ptree d`   — the tree the reference reader's precedence-climbing parser makes of the tokens
                    (`AND`/`OR` chains come out left-nested, exactly as `parseAndRest`/`parseOrRest`
                    build them; `pk` carries the accumulator of those loops),
    * `WF l d`    — `d` is a phrase of grammar level `l` (0 = or, 1 = and, 2 = not, 3 = predicate,
                    4 = primary): the connective/parenthesis discipline that makes the reading unique.
  `Yae.Proofs.SqlLex` proves `tokens (dchars d) = dtoks d`, `Yae.Proofs.SqlParse` proves
  `parseOr (dtoks d) = ptree d`, `Yae.Proofs.SqlStruct` proves that `emit` produces a well-formed
  `Doc` whose `ptree` is the meaning of the criteria up to `flatten`.
-/
import Yae.Model.SqlRead
namespace Yae.SqlDoc
open Yae Yae.Sql

mutual
inductive Doc where
  | str (s : String)                 -- a quoted string literal (content `s`)
  | num (lex : String)               -- a numeric literal, as written
  | col (name : String)              -- a back-quoted column name
  | time (lex : String)              -- `from_unixtime(lex)`
  | list (ds : DocList)              -- `(d1, d2, …)`
  | paren (d : Doc)                  -- `(d)`
  | bin (op : String) (a b : Doc)    -- `a op b`, op a comparison or LIKE
  | inn (a : Doc) (ds : DocList)     -- `a IN (d1, …)`
  | between (a lo hi : Doc)          -- `a BETWEEN lo AND hi`
  | isnull (a : Doc)                 -- `a IS NULL`
  | not (d : Doc)                    -- `NOT d`
  | and (a b : Doc)                  -- `a AND b`
  | or (a b : Doc)                   -- `a OR b`
inductive DocList where
  | nil
  | cons (d : Doc) (ds : DocList)
end

instance : Inhabited Doc := ⟨.num "0"⟩

def DocList.length : DocList → Nat
  | .nil => 0
  | .cons _ ds => ds.length + 1

/-! ### characters -/

/-- the fixed pieces of text, as explicit character lists -/
def cFromUnixtime : List Char := ['f', 'r', 'o', 'm', '_', 'u', 'n', 'i', 'x', 't', 'i', 'm', 'e', '(']
def cIn : List Char := [' ', 'I', 'N', ' ', '(']
def cBetween : List Char := [' ', 'B', 'E', 'T', 'W', 'E', 'E', 'N', ' ']
def cAnd : List Char := [' ', 'A', 'N', 'D', ' ']
def cOr : List Char := [' ', 'O', 'R', ' ']
def cNot : List Char := ['N', 'O', 'T', ' ']
def cIsNull : List Char := [' ', 'I', 'S', ' ', 'N', 'U', 'L', 'L']

theorem cFromUnixtime_eq : "from_unixtime(".toList = cFromUnixtime := by decide
theorem cIn_eq : " IN (".toList = cIn := by decide
theorem cBetween_eq : " BETWEEN ".toList = cBetween := by decide
theorem cAnd_eq : " AND ".toList = cAnd := by decide
theorem cOr_eq : " OR ".toList = cOr := by decide
theorem cNot_eq : "NOT ".toList = cNot := by decide
theorem cIsNull_eq : " IS NULL".toList = cIsNull := by decide

mutual
def dchars : Doc → List Char
  | .str s => (Num.quote s).toList
  | .num lex => lex.toList
  | .col name => '`' :: (name.toList ++ ['`'])
  | .time lex => cFromUnixtime ++ (lex.toList ++ [')'])
  | .list ds => '(' :: (itemsChars ds ++ [')'])
  | .paren d => '(' :: (dchars d ++ [')'])
  | .bin op a b => dchars a ++ (' ' :: (op.toList ++ (' ' :: dchars b)))
  | .inn a ds => dchars a ++ (cIn ++ (itemsChars ds ++ [')']))
  | .between a lo hi => dchars a ++ (cBetween ++ (dchars lo ++ (cAnd ++ dchars hi)))
  | .isnull a => dchars a ++ cIsNull
  | .not d => cNot ++ dchars d
  | .and a b => dchars a ++ (cAnd ++ dchars b)
  | .or a b => dchars a ++ (cOr ++ dchars b)
/-- the items separated by `", "` -/
def itemsChars : DocList → List Char
  | .nil => []
  | .cons d ds =>
    match ds with
    | .nil => dchars d
    | .cons _ _ => dchars d ++ (',' :: ' ' :: itemsChars ds)
end

/-! ### tokens -/

/-- binary operators of the dialect other than IN -/
def binOps : List String := ["=", "<>", ">", ">=", "<", "<=", "LIKE"]

def opTok (op : String) : Tok := if cmpOps.contains op then .sym op else .word op

mutual
def dtoks : Doc → List Tok
  | .str s => [.str s]
  | .num lex => [.num lex]
  | .col name => [.bq name]
  | .time lex => [.word "from_unixtime", .sym "(", .num lex, .sym ")"]
  | .list ds => .sym "(" :: (itemsToks ds ++ [.sym ")"])
  | .paren d => .sym "(" :: (dtoks d ++ [.sym ")"])
  | .bin op a b => dtoks a ++ (opTok op :: dtoks b)
  | .inn a ds => dtoks a ++ (.word "IN" :: .sym "(" :: (itemsToks ds ++ [.sym ")"]))
  | .between a lo hi => dtoks a ++ (.word "BETWEEN" :: (dtoks lo ++ (.word "AND" :: dtoks hi)))
  | .isnull a => dtoks a ++ [.word "IS", .word "NULL"]
  | .not d => .word "NOT" :: dtoks d
  | .and a b => dtoks a ++ (.word "AND" :: dtoks b)
  | .or a b => dtoks a ++ (.word "OR" :: dtoks b)
def itemsToks : DocList → List Tok
  | .nil => []
  | .cons d ds =>
    match ds with
    | .nil => dtoks d
    | .cons _ _ => dtoks d ++ (.sym "," :: itemsToks ds)
end

/-! ### the tree the reference reader builds -/

/-- the state of the reader's `AND`/`OR` loops: nothing read yet, or the tree accumulated so far -/
inductive Mode where
  | plain
  | andAcc (x : SqlTree)
  | orAcc (x : SqlTree)

def wrap : Mode → SqlTree → SqlTree
  | .plain, t => t
  | .andAcc x, t => .and (.cons x (.cons t .nil))
  | .orAcc x, t => .or (.cons x (.cons t .nil))

mutual
/-- `pk .plain d` is the tree read from `d`; `pk (.andAcc x) d` is what `parseAndRest` has
accumulated after reading `AND d` starting from `x` (and likewise for `OR`) -/
def pk : Mode → Doc → SqlTree
  | m, .str s => wrap m (.str s)
  | m, .num lex => wrap m (.num lex)
  | m, .col name => wrap m (.col name)
  | m, .time lex => wrap m (.time lex)
  | m, .list ds => wrap m (.list (pks ds))
  | m, .paren d => wrap m (pk .plain d)
  | m, .bin op a b => wrap m (.cond op (.cons (pk .plain a) (.cons (pk .plain b) .nil)))
  | m, .inn a ds => wrap m (.cond "IN" (.cons (pk .plain a) (.cons (.list (pks ds)) .nil)))
  | m, .between a lo hi =>
    wrap m (.cond "BETWEEN" (.cons (pk .plain a) (.cons (pk .plain lo) (.cons (pk .plain hi) .nil))))
  | m, .isnull a => wrap m (.cond "IS NULL" (.cons (pk .plain a) .nil))
  | m, .not d => wrap m (.not (pk .plain d))
  | m, .and u v =>
    match m with
    | .andAcc x => pk (.andAcc (pk (.andAcc x) u)) v
    | m => wrap m (pk (.andAcc (pk .plain u)) v)
  | m, .or u v =>
    match m with
    | .orAcc x => pk (.orAcc (pk (.orAcc x) u)) v
    | m => wrap m (pk (.orAcc (pk .plain u)) v)
def pks : DocList → SqlTreeList
  | .nil => .nil
  | .cons d ds => .cons (pk .plain d) (pks ds)
end

def ptree (d : Doc) : SqlTree := pk .plain d

/-! ### grammar levels -/

mutual
/-- `d` is a phrase of level `l`: 0 = or-expression, 1 = and-expression, 2 = NOT-expression,
3 = predicate (a primary followed by a left-nested chain of comparisons / IN / BETWEEN / IS NULL),
4 = primary.  A phrase of a higher level is one of every lower level (`WF_mono`). -/
def WF : Nat → Doc → Prop
  | _, .str _ => True
  | _, .num _ => True
  | _, .col _ => True
  | _, .time _ => True
  | _, .list ds => 2 ≤ ds.length ∧ WFs ds
  | _, .paren d => WF 0 d
  | l, .bin op a b => l ≤ 3 ∧ op ∈ binOps ∧ WF 3 a ∧ WF 4 b
  | l, .inn a ds => l ≤ 3 ∧ WF 3 a ∧ 1 ≤ ds.length ∧ WFs ds
  | l, .between a lo hi => l ≤ 3 ∧ WF 3 a ∧ WF 4 lo ∧ WF 4 hi
  | l, .isnull a => l ≤ 3 ∧ WF 3 a
  | l, .not d => l ≤ 2 ∧ WF 2 d
  | l, .and a b => l ≤ 1 ∧ WF 1 a ∧ WF 1 b
  | l, .or a b => l = 0 ∧ WF 0 a ∧ WF 0 b
def WFs : DocList → Prop
  | .nil => True
  | .cons d ds => WF 0 d ∧ WFs ds
end

theorem WF_mono {l l' : Nat} (h : l' ≤ l) : ∀ {d : Doc}, WF l d → WF l' d
  | .str _, _ | .num _, _ | .col _, _ | .time _, _ => by simp [WF]
  | .list _, w | .paren _, w => by simpa [WF] using w
  | .bin .., w => by simp only [WF] at w ⊢; exact ⟨by omega, w.2⟩
  | .inn .., w => by simp only [WF] at w ⊢; exact ⟨by omega, w.2⟩
  | .between .., w => by simp only [WF] at w ⊢; exact ⟨by omega, w.2⟩
  | .isnull .., w => by simp only [WF] at w ⊢; exact ⟨by omega, w.2⟩
  | .not .., w => by simp only [WF] at w ⊢; exact ⟨by omega, w.2⟩
  | .and .., w => by simp only [WF] at w ⊢; exact ⟨by omega, w.2⟩
  | .or .., w => by simp only [WF] at w ⊢; exact ⟨by omega, w.2⟩

end Yae.SqlDoc
