/-
  Lemmas for C20: the quoted string literal is closed by its own last quote (nothing of the
  operand ends it earlier), and the parenthesisation rule of `sql.Compile` (`Yae.Sql.emit`).
-/
import Yae.Model.SqlRead
import Yae.Proofs.NumLemmas
namespace Yae.SqlLemmas
open Yae Yae.Sql Yae.Num

/-- Scanning the quoted form of `l` followed by ANY text `rest` with the rules of
`strconv.Unquote` (a backslash takes the next character(s) with it, an unescaped `"` ends the
literal) stops exactly at the closing quote `quote` wrote: the decoded content is `l` and the
remaining input is `rest`, untouched. -/
theorem quoted_scan (l rest : List Char) : ∀ (fuel : Nat) (acc : List Char), l.length + 1 ≤ fuel →
    unquoteBody '"' false fuel acc (l.flatMap quoteChar ++ '"' :: rest)
      = some (acc.reverse ++ l, rest) := by
  induction l with
  | nil =>
    intro fuel acc h
    obtain ⟨f, rfl⟩ : ∃ f, fuel = f + 1 := ⟨fuel - 1, by omega⟩
    simp [unquoteBody]
  | cons c l ih =>
    intro fuel acc h
    obtain ⟨f, rfl⟩ : ∃ f, fuel = f + 1 := ⟨fuel - 1, by omega⟩
    simp only [List.flatMap_cons, List.append_assoc]
    rw [unquoteBody_quoteChar, ih f (c :: acc) (by simpa using h)]
    simp

theorem quote_toList (s : String) :
    (quote s).toList = '"' :: (s.toList.flatMap quoteChar ++ ['"']) := by
  unfold quote
  rw [String.toList_ofList]

/-- what `compile` does with a call: the arguments are compiled under the callee's own precedence
(0 for a non-logical function), formatted, and the result is wrapped in parentheses iff the callee
is a logical connective whose precedence is LOWER than the context's -/
theorem emit_call (venv : List (String × Val)) (outer : Nat) (p : Pos) (col : Int) (callee : Expr)
    (args : ExprList) (cty : Option Ty) (resolved : String) (index : Int) (d : FunDecl) (fm : Fmt)
    (xs : List String) (s : String)
    (hd : resolveStatic sqlFuns resolved index = some d) (hf : lookupFmt d = some fm)
    (hx : emitList venv (fm.prec?.getD 0) args = .ok xs) (hs : fm.apply xs = .ok s) :
    emit venv outer (.call p col callee args cty resolved index) =
      .ok (if fm.prec?.isSome && outer > fm.prec?.getD 0 then "(" ++ s ++ ")" else s) := by
  rw [emit]
  simp only [hd, hf, hx]
  show (fm.apply xs >>= _) = _
  rw [hs]
  rfl

/-- the precedence of the context a connective offers to its operands, and of each formatter -/
theorem paren_table :
    -- under AND (4): an OR is wrapped; AND, NOT and conditions are not
    (Fmt.logicOr.prec?.isSome && 4 > Fmt.logicOr.prec?.getD 0) = true ∧
    (Fmt.logicAnd.prec?.isSome && 4 > Fmt.logicAnd.prec?.getD 0) = false ∧
    (Fmt.logicNot.prec?.isSome && 4 > Fmt.logicNot.prec?.getD 0) = false ∧
    -- under OR (3) and at top level (0): nothing is wrapped
    (Fmt.logicAnd.prec?.isSome && 3 > Fmt.logicAnd.prec?.getD 0) = false ∧
    (Fmt.logicOr.prec?.isSome && 3 > Fmt.logicOr.prec?.getD 0) = false ∧
    (Fmt.logicNot.prec?.isSome && 3 > Fmt.logicNot.prec?.getD 0) = false ∧
    -- under NOT (10): AND and OR are wrapped, NOT is not
    (Fmt.logicAnd.prec?.isSome && 10 > Fmt.logicAnd.prec?.getD 0) = true ∧
    (Fmt.logicOr.prec?.isSome && 10 > Fmt.logicOr.prec?.getD 0) = true ∧
    (Fmt.logicNot.prec?.isSome && 10 > Fmt.logicNot.prec?.getD 0) = false ∧
    -- a condition (comparison, IN, BETWEEN, LIKE, IS NULL) is never wrapped
    (∀ op outer, ((Fmt.binary op).prec?.isSome && outer > (Fmt.binary op).prec?.getD 0) = false) ∧
    (∀ op outer, ((Fmt.postfix op).prec?.isSome && outer > (Fmt.postfix op).prec?.getD 0) = false) ∧
    (∀ outer, (Fmt.between.prec?.isSome && outer > Fmt.between.prec?.getD 0) = false) := by
  refine ⟨by decide, by decide, by decide, by decide, by decide, by decide, by decide, by decide,
    by decide, ?_, ?_, ?_⟩ <;> intros <;> rfl

end Yae.SqlLemmas
