/-
  C20, the tokenizer half: the reference reader's tokenizer reads the characters of a `Doc` whose
  atoms are lexically sound (`LexOK`: numeric lexemes are numeric, column names contain no back
  quote; string literals are unrestricted) as exactly `dtoks d`.
-/
import Yae.Proofs.SqlDoc
import Yae.Proofs.SqlLexStr
import Yae.Proofs.SqlLexNum
namespace Yae.SqlLex
open Yae Yae.Sql Yae.SqlDoc

/-! ### lexemes in context -/

/-- `cs` followed by anything satisfying `C` is read as the tokens `ts` (`tokenize` runs on fuel:
one unit per token or blank; the fuel stays above the length of what remains) -/
def Lexes (C : List Char → Prop) (cs : List Char) (ts : List Tok) : Prop :=
  ∀ fuel acc rest, C rest → (cs ++ rest).length + 1 ≤ fuel →
    ∃ fuel', rest.length + 1 ≤ fuel' ∧
      tokenize fuel (cs ++ rest) acc = tokenize fuel' rest (ts.reverse ++ acc)

def Any (_ : List Char) : Prop := True

/-- what follows is empty or does not start with a word character -/
def NotWordHead (rest : List Char) : Prop := ∀ c r, rest = c :: r → isWordChar c = false

theorem Delim.notWordHead {rest : List Char} (h : Delim rest) : NotWordHead rest := by
  intro c r e
  rcases h with h | ⟨c', r', h, hc⟩
  · rw [h] at e; cases e
  · rw [h] at e; cases e
    rcases hc with rfl | rfl | rfl <;> decide

theorem Delim.blank (r : List Char) : Delim (' ' :: r) := Or.inr ⟨_, _, rfl, Or.inl rfl⟩
theorem Delim.close (r : List Char) : Delim (')' :: r) := Or.inr ⟨_, _, rfl, Or.inr (Or.inl rfl)⟩
theorem Delim.comma (r : List Char) : Delim (',' :: r) := Or.inr ⟨_, _, rfl, Or.inr (Or.inr rfl)⟩

theorem Lexes.weaken {C C' : List Char → Prop} {cs ts} (h : Lexes C cs ts) (hc : ∀ r, C' r → C r) :
    Lexes C' cs ts := fun fuel acc rest hr hf => h fuel acc rest (hc rest hr) hf

/-- one token -/
theorem Lexes.ofStep {C : List Char → Prop} {cs : List Char} {t : Tok} (hne : cs ≠ [])
    (h : ∀ f rest acc, C rest → tokenize (f + 1) (cs ++ rest) acc = tokenize f rest (t :: acc)) :
    Lexes C cs [t] := by
  intro fuel acc rest hr hf
  have hl : 1 ≤ cs.length := by
    cases cs with
    | nil => exact absurd rfl hne
    | cons _ _ => simp
  obtain ⟨f, rfl⟩ : ∃ f, fuel = f + 1 := ⟨fuel - 1, by omega⟩
  refine ⟨f, ?_, ?_⟩
  · simp only [List.length_append] at hf; omega
  · rw [h f rest acc hr]; rfl

/-- sequence -/
theorem Lexes.comp {C1 C2 : List Char → Prop} {a b : List Char} {ta tb : List Tok}
    (ha : Lexes C1 a ta) (hb : Lexes C2 b tb) (hc : ∀ rest, C2 rest → C1 (b ++ rest)) :
    Lexes C2 (a ++ b) (ta ++ tb) := by
  intro fuel acc rest hr hf
  obtain ⟨f1, hf1, e1⟩ := ha fuel acc (b ++ rest) (hc rest hr) (by simpa [List.append_assoc] using hf)
  obtain ⟨f2, hf2, e2⟩ := hb f1 (ta.reverse ++ acc) rest hr hf1
  refine ⟨f2, hf2, ?_⟩
  rw [List.append_assoc, e1, e2]
  simp [List.reverse_append, List.append_assoc]

/-- a blank in front -/
theorem Lexes.blank {C : List Char → Prop} {cs : List Char} {ts : List Tok} (h : Lexes C cs ts) :
    Lexes C (' ' :: cs) ts := by
  intro fuel acc rest hr hf
  obtain ⟨f, rfl⟩ : ∃ f, fuel = f + 1 := ⟨fuel - 1, by omega⟩
  obtain ⟨f2, hf2, e2⟩ := h f acc rest hr (by simp only [List.cons_append, List.length_cons] at hf; omega)
  refine ⟨f2, hf2, ?_⟩
  rw [← e2, List.cons_append]
  simp [tokenize, isSpace]

theorem Lexes.nil {C : List Char → Prop} : Lexes C [] [] := by
  intro fuel acc rest _ hf
  exact ⟨fuel, by simpa using hf, rfl⟩

/-! ### atoms -/

theorem lexes_str (s : String) : Lexes Any (Num.quote s).toList [.str s] := by
  apply Lexes.ofStep
  · rw [SqlLemmas.quote_toList]; simp
  · intro f rest acc _; exact tokenize_quote s f rest acc

theorem isNumLex_ne_nil {cs : List Char} (h : IsNumLex cs) : cs ≠ [] := by
  obtain ⟨neg, ip, fp, rfl, hne, _, _⟩ := h
  cases ip with
  | nil => exact absurd rfl hne
  | cons c ip => cases neg <;> simp

theorem lexes_num (lex : String) (h : IsNumLex lex.toList) : Lexes Delim lex.toList [.num lex] := by
  apply Lexes.ofStep (isNumLex_ne_nil h)
  intro f rest acc hd
  rw [tokenize_num _ h f rest acc hd, String.ofList_toList]

theorem bqBody_name (name rest : List Char) (h : '`' ∉ name) (acc : List Char) :
    bqBody (name ++ '`' :: rest) acc = some (String.ofList (acc.reverse ++ name), rest) := by
  induction name generalizing acc with
  | nil => simp [bqBody]
  | cons c name ih =>
    have hc : c ≠ '`' := fun e => h (by simp [e])
    have hn : '`' ∉ name := fun e => h (by simp [e])
    rw [List.cons_append, bqBody, ih hn]
    · simp
    · intro e; exact hc e

theorem lexes_col (name : String) (h : '`' ∉ name.toList) :
    Lexes Any ('`' :: (name.toList ++ ['`'])) [.bq name] := by
  apply Lexes.ofStep (by simp)
  intro f rest acc _
  have e : ('`' :: (name.toList ++ ['`'])) ++ rest = '`' :: (name.toList ++ '`' :: rest) := by simp
  rw [e]
  simp [tokenize, isSpace, bqBody_name _ _ h, String.ofList_toList]

theorem span_word (w rest : List Char) (hw : w.all isWordChar = true) (hr : NotWordHead rest) :
    (w ++ rest).span isWordChar = (w, rest) := by
  unfold List.span
  rw [span_loop_digits isWordChar w rest (by simpa using hw) hr]
  simp

/-- a keyword or bare word (the hypotheses are facts about concrete characters, by `decide`) -/
theorem lexes_word (c : Char) (w : List Char) (h1 : isSpace c = false) (h2 : (c == '"') = false)
    (h3 : (c == '`') = false) (h4 : isDigit c = false) (h5 : (c == '-') = false)
    (h6 : isWordStart c = true) (h7 : (c :: w).all isWordChar = true) :
    Lexes NotWordHead (c :: w) [.word (String.ofList (c :: w))] := by
  apply Lexes.ofStep (by simp)
  intro f rest acc hr
  have hs := span_word (c :: w) rest h7 hr
  rw [List.cons_append] at hs ⊢
  simp [tokenize, h1, h2, h3, h4, h5, h6, hs]

theorem lexes_kw (s : String) (c : Char) (w : List Char) (e : s.toList = c :: w)
    (h1 : isSpace c = false) (h2 : (c == '"') = false)
    (h3 : (c == '`') = false) (h4 : isDigit c = false) (h5 : (c == '-') = false)
    (h6 : isWordStart c = true) (h7 : (c :: w).all isWordChar = true) :
    Lexes NotWordHead s.toList [.word s] := by
  have := lexes_word c w h1 h2 h3 h4 h5 h6 h7
  rw [← e, String.ofList_toList] at this
  exact this

theorem lexes_AND : Lexes NotWordHead "AND".toList [.word "AND"] :=
  lexes_kw "AND" 'A' ['N', 'D'] (by decide) (by decide) (by decide) (by decide) (by decide) (by decide) (by decide) (by decide)
theorem lexes_OR : Lexes NotWordHead "OR".toList [.word "OR"] :=
  lexes_kw "OR" 'O' ['R'] (by decide) (by decide) (by decide) (by decide) (by decide) (by decide) (by decide) (by decide)
theorem lexes_NOT : Lexes NotWordHead "NOT".toList [.word "NOT"] :=
  lexes_kw "NOT" 'N' ['O', 'T'] (by decide) (by decide) (by decide) (by decide) (by decide) (by decide) (by decide) (by decide)
theorem lexes_IN : Lexes NotWordHead "IN".toList [.word "IN"] :=
  lexes_kw "IN" 'I' ['N'] (by decide) (by decide) (by decide) (by decide) (by decide) (by decide) (by decide) (by decide)
theorem lexes_LIKE : Lexes NotWordHead "LIKE".toList [.word "LIKE"] :=
  lexes_kw "LIKE" 'L' ['I', 'K', 'E'] (by decide) (by decide) (by decide) (by decide) (by decide) (by decide) (by decide) (by decide)
theorem lexes_BETWEEN : Lexes NotWordHead "BETWEEN".toList [.word "BETWEEN"] :=
  lexes_kw "BETWEEN" 'B' ['E', 'T', 'W', 'E', 'E', 'N'] (by decide) (by decide) (by decide) (by decide) (by decide) (by decide) (by decide) (by decide)
theorem lexes_IS : Lexes NotWordHead "IS".toList [.word "IS"] :=
  lexes_kw "IS" 'I' ['S'] (by decide) (by decide) (by decide) (by decide) (by decide) (by decide) (by decide) (by decide)
theorem lexes_NULL : Lexes NotWordHead "NULL".toList [.word "NULL"] :=
  lexes_kw "NULL" 'N' ['U', 'L', 'L'] (by decide) (by decide) (by decide) (by decide) (by decide) (by decide) (by decide) (by decide)
theorem lexes_from_unixtime : Lexes NotWordHead "from_unixtime".toList [.word "from_unixtime"] :=
  lexes_kw "from_unixtime" 'f' "rom_unixtime".toList (by decide) (by decide) (by decide) (by decide) (by decide) (by decide) (by decide) (by decide)

theorem lexes_open : Lexes Any ['('] [.sym "("] := by
  apply Lexes.ofStep (by simp)
  intro f rest acc _
  rw [List.cons_append]; simp [tokenize, isSpace, isDigit, isWordStart]
theorem lexes_close : Lexes Any [')'] [.sym ")"] := by
  apply Lexes.ofStep (by simp)
  intro f rest acc _
  rw [List.cons_append]; simp [tokenize, isSpace, isDigit, isWordStart]
theorem lexes_comma : Lexes Any [','] [.sym ","] := by
  apply Lexes.ofStep (by simp)
  intro f rest acc _
  rw [List.cons_append]; simp [tokenize, isSpace, isDigit, isWordStart]
theorem lexes_eq : Lexes Any "=".toList [.sym "="] := by
  apply Lexes.ofStep (by decide)
  intro f rest acc _
  show tokenize (f+1) ('=' :: rest) acc = _
  simp [tokenize, isSpace, isDigit, isWordStart]
theorem lexes_ne : Lexes Any "<>".toList [.sym "<>"] := by
  apply Lexes.ofStep (by decide)
  intro f rest acc _
  show tokenize (f+1) ('<' :: '>' :: rest) acc = _
  simp [tokenize, isSpace, isDigit, isWordStart]
theorem lexes_le : Lexes Any "<=".toList [.sym "<="] := by
  apply Lexes.ofStep (by decide)
  intro f rest acc _
  show tokenize (f+1) ('<' :: '=' :: rest) acc = _
  simp [tokenize, isSpace, isDigit, isWordStart]
theorem lexes_ge : Lexes Any ">=".toList [.sym ">="] := by
  apply Lexes.ofStep (by decide)
  intro f rest acc _
  show tokenize (f+1) ('>' :: '=' :: rest) acc = _
  simp [tokenize, isSpace, isDigit, isWordStart]
theorem lexes_lt : Lexes Delim "<".toList [.sym "<"] := by
  apply Lexes.ofStep (by decide)
  intro f rest acc hd
  show tokenize (f+1) ('<' :: rest) acc = _
  rcases hd with rfl | ⟨c, r, rfl, rfl | rfl | rfl⟩ <;> simp [tokenize, isSpace, isDigit, isWordStart]
theorem lexes_gt : Lexes Delim ">".toList [.sym ">"] := by
  apply Lexes.ofStep (by decide)
  intro f rest acc hd
  show tokenize (f+1) ('>' :: rest) acc = _
  rcases hd with rfl | ⟨c, r, rfl, rfl | rfl | rfl⟩ <;> simp [tokenize, isSpace, isDigit, isWordStart]

/-- a binary operator between blanks -/
theorem lexes_op (op : String) (h : op ∈ binOps) : Lexes Delim op.toList [opTok op] := by
  simp only [binOps, List.mem_cons, List.not_mem_nil, or_false] at h
  rcases h with rfl | rfl | rfl | rfl | rfl | rfl | rfl
  · exact lexes_eq.weaken fun _ _ => trivial
  · exact lexes_ne.weaken fun _ _ => trivial
  · exact lexes_gt
  · exact lexes_ge.weaken fun _ _ => trivial
  · exact lexes_lt
  · exact lexes_le.weaken fun _ _ => trivial
  · exact lexes_LIKE.weaken fun _ h => h.notWordHead

/-! ### the characters of the fixed pieces of text -/

theorem lit_AND : "AND".toList = ['A', 'N', 'D'] := by decide
theorem lit_OR : "OR".toList = ['O', 'R'] := by decide
theorem lit_NOT : "NOT".toList = ['N', 'O', 'T'] := by decide
theorem lit_IN : "IN".toList = ['I', 'N'] := by decide
theorem lit_BETWEEN : "BETWEEN".toList = ['B', 'E', 'T', 'W', 'E', 'E', 'N'] := by decide
theorem lit_IS : "IS".toList = ['I', 'S'] := by decide
theorem lit_NULL : "NULL".toList = ['N', 'U', 'L', 'L'] := by decide
theorem lit_fu : "from_unixtime".toList = ['f', 'r', 'o', 'm', '_', 'u', 'n', 'i', 'x', 't', 'i', 'm', 'e'] := by decide

/-! ### documents -/

mutual
/-- the atoms of the text are lexically sound -/
def LexOK : Doc → Prop
  | .str _ => True
  | .num lex => IsNumLex lex.toList
  | .col name => '`' ∉ name.toList
  | .time lex => IsNumLex lex.toList
  | .list ds => ds ≠ .nil ∧ LexOKs ds
  | .paren d => LexOK d
  | .bin op a b => op ∈ binOps ∧ LexOK a ∧ LexOK b
  | .inn a ds => LexOK a ∧ ds ≠ .nil ∧ LexOKs ds
  | .between a lo hi => LexOK a ∧ LexOK lo ∧ LexOK hi
  | .isnull a => LexOK a
  | .not d => LexOK d
  | .and a b => LexOK a ∧ LexOK b
  | .or a b => LexOK a ∧ LexOK b
def LexOKs : DocList → Prop
  | .nil => True
  | .cons d ds => LexOK d ∧ LexOKs ds
end

theorem delim_of_any {r : List Char} (_ : Delim r) : Any r := trivial

/-- `a`, a blank, then `b` -/
theorem Lexes.sp {a b : List Char} {ta tb : List Tok} (ha : Lexes Delim a ta) (hb : Lexes Delim b tb) :
    Lexes Delim (a ++ ' ' :: b) (ta ++ tb) :=
  Lexes.comp ha hb.blank (fun _ _ => Delim.blank _)

mutual
theorem lex_doc : (d : Doc) → LexOK d → Lexes Delim (dchars d) (dtoks d)
  | .str s, _ => by
    simpa only [dchars, dtoks] using (lexes_str s).weaken (C' := Delim) fun _ _ => trivial
  | .num lex, h => by
    simp only [LexOK] at h
    simpa only [dchars, dtoks] using lexes_num lex h
  | .col name, h => by
    simp only [LexOK] at h
    simpa only [dchars, dtoks] using (lexes_col name h).weaken (C' := Delim) fun _ _ => trivial
  | .time lex, h => by
    simp only [LexOK] at h
    have h1 : Lexes Any ("from_unixtime".toList ++ (['('] ++ (lex.toList ++ [')'])))
        ([.word "from_unixtime"] ++ ([.sym "("] ++ ([.num lex] ++ [.sym ")"]))) :=
      Lexes.comp lexes_from_unixtime
        (Lexes.comp lexes_open (Lexes.comp (lexes_num lex h) lexes_close (fun r _ => Delim.close r))
          (fun _ _ => trivial))
        (fun r _ => by intro c r' e; simp at e; rw [← e.1]; decide)
    have h2 := h1.weaken (C' := Delim) fun _ _ => trivial
    simpa only [dchars, dtoks, lit_fu, cFromUnixtime, List.cons_append, List.nil_append, List.append_assoc,
      List.singleton_append] using h2
  | .list ds, h => by
    simp only [LexOK] at h
    have hi := lex_items ds h.2 h.1
    have := Lexes.comp lexes_open (Lexes.comp hi lexes_close (fun r _ => Delim.close r)) (fun _ _ => trivial)
    simp only [dchars, dtoks]
    exact this.weaken fun _ _ => trivial
  | .paren d, h => by
    simp only [LexOK] at h
    have := Lexes.comp lexes_open (Lexes.comp (lex_doc d h) lexes_close (fun r _ => Delim.close r))
      (fun _ _ => trivial)
    simp only [dchars, dtoks]
    exact this.weaken fun _ _ => trivial
  | .bin op a b, h => by
    simp only [LexOK] at h
    have := (lex_doc a h.2.1).sp ((lexes_op op h.1).sp (lex_doc b h.2.2))
    simpa only [dchars, dtoks, lit_AND, lit_OR, lit_NOT, lit_IN, lit_BETWEEN, lit_IS, lit_NULL, cAnd, cOr, cNot, cIn,
      cBetween, cIsNull, List.cons_append, List.nil_append,
      List.append_assoc, List.singleton_append] using this
  | .inn a ds, h => by
    simp only [LexOK] at h
    have hi := lex_items ds h.2.2 h.2.1
    have hl : Lexes Delim ('(' :: (itemsChars ds ++ [')'])) (.sym "(" :: (itemsToks ds ++ [.sym ")"])) :=
      (Lexes.comp lexes_open (Lexes.comp hi lexes_close (fun r _ => Delim.close r))
        (fun _ _ => trivial)).weaken fun _ _ => trivial
    have := (lex_doc a h.1).sp
      ((lexes_IN.weaken fun _ h => Delim.notWordHead h).sp hl)
    simpa only [dchars, dtoks, lit_AND, lit_OR, lit_NOT, lit_IN, lit_BETWEEN, lit_IS, lit_NULL, cAnd, cOr, cNot, cIn,
      cBetween, cIsNull, List.cons_append, List.nil_append,
      List.append_assoc, List.singleton_append] using this
  | .between a lo hi, h => by
    simp only [LexOK] at h
    have := (lex_doc a h.1).sp ((lexes_BETWEEN.weaken fun _ h => Delim.notWordHead h).sp
      ((lex_doc lo h.2.1).sp ((lexes_AND.weaken fun _ h => Delim.notWordHead h).sp (lex_doc hi h.2.2))))
    simpa only [dchars, dtoks, lit_AND, lit_OR, lit_NOT, lit_IN, lit_BETWEEN, lit_IS, lit_NULL, cAnd, cOr, cNot, cIn,
      cBetween, cIsNull, List.cons_append, List.nil_append,
      List.append_assoc, List.singleton_append] using this
  | .isnull a, h => by
    simp only [LexOK] at h
    have := (lex_doc a h).sp ((lexes_IS.weaken fun _ h => Delim.notWordHead h).sp
      (lexes_NULL.weaken fun _ h => Delim.notWordHead h))
    simpa only [dchars, dtoks, lit_AND, lit_OR, lit_NOT, lit_IN, lit_BETWEEN, lit_IS, lit_NULL, cAnd, cOr, cNot, cIn,
      cBetween, cIsNull, List.cons_append, List.nil_append,
      List.append_assoc, List.singleton_append] using this
  | .not d, h => by
    simp only [LexOK] at h
    have := (lexes_NOT.weaken fun _ h => Delim.notWordHead h).sp (lex_doc d h)
    simpa only [dchars, dtoks, lit_AND, lit_OR, lit_NOT, lit_IN, lit_BETWEEN, lit_IS, lit_NULL, cAnd, cOr, cNot, cIn,
      cBetween, cIsNull, List.cons_append, List.nil_append,
      List.append_assoc, List.singleton_append] using this
  | .and a b, h => by
    simp only [LexOK] at h
    have := (lex_doc a h.1).sp ((lexes_AND.weaken fun _ h => Delim.notWordHead h).sp (lex_doc b h.2))
    simpa only [dchars, dtoks, lit_AND, lit_OR, lit_NOT, lit_IN, lit_BETWEEN, lit_IS, lit_NULL, cAnd, cOr, cNot, cIn,
      cBetween, cIsNull, List.cons_append, List.nil_append,
      List.append_assoc, List.singleton_append] using this
  | .or a b, h => by
    simp only [LexOK] at h
    have := (lex_doc a h.1).sp ((lexes_OR.weaken fun _ h => Delim.notWordHead h).sp (lex_doc b h.2))
    simpa only [dchars, dtoks, lit_AND, lit_OR, lit_NOT, lit_IN, lit_BETWEEN, lit_IS, lit_NULL, cAnd, cOr, cNot, cIn,
      cBetween, cIsNull, List.cons_append, List.nil_append,
      List.append_assoc, List.singleton_append] using this
theorem lex_items : (ds : DocList) → LexOKs ds → ds ≠ .nil → Lexes Delim (itemsChars ds) (itemsToks ds)
  | .nil, _, h => absurd rfl h
  | .cons d .nil, h, _ => by
    simp only [LexOKs] at h
    simpa only [itemsChars, itemsToks] using lex_doc d h.1
  | .cons d (.cons d2 ds), h, _ => by
    simp only [LexOKs] at h
    have hi := lex_items (.cons d2 ds) (by simp only [LexOKs]; exact h.2) (by simp)
    have := Lexes.comp (lex_doc d h.1)
      (Lexes.comp (lexes_comma.weaken (C' := Delim) fun _ _ => trivial) hi.blank (fun r _ => Delim.blank _))
      (fun r _ => Delim.comma _)
    simpa only [itemsChars, itemsToks, List.singleton_append] using this
end

/-- **the reader's tokenizer on a well-formed text** -/
theorem tokens_doc (d : Doc) (h : LexOK d) (s : String) (hs : s.toList = dchars d) :
    tokens s = some (dtoks d) := by
  unfold tokens
  simp only [hs]
  obtain ⟨f, hf, e⟩ := lex_doc d h (((dchars d).length) + 1) [] [] (Or.inl rfl) (by simp)
  simp only [List.append_nil] at e
  rw [e]
  obtain ⟨k, rfl⟩ : ∃ k, f = k + 1 := ⟨f - 1, by simp at hf; omega⟩
  simp [tokenize]

end Yae.SqlLex

#print axioms Yae.SqlLex.tokens_doc
