/-
  Numeric lexemes of the SQL text: what `renderNumBits` / `toString (n : Int)` print is read back by
  the reference tokenizer as exactly one `.num` token.
  Core Lean only; no sorry, no axioms beyond the standard ones, no native_decide.
-/
import Yae.Model.SqlRead
import Yae.Proofs.NumLemmas
namespace Yae.SqlLex
open Yae Yae.Sql

/-- what may follow a lexeme in the produced text: nothing, a blank, `)` or `,` -/
def Delim (rest : List Char) : Prop := rest = [] ∨ ∃ c r, rest = c :: r ∧ (c = ' ' ∨ c = ')' ∨ c = ',')

/-- `-?digits(.digits)?` -/
def IsNumLex (cs : List Char) : Prop :=
  ∃ (neg : Bool) (ip fp : List Char),
    cs = (if neg then ['-'] else []) ++ ip ++ (if fp = [] then [] else '.' :: fp) ∧
    ip ≠ [] ∧ (∀ c ∈ ip, isDigit c = true) ∧ (∀ c ∈ fp, isDigit c = true)

/-! ## characters -/

theorem isDigit_eq_num (c : Char) : Sql.isDigit c = Num.isDigit c := rfl

theorem digit_ne (x : Char) (hx : isDigit x = false) (c : Char) (h : isDigit c = true) : c ≠ x := by
  intro e; subst e; rw [hx] at h; cases h

theorem digit_not_space (c : Char) (h : isDigit c = true) : isSpace c = false := by
  have h1 := digit_ne ' ' (by decide) c h
  have h2 := digit_ne '\t' (by decide) c h
  have h3 := digit_ne '\n' (by decide) c h
  have h4 := digit_ne '\r' (by decide) c h
  simp [isSpace, h1, h2, h3, h4]

/-! ## `span` -/

theorem span_loop_digits (p : Char → Bool) (ds r : List Char) (hds : ∀ c ∈ ds, p c = true)
    (hr : ∀ c r', r = c :: r' → p c = false) (acc : List Char) :
    List.span.loop p (ds ++ r) acc = (acc.reverse ++ ds, r) := by
  induction ds generalizing acc with
  | nil =>
    cases r with
    | nil => simp [List.span.loop]
    | cons c r' => simp [List.span.loop, hr c r' rfl]
  | cons d ds ih =>
    have hd : p d = true := hds d (by simp)
    have := ih (fun c hc => hds c (by simp [hc])) (d :: acc)
    simp [List.span.loop, hd, this]

/-- the tail starts with no digit -/
def NoDigitHead (r : List Char) : Prop := ∀ c r', r = c :: r' → isDigit c = false

theorem spanDigits_append (ds r : List Char) (hds : ∀ c ∈ ds, isDigit c = true) (hr : NoDigitHead r) :
    spanDigits (ds ++ r) = (ds, r) := by
  unfold spanDigits List.span
  rw [span_loop_digits isDigit ds r hds hr]
  simp

theorem noDigitHead_nil : NoDigitHead [] := by intro c r h; cases h

theorem noDigitHead_cons (c : Char) (r : List Char) (h : isDigit c = false) : NoDigitHead (c :: r) := by
  intro c' r' e; cases e; exact h


/-! ## `numBody` -/

theorem delim_noDigitHead (rest : List Char) (hd : Delim rest) : NoDigitHead rest := by
  rcases hd with rfl | ⟨c, r, rfl, rfl | rfl | rfl⟩
  · exact noDigitHead_nil
  all_goals exact noDigitHead_cons _ _ (by decide)

theorem all_cons {p : Char → Prop} (d : Char) (ip : List Char) (hd : p d) (hip : ∀ c ∈ ip, p c) :
    ∀ c ∈ d :: ip, p c := by
  intro c hc
  simp at hc
  rcases hc with rfl | hc
  · exact hd
  · exact hip c hc

theorem numBody_unsigned_int (d : Char) (ip rest : List Char) (hd : isDigit d = true)
    (hip : ∀ c ∈ ip, isDigit c = true) (hr : Delim rest) :
    numBody (d :: ip ++ rest) = some (String.ofList (d :: ip), rest) := by
  have hne : d ≠ '-' := digit_ne '-' (by decide) d hd
  have hs := spanDigits_append (d :: ip) rest (all_cons d ip hd hip) (delim_noDigitHead rest hr)
  unfold numBody
  rcases hr with rfl | ⟨c, r, rfl, rfl | rfl | rfl⟩ <;> simp at hs <;> simp [hne, hs]

theorem numBody_unsigned_frac (d : Char) (ip : List Char) (f : Char) (fp rest : List Char)
    (hd : isDigit d = true) (hip : ∀ c ∈ ip, isDigit c = true)
    (hf : isDigit f = true) (hfp : ∀ c ∈ fp, isDigit c = true) (hr : Delim rest) :
    numBody (d :: ip ++ '.' :: f :: fp ++ rest) = some (String.ofList (d :: ip ++ '.' :: f :: fp), rest) := by
  have hne : d ≠ '-' := digit_ne '-' (by decide) d hd
  have hs := spanDigits_append (d :: ip) ('.' :: f :: (fp ++ rest)) (all_cons d ip hd hip)
      (noDigitHead_cons _ _ (by decide))
  have hs2 := spanDigits_append (f :: fp) rest (all_cons f fp hf hfp) (delim_noDigitHead rest hr)
  unfold numBody
  rcases hr with rfl | ⟨c, r, rfl, rfl | rfl | rfl⟩ <;> simp at hs hs2 <;> simp [hne, hs, hs2]

theorem numBody_signed_int (d : Char) (ip rest : List Char) (hd : isDigit d = true)
    (hip : ∀ c ∈ ip, isDigit c = true) (hr : Delim rest) :
    numBody ('-' :: d :: ip ++ rest) = some (String.ofList ('-' :: d :: ip), rest) := by
  have hs := spanDigits_append (d :: ip) rest (all_cons d ip hd hip) (delim_noDigitHead rest hr)
  unfold numBody
  rcases hr with rfl | ⟨c, r, rfl, rfl | rfl | rfl⟩ <;> simp at hs <;> simp [hs]

theorem numBody_signed_frac (d : Char) (ip : List Char) (f : Char) (fp rest : List Char)
    (hd : isDigit d = true) (hip : ∀ c ∈ ip, isDigit c = true)
    (hf : isDigit f = true) (hfp : ∀ c ∈ fp, isDigit c = true) (hr : Delim rest) :
    numBody ('-' :: d :: ip ++ '.' :: f :: fp ++ rest) =
      some (String.ofList ('-' :: d :: ip ++ '.' :: f :: fp), rest) := by
  have hs := spanDigits_append (d :: ip) ('.' :: f :: (fp ++ rest)) (all_cons d ip hd hip)
      (noDigitHead_cons _ _ (by decide))
  have hs2 := spanDigits_append (f :: fp) rest (all_cons f fp hf hfp) (delim_noDigitHead rest hr)
  unfold numBody
  rcases hr with rfl | ⟨c, r, rfl, rfl | rfl | rfl⟩ <;> simp at hs hs2 <;> simp [hs, hs2]

/-- normal form of a numeric lexeme: the four concrete shapes -/
theorem isNumLex_shapes (cs : List Char) (h : IsNumLex cs) :
    ∃ (d : Char) (ip : List Char), isDigit d = true ∧ (∀ c ∈ ip, isDigit c = true) ∧
      (cs = d :: ip ∨ cs = '-' :: d :: ip ∨
        ∃ (f : Char) (fp : List Char), isDigit f = true ∧ (∀ c ∈ fp, isDigit c = true) ∧
          (cs = d :: ip ++ '.' :: f :: fp ∨ cs = '-' :: d :: ip ++ '.' :: f :: fp)) := by
  obtain ⟨neg, ip, fp, rfl, hne, hip, hfp⟩ := h
  cases ip with
  | nil => exact absurd rfl hne
  | cons d ip =>
    refine ⟨d, ip, hip d (by simp), fun c hc => hip c (by simp [hc]), ?_⟩
    cases fp with
    | nil => cases neg <;> simp
    | cons f fp =>
      refine Or.inr (Or.inr ⟨f, fp, hfp f (by simp), fun c hc => hfp c (by simp [hc]), ?_⟩)
      cases neg <;> simp

theorem numBody_num (cs : List Char) (h : IsNumLex cs) (rest : List Char) (hd : Delim rest) :
    numBody (cs ++ rest) = some (String.ofList cs, rest) := by
  obtain ⟨d, ip, hdd, hip, rfl | rfl | ⟨f, fp, hf, hfp, rfl | rfl⟩⟩ := isNumLex_shapes cs h
  · exact numBody_unsigned_int d ip rest hdd hip hd
  · exact numBody_signed_int d ip rest hdd hip hd
  · exact numBody_unsigned_frac d ip f fp rest hdd hip hf hfp hd
  · exact numBody_signed_frac d ip f fp rest hdd hip hf hfp hd

/-! ## `tokenize` -/

theorem tokenize_digit (fuel : Nat) (d : Char) (tl : List Char) (acc : List Tok) (hd : isDigit d = true)
    (s : String) (r : List Char) (hnb : numBody (d :: tl) = some (s, r)) :
    tokenize (fuel + 1) (d :: tl) acc = tokenize fuel r (.num s :: acc) := by
  have h1 := digit_not_space d hd
  have h2 := digit_ne '"' (by decide) d hd
  have h3 := digit_ne '`' (by decide) d hd
  simp [tokenize, h1, h2, h3, hd, hnb]

theorem tokenize_minus (fuel : Nat) (d : Char) (tl : List Char) (acc : List Tok) (hd : isDigit d = true)
    (s : String) (r : List Char) (hnb : numBody ('-' :: d :: tl) = some (s, r)) :
    tokenize (fuel + 1) ('-' :: d :: tl) acc = tokenize fuel r (.num s :: acc) := by
  have h4 : isDigit '-' = false := by decide
  simp [tokenize, hd, isSpace, h4, hnb]

/-- a numeric lexeme followed by a delimiter is read as exactly one `.num` token -/
theorem tokenize_num (cs : List Char) (h : IsNumLex cs) (fuel : Nat) (rest : List Char) (acc : List Tok)
    (hd : Delim rest) :
    tokenize (fuel + 1) (cs ++ rest) acc = tokenize fuel rest (Tok.num (String.ofList cs) :: acc) := by
  have hnb := numBody_num cs h rest hd
  obtain ⟨d, ip, hdd, hip, rfl | rfl | ⟨f, fp, hf, hfp, rfl | rfl⟩⟩ := isNumLex_shapes cs h
  all_goals simp only [List.cons_append] at hnb ⊢
  · exact tokenize_digit fuel d _ acc hdd _ _ hnb
  · exact tokenize_minus fuel d _ acc hdd _ _ hnb
  · exact tokenize_digit fuel d _ acc hdd _ _ hnb
  · exact tokenize_minus fuel d _ acc hdd _ _ hnb

/-! ## what the printers produce -/

theorem isDigit_of_charIsDigit (c : Char) (h : c.isDigit = true) : isDigit c = true := h

/-- `toString` of an `Int` (used for `from_unixtime(n)`) is a numeric lexeme -/
theorem toString_int_isNumLex (n : Int) : IsNumLex (toString n).toList := by
  have hdig : ∀ m : Nat, ∀ c ∈ Nat.toDigits 10 m, isDigit c = true := fun m c hc =>
    isDigit_of_charIsDigit c (Nat.isDigit_of_mem_toDigits (by decide) (by decide) hc)
  have hne : ∀ m : Nat, Nat.toDigits 10 m ≠ [] := fun m h => by
    have := @Nat.length_toDigits_pos 10 m
    rw [h] at this
    simp at this
  rw [Int.toString_eq_repr]
  cases n with
  | ofNat m =>
    refine ⟨false, Nat.toDigits 10 m, [], ?_, hne m, hdig m, by simp⟩
    simp [Int.repr]
  | negSucc m =>
    refine ⟨true, Nat.toDigits 10 (m + 1), [], ?_, hne _, hdig _, by simp⟩
    simp [Int.repr]

theorem mem_replicate_zero_digit (n : Nat) : ∀ c ∈ List.replicate n '0', isDigit c = true := by
  intro c hc
  rw [(List.mem_replicate.mp hc).2]
  decide

theorem all_append {p : Char → Prop} (a b : List Char) (ha : ∀ c ∈ a, p c) (hb : ∀ c ∈ b, p c) :
    ∀ c ∈ a ++ b, p c := by
  intro c hc
  rcases List.mem_append.mp hc with h | h
  · exact ha c h
  · exact hb c h

/-- positional rendering of a non-empty digit string: `digits+ ('.' digits+)?` wherever the point is -/
theorem fmtPositional_shape (ds : List Char) (dp : Int) (hne : ds ≠ [])
    (hds : ∀ c ∈ ds, isDigit c = true) :
    ∃ ip fp : List Char, Num.fmtPositional ds dp = ip ++ (if fp = [] then [] else '.' :: fp) ∧
      ip ≠ [] ∧ (∀ c ∈ ip, isDigit c = true) ∧ (∀ c ∈ fp, isDigit c = true) := by
  have hlen : 0 < ds.length := List.length_pos_iff.mpr hne
  have htake : ∀ n, ∀ c ∈ ds.take n, isDigit c = true := fun n c hc => hds c (List.mem_of_mem_take hc)
  have hdrop : ∀ n, ∀ c ∈ ds.drop n, isDigit c = true := fun n c hc => hds c (List.mem_of_mem_drop hc)
  refine ⟨if dp > 0 then ds.take dp.toNat ++ List.replicate (dp.toNat - ds.length) '0' else ['0'],
    if (ds.length : Int) > dp then
      List.replicate (if dp < 0 then (-dp).toNat else 0) '0' ++ ds.drop dp.toNat else [], ?_, ?_, ?_, ?_⟩
  · unfold Num.fmtPositional
    by_cases h : (ds.length : Int) > dp
    · have hd : ds.drop dp.toNat ≠ [] := by
        intro e
        have := List.drop_eq_nil_iff.mp e
        omega
      simp [h, hd]
    · simp [h]
  · by_cases h : dp > 0
    · have ht : ds.take dp.toNat ≠ [] := by
        intro e
        rcases List.take_eq_nil_iff.mp e with e | e
        · omega
        · exact hne e
      simp [h, ht]
    · simp [h]
  · by_cases h : dp > 0
    · simp only [h, if_true]
      exact all_append _ _ (htake _) (mem_replicate_zero_digit _)
    · simp only [h, if_false]
      intro c hc
      simp at hc
      subst hc
      decide
  · by_cases h : (ds.length : Int) > dp
    · simp only [h, if_true]
      exact all_append _ _ (mem_replicate_zero_digit _) (hdrop _)
    · simp [h]

theorem natDigits_digits (n : Nat) : ∀ c ∈ Num.natDigits n, isDigit c = true :=
  Num.natDigits_all_digits n

theorem fmtInt_isNumLex (n : Int) : IsNumLex (Num.fmtInt n).toList := by
  cases n with
  | ofNat k =>
    refine ⟨false, Num.natDigits k, [], ?_, Num.natDigits_ne_nil k, natDigits_digits k, by simp⟩
    simp [Num.fmtInt, Num.fmtNat]
  | negSucc k =>
    refine ⟨true, Num.natDigits (k + 1), [], ?_, Num.natDigits_ne_nil _, natDigits_digits _, by simp⟩
    simp [Num.fmtInt]

theorem fmtFloatBits_isNumLex (b : UInt64) (h : Num.expField b ≠ 2047) :
    IsNumLex (Num.fmtFloatBits b).toList := by
  have hnan : Num.bitsIsNaN b = false := by simp [Num.bitsIsNaN, h]
  have hinf : Num.bitsIsInf b = false := by simp [Num.bitsIsInf, h]
  unfold Num.fmtFloatBits
  simp only [hnan, hinf, Bool.false_eq_true, if_false]
  by_cases hm : ((Num.decompose b).1 == 0) = true
  · simp only [hm, if_true]
    refine ⟨Num.signBit b, ['0'], [], ?_, by simp, ?_, by simp⟩
    · simp
    · intro c hc
      simp at hc
      subst hc
      decide
  · have hm' : ((Num.decompose b).1 == 0) = false := by simpa using hm
    simp only [hm', Bool.false_eq_true, if_false]
    obtain ⟨ip, fp, he, hne, hip, hfp⟩ :=
      fmtPositional_shape (Num.natDigits (Num.shortest (Num.decompose b).1 (Num.decompose b).2).1)
        (((Num.natDigits (Num.shortest (Num.decompose b).1 (Num.decompose b).2).1).length : Int) +
          (Num.shortest (Num.decompose b).1 (Num.decompose b).2).2)
        (Num.natDigits_ne_nil _) (natDigits_digits _)
    refine ⟨Num.signBit b, ip, fp, ?_, hne, hip, hfp⟩
    rw [String.toList_ofList, he, List.append_assoc]

/-- every finite number is printed as a numeric lexeme (strconv 'f' format: no exponent) -/
theorem renderNumBits_isNumLex (b : UInt64) (h : Num.expField b ≠ 2047) :
    IsNumLex (Num.renderNumBits b).toList := by
  unfold Num.renderNumBits
  by_cases hi : Num.isIntBits b = true
  · rw [if_pos hi]
    exact fmtInt_isNumLex _
  · rw [if_neg hi]
    exact fmtFloatBits_isNumLex b h

#print axioms tokenize_num
#print axioms renderNumBits_isNumLex
#print axioms toString_int_isNumLex

end Yae.SqlLex
