/-
  The reader's tokenizer (`Yae.Sql.tokenize`) reads the Go-quoted form of ANY string back as the
  single token `.str s`, whatever follows (`tokenize_quote`).
-/
import Yae.Proofs.SqlLemmas
namespace Yae.SqlLex
open Yae Yae.Sql

/-! ## bytes -/

theorem byteArray_toList_loop (bs : ByteArray) : ∀ (k i : Nat) (r : List UInt8), bs.size - i = k → i ≤ bs.size →
    ByteArray.toList.loop bs i r = r.reverse ++ bs.data.toList.drop i := by
  intro k
  induction k with
  | zero =>
    intro i r hk hi
    have hs : bs.data.toList.length = bs.size := by cases bs; rfl
    unfold ByteArray.toList.loop
    rw [if_neg (by omega), List.drop_eq_nil_of_le (by omega)]
    simp
  | succ k ih =>
    intro i r hk hi
    have hs : bs.data.toList.length = bs.size := by cases bs; rfl
    unfold ByteArray.toList.loop
    rw [if_pos (by omega), ih (i + 1) _ (by omega) (by omega)]
    have hlt : i < bs.data.toList.length := by omega
    rw [List.drop_eq_getElem_cons hlt]
    have hg : bs.get! i = bs.data.toList[i] := by
      cases bs with
      | mk d =>
        simp only [ByteArray.get!]
        have : i < d.size := by simpa using hlt
        simp [this]
    simp [hg]

theorem byteArray_toList (bs : ByteArray) : bs.toList = bs.data.toList := by
  unfold ByteArray.toList
  rw [byteArray_toList_loop bs _ 0 [] rfl (Nat.zero_le _)]
  simp

theorem byteArray_mk_toList (bs : ByteArray) : ByteArray.mk bs.toList.toArray = bs := by
  rw [byteArray_toList]

theorem singleton_bytes (c : Char) : (String.singleton c).toUTF8.toList = String.utf8EncodeChar c := by
  rw [byteArray_toList, String.toUTF8_eq_toByteArray, String.toByteArray_singleton,
    List.utf8Encode_singleton, List.toList_data_toByteArray]

theorem utf8Encode_toList (l : List Char) :
    l.utf8Encode.toList = l.flatMap fun c => (String.singleton c).toUTF8.toList := by
  induction l with
  | nil => simp
  | cons c l ih =>
    rw [List.utf8Encode_cons, byteArray_toList, ByteArray.toList_data_append, ← byteArray_toList,
      ← byteArray_toList, ih, List.flatMap_cons, singleton_bytes, List.utf8Encode_singleton,
      byteArray_toList, List.toList_data_toByteArray]

theorem string_bytes (s : String) :
    s.toUTF8.toList = s.toList.flatMap fun c => (String.singleton c).toUTF8.toList := by
  rw [← utf8Encode_toList, String.utf8Encode_toList, String.toUTF8_eq_toByteArray]

theorem fromUTF8_bytes (s : String) : String.fromUTF8? (ByteArray.mk s.toUTF8.toList.toArray) = some s := by
  rw [byteArray_mk_toList, String.toUTF8_eq_toByteArray]
  unfold String.fromUTF8?
  rw [dif_pos s.isValidUTF8]
  rfl

/-! ## hex digits -/

theorem hexv_hexLower (d : Nat) (h : d < 16) : hexv (Num.hexLower d) = some d := by
  have : ∀ d : Fin 16, hexv (Num.hexLower d.val) = some d.val := by decide
  exact this ⟨d, h⟩

theorem hexFixed_length (w : Nat) : ∀ n, (Num.hexFixed w n).length = w := by
  induction w with
  | zero => intro n; simp [Num.hexFixed]
  | succ w ih => intro n; simp [Num.hexFixed, ih]

theorem hexN_eq (cs : List Char) :
    hexN cs = cs.foldlM (fun acc c => do let v ← hexv c; pure (acc * 16 + v)) 0 := by
  cases cs with
  | nil => rfl
  | cons c cs => rfl

theorem foldlM_hexFixed (w : Nat) : ∀ (m acc : Nat),
    (Num.hexFixed w m).foldlM (fun acc c => do let v ← hexv c; pure (acc * 16 + v)) acc
      = some (acc * 16 ^ w + m % 16 ^ w) := by
  induction w with
  | zero => intro m acc; simp [Num.hexFixed, Nat.mod_one]
  | succ w ih =>
    intro m acc
    simp only [Num.hexFixed, List.foldlM_append, ih]
    simp only [List.foldlM_cons, List.foldlM_nil, hexv_hexLower (m % 16) (Nat.mod_lt _ (by decide))]
    show some _ = some _
    congr 1
    rw [Nat.pow_succ, Nat.mul_comm (16 ^ w) 16, Nat.mod_mul]
    generalize 16 ^ w = P
    generalize m / 16 % P = Q
    rw [Nat.add_mul, Nat.mul_assoc, Nat.mul_comm P 16, ← Nat.mul_assoc]
    omega

theorem hexN_hexFixed (w n : Nat) (h : n < 16 ^ w) : hexN (Num.hexFixed w n) = some n := by
  rw [hexN_eq, foldlM_hexFixed, Nat.mod_eq_of_lt h]
  simp

/-! ## one character -/

theorem ascii_bytes (c : Char) (h : c.toNat < 128) :
    (String.singleton c).toUTF8.toList = [UInt8.ofNat c.toNat] := by
  rw [singleton_bytes, String.utf8EncodeChar_eq_singleton]
  · rfl
  · simp only [Char.utf8Size]
    have : c.val ≤ 127 := by
      rw [UInt32.le_iff_toNat_le]; show c.toNat ≤ 127; omega
    exact if_pos this

theorem scalarBytes_char (c : Char) :
    scalarBytes c.toNat = some (String.singleton c).toUTF8.toList := by
  have hv : c.toNat < 0xD800 ∨ (0xDFFF < c.toNat ∧ c.toNat < 0x110000) := c.valid
  unfold scalarBytes
  rw [if_pos (by rcases hv with h | ⟨h1, h2⟩ <;> simp <;> omega), Char.ofNat_toNat]

/-- an escape `\e` that stands for the one-byte character `c` -/
theorem strBody_named (c : Char) (k : Nat) (e : Char) (f : Nat) (tail : List Char) (acc : List UInt8)
    (hk : c.toNat = k) (hlt : k < 128)
    (he : strBody (f + 1) ('\\' :: e :: tail) acc = strBody f tail (UInt8.ofNat k :: acc)) :
    strBody (f + 1) (['\\', e] ++ tail) acc
      = strBody f tail ((String.singleton c).toUTF8.toList.reverse ++ acc) := by
  rw [ascii_bytes c (by omega), hk]
  simpa using he

/-- one escaped (or verbatim) character is decoded to its UTF-8 bytes -/
theorem strBody_quoteChar (c : Char) (f : Nat) (tail : List Char) (acc : List UInt8) :
    strBody (f + 1) (Num.quoteChar c ++ tail) acc
      = strBody f tail ((String.singleton c).toUTF8.toList.reverse ++ acc) := by
  unfold Num.quoteChar
  split
  · -- quote or backslash
    rename_i h
    simp at h
    rcases h with h | h <;> subst h
    · exact strBody_named '"' 34 '"' f tail acc (by decide) (by decide) (strBody.eq_13 ..)
    · exact strBody_named '\\' 92 '\\' f tail acc (by decide) (by decide) (strBody.eq_12 ..)
  · rename_i h1
    simp at h1
    split
    · -- printable
      rename_i hp
      have hge := Num.isPrint_ge c hp
      have hnl : c ≠ '\n' := by
        intro h; subst h; simp at hge
      exact strBody.eq_21 acc f c tail (fun h => h1.1 h) (fun h => hnl h)
        (fun _ _ h _ => h1.2 h) (fun h _ => h1.2 h)
    · rename_i hnp
      simp only []
      split
      · rename_i h
        exact strBody_named c 7 'a' f tail acc (by simpa using h) (by decide) (strBody.eq_5 ..)
      split
      · rename_i h
        exact strBody_named c 8 'b' f tail acc (by simpa using h) (by decide) (strBody.eq_6 ..)
      split
      · rename_i h
        exact strBody_named c 12 'f' f tail acc (by simpa using h) (by decide) (strBody.eq_7 ..)
      split
      · rename_i h
        exact strBody_named c 10 'n' f tail acc (by simpa using h) (by decide) (strBody.eq_8 ..)
      split
      · rename_i h
        exact strBody_named c 13 'r' f tail acc (by simpa using h) (by decide) (strBody.eq_9 ..)
      split
      · rename_i h
        exact strBody_named c 9 't' f tail acc (by simpa using h) (by decide) (strBody.eq_10 ..)
      split
      · rename_i h
        exact strBody_named c 11 'v' f tail acc (by simpa using h) (by decide) (strBody.eq_11 ..)
      have hlt : c.toNat < 0x110000 := by
        have hv : c.toNat < 0xD800 ∨ (0xDFFF < c.toNat ∧ c.toNat < 0x110000) := c.valid
        omega
      split
      · -- \xNN
        rename_i hx
        have hx' : c.toNat < 128 := by simp at hx; omega
        have e : Num.hexFixed 2 c.toNat = [Num.hexLower (c.toNat / 16 % 16), Num.hexLower (c.toNat % 16)] := by
          simp [Num.hexFixed]
        rw [e, ascii_bytes c hx']
        show strBody (f + 1) ('\\' :: 'x' :: Num.hexLower (c.toNat / 16 % 16) :: Num.hexLower (c.toNat % 16) :: tail) acc = _
        rw [strBody.eq_14, hexv_hexLower _ (Nat.mod_lt _ (by decide)), hexv_hexLower _ (Nat.mod_lt _ (by decide))]
        have : c.toNat / 16 % 16 * 16 + c.toNat % 16 = c.toNat := by omega
        simp only [this]
        rfl
      split
      · -- \uNNNN
        rename_i hu
        show strBody (f + 1) ('\\' :: 'u' :: (Num.hexFixed 4 c.toNat ++ tail)) acc = _
        rw [strBody.eq_16, if_neg (by simp [hexFixed_length]),
          List.take_left' (hexFixed_length 4 _), List.drop_left' (hexFixed_length 4 _),
          hexN_hexFixed 4 _ (by omega)]
        simp only [Option.bind_some, scalarBytes_char]
      · -- \UNNNNNNNN
        show strBody (f + 1) ('\\' :: 'U' :: (Num.hexFixed 8 c.toNat ++ tail)) acc = _
        rw [strBody.eq_17, if_neg (by simp [hexFixed_length]),
          List.take_left' (hexFixed_length 8 _), List.drop_left' (hexFixed_length 8 _),
          hexN_hexFixed 8 _ (by omega)]
        simp only [Option.bind_some, scalarBytes_char]

/-! ## the whole literal -/

/-- Scanning the quoted form of `l` followed by ANY text `rest` stops exactly at the closing quote
`quote` wrote: the decoded bytes are the UTF-8 encoding of `l`, the remaining input is `rest`. -/
theorem strBody_quoted (l rest : List Char) : ∀ (fuel : Nat) (acc : List UInt8), l.length + 1 ≤ fuel →
    strBody fuel (l.flatMap Num.quoteChar ++ '"' :: rest) acc
      = some (acc.reverse ++ (l.flatMap fun c => (String.singleton c).toUTF8.toList), rest) := by
  induction l with
  | nil =>
    intro fuel acc h
    obtain ⟨f, rfl⟩ : ∃ f, fuel = f + 1 := ⟨fuel - 1, by omega⟩
    simp [strBody]
  | cons c l ih =>
    intro fuel acc h
    obtain ⟨f, rfl⟩ : ∃ f, fuel = f + 1 := ⟨fuel - 1, by omega⟩
    simp only [List.flatMap_cons, List.append_assoc]
    rw [strBody_quoteChar, ih f _ (by simpa using h)]
    simp

/-- the reader's tokenizer reads the Go-quoted form of ANY string `s`, followed by ANY text, as the
single token `.str s` and leaves the rest untouched -/
theorem tokenize_quote (s : String) (fuel : Nat) (rest : List Char) (acc : List Tok) :
    tokenize (fuel + 1) ((Num.quote s).toList ++ rest) acc = tokenize fuel rest (Tok.str s :: acc) := by
  rw [SqlLemmas.quote_toList]
  show tokenize (fuel + 1) ('"' :: (s.toList.flatMap Num.quoteChar ++ ['"'] ++ rest)) acc = _
  rw [tokenize.eq_def]
  have e1 : isSpace '"' = false := by decide
  have e2 : ('"' == '"') = true := by decide
  have hlen := Num.length_le_flatMap_quoteChar s.toList
  simp only [e1, e2, if_true, Bool.false_eq_true, if_false, List.append_assoc, List.singleton_append]
  rw [strBody_quoted s.toList rest _ [] (by simp only [List.length_append, List.length_cons]; omega)]
  simp only [List.reverse_nil, List.nil_append, ← string_bytes, fromUTF8_bytes]

end Yae.SqlLex

#print axioms Yae.SqlLex.tokenize_quote
