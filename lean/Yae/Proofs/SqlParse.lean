/-
  C20, the parser half: the reference reader's precedence-climbing parser reads the tokens of a
  well-formed `Doc` (see `Yae.Proofs.SqlDoc`) as `ptree d`, whatever follows, provided what follows
  cannot continue the phrase (`StopP`/`StopA`/`StopO`).

  The parser runs on fuel.  All statements here are of the form "for every sufficiently large fuel"
  (`Ev`); `Yae.Proofs.SqlParseFuel.parseOr_fuel_ok` turns that into a statement about the fuel
  `parseFuel` that `readSql` actually uses.
-/
import Yae.Proofs.SqlDoc
import Yae.Proofs.SqlParseFuel
namespace Yae.SqlParse
open Yae Yae.Sql Yae.SqlDoc

/-! ### "for every sufficiently large fuel" -/

def Ev {α : Type} (g : Nat → Option α) (r : α) : Prop := ∃ f0, ∀ f, f0 ≤ f → g f = some r

theorem Ev.const {α : Type} {g : Nat → Option α} {r : α} (h : ∀ f, g (f + 1) = some r) : Ev g r :=
  ⟨1, fun f hf => by obtain ⟨k, rfl⟩ : ∃ k, f = k + 1 := ⟨f - 1, by omega⟩; exact h k⟩

theorem Ev.step {α : Type} {g q : Nat → Option α} {r : α} (hq : Ev q r)
    (h : ∀ f, g (f + 1) = q f) : Ev g r := by
  obtain ⟨f0, hq⟩ := hq
  refine ⟨f0 + 1, fun f hf => ?_⟩
  obtain ⟨k, rfl⟩ : ∃ k, f = k + 1 := ⟨f - 1, by omega⟩
  rw [h, hq k (by omega)]

theorem Ev.comp {α β : Type} {g q : Nat → Option α} {p : Nat → Option β} {a : β} {r : α}
    (hp : Ev p a) (hq : Ev q r) (h : ∀ f, p f = some a → g (f + 1) = q f) : Ev g r := by
  obtain ⟨f1, hp⟩ := hp
  obtain ⟨f2, hq⟩ := hq
  refine ⟨max f1 f2 + 1, fun f hf => ?_⟩
  obtain ⟨k, rfl⟩ : ∃ k, f = k + 1 := ⟨f - 1, by omega⟩
  rw [h k (hp k (by omega)), hq k (by omega)]

theorem Ev.comp2 {α β γ : Type} {g q : Nat → Option α} {p1 : Nat → Option β} {p2 : Nat → Option γ}
    {a1 : β} {a2 : γ} {r : α} (hp1 : Ev p1 a1) (hp2 : Ev p2 a2) (hq : Ev q r)
    (h : ∀ f, p1 f = some a1 → p2 f = some a2 → g (f + 1) = q f) : Ev g r := by
  obtain ⟨f1, hp1⟩ := hp1
  obtain ⟨f2, hp2⟩ := hp2
  obtain ⟨f3, hq⟩ := hq
  refine ⟨max f1 (max f2 f3) + 1, fun f hf => ?_⟩
  obtain ⟨k, rfl⟩ : ∃ k, f = k + 1 := ⟨f - 1, by omega⟩
  rw [h k (hp1 k (by omega)) (hp2 k (by omega)), hq k (by omega)]

/-! ### one step of each parser function -/

theorem parseOr_step {f ts x ts1} (h : parseAnd f ts = some (x, ts1)) :
    parseOr (f+1) ts = parseOrRest f x ts1 := by
  rw [parseOr]; simp [h]

theorem parseOrRest_or {f x ts y ts1} (h : parseAnd f ts = some (y, ts1)) :
    parseOrRest (f+1) x (.word "OR" :: ts) = parseOrRest f (.or (.cons x (.cons y .nil))) ts1 := by
  rw [parseOrRest]; simp [h]

theorem parseOrRest_other {f x t ts} (h : t ≠ .word "OR") :
    parseOrRest (f+1) x (t :: ts) = some (x, t :: ts) := by
  rw [parseOrRest]
  intro ts' h'; simp at h'; exact h h'.1

theorem parseOrRest_nil {f x} : parseOrRest (f+1) x [] = some (x, []) := by
  rw [parseOrRest]; simp

theorem parseAnd_step {f ts x ts1} (h : parseNot f ts = some (x, ts1)) :
    parseAnd (f+1) ts = parseAndRest f x ts1 := by
  rw [parseAnd]; simp [h]

theorem parseAndRest_and {f x ts y ts1} (h : parseNot f ts = some (y, ts1)) :
    parseAndRest (f+1) x (.word "AND" :: ts) = parseAndRest f (.and (.cons x (.cons y .nil))) ts1 := by
  rw [parseAndRest]; simp [h]

theorem parseAndRest_other {f x t ts} (h : t ≠ .word "AND") :
    parseAndRest (f+1) x (t :: ts) = some (x, t :: ts) := by
  rw [parseAndRest]
  intro ts' h'; simp at h'; exact h h'.1

theorem parseAndRest_nil {f x} : parseAndRest (f+1) x [] = some (x, []) := by
  rw [parseAndRest]; simp

theorem parseNot_not {f ts x ts1} (h : parseNot f ts = some (x, ts1)) :
    parseNot (f+1) (.word "NOT" :: ts) = some (.not x, ts1) := by
  rw [parseNot]; simp [h]

theorem parseNot_other {f t ts x ts1} (h : t ≠ .word "NOT")
    (hp : parsePrimary f (t :: ts) = some (x, ts1)) :
    parseNot (f+1) (t :: ts) = parsePredRest f x ts1 := by
  rw [parseNot]
  · simp [hp]
  · intro ts' h'; simp at h'; exact h h'.1

theorem parsePredRest_nil {f x} : parsePredRest (f+1) x [] = some (x, []) := by
  rw [parsePredRest] <;> simp

theorem parsePredRest_and {f x ts} :
    parsePredRest (f+1) x (.word "AND" :: ts) = some (x, .word "AND" :: ts) := by
  rw [parsePredRest] <;> simp

theorem parsePredRest_or {f x ts} :
    parsePredRest (f+1) x (.word "OR" :: ts) = some (x, .word "OR" :: ts) := by
  rw [parsePredRest] <;> simp

theorem parsePredRest_close {f x ts} :
    parsePredRest (f+1) x (.sym ")" :: ts) = some (x, .sym ")" :: ts) := by
  rw [parsePredRest]; simp [cmpOps]

theorem parsePredRest_comma {f x ts} :
    parsePredRest (f+1) x (.sym "," :: ts) = some (x, .sym "," :: ts) := by
  rw [parsePredRest]; simp [cmpOps]

theorem parsePredRest_cmp {f x op ts y ts1} (hop : op ∈ cmpOps)
    (h : parsePrimary f ts = some (y, ts1)) :
    parsePredRest (f+1) x (.sym op :: ts) = parsePredRest f (.cond op (.cons x (.cons y .nil))) ts1 := by
  rw [parsePredRest]; simp [hop, h]

theorem parsePredRest_like {f x ts y ts1} (h : parsePrimary f ts = some (y, ts1)) :
    parsePredRest (f+1) x (.word "LIKE" :: ts) =
      parsePredRest f (.cond "LIKE" (.cons x (.cons y .nil))) ts1 := by
  rw [parsePredRest]; simp [h]

theorem parsePredRest_in {f x ts ys ts1} (h : parseItems f ts = some (ys, ts1)) :
    parsePredRest (f+1) x (.word "IN" :: .sym "(" :: ts) =
      parsePredRest f (.cond "IN" (.cons x (.cons (.list ys) .nil))) ts1 := by
  rw [parsePredRest]; simp [h]

theorem parsePredRest_between {f x ts lo ts1 hi ts2}
    (h : parsePrimary f ts = some (lo, .word "AND" :: ts1))
    (h2 : parsePrimary f ts1 = some (hi, ts2)) :
    parsePredRest (f+1) x (.word "BETWEEN" :: ts) =
      parsePredRest f (.cond "BETWEEN" (.cons x (.cons lo (.cons hi .nil)))) ts2 := by
  rw [parsePredRest]; simp [h, h2]

theorem parsePredRest_isnull {f x ts} :
    parsePredRest (f+1) x (.word "IS" :: .word "NULL" :: ts) =
      parsePredRest f (.cond "IS NULL" (.cons x .nil)) ts := by
  rw [parsePredRest]

theorem parsePrimary_str {f s ts} : parsePrimary (f+1) (.str s :: ts) = some (.str s, ts) := by
  rw [parsePrimary]
theorem parsePrimary_num {f s ts} : parsePrimary (f+1) (.num s :: ts) = some (.num s, ts) := by
  rw [parsePrimary]
theorem parsePrimary_bq {f s ts} : parsePrimary (f+1) (.bq s :: ts) = some (.col s, ts) := by
  rw [parsePrimary]
theorem parsePrimary_time {f s ts} :
    parsePrimary (f+1) (.word "from_unixtime" :: .sym "(" :: .num s :: .sym ")" :: ts) =
      some (.time s, ts) := by
  rw [parsePrimary]

theorem parsePrimary_paren1 {f ts x ts1} (h : parseItems f ts = some (.cons x .nil, ts1)) :
    parsePrimary (f+1) (.sym "(" :: ts) = some (x, ts1) := by
  rw [parsePrimary]; simp only [h]; rfl

theorem parsePrimary_paren2 {f ts x y ys ts1}
    (h : parseItems f ts = some (.cons x (.cons y ys), ts1)) :
    parsePrimary (f+1) (.sym "(" :: ts) = some (.list (.cons x (.cons y ys)), ts1) := by
  rw [parsePrimary]; simp only [h]; rfl

theorem parseItems_last {f ts x ts1} (h : parseOr f ts = some (x, .sym ")" :: ts1)) :
    parseItems (f+1) ts = some (.cons x .nil, ts1) := by
  rw [parseItems]; simp [h]

theorem parseItems_more {f ts x ts1 xs ts2} (h : parseOr f ts = some (x, .sym "," :: ts1))
    (h2 : parseItems f ts1 = some (xs, ts2)) : parseItems (f+1) ts = some (.cons x xs, ts2) := by
  rw [parseItems]; simp [h, h2]

/-! ### what may follow a phrase -/

/-- what follows cannot continue a predicate: end of input, `)`, `,`, `OR`, `AND` -/
def StopP (rest : List Tok) : Prop :=
  ∀ t r, rest = t :: r → t = .sym ")" ∨ t = .sym "," ∨ t = .word "OR" ∨ t = .word "AND"
/-- … nor an and-expression -/
def StopA (rest : List Tok) : Prop :=
  ∀ t r, rest = t :: r → t = .sym ")" ∨ t = .sym "," ∨ t = .word "OR"
/-- … nor an or-expression -/
def StopO (rest : List Tok) : Prop :=
  ∀ t r, rest = t :: r → t = .sym ")" ∨ t = .sym ","

theorem StopO.toA {rest} (h : StopO rest) : StopA rest := fun t r e => by
  rcases h t r e with h | h <;> simp [h]
theorem StopA.toP {rest} (h : StopA rest) : StopP rest := fun t r e => by
  rcases h t r e with h | h | h <;> simp [h]
theorem StopO.nil : StopO [] := fun _ _ e => by cases e
theorem StopO.close (r) : StopO (.sym ")" :: r) := fun _ _ e => by cases e; simp
theorem StopO.comma (r) : StopO (.sym "," :: r) := fun _ _ e => by cases e; simp
theorem StopA.or (r) : StopA (.word "OR" :: r) := fun _ _ e => by cases e; simp
theorem StopP.and (r) : StopP (.word "AND" :: r) := fun _ _ e => by cases e; simp

theorem predRest_stop {rest : List Tok} (h : StopP rest) (x : SqlTree) :
    Ev (fun f => parsePredRest f x rest) (x, rest) := by
  apply Ev.const
  intro f
  cases rest with
  | nil => exact parsePredRest_nil
  | cons t r =>
    rcases h t r rfl with h | h | h | h <;> subst h
    · exact parsePredRest_close
    · exact parsePredRest_comma
    · exact parsePredRest_or
    · exact parsePredRest_and

theorem andRest_stop {rest : List Tok} (h : StopA rest) (x : SqlTree) :
    Ev (fun f => parseAndRest f x rest) (x, rest) := by
  apply Ev.const
  intro f
  cases rest with
  | nil => exact parseAndRest_nil
  | cons t r =>
    apply parseAndRest_other
    rcases h t r rfl with h | h | h <;> subst h <;> simp

theorem orRest_stop {rest : List Tok} (h : StopO rest) (x : SqlTree) :
    Ev (fun f => parseOrRest f x rest) (x, rest) := by
  apply Ev.const
  intro f
  cases rest with
  | nil => exact parseOrRest_nil
  | cons t r =>
    apply parseOrRest_other
    rcases h t r rfl with h | h <;> subst h <;> simp

/-! ### the accumulator of the AND / OR loops on phrases that are not chains -/

theorem pk_andAcc {d : Doc} (w : WF 2 d) (x : SqlTree) :
    pk (.andAcc x) d = .and (.cons x (.cons (ptree d) .nil)) := by
  cases d <;> simp only [WF] at w <;> first
    | (simp only [pk, wrap, ptree]; done)
    | omega

theorem pk_orAcc {d : Doc} (w : WF 1 d) (x : SqlTree) :
    pk (.orAcc x) d = .or (.cons x (.cons (ptree d) .nil)) := by
  cases d <;> simp only [WF] at w <;> first
    | (simp only [pk, wrap, ptree]; done)
    | omega

/-- a phrase that is not an `AND`/`OR` chain is of level 2 as soon as it is of any level -/
theorem WF_lift {l : Nat} : ∀ {d : Doc}, (∀ u v, d ≠ .and u v) → (∀ u v, d ≠ .or u v) → WF l d → l ≤ 2 → WF 2 d
  | .str _, _, _, _, _ | .num _, _, _, _, _ | .col _, _, _, _, _ | .time _, _, _, _, _ => by simp [WF]
  | .list _, _, _, w, _ | .paren _, _, _, w, _ => by simpa [WF] using w
  | .bin .., _, _, w, _ => by simp only [WF] at w ⊢; exact ⟨by omega, w.2⟩
  | .inn .., _, _, w, _ => by simp only [WF] at w ⊢; exact ⟨by omega, w.2⟩
  | .between .., _, _, w, _ => by simp only [WF] at w ⊢; exact ⟨by omega, w.2⟩
  | .isnull .., _, _, w, _ => by simp only [WF] at w ⊢; exact ⟨by omega, w.2⟩
  | .not .., _, _, w, _ => by simp only [WF] at w ⊢; exact ⟨by omega, w.2⟩
  | .and u v, h, _, _, _ => absurd rfl (h u v)
  | .or u v, _, h, _, _ => absurd rfl (h u v)

/-! ### the statements, level by level -/

def PPrim (d : Doc) : Prop :=
  ∀ rest, Ev (fun f => parsePrimary f (dtoks d ++ rest)) (ptree d, rest)
def PNot (d : Doc) : Prop :=
  ∀ rest, StopP rest → Ev (fun f => parseNot f (dtoks d ++ rest)) (ptree d, rest)
def PAndRest (d : Doc) : Prop :=
  ∀ x rest r, StopP rest → Ev (fun f => parseAndRest f (pk (.andAcc x) d) rest) r →
    Ev (fun f => parseAndRest f x (.word "AND" :: (dtoks d ++ rest))) r
def PAnd (d : Doc) : Prop :=
  ∀ rest r, StopP rest → Ev (fun f => parseAndRest f (ptree d) rest) r →
    Ev (fun f => parseAnd f (dtoks d ++ rest)) r
def POrRest (d : Doc) : Prop :=
  ∀ x rest r, StopA rest → Ev (fun f => parseOrRest f (pk (.orAcc x) d) rest) r →
    Ev (fun f => parseOrRest f x (.word "OR" :: (dtoks d ++ rest))) r
def POr (d : Doc) : Prop :=
  ∀ rest r, StopA rest → Ev (fun f => parseOrRest f (ptree d) rest) r →
    Ev (fun f => parseOr f (dtoks d ++ rest)) r
def PItems (ds : DocList) : Prop :=
  ds ≠ .nil → ∀ rest, Ev (fun f => parseItems f (itemsToks ds ++ (.sym ")" :: rest))) (pks ds, rest)

/-- the first token of a predicate is not `NOT` -/
def HeadOK (d : Doc) : Prop := ∀ rest, ∃ t r, dtoks d ++ rest = t :: r ∧ t ≠ .word "NOT"

/-- a predicate: a primary followed by a left-nested chain; whatever `parsePredRest` goes on to do
with the tree of `d`, `parseNot` does on the tokens of `d` -/
def PChain (d : Doc) : Prop :=
  HeadOK d ∧ ∀ rest r, Ev (fun f => parsePredRest f (ptree d) rest) r →
    Ev (fun f => parseNot f (dtoks d ++ rest)) r

structure All (d : Doc) : Prop where
  prim : WF 4 d → PPrim d
  chain : WF 3 d → PChain d
  not_ : WF 2 d → PNot d
  andRest : WF 1 d → PAndRest d
  and_ : WF 1 d → PAnd d
  orRest : WF 0 d → POrRest d
  or_ : WF 0 d → POr d

/-- the complete or-expression -/
theorem POr.final {d : Doc} (h : POr d) (rest : List Tok) (hs : StopO rest) :
    Ev (fun f => parseOr f (dtoks d ++ rest)) (ptree d, rest) :=
  h rest _ hs.toA (orRest_stop hs _)

/-! ### generic derivations: a phrase of a level is one of the level below -/

theorem headOK_of_prim : ∀ {d : Doc}, WF 4 d → HeadOK d
  | .str _, _ | .num _, _ | .col _, _ | .time _, _ | .list _, _ | .paren _, _ => fun rest => by
    simp [dtoks]
  | .bin .., w | .inn .., w | .between .., w | .isnull .., w | .not .., w | .and .., w => by
    simp only [WF] at w; omega
  | .or .., w => by simp only [WF] at w; omega

/-- a primary is a predicate (with an empty chain) -/
theorem chain_of_prim {d : Doc} (hp : PPrim d) (hh : HeadOK d) : PChain d := by
  refine ⟨hh, fun rest r hq => ?_⟩
  obtain ⟨t, ts, e, hne⟩ := hh rest
  refine Ev.comp (hp rest) hq ?_
  intro f hf
  rw [e] at hf ⊢
  exact parseNot_other hne hf

/-- a predicate followed by something that cannot continue it -/
theorem not_of_chain {d : Doc} (hc : PChain d) : PNot d :=
  fun rest hs => hc.2 rest _ (predRest_stop hs _)

theorem andRest_of_not {d : Doc} (hn : PNot d)
    (hk : ∀ x, pk (.andAcc x) d = .and (.cons x (.cons (ptree d) .nil))) : PAndRest d := by
  intro x rest r hs hq
  rw [hk] at hq
  exact Ev.comp (hn rest hs) hq (fun f hf => parseAndRest_and hf)

theorem and_of_not {d : Doc} (hn : PNot d) : PAnd d := by
  intro rest r hs hq
  exact Ev.comp (hn rest hs) hq (fun f hf => parseAnd_step hf)

theorem orRest_of_and {d : Doc} (ha : PAnd d)
    (hk : ∀ x, pk (.orAcc x) d = .or (.cons x (.cons (ptree d) .nil))) : POrRest d := by
  intro x rest r hs hq
  rw [hk] at hq
  exact Ev.comp (ha rest _ hs.toP (andRest_stop hs _)) hq (fun f hf => parseOrRest_or hf)

theorem or_of_and {d : Doc} (ha : PAnd d) : POr d := by
  intro rest r hs hq
  exact Ev.comp (ha rest _ hs.toP (andRest_stop hs _)) hq (fun f hf => parseOr_step hf)

/-- everything about a phrase that is not an `AND`/`OR` chain follows from its reading as a
NOT-expression -/
theorem All.ofNot {d : Doc} (h1 : ∀ u v, d ≠ .and u v) (h2 : ∀ u v, d ≠ .or u v)
    (hp : WF 4 d → PPrim d) (hc : WF 3 d → PChain d) (hn : WF 2 d → PNot d) : All d where
  prim := hp
  chain := hc
  not_ := hn
  andRest := fun w =>
    have w2 := WF_lift h1 h2 w (by omega)
    andRest_of_not (hn w2) (pk_andAcc w2)
  and_ := fun w => and_of_not (hn (WF_lift h1 h2 w (by omega)))
  orRest := fun w =>
    have w2 := WF_lift h1 h2 w (by omega)
    orRest_of_and (and_of_not (hn w2)) (pk_orAcc (WF_mono (by omega) w2))
  or_ := fun w => or_of_and (and_of_not (hn (WF_lift h1 h2 w (by omega))))

/-- a primary -/
theorem All.ofPrim {d : Doc} (h1 : ∀ u v, d ≠ .and u v) (h2 : ∀ u v, d ≠ .or u v)
    (h3 : ∀ l, WF l d → WF 4 d) (hp : WF 4 d → PPrim d) : All d :=
  have hc : ∀ l, WF l d → PChain d := fun l w =>
    chain_of_prim (hp (h3 l w)) (headOK_of_prim (h3 l w))
  All.ofNot h1 h2 hp (hc 3) fun w => not_of_chain (hc 2 w)

/-- a condition (a primary followed by a non-empty chain) -/
theorem All.ofCond {d : Doc} (h1 : ∀ u v, d ≠ .and u v) (h2 : ∀ u v, d ≠ .or u v)
    (h4 : ¬ WF 4 d) (h3 : WF 2 d → WF 3 d) (hc : WF 3 d → PChain d) : All d :=
  All.ofNot h1 h2 (fun w => absurd w h4) hc fun w => not_of_chain (hc (h3 w))

/-! ### the main induction -/

theorem items_single {d : Doc} (h : POr d) (rest : List Tok) :
    Ev (fun f => parseItems f (dtoks d ++ (.sym ")" :: rest))) (.cons (ptree d) .nil, rest) :=
  Ev.comp (h.final _ (StopO.close rest)) (Ev.const (g := fun _ => some (SqlTreeList.cons (ptree d) .nil, rest))
    (fun _ => rfl)) (fun f hf => by rw [parseItems_last hf])

mutual
theorem all : (d : Doc) → All d
  | .str s => All.ofPrim (by simp) (by simp) (by simp [WF]) fun _ rest =>
      Ev.const fun f => by simp only [dtoks, ptree, pk, wrap]; exact parsePrimary_str
  | .num s => All.ofPrim (by simp) (by simp) (by simp [WF]) fun _ rest =>
      Ev.const fun f => by simp only [dtoks, ptree, pk, wrap]; exact parsePrimary_num
  | .col s => All.ofPrim (by simp) (by simp) (by simp [WF]) fun _ rest =>
      Ev.const fun f => by simp only [dtoks, ptree, pk, wrap]; exact parsePrimary_bq
  | .time s => All.ofPrim (by simp) (by simp) (by simp [WF]) fun _ rest =>
      Ev.const fun f => by simp only [dtoks, ptree, pk, wrap]; exact parsePrimary_time
  | .list ds => All.ofPrim (by simp) (by simp) (fun l w => by simpa [WF] using w) fun w rest => by
      simp only [WF] at w
      have hi := items ds w.2 (by intro h; rw [h] at w; simp [DocList.length] at w) rest
      have e : dtoks (.list ds) ++ rest = .sym "(" :: (itemsToks ds ++ (.sym ")" :: rest)) := by
        simp [dtoks]
      rw [e]
      match ds, w, hi with
      | .cons d1 (.cons d2 ds'), _, hi =>
        simp only [pks] at hi
        refine Ev.comp hi (Ev.const (g := fun _ => some (ptree (.list (.cons d1 (.cons d2 ds'))), rest))
          (fun _ => rfl)) (fun f hf => ?_)
        rw [parsePrimary_paren2 hf]; simp only [ptree, pk, wrap, pks]
      | .cons d1 .nil, w, _ => simp [DocList.length] at w
      | .nil, w, _ => simp [DocList.length] at w
  | .paren d => All.ofPrim (by simp) (by simp) (fun l w => by simpa [WF] using w) fun w rest => by
      simp only [WF] at w
      have e : dtoks (.paren d) ++ rest = .sym "(" :: (dtoks d ++ (.sym ")" :: rest)) := by
        simp [dtoks]
      rw [e]
      refine Ev.comp (items_single ((all d).or_ w) rest)
        (Ev.const (g := fun _ => some (ptree (.paren d), rest)) (fun _ => rfl)) (fun f hf => ?_)
      rw [parsePrimary_paren1 hf]; simp only [ptree, pk, wrap]
  | .bin op a b => All.ofCond (by simp) (by simp) (fun w => by simp only [WF] at w; omega)
      (fun w => by simp only [WF] at w ⊢; exact ⟨by omega, w.2⟩) fun w => by
      simp only [WF] at w
      obtain ⟨_, hop, wa, wb⟩ := w
      have e : ∀ rest, dtoks (.bin op a b) ++ rest = dtoks a ++ (opTok op :: (dtoks b ++ rest)) := by
        intro rest; simp [dtoks]
      have ha := (all a).chain wa
      refine ⟨fun rest => by rw [e]; exact ha.1 _, fun rest r hq => ?_⟩
      rw [e]
      apply ha.2
      have hb := (all b).prim wb rest
      simp only [binOps, List.mem_cons, List.not_mem_nil, or_false] at hop
      have hsym : ∀ o, o ∈ cmpOps → op = o →
          Ev (fun f => parsePredRest f (ptree a) (opTok op :: (dtoks b ++ rest))) r := by
        intro o ho e; subst e
        have : opTok op = .sym op := by simp [opTok, ho]
        rw [this]
        refine Ev.comp hb hq (fun f hf => ?_)
        rw [parsePredRest_cmp ho hf]; simp only [ptree, pk, wrap]
      rcases hop with h | h | h | h | h | h | h
      · exact hsym _ (by decide) h
      · exact hsym _ (by decide) h
      · exact hsym _ (by decide) h
      · exact hsym _ (by decide) h
      · exact hsym _ (by decide) h
      · exact hsym _ (by decide) h
      · subst h
        have : opTok "LIKE" = .word "LIKE" := by decide
        rw [this]
        refine Ev.comp hb hq (fun f hf => ?_)
        rw [parsePredRest_like hf]; simp only [ptree, pk, wrap]
  | .inn a ds => All.ofCond (by simp) (by simp) (fun w => by simp only [WF] at w; omega)
      (fun w => by simp only [WF] at w ⊢; exact ⟨by omega, w.2⟩) fun w => by
      simp only [WF] at w
      obtain ⟨_, wa, hlen, wds⟩ := w
      have e : ∀ rest, dtoks (.inn a ds) ++ rest =
          dtoks a ++ (.word "IN" :: .sym "(" :: (itemsToks ds ++ (.sym ")" :: rest))) := by
        intro rest; simp [dtoks]
      have ha := (all a).chain wa
      refine ⟨fun rest => by rw [e]; exact ha.1 _, fun rest r hq => ?_⟩
      rw [e]
      apply ha.2
      have hi := items ds wds (by intro h; rw [h] at hlen; simp [DocList.length] at hlen) rest
      refine Ev.comp hi hq (fun f hf => ?_)
      rw [parsePredRest_in hf]; simp only [ptree, pk, wrap]
  | .between a lo hi => All.ofCond (by simp) (by simp) (fun w => by simp only [WF] at w; omega)
      (fun w => by simp only [WF] at w ⊢; exact ⟨by omega, w.2⟩) fun w => by
      simp only [WF] at w
      obtain ⟨_, wa, wlo, whi⟩ := w
      have e : ∀ rest, dtoks (.between a lo hi) ++ rest =
          dtoks a ++ (.word "BETWEEN" :: (dtoks lo ++ (.word "AND" :: (dtoks hi ++ rest)))) := by
        intro rest; simp [dtoks]
      have ha := (all a).chain wa
      refine ⟨fun rest => by rw [e]; exact ha.1 _, fun rest r hq => ?_⟩
      rw [e]
      apply ha.2
      refine Ev.comp2 ((all lo).prim wlo (.word "AND" :: (dtoks hi ++ rest))) ((all hi).prim whi rest)
        hq (fun f h1 h2 => ?_)
      rw [parsePredRest_between h1 h2]; simp only [ptree, pk, wrap]
  | .isnull a => All.ofCond (by simp) (by simp) (fun w => by simp only [WF] at w; omega)
      (fun w => by simp only [WF] at w ⊢; exact ⟨by omega, w.2⟩) fun w => by
      simp only [WF] at w
      have e : ∀ rest, dtoks (.isnull a) ++ rest = dtoks a ++ (.word "IS" :: .word "NULL" :: rest) := by
        intro rest; simp [dtoks]
      have ha := (all a).chain w.2
      refine ⟨fun rest => by rw [e]; exact ha.1 _, fun rest r hq => ?_⟩
      rw [e]
      apply ha.2
      refine Ev.step hq (fun f => ?_)
      rw [parsePredRest_isnull]; simp only [ptree, pk, wrap]
  | .not d => All.ofNot (by simp) (by simp) (fun w => by simp only [WF] at w; omega)
      (fun w => by simp only [WF] at w; omega) fun w rest hs => by
      simp only [WF] at w
      refine Ev.comp ((all d).not_ w.2 rest hs)
        (Ev.const (g := fun _ => some (ptree (.not d), rest)) (fun _ => rfl)) (fun f hf => ?_)
      simp only [dtoks, List.cons_append]
      rw [parseNot_not hf]; simp only [ptree, pk, wrap]
  | .and u v =>
    have hAR : WF 1 (.and u v) → PAndRest (.and u v) := fun w x rest r hs hq => by
      simp only [WF] at w
      have e : Tok.word "AND" :: (dtoks (.and u v) ++ rest) =
          .word "AND" :: (dtoks u ++ (.word "AND" :: (dtoks v ++ rest))) := by simp [dtoks]
      rw [e]
      simp only [pk] at hq
      exact (all u).andRest w.2.1 x _ r (StopP.and _) ((all v).andRest w.2.2 _ rest r hs hq)
    have hA : WF 1 (.and u v) → PAnd (.and u v) := fun w rest r hs hq => by
      simp only [WF] at w
      have e : dtoks (.and u v) ++ rest = dtoks u ++ (.word "AND" :: (dtoks v ++ rest)) := by
        simp [dtoks]
      rw [e]
      simp only [ptree, pk] at hq
      exact (all u).and_ w.2.1 _ r (StopP.and _) ((all v).andRest w.2.2 _ rest r hs hq)
    have up : WF 0 (.and u v) → WF 1 (.and u v) := fun w => by
      simp only [WF] at w ⊢; exact ⟨by omega, w.2⟩
    { prim := fun w => by simp only [WF] at w; omega
      chain := fun w => by simp only [WF] at w; omega
      not_ := fun w => by simp only [WF] at w; omega
      andRest := hAR
      and_ := hA
      orRest := fun w => orRest_of_and (hA (up w)) (pk_orAcc (up w))
      or_ := fun w => or_of_and (hA (up w)) }
  | .or u v =>
    { prim := fun w => by simp only [WF] at w; omega
      chain := fun w => by simp only [WF] at w; omega
      not_ := fun w => by simp only [WF] at w; omega
      andRest := fun w => by simp only [WF] at w; omega
      and_ := fun w => by simp only [WF] at w; omega
      orRest := fun w x rest r hs hq => by
        simp only [WF] at w
        have e : Tok.word "OR" :: (dtoks (.or u v) ++ rest) =
            .word "OR" :: (dtoks u ++ (.word "OR" :: (dtoks v ++ rest))) := by simp [dtoks]
        rw [e]
        simp only [pk] at hq
        exact (all u).orRest w.2.1 x _ r (StopA.or _) ((all v).orRest w.2.2 _ rest r hs hq)
      or_ := fun w rest r hs hq => by
        simp only [WF] at w
        have e : dtoks (.or u v) ++ rest = dtoks u ++ (.word "OR" :: (dtoks v ++ rest)) := by
          simp [dtoks]
        rw [e]
        simp only [ptree, pk] at hq
        exact (all u).or_ w.2.1 _ r (StopA.or _) ((all v).orRest w.2.2 _ rest r hs hq) }
theorem items : (ds : DocList) → WFs ds → PItems ds
  | .nil, _ => fun h => absurd rfl h
  | .cons d .nil, w => fun _ rest => by
    simp only [WFs] at w
    simp only [itemsToks, pks]
    exact items_single ((all d).or_ w.1) rest
  | .cons d (.cons d2 ds), w => fun _ rest => by
    simp only [WFs] at w
    have hi := items (.cons d2 ds) (by simp only [WFs]; exact w.2) (by simp) rest
    have e : itemsToks (.cons d (.cons d2 ds)) ++ (.sym ")" :: rest) =
        dtoks d ++ (.sym "," :: (itemsToks (.cons d2 ds) ++ (.sym ")" :: rest))) := by
      simp [itemsToks]
    rw [e]
    refine Ev.comp2 (((all d).or_ w.1).final (.sym "," :: (itemsToks (.cons d2 ds) ++ (.sym ")" :: rest)))
        (StopO.comma _)) hi
      (Ev.const (g := fun _ => some (pks (.cons d (.cons d2 ds)), rest)) (fun _ => rfl))
      (fun f h1 h2 => ?_)
    rw [parseItems_more h1 h2]; simp only [pks, ptree]
end

/-- **the reader's parser on the tokens of a well-formed text**: with the fuel `readSql` uses, the
whole token sequence is consumed and the tree is `ptree d` -/
theorem parse_doc (d : Doc) (w : WF 0 d) :
    parseOr (parseFuel (dtoks d)) (dtoks d) = some (ptree d, []) := by
  apply parseOr_fuel_ok
  have := ((all d).or_ w).final [] StopO.nil
  simpa [Ev] using this

end Yae.SqlParse

#print axioms Yae.SqlParse.parse_doc
