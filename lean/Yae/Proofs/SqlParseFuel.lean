/-
  Fuel lemmas for the reference SQL reader (`Yae/Model/SqlRead.lean`).

  1. every parser function returns a remaining token list no longer than its input;
  2. above a linear bound in the number of tokens, more fuel does not change the result;
  3. `parseOr_fuel_ok`: a result that holds for all sufficiently large fuels holds at `parseFuel`.
-/
import Yae.Model.SqlRead
namespace Yae.SqlParse
open Yae Yae.Sql

theorem bind_some {α β : Type} {a : Option α} {k : α → Option β} {r : β}
    (h : (a >>= k) = some r) : ∃ v, a = some v ∧ k v = some r := by
  cases a with
  | none => simp at h
  | some v => exact ⟨v, rfl, h⟩

theorem bind_congr' {α β : Type} {a a' : Option α} {k k' : α → Option β}
    (h1 : a = a') (h2 : ∀ v, a' = some v → k v = k' v) : (a >>= k) = (a' >>= k') := by
  subst h1
  cases a with
  | none => rfl
  | some v => exact h2 v rfl

/-- the length statements at one fuel level -/
structure Len (f : Nat) : Prop where
  or_ : ∀ ts p, parseOr f ts = some p → p.2.length ≤ ts.length
  orRest : ∀ x ts p, parseOrRest f x ts = some p → p.2.length ≤ ts.length
  and_ : ∀ ts p, parseAnd f ts = some p → p.2.length ≤ ts.length
  andRest : ∀ x ts p, parseAndRest f x ts = some p → p.2.length ≤ ts.length
  not_ : ∀ ts p, parseNot f ts = some p → p.2.length ≤ ts.length
  predRest : ∀ x ts p, parsePredRest f x ts = some p → p.2.length ≤ ts.length
  items : ∀ ts p, parseItems f ts = some p → p.2.length ≤ ts.length
  primary : ∀ ts p, parsePrimary f ts = some p → p.2.length ≤ ts.length

theorem len_all : ∀ f, Len f
  | 0 => by
    constructor <;> intros <;> simp_all [parseOr, parseOrRest, parseAnd, parseAndRest, parseNot,
      parsePredRest, parseItems, parsePrimary]
  | f+1 => by
    have ih := len_all f
    constructor
    · intro ts p h
      simp only [parseOr] at h
      obtain ⟨v, h1, h2⟩ := bind_some h
      have := ih.and_ _ _ h1
      have := ih.orRest _ _ _ h2
      omega
    · intro x ts p h
      simp only [parseOrRest] at h
      split at h
      · obtain ⟨v, h1, h2⟩ := bind_some h
        have := ih.and_ _ _ h1
        have := ih.orRest _ _ _ h2
        simp only [List.length_cons]; omega
      · cases h; exact Nat.le_refl _
    · intro ts p h
      simp only [parseAnd] at h
      obtain ⟨v, h1, h2⟩ := bind_some h
      have := ih.not_ _ _ h1
      have := ih.andRest _ _ _ h2
      omega
    · intro x ts p h
      simp only [parseAndRest] at h
      split at h
      · obtain ⟨v, h1, h2⟩ := bind_some h
        have := ih.not_ _ _ h1
        have := ih.andRest _ _ _ h2
        simp only [List.length_cons]; omega
      · cases h; exact Nat.le_refl _
    · intro ts p h
      simp only [parseNot] at h
      split at h
      · obtain ⟨v, h1, h2⟩ := bind_some h
        have := ih.not_ _ _ h1
        cases h2
        simp only [List.length_cons]; omega
      · obtain ⟨v, h1, h2⟩ := bind_some h
        have := ih.primary _ _ h1
        have := ih.predRest _ _ _ h2
        omega
    · intro x ts p h
      simp only [parsePredRest] at h
      split at h
      · split at h
        · obtain ⟨v, h1, h2⟩ := bind_some h
          have := ih.primary _ _ h1
          have := ih.predRest _ _ _ h2
          simp only [List.length_cons]; omega
        · cases h; exact Nat.le_refl _
      · obtain ⟨v, h1, h2⟩ := bind_some h
        have := ih.items _ _ h1
        have := ih.predRest _ _ _ h2
        simp only [List.length_cons]; omega
      · obtain ⟨v, h1, h2⟩ := bind_some h
        have := ih.primary _ _ h1
        have := ih.predRest _ _ _ h2
        simp only [List.length_cons]; omega
      · obtain ⟨v, h1, h2⟩ := bind_some h
        have := ih.primary _ _ h1
        split at h2
        · rename_i heq
          obtain ⟨w, h3, h4⟩ := bind_some h2
          have := ih.primary _ _ h3
          have := ih.predRest _ _ _ h4
          have hl := congrArg List.length heq
          simp only [List.length_cons] at hl ⊢; omega
        · cases h2
      · have := ih.predRest _ _ _ h
        simp only [List.length_cons]; omega
      · cases h; exact Nat.le_refl _
    · intro ts p h
      simp only [parseItems] at h
      obtain ⟨v, h1, h2⟩ := bind_some h
      have := ih.or_ _ _ h1
      split at h2
      · rename_i heq
        cases h2
        have hl := congrArg List.length heq
        simp only [List.length_cons] at hl ⊢; omega
      · rename_i heq
        obtain ⟨w, h3, h4⟩ := bind_some h2
        have := ih.items _ _ h3
        cases h4
        have hl := congrArg List.length heq
        simp only [List.length_cons] at hl ⊢; omega
      · cases h2
    · intro ts p h
      simp only [parsePrimary] at h
      split at h
      · cases h; simp
      · cases h; simp
      · cases h; simp
      · cases h; simp only [List.length_cons]; omega
      · obtain ⟨v, h1, h2⟩ := bind_some h
        have := ih.items _ _ h1
        split at h2
        · cases h2; simp only [List.length_cons]; omega
        · cases h2; simp only [List.length_cons]; omega
      · cases h

/-- fuel sufficiency at one fuel level: above the bound, every larger fuel gives the same result -/
structure Stab (f : Nat) : Prop where
  or_ : ∀ g ts, 8 * ts.length + 4 ≤ f → f ≤ g → parseOr g ts = parseOr f ts
  orRest : ∀ g x ts, 8 * ts.length + 3 ≤ f → f ≤ g → parseOrRest g x ts = parseOrRest f x ts
  and_ : ∀ g ts, 8 * ts.length + 3 ≤ f → f ≤ g → parseAnd g ts = parseAnd f ts
  andRest : ∀ g x ts, 8 * ts.length + 2 ≤ f → f ≤ g → parseAndRest g x ts = parseAndRest f x ts
  not_ : ∀ g ts, 8 * ts.length + 2 ≤ f → f ≤ g → parseNot g ts = parseNot f ts
  predRest : ∀ g x ts, 8 * ts.length + 1 ≤ f → f ≤ g → parsePredRest g x ts = parsePredRest f x ts
  items : ∀ g ts, 8 * ts.length + 5 ≤ f → f ≤ g → parseItems g ts = parseItems f ts
  primary : ∀ g ts, 8 * ts.length + 1 ≤ f → f ≤ g → parsePrimary g ts = parsePrimary f ts

theorem stab_all : ∀ f, Stab f
  | 0 => by
    constructor <;> intros <;> omega
  | f+1 => by
    have ih := stab_all f
    have il := len_all f
    constructor
    · intro g ts hb hg
      obtain ⟨g, rfl⟩ : ∃ g', g = g' + 1 := ⟨g - 1, by omega⟩
      simp only [parseOr]
      refine bind_congr' (ih.and_ g ts (by omega) (by omega)) ?_
      intro v hv
      have := il.and_ _ _ hv
      exact ih.orRest g _ _ (by omega) (by omega)
    · intro g x ts hb hg
      obtain ⟨g, rfl⟩ : ∃ g', g = g' + 1 := ⟨g - 1, by omega⟩
      simp only [parseOrRest]
      split
      · simp only [List.length_cons] at hb
        refine bind_congr' (ih.and_ g _ (by omega) (by omega)) ?_
        intro v hv
        have := il.and_ _ _ hv
        exact ih.orRest g _ _ (by omega) (by omega)
      · rfl
    · intro g ts hb hg
      obtain ⟨g, rfl⟩ : ∃ g', g = g' + 1 := ⟨g - 1, by omega⟩
      simp only [parseAnd]
      refine bind_congr' (ih.not_ g ts (by omega) (by omega)) ?_
      intro v hv
      have := il.not_ _ _ hv
      exact ih.andRest g _ _ (by omega) (by omega)
    · intro g x ts hb hg
      obtain ⟨g, rfl⟩ : ∃ g', g = g' + 1 := ⟨g - 1, by omega⟩
      simp only [parseAndRest]
      split
      · simp only [List.length_cons] at hb
        refine bind_congr' (ih.not_ g _ (by omega) (by omega)) ?_
        intro v hv
        have := il.not_ _ _ hv
        exact ih.andRest g _ _ (by omega) (by omega)
      · rfl
    · intro g ts hb hg
      obtain ⟨g, rfl⟩ : ∃ g', g = g' + 1 := ⟨g - 1, by omega⟩
      simp only [parseNot]
      split
      · simp only [List.length_cons] at hb
        refine bind_congr' (ih.not_ g _ (by omega) (by omega)) ?_
        intro v hv
        rfl
      · refine bind_congr' (ih.primary g _ (by omega) (by omega)) ?_
        intro v hv
        have := il.primary _ _ hv
        exact ih.predRest g _ _ (by omega) (by omega)
    · intro g x ts hb hg
      obtain ⟨g, rfl⟩ : ∃ g', g = g' + 1 := ⟨g - 1, by omega⟩
      simp only [parsePredRest]
      split
      · simp only [List.length_cons] at hb
        split
        · refine bind_congr' (ih.primary g _ (by omega) (by omega)) ?_
          intro v hv
          have := il.primary _ _ hv
          exact ih.predRest g _ _ (by omega) (by omega)
        · rfl
      · simp only [List.length_cons] at hb
        refine bind_congr' (ih.items g _ (by omega) (by omega)) ?_
        intro v hv
        have := il.items _ _ hv
        exact ih.predRest g _ _ (by omega) (by omega)
      · simp only [List.length_cons] at hb
        refine bind_congr' (ih.primary g _ (by omega) (by omega)) ?_
        intro v hv
        have := il.primary _ _ hv
        exact ih.predRest g _ _ (by omega) (by omega)
      · simp only [List.length_cons] at hb
        refine bind_congr' (ih.primary g _ (by omega) (by omega)) ?_
        intro v hv
        have := il.primary _ _ hv
        split
        · rename_i heq
          have hl := congrArg List.length heq
          simp only [List.length_cons] at hl
          refine bind_congr' (ih.primary g _ (by omega) (by omega)) ?_
          intro w hw
          have := il.primary _ _ hw
          exact ih.predRest g _ _ (by omega) (by omega)
        · rfl
      · simp only [List.length_cons] at hb
        exact ih.predRest g _ _ (by omega) (by omega)
      · rfl
    · intro g ts hb hg
      obtain ⟨g, rfl⟩ : ∃ g', g = g' + 1 := ⟨g - 1, by omega⟩
      simp only [parseItems]
      refine bind_congr' (ih.or_ g _ (by omega) (by omega)) ?_
      intro v hv
      have := il.or_ _ _ hv
      split
      · rfl
      · rename_i heq
        have hl := congrArg List.length heq
        simp only [List.length_cons] at hl
        refine bind_congr' (ih.items g _ (by omega) (by omega)) ?_
        intro w hw
        rfl
      · rfl
    · intro g ts hb hg
      obtain ⟨g, rfl⟩ : ∃ g', g = g' + 1 := ⟨g - 1, by omega⟩
      simp only [parsePrimary]
      split
      · rfl
      · rfl
      · rfl
      · rfl
      · simp only [List.length_cons] at hb
        refine bind_congr' (ih.items g _ (by omega) (by omega)) ?_
        intro v hv
        rfl
      · rfl

/-! ### 1. length lemmas -/

theorem parseOr_length {f ts r ts'} (h : parseOr f ts = some (r, ts')) :
    ts'.length ≤ ts.length := (len_all f).or_ _ _ h
theorem parseOrRest_length {f x ts r ts'} (h : parseOrRest f x ts = some (r, ts')) :
    ts'.length ≤ ts.length := (len_all f).orRest _ _ _ h
theorem parseAnd_length {f ts r ts'} (h : parseAnd f ts = some (r, ts')) :
    ts'.length ≤ ts.length := (len_all f).and_ _ _ h
theorem parseAndRest_length {f x ts r ts'} (h : parseAndRest f x ts = some (r, ts')) :
    ts'.length ≤ ts.length := (len_all f).andRest _ _ _ h
theorem parseNot_length {f ts r ts'} (h : parseNot f ts = some (r, ts')) :
    ts'.length ≤ ts.length := (len_all f).not_ _ _ h
theorem parsePredRest_length {f x ts r ts'} (h : parsePredRest f x ts = some (r, ts')) :
    ts'.length ≤ ts.length := (len_all f).predRest _ _ _ h
theorem parseItems_length {f ts r ts'} (h : parseItems f ts = some (r, ts')) :
    ts'.length ≤ ts.length := (len_all f).items _ _ h
theorem parsePrimary_length {f ts r ts'} (h : parsePrimary f ts = some (r, ts')) :
    ts'.length ≤ ts.length := (len_all f).primary _ _ h

/-! ### 2. fuel sufficiency -/

theorem parseOr_fuel {f g ts} (hb : 8 * ts.length + 4 ≤ f) (hg : f ≤ g) :
    parseOr g ts = parseOr f ts := (stab_all f).or_ g ts hb hg
theorem parseOrRest_fuel {f g x ts} (hb : 8 * ts.length + 3 ≤ f) (hg : f ≤ g) :
    parseOrRest g x ts = parseOrRest f x ts := (stab_all f).orRest g x ts hb hg
theorem parseAnd_fuel {f g ts} (hb : 8 * ts.length + 3 ≤ f) (hg : f ≤ g) :
    parseAnd g ts = parseAnd f ts := (stab_all f).and_ g ts hb hg
theorem parseAndRest_fuel {f g x ts} (hb : 8 * ts.length + 2 ≤ f) (hg : f ≤ g) :
    parseAndRest g x ts = parseAndRest f x ts := (stab_all f).andRest g x ts hb hg
theorem parseNot_fuel {f g ts} (hb : 8 * ts.length + 2 ≤ f) (hg : f ≤ g) :
    parseNot g ts = parseNot f ts := (stab_all f).not_ g ts hb hg
theorem parsePredRest_fuel {f g x ts} (hb : 8 * ts.length + 1 ≤ f) (hg : f ≤ g) :
    parsePredRest g x ts = parsePredRest f x ts := (stab_all f).predRest g x ts hb hg
theorem parseItems_fuel {f g ts} (hb : 8 * ts.length + 5 ≤ f) (hg : f ≤ g) :
    parseItems g ts = parseItems f ts := (stab_all f).items g ts hb hg
theorem parsePrimary_fuel {f g ts} (hb : 8 * ts.length + 1 ≤ f) (hg : f ≤ g) :
    parsePrimary g ts = parsePrimary f ts := (stab_all f).primary g ts hb hg

/-! ### 3. the corollary used by C20 -/

theorem parseOr_fuel_ok (ts : List Tok) (r : SqlTree × List Tok)
    (h : ∃ f0, ∀ f, f0 ≤ f → parseOr f ts = some r) : parseOr (parseFuel ts) ts = some r := by
  obtain ⟨f0, h⟩ := h
  have hb : 8 * ts.length + 4 ≤ parseFuel ts := by unfold parseFuel; omega
  rw [← (stab_all (parseFuel ts)).or_ (f0 + parseFuel ts) ts hb (by omega)]
  exact h _ (by omega)

end Yae.SqlParse

#print axioms Yae.SqlParse.parseOr_fuel_ok
