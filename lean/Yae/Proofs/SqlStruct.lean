/-
  C20, the structural theorem.  `emit` (the closure `sql.Compile` builds) produces, for every
  expression satisfying the side condition, a text that is a well-formed `Doc` whose reading is the
  meaning of the expression up to `flatten`; composing with the tokenizer (`SqlLex`) and the parser
  (`SqlParse`) halves, and with what the type checker guarantees about call nodes
  (`SqlStructCheck`), gives `readSql (toSql c …) ≈ treeOf c`.
-/
import Yae.Proofs.SqlStructCall
import Yae.Proofs.SqlParse
import Yae.Proofs.TypingCheck
namespace Yae.SqlStruct
open Yae Yae.Sql Yae.SqlDoc Yae.SqlLex

theorem allWFm_WFs : ∀ {outer : Nat} (ds : DocList), AllWFm (.each .logic) outer ds → WFs ds
  | _, .nil, _ => by simp [WFs]
  | outer, .cons d ds, h => by
    simp only [AllWFm, ArgPos.head, ArgPos.tail] at h
    simp only [WFs]
    exact ⟨WF_mono (l := lvl outer) (Nat.zero_le _) h.1, allWFm_WFs ds h.2⟩

theorem not_contains_backquote {name : String} (h : (!name.toList.contains '`') = true) :
    '`' ∉ name.toList := by
  simpa using h

mutual
/-- **what `compile(e, env, outer)` writes** -/
theorem emit_doc (venv : List (String × Val)) : ∀ (e : Expr) (m : Pos') (outer : Nat) (s : String),
    nameOK e = true → okE venv m e = true → emit venv outer e = .ok s → DocFor venv m outer e s
  | .str p v, m, outer, s, _, hok, h => by
    simp only [okE, bne_iff_ne, ne_eq] at hok
    rw [emit] at h
    obtain ⟨d, w, hs, hl, ha, ht, hp⟩ := fmtVal_doc h rfl
    exact atom_docFor hok hs hl ha (by simpa [operandTree, litOf] using ht) hp
  | .num p v, m, outer, s, _, hok, h => by
    simp only [okE, Bool.and_eq_true, bne_iff_ne, ne_eq] at hok
    rw [emit] at h
    obtain ⟨d, w, hs, hl, ha, ht, hp⟩ := fmtVal_doc h hok.2
    exact atom_docFor hok.1 hs hl ha (by simpa [operandTree, litOf] using ht) hp
  | .time p v, m, outer, s, _, hok, h => by
    simp only [okE, bne_iff_ne, ne_eq] at hok
    rw [emit] at h
    obtain ⟨d, w, hs, hl, ha, ht, hp⟩ := fmtVal_doc h rfl
    exact atom_docFor hok hs hl ha (by simpa [operandTree, litOf, TimeV.unix] using ht) hp
  | .bool p v, m, outer, s, _, hok, h => by
    simp only [okE, bne_iff_ne, ne_eq] at hok
    rw [emit] at h
    obtain ⟨d, w, hs, hl, ha, ht, hp⟩ := fmtVal_doc h rfl
    exact atom_docFor hok hs hl ha (by simpa [operandTree, litOf] using ht) hp
  | .ident p name, m, outer, s, _, hok, h => by
    simp only [okE, Bool.and_eq_true, bne_iff_ne, ne_eq] at hok
    rw [emit] at h
    unfold okName at hok
    cases hf : venv.find? (fun q => q.1 == name) with
    | some q =>
      obtain ⟨n, v⟩ := q
      simp only [hf] at h hok
      obtain ⟨d, w, hs, hl, ha, ht, hp⟩ := fmtVal_doc h hok.2
      exact atom_docFor hok.1 hs hl ha (by simpa [operandTree, hf] using ht) hp
    | none =>
      simp only [hf] at h hok
      have e : s = "`" ++ name ++ "`" := (pure_ok h).symm
      have hb : "`".toList = ['`'] := by decide
      exact atom_docFor (d := .col name) (w := .col name) hok.1
        (by simp [e, String.toList_append, hb, dchars]) (not_contains_backquote hok.2) trivial
        (by simp [operandTree, hf]) (by simp [ptree, pk, wrap])
  | .member p col (.ident ip id) field fp oty idx, m, outer, s, _, hok, h => by
    simp only [okE, Bool.and_eq_true, bne_iff_ne, ne_eq] at hok
    rw [emit] at h
    unfold okMember at hok
    cases hf : venv.find? (fun q => q.1 == id) with
    | none => simp [hf] at h
    | some q =>
      obtain ⟨n, v⟩ := q
      cases v with
      | obj ty vs =>
        simp only [hf] at h hok
        cases hg : objGet? ty vs field with
        | none => simp [hg] at h
        | some v =>
          simp only [hg] at h hok
          obtain ⟨d, w, hs, hl, ha, ht, hp⟩ := fmtVal_doc h hok.2
          exact atom_docFor hok.1 hs hl ha (by simpa [operandTree, hf, hg] using ht) hp
      | _ => simp [hf] at h
  | .list p es ty, m, outer, s, hn, hok, h => by
    simp only [okE, Bool.and_eq_true] at hok
    simp only [nameOK] at hn
    rw [emit] at h
    obtain ⟨xs, hxs, h⟩ := bind_ok h
    have e : s = joinStr xs ", " "(" ")" := (pure_ok h).symm
    obtain ⟨ds, ws, hc, hl, hw, ht, hfl⟩ := emitList_docs venv es (.each .logic) outer xs hn hok.2 hxs
    have hlen : ds.length = es.length := by
      rw [charsL_length ds xs hc, emitList_length es hxs]
    have hwfs := allWFm_WFs ds hw
    have hne : ds ≠ .nil := by
      intro hd; rw [hd] at hlen
      have := hok.1
      split at this <;> simp [DocList.length] at hlen this <;> omega
    refine ⟨.list ds, .list ws, ?_, ⟨hne, hl⟩, ?_, ?_, ?_⟩
    · rw [e, row_toList ds xs hc]; simp [dchars]
    · have := hok.1
      cases m with
      | logic =>
        simp at this
        show WF (lvl outer) (.list ds)
        simp only [WF]; exact ⟨by omega, hwfs⟩
      | first =>
        simp at this
        show WF 3 (.list ds)
        simp only [WF]; exact ⟨by omega, hwfs⟩
      | operand =>
        simp at this
        show WF 4 (.list ds)
        simp only [WF]; exact ⟨by omega, hwfs⟩
      | inList =>
        simp at this
        exact ⟨ds, rfl, by omega, hwfs⟩
    · simp [operandTree, ht]
    · simp only [ptree, pk, wrap, flatten, hfl]
  | .call p col (.ident cp fname) args cty res idx, m, outer, s, hn, hok, h => by
    simp only [okE, Bool.and_eq_true, Bool.or_eq_true, beq_iff_eq, Bool.not_eq_true',
      List.contains_eq_mem, decide_eq_false_iff_not] at hok
    obtain ⟨hm, hok⟩ := hok
    simp only [nameOK, Bool.and_eq_true] at hn
    rw [emit] at h
    cases hres : resolveStatic sqlFuns res idx with
    | none => simp [hres] at h
    | some d =>
      simp only [hres] at h
      simp only [hres, Bool.and_eq_true, decide_eq_true_eq] at hn
      obtain ⟨⟨hfm, hnames⟩, hnargs⟩ := hn
      simp only [hfm] at h
      obtain ⟨xs, hxs, h⟩ := bind_ok h
      obtain ⟨s0, hs0, h⟩ := bind_ok h
      have e := pure_ok h
      have hargs := emitList_docs venv args (argPos fname) _ xs hnargs hok hxs
      rw [← e]
      exact call_doc (by simpa using hnames) hm hargs hs0
  | .member _ _ (.str ..) .., _, _, _, _, hok, _ | .member _ _ (.num ..) .., _, _, _, _, hok, _
  | .member _ _ (.time ..) .., _, _, _, _, hok, _ | .member _ _ (.bool ..) .., _, _, _, _, hok, _
  | .member _ _ (.list ..) .., _, _, _, _, hok, _ | .member _ _ (.map ..) .., _, _, _, _, hok, _
  | .member _ _ (.obj ..) .., _, _, _, _, hok, _ | .member _ _ (.call ..) .., _, _, _, _, hok, _
  | .member _ _ (.subscript ..) .., _, _, _, _, hok, _ | .member _ _ (.member ..) .., _, _, _, _, hok, _
  | .member _ _ (.unary ..) .., _, _, _, _, hok, _ | .member _ _ (.binary ..) .., _, _, _, _, hok, _
  | .member _ _ (.ternary ..) .., _, _, _, _, hok, _ | .member _ _ (.group ..) .., _, _, _, _, hok, _ => by
    simp [okE] at hok
  | .call _ _ (.str ..) .., _, _, _, _, hok, _ | .call _ _ (.num ..) .., _, _, _, _, hok, _
  | .call _ _ (.time ..) .., _, _, _, _, hok, _ | .call _ _ (.bool ..) .., _, _, _, _, hok, _
  | .call _ _ (.list ..) .., _, _, _, _, hok, _ | .call _ _ (.map ..) .., _, _, _, _, hok, _
  | .call _ _ (.obj ..) .., _, _, _, _, hok, _ | .call _ _ (.call ..) .., _, _, _, _, hok, _
  | .call _ _ (.subscript ..) .., _, _, _, _, hok, _ | .call _ _ (.member ..) .., _, _, _, _, hok, _
  | .call _ _ (.unary ..) .., _, _, _, _, hok, _ | .call _ _ (.binary ..) .., _, _, _, _, hok, _
  | .call _ _ (.ternary ..) .., _, _, _, _, hok, _ | .call _ _ (.group ..) .., _, _, _, _, hok, _ => by
    simp [okE] at hok
  | .map .., _, _, _, _, hok, _ | .obj .., _, _, _, _, hok, _ | .subscript .., _, _, _, _, hok, _
  | .unary .., _, _, _, _, hok, _ | .binary .., _, _, _, _, hok, _ | .ternary .., _, _, _, _, hok, _
  | .group .., _, _, _, _, hok, _ => by
    simp [okE] at hok
theorem emitList_docs (venv : List (String × Val)) : ∀ (es : ExprList) (lm : ArgPos) (outer : Nat)
    (ss : List String), nameOKList es = true → okList venv lm es = true →
    emitList venv outer es = .ok ss → DocsFor venv lm outer es ss
  | .nil, lm, outer, ss, _, _, h => by
    rw [emitList_nil_ok h]
    exact ⟨.nil, .nil, by simp [charsL], by simp [LexOKs], by simp [AllWFm], by simp [operandTrees],
      by simp [pks, flattenList]⟩
  | .cons e es, lm, outer, ss, hn, hok, h => by
    simp only [nameOKList, Bool.and_eq_true] at hn
    simp only [okList, Bool.and_eq_true] at hok
    obtain ⟨x, xs, hx, hxs, rfl⟩ := emitList_cons_ok h
    obtain ⟨d, w, hs, hl, hw, ht, hf⟩ := emit_doc venv e lm.head outer x hn.1 hok.1 hx
    obtain ⟨ds, ws, hcs, hls, hws, hts, hfs⟩ := emitList_docs venv es lm.tail outer xs hn.2 hok.2 hxs
    refine ⟨.cons d ds, .cons w ws, by simp [charsL, hs, hcs], ⟨hl, hls⟩, ⟨hw, hws⟩, ?_, ?_⟩
    · simp [operandTrees, ht, hts]
    · simp only [pks, flattenList]; rw [← ptree, hf, hfs]
end

/-! ### the attachments the checker writes are irrelevant to the meaning and to the side condition -/

/-- the meaning of an application, as a function of the callee name and the arguments' meanings -/
def callTree (name : String) (r : Option SqlTreeList) : Option SqlTree :=
  match name, r with
  | "AND", some xs => some (.and xs)
  | "OR", some xs => some (.or xs)
  | "NOT", some (.cons x .nil) => some (.not x)
  | "NOT", some _ => none
  | op, some xs => some (.cond (sqlOpName op) xs)
  | _, none => none

theorem operandTree_call (venv) (name : String) (p col cp args cty res idx) :
    operandTree venv (.call p col (.ident cp name) args cty res idx) =
      callTree name (operandTrees venv args) := by
  rw [operandTree.eq_def]; rfl

mutual
theorem operandTree_erase (venv) : ∀ e : Expr, operandTree venv (erase e) = operandTree venv e
  | .str .. | .num .. | .time .. | .bool .. | .ident .. => by simp [erase]
  | .list p es ty => by simp [erase, operandTree, operandTrees_erase venv es]
  | .member p col o f fp oty idx => by
    cases o <;> simp [erase, operandTree]
  | .call p col c args cty res idx => by
    cases c <;> simp [erase, operandTree_call, operandTrees_erase venv args] <;> simp [operandTree]
  | .map .. | .obj .. | .subscript .. | .unary .. | .binary .. | .ternary .. | .group .. => by
    simp [erase, operandTree]
theorem operandTrees_erase (venv) : ∀ es : ExprList,
    operandTrees venv (eraseList es) = operandTrees venv es
  | .nil => by simp [eraseList]
  | .cons e es => by
    simp [eraseList, operandTrees, operandTree_erase venv e, operandTrees_erase venv es]
end

theorem eraseList_length : ∀ es : ExprList, (eraseList es).length = es.length
  | .nil => rfl
  | .cons _ es => by simp [eraseList, ExprList.length, eraseList_length es]

mutual
theorem okE_erase (venv) : ∀ (e : Expr) (m : Pos'), okE venv m (erase e) = okE venv m e
  | .str .., _ | .num .., _ | .time .., _ | .bool .., _ | .ident .., _ => by simp [erase]
  | .list p es ty, m => by simp [erase, okE, okList_erase venv es, eraseList_length]
  | .member p col o f fp oty idx, m => by
    cases o <;> simp [erase, okE]
  | .call p col c args cty res idx, m => by
    cases c <;> simp [erase, okE, okList_erase venv args]
  | .map .., _ | .obj .., _ | .subscript .., _ | .unary .., _ | .binary .., _ | .ternary .., _
  | .group .., _ => by
    simp [erase, okE]
theorem okList_erase (venv) : ∀ (es : ExprList) (lm : ArgPos),
    okList venv lm (eraseList es) = okList venv lm es
  | .nil, _ => by simp [eraseList]
  | .cons e es, lm => by
    simp [eraseList, okList, okE_erase venv e, okList_erase venv es]
end

/-! ### criteria -/

mutual
/-- the meaning of a criteria tree is the meaning of its expression form (when no `Cond` is named
like a connective) -/
theorem treeOf_expr (venv) : ∀ c : Criteria, condOpsOK c = true →
    treeOf venv c = operandTree venv c.expr
  | .cond field op operands, h => by
    simp only [condOpsOK, logicNames, Bool.not_eq_true', List.contains_eq_mem, List.mem_cons,
      List.not_mem_nil, or_false, decide_eq_false_iff_not, not_or] at h
    simp only [Criteria.expr, mkCall]
    rw [operandTree_call_cond venv op h.1 h.2.1 h.2.2, treeOf, operandTrees]
    cases operandTree venv (.ident Pos.unknown field) <;> cases operandTrees venv operands <;> rfl
  | .group .and cs, h => by
    simp only [condOpsOK] at h
    simp only [Criteria.expr, mkCall, LogicalOper.name]
    rw [operandTree_call_and, treeOf, treesOf_exprs venv cs h]
  | .group .or cs, h => by
    simp only [condOpsOK] at h
    simp only [Criteria.expr, mkCall, LogicalOper.name]
    rw [operandTree_call_or, treeOf, treesOf_exprs venv cs h]
  | .group .not cs, h => by
    simp only [condOpsOK] at h
    simp only [Criteria.expr, mkCall, LogicalOper.name]
    rw [operandTree_call, treeOf, treesOf_exprs venv cs h]
    cases h2 : operandTrees venv (exprs cs) with
    | none => rfl
    | some xs =>
      match xs with
      | .nil => rfl
      | .cons x .nil => rfl
      | .cons x (.cons y ys) => rfl
theorem treesOf_exprs (venv) : ∀ cs : CriteriaList, condOpsOKList cs = true →
    treesOf venv cs = operandTrees venv (exprs cs)
  | .nil, _ => by simp [treesOf, exprs, operandTrees]
  | .cons c cs, h => by
    simp only [condOpsOKList, Bool.and_eq_true] at h
    simp only [treesOf, exprs, operandTrees, treeOf_expr venv c h.1, treesOf_exprs venv cs h.2]
end

/-! ### the structural theorem -/

/-- **C20, structure.**  Whenever a text is produced and the side condition holds, the reference
reader — standard SQL precedence — reads the text as the meaning of the criteria, up to the
associativity of AND and of OR. -/
theorem structure_main (c : Criteria) (tenv : List (String × Ty)) (venv : List (String × Val))
    (text : String) (h : toSql c tenv venv = .ok text) (hside : sideOK venv c = true) :
    ∃ t w, readSql text = some t ∧ treeOf venv c = some w ∧ flatten t = flatten w := by
  simp only [sideOK, Bool.and_eq_true] at hside
  unfold toSql at h
  obtain ⟨e, he, h⟩ := bind_ok h
  -- the checked tree
  unfold checked at he
  split at he
  · next T e' c' hchk =>
    cases pure_ok he
    have hn := check_nameOK tenv _ _ _ _ _ hchk
    have her := check_erase _ _ _ _ _ _ hchk
    have hokE : okE venv .logic e = true := by
      rw [← okE_erase, her, okE_erase]; exact hside.2
    have hemit : emit venv 0 e = .ok text := by
      split at h
      · cases h
      · obtain ⟨_, _, h⟩ := bind_ok h
        exact h
    obtain ⟨d, w, hs, hl, hw, ht, hf⟩ := emit_doc venv e .logic 0 text hn hokE hemit
    have hw0 : WF 0 d := hw
    refine ⟨ptree d, w, ?_, ?_, hf⟩
    · unfold readSql
      rw [tokens_doc d hl text hs]
      show (match parseOr (parseFuel (dtoks d)) (dtoks d) with
        | some (t, []) => some t
        | _ => none) = _
      rw [SqlParse.parse_doc d hw0]
    · rw [treeOf_expr venv c hside.1, ← operandTree_erase, ← her, operandTree_erase]; exact ht
  · cases he

/-- the same in executable form -/
theorem c20Check_true (c : Criteria) (tenv : List (String × Ty)) (venv : List (String × Val))
    (text : String) (h : toSql c tenv venv = .ok text) (hside : sideOK venv c = true) :
    c20Check c tenv venv = some true := by
  obtain ⟨t, w, h1, h2, h3⟩ := structure_main c tenv venv text h hside
  unfold c20Check
  simp only [h, h1, h2, h3]
  exact congrArg some (beq_self _)

end Yae.SqlStruct

#print axioms Yae.SqlStruct.structure_main
#print axioms Yae.SqlStruct.c20Check_true
