/-
  C20: what `sql.Compile` (`emit`) produces, piece by piece — helper lemmas for
  `Yae.Proofs.SqlStruct`: inversion of the `Except` binds of `emit`/`emitList`, the `Doc` of a
  run-time value, the characters of a row, the meaning (`operandTree`) of an application.
-/
import Yae.Spec.SqlSide
import Yae.Proofs.SqlLex
import Yae.Proofs.SqlStructTree
import Yae.Proofs.SqlStructCheck
namespace Yae.SqlStruct
open Yae Yae.Sql Yae.SqlDoc Yae.SqlLex

/-! ### `Except` -/

theorem bind_ok {ε α β : Type} {a : Except ε α} {f : α → Except ε β} {v : β}
    (h : (a >>= f) = .ok v) : ∃ x, a = .ok x ∧ f x = .ok v := by
  cases a with
  | error e => cases h
  | ok x => exact ⟨x, rfl, h⟩

theorem pure_ok {ε α : Type} {x v : α} (h : (pure x : Except ε α) = .ok v) : x = v := by
  cases h; rfl

theorem emitList_cons_ok {venv outer e es ss} (h : emitList venv outer (.cons e es) = .ok ss) :
    ∃ x xs, emit venv outer e = .ok x ∧ emitList venv outer es = .ok xs ∧ ss = x :: xs := by
  rw [emitList] at h
  obtain ⟨x, hx, h⟩ := bind_ok h
  obtain ⟨xs, hxs, h⟩ := bind_ok h
  exact ⟨x, xs, hx, hxs, (pure_ok h).symm⟩

theorem emitList_nil_ok {venv outer ss} (h : emitList venv outer .nil = .ok ss) : ss = [] := by
  rw [emitList] at h; exact (pure_ok h).symm

/-! ### grammar level of a precedence context -/

/-- the level of the phrase `compile(e, env, outer)` produces: under NOT (10) a predicate or a
parenthesised expression, under AND (4) an and-expression, otherwise an or-expression -/
def lvl (outer : Nat) : Nat := if outer > 4 then 2 else if outer > 3 then 1 else 0

def WFm : Pos' → Nat → Doc → Prop
  | .logic, outer, d => WF (lvl outer) d
  | .first, _, d => WF 3 d
  | .operand, _, d => WF 4 d
  | .inList, _, d => ∃ ds, d = .list ds ∧ 1 ≤ ds.length ∧ WFs ds

def charsL : DocList → List (List Char)
  | .nil => []
  | .cons d ds => dchars d :: charsL ds

def AllWFm : ArgPos → Nat → DocList → Prop
  | _, _, .nil => True
  | lm, outer, .cons d ds => WFm lm.head outer d ∧ AllWFm lm.tail outer ds

/-- what is claimed of the text `s` produced for the expression `e` -/
def DocFor (venv : List (String × Val)) (m : Pos') (outer : Nat) (e : Expr) (s : String) : Prop :=
  ∃ d w, s.toList = dchars d ∧ LexOK d ∧ WFm m outer d ∧ operandTree venv e = some w ∧
    flatten (ptree d) = flatten w

def DocsFor (venv : List (String × Val)) (lm : ArgPos) (outer : Nat) (es : ExprList)
    (ss : List String) : Prop :=
  ∃ ds ws, ss.map String.toList = charsL ds ∧ LexOKs ds ∧ AllWFm lm outer ds ∧
    operandTrees venv es = some ws ∧ flattenList (pks ds) = flattenList ws

/-! ### atoms -/

theorem isNumLex_one : IsNumLex "1".toList :=
  ⟨false, ['1'], [], by decide, by simp, by simp; decide, by simp⟩
theorem isNumLex_zero : IsNumLex "0".toList :=
  ⟨false, ['0'], [], by decide, by simp, by simp; decide, by simp⟩

/-- an atom: a literal or a column -/
def IsAtom : Doc → Prop
  | .str _ | .num _ | .col _ | .time _ => True
  | _ => False

theorem IsAtom.wf {d : Doc} (h : IsAtom d) (l : Nat) : WF l d := by
  cases d <;> simp [IsAtom] at h <;> simp [WF]

theorem IsAtom.wfm {d : Doc} (h : IsAtom d) {m : Pos'} (hm : m ≠ .inList) (outer : Nat) :
    WFm m outer d := by
  cases m with
  | logic => exact h.wf _
  | first => exact h.wf _
  | operand => exact h.wf _
  | inList => exact absurd rfl hm

theorem isFinite_expField {x : Float} (h : Num.isFinite x = true) : Num.expField x.toBits ≠ 2047 := by
  simpa [Num.isFinite] using h

/-- a run-time value that has an SQL form is written as one literal, which is its meaning -/
theorem fmtVal_doc {v : Val} {s : String} (h : fmtVal v = .ok s) (hv : okVal v = true) :
    ∃ d w, s.toList = dchars d ∧ LexOK d ∧ IsAtom d ∧ litOf v = some w ∧ ptree d = w := by
  cases v with
  | bool b =>
    have e : s = (if b then trueText else falseText) := (pure_ok h).symm
    refine ⟨.num s, .num s, by simp [dchars], ?_, trivial, by simp [litOf, e], by simp [ptree, pk, wrap]⟩
    subst e
    cases b
    · exact isNumLex_zero
    · exact isNumLex_one
  | num x =>
    have e : s = Num.renderNum x := (pure_ok h).symm
    refine ⟨.num s, .num s, by simp [dchars], ?_, trivial, by simp [litOf, e], by simp [ptree, pk, wrap]⟩
    subst e
    exact renderNumBits_isNumLex _ (isFinite_expField hv)
  | str t =>
    have e : s = Num.quote t := (pure_ok h).symm
    exact ⟨.str t, .str t, by simp [dchars, e], trivial, trivial, by simp [litOf], by simp [ptree, pk, wrap]⟩
  | time t =>
    have e : s = "from_unixtime(" ++ toString t.sec ++ ")" := (pure_ok h).symm
    refine ⟨.time (toString t.sec), .time (toString t.sec), ?_, toString_int_isNumLex _, trivial,
      by simp [litOf], by simp [ptree, pk, wrap]⟩
    rw [e]
    simp only [String.toList_append, cFromUnixtime_eq, dchars]
    have : ")".toList = [')'] := by decide
    rw [this, List.append_assoc]
  | nil => cases h
  | list _ _ => cases h
  | map _ _ => cases h
  | obj _ _ => cases h
  | just _ _ => cases h
  | nothing _ => cases h
  | fn _ _ _ => cases h

theorem atom_docFor {venv m outer e s d w} (hm : m ≠ .inList) (hs : s.toList = dchars d)
    (hl : LexOK d) (ha : IsAtom d) (ht : operandTree venv e = some w) (hp : ptree d = w) :
    DocFor venv m outer e s :=
  ⟨d, w, hs, hl, ha.wfm hm outer, ht, by rw [hp]⟩

/-! ### rows -/

theorem items_toList : ∀ (ds : DocList) (ss : List String), ss.map String.toList = charsL ds →
    (", ".intercalate ss).toList = itemsChars ds
  | .nil, ss, h => by
    cases ss with
    | nil => simp [itemsChars]
    | cons _ _ => simp [charsL] at h
  | .cons d .nil, ss, h => by
    match ss, h with
    | [x], h =>
      simp only [charsL, List.map_cons, List.map_nil, List.cons.injEq, and_true] at h
      simp [itemsChars, h]
    | [], h => simp [charsL] at h
    | _ :: _ :: _, h => simp [charsL] at h
  | .cons d (.cons d2 ds), ss, h => by
    match ss, h with
    | x :: y :: ss', h =>
      simp only [charsL, List.map_cons, List.cons.injEq] at h
      have ih := items_toList (.cons d2 ds) (y :: ss') (by simp [charsL, h.2.1, h.2.2])
      rw [String.intercalate_cons_cons]
      simp only [String.toList_append, ih, h.1, itemsChars]
      have : ", ".toList = [',', ' '] := by decide
      rw [this]; simp
    | [], h => simp [charsL] at h
    | [_], h => simp [charsL] at h

theorem row_toList (ds : DocList) (ss : List String) (h : ss.map String.toList = charsL ds) :
    (joinStr ss ", " "(" ")").toList = '(' :: (itemsChars ds ++ [')']) := by
  unfold joinStr
  have h1 : "(".toList = ['('] := by decide
  have h2 : ")".toList = [')'] := by decide
  simp only [String.toList_append, items_toList ds ss h, h1, h2]
  simp

theorem charsL_length : ∀ (ds : DocList) (ss : List String), ss.map String.toList = charsL ds →
    ds.length = ss.length
  | .nil, ss, h => by cases ss <;> simp_all [charsL, DocList.length]
  | .cons d ds, ss, h => by
    cases ss with
    | nil => simp [charsL] at h
    | cons x ss =>
      simp only [charsL, List.map_cons, List.cons.injEq] at h
      simp [DocList.length, charsL_length ds ss h.2]

theorem emitList_length : ∀ {venv outer} (es : ExprList) {ss : List String},
    emitList venv outer es = .ok ss → ss.length = es.length
  | _, _, .nil, ss, h => by rw [emitList_nil_ok h]; rfl
  | _, _, .cons e es, ss, h => by
    obtain ⟨x, xs, _, hxs, rfl⟩ := emitList_cons_ok h
    simp [ExprList.length, emitList_length es hxs]

/-! ### the meaning of an application -/

theorem operandTree_call_cond (venv) (name : String) (h1 : name ≠ "AND") (h2 : name ≠ "OR")
    (h3 : name ≠ "NOT") (p col cp args cty res idx) :
    operandTree venv (.call p col (.ident cp name) args cty res idx) =
      (operandTrees venv args).map (fun xs => .cond (sqlOpName name) xs) := by
  rw [operandTree.eq_def]
  simp only []
  split <;> simp_all

theorem operandTree_call_and (venv) (p col cp args cty res idx) :
    operandTree venv (.call p col (.ident cp "AND") args cty res idx) =
      (operandTrees venv args).map .and := by
  rw [operandTree.eq_def]
  simp only []
  split <;> simp_all

theorem operandTree_call_or (venv) (p col cp args cty res idx) :
    operandTree venv (.call p col (.ident cp "OR") args cty res idx) =
      (operandTrees venv args).map .or := by
  rw [operandTree.eq_def]
  simp only []
  split <;> simp_all

theorem operandTree_call_not (venv) (p col cp a cty res idx) :
    operandTree venv (.call p col (.ident cp "NOT") (.cons a .nil) cty res idx) =
      (operandTree venv a).map .not := by
  rw [operandTree.eq_def]
  simp only [operandTrees]
  cases operandTree venv a <;> rfl

end Yae.SqlStruct
