/-
  C20: the text of one application of a registered SQL function, given the texts of its
  arguments: which `Doc` it is, that it is a phrase of the level its context requires (this is
  where the parenthesisation rule of `sql.Compile` meets the grammar of the reader), and that its
  reading is the meaning of the application up to `flatten`.
-/
import Yae.Proofs.SqlStructBase
namespace Yae.SqlStruct
open Yae Yae.Sql Yae.SqlDoc Yae.SqlLex

/-! ### argument lists of length 1, 2, 3 -/

theorem docsFor1 {venv lm outer args x} (h : DocsFor venv lm outer args [x]) :
    ∃ d1 w1, x.toList = dchars d1 ∧ LexOK d1 ∧ WFm lm.head outer d1 ∧
      operandTrees venv args = some (.cons w1 .nil) ∧ flatten (ptree d1) = flatten w1 := by
  obtain ⟨ds, ws, hc, hl, hw, ht, hf⟩ := h
  match ds, hc, hl, hw, hf with
  | .cons d1 .nil, hc, hl, hw, hf =>
    simp only [charsL, List.map_cons, List.map_nil, List.cons.injEq, and_true] at hc
    simp only [LexOKs, and_true] at hl
    simp only [AllWFm, and_true] at hw
    match ws, ht, hf with
    | .cons w1 .nil, ht, hf =>
      simp only [pks, flattenList, SqlTreeList.cons.injEq, and_true] at hf
      exact ⟨d1, w1, hc, hl, hw, ht, hf⟩
    | .nil, _, hf => simp [pks, flattenList] at hf
    | .cons _ (.cons _ _), _, hf => simp [pks, flattenList] at hf
  | .nil, hc, _, _, _ => simp [charsL] at hc
  | .cons _ (.cons _ _), hc, _, _, _ => simp [charsL] at hc

theorem docsFor2 {venv lm outer args x y} (h : DocsFor venv lm outer args [x, y]) :
    ∃ d1 d2 w1 w2, x.toList = dchars d1 ∧ y.toList = dchars d2 ∧ LexOK d1 ∧ LexOK d2 ∧
      WFm lm.head outer d1 ∧ WFm lm.tail.head outer d2 ∧
      operandTrees venv args = some (.cons w1 (.cons w2 .nil)) ∧
      flatten (ptree d1) = flatten w1 ∧ flatten (ptree d2) = flatten w2 := by
  obtain ⟨ds, ws, hc, hl, hw, ht, hf⟩ := h
  match ds, hc, hl, hw, hf with
  | .cons d1 (.cons d2 .nil), hc, hl, hw, hf =>
    simp only [charsL, List.map_cons, List.map_nil, List.cons.injEq, and_true] at hc
    simp only [LexOKs, and_true] at hl
    simp only [AllWFm, and_true] at hw
    match ws, ht, hf with
    | .cons w1 (.cons w2 .nil), ht, hf =>
      simp only [pks, flattenList, SqlTreeList.cons.injEq, and_true] at hf
      exact ⟨d1, d2, w1, w2, hc.1, hc.2, hl.1, hl.2, hw.1, hw.2, ht, hf.1, hf.2⟩
    | .nil, _, hf => simp [pks, flattenList] at hf
    | .cons _ .nil, _, hf => simp [pks, flattenList] at hf
    | .cons _ (.cons _ (.cons _ _)), _, hf => simp [pks, flattenList] at hf
  | .nil, hc, _, _, _ => simp [charsL] at hc
  | .cons _ .nil, hc, _, _, _ => simp [charsL] at hc
  | .cons _ (.cons _ (.cons _ _)), hc, _, _, _ => simp [charsL] at hc

theorem docsFor3 {venv lm outer args x y z} (h : DocsFor venv lm outer args [x, y, z]) :
    ∃ d1 d2 d3 w1 w2 w3, x.toList = dchars d1 ∧ y.toList = dchars d2 ∧ z.toList = dchars d3 ∧
      LexOK d1 ∧ LexOK d2 ∧ LexOK d3 ∧
      WFm lm.head outer d1 ∧ WFm lm.tail.head outer d2 ∧ WFm lm.tail.tail.head outer d3 ∧
      operandTrees venv args = some (.cons w1 (.cons w2 (.cons w3 .nil))) ∧
      flatten (ptree d1) = flatten w1 ∧ flatten (ptree d2) = flatten w2 ∧
      flatten (ptree d3) = flatten w3 := by
  obtain ⟨ds, ws, hc, hl, hw, ht, hf⟩ := h
  match ds, hc, hl, hw, hf with
  | .cons d1 (.cons d2 (.cons d3 .nil)), hc, hl, hw, hf =>
    simp only [charsL, List.map_cons, List.map_nil, List.cons.injEq, and_true] at hc
    simp only [LexOKs, and_true] at hl
    simp only [AllWFm, and_true] at hw
    match ws, ht, hf with
    | .cons w1 (.cons w2 (.cons w3 .nil)), ht, hf =>
      simp only [pks, flattenList, SqlTreeList.cons.injEq, and_true] at hf
      exact ⟨d1, d2, d3, w1, w2, w3, hc.1, hc.2.1, hc.2.2, hl.1, hl.2.1, hl.2.2, hw.1, hw.2.1,
        hw.2.2, ht, hf.1, hf.2.1, hf.2.2⟩
    | .nil, _, hf => simp [pks, flattenList] at hf
    | .cons _ .nil, _, hf => simp [pks, flattenList] at hf
    | .cons _ (.cons _ .nil), _, hf => simp [pks, flattenList] at hf
    | .cons _ (.cons _ (.cons _ (.cons _ _))), _, hf => simp [pks, flattenList] at hf
  | .nil, hc, _, _, _ => simp [charsL] at hc
  | .cons _ .nil, hc, _, _, _ => simp [charsL] at hc
  | .cons _ (.cons _ .nil), hc, _, _, _ => simp [charsL] at hc
  | .cons _ (.cons _ (.cons _ (.cons _ _))), hc, _, _, _ => simp [charsL] at hc

/-! ### the meanings of an argument list -/

theorem operandTrees_cons {venv e es ws} (h : operandTrees venv (.cons e es) = some ws) :
    ∃ w ws', operandTree venv e = some w ∧ operandTrees venv es = some ws' ∧ ws = .cons w ws' := by
  rw [operandTrees] at h
  cases h1 : operandTree venv e with
  | none => simp [h1] at h
  | some w =>
    cases h2 : operandTrees venv es with
    | none => simp [h1, h2] at h
    | some ws' =>
      simp [h1, h2] at h
      exact ⟨w, ws', rfl, rfl, h.symm⟩

theorem operandTrees_nil {venv ws} (h : operandTrees venv .nil = some ws) : ws = .nil := by
  rw [operandTrees] at h; cases h; rfl

/-! ### the formatters -/

theorem apply2 {fm : Fmt} {xs : List String} {s0 : String} (h : fm.apply xs = .ok s0)
    (hfm : fm = .logicAnd ∨ fm = .logicOr ∨ ∃ op, fm = .binary op) :
    ∃ x y, xs = [x, y] := by
  rcases hfm with rfl | rfl | ⟨op, rfl⟩ <;>
  · match xs, h with
    | [x, y], _ => exact ⟨x, y, rfl⟩
    | [], h => simp [Fmt.apply] at h
    | [_], h => simp [Fmt.apply] at h
    | _ :: _ :: _ :: _, h => simp [Fmt.apply] at h

theorem apply1 {fm : Fmt} {xs : List String} {s0 : String} (h : fm.apply xs = .ok s0)
    (hfm : fm = .logicNot ∨ ∃ op, fm = .postfix op) : ∃ x, xs = [x] := by
  rcases hfm with rfl | ⟨op, rfl⟩ <;>
  · match xs, h with
    | [x], _ => exact ⟨x, rfl⟩
    | [], h => simp [Fmt.apply] at h
    | _ :: _ :: _, h => simp [Fmt.apply] at h

theorem apply3 {xs : List String} {s0 : String} (h : Fmt.between.apply xs = .ok s0) :
    ∃ x y z, xs = [x, y, z] := by
  match xs, h with
  | [x, y, z], _ => exact ⟨x, y, z, rfl⟩
  | [], h => simp [Fmt.apply] at h
  | [_], h => simp [Fmt.apply] at h
  | [_, _], h => simp [Fmt.apply] at h
  | _ :: _ :: _ :: _ :: _, h => simp [Fmt.apply] at h

/-! ### parentheses -/

theorem lit_open : "(".toList = ['('] := by decide
theorem lit_close : ")".toList = [')'] := by decide
theorem lit_blank : " ".toList = [' '] := by decide

/-- a connective of precedence `prec` whose bare text is a phrase of level `l0`: in a context of
higher precedence it is wrapped, and is a primary; otherwise the context's level is at most `l0` -/
theorem wrap_docFor {venv outer e s0 d0 w} {l0 prec : Nat} {b : Bool} (hb : b = decide (outer > prec))
    (hs : s0.toList = dchars d0) (hl : LexOK d0) (hw : WF l0 d0) (hlv : ¬ outer > prec → lvl outer ≤ l0)
    (ht : operandTree venv e = some w) (hf : flatten (ptree d0) = flatten w) :
    DocFor venv .logic outer e (if (true && b) = true then "(" ++ s0 ++ ")" else s0) := by
  by_cases hp : outer > prec
  · have : b = true := by simp [hb, hp]
    subst this
    refine ⟨.paren d0, w, ?_, hl, ?_, ht, ?_⟩
    · simp [String.toList_append, lit_open, lit_close, hs, dchars]
    · show WF (lvl outer) (.paren d0)
      simp only [WF]; exact WF_mono (l := l0) (Nat.zero_le l0) hw
    · simpa [ptree, pk, wrap] using hf
  · have : b = false := by simp [hb, hp]
    subst this
    exact ⟨d0, w, by simpa using hs, hl, WF_mono (hlv hp) hw, ht, hf⟩

theorem lvl_le_two (outer : Nat) : lvl outer ≤ 2 := by unfold lvl; split <;> (try split) <;> omega

/-- a condition is a phrase of every level up to 3: fine at a connective's argument place and as
the first operand of another condition -/
theorem wfm_cond {m : Pos'} {outer : Nat} {d : Doc} (hm : m = .logic ∨ m = .first)
    (h : ∀ l, l ≤ 3 → WF l d) : WFm m outer d := by
  rcases hm with rfl | rfl
  · exact h _ (by have := lvl_le_two outer; omega)
  · exact h 3 (Nat.le_refl _)

/-! ### the six kinds of registered functions -/

theorem and_doc {venv args xs outer s0 p col cp cty res idx}
    (hargs : DocsFor venv (.each .logic) (Fmt.logicAnd.prec?.getD 0) args xs)
    (happly : Fmt.logicAnd.apply xs = .ok s0) :
    DocFor venv .logic outer (.call p col (.ident cp "AND") args cty res idx)
      (if Fmt.logicAnd.prec?.isSome && outer > Fmt.logicAnd.prec?.getD 0 then "(" ++ s0 ++ ")" else s0) := by
  obtain ⟨x, y, rfl⟩ := apply2 happly (Or.inl rfl)
  obtain ⟨d1, d2, w1, w2, h1, h2, l1, l2, wf1, wf2, ht, f1, f2⟩ := docsFor2 hargs
  have e : s0 = x ++ " AND " ++ y := (pure_ok happly).symm
  refine wrap_docFor (l0 := 1) (prec := 4) (d0 := .and d1 d2) rfl ?_ ⟨l1, l2⟩ ?_ ?_ ?_
    (flatten_ptree_and f1 f2)
  · simp [e, String.toList_append, cAnd_eq, dchars, h1, h2]
  · simp only [WF]; exact ⟨Nat.le_refl _, wf1, wf2⟩
  · intro h; unfold lvl; split <;> (try split) <;> omega
  · rw [operandTree_call_and, ht]; rfl

theorem or_doc {venv args xs outer s0 p col cp cty res idx}
    (hargs : DocsFor venv (.each .logic) (Fmt.logicOr.prec?.getD 0) args xs)
    (happly : Fmt.logicOr.apply xs = .ok s0) :
    DocFor venv .logic outer (.call p col (.ident cp "OR") args cty res idx)
      (if Fmt.logicOr.prec?.isSome && outer > Fmt.logicOr.prec?.getD 0 then "(" ++ s0 ++ ")" else s0) := by
  obtain ⟨x, y, rfl⟩ := apply2 happly (Or.inr (Or.inl rfl))
  obtain ⟨d1, d2, w1, w2, h1, h2, l1, l2, wf1, wf2, ht, f1, f2⟩ := docsFor2 hargs
  have e : s0 = x ++ " OR " ++ y := (pure_ok happly).symm
  refine wrap_docFor (l0 := 0) (prec := 3) (d0 := .or d1 d2) rfl ?_ ⟨l1, l2⟩ ?_ ?_ ?_
    (flatten_ptree_or f1 f2)
  · simp [e, String.toList_append, cOr_eq, dchars, h1, h2]
  · simp only [WF, true_and]; exact ⟨wf1, wf2⟩
  · intro h; unfold lvl; split <;> (try split) <;> omega
  · rw [operandTree_call_or, ht]; rfl

theorem not_doc {venv args xs outer s0 p col cp cty res idx}
    (hargs : DocsFor venv (.each .logic) (Fmt.logicNot.prec?.getD 0) args xs)
    (happly : Fmt.logicNot.apply xs = .ok s0) :
    DocFor venv .logic outer (.call p col (.ident cp "NOT") args cty res idx)
      (if Fmt.logicNot.prec?.isSome && outer > Fmt.logicNot.prec?.getD 0 then "(" ++ s0 ++ ")" else s0) := by
  obtain ⟨x, rfl⟩ := apply1 happly (Or.inl rfl)
  obtain ⟨d1, w1, h1, l1, wf1, ht, f1⟩ := docsFor1 hargs
  have e : s0 = "NOT " ++ x := (pure_ok happly).symm
  match args, ht with
  | .cons a rest, ht =>
    obtain ⟨wa, ws', hta, hr, e2⟩ := operandTrees_cons ht
    cases e2
    match rest, hr with
    | .nil, _ =>
      refine wrap_docFor (l0 := 2) (prec := 10) (d0 := .not d1) (w := .not w1) rfl ?_ l1 ?_ ?_ ?_ ?_
      · simp [e, String.toList_append, cNot_eq, dchars, h1]
      · simp only [WF]; exact ⟨Nat.le_refl _, wf1⟩
      · intro _; exact lvl_le_two _
      · rw [operandTree_call_not, hta]; rfl
      · simp only [ptree, pk, wrap, flatten]; rw [← ptree, f1]
    | .cons _ _, hr =>
      obtain ⟨_, _, _, _, e3⟩ := operandTrees_cons hr
      cases e3
  | .nil, ht => cases operandTrees_nil ht

theorem bin_doc {venv args xs outer s0 p col cp cty res idx} {op : String} {m : Pos'}
    (hm : m = .logic ∨ m = .first) (hop : op ∈ binOps)
    (h1 : op ≠ "AND") (h2 : op ≠ "OR") (h3 : op ≠ "NOT") (h4 : sqlOpName op = op)
    (hargs : DocsFor venv .cmpArgs ((Fmt.binary op).prec?.getD 0) args xs)
    (happly : (Fmt.binary op).apply xs = .ok s0) :
    DocFor venv m outer (.call p col (.ident cp op) args cty res idx)
      (if (Fmt.binary op).prec?.isSome && outer > (Fmt.binary op).prec?.getD 0 then "(" ++ s0 ++ ")" else s0) := by
  show DocFor venv m outer _ s0
  obtain ⟨x, y, rfl⟩ := apply2 happly (Or.inr (Or.inr ⟨op, rfl⟩))
  obtain ⟨d1, d2, w1, w2, hx, hy, l1, l2, wf1, wf2, ht, f1, f2⟩ := docsFor2 hargs
  have e : s0 = x ++ " " ++ op ++ " " ++ y := (pure_ok happly).symm
  refine ⟨.bin op d1 d2, .cond op (.cons w1 (.cons w2 .nil)), ?_, ⟨hop, l1, l2⟩, ?_, ?_, ?_⟩
  · simp [e, String.toList_append, lit_blank, dchars, hx, hy]
  · refine wfm_cond hm fun l hl => ?_
    simp only [WF]; exact ⟨hl, hop, wf1, wf2⟩
  · rw [operandTree_call_cond venv op h1 h2 h3, ht, h4]; rfl
  · simp only [ptree, pk, wrap, flatten, flattenList]; rw [← ptree, ← ptree, f1, f2]

theorem in_doc {venv args xs outer s0 p col cp cty res idx} {m : Pos'}
    (hm : m = .logic ∨ m = .first)
    (hargs : DocsFor venv .inArgs ((Fmt.binary "IN").prec?.getD 0) args xs)
    (happly : (Fmt.binary "IN").apply xs = .ok s0) :
    DocFor venv m outer (.call p col (.ident cp "IN") args cty res idx)
      (if (Fmt.binary "IN").prec?.isSome && outer > (Fmt.binary "IN").prec?.getD 0 then "(" ++ s0 ++ ")" else s0) := by
  show DocFor venv m outer _ s0
  obtain ⟨x, y, rfl⟩ := apply2 happly (Or.inr (Or.inr ⟨_, rfl⟩))
  obtain ⟨d1, d2, w1, w2, hx, hy, l1, l2, wf1, wf2, ht, f1, f2⟩ := docsFor2 hargs
  obtain ⟨ds, rfl, hlen, wds⟩ := wf2
  have e : s0 = x ++ " " ++ "IN" ++ " " ++ y := (pure_ok happly).symm
  simp only [LexOK] at l2
  refine ⟨.inn d1 ds, .cond "IN" (.cons w1 (.cons w2 .nil)), ?_, ⟨l1, l2.1, l2.2⟩, ?_, ?_, ?_⟩
  · have : "IN".toList = ['I', 'N'] := by decide
    simp [e, String.toList_append, lit_blank, dchars, hx, hy, cIn, this]
  · refine wfm_cond hm fun l hl => ?_
    simp only [WF]; exact ⟨hl, wf1, hlen, wds⟩
  · rw [operandTree_call_cond venv "IN" (by decide) (by decide) (by decide), ht]; rfl
  · have e2 : ptree (.list ds) = .list (pks ds) := by simp only [ptree, pk, wrap]
    rw [e2] at f2
    simp only [ptree, pk, wrap, flatten, flattenList]; rw [← ptree, f1]
    simp only [flatten] at f2; rw [f2]

theorem between_doc {venv args xs outer s0 p col cp cty res idx} {m : Pos'}
    (hm : m = .logic ∨ m = .first)
    (hargs : DocsFor venv .cmpArgs (Fmt.between.prec?.getD 0) args xs)
    (happly : Fmt.between.apply xs = .ok s0) :
    DocFor venv m outer (.call p col (.ident cp "BETWEEN") args cty res idx)
      (if Fmt.between.prec?.isSome && outer > Fmt.between.prec?.getD 0 then "(" ++ s0 ++ ")" else s0) := by
  show DocFor venv m outer _ s0
  obtain ⟨x, y, z, rfl⟩ := apply3 happly
  obtain ⟨d1, d2, d3, w1, w2, w3, hx, hy, hz, l1, l2, l3, wf1, wf2, wf3, ht, f1, f2, f3⟩ := docsFor3 hargs
  have e : s0 = x ++ " BETWEEN " ++ y ++ " AND " ++ z := (pure_ok happly).symm
  refine ⟨.between d1 d2 d3, .cond "BETWEEN" (.cons w1 (.cons w2 (.cons w3 .nil))), ?_, ⟨l1, l2, l3⟩,
    ?_, ?_, ?_⟩
  · simp [e, String.toList_append, cBetween_eq, cAnd_eq, dchars, hx, hy, hz]
  · refine wfm_cond hm fun l hl => ?_
    simp only [WF]; exact ⟨hl, wf1, wf2, wf3⟩
  · rw [operandTree_call_cond venv "BETWEEN" (by decide) (by decide) (by decide), ht]; rfl
  · simp only [ptree, pk, wrap, flatten, flattenList]; rw [← ptree, ← ptree, ← ptree, f1, f2, f3]

theorem isnull_doc {venv args xs outer s0 p col cp cty res idx} {m : Pos'}
    (hm : m = .logic ∨ m = .first)
    (hargs : DocsFor venv .cmpArgs ((Fmt.postfix "IS NULL").prec?.getD 0) args xs)
    (happly : (Fmt.postfix "IS NULL").apply xs = .ok s0) :
    DocFor venv m outer (.call p col (.ident cp "ISNULL") args cty res idx)
      (if (Fmt.postfix "IS NULL").prec?.isSome && outer > (Fmt.postfix "IS NULL").prec?.getD 0
        then "(" ++ s0 ++ ")" else s0) := by
  show DocFor venv m outer _ s0
  obtain ⟨x, rfl⟩ := apply1 happly (Or.inr ⟨_, rfl⟩)
  obtain ⟨d1, w1, hx, l1, wf1, ht, f1⟩ := docsFor1 hargs
  have e : s0 = x ++ " " ++ "IS NULL" := (pure_ok happly).symm
  refine ⟨.isnull d1, .cond "IS NULL" (.cons w1 .nil), ?_, l1, ?_, ?_, ?_⟩
  · have : "IS NULL".toList = ['I', 'S', ' ', 'N', 'U', 'L', 'L'] := by decide
    simp [e, String.toList_append, lit_blank, dchars, hx, cIsNull, this]
  · refine wfm_cond hm fun l hl => ?_
    simp only [WF]; exact ⟨hl, wf1⟩
  · rw [operandTree_call_cond venv "ISNULL" (by decide) (by decide) (by decide), ht]; rfl
  · simp only [ptree, pk, wrap, flatten, flattenList]; rw [← ptree, f1]

/-- **one application**: given the texts of the arguments, the text `compile` makes of the call -/
theorem call_doc {venv : List (String × Val)} {fname : String} (hn : fname ∈ sqlNames) {m : Pos'}
    (hm : m = .logic ∨ (m = .first ∧ fname ∉ logicNames))
    {args : ExprList} {xs : List String} {outer : Nat} {s0 : String} {p col cp cty res idx}
    (hargs : DocsFor venv (argPos fname) ((fmtOfName fname).prec?.getD 0) args xs)
    (happly : (fmtOfName fname).apply xs = .ok s0) :
    DocFor venv m outer (.call p col (.ident cp fname) args cty res idx)
      (if (fmtOfName fname).prec?.isSome && outer > (fmtOfName fname).prec?.getD 0
        then "(" ++ s0 ++ ")" else s0) := by
  simp only [sqlNames, List.mem_cons, List.not_mem_nil, or_false] at hn
  have hm' : m = .logic ∨ m = .first := hm.elim Or.inl fun h => Or.inr h.1
  have hlog : fname ∈ logicNames → m = .logic := fun h => hm.elim id fun h' => absurd h h'.2
  have hb : ∀ op : String, fmtOfName op = .binary op → argPos op = .cmpArgs → op ∈ binOps →
      op ≠ "AND" → op ≠ "OR" → op ≠ "NOT" → sqlOpName op = op → fname = op →
      DocFor venv m outer (.call p col (.ident cp fname) args cty res idx)
        (if (fmtOfName fname).prec?.isSome && outer > (fmtOfName fname).prec?.getD 0
          then "(" ++ s0 ++ ")" else s0) := by
    intro op hf ha hop h1 h2 h3 h4 e
    subst e
    rw [hf] at happly ⊢
    rw [hf, ha] at hargs
    exact bin_doc hm' hop h1 h2 h3 h4 hargs happly
  rcases hn with h | h | h | h | h | h | h | h | h | h | h | h | h
  · subst h
    have hf : fmtOfName "BETWEEN" = .between := by decide
    have ha : argPos "BETWEEN" = .cmpArgs := by decide
    rw [hf] at happly ⊢; rw [hf, ha] at hargs
    exact between_doc hm' hargs happly
  · exact hb "=" (by decide) (by decide) (by decide) (by decide) (by decide) (by decide) (by decide) h
  · exact hb ">=" (by decide) (by decide) (by decide) (by decide) (by decide) (by decide) (by decide) h
  · exact hb ">" (by decide) (by decide) (by decide) (by decide) (by decide) (by decide) (by decide) h
  · subst h
    have hf : fmtOfName "IN" = .binary "IN" := by decide
    have ha : argPos "IN" = .inArgs := by decide
    rw [hf] at happly ⊢; rw [hf, ha] at hargs
    exact in_doc hm' hargs happly
  · subst h
    have hf : fmtOfName "ISNULL" = .postfix "IS NULL" := by decide
    have ha : argPos "ISNULL" = .cmpArgs := by decide
    rw [hf] at happly ⊢; rw [hf, ha] at hargs
    exact isnull_doc hm' hargs happly
  · exact hb "<=" (by decide) (by decide) (by decide) (by decide) (by decide) (by decide) (by decide) h
  · exact hb "LIKE" (by decide) (by decide) (by decide) (by decide) (by decide) (by decide) (by decide) h
  · subst h
    have hf : fmtOfName "AND" = .logicAnd := by decide
    have ha : argPos "AND" = .each .logic := by decide
    rw [hf] at happly ⊢; rw [hf, ha] at hargs
    rw [hlog (by decide)]
    exact and_doc hargs happly
  · subst h
    have hf : fmtOfName "NOT" = .logicNot := by decide
    have ha : argPos "NOT" = .each .logic := by decide
    rw [hf] at happly ⊢; rw [hf, ha] at hargs
    rw [hlog (by decide)]
    exact not_doc hargs happly
  · subst h
    have hf : fmtOfName "OR" = .logicOr := by decide
    have ha : argPos "OR" = .each .logic := by decide
    rw [hf] at happly ⊢; rw [hf, ha] at hargs
    rw [hlog (by decide)]
    exact or_doc hargs happly
  · exact hb "<" (by decide) (by decide) (by decide) (by decide) (by decide) (by decide) (by decide) h
  · exact hb "<>" (by decide) (by decide) (by decide) (by decide) (by decide) (by decide) (by decide) h

end Yae.SqlStruct
