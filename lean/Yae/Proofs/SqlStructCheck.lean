/-
  Lemma for C20: in the tree `check` returns for the SQL function table, every statically
  resolved call refers to a registered function that carries the NAME of the callee; hence the
  formatter `emit` uses is determined by the callee name (`fmtOfName`).
-/
import Yae.Model.SqlRead
import Yae.Proofs.SoundnessCheck
import Yae.Proofs.TypingCheck
namespace Yae.SqlStruct
open Yae Yae.Sql

/-- the formatter registered for a function name in `sql.BuiltIn()` -/
def fmtOfName (n : String) : Fmt :=
  if n = "AND" then .logicAnd else if n = "OR" then .logicOr else if n = "NOT" then .logicNot
  else if n = "BETWEEN" then .between else if n = "ISNULL" then .postfix "IS NULL" else .binary n

/-- the function names of `sql.BuiltIn()` -/
def sqlNames : List String :=
  ["BETWEEN", "=", ">=", ">", "IN", "ISNULL", "<=", "LIKE", "AND", "NOT", "OR", "<", "<>"]

mutual
/-- every statically resolved call node refers to a registered function that has the callee's name -/
def nameOK : Expr → Bool
  | .list _ es _ => nameOKList es
  | .call _ _ (.ident _ fname) args _ resolved index =>
    (match resolveStatic sqlFuns resolved index with
     | some d => decide (lookupFmt d = some (fmtOfName fname)) && sqlNames.contains fname
     | none => true) && nameOKList args
  | _ => true
def nameOKList : ExprList → Bool
  | .nil => true
  | .cons e es => nameOK e && nameOKList es
end

/-! ### the table -/

def isPrim : Ty → Bool
  | .num | .str | .bool | .time => true
  | _ => false

def primList : TyList → Bool
  | .nil => true
  | .cons t ts => isPrim t && primList ts

/-- what is needed of one row of `sqlTable`: the row found under its id has the formatter of the
function's name, the name is a known one, the result type has no variables, a monomorphic row has
primitive parameters only, and the polymorphic rows are `IN` (2 parameters) and `ISNULL` (1) -/
def entryOK (s : SqlFun) : Bool :=
  match s.ty with
  | .fn n ps ret =>
    decide ((sqlTable.find? fun t => t.id == s.id).map (·.fmt) = some (fmtOfName n)) &&
    sqlNames.contains n && slotFree ret &&
    (if slotFreeList ps then primList ps
     else (n == "IN" && ps.length == 2) || (n == "ISNULL" && ps.length == 1))
  | _ => false

theorem table_ok : sqlTable.all entryOK = true := by decide

theorem decl_facts {d : FunDecl} (hmem : d ∈ sqlFuns) {n : String} {ps : TyList} {ret : Ty}
    (hty : d.ty = .fn n ps ret) :
    lookupFmt d = some (fmtOfName n) ∧ n ∈ sqlNames ∧ slotFree ret = true ∧
    (slotFreeList ps = true → primList ps = true) ∧
    (slotFreeList ps = false →
      (n = "IN" ∧ ps.length = 2) ∨ (n = "ISNULL" ∧ ps.length = 1)) := by
  unfold sqlFuns at hmem
  obtain ⟨s, hs, rfl⟩ := List.mem_map.1 hmem
  have hok := List.all_eq_true.1 table_ok s hs
  have hty' : s.ty = .fn n ps ret := hty
  rw [entryOK, hty'] at hok
  simp only [Bool.and_eq_true, decide_eq_true_eq] at hok
  obtain ⟨⟨⟨h1, h2⟩, h3⟩, h4⟩ := hok
  refine ⟨h1, by simpa using h2, h3, ?_, ?_⟩
  · intro hsl
    rw [if_pos hsl] at h4
    exact h4
  · intro hsl
    rw [if_neg (by simp [hsl])] at h4
    simpa using h4

theorem primList_eq : ∀ (ps as : TyList), primList ps = true → tyEqList ps as = true → as = ps
  | .nil, .nil, _, _ => rfl
  | .nil, .cons _ _, _, h => by simp [tyEqList] at h
  | .cons _ _, .nil, _, h => by simp [tyEqList] at h
  | .cons p ps, .cons a as, hp, h => by
    simp only [primList, Bool.and_eq_true] at hp
    simp only [tyEqList, Bool.and_eq_true] at h
    obtain ⟨hp1, hp2⟩ := hp
    obtain ⟨h1, h2⟩ := h
    have e1 := primList_eq ps as hp2 h2
    have e2 : a = p := by
      cases p <;> simp [isPrim] at hp1 <;> cases a <;> simp [tyEq] at h1 <;> rfl
    rw [e1, e2]

/-! ### splitting a polymorphic key at its blank -/

theorem blank_split : ∀ (w l r : List Char) (c : Char), ' ' ∉ w → c ≠ ' ' →
    l ++ ' ' :: r = w ++ [' ', c] → l = w
  | [], [], _, _, _, _, _ => rfl
  | [], [_], r, c, _, hc, h => by
    simp only [List.nil_append, List.cons_append, List.cons.injEq] at h
    exact absurd h.2.1.symm hc
  | [], _ :: _ :: l, r, c, _, _, h => by
    simp at h
  | x :: w, [], r, c, hw, _, h => by
    simp only [List.nil_append, List.cons_append, List.cons.injEq] at h
    exact absurd (h.1 ▸ List.mem_cons_self) hw
  | x :: w, a :: l, r, c, hw, hc, h => by
    simp only [List.cons_append, List.cons.injEq] at h
    rw [h.1, blank_split w l r c (fun hm => hw (List.mem_cons_of_mem _ hm)) hc h.2]

theorem polyKey_name {n fname : String} {k m : Nat} {w : List Char} {c : Char}
    (hn : n.toList = w) (hm : (toString m).toList = [c]) (hw : ' ' ∉ w) (hc : c ≠ ' ')
    (h : "∀.λ " ++ n ++ " " ++ toString m = "∀.λ " ++ fname ++ " " ++ toString k) :
    fname = n := by
  simp only [String.append_assoc] at h
  have h := congrArg String.toList ((String.append_right_inj _).1 h)
  simp only [String.toList_append, hn, hm] at h
  have hb : " ".toList = [' '] := by decide
  rw [hb] at h
  have := blank_split w fname.toList (toString k).toList c hw hc h.symm
  exact String.toList_inj.1 (this.trans hn.symm)

/-! ### overload resolution finds a function with the callee's name -/

theorem resolve_name {tenv : List (String × Ty)} {ctr : Nat} {fname : String} {argTys : TyList}
    {r : Resolved} {ctr' : Nat} {d : FunDecl}
    (h : resolveOverloadedFun { vars := tenv, funs := sqlFuns, reserved := reservedWords } ctr
      fname argTys = .ok (r, ctr'))
    (hlen : r.params.length = argTys.length) (hass : assertParams r.params argTys = .ok ())
    (hres : resolveStatic sqlFuns r.key r.index = some d) :
    lookupFmt d = some (fmtOfName fname) ∧ fname ∈ sqlNames := by
  unfold resolveOverloadedFun at h
  simp only [] at h
  split at h
  · -- monomorphic
    next d0 hd =>
    obtain ⟨hmem, hkey⟩ := Sound.lookupMono_some hd
    split at h
    · next name ps ret hty =>
      have := CR.pure_eq_ok.1 h
      cases this
      have hd' : d0 = d := by
        simp only [resolveStatic] at hres
        rw [if_pos (by decide)] at hres
        rw [hd] at hres
        exact Option.some.inj hres
      subst hd'
      have hsf := Sound.decl_key_mono hty hkey
      have hk1 : d0.key = ("λ " ++ name ++ " " ++ (Ty.tuple ps).render, true) := by
        simp only [FunDecl.key, hty, overloadKey, hsf, if_true]
      have hsl : slotFreeList ps = true := by
        simp only [slotFree, Bool.and_eq_true] at hsf
        exact hsf.1
      obtain ⟨hfmt, hn, _, hprim, _⟩ := decl_facts hmem hty
      have heq : argTys = ps :=
        primList_eq ps argTys (hprim hsl) (Sound.assertParams_tyEqList _ _ hlen hass)
      subst heq
      have hk2 : (overloadKey fname argTys .bot).1
          = "λ " ++ fname ++ " " ++ (Ty.tuple argTys).render := by
        simp [overloadKey, slotFree, hsl]
      rw [hk1, hk2] at hkey
      have hke := eq_of_beq hkey
      simp only [Prod.mk.injEq, and_true] at hke
      have h1 := (String.append_left_inj _).1 hke
      have h2 := (String.append_left_inj _).1 h1
      have h3 : name = fname := (String.append_right_inj _).1 h2
      subst h3
      exact ⟨hfmt, hn⟩
    · exact absurd h CR.throw_ne_ok
  · -- polymorphic
    next hnone =>
    split at h
    · exact absurd h CR.throw_ne_ok
    · simp only [CR.bind_eq_ok] at h
      obtain ⟨⟨res, c1⟩, htry, h⟩ := h
      simp only at h
      split at h
      · next i ps' ret' name =>
        have := CR.pure_eq_ok.1 h
        cases this
        obtain ⟨d1, ps, ret, c, _, hg, hty, _⟩ := Sound.tryPoly_some _ _ _ _ _ _ _ _ _ htry
        simp only [Nat.sub_zero] at hg
        have hd' : d1 = d := by
          simp only [resolveStatic] at hres
          rw [if_neg (by omega)] at hres
          simp only [Int.toNat_natCast] at hres
          rw [hg] at hres
          exact Option.some.inj hres
        subst hd'
        obtain ⟨hmem, hkey⟩ := lookupPoly_mem (List.mem_of_getElem? hg)
        have hsf := key_poly hty hkey
        rw [hty] at hsf
        obtain ⟨hfmt, hn, hret, _, hpoly⟩ := decl_facts hmem hty
        have hsl : slotFreeList ps = false := by
          simp only [slotFree, hret, Bool.and_true] at hsf
          exact hsf
        have hk1 : d1.key = ("∀.λ " ++ name ++ " " ++ toString ps.length, false) := by
          simp only [FunDecl.key, hty, overloadKey, hsf, Bool.false_eq_true, if_false]
        rw [hk1] at hkey
        have hke := eq_of_beq hkey
        simp only [Prod.mk.injEq, and_true] at hke
        have hname : fname = name := by
          rcases hpoly hsl with ⟨rfl, hl⟩ | ⟨rfl, hl⟩
          · rw [hl] at hke
            exact polyKey_name (w := ['I', 'N']) (c := '2') (by decide) (by decide) (by decide)
              (by decide) hke
          · rw [hl] at hke
            exact polyKey_name (w := ['I', 'S', 'N', 'U', 'L', 'L']) (c := '1') (by decide)
              (by decide) (by decide) (by decide) hke
        subst hname
        exact ⟨hfmt, hn⟩
      · exact absurd h CR.throw_ne_ok

/-! ### the checked tree -/

theorem resolveStatic_empty : resolveStatic sqlFuns "" (-1) = none := by decide

mutual
theorem check_nameOK (tenv : List (String × Ty)) (e : Expr) (c : Nat) (T : Ty) (e' : Expr) (c' : Nat)
    (h : check { vars := tenv, funs := sqlFuns, reserved := reservedWords } c e = .ok (T, e', c')) :
    nameOK e' = true :=
  match e, h with
  | .str _ _, h | .num _ _, h | .time _ _, h | .bool _ _, h => by
    simp only [check, CR.pure_eq_ok, Prod.mk.injEq] at h
    rw [← h.2.1]; simp only [nameOK]
  | .list p .nil ty, h => by
    simp only [check, CR.pure_eq_ok, Prod.mk.injEq] at h
    rw [← h.2.1]; simp only [nameOK, nameOKList]
  | .list p (.cons e es) ty, h => by
    simp only [check, CR.bind_eq_ok, CR.pure_eq_ok, Prod.mk.injEq] at h
    obtain ⟨⟨T1, e1, c1⟩, h1, ⟨es1, c2⟩, h2, h3⟩ := h
    rw [← h3.2.1]
    simp only [nameOK, nameOKList, check_nameOK tenv e _ _ _ _ h1,
      checkElems_nameOK tenv es _ _ _ _ h2, Bool.and_self]
  | .map p .nil ty, h => by
    simp only [check, CR.pure_eq_ok, Prod.mk.injEq] at h
    rw [← h.2.1]; simp only [nameOK]
  | .map p (.cons k v ps) ty, h => by
    simp only [check] at h
    obtain ⟨⟨T1, k1, c1⟩, h1, h⟩ := CR.bind_eq_ok.1 h
    split at h
    · exact absurd h (by simp [CR.throw_eq])
    simp only [CR.bind_eq_ok] at h
    obtain ⟨⟨T2, v1, c2⟩, h3, ⟨ps1, c3⟩, h4, h5⟩ := h
    simp only [CR.pure_eq_ok, Prod.mk.injEq] at h5
    rw [← h5.2.1]; simp only [nameOK]
  | .obj p fs ty, h => by
    simp only [check, CR.bind_eq_ok] at h
    obtain ⟨⟨tys, fs1, c1⟩, h1, ty1, h2, h3⟩ := h
    simp only [CR.pure_eq_ok, Prod.mk.injEq] at h3
    rw [← h3.2.1]; simp only [nameOK]
  | .ident p x, h => by
    simp only [check] at h
    split at h
    · exact absurd h (by simp [CR.throw_eq])
    split at h
    · simp only [CR.pure_eq_ok, Prod.mk.injEq] at h
      rw [← h.2.1]; simp only [nameOK]
    · exact absurd h CR.throw_ne_ok
  | .call p col callee args cty res idx, h => by
    obtain ⟨argTys, args', c1, h1, hcases⟩ := Sound.check_call_inv h
    have ha := checkArgs_nameOK tenv args c _ _ _ h1
    rcases hcases with ⟨cp, fname, r, _, h2, hlen, hass, rfl, rfl⟩ |
      ⟨name, ps, ret, callee', c2, ps', h2, hinf, hlen, hass, rfl⟩
    · simp only [nameOK, ha, Bool.and_true]
      split
      · next d hd =>
        obtain ⟨hf, hn⟩ := resolve_name h2 hlen hass hd
        simp [hf, hn]
      · rfl
    · cases callee' <;> simp [nameOK, ha, resolveStatic_empty]
  | .subscript p col v i vty, h => by
    simp only [check] at h
    obtain ⟨⟨T1, v1, c1⟩, h1, h⟩ := CR.bind_eq_ok.1 h
    split at h
    · obtain ⟨⟨T2, i1, c2⟩, h2, h⟩ := CR.bind_eq_ok.1 h
      obtain ⟨_, h3, h⟩ := CR.bind_eq_ok.1 h
      simp only [CR.pure_eq_ok, Prod.mk.injEq] at h
      rw [← h.2.1]; simp only [nameOK]
    · obtain ⟨⟨T2, i1, c2⟩, h2, h⟩ := CR.bind_eq_ok.1 h
      obtain ⟨_, h3, h⟩ := CR.bind_eq_ok.1 h
      simp only [CR.pure_eq_ok, Prod.mk.injEq] at h
      rw [← h.2.1]; simp only [nameOK]
    · exact absurd h CR.throw_ne_ok
  | .member p col o f fp oty idx, h => by
    simp only [check] at h
    obtain ⟨⟨T1, o1, c1⟩, h1, h⟩ := CR.bind_eq_ok.1 h
    split at h
    · split at h
      · simp only [CR.pure_eq_ok, Prod.mk.injEq] at h
        rw [← h.2.1]; simp only [nameOK]
      · exact absurd h CR.throw_ne_ok
    · exact absurd h CR.throw_ne_ok
  | .unary .., h | .binary .., h | .ternary .., h | .group .., h => by
    simp only [check] at h
    exact absurd h CR.throw_ne_ok
theorem checkElems_nameOK (tenv : List (String × Ty)) (es : ExprList) (c : Nat) (T : Ty)
    (es' : ExprList) (c' : Nat)
    (h : checkElems { vars := tenv, funs := sqlFuns, reserved := reservedWords } c T es
      = .ok (es', c')) : nameOKList es' = true :=
  match es, h with
  | .nil, h => by
    simp only [checkElems, CR.pure_eq_ok, Prod.mk.injEq] at h
    rw [← h.1]; simp only [nameOKList]
  | .cons e es, h => by
    simp only [checkElems, CR.bind_eq_ok] at h
    obtain ⟨⟨T1, e1, c1⟩, h1, _, h2, ⟨es1, c2⟩, h3, h4⟩ := h
    simp only [CR.pure_eq_ok, Prod.mk.injEq] at h4
    rw [← h4.1]
    simp only [nameOKList, check_nameOK tenv e _ _ _ _ h1, checkElems_nameOK tenv es _ _ _ _ h3,
      Bool.and_self]
theorem checkArgs_nameOK (tenv : List (String × Ty)) (es : ExprList) (c : Nat) (tys : TyList)
    (es' : ExprList) (c' : Nat)
    (h : checkArgs { vars := tenv, funs := sqlFuns, reserved := reservedWords } c es
      = .ok (tys, es', c')) : nameOKList es' = true :=
  match es, h with
  | .nil, h => by
    simp only [checkArgs, CR.pure_eq_ok, Prod.mk.injEq] at h
    rw [← h.2.1]; simp only [nameOKList]
  | .cons e es, h => by
    simp only [checkArgs, CR.bind_eq_ok] at h
    obtain ⟨⟨T1, e1, c1⟩, h1, ⟨tys1, es1, c2⟩, h2, h3⟩ := h
    simp only [CR.pure_eq_ok, Prod.mk.injEq] at h3
    rw [← h3.2.1]
    simp only [nameOKList, check_nameOK tenv e _ _ _ _ h1, checkArgs_nameOK tenv es _ _ _ _ h2,
      Bool.and_self]
end

end Yae.SqlStruct

#print axioms Yae.SqlStruct.check_nameOK
