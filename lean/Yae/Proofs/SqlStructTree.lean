/-
  C20: facts about `flatten` (the associativity of AND and of OR) and about the left-nested chains
  the reference reader builds (`pk (.andAcc x) d`, `pk (.orAcc x) d`).
-/
import Yae.Proofs.SqlDoc
namespace Yae.SqlStruct
open Yae Yae.Sql Yae.SqlDoc

/-! ### lists of trees -/

theorem append_nil : ∀ xs : SqlTreeList, xs.append .nil = xs
  | .nil => rfl
  | .cons x xs => by simp [SqlTreeList.append, append_nil xs]

theorem append_assoc : ∀ xs ys zs : SqlTreeList, (xs.append ys).append zs = xs.append (ys.append zs)
  | .nil, _, _ => rfl
  | .cons x xs, ys, zs => by simp [SqlTreeList.append, append_assoc xs ys zs]

/-! ### `==` on trees is reflexive -/

mutual
theorem beq_refl : ∀ t : SqlTree, SqlTree.beq t t = true
  | .col _ | .str _ | .num _ | .time _ => by simp [SqlTree.beq]
  | .list xs | .and xs | .or xs => by simp [SqlTree.beq, beqList_refl xs]
  | .cond _ xs => by simp [SqlTree.beq, beqList_refl xs]
  | .not x => by simp [SqlTree.beq, beq_refl x]
theorem beqList_refl : ∀ ts : SqlTreeList, SqlTreeList.beq ts ts = true
  | .nil => by simp [SqlTreeList.beq]
  | .cons x xs => by simp [SqlTreeList.beq, beq_refl x, beqList_refl xs]
end

theorem beq_self (t : SqlTree) : (t == t) = true := beq_refl t

/-! ### the conjuncts / disjuncts of a tree, after flattening -/

def conjA (t : SqlTree) : SqlTreeList :=
  match flatten t with
  | .and ys => ys
  | y => .cons y .nil

def conjO (t : SqlTree) : SqlTreeList :=
  match flatten t with
  | .or ys => ys
  | y => .cons y .nil

theorem flatten_and2 (x y : SqlTree) :
    flatten (.and (.cons x (.cons y .nil))) = .and ((conjA x).append (conjA y)) := by
  simp only [flatten, spliceAnd, conjA]
  split <;> split <;> simp_all [SqlTreeList.append, append_nil]

theorem flatten_or2 (x y : SqlTree) :
    flatten (.or (.cons x (.cons y .nil))) = .or ((conjO x).append (conjO y)) := by
  simp only [flatten, spliceOr, conjO]
  split <;> split <;> simp_all [SqlTreeList.append, append_nil]

theorem conjA_congr {a b : SqlTree} (h : flatten a = flatten b) : conjA a = conjA b := by
  simp only [conjA, h]

theorem conjO_congr {a b : SqlTree} (h : flatten a = flatten b) : conjO a = conjO b := by
  simp only [conjO, h]

theorem conjA_and2 (x y : SqlTree) :
    conjA (.and (.cons x (.cons y .nil))) = (conjA x).append (conjA y) := by
  rw [conjA, flatten_and2]

theorem conjO_or2 (x y : SqlTree) :
    conjO (.or (.cons x (.cons y .nil))) = (conjO x).append (conjO y) := by
  rw [conjO, flatten_or2]

/-- `flatten (x AND y)` depends on `x`, `y` only through their flattened forms -/
theorem flatten_and2_congr {x x' y y' : SqlTree} (hx : flatten x = flatten x')
    (hy : flatten y = flatten y') :
    flatten (.and (.cons x (.cons y .nil))) = flatten (.and (.cons x' (.cons y' .nil))) := by
  rw [flatten_and2, flatten_and2, conjA_congr hx, conjA_congr hy]

theorem flatten_or2_congr {x x' y y' : SqlTree} (hx : flatten x = flatten x')
    (hy : flatten y = flatten y') :
    flatten (.or (.cons x (.cons y .nil))) = flatten (.or (.cons x' (.cons y' .nil))) := by
  rw [flatten_or2, flatten_or2, conjO_congr hx, conjO_congr hy]

/-! ### the reader's left-nested chains are the binary tree, up to `flatten` -/

theorem flatten_pk_andAcc : ∀ (d : Doc) (x : SqlTree),
    flatten (pk (.andAcc x) d) = flatten (.and (.cons x (.cons (ptree d) .nil)))
  | .str _, _ | .num _, _ | .col _, _ | .time _, _ | .list _, _ | .paren _, _ | .bin .., _
  | .inn .., _ | .between .., _ | .isnull _, _ | .not _, _ | .or .., _ => by
    simp only [pk, wrap, ptree]
  | .and u v, x => by
    have h1 := flatten_pk_andAcc v (pk (.andAcc x) u)
    have h2 := flatten_pk_andAcc u x
    have h3 := flatten_pk_andAcc v (ptree u)
    have e : ptree (.and u v) = pk (.andAcc (ptree u)) v := by simp only [ptree, pk, wrap]
    have l : pk (.andAcc x) (.and u v) = pk (.andAcc (pk (.andAcc x) u)) v := by simp only [pk]
    rw [l, h1, flatten_and2, flatten_and2, conjA_congr h2, conjA_and2]
    rw [conjA_congr (a := ptree (.and u v)) (b := .and (.cons (ptree u) (.cons (ptree v) .nil)))
      (by rw [e, h3]), conjA_and2, append_assoc]

theorem flatten_pk_orAcc : ∀ (d : Doc) (x : SqlTree),
    flatten (pk (.orAcc x) d) = flatten (.or (.cons x (.cons (ptree d) .nil)))
  | .str _, _ | .num _, _ | .col _, _ | .time _, _ | .list _, _ | .paren _, _ | .bin .., _
  | .inn .., _ | .between .., _ | .isnull _, _ | .not _, _ | .and .., _ => by
    simp only [pk, wrap, ptree]
  | .or u v, x => by
    have h1 := flatten_pk_orAcc v (pk (.orAcc x) u)
    have h2 := flatten_pk_orAcc u x
    have h3 := flatten_pk_orAcc v (ptree u)
    have e : ptree (.or u v) = pk (.orAcc (ptree u)) v := by simp only [ptree, pk, wrap]
    have l : pk (.orAcc x) (.or u v) = pk (.orAcc (pk (.orAcc x) u)) v := by simp only [pk]
    rw [l, h1, flatten_or2, flatten_or2, conjO_congr h2, conjO_or2]
    rw [conjO_congr (a := ptree (.or u v)) (b := .or (.cons (ptree u) (.cons (ptree v) .nil)))
      (by rw [e, h3]), conjO_or2, append_assoc]

/-- the tree read from `a AND b` is, up to `flatten`, the conjunction of the meanings -/
theorem flatten_ptree_and {a b : Doc} {wa wb : SqlTree} (ha : flatten (ptree a) = flatten wa)
    (hb : flatten (ptree b) = flatten wb) :
    flatten (ptree (.and a b)) = flatten (.and (.cons wa (.cons wb .nil))) := by
  have e : ptree (.and a b) = pk (.andAcc (ptree a)) b := by simp only [ptree, pk, wrap]
  rw [e, flatten_pk_andAcc, flatten_and2_congr ha hb]

theorem flatten_ptree_or {a b : Doc} {wa wb : SqlTree} (ha : flatten (ptree a) = flatten wa)
    (hb : flatten (ptree b) = flatten wb) :
    flatten (ptree (.or a b)) = flatten (.or (.cons wa (.cons wb .nil))) := by
  have e : ptree (.or a b) = pk (.orAcc (ptree a)) b := by simp only [ptree, pk, wrap]
  rw [e, flatten_pk_orAcc, flatten_or2_congr ha hb]

end Yae.SqlStruct
