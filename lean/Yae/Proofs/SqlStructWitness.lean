/-
  Kernel-checked concrete evaluations of `toSql` (and of `c20Check`) on criteria that use the
  polymorphic function `IN : ('a, list['a]) → bool`.

  `check` resolves `IN` through `inferFun`, whose `applySubst` is defined by well-founded recursion
  and therefore does not evaluate in the kernel.  The way round: `Yae.C05.sigOK_inferFun` says that
  for the (`sigOK`) signature of `IN` and argument types expressions can have, `inferFun` *is* the
  structurally recursive `instantiate` (`in_infer`); `check_call_poly` / `check_call_mono` unfold one
  call of `check` given the checked arguments and the look-ups in the table; everything after the
  checker (`after`: `compileOk`, `envCheck`, `emit`) and the reference reader evaluate in the kernel.
-/
import Yae.Props.C05b
import Yae.Model.SqlRead
namespace Yae.SqlStruct.Wit
open Yae Yae.Sql Yae.PolyOK

def u := Pos.unknown
def el (xs : List Expr) := ExprList.ofList xs

/-- the checker's environment of `toSql` -/
def env (tenv : List (String × Ty)) : TEnv := { vars := tenv, funs := sqlFuns, reserved := reservedWords }

/-- `check` of a call whose callee is a name resolved to the first polymorphic candidate -/
theorem check_call_poly {Γ : TEnv} {ctr : Nat} {p : Pos} {col : Int} {cp : Pos} {fname : String}
    {args : ExprList} {cty : Option Ty} {res : String} {idx : Int}
    {argTys : TyList} {args' : ExprList} {ctr1 : Nat}
    (hargs : checkArgs Γ ctr args = .ok (argTys, args', ctr1))
    (hmono : lookupMono Γ.funs (overloadKey fname argTys .bot).1 = none)
    {d : FunDecl} {rest : List FunDecl} {name : String} {ps : TyList} {ret : Ty}
    (hpoly : lookupPoly Γ.funs ("∀.λ " ++ fname ++ " " ++ toString argTys.length) = d :: rest)
    (hd : d.ty = .fn name ps ret)
    {ps' : TyList} {ret' : Ty}
    (hinf : inferFun (ctr1 + 1) name ps ret argTys = .ok (ps', ret'))
    (hlen : (ps'.length != argTys.length) = false)
    (hassert : assertParams ps' argTys = .ok ()) :
    check Γ ctr (.call p col (.ident cp fname) args cty res idx) =
      .ok (ret', .call p col (.ident cp fname) args' (some (.fn name ps' ret'))
        ("∀.λ " ++ fname ++ " " ++ toString argTys.length) 0, ctr1 + 1 + argTys.length + 1) := by
  simp only [check, hargs, resolveOverloadedFun, hmono, hpoly, tryPoly, hd, hinf, liftU, hlen, hassert,
    bind, Except.bind, pure, Except.pure, List.isEmpty_cons, Bool.false_eq_true, if_false]
  rfl

/-- `check` of a call whose callee is a name resolved in the monomorphic table -/
theorem check_call_mono {Γ : TEnv} {ctr : Nat} {p : Pos} {col : Int} {cp : Pos} {fname : String}
    {args : ExprList} {cty : Option Ty} {res : String} {idx : Int}
    {argTys : TyList} {args' : ExprList} {ctr1 : Nat}
    (hargs : checkArgs Γ ctr args = .ok (argTys, args', ctr1))
    {d : FunDecl} {name : String} {ps : TyList} {ret : Ty}
    (hmono : lookupMono Γ.funs (overloadKey fname argTys .bot).1 = some d)
    (hd : d.ty = .fn name ps ret)
    (hlen : (ps.length != argTys.length) = false)
    (hassert : assertParams ps argTys = .ok ()) :
    check Γ ctr (.call p col (.ident cp fname) args cty res idx) =
      .ok (ret, .call p col (.ident cp fname) args' (some (.fn name ps ret))
        (overloadKey fname argTys .bot).1 (-1), ctr1) := by
  simp only [check, hargs, resolveOverloadedFun, hmono, hd, hlen, hassert,
    bind, Except.bind, pure, Except.pure, Bool.false_eq_true, if_false]

theorem checkArgs_cons {Γ : TEnv} {c c1 c2 : Nat} {e e' : Expr} {es es' : ExprList} {T : Ty} {Ts : TyList}
    (h1 : check Γ c e = .ok (T, e', c1)) (h2 : checkArgs Γ c1 es = .ok (Ts, es', c2)) :
    checkArgs Γ c (.cons e es) = .ok (.cons T Ts, .cons e' es', c2) := by
  simp only [checkArgs, h1, h2, bind, Except.bind, pure, Except.pure]

theorem checkArgs_nil {Γ : TEnv} {c : Nat} : checkArgs Γ c .nil = .ok (.nil, .nil, c) := by
  simp only [checkArgs, pure, Except.pure]

/-- the signature of `IN` and its declaration in `sqlFuns` -/
def inPs : TyList := .cons (.var "a") (.cons (.list (.var "a")) .nil)
def inDecl : FunDecl := { ty := .fn "IN" inPs .bool, ref := .host "IN_LIST" (.retArg 0), isLazy := false }

theorem in_sigOK : sigOK (.fn "IN" inPs .bool) = true := by decide

theorem in_poly : lookupPoly sqlFuns "∀.λ IN 2" = [inDecl] := by rfl

/-- `inferFun` on `IN` at `(T, list[T])` for a type `T` expressions can have -/
theorem in_infer (ctr : Nat) (As : TyList) (hA : TyOKList As = true) (r : TyList × Ty)
    (hi : instantiate inPs .bool As = some r) : inferFun ctr "IN" inPs .bool As = .ok r := by
  rw [Yae.C05.sigOK_inferFun in_sigOK hA ctr, hi]

def textIs (r : Except SqlErr String) (s : String) : Bool :=
  match r with
  | .ok t => t == s
  | .error _ => false

theorem textIs_ok {r : Except SqlErr String} {s : String} (h : textIs r s = true) : r = .ok s := by
  cases r with
  | error e => simp [textIs] at h
  | ok t => simp [textIs] at h; rw [h]

/-- what `toSql` does after the checker -/
def after (tenv : List (String × Ty)) (venv : List (String × Val)) (e : Expr) : Except SqlErr String := do
  if !compileOk e then throw .compilePanic
  envCheck tenv venv
  emit venv 0 e

theorem toSql_of_check {c : Criteria} {tenv : List (String × Ty)} {venv : List (String × Val)}
    {T : Ty} {e : Expr} {n : Nat} (h : check (env tenv) 0 c.expr = .ok (T, e, n)) :
    toSql c tenv venv = after tenv venv e := by
  unfold toSql checked after
  unfold env at h
  rw [h]
  rfl

/-! ### SQL3 -/
def cSql3 : Criteria := .cond "a" "IN" (el [.ident u "l"])
def tSql3 : List (String × Ty) := [("a", .str), ("l", .list .str)]

theorem sql3_checked : check (env tSql3) 0 cSql3.expr =
    .ok (.bool, .call u (-1) (.ident u "IN") (.cons (.ident u "a") (.cons (.ident u "l") .nil))
      (some (.fn "IN" (.cons .str (.cons (.list .str) .nil)) .bool)) "∀.λ IN 2" 0, 4) :=
  check_call_poly (argTys := .cons .str (.cons (.list .str) .nil)) (ctr1 := 0)
    (by rfl) (by decide +kernel) in_poly rfl
    (in_infer _ _ (by decide) _ (by rfl)) (by decide) (by rfl)

theorem sql3_text : toSql cSql3 tSql3 [] = .ok "`a` IN `l`" := by
  rw [toSql_of_check sql3_checked]
  exact textIs_ok (by decide +kernel)

theorem sql3_check : c20Check cSql3 tSql3 [] = some false := by
  unfold c20Check
  rw [sql3_text]
  decide +kernel

/-! ### the empty list -/
def cEmpty : Criteria := .cond "z" "IN" (el [.list u .nil none])
def tEmpty : List (String × Ty) := [("z", .bot)]

theorem empty_checked : check (env tEmpty) 0 cEmpty.expr =
    .ok (.bool, .call u (-1) (.ident u "IN")
      (.cons (.ident u "z") (.cons (.list u .nil (some (.list .bot))) .nil))
      (some (.fn "IN" (.cons .bot (.cons (.list .bot) .nil)) .bool)) "∀.λ IN 2" 0, 4) :=
  check_call_poly (argTys := .cons .bot (.cons (.list .bot) .nil)) (ctr1 := 0)
    (by rfl) (by decide +kernel) in_poly rfl
    (in_infer _ _ (by decide) _ (by rfl)) (by decide) (by rfl)

theorem empty_text : toSql cEmpty tEmpty [] = .ok "`z` IN ()" := by
  rw [toSql_of_check empty_checked]
  exact textIs_ok (by decide +kernel)

theorem empty_check : c20Check cEmpty tEmpty [] = some false := by
  unfold c20Check
  rw [empty_text]
  decide +kernel

/-! ### a one-element row that is not directly under IN -/
def cOne : Criteria :=
  .cond "l" "IN" (el [.list u (el [.list u (el [.str u "x"]) none, .list u (el [.str u "y"]) none]) none])
def tOne : List (String × Ty) := [("l", .list .str)]

theorem one_checked : check (env tOne) 0 cOne.expr =
    .ok (.bool, .call u (-1) (.ident u "IN")
      (.cons (.ident u "l") (.cons (.list u (.cons (.list u (.cons (.str u "x") .nil) (some (.list .str)))
        (.cons (.list u (.cons (.str u "y") .nil) (some (.list .str))) .nil)) (some (.list (.list .str)))) .nil))
      (some (.fn "IN" (.cons (.list .str) (.cons (.list (.list .str)) .nil)) .bool)) "∀.λ IN 2" 0, 4) :=
  check_call_poly (argTys := .cons (.list .str) (.cons (.list (.list .str)) .nil)) (ctr1 := 0)
    (by rfl) (by decide +kernel) in_poly rfl
    (in_infer _ _ (by decide) _ (by rfl)) (by decide) (by rfl)

theorem one_text : toSql cOne tOne [] = .ok "`l` IN ((\"x\"), (\"y\"))" := by
  rw [toSql_of_check one_checked]
  exact textIs_ok (by decide +kernel)

theorem one_check : c20Check cOne tOne [] = some false := by
  unfold c20Check
  rw [one_text]
  decide +kernel

/-! ### a criteria tree that is translated correctly -/
def notDecl : FunDecl := { ty := .fn "NOT" (.cons .bool .nil) .bool, ref := .host "LOGIC_NOT_BOOL" (.retArg 0), isLazy := false }
def andDecl : FunDecl := { ty := .fn "AND" (.cons .bool (.cons .bool .nil)) .bool, ref := .host "LOGIC_AND_BOOL_BOOL" (.retArg 0), isLazy := false }

theorem not_mono : lookupMono sqlFuns (overloadKey "NOT" (.cons .bool .nil) .bot).1 = some notDecl := by rfl
theorem and_mono : lookupMono sqlFuns (overloadKey "AND" (.cons .bool (.cons .bool .nil)) .bot).1 = some andDecl := by rfl

def cGood : Criteria :=
  .group .and (.cons (.group .or (.cons (.cond "a" "=" (el [.str u "x"])) (.cons (.cond "t" ">" (el [.time u (-3)])) .nil)))
    (.cons (.group .not (.cons (.cond "c" "IN" (el [.list u (el [.str u "p", .ident u "n"]) none])) .nil)) .nil))
def tGood : List (String × Ty) := [("a", .str), ("t", .time), ("c", .str), ("n", .str)]
def vGood : List (String × Val) := [("n", .str "q\"`")]

def goodOr : Expr :=
  .call u (-1) (.ident u "OR")
    (.cons (.call u (-1) (.ident u "=") (.cons (.ident u "a") (.cons (.str u "x") .nil))
        (some (.fn "=" (.cons .str (.cons .str .nil)) .bool)) "λ = (str, str)" (-1))
      (.cons (.call u (-1) (.ident u ">") (.cons (.ident u "t") (.cons (.time u (-3)) .nil))
        (some (.fn ">" (.cons .time (.cons .time .nil)) .bool)) "λ > (time, time)" (-1)) .nil))
    (some (.fn "OR" (.cons .bool (.cons .bool .nil)) .bool)) "λ OR (bool, bool)" (-1)

def goodIn : Expr :=
  .call u (-1) (.ident u "IN")
    (.cons (.ident u "c") (.cons (.list u (.cons (.str u "p") (.cons (.ident u "n") .nil)) (some (.list .str))) .nil))
    (some (.fn "IN" (.cons .str (.cons (.list .str) .nil)) .bool)) "∀.λ IN 2" 0

theorem good_or : check (env tGood) 0
    (Criteria.group .or (.cons (.cond "a" "=" (el [.str u "x"])) (.cons (.cond "t" ">" (el [.time u (-3)])) .nil))).expr =
    .ok (.bool, goodOr, 0) := by rfl

theorem good_in : check (env tGood) 0 (Criteria.cond "c" "IN" (el [.list u (el [.str u "p", .ident u "n"]) none])).expr =
    .ok (.bool, goodIn, 4) :=
  check_call_poly (argTys := .cons .str (.cons (.list .str) .nil)) (ctr1 := 0)
    (by rfl) (by decide +kernel) in_poly rfl
    (in_infer _ _ (by decide) _ (by rfl)) (by decide) (by rfl)

theorem good_checked : check (env tGood) 0 cGood.expr =
    .ok (.bool, .call u (-1) (.ident u "AND")
      (.cons goodOr (.cons (.call u (-1) (.ident u "NOT") (.cons goodIn .nil)
        (some (.fn "NOT" (.cons .bool .nil) .bool)) (overloadKey "NOT" (.cons .bool .nil) .bot).1 (-1)) .nil))
      (some (.fn "AND" (.cons .bool (.cons .bool .nil)) .bool))
      (overloadKey "AND" (.cons .bool (.cons .bool .nil)) .bot).1 (-1), 4) :=
  check_call_mono
    (checkArgs_cons good_or (checkArgs_cons
      (check_call_mono (checkArgs_cons good_in checkArgs_nil) not_mono rfl (by decide) (by rfl))
      checkArgs_nil))
    and_mono rfl (by decide) (by rfl)

theorem good_text : toSql cGood tGood vGood =
    .ok "(`a` = \"x\" OR `t` > from_unixtime(-3)) AND NOT `c` IN (\"p\", \"q\\\"`\")" := by
  rw [toSql_of_check good_checked]
  exact textIs_ok (by decide +kernel)

theorem good_check : c20Check cGood tGood vGood = some true := by
  unfold c20Check
  rw [good_text]
  decide +kernel

/-! ### the same shape with numbers (floats are opaque for the kernel: they stay variables) -/
def cNum (x3 x1 x2 : Float) : Criteria :=
  .group .and (.cons (.group .or (.cons (.cond "a" "=" (el [.str u "x"])) (.cons (.cond "b" ">" (el [.num u x3])) .nil)))
    (.cons (.group .not (.cons (.cond "c" "IN" (el [.list u (el [.num u x1, .num u x2]) none])) .nil)) .nil))
def tNum : List (String × Ty) := [("a", .str), ("b", .num), ("c", .num)]
def vNum (y : Float) : List (String × Val) := [("b", .num y)]

def numOr (x3 : Float) : Expr :=
  .call u (-1) (.ident u "OR")
    (.cons (.call u (-1) (.ident u "=") (.cons (.ident u "a") (.cons (.str u "x") .nil))
        (some (.fn "=" (.cons .str (.cons .str .nil)) .bool)) "λ = (str, str)" (-1))
      (.cons (.call u (-1) (.ident u ">") (.cons (.ident u "b") (.cons (.num u x3) .nil))
        (some (.fn ">" (.cons .num (.cons .num .nil)) .bool)) "λ > (num, num)" (-1)) .nil))
    (some (.fn "OR" (.cons .bool (.cons .bool .nil)) .bool)) "λ OR (bool, bool)" (-1)

def numIn (x1 x2 : Float) : Expr :=
  .call u (-1) (.ident u "IN")
    (.cons (.ident u "c") (.cons (.list u (.cons (.num u x1) (.cons (.num u x2) .nil)) (some (.list .num))) .nil))
    (some (.fn "IN" (.cons .num (.cons (.list .num) .nil)) .bool)) "∀.λ IN 2" 0

theorem num_or (x3 : Float) : check (env tNum) 0
    (Criteria.group .or (.cons (.cond "a" "=" (el [.str u "x"])) (.cons (.cond "b" ">" (el [.num u x3])) .nil))).expr =
    .ok (.bool, numOr x3, 0) := by rfl

theorem num_in (x1 x2 : Float) :
    check (env tNum) 0 (Criteria.cond "c" "IN" (el [.list u (el [.num u x1, .num u x2]) none])).expr =
    .ok (.bool, numIn x1 x2, 4) :=
  check_call_poly (argTys := .cons .num (.cons (.list .num) .nil)) (ctr1 := 0)
    (by rfl) (by decide +kernel) in_poly rfl
    (in_infer _ _ (by decide) _ (by rfl)) (by decide) (by rfl)

theorem num_checked (x3 x1 x2 : Float) : check (env tNum) 0 (cNum x3 x1 x2).expr =
    .ok (.bool, .call u (-1) (.ident u "AND")
      (.cons (numOr x3) (.cons (.call u (-1) (.ident u "NOT") (.cons (numIn x1 x2) .nil)
        (some (.fn "NOT" (.cons .bool .nil) .bool)) (overloadKey "NOT" (.cons .bool .nil) .bot).1 (-1)) .nil))
      (some (.fn "AND" (.cons .bool (.cons .bool .nil)) .bool))
      (overloadKey "AND" (.cons .bool (.cons .bool .nil)) .bot).1 (-1), 4) :=
  check_call_mono
    (checkArgs_cons (num_or x3) (checkArgs_cons
      (check_call_mono (checkArgs_cons (num_in x1 x2) checkArgs_nil) not_mono rfl (by decide) (by rfl))
      checkArgs_nil))
    and_mono rfl (by decide) (by rfl)

theorem num_text (x3 x1 x2 y : Float) : toSql (cNum x3 x1 x2) tNum (vNum y) =
    .ok ("(" ++ ("`a` = \"x\"" ++ " OR " ++ (Num.renderNum y ++ " " ++ ">" ++ " " ++ Num.renderNum x3)) ++ ")"
      ++ " AND " ++ ("NOT " ++ ("`c`" ++ " " ++ "IN" ++ " " ++
        joinStr [Num.renderNum x1, Num.renderNum x2] ", " "(" ")"))) := by
  rw [toSql_of_check (num_checked x3 x1 x2)]
  rfl

theorem num_ok (x3 x1 x2 y : Float) : ∃ text, toSql (cNum x3 x1 x2) tNum (vNum y) = .ok text :=
  ⟨_, num_text x3 x1 x2 y⟩

/-! ### an application as the FIRST operand of a condition, inside a list item -/
def tFirst : List (String × Ty) := [("b", .bool), ("c", .bool), ("s", .str), ("t", .str)]

/-- a connective application there: its operands are swallowed by the comparison -/
def cFirstBad : Criteria :=
  .cond "b" "IN" (el [.list u (el [mkCall "=" (el [mkCall "AND" (el [.ident u "b", .ident u "c"]), .ident u "b"])]) none])

/-- a condition there -/
def cFirstGood : Criteria :=
  .cond "b" "IN" (el [.list u (el [mkCall "=" (el [mkCall "=" (el [.ident u "s", .ident u "t"]), .ident u "b"])]) none])

def bb : TyList := .cons .bool (.cons .bool .nil)

/-- the checked `[inner = b]` -/
def firstItem (inner : Expr) : Expr :=
  .list u (.cons (.call u (-1) (.ident u "=") (.cons inner (.cons (.ident u "b") .nil))
    (some (.fn "=" bb .bool)) "λ = (bool, bool)" (-1)) .nil) (some (.list .bool))

def firstBadInner : Expr :=
  .call u (-1) (.ident u "AND") (.cons (.ident u "b") (.cons (.ident u "c") .nil))
    (some (.fn "AND" bb .bool)) "λ AND (bool, bool)" (-1)

def firstGoodInner : Expr :=
  .call u (-1) (.ident u "=") (.cons (.ident u "s") (.cons (.ident u "t") .nil))
    (some (.fn "=" (.cons .str (.cons .str .nil)) .bool)) "λ = (str, str)" (-1)

theorem first_checked {operand : Expr} {inner : Expr}
    (h : checkArgs (env tFirst) 0 (.cons (.ident u "b") (.cons (.list u (.cons operand .nil) none) .nil)) =
      .ok (.cons .bool (.cons (.list .bool) .nil), .cons (.ident u "b") (.cons (firstItem inner) .nil), 0)) :
    check (env tFirst) 0 (Criteria.cond "b" "IN" (.cons (.list u (.cons operand .nil) none) .nil)).expr =
    .ok (.bool, .call u (-1) (.ident u "IN") (.cons (.ident u "b") (.cons (firstItem inner) .nil))
      (some (.fn "IN" (.cons .bool (.cons (.list .bool) .nil)) .bool)) "∀.λ IN 2" 0, 4) :=
  check_call_poly (fname := "IN") (argTys := .cons .bool (.cons (.list .bool) .nil)) (ctr1 := 0)
    h (by decide +kernel) in_poly rfl
    (in_infer _ _ (by decide) _ (by rfl)) (by decide) (by rfl)

theorem firstBad_checked : check (env tFirst) 0 cFirstBad.expr =
    .ok (.bool, .call u (-1) (.ident u "IN") (.cons (.ident u "b") (.cons (firstItem firstBadInner) .nil))
      (some (.fn "IN" (.cons .bool (.cons (.list .bool) .nil)) .bool)) "∀.λ IN 2" 0, 4) :=
  first_checked (by rfl)

theorem firstBad_text : toSql cFirstBad tFirst [] = .ok "`b` IN (`b` AND `c` = `b`)" := by
  rw [toSql_of_check firstBad_checked]
  exact textIs_ok (by decide +kernel)

theorem firstBad_check : c20Check cFirstBad tFirst [] = some false := by
  unfold c20Check
  rw [firstBad_text]
  decide +kernel

theorem firstGood_checked : check (env tFirst) 0 cFirstGood.expr =
    .ok (.bool, .call u (-1) (.ident u "IN") (.cons (.ident u "b") (.cons (firstItem firstGoodInner) .nil))
      (some (.fn "IN" (.cons .bool (.cons (.list .bool) .nil)) .bool)) "∀.λ IN 2" 0, 4) :=
  first_checked (by rfl)

theorem firstGood_text : toSql cFirstGood tFirst [] = .ok "`b` IN (`s` = `t` = `b`)" := by
  rw [toSql_of_check firstGood_checked]
  exact textIs_ok (by decide +kernel)

theorem firstGood_check : c20Check cFirstGood tFirst [] = some true := by
  unfold c20Check
  rw [firstGood_text]
  decide +kernel

end Yae.SqlStruct.Wit
#print axioms Yae.SqlStruct.Wit.check_call_poly
#print axioms Yae.SqlStruct.Wit.check_call_mono
#print axioms Yae.SqlStruct.Wit.checkArgs_cons
#print axioms Yae.SqlStruct.Wit.checkArgs_nil
#print axioms Yae.SqlStruct.Wit.in_sigOK
#print axioms Yae.SqlStruct.Wit.in_poly
#print axioms Yae.SqlStruct.Wit.in_infer
#print axioms Yae.SqlStruct.Wit.textIs_ok
#print axioms Yae.SqlStruct.Wit.toSql_of_check
#print axioms Yae.SqlStruct.Wit.sql3_checked
#print axioms Yae.SqlStruct.Wit.sql3_text
#print axioms Yae.SqlStruct.Wit.sql3_check
#print axioms Yae.SqlStruct.Wit.empty_checked
#print axioms Yae.SqlStruct.Wit.empty_text
#print axioms Yae.SqlStruct.Wit.empty_check
#print axioms Yae.SqlStruct.Wit.one_checked
#print axioms Yae.SqlStruct.Wit.one_text
#print axioms Yae.SqlStruct.Wit.one_check
#print axioms Yae.SqlStruct.Wit.not_mono
#print axioms Yae.SqlStruct.Wit.and_mono
#print axioms Yae.SqlStruct.Wit.good_or
#print axioms Yae.SqlStruct.Wit.good_in
#print axioms Yae.SqlStruct.Wit.good_checked
#print axioms Yae.SqlStruct.Wit.good_text
#print axioms Yae.SqlStruct.Wit.good_check
#print axioms Yae.SqlStruct.Wit.num_or
#print axioms Yae.SqlStruct.Wit.num_in
#print axioms Yae.SqlStruct.Wit.num_checked
#print axioms Yae.SqlStruct.Wit.num_text
#print axioms Yae.SqlStruct.Wit.num_ok
#print axioms Yae.SqlStruct.Wit.first_checked
#print axioms Yae.SqlStruct.Wit.firstBad_checked
#print axioms Yae.SqlStruct.Wit.firstBad_text
#print axioms Yae.SqlStruct.Wit.firstBad_check
#print axioms Yae.SqlStruct.Wit.firstGood_checked
#print axioms Yae.SqlStruct.Wit.firstGood_text
#print axioms Yae.SqlStruct.Wit.firstGood_check
