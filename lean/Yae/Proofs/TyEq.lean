/-
  Helper lemmas for C17.
  * type equality (`tyEq`, the model of `types.Equals`) is exactly the structural relation
    `StructEq` (object fields by name) on well-formed types, and an equivalence relation there;
  * matching (`unify` against a variable-free right-hand side, which is how the type checker
    uses it): soundness w.r.t. `Below` (`⊑`), completeness w.r.t. `StructEq`, fuel sufficiency.
  All inductions over `Ty`/`TyList`/`FieldList` are mutual structural recursions; the facts
  about `unify` are proved by induction on the fuel, one lemma per function of the mutual block.
-/
import Yae.Model.Ty
import Yae.Model.Unify
namespace Yae

/-! ### `StructEq`: structural identity, object fields compared by name -/

mutual
/-- Same constructor, related children.  Objects: same number of fields, the same names are
present, and equally named fields are related (order is irrelevant).  Function names are ignored
(as `equalsFun` ignores `Name`). -/
inductive StructEq : Ty → Ty → Prop
  | top : StructEq .top .top
  | bot : StructEq .bot .bot
  | var (n : String) : StructEq (.var n) (.var n)
  | num : StructEq .num .num
  | str : StructEq .str .str
  | bool : StructEq .bool .bool
  | time : StructEq .time .time
  | tuple {xs ys} : StructEqList xs ys → StructEq (.tuple xs) (.tuple ys)
  | list {a b} : StructEq a b → StructEq (.list a) (.list b)
  | map {k v k' v'} : StructEq k k' → StructEq v v' → StructEq (.map k v) (.map k' v')
  | obj {fs gs : FieldList} :
      fs.length = gs.length →
      (∀ n, (fs.find? n).isSome = (gs.find? n).isSome) →
      (∀ n t u, fs.find? n = some t → gs.find? n = some u → StructEq t u) →
      StructEq (.obj fs) (.obj gs)
  | fn {f g ps qs r s} : StructEqList ps qs → StructEq r s → StructEq (.fn f ps r) (.fn g qs s)
  | maybe {a b} : StructEq a b → StructEq (.maybe a) (.maybe b)
/-- Pointwise `StructEq` on lists of the same length. -/
inductive StructEqList : TyList → TyList → Prop
  | nil : StructEqList .nil .nil
  | cons {x y xs ys} : StructEq x y → StructEqList xs ys → StructEqList (.cons x xs) (.cons y ys)
end

/-! ### field lists -/

namespace FieldList

theorem length_names : ∀ fs : FieldList, fs.names.length = fs.length
  | .nil => rfl
  | .cons _ _ fs => by simp [names, length, length_names fs]

theorem find?_isSome_iff : ∀ (fs : FieldList) (n : String),
    (fs.find? n).isSome = true ↔ n ∈ fs.names
  | .nil, n => by simp [find?, names]
  | .cons m t fs, n => by
    simp only [find?, names, List.mem_cons]
    split
    · next h => simp [h]
    · next h =>
      rw [find?_isSome_iff fs n]
      constructor
      · exact Or.inr
      · rintro (h' | h')
        · exact absurd h'.symm h
        · exact h'

theorem find?_cons_self (n : String) (t : Ty) (fs : FieldList) :
    (FieldList.cons n t fs).find? n = some t := by simp [find?]

theorem find?_cons_ne {m n : String} (t : Ty) (fs : FieldList) (h : m ≠ n) :
    (FieldList.cons m t fs).find? n = fs.find? n := by simp [find?, h]

end FieldList

theorem wfFields_nodup : ∀ fs : FieldList, wfFields fs = true → fs.names.Nodup
  | .nil, _ => by simp [FieldList.names]
  | .cons n t fs, h => by
    simp only [wfFields, Bool.and_eq_true] at h
    simp only [FieldList.names, List.nodup_cons]
    refine ⟨?_, wfFields_nodup fs h.2⟩
    intro hmem
    have := (FieldList.find?_isSome_iff fs n).2 hmem
    have h1 := h.1.1
    cases hq : fs.find? n <;> simp [hq] at this h1

theorem wfFields_find : ∀ (fs : FieldList) (n : String) (t : Ty),
    wfFields fs = true → fs.find? n = some t → t.wf = true
  | .nil, n, t, _, h => by simp [FieldList.find?] at h
  | .cons m t' fs, n, t, hw, h => by
    simp only [wfFields, Bool.and_eq_true] at hw
    simp only [FieldList.find?] at h
    split at h
    · cases h; exact hw.1.2
    · exact wfFields_find fs n t hw.2 h

/-- Pigeonhole: a duplicate-free list contained in a list that is not longer contains it. -/
theorem subset_of_nodup_of_length_le {α : Type} [DecidableEq α] :
    ∀ (xs ys : List α), xs.Nodup → (∀ a, a ∈ xs → a ∈ ys) → ys.length ≤ xs.length →
      ∀ a, a ∈ ys → a ∈ xs
  | [], ys, _, _, hl, a, ha => by
    cases ys with
    | nil => cases ha
    | cons y ys => simp at hl
  | x :: xs, ys, hnd, hsub, hl, a, ha => by
    have hx : x ∈ ys := hsub x (by simp)
    have hnd' := List.nodup_cons.1 hnd
    have ih := subset_of_nodup_of_length_le xs (ys.erase x) hnd'.2
      (fun b hb => (List.mem_erase_of_ne (by rintro rfl; exact hnd'.1 hb)).2
        (hsub b (by simp [hb])))
      (by rw [List.length_erase_of_mem hx]; simp at hl; omega)
    by_cases hax : a = x
    · simp [hax]
    · exact List.mem_cons_of_mem _ (ih a ((List.mem_erase_of_ne hax).2 ha))

/-- With distinct names on the left and equal lengths, "every left name is present on the right"
already gives "the same names are present". -/
theorem find?_isSome_eq_of_sub {fs gs : FieldList} (hw : wfFields fs = true)
    (hl : fs.length = gs.length)
    (hsub : ∀ n, (fs.find? n).isSome = true → (gs.find? n).isSome = true) (n : String) :
    (fs.find? n).isSome = (gs.find? n).isSome := by
  rw [Bool.eq_iff_iff]
  refine ⟨hsub n, fun h => ?_⟩
  rw [FieldList.find?_isSome_iff] at h ⊢
  refine subset_of_nodup_of_length_le fs.names gs.names (wfFields_nodup fs hw) ?_ ?_ n h
  · intro a ha
    rw [← FieldList.find?_isSome_iff] at ha ⊢
    exact hsub a ha
  · rw [FieldList.length_names, FieldList.length_names, hl]; exact Nat.le_refl _

/-! ### `StructEq` is an equivalence relation (no well-formedness needed) -/

mutual
theorem StructEq.refl : ∀ a, StructEq a a
  | .top => .top | .bot => .bot | .var n => .var n | .num => .num | .str => .str
  | .bool => .bool | .time => .time
  | .tuple ts => .tuple (StructEqList.refl ts)
  | .list a => .list (StructEq.refl a)
  | .map k v => .map (StructEq.refl k) (StructEq.refl v)
  | .obj fs => .obj rfl (fun _ => rfl) (fun n t u h1 h2 => by
      have : t = u := by simpa [h1] using h2
      subst this
      exact StructEq.reflFields fs n t h1)
  | .fn _ ps r => .fn (StructEqList.refl ps) (StructEq.refl r)
  | .maybe a => .maybe (StructEq.refl a)
theorem StructEqList.refl : ∀ xs, StructEqList xs xs
  | .nil => .nil
  | .cons t ts => .cons (StructEq.refl t) (StructEqList.refl ts)
theorem StructEq.reflFields : ∀ (fs : FieldList) n t, fs.find? n = some t → StructEq t t
  | .nil, n, t, h => by simp [FieldList.find?] at h
  | .cons m t' fs, n, t, h => by
    simp only [FieldList.find?] at h
    split at h
    · cases h; exact StructEq.refl t'
    · exact StructEq.reflFields fs n t h
end

mutual
theorem StructEq.symm : ∀ a b, StructEq a b → StructEq b a
  | .top, _, h => by cases h; exact .top
  | .bot, _, h => by cases h; exact .bot
  | .var _, _, h => by cases h; exact .var _
  | .num, _, h => by cases h; exact .num
  | .str, _, h => by cases h; exact .str
  | .bool, _, h => by cases h; exact .bool
  | .time, _, h => by cases h; exact .time
  | .tuple xs, _, h => by
    cases h with | tuple h => exact .tuple (StructEqList.symm xs _ h)
  | .list a, _, h => by
    cases h with | list h => exact .list (StructEq.symm a _ h)
  | .map k v, _, h => by
    cases h with | map h1 h2 => exact .map (StructEq.symm k _ h1) (StructEq.symm v _ h2)
  | .obj fs, _, h => by
    cases h with
    | obj hl hs hr =>
      exact .obj hl.symm (fun n => (hs n).symm)
        (fun n u t hu ht => StructEq.symmFields fs n t ht u (hr n t u ht hu))
  | .fn _ ps r, _, h => by
    cases h with | fn h1 h2 => exact .fn (StructEqList.symm ps _ h1) (StructEq.symm r _ h2)
  | .maybe a, _, h => by
    cases h with | maybe h => exact .maybe (StructEq.symm a _ h)
theorem StructEqList.symm : ∀ xs ys, StructEqList xs ys → StructEqList ys xs
  | .nil, _, h => by cases h; exact .nil
  | .cons x xs, _, h => by
    cases h with | cons h1 h2 => exact .cons (StructEq.symm x _ h1) (StructEqList.symm xs _ h2)
theorem StructEq.symmFields : ∀ (fs : FieldList) n t, fs.find? n = some t →
    ∀ u, StructEq t u → StructEq u t
  | .nil, n, t, h, _, _ => by simp [FieldList.find?] at h
  | .cons m t' fs, n, t, h, u, hu => by
    simp only [FieldList.find?] at h
    split at h
    · cases h; exact StructEq.symm t' u hu
    · exact StructEq.symmFields fs n t h u hu
end

mutual
theorem StructEq.trans : ∀ a b c, StructEq a b → StructEq b c → StructEq a c
  | .top, _, _, h, h' => by cases h; exact h'
  | .bot, _, _, h, h' => by cases h; exact h'
  | .var _, _, _, h, h' => by cases h; exact h'
  | .num, _, _, h, h' => by cases h; exact h'
  | .str, _, _, h, h' => by cases h; exact h'
  | .bool, _, _, h, h' => by cases h; exact h'
  | .time, _, _, h, h' => by cases h; exact h'
  | .tuple xs, _, _, h, h' => by
    cases h with | tuple h => cases h' with | tuple h' =>
      exact .tuple (StructEqList.trans xs _ _ h h')
  | .list a, _, _, h, h' => by
    cases h with | list h => cases h' with | list h' =>
      exact .list (StructEq.trans a _ _ h h')
  | .map k v, _, _, h, h' => by
    cases h with | map h1 h2 => cases h' with | map h1' h2' =>
      exact .map (StructEq.trans k _ _ h1 h1') (StructEq.trans v _ _ h2 h2')
  | .obj fs, _, _, h, h' => by
    cases h with | obj hl hs hr => cases h' with | obj hl' hs' hr' =>
      rename_i gs hs_
      refine .obj (hl.trans hl') (fun n => (hs n).trans (hs' n)) ?_
      intro n t v ht hv
      have hsome : (gs.find? n).isSome = true := by rw [← hs n, ht]; rfl
      obtain ⟨u, hu⟩ := Option.isSome_iff_exists.1 hsome
      exact StructEq.transFields fs n t ht u v (hr n t u ht hu) (hr' n u v hu hv)
  | .fn _ ps r, _, _, h, h' => by
    cases h with | fn h1 h2 => cases h' with | fn h1' h2' =>
      exact .fn (StructEqList.trans ps _ _ h1 h1') (StructEq.trans r _ _ h2 h2')
  | .maybe a, _, _, h, h' => by
    cases h with | maybe h => cases h' with | maybe h' =>
      exact .maybe (StructEq.trans a _ _ h h')
theorem StructEqList.trans : ∀ xs ys zs, StructEqList xs ys → StructEqList ys zs →
    StructEqList xs zs
  | .nil, _, _, h, h' => by cases h; exact h'
  | .cons x xs, _, _, h, h' => by
    cases h with | cons h1 h2 => cases h' with | cons h1' h2' =>
      exact .cons (StructEq.trans x _ _ h1 h1') (StructEqList.trans xs _ _ h2 h2')
theorem StructEq.transFields : ∀ (fs : FieldList) n t, fs.find? n = some t →
    ∀ u v, StructEq t u → StructEq u v → StructEq t v
  | .nil, n, t, h, _, _, _, _ => by simp [FieldList.find?] at h
  | .cons m t' fs, n, t, h, u, v, hu, hv => by
    simp only [FieldList.find?] at h
    split at h
    · cases h; exact StructEq.trans t' u v hu hv
    · exact StructEq.transFields fs n t h u v hu hv
end

/-! ### `tyEq` decides `StructEq` on well-formed left arguments -/

mutual
theorem tyEq_sound : ∀ a b, a.wf = true → tyEq a b = true → StructEq a b
  | .top, b, _, h => by cases b <;> simp [tyEq] at h; exact .top
  | .bot, b, _, h => by cases b <;> simp [tyEq] at h; exact .bot
  | .var n, b, _, h => by cases b <;> simp [tyEq] at h; subst h; exact .var _
  | .num, b, _, h => by cases b <;> simp [tyEq] at h; exact .num
  | .str, b, _, h => by cases b <;> simp [tyEq] at h; exact .str
  | .bool, b, _, h => by cases b <;> simp [tyEq] at h; exact .bool
  | .time, b, _, h => by cases b <;> simp [tyEq] at h; exact .time
  | .tuple xs, b, hw, h => by
    cases b with
    | tuple ys =>
      exact .tuple (tyEqList_sound xs ys (by simpa [Ty.wf] using hw) (by simpa [tyEq] using h))
    | _ => simp [tyEq] at h
  | .list a, b, hw, h => by
    cases b with
    | list b =>
      exact .list (tyEq_sound a b (by simpa [Ty.wf] using hw) (by simpa [tyEq] using h))
    | _ => simp [tyEq] at h
  | .map k v, b, hw, h => by
    cases b with
    | map k' v' =>
      simp only [Ty.wf, Bool.and_eq_true] at hw
      simp only [tyEq, Bool.and_eq_true] at h
      exact .map (tyEq_sound k k' hw.1.2 h.1) (tyEq_sound v v' hw.2 h.2)
    | _ => simp [tyEq] at h
  | .obj fs, b, hw, h => by
    cases b with
    | obj gs =>
      simp only [Ty.wf] at hw
      simp only [tyEq, Bool.and_eq_true, beq_iff_eq] at h
      have key := tyEqFields_sound fs gs hw h.2
      refine .obj h.1 (find?_isSome_eq_of_sub hw h.1 ?_) ?_
      · intro n hn
        obtain ⟨t, ht⟩ := Option.isSome_iff_exists.1 hn
        obtain ⟨u, hu, _⟩ := key n t ht
        simp [hu]
      · intro n t u ht hu
        obtain ⟨u', hu', hr⟩ := key n t ht
        have : u = u' := by simpa [hu] using hu'
        subst this; exact hr
    | _ => simp [tyEq] at h
  | .fn _ ps r, b, hw, h => by
    cases b with
    | fn _ qs s =>
      simp only [Ty.wf, Bool.and_eq_true] at hw
      simp only [tyEq, Bool.and_eq_true] at h
      exact .fn (tyEqList_sound ps qs hw.1 h.1) (tyEq_sound r s hw.2 h.2)
    | _ => simp [tyEq] at h
  | .maybe a, b, hw, h => by
    cases b with
    | maybe b =>
      exact .maybe (tyEq_sound a b (by simpa [Ty.wf] using hw) (by simpa [tyEq] using h))
    | _ => simp [tyEq] at h
theorem tyEqList_sound : ∀ xs ys, wfList xs = true → tyEqList xs ys = true → StructEqList xs ys
  | .nil, ys, _, h => by cases ys <;> simp [tyEqList] at h; exact .nil
  | .cons x xs, ys, hw, h => by
    cases ys with
    | nil => simp [tyEqList] at h
    | cons y ys =>
      simp only [wfList, Bool.and_eq_true] at hw
      simp only [tyEqList, Bool.and_eq_true] at h
      exact .cons (tyEq_sound x y hw.1 h.1) (tyEqList_sound xs ys hw.2 h.2)
theorem tyEqFields_sound : ∀ (fs gs : FieldList), wfFields fs = true → tyEqFields fs gs = true →
    ∀ n t, fs.find? n = some t → ∃ u, gs.find? n = some u ∧ StructEq t u
  | .nil, _, _, _, n, t, hf => by simp [FieldList.find?] at hf
  | .cons m t' fs, gs, hw, h, n, t, hf => by
    simp only [tyEqFields, Bool.and_eq_true] at h
    simp only [wfFields, Bool.and_eq_true] at hw
    simp only [FieldList.find?] at hf
    split at hf
    · next hmn =>
      cases hf; subst hmn
      obtain ⟨h1, _⟩ := h
      split at h1
      · next u hu => exact ⟨u, hu, tyEq_sound t' u hw.1.2 h1⟩
      · cases h1
    · exact tyEqFields_sound fs gs hw.2 h.2 n t hf
end

mutual
theorem tyEq_complete : ∀ a b, a.wf = true → StructEq a b → tyEq a b = true
  | .top, _, _, h => by cases h; rfl
  | .bot, _, _, h => by cases h; rfl
  | .var _, _, _, h => by cases h; simp [tyEq]
  | .num, _, _, h => by cases h; rfl
  | .str, _, _, h => by cases h; rfl
  | .bool, _, _, h => by cases h; rfl
  | .time, _, _, h => by cases h; rfl
  | .tuple xs, _, hw, h => by
    cases h with | tuple h =>
      simpa [tyEq] using tyEqList_complete xs _ (by simpa [Ty.wf] using hw) h
  | .list a, _, hw, h => by
    cases h with | list h =>
      simpa [tyEq] using tyEq_complete a _ (by simpa [Ty.wf] using hw) h
  | .map k v, _, hw, h => by
    cases h with | map h1 h2 =>
      simp only [Ty.wf, Bool.and_eq_true] at hw
      simp only [tyEq, Bool.and_eq_true]
      exact ⟨tyEq_complete k _ hw.1.2 h1, tyEq_complete v _ hw.2 h2⟩
  | .obj fs, _, hw, h => by
    cases h with | obj hl hs hr =>
      rename_i gs
      simp only [Ty.wf] at hw
      simp only [tyEq, Bool.and_eq_true, beq_iff_eq]
      refine ⟨hl, tyEqFields_complete fs gs hw ?_⟩
      intro n t ht
      have hsome : (gs.find? n).isSome = true := by rw [← hs n, ht]; rfl
      obtain ⟨u, hu⟩ := Option.isSome_iff_exists.1 hsome
      exact ⟨u, hu, hr n t u ht hu⟩
  | .fn _ ps r, _, hw, h => by
    cases h with | fn h1 h2 =>
      simp only [Ty.wf, Bool.and_eq_true] at hw
      simp only [tyEq, Bool.and_eq_true]
      exact ⟨tyEqList_complete ps _ hw.1 h1, tyEq_complete r _ hw.2 h2⟩
  | .maybe a, _, hw, h => by
    cases h with | maybe h =>
      simpa [tyEq] using tyEq_complete a _ (by simpa [Ty.wf] using hw) h
theorem tyEqList_complete : ∀ xs ys, wfList xs = true → StructEqList xs ys →
    tyEqList xs ys = true
  | .nil, _, _, h => by cases h; rfl
  | .cons x xs, _, hw, h => by
    cases h with | cons h1 h2 =>
      simp only [wfList, Bool.and_eq_true] at hw
      simp only [tyEqList, Bool.and_eq_true]
      exact ⟨tyEq_complete x _ hw.1 h1, tyEqList_complete xs _ hw.2 h2⟩
theorem tyEqFields_complete : ∀ (fs gs : FieldList), wfFields fs = true →
    (∀ n t, fs.find? n = some t → ∃ u, gs.find? n = some u ∧ StructEq t u) →
    tyEqFields fs gs = true
  | .nil, _, _, _ => rfl
  | .cons m t fs, gs, hw, h => by
    simp only [wfFields, Bool.and_eq_true] at hw
    simp only [tyEqFields, Bool.and_eq_true]
    constructor
    · obtain ⟨u, hu, hr⟩ := h m t (FieldList.find?_cons_self m t fs)
      simp only [hu]
      exact tyEq_complete t u hw.1.2 hr
    · refine tyEqFields_complete fs gs hw.2 (fun n t' ht' => h n t' ?_)
      have hne : m ≠ n := by
        rintro rfl
        have := hw.1.1
        simp [ht'] at this
      rw [FieldList.find?_cons_ne t fs hne]; exact ht'
end

/-- `tyEq` holds exactly for structurally identical types (left argument well formed). -/
theorem tyEq_iff_structEq' {a b : Ty} (ha : a.wf = true) : tyEq a b = true ↔ StructEq a b :=
  ⟨tyEq_sound a b ha, tyEq_complete a b ha⟩

theorem tyEq_refl' {t : Ty} (h : t.wf = true) : tyEq t t = true :=
  tyEq_complete t t h (StructEq.refl t)

theorem tyEq_symm' {a b : Ty} (ha : a.wf = true) (hb : b.wf = true) : tyEq a b = tyEq b a := by
  rw [Bool.eq_iff_iff, tyEq_iff_structEq' ha, tyEq_iff_structEq' hb]
  exact ⟨StructEq.symm a b, StructEq.symm b a⟩

theorem tyEq_trans' {a b c : Ty} (ha : a.wf = true) (hb : b.wf = true)
    (h1 : tyEq a b = true) (h2 : tyEq b c = true) : tyEq a c = true :=
  tyEq_complete a c ha (StructEq.trans a b c (tyEq_sound a b ha h1) (tyEq_sound b c hb h2))

/-! ### `Except` plumbing -/

theorem UM.bind_eq_ok {α β : Type} {a : UM α} {f : α → UM β} {v : β} :
    (a >>= f) = .ok v ↔ ∃ x, a = .ok x ∧ f x = .ok v := by
  cases a <;> simp [bind, Except.bind]

theorem UM.bind_eq_error {α β : Type} {a : UM α} {f : α → UM β} {e : UErr} :
    (a >>= f) = .error e ↔ a = .error e ∨ ∃ x, a = .ok x ∧ f x = .error e := by
  cases a <;> simp [bind, Except.bind]

@[simp] theorem UM.ok_bind {α β : Type} (x : α) (f : α → UM β) :
    ((Except.ok x : UM α) >>= f) = f x := rfl

@[simp] theorem UM.pure_eq_ok {α : Type} {x v : α} : (pure x : UM α) = .ok v ↔ x = v := by
  simp [pure, Except.pure]

@[simp] theorem UM.throw_ne_ok {α : Type} {e : UErr} {v : α} : (throw e : UM α) ≠ .ok v := by
  simp [throw, throwThe, MonadExceptOf.throw]

@[simp] theorem UM.pure_ne_error {α : Type} {x : α} {e : UErr} : (pure x : UM α) ≠ .error e := by
  simp [pure, Except.pure]

@[simp] theorem UM.throw_eq_error {α : Type} {e e' : UErr} :
    (throw e : UM α) = .error e' ↔ e = e' := by
  show (Except.error e : Except UErr α) = .error e' ↔ e = e'
  exact ⟨fun h => by cases h; rfl, fun h => by rw [h]⟩

theorem mkMap_eq_ok {k v t : Ty} : mkMap k v = .ok t ↔ k.keyable = true ∧ t = .map k v := by
  unfold mkMap
  split
  · next h =>
    simp only [h, true_and]
    show (Except.ok (k.map v) : Except UErr Ty) = .ok t ↔ _
    exact ⟨fun h => by cases h; rfl, fun h => by rw [h]⟩
  · next h => simp [h]

theorem mkMap_ne_fuel {k v : Ty} : mkMap k v ≠ .error .fuel := by
  unfold mkMap
  split <;> simp

/-! ### substitutions -/

theorem Subst.get?_set_self : ∀ (m : Subst) (n : String) (t : Ty), (m.set n t).get? n = some t
  | [], n, t => by simp [Subst.set, Subst.get?]
  | (k, v) :: rest, n, t => by
    simp only [Subst.set]
    split
    · next h => simp [Subst.get?, h]
    · next h => simp [Subst.get?, h, Subst.get?_set_self rest n t]

theorem Subst.get?_set_ne : ∀ (m : Subst) (n n' : String) (t : Ty), n ≠ n' →
    (m.set n t).get? n' = m.get? n'
  | [], n, n', t, h => by simp [Subst.set, Subst.get?, h]
  | (k, v) :: rest, n, n', t, h => by
    simp only [Subst.set]
    split
    · next hk => subst hk; simp [Subst.get?, h]
    · next hk =>
      simp only [Subst.get?]
      split
      · rfl
      · exact Subst.get?_set_ne rest n n' t h

/-- Range of the substitution: variable-free, well-formed types. -/
def Subst.Ground (m : Subst) : Prop :=
  ∀ n k, m.get? n = some k → slotFree k = true ∧ k.wf = true

/-- `m'` keeps every binding of `m`, up to structural equality. -/
def Subst.le (m m' : Subst) : Prop :=
  ∀ n k, m.get? n = some k → ∃ k', m'.get? n = some k' ∧ StructEq k k'

theorem Subst.le_refl (m : Subst) : m.le m := fun _ k h => ⟨k, h, StructEq.refl k⟩

theorem Subst.le_trans {a b c : Subst} (h1 : a.le b) (h2 : b.le c) : a.le c := by
  intro n k hk
  obtain ⟨k', hk', e1⟩ := h1 n k hk
  obtain ⟨k'', hk'', e2⟩ := h2 n k' hk'
  exact ⟨k'', hk'', StructEq.trans _ _ _ e1 e2⟩

theorem Subst.ground_nil : Subst.Ground [] := by
  intro n k h; simp [Subst.get?] at h

theorem Subst.ground_set {m : Subst} {n : String} {t : Ty} (hm : m.Ground)
    (h1 : slotFree t = true) (h2 : t.wf = true) : (m.set n t).Ground := by
  intro n' k hk
  by_cases hn : n = n'
  · subst hn; rw [Subst.get?_set_self] at hk; cases hk; exact ⟨h1, h2⟩
  · rw [Subst.get?_set_ne _ _ _ _ hn] at hk; exact hm n' k hk

theorem Subst.le_set {m : Subst} {n : String} {t : Ty}
    (h : ∀ k, m.get? n = some k → StructEq k t) : m.le (m.set n t) := by
  intro n' k hk
  by_cases hn : n = n'
  · subst hn; exact ⟨t, Subst.get?_set_self _ _ _, h k hk⟩
  · exact ⟨k, by rw [Subst.get?_set_ne _ _ _ _ hn]; exact hk, StructEq.refl k⟩

mutual
/-- One-step substitution without the `types.Map` key assertion (what `applySubst` computes
when it succeeds and the range of `m` is variable free). -/
def substG (m : Subst) : Ty → Ty
  | .var n => match m.get? n with
    | some r => r
    | none => .var n
  | .list el => .list (substG m el)
  | .map k v => .map (substG m k) (substG m v)
  | .tuple ts => .tuple (substGList m ts)
  | .obj fs => .obj (substGFields m fs)
  | .fn name ps r => .fn name (substGList m ps) (substG m r)
  | .maybe el => .maybe (substG m el)
  | .top => .top | .bot => .bot | .num => .num | .str => .str | .bool => .bool | .time => .time
def substGList (m : Subst) : TyList → TyList
  | .nil => .nil
  | .cons t ts => .cons (substG m t) (substGList m ts)
def substGFields (m : Subst) : FieldList → FieldList
  | .nil => .nil
  | .cons n t fs => .cons n (substG m t) (substGFields m fs)
end

theorem length_substGFields (m : Subst) : ∀ fs, (substGFields m fs).length = fs.length
  | .nil => rfl
  | .cons _ _ fs => by simp [substGFields, FieldList.length, length_substGFields m fs]

theorem length_substGList (m : Subst) : ∀ ts, (substGList m ts).length = ts.length
  | .nil => rfl
  | .cons _ ts => by simp [substGList, TyList.length, length_substGList m ts]

theorem find?_substGFields (m : Subst) : ∀ (fs : FieldList) (n : String),
    (substGFields m fs).find? n = (fs.find? n).map (substG m)
  | .nil, n => rfl
  | .cons k t fs, n => by
    simp only [substGFields, FieldList.find?]
    split
    · rfl
    · exact find?_substGFields m fs n

theorem find?_substGFields_some {m : Subst} {fs : FieldList} {n : String} {t' : Ty}
    (h : (substGFields m fs).find? n = some t') : ∃ t, fs.find? n = some t ∧ t' = substG m t := by
  rw [find?_substGFields] at h
  cases hf : fs.find? n with
  | none => simp [hf] at h
  | some t => simp [hf] at h; exact ⟨t, rfl, h.symm⟩

theorem slotFreeFields_find : ∀ (fs : FieldList) (n : String) (t : Ty),
    slotFreeFields fs = true → fs.find? n = some t → slotFree t = true
  | .nil, n, t, _, h => by simp [FieldList.find?] at h
  | .cons m t' fs, n, t, hw, h => by
    simp only [slotFreeFields, Bool.and_eq_true] at hw
    simp only [FieldList.find?] at h
    split at h
    · cases h; exact hw.1
    · exact slotFreeFields_find fs n t hw.2 h

mutual
theorem substG_ground (m : Subst) : ∀ t, slotFree t = true → substG m t = t
  | .var _, h => by simp [slotFree] at h
  | .top, _ | .bot, _ | .num, _ | .str, _ | .bool, _ | .time, _ => rfl
  | .tuple ts, h => by
    simp only [slotFree] at h; simp only [substG, substGList_ground m ts h]
  | .list a, h => by
    simp only [slotFree] at h; simp only [substG, substG_ground m a h]
  | .map k v, h => by
    simp only [slotFree, Bool.and_eq_true] at h
    simp only [substG, substG_ground m k h.1, substG_ground m v h.2]
  | .obj fs, h => by
    simp only [slotFree] at h; simp only [substG, substGFields_ground m fs h]
  | .fn _ ps r, h => by
    simp only [slotFree, Bool.and_eq_true] at h
    simp only [substG, substGList_ground m ps h.1, substG_ground m r h.2]
  | .maybe a, h => by
    simp only [slotFree] at h; simp only [substG, substG_ground m a h]
theorem substGList_ground (m : Subst) : ∀ ts, slotFreeList ts = true → substGList m ts = ts
  | .nil, _ => rfl
  | .cons t ts, h => by
    simp only [slotFreeList, Bool.and_eq_true] at h
    simp only [substGList, substG_ground m t h.1, substGList_ground m ts h.2]
theorem substGFields_ground (m : Subst) : ∀ fs, slotFreeFields fs = true → substGFields m fs = fs
  | .nil, _ => rfl
  | .cons n t fs, h => by
    simp only [slotFreeFields, Bool.and_eq_true] at h
    simp only [substGFields, substG_ground m t h.1, substGFields_ground m fs h.2]
end

/-! ### `applySubst` against `substG` -/

mutual
theorem applySubst_ground (f : Nat) (m : Subst) : ∀ t t', slotFree t = true →
    applySubst f m t = .ok t' → t' = t
  | .var _, _, h, _ => by simp [slotFree] at h
  | .top, _, _, h | .bot, _, _, h | .num, _, _, h | .str, _, _, h | .bool, _, _, h
  | .time, _, _, h => by
    simp [applySubst] at h; exact h.symm
  | .tuple ts, t', hs, h => by
    simp only [slotFree] at hs
    simp only [applySubst, UM.bind_eq_ok, UM.pure_eq_ok] at h
    obtain ⟨x, hx, rfl⟩ := h
    rw [applySubstList_ground f m ts x hs hx]
  | .list a, t', hs, h => by
    simp only [slotFree] at hs
    simp only [applySubst, UM.bind_eq_ok, UM.pure_eq_ok] at h
    obtain ⟨x, hx, rfl⟩ := h
    rw [applySubst_ground f m a x hs hx]
  | .map k v, t', hs, h => by
    simp only [slotFree, Bool.and_eq_true] at hs
    simp only [applySubst, UM.bind_eq_ok, mkMap_eq_ok] at h
    obtain ⟨x, hx, y, hy, _, rfl⟩ := h
    rw [applySubst_ground f m k x hs.1 hx, applySubst_ground f m v y hs.2 hy]
  | .obj fs, t', hs, h => by
    simp only [slotFree] at hs
    simp only [applySubst, UM.bind_eq_ok, UM.pure_eq_ok] at h
    obtain ⟨x, hx, rfl⟩ := h
    rw [applySubstFields_ground f m fs x hs hx]
  | .fn _ ps r, t', hs, h => by
    simp only [slotFree, Bool.and_eq_true] at hs
    simp only [applySubst, UM.bind_eq_ok, UM.pure_eq_ok] at h
    obtain ⟨x, hx, y, hy, rfl⟩ := h
    rw [applySubstList_ground f m ps x hs.1 hx, applySubst_ground f m r y hs.2 hy]
  | .maybe a, t', hs, h => by
    simp only [slotFree] at hs
    simp only [applySubst, UM.bind_eq_ok, UM.pure_eq_ok] at h
    obtain ⟨x, hx, rfl⟩ := h
    rw [applySubst_ground f m a x hs hx]
theorem applySubstList_ground (f : Nat) (m : Subst) : ∀ ts ts', slotFreeList ts = true →
    applySubstList f m ts = .ok ts' → ts' = ts
  | .nil, _, _, h => by simp [applySubstList] at h; exact h.symm
  | .cons t ts, _, hs, h => by
    simp only [slotFreeList, Bool.and_eq_true] at hs
    simp only [applySubstList, UM.bind_eq_ok, UM.pure_eq_ok] at h
    obtain ⟨x, hx, y, hy, rfl⟩ := h
    rw [applySubst_ground f m t x hs.1 hx, applySubstList_ground f m ts y hs.2 hy]
theorem applySubstFields_ground (f : Nat) (m : Subst) : ∀ fs fs', slotFreeFields fs = true →
    applySubstFields f m fs = .ok fs' → fs' = fs
  | .nil, _, _, h => by simp [applySubstFields] at h; exact h.symm
  | .cons n t fs, _, hs, h => by
    simp only [slotFreeFields, Bool.and_eq_true] at hs
    simp only [applySubstFields, UM.bind_eq_ok, UM.pure_eq_ok] at h
    obtain ⟨x, hx, y, hy, rfl⟩ := h
    rw [applySubst_ground f m t x hs.1 hx, applySubstFields_ground f m fs y hs.2 hy]
end

mutual
theorem applySubst_eq_substG (m : Subst) (hm : m.Ground) : ∀ (f : Nat) t t',
    applySubst f m t = .ok t' → t' = substG m t
  | f, .var n, t', h => by
    rw [applySubst.eq_1] at h
    simp only [substG]
    split at h
    · next hn => simp only [hn]; exact (UM.pure_eq_ok.1 h).symm
    · next r hn =>
      simp only [hn]
      have hr := (hm n r hn).1
      split at h
      · simp [slotFree] at hr
      · cases f with
        | zero => simp at h
        | succ f => exact applySubst_ground f m r t' hr h
  | _, .top, _, h | _, .bot, _, h | _, .num, _, h | _, .str, _, h | _, .bool, _, h
  | _, .time, _, h => by
    simp [applySubst] at h; exact h.symm
  | f, .tuple ts, t', h => by
    simp only [applySubst, UM.bind_eq_ok, UM.pure_eq_ok] at h
    obtain ⟨x, hx, rfl⟩ := h
    rw [applySubstList_eq_substG m hm f ts x hx, substG]
  | f, .list a, t', h => by
    simp only [applySubst, UM.bind_eq_ok, UM.pure_eq_ok] at h
    obtain ⟨x, hx, rfl⟩ := h
    rw [applySubst_eq_substG m hm f a x hx, substG]
  | f, .map k v, t', h => by
    simp only [applySubst, UM.bind_eq_ok, mkMap_eq_ok] at h
    obtain ⟨x, hx, y, hy, _, rfl⟩ := h
    rw [applySubst_eq_substG m hm f k x hx, applySubst_eq_substG m hm f v y hy, substG]
  | f, .obj fs, t', h => by
    simp only [applySubst, UM.bind_eq_ok, UM.pure_eq_ok] at h
    obtain ⟨x, hx, rfl⟩ := h
    rw [applySubstFields_eq_substG m hm f fs x hx, substG]
  | f, .fn _ ps r, t', h => by
    simp only [applySubst, UM.bind_eq_ok, UM.pure_eq_ok] at h
    obtain ⟨x, hx, y, hy, rfl⟩ := h
    rw [applySubstList_eq_substG m hm f ps x hx, applySubst_eq_substG m hm f r y hy, substG]
  | f, .maybe a, t', h => by
    simp only [applySubst, UM.bind_eq_ok, UM.pure_eq_ok] at h
    obtain ⟨x, hx, rfl⟩ := h
    rw [applySubst_eq_substG m hm f a x hx, substG]
theorem applySubstList_eq_substG (m : Subst) (hm : m.Ground) : ∀ (f : Nat) ts ts',
    applySubstList f m ts = .ok ts' → ts' = substGList m ts
  | _, .nil, _, h => by simp [applySubstList] at h; exact h.symm
  | f, .cons t ts, _, h => by
    simp only [applySubstList, UM.bind_eq_ok, UM.pure_eq_ok] at h
    obtain ⟨x, hx, y, hy, rfl⟩ := h
    rw [applySubst_eq_substG m hm f t x hx, applySubstList_eq_substG m hm f ts y hy, substGList]
theorem applySubstFields_eq_substG (m : Subst) (hm : m.Ground) : ∀ (f : Nat) fs fs',
    applySubstFields f m fs = .ok fs' → fs' = substGFields m fs
  | _, .nil, _, h => by simp [applySubstFields] at h; exact h.symm
  | f, .cons n t fs, _, h => by
    simp only [applySubstFields, UM.bind_eq_ok, UM.pure_eq_ok] at h
    obtain ⟨x, hx, y, hy, rfl⟩ := h
    rw [applySubst_eq_substG m hm f t x hx, applySubstFields_eq_substG m hm f fs y hy,
      substGFields]
end

/-! ### `Below`: `StructEq` relaxed by `⊤` on the left and `⊥` on the right -/

mutual
/-- `Below a b` (`a ⊑ b`): `StructEq` relaxed by "anything is below `⊥` on the right" and
"`⊤` on the left is below anything" (the two catch-all cases of `unify`).  Objects: same number
of fields and every left name is present on the right with related types (with distinct left
names this is the same set of names, `Below.obj_isSome_eq`). -/
inductive Below : Ty → Ty → Prop
  | botR (a : Ty) : Below a .bot
  | topL (b : Ty) : Below .top b
  | var (n : String) : Below (.var n) (.var n)
  | num : Below .num .num
  | str : Below .str .str
  | bool : Below .bool .bool
  | time : Below .time .time
  | tuple {xs ys} : BelowList xs ys → Below (.tuple xs) (.tuple ys)
  | list {a b} : Below a b → Below (.list a) (.list b)
  | map {k v k' v'} : Below k k' → Below v v' → Below (.map k v) (.map k' v')
  | obj {fs gs : FieldList} :
      fs.length = gs.length →
      (∀ n, (fs.find? n).isSome = true → (gs.find? n).isSome = true) →
      (∀ n t u, fs.find? n = some t → gs.find? n = some u → Below t u) →
      Below (.obj fs) (.obj gs)
  | fn {f g ps qs r s} : BelowList ps qs → Below r s → Below (.fn f ps r) (.fn g qs s)
  | maybe {a b} : Below a b → Below (.maybe a) (.maybe b)
inductive BelowList : TyList → TyList → Prop
  | nil : BelowList .nil .nil
  | cons {x y xs ys} : Below x y → BelowList xs ys → BelowList (.cons x xs) (.cons y ys)
end

@[inherit_doc] infix:50 " ⊑ " => Below

/-- with distinct names on the left, related objects have the same set of names -/
theorem Below.obj_isSome_eq {fs gs : FieldList} (h : Below (.obj fs) (.obj gs))
    (hw : wfFields fs = true) (n : String) : (fs.find? n).isSome = (gs.find? n).isSome := by
  cases h with
  | obj hl hs _ => exact find?_isSome_eq_of_sub hw hl hs n

mutual
/-- `Below` is closed under `StructEq` on the left. -/
theorem StructEq.thenBelow : ∀ a b c, StructEq a b → Below b c → Below a c
  | .top, _, _, h, h' => by cases h; exact .topL _
  | .bot, _, _, h, h' => by cases h; exact h'
  | .var _, _, _, h, h' => by cases h; exact h'
  | .num, _, _, h, h' => by cases h; exact h'
  | .str, _, _, h, h' => by cases h; exact h'
  | .bool, _, _, h, h' => by cases h; exact h'
  | .time, _, _, h, h' => by cases h; exact h'
  | .tuple xs, _, _, h, h' => by
    cases h with | tuple h => cases h' with
      | botR => exact .botR _
      | tuple h' => exact .tuple (StructEqList.thenBelow xs _ _ h h')
  | .list a, _, _, h, h' => by
    cases h with | list h => cases h' with
      | botR => exact .botR _
      | list h' => exact .list (StructEq.thenBelow a _ _ h h')
  | .map k v, _, _, h, h' => by
    cases h with | map h1 h2 => cases h' with
      | botR => exact .botR _
      | map h1' h2' =>
        exact .map (StructEq.thenBelow k _ _ h1 h1') (StructEq.thenBelow v _ _ h2 h2')
  | .obj fs, _, _, h, h' => by
    cases h with | obj hl hs hr => cases h' with
      | botR => exact .botR _
      | obj hl' hs' hr' =>
        rename_i gs hs_
        refine .obj (hl.trans hl') (fun n hn => hs' n (by rw [← hs n]; exact hn)) ?_
        intro n t v ht hv
        have hsome : (gs.find? n).isSome = true := by rw [← hs n, ht]; rfl
        obtain ⟨u, hu⟩ := Option.isSome_iff_exists.1 hsome
        exact StructEq.thenBelowFields fs n t ht u v (hr n t u ht hu) (hr' n u v hu hv)
  | .fn _ ps r, _, _, h, h' => by
    cases h with | fn h1 h2 => cases h' with
      | botR => exact .botR _
      | fn h1' h2' =>
        exact .fn (StructEqList.thenBelow ps _ _ h1 h1') (StructEq.thenBelow r _ _ h2 h2')
  | .maybe a, _, _, h, h' => by
    cases h with | maybe h => cases h' with
      | botR => exact .botR _
      | maybe h' => exact .maybe (StructEq.thenBelow a _ _ h h')
theorem StructEqList.thenBelow : ∀ xs ys zs, StructEqList xs ys → BelowList ys zs →
    BelowList xs zs
  | .nil, _, _, h, h' => by cases h; exact h'
  | .cons x xs, _, _, h, h' => by
    cases h with | cons h1 h2 => cases h' with | cons h1' h2' =>
      exact .cons (StructEq.thenBelow x _ _ h1 h1') (StructEqList.thenBelow xs _ _ h2 h2')
theorem StructEq.thenBelowFields : ∀ (fs : FieldList) n t, fs.find? n = some t →
    ∀ u v, StructEq t u → Below u v → Below t v
  | .nil, n, t, h, _, _, _, _ => by simp [FieldList.find?] at h
  | .cons m t' fs, n, t, h, u, v, hu, hv => by
    simp only [FieldList.find?] at h
    split at h
    · cases h; exact StructEq.thenBelow t' u v hu hv
    · exact StructEq.thenBelowFields fs n t h u v hu hv
end

mutual
theorem Below.refl : ∀ a, Below a a
  | .top => .topL _ | .bot => .botR _ | .var n => .var n | .num => .num | .str => .str
  | .bool => .bool | .time => .time
  | .tuple ts => .tuple (BelowList.refl ts)
  | .list a => .list (Below.refl a)
  | .map k v => .map (Below.refl k) (Below.refl v)
  | .obj fs => .obj rfl (fun _ h => h) (fun n t u h1 h2 => by
      have : t = u := by simpa [h1] using h2
      subst this
      exact Below.reflFields fs n t h1)
  | .fn _ ps r => .fn (BelowList.refl ps) (Below.refl r)
  | .maybe a => .maybe (Below.refl a)
theorem BelowList.refl : ∀ xs, BelowList xs xs
  | .nil => .nil
  | .cons t ts => .cons (Below.refl t) (BelowList.refl ts)
theorem Below.reflFields : ∀ (fs : FieldList) n t, fs.find? n = some t → Below t t
  | .nil, n, t, h => by simp [FieldList.find?] at h
  | .cons m t' fs, n, t, h => by
    simp only [FieldList.find?] at h
    split at h
    · cases h; exact Below.refl t'
    · exact Below.reflFields fs n t h
end

/-- `StructEq` is contained in `Below`. -/
theorem StructEq.toBelow {a b : Ty} (h : StructEq a b) : Below a b :=
  StructEq.thenBelow a b b h (Below.refl b)

/-! ### substitution and `Below` -/

mutual
/-- Growing the substitution keeps an instance below a variable-free type. -/
theorem substG_mono {m m' : Subst} (hle : m.le m') : ∀ p g, slotFree g = true →
    Below (substG m p) g → Below (substG m' p) g
  | .var n, g, hg, h => by
    simp only [substG] at h ⊢
    cases hn : m.get? n with
    | none =>
      simp only [hn] at h
      cases h with
      | botR => exact .botR _
      | var => simp [slotFree] at hg
    | some k =>
      obtain ⟨k', hk', e⟩ := hle n k hn
      simp only [hn] at h
      simp only [hk']
      exact StructEq.thenBelow k' k g (StructEq.symm _ _ e) h
  | .top, _, _, h | .bot, _, _, h | .num, _, _, h | .str, _, _, h | .bool, _, _, h
  | .time, _, _, h => by
    simp only [substG] at h ⊢; exact h
  | .tuple ts, g, hg, h => by
    simp only [substG] at h ⊢
    cases h with
    | botR => exact .botR _
    | tuple h => exact .tuple (substG_monoList hle ts _ (by simpa [slotFree] using hg) h)
  | .list a, g, hg, h => by
    simp only [substG] at h ⊢
    cases h with
    | botR => exact .botR _
    | list h => exact .list (substG_mono hle a _ (by simpa [slotFree] using hg) h)
  | .map k v, g, hg, h => by
    simp only [substG] at h ⊢
    cases h with
    | botR => exact .botR _
    | map h1 h2 =>
      simp only [slotFree, Bool.and_eq_true] at hg
      exact .map (substG_mono hle k _ hg.1 h1) (substG_mono hle v _ hg.2 h2)
  | .obj fs, g, hg, h => by
    simp only [substG] at h ⊢
    cases h with
    | botR => exact .botR _
    | obj hl hs hr =>
      rename_i gs
      simp only [slotFree] at hg
      refine .obj (by rw [length_substGFields] at hl ⊢; exact hl)
        (fun n hn => hs n (by rw [find?_substGFields] at hn ⊢; simpa using hn)) ?_
      intro n t' u ht' hu
      obtain ⟨t, ht, rfl⟩ := find?_substGFields_some ht'
      exact substG_monoFields hle fs n t ht u (slotFreeFields_find gs n u hg hu)
        (hr n (substG m t) u (by rw [find?_substGFields, ht]; rfl) hu)
  | .fn _ ps r, g, hg, h => by
    simp only [substG] at h ⊢
    cases h with
    | botR => exact .botR _
    | fn h1 h2 =>
      simp only [slotFree, Bool.and_eq_true] at hg
      exact .fn (substG_monoList hle ps _ hg.1 h1) (substG_mono hle r _ hg.2 h2)
  | .maybe a, g, hg, h => by
    simp only [substG] at h ⊢
    cases h with
    | botR => exact .botR _
    | maybe h => exact .maybe (substG_mono hle a _ (by simpa [slotFree] using hg) h)
theorem substG_monoList {m m' : Subst} (hle : m.le m') : ∀ ps gs, slotFreeList gs = true →
    BelowList (substGList m ps) gs → BelowList (substGList m' ps) gs
  | .nil, _, _, h => by simp only [substGList] at h ⊢; exact h
  | .cons p ps, _, hg, h => by
    simp only [substGList] at h ⊢
    cases h with
    | cons h1 h2 =>
      simp only [slotFreeList, Bool.and_eq_true] at hg
      exact .cons (substG_mono hle p _ hg.1 h1) (substG_monoList hle ps _ hg.2 h2)
theorem substG_monoFields {m m' : Subst} (hle : m.le m') : ∀ (fs : FieldList) n t,
    fs.find? n = some t → ∀ u, slotFree u = true → Below (substG m t) u → Below (substG m' t) u
  | .nil, n, t, h, _, _, _ => by simp [FieldList.find?] at h
  | .cons k t' fs, n, t, h, u, hu, hb => by
    simp only [FieldList.find?] at h
    split at h
    · cases h; exact substG_mono hle t' u hu hb
    · exact substG_monoFields hle fs n t h u hu hb
end

mutual
/-- Substituting first with an earlier substitution changes nothing up to `StructEq`. -/
theorem substG_substG {m m1 : Subst} (hm : m.Ground) (hle : m.le m1) : ∀ p,
    StructEq (substG m1 (substG m p)) (substG m1 p)
  | .var n => by
    cases hn : m.get? n with
    | none => simp only [substG, hn]; exact StructEq.refl _
    | some k =>
      obtain ⟨k', hk', e⟩ := hle n k hn
      simp only [substG, hn, hk']
      rw [substG_ground m1 k (hm n k hn).1]; exact e
  | .top | .bot | .num | .str | .bool | .time => by simp only [substG]; exact StructEq.refl _
  | .tuple ts => by simp only [substG]; exact .tuple (substG_substGList hm hle ts)
  | .list a => by simp only [substG]; exact .list (substG_substG hm hle a)
  | .map k v => by
    simp only [substG]; exact .map (substG_substG hm hle k) (substG_substG hm hle v)
  | .obj fs => by
    simp only [substG]
    refine .obj (by simp only [length_substGFields]) (fun n => by
      simp only [find?_substGFields, Option.isSome_map]) ?_
    intro n t' u' ht' hu'
    obtain ⟨t1, ht1, rfl⟩ := find?_substGFields_some ht'
    obtain ⟨t, ht, rfl⟩ := find?_substGFields_some ht1
    obtain ⟨t2, ht2, rfl⟩ := find?_substGFields_some hu'
    have : t = t2 := by simpa [ht] using ht2
    subst this
    exact substG_substGFields hm hle fs n t ht
  | .fn _ ps r => by
    simp only [substG]; exact .fn (substG_substGList hm hle ps) (substG_substG hm hle r)
  | .maybe a => by simp only [substG]; exact .maybe (substG_substG hm hle a)
theorem substG_substGList {m m1 : Subst} (hm : m.Ground) (hle : m.le m1) : ∀ ps,
    StructEqList (substGList m1 (substGList m ps)) (substGList m1 ps)
  | .nil => by simp only [substGList]; exact .nil
  | .cons p ps => by
    simp only [substGList]; exact .cons (substG_substG hm hle p) (substG_substGList hm hle ps)
theorem substG_substGFields {m m1 : Subst} (hm : m.Ground) (hle : m.le m1) :
    ∀ (fs : FieldList) n t, fs.find? n = some t →
      StructEq (substG m1 (substG m t)) (substG m1 t)
  | .nil, n, t, h => by simp [FieldList.find?] at h
  | .cons k t' fs, n, t, h => by
    simp only [FieldList.find?] at h
    split at h
    · cases h; exact substG_substG hm hle t'
    · exact substG_substGFields hm hle fs n t h
end

/-! ### `unify` against a variable-free right-hand side: characterisation -/

theorem slotFree_kind {g : Ty} (h : slotFree g = true) : g.kind ≠ .tyvar := by
  cases g <;> simp [slotFree, Ty.kind] at h ⊢

theorem unify_var_left (f : Nat) (xn : String) (y : Ty) (m : Subst) (hy : y.kind ≠ .tyvar) :
    unify (f+1) (.var xn) y m = (do
      let y1 ← applySubst f m y
      if freeFrom xn y1 then
        match m.get? xn with
        | some k => if !tyEq k y1 then throw .fail else pure (y1, m.set xn y1)
        | none => pure (y1, m.set xn y1)
      else throw .fail) := by
  cases y <;> first
    | (exfalso; exact hy rfl)
    | (simp [unify, Ty.isPrimitive, Ty.isComposite, Ty.kind, Kind.isPrimitive,
        Kind.isComposite] <;> rfl)

theorem unify_nonvar (f : Nat) (x y : Ty) (m : Subst) (hx : x.kind ≠ .tyvar)
    (hy : y.kind ≠ .tyvar) :
    unify (f+1) x y m =
      if x.isPrimitive && y.isPrimitive && x.kind == y.kind then pure (x, m)
      else if x.isComposite && y.isComposite && x.kind == y.kind then unifyComposite f x y m
      else if y.kind == .bot || x.kind == .top then pure (x, m)
      else throw .fail := by
  cases x <;> first
    | (exfalso; exact hx rfl)
    | (cases y <;> first
        | (exfalso; exact hy rfl)
        | (simp [unify, Ty.isPrimitive, Ty.isComposite, Ty.kind, Kind.isPrimitive,
            Kind.isComposite] <;> rfl))

theorem prim_below (m : Subst) {p g : Ty}
    (h : (p.isPrimitive && g.isPrimitive && p.kind == g.kind) = true) :
    Below (substG m p) g := by
  cases p <;> cases g <;>
    simp [Ty.isPrimitive, Ty.kind, Kind.isPrimitive] at h <;>
    simp only [substG] <;> constructor

theorem botTop_below (m : Subst) {p g : Ty} (h : (g.kind == .bot || p.kind == .top) = true) :
    Below (substG m p) g := by
  simp only [Bool.or_eq_true, beq_iff_eq] at h
  rcases h with h | h
  · cases g <;> simp [Ty.kind] at h; exact .botR _
  · cases p <;> simp [Ty.kind] at h; simp only [substG]; exact .topL _

/-! ### soundness of matching -/

/-- What a successful `unify … p g m` guarantees when `g` is variable free and well formed and
the range of `m` is: the new substitution still has such a range, extends `m`, and instantiates
`p` to something below `g`. -/
def USound (f : Nat) : Prop :=
  ∀ p g m t m', slotFree g = true → g.wf = true → Subst.Ground m →
    unify f p g m = .ok (t, m') →
    Subst.Ground m' ∧ Subst.le m m' ∧ Below (substG m' p) g

def USoundComp (f : Nat) : Prop :=
  ∀ p g m t m', slotFree g = true → g.wf = true → Subst.Ground m →
    unifyComposite f p g m = .ok (t, m') →
    Subst.Ground m' ∧ Subst.le m m' ∧ Below (substG m' p) g

theorem usound_zero : USound 0 := by
  intro p g m t m' _ _ _ h
  simp [unify] at h

theorem usound_succ {f : Nat} (hc : USoundComp f) : USound (f+1) := by
  intro p g m t m' hg hw hm h
  have hgk := slotFree_kind hg
  by_cases hp : p.kind = .tyvar
  · cases p <;> simp [Ty.kind] at hp
    rename_i xn
    rw [unify_var_left f xn g m hgk] at h
    simp only [UM.bind_eq_ok] at h
    obtain ⟨y1, hy1, h⟩ := h
    rw [applySubst_ground f m g y1 hg hy1] at h
    have hfin : (∀ k, m.get? xn = some k → tyEq k g = true) →
        (pure (g, m.set xn g) : UM (Ty × Subst)) = .ok (t, m') →
        Subst.Ground m' ∧ Subst.le m m' ∧ Below (substG m' (.var xn)) g := by
      intro hk h
      have h := UM.pure_eq_ok.1 h
      cases h
      refine ⟨Subst.ground_set hm hg hw, Subst.le_set (fun k hk' => ?_), ?_⟩
      · exact tyEq_sound k g (hm xn k hk').2 (hk k hk')
      · simp only [substG, Subst.get?_set_self]; exact Below.refl _
    split at h
    · split at h
      · next k hk =>
        split at h
        · exact absurd h UM.throw_ne_ok
        · next hne =>
          refine hfin (fun k' hk' => ?_) h
          rw [hk] at hk'; cases hk'
          simpa using hne
      · next hk => exact hfin (fun k' hk' => by rw [hk] at hk'; cases hk') h
    · exact absurd h UM.throw_ne_ok
  · rw [unify_nonvar f p g m hp hgk] at h
    split at h
    · next hc1 =>
      have h := UM.pure_eq_ok.1 h
      cases h
      exact ⟨hm, Subst.le_refl m, prim_below m hc1⟩
    · split at h
      · exact hc p g m t m' hg hw hm h
      · split at h
        · next hc3 =>
          have h := UM.pure_eq_ok.1 h
          cases h
          exact ⟨hm, Subst.le_refl m, botTop_below m hc3⟩
        · exact absurd h UM.throw_ne_ok

theorem usound_list {f : Nat} (hu : USound f) : ∀ ps gs m ts m',
    slotFreeList gs = true → wfList gs = true → Subst.Ground m →
    ps.length = gs.length → unifyList f ps gs m = .ok (ts, m') →
    Subst.Ground m' ∧ Subst.le m m' ∧ BelowList (substGList m' ps) gs
  | .nil, .nil, m, ts, m', _, _, hm, _, h => by
    simp only [unifyList, UM.pure_eq_ok] at h
    cases h
    exact ⟨hm, Subst.le_refl _, .nil⟩
  | .nil, .cons _ _, _, _, _, _, _, _, hl, _ => by simp [TyList.length] at hl
  | .cons _ _, .nil, _, _, _, _, _, _, hl, _ => by simp [TyList.length] at hl
  | .cons p ps, .cons g gs, m, ts, m', hg, hw, hm, hl, h => by
    simp only [slotFreeList, Bool.and_eq_true] at hg
    simp only [wfList, Bool.and_eq_true] at hw
    simp only [TyList.length, Nat.add_right_cancel_iff] at hl
    simp only [unifyList, UM.bind_eq_ok, UM.pure_eq_ok] at h
    obtain ⟨⟨t, m1⟩, h1, ⟨ts', m2⟩, h2, h3⟩ := h
    cases h3
    obtain ⟨hm1, hle1, hb1⟩ := hu p g m t m1 hg.1 hw.1 hm h1
    obtain ⟨hm2, hle2, hb2⟩ := usound_list hu ps gs m1 ts' m2 hg.2 hw.2 hm1 hl h2
    exact ⟨hm2, Subst.le_trans hle1 hle2, .cons (substG_mono hle2 p g hg.1 hb1) hb2⟩

theorem usound_params {f : Nat} (hu : USound f) : ∀ ps gs m ts m',
    slotFreeList gs = true → wfList gs = true → Subst.Ground m →
    ps.length = gs.length → unifyParams f ps gs m = .ok (ts, m') →
    Subst.Ground m' ∧ Subst.le m m' ∧ BelowList (substGList m' ps) gs
  | .nil, .nil, m, ts, m', _, _, hm, _, h => by
    simp only [unifyParams, UM.pure_eq_ok] at h
    cases h
    exact ⟨hm, Subst.le_refl _, .nil⟩
  | .nil, .cons _ _, _, _, _, _, _, _, hl, _ => by simp [TyList.length] at hl
  | .cons _ _, .nil, _, _, _, _, _, _, hl, _ => by simp [TyList.length] at hl
  | .cons p ps, .cons g gs, m, ts, m', hg, hw, hm, hl, h => by
    simp only [slotFreeList, Bool.and_eq_true] at hg
    simp only [wfList, Bool.and_eq_true] at hw
    simp only [TyList.length, Nat.add_right_cancel_iff] at hl
    simp only [unifyParams, UM.bind_eq_ok, UM.pure_eq_ok] at h
    obtain ⟨p1, hp1, q1, hq1, ⟨t, m1⟩, h1, ⟨ts', m2⟩, h2, h3⟩ := h
    cases h3
    have e1 := applySubst_eq_substG m hm f p p1 hp1
    have e2 := applySubst_ground f m g q1 hg.1 hq1
    subst e1 e2
    obtain ⟨hm1, hle1, hb1⟩ := hu _ _ m t m1 hg.1 hw.1 hm h1
    obtain ⟨hm2, hle2, hb2⟩ := usound_params hu ps gs m1 ts' m2 hg.2 hw.2 hm1 hl h2
    have hb1' : Below (substG m1 p) q1 :=
      StructEq.thenBelow _ _ _ (StructEq.symm _ _ (substG_substG hm hle1 p)) hb1
    exact ⟨hm2, Subst.le_trans hle1 hle2, .cons (substG_mono hle2 p q1 hg.1 hb1') hb2⟩

theorem usound_fields {f : Nat} (hu : USound f) : ∀ (fs gs : FieldList) m fs' m',
    slotFreeFields gs = true → wfFields gs = true → Subst.Ground m →
    unifyFields f fs gs m = .ok (fs', m') →
    Subst.Ground m' ∧ Subst.le m m' ∧
      ∀ n t, fs.find? n = some t → ∃ u, gs.find? n = some u ∧ Below (substG m' t) u
  | .nil, gs, m, fs', m', _, _, hm, h => by
    simp only [unifyFields, UM.pure_eq_ok] at h
    cases h
    exact ⟨hm, Subst.le_refl _, fun n t ht => by simp [FieldList.find?] at ht⟩
  | .cons k t rest, gs, m, fs', m', hg, hw, hm, h => by
    simp only [unifyFields] at h
    split at h
    · exact absurd h UM.throw_ne_ok
    · next u hu' =>
      simp only [UM.bind_eq_ok, UM.pure_eq_ok] at h
      obtain ⟨⟨t', m1⟩, h1, ⟨fs1, m2⟩, h2, h3⟩ := h
      cases h3
      have hgu := slotFreeFields_find gs k u hg hu'
      obtain ⟨hm1, hle1, hb1⟩ := hu t u m t' m1 hgu (wfFields_find gs k u hw hu') hm h1
      obtain ⟨hm2, hle2, hb2⟩ := usound_fields hu rest gs m1 fs1 m2 hg hw hm1 h2
      refine ⟨hm2, Subst.le_trans hle1 hle2, ?_⟩
      intro n t0 ht0
      simp only [FieldList.find?] at ht0
      split at ht0
      · next hkn =>
        cases ht0; subst hkn
        exact ⟨u, hu', substG_mono hle2 t u hgu hb1⟩
      · exact hb2 n t0 ht0

theorem usound_comp {f : Nat} (hu : USound f) : USoundComp f := by
  intro p g m t m' hg hw hm h
  cases p with
  | list a =>
    cases g with
    | list b =>
      simp only [unifyComposite, UM.bind_eq_ok, UM.pure_eq_ok] at h
      obtain ⟨⟨el, m1⟩, h1, h2⟩ := h
      cases h2
      obtain ⟨hm1, hle1, hb1⟩ := hu a b m el m1 (by simpa [slotFree] using hg)
        (by simpa [Ty.wf] using hw) hm h1
      exact ⟨hm1, hle1, by simp only [substG]; exact .list hb1⟩
    | _ => simp [unifyComposite] at h
  | maybe a =>
    cases g with
    | maybe b =>
      simp only [unifyComposite, UM.bind_eq_ok, UM.pure_eq_ok] at h
      obtain ⟨⟨el, m1⟩, h1, h2⟩ := h
      cases h2
      obtain ⟨hm1, hle1, hb1⟩ := hu a b m el m1 (by simpa [slotFree] using hg)
        (by simpa [Ty.wf] using hw) hm h1
      exact ⟨hm1, hle1, by simp only [substG]; exact .maybe hb1⟩
    | _ => simp [unifyComposite] at h
  | map k v =>
    cases g with
    | map k' v' =>
      simp only [slotFree, Bool.and_eq_true] at hg
      simp only [Ty.wf, Bool.and_eq_true] at hw
      simp only [unifyComposite, UM.bind_eq_ok, UM.pure_eq_ok, mkMap_eq_ok] at h
      obtain ⟨⟨k1, m1⟩, h1, ⟨v1, m2⟩, h2, t', _, h3⟩ := h
      cases h3
      obtain ⟨hm1, hle1, hb1⟩ := hu k k' m k1 m1 hg.1 hw.1.2 hm h1
      obtain ⟨hm2, hle2, hb2⟩ := hu v v' m1 v1 m2 hg.2 hw.2 hm1 h2
      exact ⟨hm2, Subst.le_trans hle1 hle2, by
        simp only [substG]; exact .map (substG_mono hle2 k k' hg.1 hb1) hb2⟩
    | _ => simp [unifyComposite] at h
  | tuple xs =>
    cases g with
    | tuple ys =>
      simp only [unifyComposite] at h
      split at h
      · exact absurd h UM.throw_ne_ok
      · next hl =>
        simp only [UM.bind_eq_ok, UM.pure_eq_ok] at h
        obtain ⟨⟨ts, m1⟩, h1, h2⟩ := h
        cases h2
        obtain ⟨hm1, hle1, hb1⟩ := usound_list hu xs ys m ts m1 (by simpa [slotFree] using hg)
          (by simpa [Ty.wf] using hw) hm (by simpa using hl) h1
        exact ⟨hm1, hle1, by simp only [substG]; exact .tuple hb1⟩
    | _ => simp [unifyComposite] at h
  | obj xfs =>
    cases g with
    | obj yfs =>
      simp only [unifyComposite] at h
      split at h
      · exact absurd h UM.throw_ne_ok
      · next hl =>
        simp only [UM.bind_eq_ok, UM.pure_eq_ok] at h
        obtain ⟨⟨fs, m1⟩, h1, h2⟩ := h
        cases h2
        obtain ⟨hm1, hle1, hb1⟩ := usound_fields hu xfs yfs m fs m1
          (by simpa [slotFree] using hg) (by simpa [Ty.wf] using hw) hm h1
        refine ⟨hm1, hle1, ?_⟩
        simp only [substG]
        refine .obj (by rw [length_substGFields]; simpa using hl) ?_ ?_
        · intro n hn
          rw [find?_substGFields, Option.isSome_map] at hn
          obtain ⟨t0, ht0⟩ := Option.isSome_iff_exists.1 hn
          obtain ⟨u, hu', _⟩ := hb1 n t0 ht0
          simp [hu']
        · intro n t' u ht' hu'
          obtain ⟨t0, ht0, rfl⟩ := find?_substGFields_some ht'
          obtain ⟨u', hu'', hb⟩ := hb1 n t0 ht0
          have : u = u' := by simpa [hu'] using hu''
          subst this; exact hb
    | _ => simp [unifyComposite] at h
  | fn name ps r =>
    cases g with
    | fn name' qs s =>
      simp only [slotFree, Bool.and_eq_true] at hg
      simp only [Ty.wf, Bool.and_eq_true] at hw
      simp only [unifyComposite] at h
      split at h
      · exact absurd h UM.throw_ne_ok
      · next hl =>
        simp only [UM.bind_eq_ok, UM.pure_eq_ok] at h
        obtain ⟨⟨ps', m1⟩, h1, ⟨r', m2⟩, h2, h3⟩ := h
        cases h3
        obtain ⟨hm1, hle1, hb1⟩ := usound_params hu ps qs m ps' m1 hg.1 hw.1 hm
          (by simpa using hl) h1
        obtain ⟨hm2, hle2, hb2⟩ := hu r s m1 r' m2 hg.2 hw.2 hm1 h2
        exact ⟨hm2, Subst.le_trans hle1 hle2, by
          simp only [substG]; exact .fn (substG_monoList hle2 ps qs hg.1 hb1) hb2⟩
    | _ => simp [unifyComposite] at h
  | _ => simp [unifyComposite] at h

theorem usound : ∀ f, USound f
  | 0 => usound_zero
  | f+1 => usound_succ (usound_comp (usound f))

/-! ### fuel -/

mutual
theorem applySubst_ground_ne_fuel (f : Nat) (m : Subst) : ∀ t, slotFree t = true →
    applySubst f m t ≠ .error .fuel
  | .var _, h, _ => by simp [slotFree] at h
  | .top, _, h | .bot, _, h | .num, _, h | .str, _, h | .bool, _, h | .time, _, h => by
    simp [applySubst] at h
  | .tuple ts, hs, h => by
    simp only [slotFree] at hs
    simp only [applySubst, UM.bind_eq_error] at h
    rcases h with h | ⟨x, _, h⟩
    · exact applySubstList_ground_ne_fuel f m ts hs h
    · exact UM.pure_ne_error h
  | .list a, hs, h => by
    simp only [slotFree] at hs
    simp only [applySubst, UM.bind_eq_error] at h
    rcases h with h | ⟨x, _, h⟩
    · exact applySubst_ground_ne_fuel f m a hs h
    · exact UM.pure_ne_error h
  | .map k v, hs, h => by
    simp only [slotFree, Bool.and_eq_true] at hs
    simp only [applySubst, UM.bind_eq_error] at h
    rcases h with h | ⟨x, _, h | ⟨y, _, h⟩⟩
    · exact applySubst_ground_ne_fuel f m k hs.1 h
    · exact applySubst_ground_ne_fuel f m v hs.2 h
    · exact mkMap_ne_fuel h
  | .obj fs, hs, h => by
    simp only [slotFree] at hs
    simp only [applySubst, UM.bind_eq_error] at h
    rcases h with h | ⟨x, _, h⟩
    · exact applySubstFields_ground_ne_fuel f m fs hs h
    · exact UM.pure_ne_error h
  | .fn _ ps r, hs, h => by
    simp only [slotFree, Bool.and_eq_true] at hs
    simp only [applySubst, UM.bind_eq_error] at h
    rcases h with h | ⟨x, _, h | ⟨y, _, h⟩⟩
    · exact applySubstList_ground_ne_fuel f m ps hs.1 h
    · exact applySubst_ground_ne_fuel f m r hs.2 h
    · exact UM.pure_ne_error h
  | .maybe a, hs, h => by
    simp only [slotFree] at hs
    simp only [applySubst, UM.bind_eq_error] at h
    rcases h with h | ⟨x, _, h⟩
    · exact applySubst_ground_ne_fuel f m a hs h
    · exact UM.pure_ne_error h
theorem applySubstList_ground_ne_fuel (f : Nat) (m : Subst) : ∀ ts, slotFreeList ts = true →
    applySubstList f m ts ≠ .error .fuel
  | .nil, _, h => by simp [applySubstList] at h
  | .cons t ts, hs, h => by
    simp only [slotFreeList, Bool.and_eq_true] at hs
    simp only [applySubstList, UM.bind_eq_error] at h
    rcases h with h | ⟨x, _, h | ⟨y, _, h⟩⟩
    · exact applySubst_ground_ne_fuel f m t hs.1 h
    · exact applySubstList_ground_ne_fuel f m ts hs.2 h
    · exact UM.pure_ne_error h
theorem applySubstFields_ground_ne_fuel (f : Nat) (m : Subst) : ∀ fs,
    slotFreeFields fs = true → applySubstFields f m fs ≠ .error .fuel
  | .nil, _, h => by simp [applySubstFields] at h
  | .cons n t fs, hs, h => by
    simp only [slotFreeFields, Bool.and_eq_true] at hs
    simp only [applySubstFields, UM.bind_eq_error] at h
    rcases h with h | ⟨x, _, h | ⟨y, _, h⟩⟩
    · exact applySubst_ground_ne_fuel f m t hs.1 h
    · exact applySubstFields_ground_ne_fuel f m fs hs.2 h
    · exact UM.pure_ne_error h
end

mutual
/-- with a variable-free range one unit of fuel is enough for `applySubst` -/
theorem applySubst_ne_fuel (f : Nat) (m : Subst) (hm : m.Ground) : ∀ t,
    applySubst (f+1) m t ≠ .error .fuel
  | .var n, h => by
    rw [applySubst.eq_1] at h
    split at h
    · exact UM.pure_ne_error h
    · next r hn =>
      have hr := (hm n r hn).1
      split at h
      · simp [slotFree] at hr
      · exact applySubst_ground_ne_fuel f m r hr h
  | .top, h | .bot, h | .num, h | .str, h | .bool, h | .time, h => by
    simp [applySubst] at h
  | .tuple ts, h => by
    simp only [applySubst, UM.bind_eq_error] at h
    rcases h with h | ⟨x, _, h⟩
    · exact applySubstList_ne_fuel f m hm ts h
    · exact UM.pure_ne_error h
  | .list a, h => by
    simp only [applySubst, UM.bind_eq_error] at h
    rcases h with h | ⟨x, _, h⟩
    · exact applySubst_ne_fuel f m hm a h
    · exact UM.pure_ne_error h
  | .map k v, h => by
    simp only [applySubst, UM.bind_eq_error] at h
    rcases h with h | ⟨x, _, h | ⟨y, _, h⟩⟩
    · exact applySubst_ne_fuel f m hm k h
    · exact applySubst_ne_fuel f m hm v h
    · exact mkMap_ne_fuel h
  | .obj fs, h => by
    simp only [applySubst, UM.bind_eq_error] at h
    rcases h with h | ⟨x, _, h⟩
    · exact applySubstFields_ne_fuel f m hm fs h
    · exact UM.pure_ne_error h
  | .fn _ ps r, h => by
    simp only [applySubst, UM.bind_eq_error] at h
    rcases h with h | ⟨x, _, h | ⟨y, _, h⟩⟩
    · exact applySubstList_ne_fuel f m hm ps h
    · exact applySubst_ne_fuel f m hm r h
    · exact UM.pure_ne_error h
  | .maybe a, h => by
    simp only [applySubst, UM.bind_eq_error] at h
    rcases h with h | ⟨x, _, h⟩
    · exact applySubst_ne_fuel f m hm a h
    · exact UM.pure_ne_error h
theorem applySubstList_ne_fuel (f : Nat) (m : Subst) (hm : m.Ground) : ∀ ts,
    applySubstList (f+1) m ts ≠ .error .fuel
  | .nil, h => by simp [applySubstList] at h
  | .cons t ts, h => by
    simp only [applySubstList, UM.bind_eq_error] at h
    rcases h with h | ⟨x, _, h | ⟨y, _, h⟩⟩
    · exact applySubst_ne_fuel f m hm t h
    · exact applySubstList_ne_fuel f m hm ts h
    · exact UM.pure_ne_error h
theorem applySubstFields_ne_fuel (f : Nat) (m : Subst) (hm : m.Ground) : ∀ fs,
    applySubstFields (f+1) m fs ≠ .error .fuel
  | .nil, h => by simp [applySubstFields] at h
  | .cons n t fs, h => by
    simp only [applySubstFields, UM.bind_eq_error] at h
    rcases h with h | ⟨x, _, h | ⟨y, _, h⟩⟩
    · exact applySubst_ne_fuel f m hm t h
    · exact applySubstFields_ne_fuel f m hm fs h
    · exact UM.pure_ne_error h
end

theorem Ty.sizeOf_pos (g : Ty) : 0 < sizeOf g := by
  cases g <;> simp <;> omega

theorem FieldList.find?_sizeOf : ∀ (fs : FieldList) (n : String) (t : Ty),
    fs.find? n = some t → sizeOf t < sizeOf fs
  | .nil, n, t, h => by simp [FieldList.find?] at h
  | .cons m t' fs, n, t, h => by
    simp only [FieldList.find?] at h
    split at h
    · cases h; simp; omega
    · have := FieldList.find?_sizeOf fs n t h
      simp; omega

/-- `unify` against a variable-free `g` never runs out of fuel when given `sizeOf g`. -/
def UFuel (f : Nat) : Prop :=
  ∀ p g m, slotFree g = true → g.wf = true → Subst.Ground m → sizeOf g ≤ f →
    unify f p g m ≠ .error .fuel

def UFuelComp (f : Nat) : Prop :=
  ∀ p g m, slotFree g = true → g.wf = true → Subst.Ground m → sizeOf g ≤ f + 1 →
    unifyComposite f p g m ≠ .error .fuel

theorem ufuel_zero : UFuel 0 := by
  intro p g m _ _ _ hs
  have := Ty.sizeOf_pos g
  omega

theorem ufuel_succ {f : Nat} (hc : UFuelComp f) : UFuel (f+1) := by
  intro p g m hg hw hm hs h
  have hgk := slotFree_kind hg
  by_cases hp : p.kind = .tyvar
  · cases p <;> simp [Ty.kind] at hp
    rename_i xn
    rw [unify_var_left f xn g m hgk] at h
    simp only [UM.bind_eq_error] at h
    rcases h with h | ⟨y1, hy1, h⟩
    · exact applySubst_ground_ne_fuel f m g hg h
    · split at h
      · split at h
        · split at h
          · simp at h
          · exact UM.pure_ne_error h
        · exact UM.pure_ne_error h
      · simp at h
  · rw [unify_nonvar f p g m hp hgk] at h
    split at h
    · exact UM.pure_ne_error h
    · split at h
      · exact hc p g m hg hw hm hs h
      · split at h
        · exact UM.pure_ne_error h
        · simp at h

theorem ufuel_list {f : Nat} (hu : UFuel f) : ∀ ps gs m,
    slotFreeList gs = true → wfList gs = true → Subst.Ground m → sizeOf gs ≤ f →
    unifyList f ps gs m ≠ .error .fuel
  | .nil, _, m, _, _, _, _, h => by simp [unifyList] at h
  | .cons _ _, .nil, _, _, _, _, _, h => by simp [unifyList] at h
  | .cons p ps, .cons g gs, m, hg, hw, hm, hs, h => by
    simp only [slotFreeList, Bool.and_eq_true] at hg
    simp only [wfList, Bool.and_eq_true] at hw
    simp only [TyList.cons.sizeOf_spec] at hs
    simp only [unifyList, UM.bind_eq_error] at h
    rcases h with h | ⟨⟨t, m1⟩, h1, h | ⟨⟨ts, m2⟩, h2, h⟩⟩
    · exact hu p g m hg.1 hw.1 hm (by omega) h
    · exact ufuel_list hu ps gs m1 hg.2 hw.2 (usound f p g m t m1 hg.1 hw.1 hm h1).1
        (by omega) h
    · exact UM.pure_ne_error h

theorem ufuel_params {f : Nat} (hu : UFuel f) : ∀ ps gs m,
    slotFreeList gs = true → wfList gs = true → Subst.Ground m → sizeOf gs ≤ f →
    unifyParams f ps gs m ≠ .error .fuel
  | .nil, _, m, _, _, _, _, h => by simp [unifyParams] at h
  | .cons _ _, .nil, _, _, _, _, _, h => by simp [unifyParams] at h
  | .cons p ps, .cons g gs, m, hg, hw, hm, hs, h => by
    simp only [slotFreeList, Bool.and_eq_true] at hg
    simp only [wfList, Bool.and_eq_true] at hw
    simp only [TyList.cons.sizeOf_spec] at hs
    cases f with
    | zero => omega
    | succ f' =>
    simp only [unifyParams, UM.bind_eq_error] at h
    rcases h with h | ⟨p1, hp1, h | ⟨q1, hq1, h | ⟨⟨t, m1⟩, h1, h | ⟨⟨ts, m2⟩, h2, h⟩⟩⟩⟩
    · exact applySubst_ne_fuel f' m hm p h
    · exact applySubst_ground_ne_fuel _ m g hg.1 h
    · have e2 := applySubst_ground _ m g q1 hg.1 hq1
      subst e2
      exact hu p1 q1 m hg.1 hw.1 hm (by omega) h
    · have e2 := applySubst_ground _ m g q1 hg.1 hq1
      subst e2
      exact ufuel_params hu ps gs m1 hg.2 hw.2 (usound _ p1 q1 m t m1 hg.1 hw.1 hm h1).1
        (by omega) h
    · exact UM.pure_ne_error h

theorem ufuel_fields {f : Nat} (hu : UFuel f) : ∀ (fs gs : FieldList) m,
    slotFreeFields gs = true → wfFields gs = true → Subst.Ground m → sizeOf gs ≤ f →
    unifyFields f fs gs m ≠ .error .fuel
  | .nil, gs, m, _, _, _, _, h => by simp [unifyFields] at h
  | .cons k t rest, gs, m, hg, hw, hm, hs, h => by
    simp only [unifyFields] at h
    split at h
    · simp at h
    · next u hu' =>
      have hgu := slotFreeFields_find gs k u hg hu'
      have hwu := wfFields_find gs k u hw hu'
      have hsz := FieldList.find?_sizeOf gs k u hu'
      simp only [UM.bind_eq_error] at h
      rcases h with h | ⟨⟨t', m1⟩, h1, h | ⟨⟨fs1, m2⟩, h2, h⟩⟩
      · exact hu t u m hgu hwu hm (by omega) h
      · exact ufuel_fields hu rest gs m1 hg hw (usound f t u m t' m1 hgu hwu hm h1).1 hs h
      · exact UM.pure_ne_error h

theorem ufuel_comp {f : Nat} (hu : UFuel f) : UFuelComp f := by
  intro p g m hg hw hm hs h
  cases p with
  | list a =>
    cases g with
    | list b =>
      simp only [Ty.list.sizeOf_spec] at hs
      simp only [unifyComposite, UM.bind_eq_error] at h
      rcases h with h | ⟨⟨el, m1⟩, h1, h⟩
      · exact hu a b m (by simpa [slotFree] using hg) (by simpa [Ty.wf] using hw) hm
          (by omega) h
      · exact UM.pure_ne_error h
    | _ => simp [unifyComposite] at h
  | maybe a =>
    cases g with
    | maybe b =>
      simp only [Ty.maybe.sizeOf_spec] at hs
      simp only [unifyComposite, UM.bind_eq_error] at h
      rcases h with h | ⟨⟨el, m1⟩, h1, h⟩
      · exact hu a b m (by simpa [slotFree] using hg) (by simpa [Ty.wf] using hw) hm
          (by omega) h
      · exact UM.pure_ne_error h
    | _ => simp [unifyComposite] at h
  | map k v =>
    cases g with
    | map k' v' =>
      simp only [slotFree, Bool.and_eq_true] at hg
      simp only [Ty.wf, Bool.and_eq_true] at hw
      simp only [Ty.map.sizeOf_spec] at hs
      simp only [unifyComposite, UM.bind_eq_error] at h
      rcases h with h | ⟨⟨k1, m1⟩, h1, h | ⟨⟨v1, m2⟩, h2, h | ⟨t, _, h⟩⟩⟩
      · exact hu k k' m hg.1 hw.1.2 hm (by omega) h
      · exact hu v v' m1 hg.2 hw.2 (usound f k k' m k1 m1 hg.1 hw.1.2 hm h1).1 (by omega) h
      · exact mkMap_ne_fuel h
      · exact UM.pure_ne_error h
    | _ => simp [unifyComposite] at h
  | tuple xs =>
    cases g with
    | tuple ys =>
      simp only [Ty.tuple.sizeOf_spec] at hs
      simp only [unifyComposite] at h
      split at h
      · simp at h
      · simp only [UM.bind_eq_error] at h
        rcases h with h | ⟨⟨ts, m1⟩, h1, h⟩
        · exact ufuel_list hu xs ys m (by simpa [slotFree] using hg)
            (by simpa [Ty.wf] using hw) hm (by omega) h
        · exact UM.pure_ne_error h
    | _ => simp [unifyComposite] at h
  | obj xfs =>
    cases g with
    | obj yfs =>
      simp only [Ty.obj.sizeOf_spec] at hs
      simp only [unifyComposite] at h
      split at h
      · simp at h
      · simp only [UM.bind_eq_error] at h
        rcases h with h | ⟨⟨fs, m1⟩, h1, h⟩
        · exact ufuel_fields hu xfs yfs m (by simpa [slotFree] using hg)
            (by simpa [Ty.wf] using hw) hm (by omega) h
        · exact UM.pure_ne_error h
    | _ => simp [unifyComposite] at h
  | fn name ps r =>
    cases g with
    | fn name' qs s =>
      simp only [slotFree, Bool.and_eq_true] at hg
      simp only [Ty.wf, Bool.and_eq_true] at hw
      simp only [Ty.fn.sizeOf_spec] at hs
      simp only [unifyComposite] at h
      split at h
      · simp at h
      · next hl =>
        simp only [UM.bind_eq_error] at h
        rcases h with h | ⟨⟨ps', m1⟩, h1, h | ⟨⟨r', m2⟩, h2, h⟩⟩
        · exact ufuel_params hu ps qs m hg.1 hw.1 hm (by omega) h
        · exact hu r s m1 hg.2 hw.2
            (usound_params (usound f) ps qs m ps' m1 hg.1 hw.1 hm (by simpa using hl) h1).1
            (by omega) h
        · exact UM.pure_ne_error h
    | _ => simp [unifyComposite] at h
  | _ => simp [unifyComposite] at h

theorem ufuel : ∀ f, UFuel f
  | 0 => ufuel_zero
  | f+1 => ufuel_succ (ufuel_comp (ufuel f))

/-! ### completeness of matching -/

mutual
theorem applySubst_ground_ok (f : Nat) (m : Subst) : ∀ t, slotFree t = true → t.wf = true →
    applySubst f m t = .ok t
  | .var _, h, _ => by simp [slotFree] at h
  | .top, _, _ | .bot, _, _ | .num, _, _ | .str, _, _ | .bool, _, _ | .time, _, _ => by
    simp [applySubst]
  | .tuple ts, hs, hw => by
    simp only [slotFree] at hs; simp only [Ty.wf] at hw
    simp only [applySubst, applySubstList_ground_ok f m ts hs hw, UM.ok_bind]; rfl
  | .list a, hs, hw => by
    simp only [slotFree] at hs; simp only [Ty.wf] at hw
    simp only [applySubst, applySubst_ground_ok f m a hs hw, UM.ok_bind]; rfl
  | .map k v, hs, hw => by
    simp only [slotFree, Bool.and_eq_true] at hs
    simp only [Ty.wf, Bool.and_eq_true] at hw
    simp only [applySubst, applySubst_ground_ok f m k hs.1 hw.1.2,
      applySubst_ground_ok f m v hs.2 hw.2, UM.ok_bind, mkMap, hw.1.1, if_true]; rfl
  | .obj fs, hs, hw => by
    simp only [slotFree] at hs; simp only [Ty.wf] at hw
    simp only [applySubst, applySubstFields_ground_ok f m fs hs hw, UM.ok_bind]; rfl
  | .fn _ ps r, hs, hw => by
    simp only [slotFree, Bool.and_eq_true] at hs
    simp only [Ty.wf, Bool.and_eq_true] at hw
    simp only [applySubst, applySubstList_ground_ok f m ps hs.1 hw.1,
      applySubst_ground_ok f m r hs.2 hw.2, UM.ok_bind]; rfl
  | .maybe a, hs, hw => by
    simp only [slotFree] at hs; simp only [Ty.wf] at hw
    simp only [applySubst, applySubst_ground_ok f m a hs hw, UM.ok_bind]; rfl
theorem applySubstList_ground_ok (f : Nat) (m : Subst) : ∀ ts, slotFreeList ts = true →
    wfList ts = true → applySubstList f m ts = .ok ts
  | .nil, _, _ => by simp [applySubstList]
  | .cons t ts, hs, hw => by
    simp only [slotFreeList, Bool.and_eq_true] at hs
    simp only [wfList, Bool.and_eq_true] at hw
    simp only [applySubstList, applySubst_ground_ok f m t hs.1 hw.1,
      applySubstList_ground_ok f m ts hs.2 hw.2, UM.ok_bind]; rfl
theorem applySubstFields_ground_ok (f : Nat) (m : Subst) : ∀ fs, slotFreeFields fs = true →
    wfFields fs = true → applySubstFields f m fs = .ok fs
  | .nil, _, _ => by simp [applySubstFields]
  | .cons n t fs, hs, hw => by
    simp only [slotFreeFields, Bool.and_eq_true] at hs
    simp only [wfFields, Bool.and_eq_true] at hw
    simp only [applySubstFields, applySubst_ground_ok f m t hs.1 hw.1.2,
      applySubstFields_ground_ok f m fs hs.2 hw.2, UM.ok_bind]; rfl
end

mutual
theorem slotFree_freeFrom (s : String) : ∀ t, slotFree t = true → freeFrom s t = true
  | .var _, h => by simp [slotFree] at h
  | .top, _ | .bot, _ | .num, _ | .str, _ | .bool, _ | .time, _ => by simp [freeFrom]
  | .tuple ts, h => by
    simp only [slotFree] at h; simp only [freeFrom, slotFreeList_freeFrom s ts h]
  | .list a, h => by
    simp only [slotFree] at h; simp only [freeFrom, slotFree_freeFrom s a h]
  | .map k v, h => by
    simp only [slotFree, Bool.and_eq_true] at h
    simp [freeFrom, slotFree_freeFrom s k h.1, slotFree_freeFrom s v h.2]
  | .obj fs, h => by
    simp only [slotFree] at h; simp only [freeFrom, slotFreeFields_freeFrom s fs h]
  | .fn _ ps r, h => by
    simp only [slotFree, Bool.and_eq_true] at h
    simp [freeFrom, slotFreeList_freeFrom s ps h.1, slotFree_freeFrom s r h.2]
  | .maybe a, h => by
    simp only [slotFree] at h; simp only [freeFrom, slotFree_freeFrom s a h]
theorem slotFreeList_freeFrom (s : String) : ∀ ts, slotFreeList ts = true →
    freeFromList s ts = true
  | .nil, _ => by simp [freeFromList]
  | .cons t ts, h => by
    simp only [slotFreeList, Bool.and_eq_true] at h
    simp [freeFromList, slotFree_freeFrom s t h.1, slotFreeList_freeFrom s ts h.2]
theorem slotFreeFields_freeFrom (s : String) : ∀ fs, slotFreeFields fs = true →
    freeFromFields s fs = true
  | .nil, _ => by simp [freeFromFields]
  | .cons _ t fs, h => by
    simp only [slotFreeFields, Bool.and_eq_true] at h
    simp [freeFromFields, slotFree_freeFrom s t h.1, slotFreeFields_freeFrom s fs h.2]
end

theorem StructEq.kind_eq {a b : Ty} (h : StructEq a b) : a.kind = b.kind := by
  cases h <;> rfl

theorem keyable_of_kind_eq {a b : Ty} (h : a.kind = b.kind) : a.keyable = b.keyable := by
  simp [Ty.keyable, Ty.isPrimitive, h]

theorem StructEqList.length_eq : ∀ xs ys, StructEqList xs ys → xs.length = ys.length
  | .nil, _, h => by cases h; rfl
  | .cons _ xs, _, h => by
    cases h with | cons _ h2 => simp [TyList.length, StructEqList.length_eq xs _ h2]

theorem substG_kind_of_nonvar (m : Subst) {p : Ty} (hp : p.kind ≠ .tyvar) :
    (substG m p).kind = p.kind := by
  cases p <;> first | (exfalso; exact hp rfl) | rfl

/-- the kind of a map key survives going back from `σ` to an earlier `m` as far as `keyable`
is concerned -/
theorem keyable_substG_of_le {m σ : Subst} (hle : m.le σ) (k : Ty)
    (h : (substG σ k).keyable = true) : (substG m k).keyable = true := by
  by_cases hk : k.kind = .tyvar
  · cases k <;> simp [Ty.kind] at hk
    rename_i n
    simp only [substG] at h ⊢
    cases hn : m.get? n with
    | none => simp [Ty.keyable, Ty.kind]
    | some r =>
      obtain ⟨r', hr', e⟩ := hle n r hn
      simp only [hr'] at h
      simp only []
      rw [keyable_of_kind_eq e.kind_eq]; exact h
  · rw [keyable_of_kind_eq ((substG_kind_of_nonvar m hk).trans (substG_kind_of_nonvar σ hk).symm)]
    exact h

mutual
theorem wf_substG_substG {m σ : Subst} (hm : m.Ground) (hle : m.le σ) : ∀ p,
    (substG σ p).wf = true → (substG σ (substG m p)).wf = true
  | .var n, h => by
    cases hn : m.get? n with
    | none => simp only [substG, hn] at h ⊢; exact h
    | some k =>
      simp only [substG, hn]
      rw [substG_ground σ k (hm n k hn).1]; exact (hm n k hn).2
  | .top, _ | .bot, _ | .num, _ | .str, _ | .bool, _ | .time, _ => by simp [substG, Ty.wf]
  | .tuple ts, h => by
    simp only [substG, Ty.wf] at h ⊢; exact wf_substG_substGList hm hle ts h
  | .list a, h => by
    simp only [substG, Ty.wf] at h ⊢; exact wf_substG_substG hm hle a h
  | .map k v, h => by
    simp only [substG, Ty.wf, Bool.and_eq_true] at h ⊢
    refine ⟨⟨?_, wf_substG_substG hm hle k h.1.2⟩, wf_substG_substG hm hle v h.2⟩
    rw [keyable_of_kind_eq (substG_substG hm hle k).kind_eq]; exact h.1.1
  | .obj fs, h => by
    simp only [substG, Ty.wf] at h ⊢; exact wf_substG_substGFields hm hle fs h
  | .fn _ ps r, h => by
    simp only [substG, Ty.wf, Bool.and_eq_true] at h ⊢
    exact ⟨wf_substG_substGList hm hle ps h.1, wf_substG_substG hm hle r h.2⟩
  | .maybe a, h => by
    simp only [substG, Ty.wf] at h ⊢; exact wf_substG_substG hm hle a h
theorem wf_substG_substGList {m σ : Subst} (hm : m.Ground) (hle : m.le σ) : ∀ ps,
    wfList (substGList σ ps) = true → wfList (substGList σ (substGList m ps)) = true
  | .nil, _ => by simp [substGList, wfList]
  | .cons p ps, h => by
    simp only [substGList, wfList, Bool.and_eq_true] at h ⊢
    exact ⟨wf_substG_substG hm hle p h.1, wf_substG_substGList hm hle ps h.2⟩
theorem wf_substG_substGFields {m σ : Subst} (hm : m.Ground) (hle : m.le σ) : ∀ fs,
    wfFields (substGFields σ fs) = true →
      wfFields (substGFields σ (substGFields m fs)) = true
  | .nil, _ => by simp [substGFields, wfFields]
  | .cons n t fs, h => by
    simp only [substGFields, wfFields, Bool.and_eq_true] at h ⊢
    refine ⟨⟨?_, wf_substG_substG hm hle t h.1.2⟩, wf_substG_substGFields hm hle fs h.2⟩
    have := h.1.1
    simp only [find?_substGFields, Option.isNone_map] at this ⊢
    exact this
end

mutual
/-- `applySubst` succeeds (no `types.Map` panic, one unit of fuel) on a pattern whose instance
under a later substitution is well formed. -/
theorem applySubst_ok {m σ : Subst} (hm : m.Ground) (hle : m.le σ) (f : Nat) : ∀ p,
    (substG σ p).wf = true → applySubst (f+1) m p = .ok (substG m p)
  | .var n, _ => by
    rw [applySubst.eq_1]
    simp only [substG]
    cases hn : m.get? n with
    | none => rfl
    | some r =>
      have hr := hm n r hn
      simp only []
      split
      · simp [slotFree] at hr
      · exact applySubst_ground_ok f m r hr.1 hr.2
  | .top, _ | .bot, _ | .num, _ | .str, _ | .bool, _ | .time, _ => by
    simp [applySubst, substG]
  | .tuple ts, h => by
    simp only [substG, Ty.wf] at h
    simp only [applySubst, applySubstList_ok hm hle f ts h, UM.ok_bind, substG]; rfl
  | .list a, h => by
    simp only [substG, Ty.wf] at h
    simp only [applySubst, applySubst_ok hm hle f a h, UM.ok_bind, substG]; rfl
  | .map k v, h => by
    simp only [substG, Ty.wf, Bool.and_eq_true] at h
    simp only [applySubst, applySubst_ok hm hle f k h.1.2, applySubst_ok hm hle f v h.2,
      UM.ok_bind, substG, mkMap, keyable_substG_of_le hle k h.1.1, if_true]; rfl
  | .obj fs, h => by
    simp only [substG, Ty.wf] at h
    simp only [applySubst, applySubstFields_ok hm hle f fs h, UM.ok_bind, substG]; rfl
  | .fn _ ps r, h => by
    simp only [substG, Ty.wf, Bool.and_eq_true] at h
    simp only [applySubst, applySubstList_ok hm hle f ps h.1, applySubst_ok hm hle f r h.2,
      UM.ok_bind, substG]; rfl
  | .maybe a, h => by
    simp only [substG, Ty.wf] at h
    simp only [applySubst, applySubst_ok hm hle f a h, UM.ok_bind, substG]; rfl
theorem applySubstList_ok {m σ : Subst} (hm : m.Ground) (hle : m.le σ) (f : Nat) : ∀ ps,
    wfList (substGList σ ps) = true → applySubstList (f+1) m ps = .ok (substGList m ps)
  | .nil, _ => by simp [applySubstList, substGList]
  | .cons p ps, h => by
    simp only [substGList, wfList, Bool.and_eq_true] at h
    simp only [applySubstList, applySubst_ok hm hle f p h.1, applySubstList_ok hm hle f ps h.2,
      UM.ok_bind, substGList]; rfl
theorem applySubstFields_ok {m σ : Subst} (hm : m.Ground) (hle : m.le σ) (f : Nat) : ∀ fs,
    wfFields (substGFields σ fs) = true →
      applySubstFields (f+1) m fs = .ok (substGFields m fs)
  | .nil, _ => by simp [applySubstFields, substGFields]
  | .cons n t fs, h => by
    simp only [substGFields, wfFields, Bool.and_eq_true] at h
    simp only [applySubstFields, applySubst_ok hm hle f t h.1.2,
      applySubstFields_ok hm hle f fs h.2, UM.ok_bind, substGFields]; rfl
end

/-- If some substitution `σ` extending `m` instantiates `p` to a well-formed type structurally
equal to the variable-free `g`, then `unify` succeeds (given fuel for the size of `g`), and the
result substitution is still below `σ`. -/
def UComplete (f : Nat) : Prop :=
  ∀ p g m σ, slotFree g = true → g.wf = true → Subst.Ground m → Subst.le m σ →
    (substG σ p).wf = true → StructEq (substG σ p) g → sizeOf g ≤ f →
    ∃ t m', unify f p g m = .ok (t, m') ∧ Subst.le m' σ ∧ Subst.Ground m' ∧ t.kind = g.kind

def UCompleteComp (f : Nat) : Prop :=
  ∀ p g m σ, slotFree g = true → g.wf = true → Subst.Ground m → Subst.le m σ →
    (substG σ p).wf = true → StructEq (substG σ p) g → sizeOf g ≤ f + 1 →
    p.isComposite = true →
    ∃ t m', unifyComposite f p g m = .ok (t, m') ∧ Subst.le m' σ ∧ Subst.Ground m' ∧
      t.kind = g.kind

theorem ucomplete_zero : UComplete 0 := by
  intro p g m σ _ _ _ _ _ _ hs
  have := Ty.sizeOf_pos g
  omega

theorem ucomplete_succ {f : Nat} (hc : UCompleteComp f) : UComplete (f+1) := by
  intro p g m σ hg hw hm hle hpw hse hs
  have hgk := slotFree_kind hg
  by_cases hp : p.kind = .tyvar
  · cases p <;> simp [Ty.kind] at hp
    rename_i xn
    rw [unify_var_left f xn g m hgk, applySubst_ground_ok f m g hg hw]
    simp only [UM.ok_bind, slotFree_freeFrom xn g hg, if_true]
    simp only [substG] at hse
    cases hσ : σ.get? xn with
    | none =>
      simp only [hσ] at hse
      cases hse; simp [slotFree] at hg
    | some k' =>
      simp only [hσ] at hse
      have hle' : Subst.le (m.set xn g) σ := by
        intro n k hk
        by_cases hn : xn = n
        · subst hn
          rw [Subst.get?_set_self] at hk; cases hk
          exact ⟨k', hσ, StructEq.symm _ _ hse⟩
        · rw [Subst.get?_set_ne _ _ _ _ hn] at hk; exact hle n k hk
      have hgr := Subst.ground_set (n := xn) hm hg hw
      cases hk : m.get? xn with
      | none => exact ⟨g, m.set xn g, rfl, hle', hgr, rfl⟩
      | some k =>
        obtain ⟨k'', hk'', e⟩ := hle xn k hk
        rw [hσ] at hk''; cases hk''
        have : tyEq k g = true :=
          tyEq_complete k g (hm xn k hk).2 (StructEq.trans _ _ _ e hse)
        simp only [this, Bool.not_true, Bool.false_eq_true, if_false]
        exact ⟨g, m.set xn g, rfl, hle', hgr, rfl⟩
  · rw [unify_nonvar f p g m hp hgk]
    have hk : p.kind = g.kind := (substG_kind_of_nonvar σ hp).symm.trans hse.kind_eq
    by_cases hprim : p.isPrimitive = true
    · have : (p.isPrimitive && g.isPrimitive && p.kind == g.kind) = true := by
        simp only [Ty.isPrimitive, ← hk] at hprim ⊢; simp [hprim]
      simp only [this, if_true]
      exact ⟨p, m, rfl, hle, hm, hk⟩
    · have h1 : (p.isPrimitive && g.isPrimitive && p.kind == g.kind) = false := by
        simp [hprim]
      simp only [h1, Bool.false_eq_true, if_false]
      by_cases hcomp : p.isComposite = true
      · have : (p.isComposite && g.isComposite && p.kind == g.kind) = true := by
          simp only [Ty.isComposite, ← hk] at hcomp ⊢; simp [hcomp]
        simp only [this, if_true]
        exact hc p g m σ hg hw hm hle hpw hse hs hcomp
      · have h2 : (p.isComposite && g.isComposite && p.kind == g.kind) = false := by
          simp [hcomp]
        simp only [h2, Bool.false_eq_true, if_false]
        have : (g.kind == Kind.bot || p.kind == Kind.top) = true := by
          rw [← hk]
          cases p <;> simp [Ty.kind, Ty.isPrimitive, Ty.isComposite, Kind.isPrimitive,
            Kind.isComposite] at hp hprim hcomp ⊢
        simp only [this, if_true]
        exact ⟨p, m, rfl, hle, hm, hk⟩

theorem ucomplete_list {f : Nat} (hu : UComplete f) : ∀ ps gs m σ,
    slotFreeList gs = true → wfList gs = true → Subst.Ground m → Subst.le m σ →
    wfList (substGList σ ps) = true → StructEqList (substGList σ ps) gs → sizeOf gs ≤ f →
    ∃ ts m', unifyList f ps gs m = .ok (ts, m') ∧ Subst.le m' σ ∧ Subst.Ground m'
  | .nil, _, m, σ, _, _, hm, hle, _, hse, _ => by
    simp only [substGList] at hse
    cases hse
    exact ⟨.nil, m, by simp [unifyList], hle, hm⟩
  | .cons p ps, _, m, σ, hg, hw, hm, hle, hpw, hse, hs => by
    simp only [substGList] at hse hpw
    cases hse with
    | cons h1 h2 =>
      rename_i g gs
      simp only [slotFreeList, Bool.and_eq_true] at hg
      simp only [wfList, Bool.and_eq_true] at hw hpw
      simp only [TyList.cons.sizeOf_spec] at hs
      obtain ⟨t, m1, e1, hle1, hm1, _⟩ := hu p g m σ hg.1 hw.1 hm hle hpw.1 h1 (by omega)
      obtain ⟨ts, m2, e2, hle2, hm2⟩ :=
        ucomplete_list hu ps gs m1 σ hg.2 hw.2 hm1 hle1 hpw.2 h2 (by omega)
      exact ⟨.cons t ts, m2, by simp only [unifyList, e1, e2, UM.ok_bind]; rfl, hle2, hm2⟩

theorem ucomplete_params {f : Nat} (hu : UComplete f) : ∀ ps gs m σ,
    slotFreeList gs = true → wfList gs = true → Subst.Ground m → Subst.le m σ →
    wfList (substGList σ ps) = true → StructEqList (substGList σ ps) gs → sizeOf gs ≤ f →
    ∃ ts m', unifyParams f ps gs m = .ok (ts, m') ∧ Subst.le m' σ ∧ Subst.Ground m'
  | .nil, _, m, σ, _, _, hm, hle, _, hse, _ => by
    simp only [substGList] at hse
    cases hse
    exact ⟨.nil, m, by simp [unifyParams], hle, hm⟩
  | .cons p ps, _, m, σ, hg, hw, hm, hle, hpw, hse, hs => by
    simp only [substGList] at hse hpw
    cases hse with
    | cons h1 h2 =>
      rename_i g gs
      simp only [slotFreeList, Bool.and_eq_true] at hg
      simp only [wfList, Bool.and_eq_true] at hw hpw
      simp only [TyList.cons.sizeOf_spec] at hs
      cases f with
      | zero => omega
      | succ f' =>
      have ep := applySubst_ok hm hle f' p hpw.1
      have eg := applySubst_ground_ok (f'+1) m g hg.1 hw.1
      obtain ⟨t, m1, e1, hle1, hm1, _⟩ := hu (substG m p) g m σ hg.1 hw.1 hm hle
        (wf_substG_substG hm hle p hpw.1)
        (StructEq.trans _ _ _ (substG_substG hm hle p) h1) (by omega)
      obtain ⟨ts, m2, e2, hle2, hm2⟩ :=
        ucomplete_params hu ps gs m1 σ hg.2 hw.2 hm1 hle1 hpw.2 h2 (by omega)
      exact ⟨.cons t ts, m2, by simp only [unifyParams, ep, eg, e1, e2, UM.ok_bind]; rfl,
        hle2, hm2⟩

theorem ucomplete_fields {f : Nat} (hu : UComplete f) : ∀ (fs gs : FieldList) m σ,
    slotFreeFields gs = true → wfFields gs = true → Subst.Ground m → Subst.le m σ →
    wfFields (substGFields σ fs) = true →
    (∀ n t, fs.find? n = some t → ∃ u, gs.find? n = some u ∧ StructEq (substG σ t) u) →
    sizeOf gs ≤ f →
    ∃ fs' m', unifyFields f fs gs m = .ok (fs', m') ∧ Subst.le m' σ ∧ Subst.Ground m'
  | .nil, gs, m, σ, _, _, hm, hle, _, _, _ => ⟨.nil, m, by simp [unifyFields], hle, hm⟩
  | .cons k t rest, gs, m, σ, hg, hw, hm, hle, hpw, hall, hs => by
    simp only [substGFields, wfFields, Bool.and_eq_true] at hpw
    obtain ⟨u, hu', hse⟩ := hall k t (FieldList.find?_cons_self k t rest)
    have hgu := slotFreeFields_find gs k u hg hu'
    have hwu := wfFields_find gs k u hw hu'
    have hsz := FieldList.find?_sizeOf gs k u hu'
    obtain ⟨t', m1, e1, hle1, hm1, _⟩ := hu t u m σ hgu hwu hm hle hpw.1.2 hse (by omega)
    have hnone : rest.find? k = none := by
      have := hpw.1.1
      simpa [find?_substGFields] using this
    obtain ⟨fs1, m2, e2, hle2, hm2⟩ := ucomplete_fields hu rest gs m1 σ hg hw hm1 hle1 hpw.2
      (fun n t0 ht0 => hall n t0 (by
        have hne : k ≠ n := by rintro rfl; rw [hnone] at ht0; cases ht0
        rw [FieldList.find?_cons_ne t rest hne]; exact ht0)) hs
    exact ⟨.cons k t' fs1, m2, by simp only [unifyFields, hu', e1, e2, UM.ok_bind]; rfl,
      hle2, hm2⟩

theorem ucomplete_comp {f : Nat} (hu : UComplete f) : UCompleteComp f := by
  intro p g m σ hg hw hm hle hpw hse hs hcomp
  cases p with
  | list a =>
    simp only [substG] at hse hpw
    cases hse with
    | list h1 =>
      rename_i b
      simp only [Ty.list.sizeOf_spec] at hs
      obtain ⟨el, m1, e1, hle1, hm1, _⟩ := hu a b m σ (by simpa [slotFree] using hg)
        (by simpa [Ty.wf] using hw) hm hle (by simpa [Ty.wf] using hpw) h1 (by omega)
      exact ⟨.list el, m1, by simp only [unifyComposite, e1, UM.ok_bind]; rfl, hle1, hm1, rfl⟩
  | maybe a =>
    simp only [substG] at hse hpw
    cases hse with
    | maybe h1 =>
      rename_i b
      simp only [Ty.maybe.sizeOf_spec] at hs
      obtain ⟨el, m1, e1, hle1, hm1, _⟩ := hu a b m σ (by simpa [slotFree] using hg)
        (by simpa [Ty.wf] using hw) hm hle (by simpa [Ty.wf] using hpw) h1 (by omega)
      exact ⟨.maybe el, m1, by simp only [unifyComposite, e1, UM.ok_bind]; rfl, hle1, hm1, rfl⟩
  | map k v =>
    simp only [substG] at hse hpw
    cases hse with
    | map h1 h2 =>
      rename_i k' v'
      simp only [slotFree, Bool.and_eq_true] at hg
      simp only [Ty.wf, Bool.and_eq_true] at hw hpw
      simp only [Ty.map.sizeOf_spec] at hs
      obtain ⟨k1, m1, e1, hle1, hm1, hk1⟩ := hu k k' m σ hg.1 hw.1.2 hm hle hpw.1.2 h1
        (by omega)
      obtain ⟨v1, m2, e2, hle2, hm2, _⟩ := hu v v' m1 σ hg.2 hw.2 hm1 hle1 hpw.2 h2 (by omega)
      have hkey : k1.keyable = true := by rw [keyable_of_kind_eq hk1]; exact hw.1.1
      exact ⟨.map k1 v1, m2, by
        simp only [unifyComposite, e1, e2, UM.ok_bind, mkMap, hkey, if_true]; rfl,
        hle2, hm2, rfl⟩
  | tuple xs =>
    simp only [substG] at hse hpw
    cases hse with
    | tuple h1 =>
      rename_i ys
      simp only [Ty.tuple.sizeOf_spec] at hs
      have hl : xs.length = ys.length := by
        rw [← length_substGList σ xs]; exact StructEqList.length_eq _ _ h1
      obtain ⟨ts, m1, e1, hle1, hm1⟩ := ucomplete_list hu xs ys m σ
        (by simpa [slotFree] using hg) (by simpa [Ty.wf] using hw) hm hle
        (by simpa [Ty.wf] using hpw) h1 (by omega)
      exact ⟨.tuple ts, m1, by
        simp only [unifyComposite, hl, bne_self_eq_false, Bool.false_eq_true, if_false, e1,
          UM.ok_bind]; rfl, hle1, hm1, rfl⟩
  | obj xfs =>
    simp only [substG] at hse hpw
    cases hse with
    | obj hl hsome hrel =>
      rename_i yfs
      simp only [Ty.obj.sizeOf_spec] at hs
      rw [length_substGFields] at hl
      obtain ⟨fs, m1, e1, hle1, hm1⟩ := ucomplete_fields hu xfs yfs m σ
        (by simpa [slotFree] using hg) (by simpa [Ty.wf] using hw) hm hle
        (by simpa [Ty.wf] using hpw)
        (fun n t ht => by
          have h1 : (substGFields σ xfs).find? n = some (substG σ t) := by
            rw [find?_substGFields, ht]; rfl
          have h2 : (yfs.find? n).isSome = true := by rw [← hsome n, h1]; rfl
          obtain ⟨u, hu'⟩ := Option.isSome_iff_exists.1 h2
          exact ⟨u, hu', hrel n _ u h1 hu'⟩) (by omega)
      exact ⟨.obj fs, m1, by
        simp only [unifyComposite, hl, bne_self_eq_false, Bool.false_eq_true, if_false, e1,
          UM.ok_bind]; rfl, hle1, hm1, rfl⟩
  | fn name ps r =>
    simp only [substG] at hse hpw
    cases hse with
    | fn h1 h2 =>
      rename_i name' qs s
      simp only [slotFree, Bool.and_eq_true] at hg
      simp only [Ty.wf, Bool.and_eq_true] at hw hpw
      simp only [Ty.fn.sizeOf_spec] at hs
      have hl : ps.length = qs.length := by
        rw [← length_substGList σ ps]; exact StructEqList.length_eq _ _ h1
      obtain ⟨ps', m1, e1, hle1, hm1⟩ := ucomplete_params hu ps qs m σ hg.1 hw.1 hm hle hpw.1
        h1 (by omega)
      obtain ⟨r', m2, e2, hle2, hm2, _⟩ := hu r s m1 σ hg.2 hw.2 hm1 hle1 hpw.2 h2 (by omega)
      exact ⟨.fn name ps' r', m2, by
        simp only [unifyComposite, hl, bne_self_eq_false, Bool.false_eq_true, if_false, e1, e2,
          UM.ok_bind]; rfl, hle2, hm2, rfl⟩
  | _ => simp [Ty.isComposite, Ty.kind, Kind.isComposite] at hcomp

theorem ucomplete : ∀ f, UComplete f
  | 0 => ucomplete_zero
  | f+1 => ucomplete_succ (ucomplete_comp (ucomplete f))

mutual
/-- An instance of a well-formed pattern that is structurally equal to a well-formed type is
well formed (map keys stay keyable because `g`'s are). -/
theorem wf_substG_of_structEq {σ : Subst} (hσ : σ.Ground) : ∀ p g, p.wf = true → g.wf = true →
    StructEq (substG σ p) g → (substG σ p).wf = true
  | .var n, _, _, _, _ => by
    simp only [substG]
    cases hn : σ.get? n with
    | none => rfl
    | some k => exact (hσ n k hn).2
  | .top, _, _, _, _ | .bot, _, _, _, _ | .num, _, _, _, _ | .str, _, _, _, _
  | .bool, _, _, _, _ | .time, _, _, _, _ => by simp [substG, Ty.wf]
  | .tuple ts, _, hp, hg, h => by
    simp only [substG] at h ⊢
    cases h with
    | tuple h =>
      simp only [Ty.wf] at hp hg ⊢
      exact wf_substGList_of_structEq hσ ts _ hp hg h
  | .list a, _, hp, hg, h => by
    simp only [substG] at h ⊢
    cases h with
    | list h =>
      simp only [Ty.wf] at hp hg ⊢
      exact wf_substG_of_structEq hσ a _ hp hg h
  | .map k v, _, hp, hg, h => by
    simp only [substG] at h ⊢
    cases h with
    | map h1 h2 =>
      simp only [Ty.wf, Bool.and_eq_true] at hp hg ⊢
      refine ⟨⟨?_, wf_substG_of_structEq hσ k _ hp.1.2 hg.1.2 h1⟩,
        wf_substG_of_structEq hσ v _ hp.2 hg.2 h2⟩
      rw [keyable_of_kind_eq h1.kind_eq]; exact hg.1.1
  | .obj fs, _, hp, hg, h => by
    simp only [substG] at h ⊢
    cases h with
    | obj hl hs hr =>
      rename_i gs
      simp only [Ty.wf] at hp hg ⊢
      refine wf_substGFields_of_structEq hσ fs hp (fun n t ht => ?_)
      have h1 : (substGFields σ fs).find? n = some (substG σ t) := by
        rw [find?_substGFields, ht]; rfl
      have h2 : (gs.find? n).isSome = true := by rw [← hs n, h1]; rfl
      obtain ⟨u, hu⟩ := Option.isSome_iff_exists.1 h2
      exact ⟨u, wfFields_find gs n u hg hu, hr n _ u h1 hu⟩
  | .fn _ ps r, _, hp, hg, h => by
    simp only [substG] at h ⊢
    cases h with
    | fn h1 h2 =>
      simp only [Ty.wf, Bool.and_eq_true] at hp hg ⊢
      exact ⟨wf_substGList_of_structEq hσ ps _ hp.1 hg.1 h1,
        wf_substG_of_structEq hσ r _ hp.2 hg.2 h2⟩
  | .maybe a, _, hp, hg, h => by
    simp only [substG] at h ⊢
    cases h with
    | maybe h =>
      simp only [Ty.wf] at hp hg ⊢
      exact wf_substG_of_structEq hσ a _ hp hg h
theorem wf_substGList_of_structEq {σ : Subst} (hσ : σ.Ground) : ∀ ps gs, wfList ps = true →
    wfList gs = true → StructEqList (substGList σ ps) gs → wfList (substGList σ ps) = true
  | .nil, _, _, _, _ => by simp [substGList, wfList]
  | .cons p ps, _, hp, hg, h => by
    simp only [substGList] at h ⊢
    cases h with
    | cons h1 h2 =>
      simp only [wfList, Bool.and_eq_true] at hp hg ⊢
      exact ⟨wf_substG_of_structEq hσ p _ hp.1 hg.1 h1,
        wf_substGList_of_structEq hσ ps _ hp.2 hg.2 h2⟩
theorem wf_substGFields_of_structEq {σ : Subst} (hσ : σ.Ground) : ∀ (fs : FieldList),
    wfFields fs = true →
    (∀ n t, fs.find? n = some t → ∃ u, u.wf = true ∧ StructEq (substG σ t) u) →
    wfFields (substGFields σ fs) = true
  | .nil, _, _ => by simp [substGFields, wfFields]
  | .cons k t rest, hp, hall => by
    simp only [wfFields, Bool.and_eq_true] at hp
    simp only [substGFields, wfFields, Bool.and_eq_true]
    obtain ⟨u, hu, hse⟩ := hall k t (FieldList.find?_cons_self k t rest)
    refine ⟨⟨?_, wf_substG_of_structEq hσ t u hp.1.2 hu hse⟩,
      wf_substGFields_of_structEq hσ rest hp.2 (fun n t0 ht0 => hall n t0 ?_)⟩
    · simpa [find?_substGFields] using hp.1.1
    · have hne : k ≠ n := by
        rintro rfl
        have := hp.1.1
        simp [ht0] at this
      rw [FieldList.find?_cons_ne t rest hne]; exact ht0
end

/-! ### the empty-container element type `⊥` -/

theorem unify_bot_right' (f : Nat) (p : Ty) (m : Subst) (hp : p.kind ≠ .tyvar) :
    unify (f+1) p .bot m = .ok (p, m) := by
  rw [unify_nonvar f p .bot m hp (by simp [Ty.kind])]
  cases p <;> first | (exfalso; exact hp rfl) | rfl

theorem unify_bot_left' (f : Nat) (g : Ty) (m : Subst) (hg : g.kind ≠ .tyvar) :
    unify (f+1) .bot g m = if g.kind = .bot then .ok (.bot, m) else .error .fail := by
  rw [unify_nonvar f .bot g m (by simp [Ty.kind]) hg]
  cases g <;> first | (exfalso; exact hg rfl) | rfl

/-! ### property-level packaging (used by `Props/C17`) -/

theorem match_sound' {fuel : Nat} {p g t : Ty} {m m' : Subst}
    (hg : slotFree g = true) (hgw : g.wf = true) (hm : m.Ground)
    (h : unify fuel p g m = .ok (t, m')) :
    (∀ n k, m.get? n = some k → ∃ k', m'.get? n = some k' ∧ tyEq k k' = true) ∧
    m'.Ground ∧
    (∀ fuel' p', applySubst fuel' m' p = .ok p' → Below p' g) ∧
    (∀ fuel', applySubst (fuel'+1) m' p ≠ .error .fuel) := by
  obtain ⟨hm', hle, hb⟩ := usound fuel p g m t m' hg hgw hm h
  refine ⟨fun n k hk => ?_, hm', fun fuel' p' hp' => ?_,
    fun fuel' => applySubst_ne_fuel fuel' m' hm' p⟩
  · obtain ⟨k', hk', e⟩ := hle n k hk
    exact ⟨k', hk', tyEq_complete k k' (hm n k hk).2 e⟩
  · rw [applySubst_eq_substG m' hm' fuel' p p' hp']; exact hb

theorem match_complete' {fuel : Nat} {p g : Ty} {m σ : Subst}
    (hg : slotFree g = true) (hgw : g.wf = true) (hp : p.wf = true)
    (hm : m.Ground) (hσ : σ.Ground)
    (hle : ∀ n k, m.get? n = some k → ∃ k', σ.get? n = some k' ∧ tyEq k k' = true)
    (hinst : ∃ fuel' p', applySubst fuel' σ p = .ok p' ∧ StructEq p' g)
    (hf : sizeOf g ≤ fuel) :
    ∃ t m', unify fuel p g m = .ok (t, m') ∧
      (∀ n k, m'.get? n = some k → ∃ k', σ.get? n = some k' ∧ tyEq k k' = true) := by
  obtain ⟨fuel', p', hp', hse⟩ := hinst
  rw [applySubst_eq_substG σ hσ fuel' p p' hp'] at hse
  have hle' : Subst.le m σ := by
    intro n k hk
    obtain ⟨k', hk', e⟩ := hle n k hk
    exact ⟨k', hk', tyEq_sound k k' (hm n k hk).2 e⟩
  obtain ⟨t, m', e, hle'', hm', _⟩ := ucomplete fuel p g m σ hg hgw hm hle'
    (wf_substG_of_structEq hσ p g hp hgw hse) hse hf
  refine ⟨t, m', e, fun n k hk => ?_⟩
  obtain ⟨k', hk', e'⟩ := hle'' n k hk
  exact ⟨k', hk', tyEq_complete k k' (hm' n k hk).2 e'⟩

end Yae
