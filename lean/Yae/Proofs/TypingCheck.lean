/-
  Lemmas for C05: the checker `check` against the declarative relation `Typed`.
-/
import Yae.Spec.Typing
namespace Yae

/-! ### `Except` plumbing for the checker monad -/

theorem CR.bind_eq_ok {α β : Type} {a : CR α} {f : α → CR β} {v : β} :
    (a >>= f) = .ok v ↔ ∃ x, a = .ok x ∧ f x = .ok v := by
  cases a <;> simp [bind, Except.bind]

@[simp] theorem CR.ok_bind {α β : Type} (x : α) (f : α → CR β) :
    ((Except.ok x : CR α) >>= f) = f x := rfl

@[simp] theorem CR.error_bind {α β : Type} (e : CheckErr) (f : α → CR β) :
    ((Except.error e : CR α) >>= f) = .error e := rfl

@[simp] theorem CR.pure_eq_ok {α : Type} {x v : α} : (pure x : CR α) = .ok v ↔ x = v := by
  simp [pure, Except.pure]

@[simp] theorem CR.throw_ne_ok {α : Type} {e : CheckErr} {v : α} : (throw e : CR α) ≠ .ok v := by
  simp [throw, throwThe, MonadExceptOf.throw]

theorem CR.throw_eq {α : Type} (e : CheckErr) : (throw e : CR α) = .error e := rfl
theorem CR.pure_eq {α : Type} (x : α) : (pure x : CR α) = .ok x := rfl

/-! ### small facts about the helper functions of the checker -/

theorem typeAssert_ok {a b : Ty} : typeAssert a b = .ok () ↔ tyEq a b = true := by
  unfold typeAssert
  split <;> simp_all [CR.pure_eq, CR.throw_eq]

theorem typeAssert_of {a b : Ty} (h : tyEq a b = true) : typeAssert a b = .ok () :=
  typeAssert_ok.2 h

theorem assertParams_ok : ∀ (ps as : TyList), ps.length = as.length →
    (assertParams ps as = .ok () ↔ tyEqList ps as = true)
  | .nil, .nil, _ => by simp [assertParams, tyEqList, CR.pure_eq]
  | .nil, .cons _ _, h => by simp [TyList.length] at h
  | .cons _ _, .nil, h => by simp [TyList.length] at h
  | .cons p ps, .cons a as, h => by
    simp only [TyList.length, Nat.add_right_cancel_iff] at h
    simp only [assertParams, CR.bind_eq_ok, tyEqList, Bool.and_eq_true]
    constructor
    · rintro ⟨_, h1, h2⟩
      exact ⟨typeAssert_ok.1 h1, (assertParams_ok ps as h).1 h2⟩
    · rintro ⟨h1, h2⟩
      exact ⟨(), typeAssert_of h1, (assertParams_ok ps as h).2 h2⟩

theorem wfFieldsShallow_iff : ∀ fs : FieldList,
    mkObj.wfFieldsShallow fs = true ↔ fs.names.Nodup
  | .nil => by simp [mkObj.wfFieldsShallow, FieldList.names]
  | .cons n t fs => by
    simp only [mkObj.wfFieldsShallow, FieldList.names, Bool.and_eq_true, List.nodup_cons,
      wfFieldsShallow_iff fs]
    have := FieldList.find?_isSome_iff fs n
    constructor
    · rintro ⟨h1, h2⟩
      refine ⟨fun hmem => ?_, h2⟩
      have := this.2 hmem
      simp_all
    · rintro ⟨h1, h2⟩
      refine ⟨?_, h2⟩
      cases hf : fs.find? n with
      | none => rfl
      | some u => exact absurd (this.1 (by simp [hf])) h1

theorem mkObj_ok {fs : FieldList} {T : Ty} : mkObj fs = .ok T ↔ fs.names.Nodup ∧ T = .obj fs := by
  unfold mkObj
  rw [← wfFieldsShallow_iff]
  split
  · next h => simp [h, CR.pure_eq]; exact eq_comm
  · next h => simp [h, CR.throw_eq]

theorem find?_indexOf? : ∀ (fs : FieldList) (f : String) (T : Ty), fs.find? f = some T →
    ∃ i, fs.indexOf? f = some i
  | .nil, _, _, h => by simp [FieldList.find?] at h
  | .cons n t fs, f, T, h => by
    simp only [FieldList.find?] at h
    simp only [FieldList.indexOf?]
    split
    · exact ⟨0, rfl⟩
    · next hne =>
      rw [if_neg hne] at h
      obtain ⟨i, hi⟩ := find?_indexOf? fs f T h
      exact ⟨i+1, by simp [hi]⟩

/-! ### the types expressions can have: variable free, well formed, no function type inside -/

mutual
def noFn : Ty → Bool
  | .fn _ _ _ => false
  | .tuple ts => noFnList ts
  | .list el => noFn el
  | .map k v => noFn k && noFn v
  | .obj fs => noFnFields fs
  | .maybe el => noFn el
  | _ => true
def noFnList : TyList → Bool
  | .nil => true
  | .cons t ts => noFn t && noFnList ts
def noFnFields : FieldList → Bool
  | .nil => true
  | .cons _ t fs => noFn t && noFnFields fs
end

def TyOK (T : Ty) : Bool := slotFree T && T.wf && noFn T
def TyOKList (Ts : TyList) : Bool := slotFreeList Ts && wfList Ts && noFnList Ts

theorem TyOK_iff {T : Ty} : TyOK T = true ↔ slotFree T = true ∧ T.wf = true ∧ noFn T = true := by
  simp [TyOK, and_assoc]

theorem TyOKList_iff {Ts : TyList} :
    TyOKList Ts = true ↔ slotFreeList Ts = true ∧ wfList Ts = true ∧ noFnList Ts = true := by
  simp [TyOKList, and_assoc]

theorem TyOKList_cons {T : Ty} {Ts : TyList} :
    TyOKList (.cons T Ts) = true ↔ TyOK T = true ∧ TyOKList Ts = true := by
  simp only [TyOKList_iff, TyOK_iff, slotFreeList, wfList, noFnList, Bool.and_eq_true]
  constructor
  · rintro ⟨⟨a, b⟩, ⟨c, d⟩, e, f⟩; exact ⟨⟨a, c, e⟩, b, d, f⟩
  · rintro ⟨⟨a, c, e⟩, b, d, f⟩; exact ⟨⟨a, b⟩, ⟨c, d⟩, e, f⟩

theorem noFnFields_find : ∀ (fs : FieldList) (n : String) (t : Ty),
    noFnFields fs = true → fs.find? n = some t → noFn t = true
  | .nil, _, _, _, h => by simp [FieldList.find?] at h
  | .cons m u fs, n, t, hs, h => by
    simp only [noFnFields, Bool.and_eq_true] at hs
    simp only [FieldList.find?] at h
    split at h
    · cases h; exact hs.1
    · exact noFnFields_find fs n t hs.2 h

/-- what the specification says one overload attempt returns -/
def specInfer (ps : TyList) (ret : Ty) (As : TyList) : UM (TyList × Ty) :=
  match instantiate ps ret As with
  | some r => .ok r
  | none => .error .fail

/-- The signature `(ps) → ret` behaves as specified: on argument types expressions can have,
`inferFun` (for every value of the type-variable counter) either runs out of fuel or returns
what `instantiate` says, and an instantiated result is again a type expressions can have. -/
def PolyOK (name : String) (ps : TyList) (ret : Ty) : Prop :=
  ∀ As, TyOKList As = true →
    (∀ ctr, inferFun ctr name ps ret As = .error .fuel ∨
            inferFun ctr name ps ret As = specInfer ps ret As) ∧
    (∀ ps' T, instantiate ps ret As = some (ps', T) → TyOK T = true)

/-- Environments the theorems cover: variable types are variable free, well formed and contain
no function type; every registered function has a function type; a monomorphic one has such a
result type; a polymorphic one behaves as specified (`PolyOK`, a consequence of `SigOK`). -/
structure EnvOK (Γ : TEnv) : Prop where
  vars : ∀ x T, Γ.lookupVar x = some T → TyOK T = true
  funs : ∀ d ∈ Γ.funs, ∃ name ps ret, d.ty = .fn name ps ret ∧
    (slotFree d.ty = true → TyOK ret = true) ∧
    (slotFree d.ty = false → PolyOK name ps ret)

/-! ### the overload table -/

theorem key_mono {d : FunDecl} {k : String} {name ps ret} (hd : d.ty = .fn name ps ret)
    (hk : (d.key == (k, true)) = true) : slotFree d.ty = true := by
  unfold FunDecl.key at hk
  rw [hd] at hk
  simp only [overloadKey] at hk
  rw [hd]
  by_cases h : slotFree (.fn name ps ret) = true
  · exact h
  · rw [if_neg h] at hk; simp at hk

theorem key_poly {d : FunDecl} {k : String} {name ps ret} (hd : d.ty = .fn name ps ret)
    (hk : (d.key == (k, false)) = true) : slotFree d.ty = false := by
  unfold FunDecl.key at hk
  rw [hd] at hk
  simp only [overloadKey] at hk
  rw [hd]
  by_cases h : slotFree (.fn name ps ret) = true
  · rw [if_pos h] at hk; simp at hk
  · simpa using h

theorem lookupMono_mem {funs : List FunDecl} {k : String} {d : FunDecl}
    (h : lookupMono funs k = some d) : d ∈ funs ∧ (d.key == (k, true)) = true := by
  unfold lookupMono at h
  have := List.mem_of_getLast? h
  simpa [List.mem_filter] using this

theorem lookupPoly_mem {funs : List FunDecl} {k : String} {d : FunDecl}
    (h : d ∈ lookupPoly funs k) : d ∈ funs ∧ (d.key == (k, false)) = true := by
  unfold lookupPoly at h
  simpa [List.mem_filter] using h

/-! ### the annotated tree is the input tree plus attachments -/

mutual
theorem check_erase (Γ : TEnv) : ∀ (e : Expr) (c : Nat) (T : Ty) (e' : Expr) (c' : Nat),
    check Γ c e = .ok (T, e', c') → erase e' = erase e
  | .str _ _, _, _, _, _, h | .num _ _, _, _, _, _, h | .time _ _, _, _, _, _, h
  | .bool _ _, _, _, _, _, h => by
    simp only [check, CR.pure_eq_ok, Prod.mk.injEq] at h
    rw [← h.2.1]
  | .list p .nil ty, c, T, e', c', h => by
    simp only [check, CR.pure_eq_ok, Prod.mk.injEq] at h
    rw [← h.2.1]; rfl
  | .list p (.cons e es) ty, c, T, e', c', h => by
    simp only [check, CR.bind_eq_ok, CR.pure_eq_ok, Prod.mk.injEq] at h
    obtain ⟨⟨T1, e1, c1⟩, h1, ⟨es1, c2⟩, h2, h3⟩ := h
    rw [← h3.2.1]
    simp only [erase, eraseList, check_erase Γ e _ _ _ _ h1, checkElems_erase Γ es _ _ _ _ h2]
  | .map p .nil ty, c, T, e', c', h => by
    simp only [check, CR.pure_eq_ok, Prod.mk.injEq] at h
    rw [← h.2.1]; rfl
  | .map p (.cons k v ps) ty, c, T, e', c', h => by
    simp only [check] at h
    obtain ⟨⟨T1, k1, c1⟩, h1, h⟩ := CR.bind_eq_ok.1 h
    split at h
    · exact absurd h (by simp [CR.throw_eq])
    simp only [CR.bind_eq_ok] at h
    obtain ⟨⟨T2, v1, c2⟩, h3, ⟨ps1, c3⟩, h4, h5⟩ := h
    simp only [CR.pure_eq_ok, Prod.mk.injEq] at h5
    rw [← h5.2.1]
    simp only [erase, erasePairs, check_erase Γ k _ _ _ _ h1, check_erase Γ v _ _ _ _ h3,
      checkPairs_erase Γ ps _ _ _ _ _ h4]
  | .obj p fs ty, c, T, e', c', h => by
    simp only [check, CR.bind_eq_ok] at h
    obtain ⟨⟨tys, fs1, c1⟩, h1, ty1, h2, h3⟩ := h
    simp only [CR.pure_eq_ok, Prod.mk.injEq] at h3
    rw [← h3.2.1]
    simp only [erase, checkFields_erase Γ fs _ _ _ _ h1]
  | .ident p x, c, T, e', c', h => by
    simp only [check] at h
    split at h
    · exact absurd h (by simp [CR.throw_eq])
    split at h
    · simp only [CR.pure_eq_ok, Prod.mk.injEq] at h
      rw [← h.2.1]
    · exact absurd h CR.throw_ne_ok
  | .call p col callee args cty res idx, c, T, e', c', h => by
    simp only [check] at h
    obtain ⟨⟨As, args1, c1⟩, h1, h⟩ := CR.bind_eq_ok.1 h
    have ha := checkArgs_erase Γ args _ _ _ _ h1
    split at h
    · next cp fname =>
      obtain ⟨⟨r, c2⟩, h2, h⟩ := CR.bind_eq_ok.1 h
      split at h
      · exact absurd h (by simp [CR.throw_eq])
      obtain ⟨_, h3, h⟩ := CR.bind_eq_ok.1 h
      simp only [CR.pure_eq_ok, Prod.mk.injEq] at h
      rw [← h.2.1]
      simp only [erase, ha]
    · obtain ⟨⟨fT, callee1, c2⟩, h2, h⟩ := CR.bind_eq_ok.1 h
      have hc := check_erase Γ callee _ _ _ _ h2
      split at h
      · obtain ⟨o, h3, h⟩ := CR.bind_eq_ok.1 h
        split at h
        · exact absurd h CR.throw_ne_ok
        · split at h
          · exact absurd h (by simp [CR.throw_eq])
          obtain ⟨_, h4, h⟩ := CR.bind_eq_ok.1 h
          simp only [CR.pure_eq_ok, Prod.mk.injEq] at h
          rw [← h.2.1]
          simp only [erase, ha, hc]
      · exact absurd h CR.throw_ne_ok
  | .subscript p col v i vty, c, T, e', c', h => by
    simp only [check] at h
    obtain ⟨⟨T1, v1, c1⟩, h1, h⟩ := CR.bind_eq_ok.1 h
    have hv := check_erase Γ v _ _ _ _ h1
    split at h
    · obtain ⟨⟨T2, i1, c2⟩, h2, h⟩ := CR.bind_eq_ok.1 h
      obtain ⟨_, h3, h⟩ := CR.bind_eq_ok.1 h
      simp only [CR.pure_eq_ok, Prod.mk.injEq] at h
      rw [← h.2.1]
      simp only [erase, hv, check_erase Γ i _ _ _ _ h2]
    · obtain ⟨⟨T2, i1, c2⟩, h2, h⟩ := CR.bind_eq_ok.1 h
      obtain ⟨_, h3, h⟩ := CR.bind_eq_ok.1 h
      simp only [CR.pure_eq_ok, Prod.mk.injEq] at h
      rw [← h.2.1]
      simp only [erase, hv, check_erase Γ i _ _ _ _ h2]
    · exact absurd h CR.throw_ne_ok
  | .member p col o f fp oty idx, c, T, e', c', h => by
    simp only [check] at h
    obtain ⟨⟨T1, o1, c1⟩, h1, h⟩ := CR.bind_eq_ok.1 h
    have ho := check_erase Γ o _ _ _ _ h1
    split at h
    · split at h
      · simp only [CR.pure_eq_ok, Prod.mk.injEq] at h
        rw [← h.2.1]
        simp only [erase, ho]
      · exact absurd h CR.throw_ne_ok
    · exact absurd h CR.throw_ne_ok
  | .unary .., _, _, _, _, h | .binary .., _, _, _, _, h | .ternary .., _, _, _, _, h
  | .group .., _, _, _, _, h => by
    simp only [check] at h
    exact absurd h CR.throw_ne_ok
theorem checkElems_erase (Γ : TEnv) : ∀ (es : ExprList) (c : Nat) (T : Ty) (es' : ExprList)
    (c' : Nat), checkElems Γ c T es = .ok (es', c') → eraseList es' = eraseList es
  | .nil, _, _, _, _, h => by
    simp only [checkElems, CR.pure_eq_ok, Prod.mk.injEq] at h
    rw [← h.1]
  | .cons e es, c, T, es', c', h => by
    simp only [checkElems, CR.bind_eq_ok] at h
    obtain ⟨⟨T1, e1, c1⟩, h1, _, h2, ⟨es1, c2⟩, h3, h4⟩ := h
    simp only [CR.pure_eq_ok, Prod.mk.injEq] at h4
    rw [← h4.1]
    simp only [eraseList, check_erase Γ e _ _ _ _ h1, checkElems_erase Γ es _ _ _ _ h3]
theorem checkPairs_erase (Γ : TEnv) : ∀ (ps : PairList) (c : Nat) (K V : Ty) (ps' : PairList)
    (c' : Nat), checkPairs Γ c K V ps = .ok (ps', c') → erasePairs ps' = erasePairs ps
  | .nil, _, _, _, _, _, h => by
    simp only [checkPairs, CR.pure_eq_ok, Prod.mk.injEq] at h
    rw [← h.1]
  | .cons k v ps, c, K, V, ps', c', h => by
    simp only [checkPairs, CR.bind_eq_ok] at h
    obtain ⟨⟨T1, k1, c1⟩, h1, _, h2, ⟨T2, v1, c2⟩, h3, _, h4, ⟨ps1, c3⟩, h5, h6⟩ := h
    simp only [CR.pure_eq_ok, Prod.mk.injEq] at h6
    rw [← h6.1]
    simp only [erasePairs, check_erase Γ k _ _ _ _ h1, check_erase Γ v _ _ _ _ h3,
      checkPairs_erase Γ ps _ _ _ _ _ h5]
theorem checkFields_erase (Γ : TEnv) : ∀ (fs : FieldEList) (c : Nat) (tys : FieldList)
    (fs' : FieldEList) (c' : Nat), checkFields Γ c fs = .ok (tys, fs', c') →
      eraseFields fs' = eraseFields fs
  | .nil, _, _, _, _, h => by
    simp only [checkFields, CR.pure_eq_ok, Prod.mk.injEq] at h
    rw [← h.2.1]
  | .cons n e fs, c, tys, fs', c', h => by
    simp only [checkFields, CR.bind_eq_ok] at h
    obtain ⟨⟨T1, e1, c1⟩, h1, ⟨tys1, fs1, c2⟩, h2, h3⟩ := h
    simp only [CR.pure_eq_ok, Prod.mk.injEq] at h3
    rw [← h3.2.1]
    simp only [eraseFields, check_erase Γ e _ _ _ _ h1, checkFields_erase Γ fs _ _ _ _ h2]
theorem checkArgs_erase (Γ : TEnv) : ∀ (es : ExprList) (c : Nat) (tys : TyList)
    (es' : ExprList) (c' : Nat), checkArgs Γ c es = .ok (tys, es', c') →
      eraseList es' = eraseList es
  | .nil, _, _, _, _, h => by
    simp only [checkArgs, CR.pure_eq_ok, Prod.mk.injEq] at h
    rw [← h.2.1]
  | .cons e es, c, tys, es', c', h => by
    simp only [checkArgs, CR.bind_eq_ok] at h
    obtain ⟨⟨T1, e1, c1⟩, h1, ⟨tys1, es1, c2⟩, h2, h3⟩ := h
    simp only [CR.pure_eq_ok, Prod.mk.injEq] at h3
    rw [← h3.2.1]
    simp only [eraseList, check_erase Γ e _ _ _ _ h1, checkArgs_erase Γ es _ _ _ _ h2]
end

/-! ### trying the polymorphic overloads in order -/

theorem FirstInst.det : ∀ {cands : List FunDecl} {As p1 T1 p2 T2},
    FirstInst cands As p1 T1 → FirstInst cands As p2 T2 → p1 = p2 ∧ T1 = T2
  | _ :: _, _, _, _, _, _, .here hd hi, .here hd' hi' => by
    rw [hd] at hd'; cases hd'; rw [hi] at hi'; cases hi'; exact ⟨rfl, rfl⟩
  | _ :: _, _, _, _, _, _, .here hd hi, .later hd' hi' _ => by
    rw [hd] at hd'; cases hd'; rw [hi] at hi'; cases hi'
  | _ :: _, _, _, _, _, _, .later hd hi _, .here hd' hi' => by
    rw [hd] at hd'; cases hd'; rw [hi] at hi'; cases hi'
  | _ :: _, _, _, _, _, _, .later _ _ h, .later _ _ h' => FirstInst.det h h'

theorem liftU_ok {α} (a : α) : liftU (.ok a : UM α) = .ok (some a) := rfl
theorem liftU_fail {α} : liftU (.error .fail : UM α) = .ok none := rfl
theorem liftU_fuel {α} : liftU (.error .fuel : UM α) = .error .fuel := rfl

/-- the candidates of a polymorphic lookup behave as specified -/
def CandsOK (cands : List FunDecl) : Prop :=
  ∀ d ∈ cands, ∃ name ps ret, d.ty = .fn name ps ret ∧ PolyOK name ps ret

theorem tryPoly_spec (As : TyList) (hAs : TyOKList As = true) :
    ∀ (cands : List FunDecl), CandsOK cands → ∀ ctr i,
      tryPoly ctr As cands i = .error .fuel ∨
      (∃ j ps' T name ctr', tryPoly ctr As cands i = .ok (some (j, ps', T, name), ctr') ∧
        FirstInst cands As ps' T) ∨
      (∃ ctr', tryPoly ctr As cands i = .ok (none, ctr') ∧ ∀ ps' T, ¬ FirstInst cands As ps' T)
  | [], _, ctr, i => .inr (.inr ⟨ctr, rfl, fun _ _ h => nomatch h⟩)
  | d :: rest, hc, ctr, i => by
    obtain ⟨name, ps, ret, hd, hp⟩ := hc d (List.mem_cons_self ..)
    have hrest : CandsOK rest := fun d' hd' => hc d' (List.mem_cons_of_mem _ hd')
    simp only [tryPoly, hd]
    rcases (hp As hAs).1 ctr with hf | hs
    · left; rw [hf, liftU_fuel]; rfl
    · rw [hs]
      unfold specInfer
      cases hi : instantiate ps ret As with
      | some r =>
        obtain ⟨ps', T⟩ := r
        right; left
        exact ⟨i, ps', T, name, _, by simp only [liftU_ok, CR.ok_bind]; rfl, .here hd hi⟩
      | none =>
        simp only [liftU_fail, CR.ok_bind]
        rcases tryPoly_spec As hAs rest hrest (ctr + As.length + 1) (i+1) with h | h | h
        · exact .inl h
        · obtain ⟨j, ps', T, name', ctr', h1, h2⟩ := h
          exact .inr (.inl ⟨j, ps', T, name', ctr', h1, .later hd hi h2⟩)
        · obtain ⟨ctr', h1, h2⟩ := h
          refine .inr (.inr ⟨ctr', h1, fun ps' T hfi => ?_⟩)
          cases hfi with
          | here hd' hi' => rw [hd] at hd'; cases hd'; rw [hi] at hi'; cases hi'
          | later _ _ h' => exact h2 _ _ h'

theorem firstInst_tyOK {As : TyList} (hAs : TyOKList As = true) :
    ∀ {cands : List FunDecl} {ps' T}, CandsOK cands → FirstInst cands As ps' T → TyOK T = true
  | _ :: _, _, _, hc, .here hd hi => by
    obtain ⟨name, ps, ret, hd', hp⟩ := hc _ (List.mem_cons_self ..)
    rw [hd] at hd'; cases hd'
    exact (hp As hAs).2 _ _ hi
  | _ :: _, _, _, hc, .later _ _ h =>
    firstInst_tyOK hAs (fun d' hd' => hc d' (List.mem_cons_of_mem _ hd')) h

theorem candsOK_of_env {Γ : TEnv} (hΓ : EnvOK Γ) (k : String) : CandsOK (lookupPoly Γ.funs k) := by
  intro d hd
  obtain ⟨hm, hk⟩ := lookupPoly_mem hd
  obtain ⟨name, ps, ret, hty, _, h2⟩ := hΓ.funs d hm
  exact ⟨name, ps, ret, hty, h2 (key_poly hty hk)⟩


/-! ### typed expressions have types of the fragment -/

theorem prim_tyOK {K : Ty} (h : K.isPrimitive = true) : K.keyable = true := by
  simp [Ty.keyable, h]

mutual
theorem typed_tyOK {Γ : TEnv} (hΓ : EnvOK Γ) : ∀ (e : Expr) (T : Ty), Typed Γ e T → TyOK T = true
  | .str _ _, _, h | .num _ _, _, h | .time _ _, _, h | .bool _ _, _, h => by cases h; decide
  | .list _ .nil _, _, h => by cases h; decide
  | .list _ (.cons e es) _, _, h => by
    cases h with
    | listCons h1 _ =>
      have := TyOK_iff.1 (typed_tyOK hΓ e _ h1)
      simp only [TyOK_iff, slotFree, Ty.wf, noFn]; exact this
  | .map _ .nil _, _, h => by cases h; decide
  | .map _ (.cons k v ps) _, _, h => by
    cases h with
    | mapCons h1 hp h2 _ =>
      have a := TyOK_iff.1 (typed_tyOK hΓ k _ h1)
      have b := TyOK_iff.1 (typed_tyOK hΓ v _ h2)
      simp only [TyOK_iff, slotFree, Ty.wf, noFn, Bool.and_eq_true]
      exact ⟨⟨a.1, b.1⟩, ⟨⟨prim_tyOK hp, a.2.1⟩, b.2.1⟩, a.2.2, b.2.2⟩
  | .obj _ fs _, _, h => by
    cases h with
    | obj h1 hn =>
      have := typedFields_tyOK hΓ fs _ h1
      simp only [TyOK_iff, slotFree, Ty.wf, noFn]
      exact ⟨this.1, this.2.2 hn, this.2.1⟩
  | .ident _ x, _, h => by
    cases h with
    | ident _ h2 => exact hΓ.vars x _ h2
  | .subscript _ _ v i _, _, h => by
    cases h with
    | subList h1 _ _ =>
      have := TyOK_iff.1 (typed_tyOK hΓ v _ h1)
      simp only [slotFree, Ty.wf, noFn] at this
      exact TyOK_iff.2 this
    | subMap h1 _ _ =>
      have := TyOK_iff.1 (typed_tyOK hΓ v _ h1)
      simp only [slotFree, Ty.wf, noFn, Bool.and_eq_true] at this
      exact TyOK_iff.2 ⟨this.1.2, this.2.1.2, this.2.2.2⟩
  | .member _ _ o f _ _ _, _, h => by
    cases h with
    | member h1 h2 =>
      have := TyOK_iff.1 (typed_tyOK hΓ o _ h1)
      simp only [slotFree, Ty.wf, noFn] at this
      exact TyOK_iff.2 ⟨slotFreeFields_find _ _ _ this.1 h2, wfFields_find _ _ _ this.2.1 h2,
        noFnFields_find _ _ _ this.2.2 h2⟩
  | .call _ _ callee args _ _ _, _, h => by
    cases h with
    | callMono h1 h2 h3 _ _ =>
      obtain ⟨hm, hk⟩ := lookupMono_mem h2
      obtain ⟨name, ps, ret, hty, g1, _⟩ := hΓ.funs _ hm
      have := g1 (key_mono hty hk)
      rw [h3] at hty; cases hty; exact this
    | callPoly h1 _ h3 _ =>
      exact firstInst_tyOK (typedArgs_tyOK hΓ args _ h1) (candsOK_of_env hΓ _) h3
    | callFn _ _ h3 _ _ =>
      have := TyOK_iff.1 (typed_tyOK hΓ callee _ h3)
      simp [noFn] at this
  | .unary .., _, h | .binary .., _, h | .ternary .., _, h | .group .., _, h => by cases h
theorem typedFields_tyOK {Γ : TEnv} (hΓ : EnvOK Γ) : ∀ (fs : FieldEList) (Fs : FieldList),
    TypedFields Γ fs Fs →
      slotFreeFields Fs = true ∧ noFnFields Fs = true ∧ (Fs.names.Nodup → wfFields Fs = true)
  | .nil, _, h => by cases h; simp [slotFreeFields, noFnFields, wfFields]
  | .cons n e fs, _, h => by
    cases h with
    | cons h1 h2 =>
      have a := TyOK_iff.1 (typed_tyOK hΓ e _ h1)
      have b := typedFields_tyOK hΓ fs _ h2
      refine ⟨by simp [slotFreeFields, a.1, b.1], by simp [noFnFields, a.2.2, b.2.1], ?_⟩
      intro hn
      simp only [FieldList.names, List.nodup_cons] at hn
      simp only [wfFields, Bool.and_eq_true]
      refine ⟨⟨?_, a.2.1⟩, b.2.2 hn.2⟩
      cases hf : FieldList.find? _ n with
      | none => rfl
      | some u => exact absurd ((FieldList.find?_isSome_iff _ n).1 (by simp [hf])) hn.1
theorem typedArgs_tyOK {Γ : TEnv} (hΓ : EnvOK Γ) : ∀ (es : ExprList) (Ts : TyList),
    TypedArgs Γ es Ts → TyOKList Ts = true
  | .nil, _, h => by cases h; decide
  | .cons e es, _, h => by
    cases h with
    | cons h1 h2 =>
      exact TyOKList_cons.2 ⟨typed_tyOK hΓ e _ h1, typedArgs_tyOK hΓ es _ h2⟩
end


/-! ### overload resolution -/

theorem resolve_spec {Γ : TEnv} (hΓ : EnvOK Γ) (f : String) (As : TyList)
    (hAs : TyOKList As = true) (c : Nat) :
    match lookupMono Γ.funs (monoKey f As) with
    | some d => ∃ name ps ret, d.ty = .fn name ps ret ∧
        resolveOverloadedFun Γ c f As = .ok (⟨ps, ret, name, monoKey f As, -1⟩, c)
    | none =>
        resolveOverloadedFun Γ c f As = .error .fuel ∨
        (∃ (j : Nat) (ps' : TyList) (T : Ty) (name : String) (c' : Nat), resolveOverloadedFun Γ c f As =
            .ok (⟨ps', T, name, polyKey f As.length, j⟩, c') ∧
          FirstInst (lookupPoly Γ.funs (polyKey f As.length)) As ps' T) ∨
        (resolveOverloadedFun Γ c f As = .error .nofun ∧
          ∀ ps' T, ¬ FirstInst (lookupPoly Γ.funs (polyKey f As.length)) As ps' T) := by
  unfold resolveOverloadedFun
  show match lookupMono Γ.funs (monoKey f As) with | some d => _ | none => _
  cases hm : lookupMono Γ.funs (monoKey f As) with
  | some d =>
    obtain ⟨hmem, _⟩ := lookupMono_mem hm
    obtain ⟨name, ps, ret, hty, _⟩ := hΓ.funs d hmem
    refine ⟨name, ps, ret, hty, ?_⟩
    simp only [monoKey] at hm
    simp only [hm, hty]
    rfl
  | none =>
    simp only [monoKey] at hm
    simp only [hm]
    have hk : "∀.λ " ++ f ++ " " ++ toString As.length = polyKey f As.length := rfl
    simp only [hk]
    have hc := candsOK_of_env hΓ (polyKey f As.length)
    generalize lookupPoly Γ.funs (polyKey f As.length) = cands at hc ⊢
    by_cases he : cands.isEmpty = true
    · right; right
      simp only [he, if_true]
      refine ⟨rfl, fun ps' T h => ?_⟩
      cases cands with
      | nil => cases h
      | cons _ _ => simp at he
    · simp only [he]
      rcases tryPoly_spec As hAs cands hc (c+1) 0 with h | h | h
      · left; simp only [h]; rfl
      · obtain ⟨j, ps', T, name, c', h1, h2⟩ := h
        right; left
        exact ⟨j, ps', T, name, c', by simp only [h1]; rfl, h2⟩
      · obtain ⟨c', h1, h2⟩ := h
        right; right
        exact ⟨by simp only [h1]; rfl, h2⟩


/-! ### soundness: what the checker accepts is typed, with the type it returns -/

mutual
theorem check_sound {Γ : TEnv} (hΓ : EnvOK Γ) : ∀ (e : Expr) (c : Nat) (T : Ty) (e' : Expr)
    (c' : Nat), check Γ c e = .ok (T, e', c') → Typed Γ e T
  | .str _ _, _, _, _, _, h | .num _ _, _, _, _, _, h | .time _ _, _, _, _, _, h
  | .bool _ _, _, _, _, _, h => by
    simp only [check, CR.pure_eq_ok, Prod.mk.injEq] at h
    rw [← h.1]; constructor
  | .list p .nil ty, c, T, e', c', h => by
    simp only [check, CR.pure_eq_ok, Prod.mk.injEq] at h
    rw [← h.1]; constructor
  | .list p (.cons e es) ty, c, T, e', c', h => by
    simp only [check, CR.bind_eq_ok, CR.pure_eq_ok, Prod.mk.injEq] at h
    obtain ⟨⟨T1, e1, c1⟩, h1, ⟨es1, c2⟩, h2, h3⟩ := h
    rw [← h3.1]
    exact .listCons (check_sound hΓ e _ _ _ _ h1) (checkElems_sound hΓ es _ _ _ _ h2)
  | .map p .nil ty, c, T, e', c', h => by
    simp only [check, CR.pure_eq_ok, Prod.mk.injEq] at h
    rw [← h.1]; constructor
  | .map p (.cons k v ps) ty, c, T, e', c', h => by
    simp only [check] at h
    obtain ⟨⟨T1, k1, c1⟩, h1, h⟩ := CR.bind_eq_ok.1 h
    split at h
    · exact absurd h (by simp [CR.throw_eq])
    next hp =>
    simp only [CR.bind_eq_ok] at h
    obtain ⟨⟨T2, v1, c2⟩, h3, ⟨ps1, c3⟩, h4, h5⟩ := h
    simp only [CR.pure_eq_ok, Prod.mk.injEq] at h5
    rw [← h5.1]
    exact .mapCons (check_sound hΓ k _ _ _ _ h1) (by simpa using hp)
      (check_sound hΓ v _ _ _ _ h3) (checkPairs_sound hΓ ps _ _ _ _ _ h4)
  | .obj p fs ty, c, T, e', c', h => by
    simp only [check, CR.bind_eq_ok] at h
    obtain ⟨⟨tys, fs1, c1⟩, h1, ty1, h2, h3⟩ := h
    simp only [CR.pure_eq_ok, Prod.mk.injEq] at h3
    obtain ⟨hn, rfl⟩ := mkObj_ok.1 h2
    rw [← h3.1]
    exact .obj (checkFields_sound hΓ fs _ _ _ _ h1) hn
  | .ident p x, c, T, e', c', h => by
    simp only [check] at h
    split at h
    · exact absurd h (by simp [CR.throw_eq])
    next hr =>
    split at h
    · next ty hl =>
      simp only [CR.pure_eq_ok, Prod.mk.injEq] at h
      rw [← h.1]
      exact .ident (by simpa using hr) hl
    · exact absurd h CR.throw_ne_ok
  | .call p col callee args cty res idx, c, T, e', c', h => by
    simp only [check] at h
    obtain ⟨⟨As, args1, c1⟩, h1, h⟩ := CR.bind_eq_ok.1 h
    have ha := checkArgs_sound hΓ args _ _ _ _ h1
    have hAs := typedArgs_tyOK hΓ args _ ha
    split at h
    · next _ cp fname _ =>
      obtain ⟨⟨r, c2⟩, h2, h⟩ := CR.bind_eq_ok.1 h
      split at h
      · exact absurd h (by simp [CR.throw_eq])
      next hlen =>
      obtain ⟨_, h3, h⟩ := CR.bind_eq_ok.1 h
      simp only [CR.pure_eq_ok, Prod.mk.injEq] at h
      rw [← h.1]
      have hlen' : r.params.length = As.length := by simpa using hlen
      have hte := (assertParams_ok _ _ hlen').1 h3
      have hs := resolve_spec hΓ fname As hAs c1
      split at hs
      · next d hm =>
        obtain ⟨name, ps, ret, hty, hr⟩ := hs
        rw [h2] at hr; cases hr
        exact .callMono ha hm hty hlen' hte
      · next hm =>
        rcases hs with hs | hs | hs
        · rw [h2] at hs; cases hs
        · obtain ⟨j, ps', T', name, c'', hr, hfi⟩ := hs
          rw [h2] at hr; cases hr
          exact .callPoly ha hm hfi hte
        · rw [h2] at hs; cases hs.1
    · obtain ⟨⟨fT, callee1, c2⟩, h2, h⟩ := CR.bind_eq_ok.1 h
      have hc := check_sound hΓ callee _ _ _ _ h2
      split at h
      · next _ name ps ret heq =>
        simp only at heq; subst heq
        have := TyOK_iff.1 (typed_tyOK hΓ callee _ hc)
        simp [noFn] at this
      · exact absurd h CR.throw_ne_ok
  | .subscript p col v i vty, c, T, e', c', h => by
    simp only [check] at h
    obtain ⟨⟨T1, v1, c1⟩, h1, h⟩ := CR.bind_eq_ok.1 h
    have hv := check_sound hΓ v _ _ _ _ h1
    split at h
    · next _ el heq =>
      simp only at heq; subst heq
      obtain ⟨⟨T2, i1, c2⟩, h2, h⟩ := CR.bind_eq_ok.1 h
      obtain ⟨_, h3, h⟩ := CR.bind_eq_ok.1 h
      simp only [CR.pure_eq_ok, Prod.mk.injEq] at h
      rw [← h.1]
      exact .subList hv (check_sound hΓ i _ _ _ _ h2) (typeAssert_ok.1 h3)
    · next _ K V heq =>
      simp only at heq; subst heq
      obtain ⟨⟨T2, i1, c2⟩, h2, h⟩ := CR.bind_eq_ok.1 h
      obtain ⟨_, h3, h⟩ := CR.bind_eq_ok.1 h
      simp only [CR.pure_eq_ok, Prod.mk.injEq] at h
      rw [← h.1]
      exact .subMap hv (check_sound hΓ i _ _ _ _ h2) (typeAssert_ok.1 h3)
    · exact absurd h CR.throw_ne_ok
  | .member p col o f fp oty idx, c, T, e', c', h => by
    simp only [check] at h
    obtain ⟨⟨T1, o1, c1⟩, h1, h⟩ := CR.bind_eq_ok.1 h
    have ho := check_sound hΓ o _ _ _ _ h1
    split at h
    · next _ Fs heq =>
      simp only at heq; subst heq
      split at h
      · next _ _ fty i hf _ =>
        simp only [CR.pure_eq_ok, Prod.mk.injEq] at h
        rw [← h.1]
        exact .member ho hf
      · exact absurd h CR.throw_ne_ok
    · exact absurd h CR.throw_ne_ok
  | .unary .., _, _, _, _, h | .binary .., _, _, _, _, h | .ternary .., _, _, _, _, h
  | .group .., _, _, _, _, h => by
    simp only [check] at h
    exact absurd h CR.throw_ne_ok
theorem checkElems_sound {Γ : TEnv} (hΓ : EnvOK Γ) : ∀ (es : ExprList) (c : Nat) (T : Ty)
    (es' : ExprList) (c' : Nat), checkElems Γ c T es = .ok (es', c') → TypedElems Γ es T
  | .nil, _, _, _, _, _ => .nil
  | .cons e es, c, T, es', c', h => by
    simp only [checkElems, CR.bind_eq_ok] at h
    obtain ⟨⟨T1, e1, c1⟩, h1, _, h2, ⟨es1, c2⟩, h3, _⟩ := h
    exact .cons (check_sound hΓ e _ _ _ _ h1) (typeAssert_ok.1 h2)
      (checkElems_sound hΓ es _ _ _ _ h3)
theorem checkPairs_sound {Γ : TEnv} (hΓ : EnvOK Γ) : ∀ (ps : PairList) (c : Nat) (K V : Ty)
    (ps' : PairList) (c' : Nat), checkPairs Γ c K V ps = .ok (ps', c') → TypedPairs Γ ps K V
  | .nil, _, _, _, _, _, _ => .nil
  | .cons k v ps, c, K, V, ps', c', h => by
    simp only [checkPairs, CR.bind_eq_ok] at h
    obtain ⟨⟨T1, k1, c1⟩, h1, _, h2, ⟨T2, v1, c2⟩, h3, _, h4, ⟨ps1, c3⟩, h5, _⟩ := h
    exact .cons (check_sound hΓ k _ _ _ _ h1) (typeAssert_ok.1 h2)
      (check_sound hΓ v _ _ _ _ h3) (typeAssert_ok.1 h4) (checkPairs_sound hΓ ps _ _ _ _ _ h5)
theorem checkFields_sound {Γ : TEnv} (hΓ : EnvOK Γ) : ∀ (fs : FieldEList) (c : Nat)
    (tys : FieldList) (fs' : FieldEList) (c' : Nat),
    checkFields Γ c fs = .ok (tys, fs', c') → TypedFields Γ fs tys
  | .nil, _, _, _, _, h => by
    simp only [checkFields, CR.pure_eq_ok, Prod.mk.injEq] at h
    rw [← h.1]; exact .nil
  | .cons n e fs, c, tys, fs', c', h => by
    simp only [checkFields, CR.bind_eq_ok] at h
    obtain ⟨⟨T1, e1, c1⟩, h1, ⟨tys1, fs1, c2⟩, h2, h3⟩ := h
    simp only [CR.pure_eq_ok, Prod.mk.injEq] at h3
    rw [← h3.1]
    exact .cons (check_sound hΓ e _ _ _ _ h1) (checkFields_sound hΓ fs _ _ _ _ h2)
theorem checkArgs_sound {Γ : TEnv} (hΓ : EnvOK Γ) : ∀ (es : ExprList) (c : Nat) (tys : TyList)
    (es' : ExprList) (c' : Nat), checkArgs Γ c es = .ok (tys, es', c') → TypedArgs Γ es tys
  | .nil, _, _, _, _, h => by
    simp only [checkArgs, CR.pure_eq_ok, Prod.mk.injEq] at h
    rw [← h.1]; exact .nil
  | .cons e es, c, tys, es', c', h => by
    simp only [checkArgs, CR.bind_eq_ok] at h
    obtain ⟨⟨T1, e1, c1⟩, h1, ⟨tys1, es1, c2⟩, h2, h3⟩ := h
    simp only [CR.pure_eq_ok, Prod.mk.injEq] at h3
    rw [← h3.1]
    exact .cons (check_sound hΓ e _ _ _ _ h1) (checkArgs_sound hΓ es _ _ _ _ h2)
end


/-! ### completeness: what is typed is accepted with that type (for every counter value) -/

theorem tyEqList_length : ∀ (xs ys : TyList), tyEqList xs ys = true → xs.length = ys.length
  | .nil, .nil, _ => rfl
  | .nil, .cons _ _, h => by simp [tyEqList] at h
  | .cons _ _, .nil, h => by simp [tyEqList] at h
  | .cons _ xs, .cons _ ys, h => by
    simp only [tyEqList, Bool.and_eq_true] at h
    simp [TyList.length, tyEqList_length xs ys h.2]

mutual
theorem check_complete {Γ : TEnv} (hΓ : EnvOK Γ) : ∀ (e : Expr) (T : Ty), Typed Γ e T →
    ∀ c, check Γ c e = .error .fuel ∨ ∃ e' c', check Γ c e = .ok (T, e', c')
  | .str _ _, _, h, c | .num _ _, _, h, c | .time _ _, _, h, c | .bool _ _, _, h, c => by
    cases h; exact .inr ⟨_, _, by simp only [check]; rfl⟩
  | .list p .nil ty, _, h, c => by
    cases h; exact .inr ⟨_, _, by simp only [check]; rfl⟩
  | .list p (.cons e es) ty, _, h, c => by
    cases h with
    | listCons h1 h2 =>
      simp only [check]
      rcases check_complete hΓ e _ h1 c with hf | ⟨e1, c1, he⟩
      · left; simp only [hf, CR.error_bind]
      simp only [he, CR.ok_bind]
      rcases checkElems_complete hΓ es _ h2 c1 with hf | ⟨es1, c2, hes⟩
      · left; simp only [hf, CR.error_bind]
      simp only [hes, CR.ok_bind]
      exact .inr ⟨_, _, rfl⟩
  | .map p .nil ty, _, h, c => by
    cases h; exact .inr ⟨_, _, by simp only [check]; rfl⟩
  | .map p (.cons k v ps) ty, _, h, c => by
    cases h with
    | mapCons h1 hp h2 h3 =>
      simp only [check]
      rcases check_complete hΓ k _ h1 c with hf | ⟨k1, c1, hk⟩
      · left; simp only [hf, CR.error_bind]
      simp only [hk, CR.ok_bind, hp, Bool.not_true, Bool.false_eq_true, if_false]
      rcases check_complete hΓ v _ h2 c1 with hf | ⟨v1, c2, hv⟩
      · left; simp only [hf, CR.error_bind]
      simp only [hv, CR.ok_bind]
      rcases checkPairs_complete hΓ ps _ _ h3 c2 with hf | ⟨ps1, c3, hps⟩
      · left; simp only [hf, CR.error_bind]
      simp only [hps, CR.ok_bind]
      exact .inr ⟨_, _, rfl⟩
  | .obj p fs ty, _, h, c => by
    cases h with
    | obj h1 hn =>
      simp only [check]
      rcases checkFields_complete hΓ fs _ h1 c with hf | ⟨fs1, c1, hfs⟩
      · left; simp only [hf, CR.error_bind]
      simp only [hfs, CR.ok_bind, mkObj_ok.2 ⟨hn, rfl⟩]
      exact .inr ⟨_, _, rfl⟩
  | .ident p x, _, h, c => by
    cases h with
    | ident hr hl =>
      right
      simp only [check, hr, Bool.false_eq_true, if_false, hl]
      exact ⟨_, _, rfl⟩
  | .call p col callee args cty res idx, _, h, c => by
    cases h with
    | callMono ha hm hty hlen hte =>
      rename_i cp f As d name ps
      simp only [check]
      rcases checkArgs_complete hΓ args _ ha c with hf | ⟨args1, c1, hargs⟩
      · left; simp only [hf, CR.error_bind]
      simp only [hargs, CR.ok_bind]
      have hs := resolve_spec hΓ f As (typedArgs_tyOK hΓ args _ ha) c1
      rw [hm] at hs
      obtain ⟨name', ps', ret', hty', hr⟩ := hs
      rw [hty] at hty'; cases hty'
      simp only [hr, CR.ok_bind, hlen, bne_self_eq_false, Bool.false_eq_true, if_false,
        (assertParams_ok _ _ hlen).2 hte]
      exact .inr ⟨_, _, rfl⟩
    | callPoly ha hm hfi hte =>
      rename_i cp f As ps'
      simp only [check]
      rcases checkArgs_complete hΓ args _ ha c with hf | ⟨args1, c1, hargs⟩
      · left; simp only [hf, CR.error_bind]
      simp only [hargs, CR.ok_bind]
      have hs := resolve_spec hΓ f As (typedArgs_tyOK hΓ args _ ha) c1
      rw [hm] at hs
      rcases hs with hs | hs | hs
      · left; simp only [hs, CR.error_bind]
      · obtain ⟨j, ps'', T', name, c'', hr, hfi'⟩ := hs
        obtain ⟨rfl, rfl⟩ := FirstInst.det hfi hfi'
        have hlen := tyEqList_length _ _ hte
        simp only [hr, CR.ok_bind, hlen, bne_self_eq_false, Bool.false_eq_true, if_false,
          (assertParams_ok _ _ hlen).2 hte]
        exact .inr ⟨_, _, rfl⟩
      · exact absurd hfi (hs.2 _ _)
    | callFn _ _ hc _ _ =>
      have := TyOK_iff.1 (typed_tyOK hΓ callee _ hc)
      simp [noFn] at this
  | .subscript p col v i vty, _, h, c => by
    cases h with
    | subList h1 h2 h3 =>
      simp only [check]
      rcases check_complete hΓ v _ h1 c with hf | ⟨v1, c1, hv⟩
      · left; simp only [hf, CR.error_bind]
      simp only [hv, CR.ok_bind]
      rcases check_complete hΓ i _ h2 c1 with hf | ⟨i1, c2, hi⟩
      · left; simp only [hf, CR.error_bind]
      simp only [hi, CR.ok_bind, typeAssert_of h3]
      exact .inr ⟨_, _, rfl⟩
    | subMap h1 h2 h3 =>
      simp only [check]
      rcases check_complete hΓ v _ h1 c with hf | ⟨v1, c1, hv⟩
      · left; simp only [hf, CR.error_bind]
      simp only [hv, CR.ok_bind]
      rcases check_complete hΓ i _ h2 c1 with hf | ⟨i1, c2, hi⟩
      · left; simp only [hf, CR.error_bind]
      simp only [hi, CR.ok_bind, typeAssert_of h3]
      exact .inr ⟨_, _, rfl⟩
  | .member p col o f fp oty idx, _, h, c => by
    cases h with
    | member h1 h2 =>
      simp only [check]
      rcases check_complete hΓ o _ h1 c with hf | ⟨o1, c1, ho⟩
      · left; simp only [hf, CR.error_bind]
      obtain ⟨i, hi⟩ := find?_indexOf? _ _ _ h2
      simp only [ho, CR.ok_bind, h2, hi]
      exact .inr ⟨_, _, rfl⟩
  | .unary .., _, h, _ | .binary .., _, h, _ | .ternary .., _, h, _ | .group .., _, h, _ => by
    cases h
theorem checkElems_complete {Γ : TEnv} (hΓ : EnvOK Γ) : ∀ (es : ExprList) (T : Ty),
    TypedElems Γ es T → ∀ c, checkElems Γ c T es = .error .fuel ∨
      ∃ es' c', checkElems Γ c T es = .ok (es', c')
  | .nil, _, _, c => .inr ⟨_, _, by simp only [checkElems]; rfl⟩
  | .cons e es, T, h, c => by
    cases h with
    | cons h1 h2 h3 =>
      simp only [checkElems]
      rcases check_complete hΓ e _ h1 c with hf | ⟨e1, c1, he⟩
      · left; simp only [hf, CR.error_bind]
      simp only [he, CR.ok_bind, typeAssert_of h2]
      rcases checkElems_complete hΓ es _ h3 c1 with hf | ⟨es1, c2, hes⟩
      · left; simp only [hf, CR.error_bind]
      simp only [hes, CR.ok_bind]
      exact .inr ⟨_, _, rfl⟩
theorem checkPairs_complete {Γ : TEnv} (hΓ : EnvOK Γ) : ∀ (ps : PairList) (K V : Ty),
    TypedPairs Γ ps K V → ∀ c, checkPairs Γ c K V ps = .error .fuel ∨
      ∃ ps' c', checkPairs Γ c K V ps = .ok (ps', c')
  | .nil, _, _, _, c => .inr ⟨_, _, by simp only [checkPairs]; rfl⟩
  | .cons k v ps, K, V, h, c => by
    cases h with
    | cons h1 h2 h3 h4 h5 =>
      simp only [checkPairs]
      rcases check_complete hΓ k _ h1 c with hf | ⟨k1, c1, hk⟩
      · left; simp only [hf, CR.error_bind]
      simp only [hk, CR.ok_bind, typeAssert_of h2]
      rcases check_complete hΓ v _ h3 c1 with hf | ⟨v1, c2, hv⟩
      · left; simp only [hf, CR.error_bind]
      simp only [hv, CR.ok_bind, typeAssert_of h4]
      rcases checkPairs_complete hΓ ps _ _ h5 c2 with hf | ⟨ps1, c3, hps⟩
      · left; simp only [hf, CR.error_bind]
      simp only [hps, CR.ok_bind]
      exact .inr ⟨_, _, rfl⟩
theorem checkFields_complete {Γ : TEnv} (hΓ : EnvOK Γ) : ∀ (fs : FieldEList) (Fs : FieldList),
    TypedFields Γ fs Fs → ∀ c, checkFields Γ c fs = .error .fuel ∨
      ∃ fs' c', checkFields Γ c fs = .ok (Fs, fs', c')
  | .nil, _, h, c => by cases h; exact .inr ⟨_, _, by simp only [checkFields]; rfl⟩
  | .cons n e fs, _, h, c => by
    cases h with
    | cons h1 h2 =>
      simp only [checkFields]
      rcases check_complete hΓ e _ h1 c with hf | ⟨e1, c1, he⟩
      · left; simp only [hf, CR.error_bind]
      simp only [he, CR.ok_bind]
      rcases checkFields_complete hΓ fs _ h2 c1 with hf | ⟨fs1, c2, hfs⟩
      · left; simp only [hf, CR.error_bind]
      simp only [hfs, CR.ok_bind]
      exact .inr ⟨_, _, rfl⟩
theorem checkArgs_complete {Γ : TEnv} (hΓ : EnvOK Γ) : ∀ (es : ExprList) (Ts : TyList),
    TypedArgs Γ es Ts → ∀ c, checkArgs Γ c es = .error .fuel ∨
      ∃ es' c', checkArgs Γ c es = .ok (Ts, es', c')
  | .nil, _, h, c => by cases h; exact .inr ⟨_, _, by simp only [checkArgs]; rfl⟩
  | .cons e es, _, h, c => by
    cases h with
    | cons h1 h2 =>
      simp only [checkArgs]
      rcases check_complete hΓ e _ h1 c with hf | ⟨e1, c1, he⟩
      · left; simp only [hf, CR.error_bind]
      simp only [he, CR.ok_bind]
      rcases checkArgs_complete hΓ es _ h2 c1 with hf | ⟨es1, c2, hes⟩
      · left; simp only [hf, CR.error_bind]
      simp only [hes, CR.ok_bind]
      exact .inr ⟨_, _, rfl⟩
end


/-! ### the rules assign at most one type -/

mutual
theorem typed_unique {Γ : TEnv} : ∀ (e : Expr) (T1 T2 : Ty), Typed Γ e T1 → Typed Γ e T2 → T1 = T2
  | .str _ _, _, _, h1, h2 | .num _ _, _, _, h1, h2 | .time _ _, _, _, h1, h2
  | .bool _ _, _, _, h1, h2 => by cases h1; cases h2; rfl
  | .list _ .nil _, _, _, h1, h2 => by cases h1; cases h2; rfl
  | .list _ (.cons e es) _, _, _, h1, h2 => by
    cases h1 with | listCons a _ => cases h2 with | listCons b _ =>
      rw [typed_unique e _ _ a b]
  | .map _ .nil _, _, _, h1, h2 => by cases h1; cases h2; rfl
  | .map _ (.cons k v ps) _, _, _, h1, h2 => by
    cases h1 with | mapCons a _ a' _ => cases h2 with | mapCons b _ b' _ =>
      rw [typed_unique k _ _ a b, typed_unique v _ _ a' b']
  | .obj _ fs _, _, _, h1, h2 => by
    cases h1 with | obj a _ => cases h2 with | obj b _ =>
      rw [typedFields_unique fs _ _ a b]
  | .ident _ x, _, _, h1, h2 => by
    cases h1 with | ident _ a => cases h2 with | ident _ b =>
      rw [a] at b; cases b; rfl
  | .subscript _ _ v i _, _, _, h1, h2 => by
    cases h1 with
    | subList a _ _ =>
      cases h2 with
      | subList b _ _ => have := typed_unique v _ _ a b; cases this; rfl
      | subMap b _ _ => have := typed_unique v _ _ a b; cases this
    | subMap a _ _ =>
      cases h2 with
      | subList b _ _ => have := typed_unique v _ _ a b; cases this
      | subMap b _ _ => have := typed_unique v _ _ a b; cases this; rfl
  | .member _ _ o f _ _ _, _, _, h1, h2 => by
    cases h1 with | member a a' => cases h2 with | member b b' =>
      have := typed_unique o _ _ a b; cases this
      rw [a'] at b'; cases b'; rfl
  | .call _ _ callee args _ _ _, _, _, h1, h2 => by
    cases h1 with
    | callMono a am aty _ _ =>
      cases h2 with
      | callMono b bm bty _ _ =>
        have := typedArgs_unique args _ _ a b; subst this
        rw [am] at bm; cases bm
        rw [aty] at bty; cases bty; rfl
      | callPoly b bm _ _ =>
        have := typedArgs_unique args _ _ a b; subst this
        rw [am] at bm; cases bm
      | callFn hni _ _ _ _ => simp [Expr.isIdent] at hni
    | callPoly a am afi _ =>
      cases h2 with
      | callMono b bm bty _ _ =>
        have := typedArgs_unique args _ _ a b; subst this
        rw [am] at bm; cases bm
      | callPoly b bm bfi _ =>
        have := typedArgs_unique args _ _ a b; subst this
        exact (FirstInst.det afi bfi).2
      | callFn hni _ _ _ _ => simp [Expr.isIdent] at hni
    | callFn hni a ac ai _ =>
      cases h2 with
      | callMono _ _ _ _ _ => simp [Expr.isIdent] at hni
      | callPoly _ _ _ _ => simp [Expr.isIdent] at hni
      | callFn _ b bc bi _ =>
        have := typedArgs_unique args _ _ a b; subst this
        have := typed_unique callee _ _ ac bc; cases this
        rw [ai] at bi; cases bi; rfl
  | .unary .., _, _, h, _ | .binary .., _, _, h, _ | .ternary .., _, _, h, _
  | .group .., _, _, h, _ => by cases h
theorem typedFields_unique {Γ : TEnv} : ∀ (fs : FieldEList) (F1 F2 : FieldList),
    TypedFields Γ fs F1 → TypedFields Γ fs F2 → F1 = F2
  | .nil, _, _, h1, h2 => by cases h1; cases h2; rfl
  | .cons n e fs, _, _, h1, h2 => by
    cases h1 with | cons a a' => cases h2 with | cons b b' =>
      rw [typed_unique e _ _ a b, typedFields_unique fs _ _ a' b']
theorem typedArgs_unique {Γ : TEnv} : ∀ (es : ExprList) (A1 A2 : TyList),
    TypedArgs Γ es A1 → TypedArgs Γ es A2 → A1 = A2
  | .nil, _, _, h1, h2 => by cases h1; cases h2; rfl
  | .cons e es, _, _, h1, h2 => by
    cases h1 with | cons a a' => cases h2 with | cons b b' =>
      rw [typed_unique e _ _ a b, typedArgs_unique es _ _ a' b']
end


end Yae
