/-
  Witnesses for C05: finding D22 (the checker commits to the first polymorphic overload that
  unifies up to `⊥` absorption and rejects the program if the final equality test fails, although
  a later overload fits exactly) as a difference between `Typed` and `Typed'`; and the fact that
  the rendered overload key does not determine the parameter types.
-/
import Yae.Proofs.TypingCheck
namespace Yae

/-- D22 environment: two polymorphic overloads of `f`/1: `f(list['a]) num` then `f('a) str` -/
def d22Env : TEnv :=
  ⟨[], [⟨.fn "f" (.cons (.list (.var "a")) .nil) .num, .host "f1" (.constNum 0), false⟩,
        ⟨.fn "f" (.cons (.var "a") .nil) .str, .host "f2" (.constStr ""), false⟩], []⟩
/-- `f([][0])`: the argument has type `⊥` -/
def d22Expr : Expr :=
  .call Pos.unknown 0 (.ident Pos.unknown "f")
    (.cons (.subscript Pos.unknown 0 (.list Pos.unknown .nil none) (.num Pos.unknown 0) none) .nil)
    none "" 0

theorem d22_inst1 : instantiate (.cons (.list (.var "a")) .nil) .num (.cons .bot .nil) =
    some (.cons (.list (.var "a")) .nil, .num) := rfl
theorem d22_inst2 : instantiate (.cons (.var "a") .nil) .str (.cons .bot .nil) =
    some (.cons .bot .nil, .str) := rfl
theorem d22_mono : lookupMono d22Env.funs (monoKey "f" (.cons .bot .nil)) = none := rfl
theorem d22_poly : lookupPoly d22Env.funs (polyKey "f" (TyList.cons .bot .nil).length) =
    d22Env.funs := rfl

/-- the natural rule types `f([][0])` with the second overload -/
theorem d22_typed' : Typed' d22Env d22Expr .str := by
  refine .callPoly (As := .cons .bot .nil) (ps' := .cons .bot .nil)
    (.cons (.subList (.listNil _ _) (.num _ _) rfl) .nil) d22_mono ?_
  rw [d22_poly]
  exact .later rfl (fun qs U h => by rw [d22_inst1] at h; cases h; rfl) (.here rfl d22_inst2 rfl)

theorem d22_args {As : TyList} (h : TypedArgs d22Env
    (.cons (.subscript Pos.unknown 0 (.list Pos.unknown .nil none) (.num Pos.unknown 0) none) .nil)
    As) : As = .cons .bot .nil := by
  cases h with
  | cons h1 h2 =>
    cases h2
    cases h1 with
    | subList a _ _ => cases a; rfl
    | subMap a _ _ => cases a

/-- the checker's rule rejects it: it commits to the first overload (`list['a]` absorbs `⊥`)
and then the instantiated parameter `list['a]` is not equal to `⊥` -/
theorem d22_not_typed : ¬ ∃ T, Typed d22Env d22Expr T := by
  rintro ⟨T, h⟩
  cases h with
  | callMono a hm _ _ _ =>
    have := d22_args a; subst this
    rw [d22_mono] at hm; cases hm
  | callPoly a _ hfi hte =>
    have := d22_args a; subst this
    rw [d22_poly] at hfi
    cases hfi with
    | here hd hi =>
      cases hd
      rw [d22_inst1] at hi; cases hi
      cases hte
    | later hd hi _ =>
      cases hd
      rw [d22_inst1] at hi; cases hi
  | callFn hni _ _ _ _ => cases hni

/-- the rendered key does not determine the parameter types (field names are arbitrary strings):
`{a: num, b: str}` and the one-field object `{"a: num, b": str}` render alike, so the equality of
the parameters with the argument types is a separate premise of the monomorphic rule -/
theorem render_not_injective :
    (Ty.obj (.cons "a" .num (.cons "b" .str .nil))).render =
      (Ty.obj (.cons "a: num, b" .str .nil)).render ∧
    tyEq (.obj (.cons "a" .num (.cons "b" .str .nil))) (.obj (.cons "a: num, b" .str .nil)) = false := by
  decide

/-! ### a small environment satisfying `EnvOK` (non-vacuity of the C05 / C16 theorems) -/

/-- an environment with one variable and one monomorphic function -/
def exEnv : TEnv :=
  ⟨[("x", .num)],
   [⟨.fn "+" (.cons .num (.cons .num .nil)) .num, .builtin 2, false⟩], reservedWords⟩

theorem exEnv_ok : EnvOK exEnv where
  vars := by
    intro x T h
    simp only [TEnv.lookupVar, exEnv, List.find?] at h
    split at h <;> simp at h
    subst h; rfl
  funs := by
    intro d hd
    simp only [exEnv, List.mem_singleton] at hd
    subst hd
    exact ⟨_, _, _, rfl, fun _ => rfl, fun h => by simp [slotFree, slotFreeList] at h⟩

/-- `x + x` -/
def exExpr : Expr :=
  .call Pos.unknown 0 (.ident Pos.unknown "+")
    (.cons (.ident Pos.unknown "x") (.cons (.ident Pos.unknown "x") .nil)) none "" 0

theorem exExpr_typed : Typed exEnv exExpr .num :=
  .callMono (d := ⟨.fn "+" (.cons .num (.cons .num .nil)) .num, .builtin 2, false⟩)
    (.cons (.ident rfl rfl) (.cons (.ident rfl rfl) .nil)) rfl rfl rfl rfl


end Yae
