/-
  Lemmas for C06: `eval` unfolded one step at a time with the event log threaded explicitly.
  `seq r k` is "if the first run `r` succeeded continue with `k` from its log, otherwise stop
  with its failure and its log"; `(x >>= f) log = seq (x log) f` by definition of the monad.
-/
import Yae.Spec.Typing
namespace Yae
open EvalM

/-- explicit sequencing of two runs -/
def seq {α β : Type} (r : Except Fail α × List Event)
    (k : α → List Event → Except Fail β × List Event) : Except Fail β × List Event :=
  match r with
  | (.ok a, l) => k a l
  | (.error e, l) => (.error e, l)

@[simp] theorem seq_ok {α β : Type} (a : α) (l : List Event)
    (k : α → List Event → Except Fail β × List Event) : seq (.ok a, l) k = k a l := rfl
@[simp] theorem seq_error {α β : Type} (e : Fail) (l : List Event)
    (k : α → List Event → Except Fail β × List Event) :
    seq ((.error e : Except Fail α), l) k = (.error e, l) := rfl

theorem EvalM.bind_apply {α β : Type} (x : EvalM α) (f : α → EvalM β) (log : List Event) :
    (x >>= f) log = seq (x log) f := by
  show (match x log with | (.ok a, log') => f a log' | (.error e, log') => (.error e, log')) = _
  unfold seq
  rcases x log with ⟨r, l⟩
  cases r <;> rfl

theorem EvalM.pure_apply {α : Type} (a : α) (log : List Event) :
    (pure a : EvalM α) log = (.ok a, log) := rfl

theorem recDbg_apply (dbg : Bool) (v : Val) (col : Int) (log : List Event) :
    recDbg dbg v col log = (.ok v, if dbg then Event.dbg v (col + 1) :: log else log) := by
  unfold recDbg
  cases dbg <;> rfl

theorem recDbg_fst (dbg : Bool) (v : Val) (col : Int) (log : List Event) :
    (recDbg dbg v col log).1 = .ok v := by rw [recDbg_apply]

/-! ### lists of operands: left to right, each once -/

theorem evalList_nil' (f : Nat) (dbg : Bool) (ρ : REnv) (log : List Event) :
    evalList f dbg ρ .nil log = (.ok .nil, log) := by
  rw [evalList]; rfl

theorem evalList_cons' (f : Nat) (dbg : Bool) (ρ : REnv) (a : Expr) (as : ExprList)
    (log : List Event) :
    evalList f dbg ρ (.cons a as) log =
      seq (eval f dbg ρ a log) fun v l1 =>
      seq (evalList f dbg ρ as l1) fun vs l2 => (.ok (.cons v vs), l2) := by
  rw [evalList, EvalM.bind_apply]
  rfl

theorem evalFields_nil' (f : Nat) (dbg : Bool) (ρ : REnv) (log : List Event) :
    evalFields f dbg ρ .nil log = (.ok .nil, log) := by
  rw [evalFields]; rfl

theorem evalFields_cons' (f : Nat) (dbg : Bool) (ρ : REnv) (n : String) (a : Expr)
    (fs : FieldEList) (log : List Event) :
    evalFields f dbg ρ (.cons n a fs) log =
      seq (eval f dbg ρ a log) fun v l1 =>
      seq (evalFields f dbg ρ fs l1) fun vs l2 => (.ok (.cons v vs), l2) := by
  rw [evalFields, EvalM.bind_apply]
  rfl

theorem evalPairs_nil' (f : Nat) (dbg : Bool) (ρ : REnv) (acc : EntryList) (log : List Event) :
    evalPairs f dbg ρ .nil acc log = (.ok acc, log) := by
  rw [evalPairs]; rfl

/-- a map entry: the key, then its value, then the remaining entries -/
theorem evalPairs_cons' (f : Nat) (dbg : Bool) (ρ : REnv) (k v : Expr) (ps : PairList)
    (acc : EntryList) (log : List Event) :
    evalPairs f dbg ρ (.cons k v ps) acc log =
      seq (eval f dbg ρ k log) fun kv l1 =>
        match kv.key? with
        | some (t, ks) =>
          seq (eval f dbg ρ v l1) fun vv l2 => evalPairs f dbg ρ ps (acc.insert t ks vv) l2
        | none => (.error (.stuck "invalid map key type"), l1) := by
  rw [evalPairs, EvalM.bind_apply]
  congr 1; funext kv l1
  split
  · next t ks h => simp only [h]; rw [EvalM.bind_apply]
  · next h => simp only [h]; rfl

/-! ### literals and subscript -/

theorem eval_list' (f : Nat) (dbg : Bool) (ρ : REnv) (p : Pos) (a : Expr) (as : ExprList)
    (ty : Option Ty) (log : List Event) :
    eval (f+1) dbg ρ (.list p (.cons a as) ty) log =
      seq (evalList f dbg ρ (.cons a as) log) fun vs l =>
        match ty with
        | some t => (.ok (.list t vs), l)
        | none => (.error (.stuck "list-untyped"), l) := by
  rw [eval]
  · rw [EvalM.bind_apply]
    congr 1; funext vs l
    cases ty <;> rfl
  · intro h; cases h

theorem eval_map' (f : Nat) (dbg : Bool) (ρ : REnv) (p : Pos) (k v : Expr) (ps : PairList)
    (t : Ty) (log : List Event) :
    eval (f+1) dbg ρ (.map p (.cons k v ps) (some t)) log =
      seq (evalPairs f dbg ρ (.cons k v ps) .nil log) fun es l => (.ok (.map t es), l) := by
  rw [eval]
  · rw [EvalM.bind_apply]
    rfl
  · intro h; cases h

theorem eval_obj' (f : Nat) (dbg : Bool) (ρ : REnv) (p : Pos) (n : String) (a : Expr)
    (fs : FieldEList) (ty : Option Ty) (log : List Event) :
    eval (f+1) dbg ρ (.obj p (.cons n a fs) ty) log =
      seq (evalFields f dbg ρ (.cons n a fs) log) fun vs l =>
        match ty with
        | some t => (.ok (.obj t vs), l)
        | none => (.error (.stuck "obj-untyped"), l) := by
  rw [eval]
  · rw [EvalM.bind_apply]
    congr 1; funext vs l
    cases ty <;> rfl
  · intro h; cases h

/-- what a subscript does with the container value and the log after evaluating it -/
def subscriptStep (f : Nat) (dbg : Bool) (ρ : REnv) (idx : Expr) (x : Val) : EvalM Val :=
  match x with
  | .list _ vs => fun l1 =>
      seq (eval f dbg ρ idx l1) fun i l2 =>
        match i with
        | .num fl =>
          if Num.toInt fl < 0 || Num.toInt fl ≥ vs.length then (.error .indexOutOfRange, l2)
          else match vs.get? (Num.toInt fl).toNat with
            | some v => (.ok v, l2)
            | none => (.error .indexOutOfRange, l2)
        | _ => (.error (.stuck "cast:num"), l2)
  | .map _ es => fun l1 =>
      seq (eval f dbg ρ idx l1) fun k l2 =>
        match k.key? with
        | some (t, ks) =>
          match es.find? t ks with
          | some v => (.ok v, l2)
          | none => (.error .missingKey, l2)
        | none => (.error (.stuck "invalid map key type"), l2)
  | _ => fun l1 => (.error (.stuck "unreachable:subscript"), l1)

/-- subscript: the container, then the index, then the lookup -/
theorem eval_subscript' (f : Nat) (dbg : Bool) (ρ : REnv) (p : Pos) (col : Int)
    (var idx : Expr) (vty : Option Ty) (log : List Event) :
    eval (f+1) dbg ρ (.subscript p col var idx vty) log =
      seq (eval f dbg ρ var log) fun x l1 =>
      seq (subscriptStep f dbg ρ idx x l1) fun v l2 => recDbg dbg v col l2 := by
  rw [eval, EvalM.bind_apply]
  congr 1; funext x l1
  rw [EvalM.bind_apply]
  congr 1
  unfold subscriptStep
  cases x <;> try rfl
  · dsimp only
    rw [EvalM.bind_apply]
    congr 1; funext i l2
    cases i <;> try rfl
    dsimp only
    split
    · rfl
    · generalize ValList.get? _ _ = o
      cases o <;> rfl
  · dsimp only
    rw [EvalM.bind_apply]
    congr 1; funext k l2
    generalize k.key? = o
    cases o with
    | none => rfl
    | some tk =>
      rcases tk with ⟨t, ks⟩
      dsimp only
      generalize EntryList.find? _ t ks = o2
      cases o2 <;> rfl

theorem eval_ident' (f : Nat) (dbg : Bool) (ρ : REnv) (p : Pos) (name : String)
    (log : List Event) :
    eval (f+1) dbg ρ (.ident p name) log =
      match ρ.lookupVar name with
      | some v => recDbg dbg v p.col log
      | none => (.error (.stuck "missing-var"), log) := by
  rw [eval]
  cases ρ.lookupVar name <;> rfl

/-! ### calls -/

/-- a statically dispatched call: the selected function is applied to the *unevaluated*
argument list, then the debug record -/
theorem eval_call_static' (f : Nat) (dbg : Bool) (ρ : REnv) (p : Pos) (col : Int)
    (callee : Expr) (args : ExprList) (cty : Option Ty) (resolved : String) (index : Int)
    (d : FunDecl) (hres : resolved ≠ "") (hd : resolveStatic ρ.funs resolved index = some d)
    (log : List Event) :
    eval (f+1) dbg ρ (.call p col callee args cty resolved index) log =
      seq (callFun f dbg ρ d.ref d.isLazy args log) fun v l => recDbg dbg v col l := by
  rw [eval, EvalM.bind_apply]
  have : (resolved == "") = false := by simpa using hres
  simp only [this, hd]
  rfl

/-- a dynamically dispatched call: the callee first, then as above -/
theorem eval_call_dynamic' (f : Nat) (dbg : Bool) (ρ : REnv) (p : Pos) (col : Int)
    (callee : Expr) (args : ExprList) (cty : Option Ty) (index : Int) (log : List Event) :
    eval (f+1) dbg ρ (.call p col callee args cty "" index) log =
      seq (seq (eval f dbg ρ callee log) fun fv l1 =>
            match fv with
            | .fn (.fn _ _ _) ref isLazy => callFun f dbg ρ ref isLazy args l1
            | _ => (.error (.stuck "cast:fun"), l1))
        fun v l => recDbg dbg v col l := by
  rw [eval, EvalM.bind_apply]
  congr 1
  simp only [beq_self_eq_true, if_true]
  rw [EvalM.bind_apply]
  congr 1; funext fv l1
  cases fv <;> try rfl
  next ty ref isLazy => cases ty <;> rfl

theorem callFun_if' (f : Nat) (dbg : Bool) (ρ : REnv) (idx : Nat) (b : BuiltinDecl)
    (hb : builtins[idx]? = some b) (hid : b.id = .IF_BOOL_ANY_ANY) (c t e : Expr)
    (log : List Event) :
    callFun f dbg ρ (.builtin idx) true (.cons c (.cons t (.cons e .nil))) log =
      seq (eval f dbg ρ c log) fun cv l1 =>
        match cv with
        | .bool true => eval f dbg ρ t l1
        | .bool false => eval f dbg ρ e l1
        | _ => (.error (.stuck "cast:bool"), l1) := by
  rw [callFun]
  simp only [hb, hid, if_true]
  rw [EvalM.bind_apply]
  congr 1; funext cv l1
  cases cv <;> try rfl
  next v => cases v <;> rfl

theorem callFun_and' (f : Nat) (dbg : Bool) (ρ : REnv) (idx : Nat) (b : BuiltinDecl)
    (hb : builtins[idx]? = some b) (hid : b.id = .LOGIC_AND_BOOL_BOOL) (x y : Expr)
    (log : List Event) :
    callFun f dbg ρ (.builtin idx) true (.cons x (.cons y .nil)) log =
      seq (eval f dbg ρ x log) fun xv l1 =>
        match xv with
        | .bool true =>
          seq (eval f dbg ρ y l1) fun yv l2 =>
            match yv with
            | .bool r => (.ok (.bool r), l2)
            | _ => (.error (.stuck "cast:bool"), l2)
        | .bool false => (.ok (.bool false), l1)
        | _ => (.error (.stuck "cast:bool"), l1) := by
  rw [callFun]
  simp only [hb, hid, if_true]
  rw [EvalM.bind_apply]
  congr 1; funext xv l1
  cases xv <;> try rfl
  next v =>
    cases v
    · rfl
    · dsimp only
      rw [EvalM.bind_apply]; congr 1; funext yv l2
      cases yv <;> rfl

theorem callFun_or' (f : Nat) (dbg : Bool) (ρ : REnv) (idx : Nat) (b : BuiltinDecl)
    (hb : builtins[idx]? = some b) (hid : b.id = .LOGIC_OR_BOOL_BOOL) (x y : Expr)
    (log : List Event) :
    callFun f dbg ρ (.builtin idx) true (.cons x (.cons y .nil)) log =
      seq (eval f dbg ρ x log) fun xv l1 =>
        match xv with
        | .bool true => (.ok (.bool true), l1)
        | .bool false =>
          seq (eval f dbg ρ y l1) fun yv l2 =>
            match yv with
            | .bool r => (.ok (.bool r), l2)
            | _ => (.error (.stuck "cast:bool"), l2)
        | _ => (.error (.stuck "cast:bool"), l1) := by
  rw [callFun]
  simp only [hb, hid, if_true]
  rw [EvalM.bind_apply]
  congr 1; funext xv l1
  cases xv <;> try rfl
  next v =>
    cases v
    · dsimp only
      rw [EvalM.bind_apply]; congr 1; funext yv l2
      cases yv <;> rfl
    · rfl

/-- a strict built-in: all arguments left to right, then the function, then what it printed -/
theorem callFun_strict_builtin' (f : Nat) (dbg : Bool) (ρ : REnv) (idx : Nat)
    (b : BuiltinDecl) (hb : builtins[idx]? = some b) (args : ExprList) (log : List Event) :
    callFun f dbg ρ (.builtin idx) false args log =
      seq (evalList f dbg ρ args log) fun vs l =>
        match applyBuiltin ρ.ext b.id vs.toList with
        | .ok (v, evs) => (.ok v, evs.reverse ++ l)
        | .error x => (.error x, l) := by
  rw [callFun]
  simp only [hb, Bool.false_eq_true, if_false]
  rw [EvalM.bind_apply]
  congr 1; funext vs l
  rw [EvalM.bind_apply]
  unfold EvalM.lift
  cases applyBuiltin ρ.ext b.id vs.toList with
  | error x => rfl
  | ok r => rcases r with ⟨v, evs⟩; rfl

/-- a strict host function: all arguments left to right, then the invocation -/
theorem callFun_strict_host' (f : Nat) (dbg : Bool) (ρ : REnv) (name : String) (beh : HostBeh)
    (args : ExprList) (log : List Event) :
    callFun f dbg ρ (.host name beh) false args log =
      seq (evalList f dbg ρ args log) fun vs l => hostStrict name beh vs.toList l := by
  unfold callFun
  simp only [Bool.false_eq_true, if_false]
  rw [EvalM.bind_apply]

/-- the invocation of a strict host function records exactly one call event -/
theorem hostStrict_log (name : String) (beh : HostBeh) (vs : List Val) (l : List Event) :
    (hostStrict name beh vs l).2 = Event.call name (vs.map Val.render) :: l := by
  unfold hostStrict
  rw [EvalM.bind_apply]
  show (seq (Except.ok (), Event.call name (vs.map Val.render) :: l) _).2 = _
  rw [seq_ok]
  cases beh <;> try rfl
  next i => dsimp only; cases vs[i]? <;> rfl

/-- a lazy host function: its invocation is recorded, then it forces the thunks it chooses, in
the order it chooses, and nothing else -/
theorem callFun_lazy_host' (f : Nat) (dbg : Bool) (ρ : REnv) (name : String)
    (order : List Nat) (args : ExprList) (log : List Event) :
    callFun f dbg ρ (.host name (.force order)) true args log =
      forceSeq f dbg ρ args order none (Event.call name [] :: log) := by
  rw [callFun]
  simp only [if_true]
  rw [EvalM.bind_apply]
  rfl

theorem forceSeq_cons' (f : Nat) (dbg : Bool) (ρ : REnv) (args : ExprList) (i : Nat)
    (rest : List Nat) (last : Option Val) (a : Expr) (ha : args.get? i = some a)
    (log : List Event) :
    forceSeq f dbg ρ args (i :: rest) last log =
      seq (eval f dbg ρ a log) fun v l => forceSeq f dbg ρ args rest (some v) l := by
  rw [forceSeq]
  simp only [ha]
  rw [EvalM.bind_apply]

/-! ### the guarded lookup `if(isset(m,k), m[k], d)` -/

/-- The annotated tree of `if(isset(m,k), m[k], d)`: both calls are statically dispatched to the
first (and only) polymorphic overload registered under `if`/3 and `isset`/2. -/
def guardTree (pos : Pos) (col : Int) (m k d : String) (a1 a2 a3 : Option Ty) : Expr :=
  .call pos col (.ident pos "if")
    (.cons (.call pos col (.ident pos "isset")
              (.cons (.ident pos m) (.cons (.ident pos k) .nil)) a1 "∀.λ isset 2" 0)
    (.cons (.subscript pos col (.ident pos m) (.ident pos k) a2)
    (.cons (.ident pos d) .nil))) a3 "∀.λ if 3" 0

/-- the function table resolves the two keys to the built-ins `if` (lazy) and `isset` -/
def isBuiltinRef (o : Option FunDecl) (i : Nat) (l : Bool) : Bool :=
  match o with
  | some ⟨_, .builtin j, l'⟩ => i == j && l == l'
  | _ => false

theorem isBuiltinRef_elim {o : Option FunDecl} {i : Nat} {l : Bool}
    (h : isBuiltinRef o i l = true) : ∃ ty, o = some ⟨ty, .builtin i, l⟩ := by
  unfold isBuiltinRef at h
  split at h
  · next ty j l' =>
    simp only [Bool.and_eq_true, beq_iff_eq] at h
    exact ⟨ty, by rw [h.1, h.2]⟩
  · cases h

def GuardFuns (funs : List FunDecl) : Prop :=
  isBuiltinRef (resolveStatic funs "∀.λ if 3" 0) 22 true = true ∧
  isBuiltinRef (resolveStatic funs "∀.λ isset 2" 0) 24 false = true

set_option maxRecDepth 100000 in
theorem guardFuns_builtin : GuardFuns builtinFuns := by
  constructor <;> decide

theorem applyBuiltin_isset (ext : Externs) (ty : Ty) (es : EntryList) (kv : Val) (t : Kind)
    (ks : String) (hk : kv.key? = some (t, ks)) :
    applyBuiltin ext .ISSET_MAP_ANY [.map ty es, kv] = .ok (.bool (es.find? t ks).isSome, []) := by
  show (match kv.key? with
    | some (t, ks) => Except.ok (Val.bool (es.find? t ks).isSome, [])
    | none => Except.error (Fail.stuck "invalid map key type")) = _
  rw [hk]

theorem guard_value (fuel : Nat) (dbg : Bool) (ρ : REnv) (pos : Pos) (col : Int)
    (m k d : String) (a1 a2 a3 : Option Ty) (ty : Ty) (es : EntryList) (kv dv : Val)
    (t : Kind) (ks : String) (log : List Event)
    (hf : GuardFuns ρ.funs)
    (hm : ρ.lookupVar m = some (.map ty es)) (hk : ρ.lookupVar k = some kv)
    (hkey : kv.key? = some (t, ks)) (hd : ρ.lookupVar d = some dv) :
    (eval (fuel+3) dbg ρ (guardTree pos col m k d a1 a2 a3) log).1 =
      .ok (match es.find? t ks with
           | some v => v
           | none => dv) := by
  obtain ⟨ty1, h1⟩ := isBuiltinRef_elim hf.1
  obtain ⟨ty2, h2⟩ := isBuiltinRef_elim hf.2
  obtain ⟨bIf, b22, hIf⟩ : ∃ b, builtins[22]? = some b ∧ b.id = .IF_BOOL_ANY_ANY := ⟨_, rfl, rfl⟩
  obtain ⟨bIs, b24, hIs⟩ : ∃ b, builtins[24]? = some b ∧ b.id = .ISSET_MAP_ANY := ⟨_, rfl, rfl⟩
  unfold guardTree
  rw [eval_call_static' _ _ _ _ _ _ _ _ _ _ _ (by decide) h1]
  rw [callFun_if' _ _ _ _ _ b22 hIf]
  rw [eval_call_static' _ _ _ _ _ _ _ _ _ _ _ (by decide) h2]
  rw [callFun_strict_builtin' _ _ _ _ _ b24]
  simp only [evalList_cons', evalList_nil', eval_ident', hm, hk, recDbg_apply, seq_ok,
    ValList.toList, hIs, applyBuiltin_isset _ _ _ _ _ _ hkey]
  cases hfind : es.find? t ks with
  | none =>
    simp only [Option.isSome_none, seq_ok, eval_ident', hd, recDbg_apply]
  | some v =>
    simp only [Option.isSome_some, seq_ok]
    rw [eval_subscript']
    simp only [eval_ident', hm, hk, recDbg_apply, seq_ok, subscriptStep, hkey, hfind]

end Yae
