/-
  `Typed` (the overload rule the checker implements) against `Typed'` (the natural rule):
  * `Typed ⊆ Typed'` always, with the same type;
  * the two overload rules coincide when no argument type contains `⊥`/`⊤` (and no candidate
    parameter contains `⊤`): then every successful instantiation is exact (`pmatch_exact`).
-/
import Yae.Proofs.TypingCheck
import Yae.Proofs.TypingOpt
namespace Yae

mutual
/-- neither `⊥` nor `⊤` occurs in the type -/
def noBT : Ty → Bool
  | .top => false
  | .bot => false
  | .tuple ts => noBTList ts
  | .list el => noBT el
  | .map k v => noBT k && noBT v
  | .obj fs => noBTFields fs
  | .fn _ ps r => noBTList ps && noBT r
  | .maybe el => noBT el
  | _ => true
def noBTList : TyList → Bool
  | .nil => true
  | .cons t ts => noBT t && noBTList ts
def noBTFields : FieldList → Bool
  | .nil => true
  | .cons _ t fs => noBT t && noBTFields fs
end

theorem noBTFields_find : ∀ (fs : FieldList) (n : String) (t : Ty),
    noBTFields fs = true → fs.find? n = some t → noBT t = true
  | .nil, _, _, _, h => by simp [FieldList.find?] at h
  | .cons m u fs, n, t, hs, h => by
    simp only [noBTFields, Bool.and_eq_true] at hs
    simp only [FieldList.find?] at h
    split at h
    · cases h; exact hs.1
    · exact noBTFields_find fs n t hs.2 h

mutual
theorem pmatch_exact : ∀ (p g : Ty) (m : Subst) (t : Ty) (m' : Subst), noTop p = true →
    noBT g = true → g.wf = true → pmatch p g m = some (t, m') → tyEq t g = true
  | .var n, g, m, t, m', _, _, hw, h => by
    simp only [pmatch] at h
    split at h
    · split at h
      · cases h; exact tyEq_refl' hw
      · cases h
    · cases h; exact tyEq_refl' hw
  | .top, _, _, _, _, hp, _, _, _ => by simp [noTop] at hp
  | .bot, g, _, _, _, _, hg, _, h | .num, g, _, _, _, _, hg, _, h | .str, g, _, _, _, _, hg, _, h
  | .bool, g, _, _, _, _, hg, _, h | .time, g, _, _, _, _, hg, _, h
  | .fn _ _ _, g, _, _, _, _, hg, _, h => by
    cases g <;> simp [pmatch, noBT] at h hg <;> (cases h.1; rfl)
  | .list a, g, m, t, m', hp, hg, hw, h => by
    cases g <;> simp [pmatch, noBT] at h hg
    next b =>
    cases hr : pmatch a b m with
    | none => simp [hr] at h
    | some r =>
      obtain ⟨t1, m1⟩ := r
      simp only [hr, Option.some.injEq, Prod.mk.injEq] at h
      rw [← h.1]
      simp only [tyEq]
      exact pmatch_exact a b m t1 m1 (by simpa [noTop] using hp) hg (by simpa [Ty.wf] using hw) hr
  | .maybe a, g, m, t, m', hp, hg, hw, h => by
    cases g <;> simp [pmatch, noBT] at h hg
    next b =>
    cases hr : pmatch a b m with
    | none => simp [hr] at h
    | some r =>
      obtain ⟨t1, m1⟩ := r
      simp only [hr, Option.some.injEq, Prod.mk.injEq] at h
      rw [← h.1]
      simp only [tyEq]
      exact pmatch_exact a b m t1 m1 (by simpa [noTop] using hp) hg (by simpa [Ty.wf] using hw) hr
  | .map k v, g, m, t, m', hp, hg, hw, h => by
    cases g <;> simp [pmatch, noBT] at h hg
    next k' v' =>
    simp only [noTop, Bool.and_eq_true] at hp
    simp only [Ty.wf, Bool.and_eq_true] at hw
    cases hr : pmatch k k' m with
    | none => simp [hr] at h
    | some r =>
      obtain ⟨k1, m1⟩ := r
      simp only [hr] at h
      cases hr2 : pmatch v v' m1 with
      | none => simp [hr2] at h
      | some r2 =>
        obtain ⟨v1, m2⟩ := r2
        simp only [hr2, Option.some.injEq, Prod.mk.injEq] at h
        rw [← h.1]
        simp only [tyEq, Bool.and_eq_true]
        exact ⟨pmatch_exact k k' m k1 m1 hp.1 hg.1 hw.1.2 hr,
          pmatch_exact v v' m1 v1 m2 hp.2 hg.2 hw.2 hr2⟩
  | .tuple xs, g, m, t, m', hp, hg, hw, h => by
    cases g <;> simp [pmatch, noBT] at h hg
    next ys =>
    obtain ⟨hl, h⟩ := h
    cases hr : pmatchList xs ys m with
    | none => simp [hr] at h
    | some r =>
      obtain ⟨ts, m1⟩ := r
      simp only [hr, Option.some.injEq, Prod.mk.injEq] at h
      rw [← h.1]
      simp only [tyEq]
      exact pmatchList_exact xs ys m ts m1 hl (by simpa [noTop] using hp) hg
        (by simpa [Ty.wf] using hw) hr
  | .obj fs, g, m, t, m', hp, hg, hw, h => by
    cases g <;> simp [pmatch, noBT] at h hg
    next gs =>
    obtain ⟨hl, h⟩ := h
    cases hr : pmatchFields fs gs m with
    | none => simp [hr] at h
    | some r =>
      obtain ⟨hs, m1⟩ := r
      simp only [hr, Option.some.injEq, Prod.mk.injEq] at h
      rw [← h.1]
      have := pmatchFields_exact fs gs m hs m1 (by simpa [noTop] using hp) hg
        (by simpa [Ty.wf] using hw) hr
      simp only [tyEq, Bool.and_eq_true, beq_iff_eq]
      exact ⟨by rw [this.2, hl], this.1⟩
theorem pmatchList_exact : ∀ (xs ys : TyList) (m : Subst) (ts : TyList) (m' : Subst),
    xs.length = ys.length → noTopList xs = true → noBTList ys = true → wfList ys = true →
    pmatchList xs ys m = some (ts, m') → tyEqList ts ys = true
  | .nil, .nil, _, _, _, _, _, _, _, h => by
    simp only [pmatchList, Option.some.injEq, Prod.mk.injEq] at h
    rw [← h.1]; rfl
  | .nil, .cons _ _, _, _, _, hl, _, _, _, _ => by simp [TyList.length] at hl
  | .cons _ _, .nil, _, _, _, hl, _, _, _, _ => by simp [TyList.length] at hl
  | .cons x xs, .cons y ys, m, ts, m', hl, hp, hg, hw, h => by
    simp only [TyList.length, Nat.add_right_cancel_iff] at hl
    simp only [noTopList, Bool.and_eq_true] at hp
    simp only [noBTList, Bool.and_eq_true] at hg
    simp only [wfList, Bool.and_eq_true] at hw
    simp only [pmatchList] at h
    cases hr : pmatch x y m with
    | none => simp [hr] at h
    | some r =>
      obtain ⟨t1, m1⟩ := r
      simp only [hr] at h
      cases hr2 : pmatchList xs ys m1 with
      | none => simp [hr2] at h
      | some r2 =>
        obtain ⟨ts1, m2⟩ := r2
        simp only [hr2, Option.some.injEq, Prod.mk.injEq] at h
        rw [← h.1]
        simp only [tyEqList, Bool.and_eq_true]
        exact ⟨pmatch_exact x y m t1 m1 hp.1 hg.1 hw.1 hr,
          pmatchList_exact xs ys m1 ts1 m2 hl hp.2 hg.2 hw.2 hr2⟩
theorem pmatchFields_exact : ∀ (fs gs : FieldList) (m : Subst) (hs : FieldList) (m' : Subst),
    noTopFields fs = true → noBTFields gs = true → wfFields gs = true →
    pmatchFields fs gs m = some (hs, m') → tyEqFields hs gs = true ∧ hs.length = fs.length
  | .nil, _, _, _, _, _, _, _, h => by
    simp only [pmatchFields, Option.some.injEq, Prod.mk.injEq] at h
    rw [← h.1]; exact ⟨rfl, rfl⟩
  | .cons n t rest, gs, m, hs, m', hp, hg, hw, h => by
    simp only [noTopFields, Bool.and_eq_true] at hp
    simp only [pmatchFields] at h
    cases hf : gs.find? n with
    | none => simp [hf] at h
    | some u =>
      simp only [hf] at h
      cases hr : pmatch t u m with
      | none => simp [hr] at h
      | some r =>
        obtain ⟨t1, m1⟩ := r
        simp only [hr] at h
        cases hr2 : pmatchFields rest gs m1 with
        | none => simp [hr2] at h
        | some r2 =>
          obtain ⟨hs1, m2⟩ := r2
          simp only [hr2, Option.some.injEq, Prod.mk.injEq] at h
          rw [← h.1]
          have ih := pmatchFields_exact rest gs m1 hs1 m2 hp.2 hg hw hr2
          have := pmatch_exact t u m t1 m1 hp.1 (noBTFields_find _ _ _ hg hf)
            (wfFields_find _ _ _ hw hf) hr
          simp only [tyEqFields, hf, this, ih.1, Bool.and_self, FieldList.length, ih.2, and_self]
end


theorem instantiate_exact {ps : TyList} {ret : Ty} {As qs : TyList} {U : Ty}
    (hp : noTopList ps = true) (hA : noBTList As = true) (hw : wfList As = true)
    (h : instantiate ps ret As = some (qs, U)) : tyEqList qs As = true := by
  unfold instantiate at h
  split at h
  · cases h
  · next hl =>
    cases hm : pmatchList ps As [] with
    | none => simp [hm] at h
    | some r =>
      obtain ⟨ps', σ⟩ := r
      simp only [hm] at h
      split at h
      · cases h
        exact pmatchList_exact ps As [] _ σ (by simpa using hl) hp hA hw hm
      · cases h

/-- the checker's rule implies the natural rule -/
theorem firstInst_accepted : ∀ {cands : List FunDecl} {As ps' T}, FirstInst cands As ps' T →
    tyEqList ps' As = true → FirstAccepted cands As ps' T
  | _ :: _, _, _, _, .here hd hi, he => .here hd hi he
  | _ :: _, _, _, _, .later hd hi h, he =>
    .later hd (fun qs U hq => by rw [hi] at hq; cases hq) (firstInst_accepted h he)

/-- candidates without `⊤` in their parameters -/
def CandsNoTop (cands : List FunDecl) : Prop :=
  ∀ d ∈ cands, ∀ name ps ret, d.ty = .fn name ps ret → noTopList ps = true

/-- and conversely when no argument type contains `⊥`/`⊤` -/
theorem firstAccepted_inst {As : TyList} (hA : noBTList As = true) (hw : wfList As = true) :
    ∀ {cands : List FunDecl} {ps' T}, CandsNoTop cands → FirstAccepted cands As ps' T →
      FirstInst cands As ps' T ∧ tyEqList ps' As = true
  | _ :: _, _, _, _, .here hd hi he => ⟨.here hd hi, he⟩
  | d :: rest, _, _, hc, .later (ps := ps) (ret := ret) hd hno h => by
    have ih := firstAccepted_inst hA hw (fun d' hd' => hc d' (List.mem_cons_of_mem _ hd')) h
    refine ⟨.later hd ?_ ih.1, ih.2⟩
    cases hi : instantiate ps ret As with
    | none => rfl
    | some r =>
      obtain ⟨qs, U⟩ := r
      have h1 := hno qs U hi
      have h2 := instantiate_exact (hc d (List.mem_cons_self ..) _ _ _ hd) hA hw hi
      rw [h1] at h2; cases h2

/-! ### `Typed ⊆ Typed'` -/

mutual
theorem typed_imp_typed' {Γ : TEnv} : ∀ (e : Expr) (T : Ty), Typed Γ e T → Typed' Γ e T
  | .str _ _, _, h => by cases h; constructor
  | .num _ _, _, h => by cases h; constructor
  | .time _ _, _, h => by cases h; constructor
  | .bool _ _, _, h => by cases h; constructor
  | .list _ .nil _, _, h => by cases h; constructor
  | .list _ (.cons e es) _, _, h => by
    cases h with | listCons a b => exact .listCons (typed_imp_typed' e _ a) (typedElems_imp es _ b)
  | .map _ .nil _, _, h => by cases h; constructor
  | .map _ (.cons k v ps) _, _, h => by
    cases h with | mapCons a hp b c =>
      exact .mapCons (typed_imp_typed' k _ a) hp (typed_imp_typed' v _ b) (typedPairs_imp ps _ _ c)
  | .obj _ fs _, _, h => by
    cases h with | obj a hn => exact .obj (typedFields_imp fs _ a) hn
  | .ident _ _, _, h => by cases h with | ident a b => exact .ident a b
  | .subscript _ _ v i _, _, h => by
    cases h with
    | subList a b c => exact .subList (typed_imp_typed' v _ a) (typed_imp_typed' i _ b) c
    | subMap a b c => exact .subMap (typed_imp_typed' v _ a) (typed_imp_typed' i _ b) c
  | .member _ _ o _ _ _ _, _, h => by
    cases h with | member a b => exact .member (typed_imp_typed' o _ a) b
  | .call _ _ callee args _ _ _, _, h => by
    cases h with
    | callMono a hm hty hl he => exact .callMono (typedArgs_imp args _ a) hm hty hl he
    | callPoly a hm hfi he => exact .callPoly (typedArgs_imp args _ a) hm (firstInst_accepted hfi he)
    | callFn hni a hc hi he =>
      exact .callFn hni (typedArgs_imp args _ a) (typed_imp_typed' callee _ hc) hi he
  | .unary .., _, h | .binary .., _, h | .ternary .., _, h | .group .., _, h => by cases h
theorem typedElems_imp {Γ : TEnv} : ∀ (es : ExprList) (T : Ty), TypedElems Γ es T →
    TypedElems' Γ es T
  | .nil, _, _ => .nil
  | .cons e es, _, h => by
    cases h with | cons a b c => exact .cons (typed_imp_typed' e _ a) b (typedElems_imp es _ c)
theorem typedPairs_imp {Γ : TEnv} : ∀ (ps : PairList) (K V : Ty), TypedPairs Γ ps K V →
    TypedPairs' Γ ps K V
  | .nil, _, _, _ => .nil
  | .cons k v ps, _, _, h => by
    cases h with | cons a b c d e =>
      exact .cons (typed_imp_typed' k _ a) b (typed_imp_typed' v _ c) d (typedPairs_imp ps _ _ e)
theorem typedFields_imp {Γ : TEnv} : ∀ (fs : FieldEList) (Fs : FieldList), TypedFields Γ fs Fs →
    TypedFields' Γ fs Fs
  | .nil, _, h => by cases h; exact .nil
  | .cons _ e fs, _, h => by
    cases h with | cons a b => exact .cons (typed_imp_typed' e _ a) (typedFields_imp fs _ b)
theorem typedArgs_imp {Γ : TEnv} : ∀ (es : ExprList) (Ts : TyList), TypedArgs Γ es Ts →
    TypedArgs' Γ es Ts
  | .nil, _, h => by cases h; exact .nil
  | .cons e es, _, h => by
    cases h with | cons a b => exact .cons (typed_imp_typed' e _ a) (typedArgs_imp es _ b)
end

end Yae
