/-
  Lemmas for C16 (optional types): what `unify` accepts against `maybe[t]`, which built-in
  parameters can receive an optional, rejection of member / subscript on an optional.
-/
import Yae.Spec.Typing
import Yae.Proofs.TyEq
import Yae.Proofs.TypingCheck
namespace Yae

/-! ### `unify` against an optional -/

/-- A pattern that unifies with `maybe[t]` is a type variable, an optional pattern, or `⊤`. -/
theorem unify_maybe_right {fuel : Nat} {p t : Ty} {m : Subst} {r : Ty × Subst}
    (h : unify fuel p (.maybe t) m = .ok r) :
    (∃ n, p = .var n) ∨ (∃ a, p = .maybe a) ∨ p = .top := by
  cases fuel with
  | zero => simp [unify] at h
  | succ f =>
    by_cases hp : p.kind = .tyvar
    · cases p <;> simp [Ty.kind] at hp
      exact .inl ⟨_, rfl⟩
    · rw [unify_nonvar f p (.maybe t) m hp (by simp [Ty.kind])] at h
      split at h
      · next hc => cases p <;> simp [Ty.isPrimitive, Ty.kind, Kind.isPrimitive] at hc
      · split at h
        · next hc =>
          cases p <;> simp [Ty.isComposite, Ty.kind, Kind.isComposite] at hc
          exact .inr (.inl ⟨_, rfl⟩)
        · split at h
          · next hc =>
            cases p <;> simp [Ty.kind] at hc
            exact .inr (.inr rfl)
          · exact absurd h UM.throw_ne_ok

/-! ### `⊤` does not occur in a type -/

mutual
def noTop : Ty → Bool
  | .top => false
  | .tuple ts => noTopList ts
  | .list el => noTop el
  | .map k v => noTop k && noTop v
  | .obj fs => noTopFields fs
  | .fn _ ps r => noTopList ps && noTop r
  | .maybe el => noTop el
  | _ => true
def noTopList : TyList → Bool
  | .nil => true
  | .cons t ts => noTop t && noTopList ts
def noTopFields : FieldList → Bool
  | .nil => true
  | .cons _ t fs => noTop t && noTopFields fs
end

/-! ### the built-in table: which parameters can receive an optional -/

def isVarTy : Ty → Bool
  | .var _ => true
  | _ => false

def isMaybeTy : Ty → Bool
  | .maybe _ => true
  | _ => false

/-- positions `(i, pᵢ)` of a parameter list -/
def TyList.indexed : TyList → Nat → List (Nat × Ty)
  | .nil, _ => []
  | .cons t ts, i => (i, t) :: TyList.indexed ts (i+1)

def FunParams : Ty → TyList
  | .fn _ ps _ => ps
  | _ => .nil

/-- `(built-in, name, parameter index)` for every built-in parameter satisfying `pred` -/
def builtinParamsWhere (pred : Ty → Bool) : List (BId × Nat) :=
  builtins.flatMap fun b =>
    ((FunParams b.ty).indexed 0).filterMap fun (i, t) => if pred t then some (b.id, i) else none

/-! ### member / subscript on an optional -/

theorem check_member_maybe {Γ : TEnv} {c c1 : Nat} {obj obj' : Expr} {t : Ty}
    (h : check Γ c obj = .ok (.maybe t, obj', c1)) (p : Pos) (col : Int) (field : String)
    (fp : Pos) (oty : Option Ty) (i : Int) :
    check Γ c (.member p col obj field fp oty i) = .error .type := by
  rw [check, h]
  rfl

theorem check_subscript_maybe {Γ : TEnv} {c c1 : Nat} {var var' : Expr} {t : Ty}
    (h : check Γ c var = .ok (.maybe t, var', c1)) (p : Pos) (col : Int) (idx : Expr)
    (vty : Option Ty) :
    check Γ c (.subscript p col var idx vty) = .error .type := by
  rw [check, h]
  rfl

/-! ### the specification's matching against an optional -/

/-- a parameter pattern that can receive an optional without being an optional pattern itself -/
def AcceptsMaybe (p : Ty) : Prop := (∃ n, p = .var n) ∨ (∃ a, p = .maybe a) ∨ p = .top

theorem pmatch_maybe {p t : Ty} {m : Subst} {r : Ty × Subst}
    (h : pmatch p (.maybe t) m = some r) : AcceptsMaybe p := by
  cases p <;> first
    | exact .inl ⟨_, rfl⟩
    | exact .inr (.inl ⟨_, rfl⟩)
    | exact .inr (.inr rfl)
    | (simp [pmatch] at h)

theorem pmatchList_get : ∀ (ps As : TyList) (m : Subst) (r : TyList × Subst),
    ps.length = As.length → pmatchList ps As m = some r →
    ∀ i a, As.get? i = some a → ∃ p m1 r1, ps.get? i = some p ∧ pmatch p a m1 = some r1
  | .nil, .nil, _, _, _, _, i, a, ha => by simp [TyList.get?] at ha
  | .nil, .cons _ _, _, _, hl, _, _, _, _ => by simp [TyList.length] at hl
  | .cons _ _, .nil, _, _, hl, _, _, _, _ => by simp [TyList.length] at hl
  | .cons p ps, .cons a' As, m, r, hl, h, i, a, ha => by
    simp only [TyList.length, Nat.add_right_cancel_iff] at hl
    simp only [pmatchList] at h
    cases h1 : pmatch p a' m with
    | none => simp [h1] at h
    | some r1 =>
      obtain ⟨t, m1⟩ := r1
      simp only [h1] at h
      cases h2 : pmatchList ps As m1 with
      | none => simp [h2] at h
      | some r2 =>
        cases i with
        | zero =>
          simp only [TyList.get?, Option.some.injEq] at ha
          subst ha
          exact ⟨p, m, _, rfl, h1⟩
        | succ i =>
          simp only [TyList.get?] at ha
          obtain ⟨q, m2, r3, hq, hm⟩ := pmatchList_get ps As m1 r2 hl h2 i a ha
          exact ⟨q, m2, r3, by simpa [TyList.get?] using hq, hm⟩

theorem tyEqList_get : ∀ (ps As : TyList), tyEqList ps As = true →
    ∀ i a, As.get? i = some a → ∃ p, ps.get? i = some p ∧ tyEq p a = true
  | .nil, .nil, _, _, _, ha => by simp [TyList.get?] at ha
  | .nil, .cons _ _, h, _, _, _ => by simp [tyEqList] at h
  | .cons _ _, .nil, h, _, _, _ => by simp [tyEqList] at h
  | .cons p ps, .cons a' As, h, i, a, ha => by
    simp only [tyEqList, Bool.and_eq_true] at h
    cases i with
    | zero =>
      simp only [TyList.get?, Option.some.injEq] at ha
      subst ha
      exact ⟨p, rfl, h.1⟩
    | succ i =>
      simp only [TyList.get?] at ha
      obtain ⟨q, hq, he⟩ := tyEqList_get ps As h.2 i a ha
      exact ⟨q, by simpa [TyList.get?] using hq, he⟩

theorem tyEq_maybe_right {p t : Ty} (h : tyEq p (.maybe t) = true) : ∃ a, p = .maybe a := by
  cases p <;> simp [tyEq] at h
  exact ⟨_, rfl⟩

/-- some candidate's parameters matched the argument types -/
theorem firstInst_matched : ∀ {cands : List FunDecl} {As ps' T}, FirstInst cands As ps' T →
    ∃ d name ps ret r, d ∈ cands ∧ d.ty = .fn name ps ret ∧ ps.length = As.length ∧
      pmatchList ps As [] = some r
  | d :: _, As, _, _, .here (name := name) (ps := ps) (ret := ret) hd hi => by
    refine ⟨d, name, ps, ret, ?_⟩
    unfold instantiate at hi
    split at hi
    · cases hi
    · next hl =>
      cases hm : pmatchList ps As [] with
      | none => simp [hm] at hi
      | some r => exact ⟨r, List.mem_cons_self .., hd, by simpa using hl, rfl⟩
  | _ :: _, _, _, _, .later _ _ h => by
    obtain ⟨d, name, ps, ret, r, hm, rest⟩ := firstInst_matched h
    exact ⟨d, name, ps, ret, r, List.mem_cons_of_mem _ hm, rest⟩

/-- In a well-typed call `f(args)` every argument of optional type meets, in the selected
overload, a parameter that is a type variable, an optional pattern, or `⊤`. -/
theorem typed_call_maybe {Γ : TEnv} {p col cp f args cty res idx T}
    (h : Typed Γ (.call p col (.ident cp f) args cty res idx) T) :
    ∃ As d name ps ret, TypedArgs Γ args As ∧ d ∈ Γ.funs ∧ d.ty = .fn name ps ret ∧
      ∀ i t, As.get? i = some (.maybe t) → ∃ q, ps.get? i = some q ∧ AcceptsMaybe q := by
  cases h with
  | callMono ha hm hty hlen hte =>
    rename_i As d name ps
    refine ⟨As, d, name, ps, _, ha, (lookupMono_mem hm).1, hty, fun i t hi => ?_⟩
    obtain ⟨q, hq, he⟩ := tyEqList_get _ _ hte i _ hi
    exact ⟨q, hq, .inr (.inl (tyEq_maybe_right he))⟩
  | callPoly ha hm hfi hte =>
    rename_i As ps'
    obtain ⟨d, name, ps, ret, r, hmem, hty, hl, hpm⟩ := firstInst_matched hfi
    refine ⟨As, d, name, ps, ret, ha, (lookupPoly_mem hmem).1, hty, fun i t hi => ?_⟩
    obtain ⟨q, m1, r1, hq, hm1⟩ := pmatchList_get _ _ _ _ hl hpm i _ hi
    exact ⟨q, hq, pmatch_maybe hm1⟩
  | callFn hni _ _ _ _ => cases hni

end Yae
