/-
  C05: discharging `PolyOK` from a decidable, syntactic condition on the registered signature.

  `sigOK (.fn name ps ret)`: parameters and result are well formed, their variables are not
  named `s…` / `t…` (the fresh names `inferFun` draws), they contain no function type, no
  variable occurs inside a map-key position of the result, and the parameter list is small
  enough for the unifier's fuel (`tySize ps + 3 ≤ defaultFuel = 100000`).

  For such a signature and argument types expressions can have (`TyOKList`), `inferFun` computes
  exactly what the specification's `instantiate` says (`inferFun_eq_spec`; no fuel alternative:
  the unifier's fuel decreases along the *pattern*, whose size is bounded by `sigOK`).  The proof
  follows the four steps of `inferFun`:
    1. the first `unify` binds `s<i> ↦ param_i`, `t<n> ↦ ret` (`phase1_ok`, totality added to
       `Sound.phase1`),
    2. `applySubst` of the fresh tuple gives the parameters back (`phase2_ok`),
    3. the second `unify`, against the variable-free argument tuple, is simulated step by step by
       `pmatch` on the substitution restricted to signature variables (`usim`),
    4. `applySubst` of `t<n>` is `substG` of the result type (`applySubst_okG_ok`).
-/
import Yae.Proofs.TypingCheck
import Yae.Proofs.SoundnessInfer
namespace Yae.PolyOK
open Yae Yae.Sound

/-! ### the condition -/

mutual
/-- no variable inside a map-key position -/
def keysClosed : Ty → Bool
  | .map k v => slotFree k && keysClosed v
  | .tuple ts => keysClosedList ts
  | .list el => keysClosed el
  | .obj fs => keysClosedFields fs
  | .fn _ ps r => keysClosedList ps && keysClosed r
  | .maybe el => keysClosed el
  | _ => true
def keysClosedList : TyList → Bool
  | .nil => true
  | .cons t ts => keysClosed t && keysClosedList ts
def keysClosedFields : FieldList → Bool
  | .nil => true
  | .cons _ t fs => keysClosed t && keysClosedFields fs
end

mutual
/-- number of constructors (the fuel `unify` needs is bounded by the size of the pattern) -/
def tySize : Ty → Nat
  | .tuple ts => tySizeList ts + 1
  | .list el => tySize el + 1
  | .map k v => tySize k + tySize v + 1
  | .obj fs => tySizeFields fs + 1
  | .fn _ ps r => tySizeList ps + tySize r + 1
  | .maybe el => tySize el + 1
  | _ => 1
def tySizeList : TyList → Nat
  | .nil => 0
  | .cons t ts => tySize t + tySizeList ts + 1
def tySizeFields : FieldList → Nat
  | .nil => 0
  | .cons _ t fs => tySize t + tySizeFields fs + 1
end

/-- the decidable condition on a registered signature -/
def sigOK : Ty → Bool
  | .fn _ ps ret =>
    wfList ps && ret.wf && okVarsList ps && okVars ret && noFnList ps && noFn ret &&
      keysClosed ret && decide (tySizeList ps + 4 ≤ defaultFuel)
  | _ => false

/-! ### `applySubst` where nothing (relevant) is bound -/

mutual
theorem applySubst_unbound_ok (f : Nat) (m : Subst) : ∀ t,
    (∀ n, freeFrom n t = false → m.get? n = none) → t.wf = true → applySubst f m t = .ok t
  | .var n, h, _ => applySubst_var_none (h n (by simp [freeFrom]))
  | .top, _, _ | .bot, _, _ | .num, _, _ | .str, _, _ | .bool, _, _ | .time, _, _ => by
    simp [applySubst]
  | .tuple ts, h, hw => by
    simp only [Ty.wf] at hw
    simp only [applySubst, applySubstList_unbound_ok f m ts
      (fun n hn => h n (by simpa [freeFrom] using hn)) hw, UM.ok_bind]; rfl
  | .list a, h, hw => by
    simp only [Ty.wf] at hw
    simp only [applySubst, applySubst_unbound_ok f m a
      (fun n hn => h n (by simpa [freeFrom] using hn)) hw, UM.ok_bind]; rfl
  | .map k v, h, hw => by
    simp only [Ty.wf, Bool.and_eq_true] at hw
    simp only [applySubst,
      applySubst_unbound_ok f m k (fun n hn => h n (by simp [freeFrom, hn])) hw.1.2,
      applySubst_unbound_ok f m v (fun n hn => h n (by simp [freeFrom, hn])) hw.2,
      UM.ok_bind, mkMap, hw.1.1, if_true]; rfl
  | .obj fs, h, hw => by
    simp only [Ty.wf] at hw
    simp only [applySubst, applySubstFields_unbound_ok f m fs
      (fun n hn => h n (by simpa [freeFrom] using hn)) hw, UM.ok_bind]; rfl
  | .fn _ ps r, h, hw => by
    simp only [Ty.wf, Bool.and_eq_true] at hw
    simp only [applySubst,
      applySubstList_unbound_ok f m ps (fun n hn => h n (by simp [freeFrom, hn])) hw.1,
      applySubst_unbound_ok f m r (fun n hn => h n (by simp [freeFrom, hn])) hw.2, UM.ok_bind]; rfl
  | .maybe a, h, hw => by
    simp only [Ty.wf] at hw
    simp only [applySubst, applySubst_unbound_ok f m a
      (fun n hn => h n (by simpa [freeFrom] using hn)) hw, UM.ok_bind]; rfl
theorem applySubstList_unbound_ok (f : Nat) (m : Subst) : ∀ ts,
    (∀ n, freeFromList n ts = false → m.get? n = none) → wfList ts = true →
    applySubstList f m ts = .ok ts
  | .nil, _, _ => by simp [applySubstList]
  | .cons t ts, h, hw => by
    simp only [wfList, Bool.and_eq_true] at hw
    simp only [applySubstList,
      applySubst_unbound_ok f m t (fun n hn => h n (by simp [freeFromList, hn])) hw.1,
      applySubstList_unbound_ok f m ts (fun n hn => h n (by simp [freeFromList, hn])) hw.2,
      UM.ok_bind]; rfl
theorem applySubstFields_unbound_ok (f : Nat) (m : Subst) : ∀ fs,
    (∀ n, freeFromFields n fs = false → m.get? n = none) → wfFields fs = true →
    applySubstFields f m fs = .ok fs
  | .nil, _, _ => by simp [applySubstFields]
  | .cons x t fs, h, hw => by
    simp only [wfFields, Bool.and_eq_true] at hw
    simp only [applySubstFields,
      applySubst_unbound_ok f m t (fun n hn => h n (by simp [freeFromFields, hn])) hw.1.2,
      applySubstFields_unbound_ok f m fs (fun n hn => h n (by simp [freeFromFields, hn])) hw.2,
      UM.ok_bind]; rfl
end

/-- signature variables are unbound in a `NoOk` substitution -/
theorem applySubst_noOk_ok {f : Nat} {m : Subst} (hm : NoOk m) {t : Ty} (ht : okVars t = true)
    (hw : t.wf = true) : applySubst f m t = .ok t := by
  refine applySubst_unbound_ok f m t (fun n hn => ?_) hw
  by_cases hok : okVarName n = true
  · exact hm n hok
  · have := okVars_freeFrom (by simpa using hok) t ht
    rw [this] at hn; cases hn

theorem applySubst_nil_ok {f : Nat} {t : Ty} (hw : t.wf = true) : applySubst f [] t = .ok t :=
  applySubst_unbound_ok f [] t (fun _ _ => rfl) hw

/-! ### `applySubst` under a substitution that is ground on signature variables -/

mutual
/-- with one unit of fuel `applySubst` is `substG` (no `types.Map` panic: the keys of the type
are variable free) -/
theorem applySubst_okG_ok {m : Subst} (hm : OkG m) (f : Nat) : ∀ t, okVars t = true →
    t.wf = true → keysClosed t = true → applySubst (f+1) m t = .ok (substG m t)
  | .var n, ho, _, _ => by
    simp only [okVars] at ho
    rw [applySubst.eq_1]
    simp only [substG]
    cases hn : m.get? n with
    | none => rfl
    | some r =>
      have hr := hm n r ho hn
      simp only []
      split
      · simp [slotFree] at hr
      · exact applySubst_ground_ok f m r hr.1 hr.2
  | .top, _, _, _ | .bot, _, _, _ | .num, _, _, _ | .str, _, _, _ | .bool, _, _, _
  | .time, _, _, _ => by
    simp [applySubst, substG]
  | .tuple ts, ho, hw, hk => by
    simp only [okVars] at ho; simp only [Ty.wf] at hw; simp only [keysClosed] at hk
    simp only [applySubst, applySubstList_okG_ok hm f ts ho hw hk, UM.ok_bind, substG]; rfl
  | .list a, ho, hw, hk => by
    simp only [okVars] at ho; simp only [Ty.wf] at hw; simp only [keysClosed] at hk
    simp only [applySubst, applySubst_okG_ok hm f a ho hw hk, UM.ok_bind, substG]; rfl
  | .map k v, ho, hw, hk => by
    simp only [okVars, Bool.and_eq_true] at ho
    simp only [Ty.wf, Bool.and_eq_true] at hw
    simp only [keysClosed, Bool.and_eq_true] at hk
    simp only [applySubst, applySubst_ground_ok (f+1) m k hk.1 hw.1.2,
      applySubst_okG_ok hm f v ho.2 hw.2 hk.2, UM.ok_bind, substG, substG_ground m k hk.1, mkMap,
      hw.1.1, if_true]; rfl
  | .obj fs, ho, hw, hk => by
    simp only [okVars] at ho; simp only [Ty.wf] at hw; simp only [keysClosed] at hk
    simp only [applySubst, applySubstFields_okG_ok hm f fs ho hw hk, UM.ok_bind, substG]; rfl
  | .fn _ ps r, ho, hw, hk => by
    simp only [okVars, Bool.and_eq_true] at ho
    simp only [Ty.wf, Bool.and_eq_true] at hw
    simp only [keysClosed, Bool.and_eq_true] at hk
    simp only [applySubst, applySubstList_okG_ok hm f ps ho.1 hw.1 hk.1,
      applySubst_okG_ok hm f r ho.2 hw.2 hk.2, UM.ok_bind, substG]; rfl
  | .maybe a, ho, hw, hk => by
    simp only [okVars] at ho; simp only [Ty.wf] at hw; simp only [keysClosed] at hk
    simp only [applySubst, applySubst_okG_ok hm f a ho hw hk, UM.ok_bind, substG]; rfl
theorem applySubstList_okG_ok {m : Subst} (hm : OkG m) (f : Nat) : ∀ ts, okVarsList ts = true →
    wfList ts = true → keysClosedList ts = true →
    applySubstList (f+1) m ts = .ok (substGList m ts)
  | .nil, _, _, _ => by simp [applySubstList, substGList]
  | .cons t ts, ho, hw, hk => by
    simp only [okVarsList, Bool.and_eq_true] at ho
    simp only [wfList, Bool.and_eq_true] at hw
    simp only [keysClosedList, Bool.and_eq_true] at hk
    simp only [applySubstList, applySubst_okG_ok hm f t ho.1 hw.1 hk.1,
      applySubstList_okG_ok hm f ts ho.2 hw.2 hk.2, UM.ok_bind, substGList]; rfl
theorem applySubstFields_okG_ok {m : Subst} (hm : OkG m) (f : Nat) : ∀ fs,
    okVarsFields fs = true → wfFields fs = true → keysClosedFields fs = true →
    applySubstFields (f+1) m fs = .ok (substGFields m fs)
  | .nil, _, _, _ => by simp [applySubstFields, substGFields]
  | .cons n t fs, ho, hw, hk => by
    simp only [okVarsFields, Bool.and_eq_true] at ho
    simp only [wfFields, Bool.and_eq_true] at hw
    simp only [keysClosedFields, Bool.and_eq_true] at hk
    simp only [applySubstFields, applySubst_okG_ok hm f t ho.1 hw.1.2 hk.1,
      applySubstFields_okG_ok hm f fs ho.2 hw.2 hk.2, UM.ok_bind, substGFields]; rfl
end

/-- the bindings of signature variables contain no function type -/
def OkN (m : Subst) : Prop :=
  ∀ n k, okVarName n = true → m.get? n = some k → noFn k = true

theorem OkN.set {m : Subst} {n : String} {t : Ty} (hm : OkN m) (h : noFn t = true) :
    OkN (m.set n t) := by
  intro n' k hok hk
  by_cases hn : n = n'
  · subst hn; rw [Subst.get?_set_self] at hk; cases hk; exact h
  · rw [Subst.get?_set_ne _ _ _ _ hn] at hk; exact hm n' k hok hk

mutual
theorem noFn_substG {m : Subst} (hm : OkN m) : ∀ t, okVars t = true → noFn t = true →
    noFn (substG m t) = true
  | .var n, ho, _ => by
    simp only [okVars] at ho
    simp only [substG]
    cases hn : m.get? n with
    | none => rfl
    | some r => exact hm n r ho hn
  | .top, _, _ | .bot, _, _ | .num, _, _ | .str, _, _ | .bool, _, _ | .time, _, _ => rfl
  | .tuple ts, ho, h => by
    simp only [okVars] at ho; simp only [noFn] at h
    simp only [substG, noFn]; exact noFnList_substG hm ts ho h
  | .list a, ho, h => by
    simp only [okVars] at ho; simp only [noFn] at h
    simp only [substG, noFn]; exact noFn_substG hm a ho h
  | .map k v, ho, h => by
    simp only [okVars, Bool.and_eq_true] at ho; simp only [noFn, Bool.and_eq_true] at h
    simp only [substG, noFn, Bool.and_eq_true]
    exact ⟨noFn_substG hm k ho.1 h.1, noFn_substG hm v ho.2 h.2⟩
  | .obj fs, ho, h => by
    simp only [okVars] at ho; simp only [noFn] at h
    simp only [substG, noFn]; exact noFnFields_substG hm fs ho h
  | .fn _ _ _, _, h => by simp [noFn] at h
  | .maybe a, ho, h => by
    simp only [okVars] at ho; simp only [noFn] at h
    simp only [substG, noFn]; exact noFn_substG hm a ho h
theorem noFnList_substG {m : Subst} (hm : OkN m) : ∀ ts, okVarsList ts = true →
    noFnList ts = true → noFnList (substGList m ts) = true
  | .nil, _, _ => rfl
  | .cons t ts, ho, h => by
    simp only [okVarsList, Bool.and_eq_true] at ho; simp only [noFnList, Bool.and_eq_true] at h
    simp only [substGList, noFnList, Bool.and_eq_true]
    exact ⟨noFn_substG hm t ho.1 h.1, noFnList_substG hm ts ho.2 h.2⟩
theorem noFnFields_substG {m : Subst} (hm : OkN m) : ∀ fs, okVarsFields fs = true →
    noFnFields fs = true → noFnFields (substGFields m fs) = true
  | .nil, _, _ => rfl
  | .cons n t fs, ho, h => by
    simp only [okVarsFields, Bool.and_eq_true] at ho; simp only [noFnFields, Bool.and_eq_true] at h
    simp only [substGFields, noFnFields, Bool.and_eq_true]
    exact ⟨noFn_substG hm t ho.1 h.1, noFnFields_substG hm fs ho.2 h.2⟩
end

/-- the instantiated key of a map pattern is keyable -/
theorem pmatch_keyable {k g t : Ty} {σ σ' : Subst} (h : pmatch k g σ = some (t, σ'))
    (hk : k.keyable = true) (hg : g.keyable = true) : t.keyable = true := by
  cases k <;> simp [Ty.keyable, Ty.isPrimitive, Ty.kind, Kind.isPrimitive] at hk
  case var n =>
    simp only [pmatch] at h
    split at h
    · split at h
      · cases h; exact hg
      · cases h
    · cases h; exact hg
  all_goals
    cases g <;> simp [pmatch] at h <;> (obtain ⟨rfl, _⟩ := h; rfl)

/-! ### the second `unify` of `inferFun` is `pmatch` -/

/-- the specification's instantiation is the signature-variable part of the unifier's -/
def Agree (σ m : Subst) : Prop := ∀ n, okVarName n = true → σ.get? n = m.get? n

structure Inv (σ m : Subst) : Prop where
  agree : Agree σ m
  okG : OkG m
  okN : OkN m

theorem Inv.set {σ m : Subst} (h : Inv σ m) {n : String} {g : Ty} (hg : slotFree g = true)
    (hw : g.wf = true) (hn : noFn g = true) : Inv (σ.set n g) (m.set n g) := by
  refine ⟨fun n' hok => ?_, h.okG.set hg hw, h.okN.set hn⟩
  by_cases e : n = n'
  · subst e; rw [Subst.get?_set_self, Subst.get?_set_self]
  · rw [Subst.get?_set_ne _ _ _ _ e, Subst.get?_set_ne _ _ _ _ e]; exact h.agree n' hok

/-- `u` (a run of the unifier from `m`) does what `r` (the matcher) says -/
def SimR {α : Type} (u : UM (α × Subst)) (r : Option (α × Subst)) (m : Subst) : Prop :=
  match r with
  | some (t, σ') => ∃ m', u = .ok (t, m') ∧ Inv σ' m' ∧ JunkEq m m'
  | none => u = .error .fail

theorem SimR.ok {α : Type} {t : α} {σ m : Subst} (h : Inv σ m) :
    SimR (.ok (t, m)) (some (t, σ)) m := ⟨m, rfl, h, JunkEq.refl m⟩

def USim (f : Nat) : Prop :=
  ∀ p g m σ, slotFree g = true → g.wf = true → noFn g = true → okVars p = true → p.wf = true →
    noFn p = true → Inv σ m → tySize p ≤ f → SimR (unify f p g m) (pmatch p g σ) m

theorem usim_var (f : Nat) (n : String) (g : Ty) (m σ : Subst) (hg : slotFree g = true)
    (hw : g.wf = true) (hn : noFn g = true) (ho : okVarName n = true) (hinv : Inv σ m) :
    SimR (unify (f+1) (.var n) g m) (pmatch (.var n) g σ) m := by
  rw [unify_var_left f n g m (slotFree_kind hg), applySubst_ground_ok f m g hg hw]
  simp only [UM.ok_bind, slotFree_freeFrom n g hg, if_true]
  simp only [pmatch, hinv.agree n ho]
  have hj : JunkEq m (m.set n g) := fun n' hn' => Subst.get?_set_ne _ _ _ _ (ne_of_ok ho hn')
  cases hk : m.get? n with
  | none => exact ⟨_, rfl, hinv.set hg hw hn, hj⟩
  | some k =>
    simp only []
    by_cases he : tyEq k g = true
    · simp only [he, Bool.not_true, Bool.false_eq_true, if_false, if_true]
      exact ⟨_, rfl, hinv.set hg hw hn, hj⟩
    · simp only [he, Bool.not_false, if_true, if_false, Bool.false_eq_true]
      rfl

/-- patterns without components -/
theorem usim_atom (f : Nat) (p g : Ty) (m σ : Subst) (hg : slotFree g = true) (hinv : Inv σ m)
    (hp : p = .top ∨ p = .bot ∨ p = .num ∨ p = .str ∨ p = .bool ∨ p = .time) :
    SimR (unify (f+1) p g m) (pmatch p g σ) m := by
  have key : (unify (f+1) p g m = .ok (p, m) ∧ pmatch p g σ = some (p, σ)) ∨
      (unify (f+1) p g m = .error .fail ∧ pmatch p g σ = none) := by
    rcases hp with rfl | rfl | rfl | rfl | rfl | rfl <;>
    (cases g <;> first
      | (simp [slotFree] at hg; done)
      | (rw [unify_nonvar f _ _ m (by simp [Ty.kind]) (by simp [Ty.kind])]
         simp only [Ty.isPrimitive, Ty.isComposite, Ty.kind, Kind.isPrimitive, Kind.isComposite, pmatch]
         first | exact Or.inl ⟨rfl, trivial⟩ | exact Or.inr ⟨rfl, trivial⟩ | exact Or.inl ⟨rfl, rfl⟩ | exact Or.inr ⟨rfl, rfl⟩))
  rcases key with ⟨h1, h2⟩ | ⟨h1, h2⟩
  · rw [h1, h2]; exact SimR.ok hinv
  · rw [h1, h2]; rfl

/-- a composite pattern against a type of another kind -/
theorem usim_mismatch (f : Nat) (p g : Ty) (m σ : Subst) (hg : slotFree g = true) (hinv : Inv σ m)
    (hp : (∃ a, p = .list a) ∨ (∃ a, p = .maybe a) ∨ (∃ k v, p = .map k v) ∨ (∃ ts, p = .tuple ts) ∨
      (∃ fs, p = .obj fs)) (hk : p.kind ≠ g.kind) :
    SimR (unify (f+1) p g m) (pmatch p g σ) m := by
  have key : (unify (f+1) p g m = .ok (p, m) ∧ pmatch p g σ = some (p, σ)) ∨
      (unify (f+1) p g m = .error .fail ∧ pmatch p g σ = none) := by
    rcases hp with ⟨a, rfl⟩ | ⟨a, rfl⟩ | ⟨k, v, rfl⟩ | ⟨ts, rfl⟩ | ⟨fs, rfl⟩ <;>
    (cases g <;> first
      | (exact absurd rfl hk)
      | (simp [slotFree] at hg; done)
      | (rw [unify_nonvar f _ _ m (by simp [Ty.kind]) (by simp [Ty.kind])]
         simp only [Ty.isPrimitive, Ty.isComposite, Ty.kind, Kind.isPrimitive, Kind.isComposite, pmatch]
         first | exact Or.inl ⟨rfl, trivial⟩ | exact Or.inr ⟨rfl, trivial⟩ | exact Or.inl ⟨rfl, rfl⟩ | exact Or.inr ⟨rfl, rfl⟩))
  rcases key with ⟨h1, h2⟩ | ⟨h1, h2⟩
  · rw [h1, h2]; exact SimR.ok hinv
  · rw [h1, h2]; rfl

theorem unify_comp (f : Nat) (p g : Ty) (m : Subst) (hp : p.isComposite = true)
    (hk : p.kind = g.kind) : unify (f+1) p g m = unifyComposite f p g m := by
  have hpv : p.kind ≠ .tyvar := by
    intro h; cases p <;> simp [Ty.kind, Ty.isComposite, Kind.isComposite] at h hp
  have hgv : g.kind ≠ .tyvar := by rw [← hk]; exact hpv
  have hgc : g.isComposite = true := by
    simp only [Ty.isComposite] at hp ⊢; rw [← hk]; exact hp
  have hpp : p.isPrimitive = false := by
    cases p <;> simp [Ty.kind, Ty.isComposite, Kind.isComposite, Ty.isPrimitive, Kind.isPrimitive] at hp ⊢
  rw [unify_nonvar f p g m hpv hgv]
  simp [hp, hgc, hk, hpp]

theorem simR_bind_none {α β : Type} {u : UM (α × Subst)} {m : Subst}
    (h : SimR u none m) (k : α × Subst → UM (β × Subst)) : (u >>= k) = .error .fail := by
  have : u = .error .fail := h
  rw [this]; rfl

section
variable {f : Nat}

theorem usim_list (hu : USim f) : ∀ (ps gs : TyList) (m σ : Subst), slotFreeList gs = true →
    wfList gs = true → noFnList gs = true → okVarsList ps = true → wfList ps = true →
    noFnList ps = true → Inv σ m → tySizeList ps ≤ f →
    SimR (unifyList f ps gs m) (pmatchList ps gs σ) m
  | .nil, gs, m, σ, _, _, _, _, _, _, hinv, _ => by
    cases gs <;> (simp only [unifyList, pmatchList]; exact SimR.ok hinv)
  | .cons p ps, .nil, m, σ, _, _, _, _, _, _, hinv, _ => by
    simp only [unifyList, pmatchList]; exact SimR.ok hinv
  | .cons p ps, .cons g gs, m, σ, hg, hw, hn, ho, hpw, hpn, hinv, hsz => by
    simp only [slotFreeList, Bool.and_eq_true] at hg
    simp only [wfList, Bool.and_eq_true] at hw hpw
    simp only [noFnList, Bool.and_eq_true] at hn hpn
    simp only [okVarsList, Bool.and_eq_true] at ho
    simp only [tySizeList] at hsz
    simp only [unifyList, pmatchList]
    have ih := hu p g m σ hg.1 hw.1 hn.1 ho.1 hpw.1 hpn.1 hinv (by omega)
    cases hr : pmatch p g σ with
    | none => rw [hr] at ih; rw [simR_bind_none ih]; rfl
    | some x =>
      obtain ⟨t, σ1⟩ := x
      rw [hr] at ih
      obtain ⟨m1, h1, hi1, hj1⟩ := ih
      simp only [h1, UM.ok_bind]
      have ih2 := usim_list hu ps gs m1 σ1 hg.2 hw.2 hn.2 ho.2 hpw.2 hpn.2 hi1 (by omega)
      cases hr2 : pmatchList ps gs σ1 with
      | none => rw [hr2] at ih2; rw [simR_bind_none ih2]; rfl
      | some y =>
        obtain ⟨ts, σ2⟩ := y
        rw [hr2] at ih2
        obtain ⟨m2, h2, hi2, hj2⟩ := ih2
        simp only [h2, UM.ok_bind]
        exact ⟨m2, rfl, hi2, JunkEq.trans hj1 hj2⟩

theorem usim_fields (hu : USim f) : ∀ (fs gs : FieldList) (m σ : Subst), slotFreeFields gs = true →
    wfFields gs = true → noFnFields gs = true → okVarsFields fs = true → wfFields fs = true →
    noFnFields fs = true → Inv σ m → tySizeFields fs ≤ f →
    SimR (unifyFields f fs gs m) (pmatchFields fs gs σ) m
  | .nil, gs, m, σ, _, _, _, _, _, _, hinv, _ => by
    simp only [unifyFields, pmatchFields]; exact SimR.ok hinv
  | .cons n p fs, gs, m, σ, hg, hw, hn, ho, hpw, hpn, hinv, hsz => by
    simp only [wfFields, Bool.and_eq_true] at hpw
    simp only [noFnFields, Bool.and_eq_true] at hpn
    simp only [okVarsFields, Bool.and_eq_true] at ho
    simp only [tySizeFields] at hsz
    simp only [unifyFields, pmatchFields]
    cases hfind : gs.find? n with
    | none => rfl
    | some g =>
      simp only []
      have ih := hu p g m σ (slotFreeFields_find gs n g hg hfind) (wfFields_find gs n g hw hfind)
        (noFnFields_find gs n g hn hfind) ho.1 hpw.1.2 hpn.1 hinv (by omega)
      cases hr : pmatch p g σ with
      | none => rw [hr] at ih; rw [simR_bind_none ih]; rfl
      | some x =>
        obtain ⟨t, σ1⟩ := x
        rw [hr] at ih
        obtain ⟨m1, h1, hi1, hj1⟩ := ih
        simp only [h1, UM.ok_bind]
        have ih2 := usim_fields hu fs gs m1 σ1 hg hw hn ho.2 hpw.2 hpn.2 hi1 (by omega)
        cases hr2 : pmatchFields fs gs σ1 with
        | none => rw [hr2] at ih2; rw [simR_bind_none ih2]; rfl
        | some y =>
          obtain ⟨ts, σ2⟩ := y
          rw [hr2] at ih2
          obtain ⟨m2, h2, hi2, hj2⟩ := ih2
          simp only [h2, UM.ok_bind]
          exact ⟨m2, rfl, hi2, JunkEq.trans hj1 hj2⟩

end

theorem usim_zero : USim 0 := by
  intro p g m σ _ _ _ _ _ _ _ hsz
  have : 0 < tySize p := by cases p <;> simp [tySize]
  omega

theorem usim_succ {f : Nat} (hu : USim f) : USim (f+1) := by
  intro p g m σ hg hw hn ho hpw hpn hinv hsz
  cases p with
  | var n => exact usim_var f n g m σ hg hw hn (by simpa [okVars] using ho) hinv
  | top => exact usim_atom f _ g m σ hg hinv (Or.inl rfl)
  | bot => exact usim_atom f _ g m σ hg hinv (Or.inr (Or.inl rfl))
  | num => exact usim_atom f _ g m σ hg hinv (Or.inr (Or.inr (Or.inl rfl)))
  | str => exact usim_atom f _ g m σ hg hinv (Or.inr (Or.inr (Or.inr (Or.inl rfl))))
  | bool => exact usim_atom f _ g m σ hg hinv (Or.inr (Or.inr (Or.inr (Or.inr (Or.inl rfl)))))
  | time => exact usim_atom f _ g m σ hg hinv (Or.inr (Or.inr (Or.inr (Or.inr (Or.inr rfl)))))
  | fn _ _ _ => simp [noFn] at hpn
  | list a =>
    by_cases hk : (Ty.list a).kind = g.kind
    · rw [unify_comp f _ g m rfl hk]
      cases g <;> simp [Ty.kind] at hk
      rename_i b
      simp only [unifyComposite, pmatch]
      have ih := hu a b m σ (by simpa [slotFree] using hg) (by simpa [Ty.wf] using hw)
        (by simpa [noFn] using hn) (by simpa [okVars] using ho) (by simpa [Ty.wf] using hpw)
        (by simpa [noFn] using hpn) hinv (by simp only [tySize] at hsz; omega)
      cases hr : pmatch a b σ with
      | none => rw [hr] at ih; rw [simR_bind_none ih]; rfl
      | some x =>
        obtain ⟨t, σ1⟩ := x
        rw [hr] at ih
        obtain ⟨m1, h1, hi1, hj1⟩ := ih
        simp only [h1, UM.ok_bind]
        exact ⟨m1, rfl, hi1, hj1⟩
    · exact usim_mismatch f _ g m σ hg hinv (Or.inl ⟨a, rfl⟩) hk
  | maybe a =>
    by_cases hk : (Ty.maybe a).kind = g.kind
    · rw [unify_comp f _ g m rfl hk]
      cases g <;> simp [Ty.kind] at hk
      rename_i b
      simp only [unifyComposite, pmatch]
      have ih := hu a b m σ (by simpa [slotFree] using hg) (by simpa [Ty.wf] using hw)
        (by simpa [noFn] using hn) (by simpa [okVars] using ho) (by simpa [Ty.wf] using hpw)
        (by simpa [noFn] using hpn) hinv (by simp only [tySize] at hsz; omega)
      cases hr : pmatch a b σ with
      | none => rw [hr] at ih; rw [simR_bind_none ih]; rfl
      | some x =>
        obtain ⟨t, σ1⟩ := x
        rw [hr] at ih
        obtain ⟨m1, h1, hi1, hj1⟩ := ih
        simp only [h1, UM.ok_bind]
        exact ⟨m1, rfl, hi1, hj1⟩
    · exact usim_mismatch f _ g m σ hg hinv (Or.inr (Or.inl ⟨a, rfl⟩)) hk
  | map k v =>
    by_cases hk : (Ty.map k v).kind = g.kind
    · rw [unify_comp f _ g m rfl hk]
      cases g <;> simp [Ty.kind] at hk
      rename_i k' v'
      simp only [slotFree, Bool.and_eq_true] at hg
      simp only [Ty.wf, Bool.and_eq_true] at hw hpw
      simp only [noFn, Bool.and_eq_true] at hn hpn
      simp only [okVars, Bool.and_eq_true] at ho
      simp only [tySize] at hsz
      simp only [unifyComposite, pmatch]
      have ih := hu k k' m σ hg.1 hw.1.2 hn.1 ho.1 hpw.1.2 hpn.1 hinv (by omega)
      cases hr : pmatch k k' σ with
      | none => rw [hr] at ih; rw [simR_bind_none ih]; rfl
      | some x =>
        obtain ⟨k1, σ1⟩ := x
        rw [hr] at ih
        obtain ⟨m1, h1, hi1, hj1⟩ := ih
        simp only [h1, UM.ok_bind]
        have ih2 := hu v v' m1 σ1 hg.2 hw.2 hn.2 ho.2 hpw.2 hpn.2 hi1 (by omega)
        cases hr2 : pmatch v v' σ1 with
        | none => rw [hr2] at ih2; rw [simR_bind_none ih2]; rfl
        | some y =>
          obtain ⟨v1, σ2⟩ := y
          rw [hr2] at ih2
          obtain ⟨m2, h2, hi2, hj2⟩ := ih2
          have hkey := pmatch_keyable hr hpw.1.1 hw.1.1
          simp only [h2, UM.ok_bind, mkMap, hkey, if_true]
          exact ⟨m2, rfl, hi2, JunkEq.trans hj1 hj2⟩
    · exact usim_mismatch f _ g m σ hg hinv (Or.inr (Or.inr (Or.inl ⟨k, v, rfl⟩))) hk
  | tuple xs =>
    by_cases hk : (Ty.tuple xs).kind = g.kind
    · rw [unify_comp f _ g m rfl hk]
      cases g <;> simp [Ty.kind] at hk
      rename_i ys
      simp only [unifyComposite, pmatch]
      by_cases hlen : (xs.length != ys.length) = true
      · simp only [hlen, if_true]; rfl
      · simp only [hlen, Bool.false_eq_true, if_false]
        have ih := usim_list hu xs ys m σ (by simpa [slotFree] using hg) (by simpa [Ty.wf] using hw)
          (by simpa [noFn] using hn) (by simpa [okVars] using ho) (by simpa [Ty.wf] using hpw)
          (by simpa [noFn] using hpn) hinv (by simp only [tySize] at hsz; omega)
        cases hr : pmatchList xs ys σ with
        | none => rw [hr] at ih; rw [simR_bind_none ih]; rfl
        | some x =>
          obtain ⟨ts, σ1⟩ := x
          rw [hr] at ih
          obtain ⟨m1, h1, hi1, hj1⟩ := ih
          simp only [h1, UM.ok_bind]
          exact ⟨m1, rfl, hi1, hj1⟩
    · exact usim_mismatch f _ g m σ hg hinv (Or.inr (Or.inr (Or.inr (Or.inl ⟨xs, rfl⟩)))) hk
  | obj fs =>
    by_cases hk : (Ty.obj fs).kind = g.kind
    · rw [unify_comp f _ g m rfl hk]
      cases g <;> simp [Ty.kind] at hk
      rename_i gs
      simp only [unifyComposite, pmatch]
      by_cases hlen : (fs.length != gs.length) = true
      · simp only [hlen, if_true]; rfl
      · simp only [hlen, Bool.false_eq_true, if_false]
        have ih := usim_fields hu fs gs m σ (by simpa [slotFree] using hg) (by simpa [Ty.wf] using hw)
          (by simpa [noFn] using hn) (by simpa [okVars] using ho) (by simpa [Ty.wf] using hpw)
          (by simpa [noFn] using hpn) hinv (by simp only [tySize] at hsz; omega)
        cases hr : pmatchFields fs gs σ with
        | none => rw [hr] at ih; rw [simR_bind_none ih]; rfl
        | some x =>
          obtain ⟨ts, σ1⟩ := x
          rw [hr] at ih
          obtain ⟨m1, h1, hi1, hj1⟩ := ih
          simp only [h1, UM.ok_bind]
          exact ⟨m1, rfl, hi1, hj1⟩
    · exact usim_mismatch f _ g m σ hg hinv (Or.inr (Or.inr (Or.inr (Or.inr ⟨fs, rfl⟩)))) hk

theorem usim : ∀ f, USim f
  | 0 => usim_zero
  | f+1 => usim_succ (usim f)

/-! ### the first `unify` of `inferFun` succeeds -/

/-- `unify (var x) p m` for a junk name `x` not bound in `m` binds it to `p` -/
theorem unify_bind_junk_ok (f : Nat) (x : String) (p : Ty) (m : Subst)
    (hx : okVarName x = false) (hp : okVars p = true) (hw : p.wf = true) (hm : NoOk m)
    (hxm : m.get? x = none) : unify (f+1) (.var x) p m = .ok (p, m.set x p) := by
  by_cases hk : p.kind = .tyvar
  · cases p <;> simp [Ty.kind] at hk
    rename_i b
    simp only [okVars] at hp
    have hne : b ≠ x := ne_of_ok hp hx
    simp only [unify, applySubst_var_none hxm, applySubst_var_none (hm b hp), UM.ok_bind]
    have hxb : (x == b) = false := by simp [Ne.symm hne]
    simp only [pure_bind, tyEq, hxb, Ty.isPrimitive, Ty.isComposite, Ty.kind, Kind.isPrimitive,
      Kind.isComposite, freeFrom, hxm, Bool.false_eq_true, if_false, Bool.and_false,
      Bool.false_and, bne_iff_ne, ne_eq, hne, not_false_eq_true, if_true]
    rfl
  · rw [unify_var_left f x p m hk, applySubst_noOk_ok hm hp hw]
    simp only [UM.ok_bind, okVars_freeFrom hx _ hp, hxm, if_true]
    rfl

theorem phase1_list_ok (f : Nat) : ∀ (ps : TyList) (start : Nat) (m : Subst),
    okVarsList ps = true → wfList ps = true → NoOk m →
    (∀ j, start ≤ j → m.get? (freshName "s" j) = none) →
    ∃ ts m', unifyList (f+1) (freshVars "s" start ps.length) ps m = .ok (ts, m')
  | .nil, start, m, _, _, _, _ => by
    simp only [TyList.length, freshVars, unifyList]
    exact ⟨_, _, rfl⟩
  | .cons p ps, start, m, hpo, hpw, hm, hfree => by
    simp only [okVarsList, Bool.and_eq_true] at hpo
    simp only [wfList, Bool.and_eq_true] at hpw
    simp only [TyList.length, freshVars, unifyList]
    rw [unify_bind_junk_ok f _ p m (okVarName_s start) hpo.1 hpw.1 hm (hfree start (Nat.le_refl _))]
    simp only [UM.ok_bind]
    have hm1 : NoOk (m.set (freshName "s" start) p) := hm.set (okVarName_s start)
    have hfree1 : ∀ j, start + 1 ≤ j →
        (m.set (freshName "s" start) p).get? (freshName "s" j) = none := by
      intro j hj
      rw [Subst.get?_set_ne _ _ _ _ (fun e => by have := freshName_inj "s" e; omega)]
      exact hfree j (by omega)
    obtain ⟨ts, m', h⟩ := phase1_list_ok f ps (start+1) _ hpo.2 hpw.2 hm1 hfree1
    rw [h]
    exact ⟨_, _, rfl⟩

theorem unify_fn_fn (f : Nat) (n n' : String) (ps qs : TyList) (r s : Ty) (m : Subst) :
    unify (f+1) (.fn n ps r) (.fn n' qs s) m = unifyComposite f (.fn n ps r) (.fn n' qs s) m :=
  unify_comp f (.fn n ps r) (.fn n' qs s) m rfl rfl

theorem unify_tuple_tuple (f : Nat) (xs ys : TyList) (m : Subst) :
    unify (f+1) (.tuple xs) (.tuple ys) m = unifyComposite f (.tuple xs) (.tuple ys) m :=
  unify_comp f (.tuple xs) (.tuple ys) m rfl rfl

theorem wfList_freshVars (pre : String) : ∀ (k start : Nat), wfList (freshVars pre start k) = true
  | 0, _ => rfl
  | k+1, start => by simp [freshVars, wfList, Ty.wf, wfList_freshVars pre k (start+1)]

/-- The first `unify` of `inferFun` succeeds when the number of arguments is the number of
parameters, and fails (`nil`) otherwise. -/
theorem phase1_ok (f : Nat) (name : String) (start tn : Nat) (ps : TyList) (k : Nat) (ret : Ty)
    (hpo : okVarsList ps = true) (hro : okVars ret = true) (hpw : wfList ps = true)
    (hrw : ret.wf = true) :
    (k = ps.length → ∃ x m, unify (f+3)
          (.fn name (.cons (.tuple (freshVars "s" start k)) .nil) (.var (freshName "t" tn)))
          (.fn name (.cons (.tuple ps) .nil) ret) [] = .ok (x, m)) ∧
    (k ≠ ps.length → unify (f+3)
          (.fn name (.cons (.tuple (freshVars "s" start k)) .nil) (.var (freshName "t" tn)))
          (.fn name (.cons (.tuple ps) .nil) ret) [] = .error .fail) := by
  have e3 : f + 3 = (f + 2) + 1 := rfl
  have e2 : f + 2 = (f + 1) + 1 := rfl
  rw [e3, unify_fn_fn]
  simp only [unifyComposite, TyList.length, bne_self_eq_false, Bool.false_eq_true, if_false,
    unifyParams]
  rw [applySubst_nil_ok (t := .tuple (freshVars "s" start k))
      (by simpa [Ty.wf] using wfList_freshVars "s" k start),
    applySubst_nil_ok (t := .tuple ps) (by simpa [Ty.wf] using hpw)]
  simp only [UM.ok_bind]
  rw [e2, unify_tuple_tuple]
  simp only [unifyComposite, length_freshVars]
  constructor
  · rintro rfl
    simp only [bne_self_eq_false, Bool.false_eq_true, if_false]
    obtain ⟨ts, m3, h3⟩ := phase1_list_ok f ps start [] hpo hpw (fun _ _ => rfl) (fun _ _ => rfl)
    obtain ⟨hm3, _, hfr3⟩ := phase1_list f ps start [] ts m3 hpo (fun _ _ => rfl) (fun _ _ => rfl) h3
    have ht0 : m3.get? (freshName "t" tn) = none := by
      rw [hfr3 _ (fun j _ e => s_ne_t j tn e.symm)]; rfl
    rw [h3]
    simp only [UM.ok_bind, pure_bind]
    rw [unify_bind_junk_ok (f+1) _ ret m3 (okVarName_t tn) hro hrw hm3 ht0]
    exact ⟨_, _, rfl⟩
  · intro hne
    have : (k != ps.length) = true := by simpa using hne
    simp only [this, if_true]
    rfl

/-! ### `applySubst` of the fresh tuple gives back the parameters -/

theorem phase2_ok (f : Nat) (m : Subst) (hm : NoOk m) : ∀ (ps : TyList) (start : Nat),
    okVarsList ps = true → wfList ps = true → Bound m start ps →
    applySubstList (f+1) m (freshVars "s" start ps.length) = .ok ps
  | .nil, _, _, _, _ => by simp [TyList.length, freshVars, applySubstList]
  | .cons p ps, start, hpo, hpw, hb => by
    simp only [okVarsList, Bool.and_eq_true] at hpo
    simp only [wfList, Bool.and_eq_true] at hpw
    simp only [TyList.length, freshVars, applySubstList]
    have h1 : applySubst (f+1) m (.var (freshName "s" start)) = .ok p := by
      rw [applySubst.eq_1]
      simp only [hb.1]
      split
      · next n' =>
        have hn' : okVarName n' = true := by simpa [okVars] using hpo.1
        rw [if_neg (ne_of_ok hn' (okVarName_s start))]
        exact applySubst_var_none (hm n' hn')
      · exact applySubst_noOk_ok hm hpo.1 hpw.1
    rw [h1, phase2_ok f m hm ps (start+1) hpo.2 hpw.2 hb.2]
    rfl

/-! ### `inferFun` is `instantiate` -/

theorem inv_nil {m : Subst} (hm : NoOk m) : Inv [] m :=
  ⟨fun n hn => by rw [hm n hn]; rfl, hm.okG, fun n k hn hk => by rw [hm n hn] at hk; cases hk⟩

/-- chasing `t<n> ↦ ret` -/
theorem applySubst_chase_ok {f : Nat} {m : Subst} {n : String} {ret : Ty}
    (hn : m.get? n = some ret) (hne : okVarName n = false) (hro : okVars ret = true) :
    applySubst (f+1) m (.var n) = applySubst f m ret := by
  rw [applySubst.eq_1]
  simp only [hn]
  split
  · next n' =>
    have hn' : okVarName n' = true := by simpa [okVars] using hro
    rw [if_neg (ne_of_ok hn' hne)]
  · rfl

theorem inferFun_eq_spec {ctr : Nat} {name : String} {ps : TyList} {ret : Ty} {As : TyList}
    (hps : wfList ps = true) (hret : ret.wf = true) (hokp : okVarsList ps = true)
    (hokr : okVars ret = true) (hnp : noFnList ps = true) (hkc : keysClosed ret = true)
    (hsz : tySizeList ps + 4 ≤ defaultFuel) (hA : TyOKList As = true) :
    inferFun ctr name ps ret As = specInfer ps ret As := by
  obtain ⟨hAs, hAw, hAn⟩ := TyOKList_iff.1 hA
  obtain ⟨hp1, hp2⟩ := phase1_ok 99997 name (ctr+1) (ctr+As.length+1) ps As.length ret hokp hokr hps hret
  unfold specInfer instantiate inferFun
  by_cases hlen : As.length = ps.length
  · obtain ⟨x1, m1, h1⟩ := hp1 hlen
    obtain ⟨_, hm1, hb1, ht1⟩ := phase1 99997 name (ctr+1) (ctr+As.length+1) ps As.length ret x1 m1
      hokp hokr h1
    have h1' : unify defaultFuel
        (.fn name (.cons (.tuple (freshVars "s" (ctr+1) As.length)) .nil)
          (.var (freshName "t" (ctr+As.length+1))))
        (.fn name (.cons (.tuple ps) .nil) ret) [] = .ok (x1, m1) := h1
    have h2 : applySubst defaultFuel m1 (.tuple (freshVars "s" (ctr+1) As.length)) = .ok (.tuple ps) := by
      have := phase2_ok 99999 m1 hm1 ps (ctr+1) hokp hps hb1
      rw [hlen]
      simp only [applySubst]
      show (applySubstList (99999+1) m1 _ >>= _) = _
      rw [this]; rfl
    have hlen' : (ps.length != As.length) = false := by simp [hlen]
    have h3 := usim defaultFuel (.tuple ps) (.tuple As) m1 [] (by simpa [slotFree] using hAs)
      (by simpa [Ty.wf] using hAw) (by simpa [noFn] using hAn) (by simpa [okVars] using hokp)
      (by simpa [Ty.wf] using hps) (by simpa [noFn] using hnp) (inv_nil hm1)
      (by simp only [tySize]; omega)
    simp only [pmatch, hlen', Bool.false_eq_true, if_false] at h3
    simp only [h1', UM.ok_bind, h2, hlen', Bool.false_eq_true, if_false]
    cases hr : pmatchList ps As [] with
    | none =>
      rw [hr] at h3
      have hfail : unify defaultFuel (.tuple ps) (.tuple As) m1 = .error .fail := h3
      rw [hfail]
      rfl
    | some x =>
      obtain ⟨ps', σ'⟩ := x
      rw [hr] at h3
      obtain ⟨m2, hu2, hi2, hj2⟩ := h3
      simp only [hu2, UM.ok_bind]
      have ht2 : m2.get? (freshName "t" (ctr + As.length + 1)) = some ret := by
        rw [hj2 _ (okVarName_t _)]; exact ht1
      have h4 : applySubst defaultFuel m2 (.var (freshName "t" (ctr + As.length + 1))) =
          .ok (substG σ' ret) := by
        have e : applySubst (99999+1) m2 (.var (freshName "t" (ctr + As.length + 1))) =
            applySubst 99999 m2 ret := applySubst_chase_ok ht2 (okVarName_t _) hokr
        have e2 : applySubst (99998+1) m2 ret = .ok (substG m2 ret) :=
          applySubst_okG_ok hi2.okG 99998 ret hokr hret hkc
        rw [substG_agree hi2.agree ret hokr]
        exact e.trans e2
      simp only [h4, UM.ok_bind]
      by_cases hsf : slotFree (substG σ' ret) = true
      · simp only [hsf, Bool.not_true, Bool.false_eq_true, if_false, if_true]; rfl
      · simp only [hsf, Bool.not_false, if_true, Bool.false_eq_true, if_false]; rfl
  · have h1 := hp2 hlen
    have h1' : unify defaultFuel
        (.fn name (.cons (.tuple (freshVars "s" (ctr+1) As.length)) .nil)
          (.var (freshName "t" (ctr+As.length+1))))
        (.fn name (.cons (.tuple ps) .nil) ret) [] = .error .fail := h1
    have hlen' : (ps.length != As.length) = true := by
      simp only [bne_iff_ne, ne_eq]; exact fun e => hlen e.symm
    simp only [h1', hlen', if_true]
    rfl

/-- an instantiated result type is a type expressions can have -/
theorem instantiate_tyOK {ps : TyList} {ret : Ty} {As ps' : TyList} {T : Ty}
    (hps : wfList ps = true) (hret : ret.wf = true) (hokp : okVarsList ps = true)
    (hokr : okVars ret = true) (hnp : noFnList ps = true) (hnr : noFn ret = true)
    (hkc : keysClosed ret = true) (hA : TyOKList As = true)
    (h : instantiate ps ret As = some (ps', T)) : TyOK T = true := by
  obtain ⟨hAs, hAw, hAn⟩ := TyOKList_iff.1 hA
  unfold instantiate at h
  split at h
  · cases h
  · have h3 := usim_list (usim (tySizeList ps)) ps As [] [] hAs hAw hAn hokp hps hnp
      (inv_nil (fun _ _ => rfl)) (Nat.le_refl _)
    cases hr : pmatchList ps As [] with
    | none => rw [hr] at h; cases h
    | some x =>
      obtain ⟨ps'', σ'⟩ := x
      rw [hr] at h h3
      obtain ⟨m2, _, hi2, _⟩ := h3
      simp only [] at h
      split at h
      · next hsf =>
        cases h
        rw [TyOK_iff]
        refine ⟨hsf, ?_, ?_⟩
        · rw [substG_agree hi2.agree ret hokr]
          exact applySubst_wf m2 hi2.okG 1 ret _ hokr hret (applySubst_okG_ok hi2.okG 0 ret hokr hret hkc)
        · rw [substG_agree hi2.agree ret hokr]
          exact noFn_substG hi2.okN ret hokr hnr
      · cases h

/-- **`PolyOK` from the syntactic condition.** -/
theorem sigOK_polyOK {name : String} {ps : TyList} {ret : Ty}
    (h : sigOK (.fn name ps ret) = true) : PolyOK name ps ret := by
  simp only [sigOK, Bool.and_eq_true, decide_eq_true_eq] at h
  obtain ⟨⟨⟨⟨⟨⟨⟨hps, hret⟩, hokp⟩, hokr⟩, hnp⟩, hnr⟩, hkc⟩, hsz⟩ := h
  intro As hA
  exact ⟨fun ctr => Or.inr (inferFun_eq_spec hps hret hokp hokr hnp hkc hsz hA),
    fun ps' T hi => instantiate_tyOK hps hret hokp hokr hnp hnr hkc hA hi⟩

/-- for `sigOK` signatures the unifier's fuel never runs out -/
theorem sigOK_inferFun {name : String} {ps : TyList} {ret : Ty}
    (h : sigOK (.fn name ps ret) = true) {As : TyList} (hA : TyOKList As = true) (ctr : Nat) :
    inferFun ctr name ps ret As = specInfer ps ret As := by
  simp only [sigOK, Bool.and_eq_true, decide_eq_true_eq] at h
  obtain ⟨⟨⟨⟨⟨⟨⟨hps, hret⟩, hokp⟩, hokr⟩, hnp⟩, _⟩, hkc⟩, hsz⟩ := h
  exact inferFun_eq_spec hps hret hokp hokr hnp hkc hsz hA

/-- every built-in signature satisfies the condition -/
theorem builtins_sigOK : builtins.all (fun b => sigOK b.ty) = true := by decide

/-- what is asked of a registered declaration: a function type; if monomorphic, a result type
expressions can have; if polymorphic, `sigOK` -/
def declOK (t : Ty) : Bool :=
  match t with
  | .fn _ _ ret => if slotFree t then TyOK ret else sigOK t
  | _ => false

theorem sigOK_declOK {t : Ty} (h : sigOK t = true) : declOK t = true := by
  cases t <;> simp [sigOK] at h
  rename_i name ps ret
  simp only [declOK]
  split
  · next hs =>
    simp only [slotFree, Bool.and_eq_true] at hs
    rw [TyOK_iff]; exact ⟨hs.2, h.1.1.1.1.1.1.2, h.1.1.2⟩
  · simp [sigOK, h]

/-- an environment whose variable types are `TyOK` and whose registered signatures satisfy
`declOK` is `EnvOK` -/
theorem envOK_of_declOK {Γ : TEnv} (hv : ∀ x T, Γ.lookupVar x = some T → TyOK T = true)
    (hf : ∀ d ∈ Γ.funs, declOK d.ty = true) : EnvOK Γ where
  vars := hv
  funs := by
    intro d hd
    have h := hf d hd
    cases hty : d.ty <;> rw [hty] at h <;> simp [declOK] at h
    rename_i name ps ret
    refine ⟨name, ps, ret, rfl, fun hs => ?_, fun hs => ?_⟩
    · rw [hs] at h; simpa using h
    · rw [hs] at h; exact sigOK_polyOK (by simpa using h)

theorem envOK_of_sigOK {Γ : TEnv} (hv : ∀ x T, Γ.lookupVar x = some T → TyOK T = true)
    (hf : ∀ d ∈ Γ.funs, sigOK d.ty = true) : EnvOK Γ :=
  envOK_of_declOK hv fun d hd => sigOK_declOK (hf d hd)

/-! ### the checker never runs out of fuel -/

theorem CR.bind_ne_fuel {α β : Type} {a : CR α} {f : α → CR β} (ha : a ≠ .error .fuel)
    (hf : ∀ x, a = .ok x → f x ≠ .error .fuel) : (a >>= f) ≠ .error .fuel := by
  cases a with
  | error e =>
    intro h
    rw [CR.error_bind] at h
    cases h
    exact ha rfl
  | ok x => exact hf x rfl

theorem CR.pure_ne_fuel {α : Type} (x : α) : (pure x : CR α) ≠ .error .fuel := by
  intro h; cases h

theorem typeAssert_ne_fuel (a b : Ty) : typeAssert a b ≠ .error .fuel := by
  unfold typeAssert; split <;> (intro h; cases h)

theorem assertParams_ne_fuel : ∀ (ps as : TyList), assertParams ps as ≠ .error .fuel
  | .nil, _ => by simp only [assertParams]; exact CR.pure_ne_fuel _
  | .cons _ _, .nil => by simp only [assertParams]; exact CR.pure_ne_fuel _
  | .cons p ps, .cons a as => by
    simp only [assertParams]
    exact CR.bind_ne_fuel (typeAssert_ne_fuel _ _) fun _ _ => assertParams_ne_fuel ps as

theorem mkObj_ne_fuel (fs : FieldList) : mkObj fs ≠ .error .fuel := by
  unfold mkObj; split <;> (intro h; cases h)

/-- the candidates of a polymorphic lookup satisfy the syntactic condition -/
def CandsSig (cands : List FunDecl) : Prop :=
  ∀ d ∈ cands, ∀ name ps ret, d.ty = .fn name ps ret → sigOK d.ty = true

theorem tryPoly_ne_fuel (As : TyList) (hAs : TyOKList As = true) :
    ∀ (cands : List FunDecl), CandsSig cands → ∀ ctr i, tryPoly ctr As cands i ≠ .error .fuel
  | [], _, ctr, i => by simp only [tryPoly]; exact CR.pure_ne_fuel _
  | d :: rest, hc, ctr, i => by
    have hrest : CandsSig rest := fun d' hd' => hc d' (List.mem_cons_of_mem _ hd')
    simp only [tryPoly]
    split
    · next name ps ret hd =>
      have hs := hc d (List.mem_cons_self ..) name ps ret hd
      rw [hd] at hs
      rw [sigOK_inferFun hs hAs ctr]
      unfold specInfer
      cases hi : instantiate ps ret As with
      | some r =>
        obtain ⟨ps', T⟩ := r
        simp only [liftU_ok, CR.ok_bind]
        exact CR.pure_ne_fuel _
      | none =>
        simp only [liftU_fail, CR.ok_bind]
        exact tryPoly_ne_fuel As hAs rest hrest _ _
    · intro h; cases h

/-- Environments given by syntactic conditions only: variable types are types expressions can
have; every registered declaration satisfies `declOK`. -/
structure SigEnv (Γ : TEnv) : Prop where
  vars : ∀ x T, Γ.lookupVar x = some T → TyOK T = true
  funs : ∀ d ∈ Γ.funs, declOK d.ty = true

theorem SigEnv.envOK {Γ : TEnv} (h : SigEnv Γ) : EnvOK Γ := envOK_of_declOK h.vars h.funs

theorem candsSig_of_env {Γ : TEnv} (hΓ : SigEnv Γ) (k : String) :
    CandsSig (lookupPoly Γ.funs k) := by
  intro d hd name ps ret hty
  obtain ⟨hm, hk⟩ := lookupPoly_mem hd
  have h := hΓ.funs d hm
  have hs := key_poly hty hk
  rw [hty] at h hs ⊢
  simpa [declOK, hs] using h

theorem resolve_ne_fuel {Γ : TEnv} (hΓ : SigEnv Γ) (f : String) (As : TyList)
    (hAs : TyOKList As = true) (c : Nat) : resolveOverloadedFun Γ c f As ≠ .error .fuel := by
  unfold resolveOverloadedFun
  simp only []
  split
  · split
    · exact CR.pure_ne_fuel _
    · intro h; cases h
  · have hc := candsSig_of_env hΓ ("∀.λ " ++ f ++ " " ++ toString As.length)
    generalize lookupPoly Γ.funs ("∀.λ " ++ f ++ " " ++ toString As.length) = cands at hc ⊢
    by_cases he : cands.isEmpty = true
    · simp only [he, if_true]
      intro h; cases h
    · simp only [he]
      refine CR.bind_ne_fuel (tryPoly_ne_fuel As hAs cands hc _ _) fun x _ => ?_
      obtain ⟨r, c'⟩ := x
      simp only []
      split
      · exact CR.pure_ne_fuel _
      · intro h; cases h

theorem CR.throw_ne_fuel {α : Type} {e : CheckErr} (h : e ≠ .fuel) : (throw e : CR α) ≠ .error .fuel := by
  intro h'; cases h'; exact h rfl

mutual
theorem check_ne_fuel {Γ : TEnv} (hΓ : SigEnv Γ) : ∀ (e : Expr) (c : Nat),
    check Γ c e ≠ .error .fuel
  | .str _ _, c | .num _ _, c | .time _ _, c | .bool _ _, c => by
    simp only [check]; exact CR.pure_ne_fuel _
  | .list p .nil ty, c => by simp only [check]; exact CR.pure_ne_fuel _
  | .list p (.cons e es) ty, c => by
    simp only [check]
    refine CR.bind_ne_fuel (check_ne_fuel hΓ e c) fun x _ => ?_
    obtain ⟨T, e', c1⟩ := x
    refine CR.bind_ne_fuel (checkElems_ne_fuel hΓ es c1 T) fun y _ => ?_
    exact CR.pure_ne_fuel _
  | .map p .nil ty, c => by simp only [check]; exact CR.pure_ne_fuel _
  | .map p (.cons k v ps) ty, c => by
    simp only [check]
    refine CR.bind_ne_fuel (check_ne_fuel hΓ k c) fun x _ => ?_
    obtain ⟨K, k', c1⟩ := x
    simp only []
    split
    · exact CR.bind_ne_fuel (CR.throw_ne_fuel (by decide)) fun _ h => by cases h
    · refine CR.bind_ne_fuel (check_ne_fuel hΓ v c1) fun y _ => ?_
      obtain ⟨V, v', c2⟩ := y
      refine CR.bind_ne_fuel (checkPairs_ne_fuel hΓ ps c2 K V) fun z _ => ?_
      exact CR.pure_ne_fuel _
  | .obj p fs ty, c => by
    simp only [check]
    refine CR.bind_ne_fuel (checkFields_ne_fuel hΓ fs c) fun x _ => ?_
    obtain ⟨tys, fs', c1⟩ := x
    refine CR.bind_ne_fuel (mkObj_ne_fuel _) fun y _ => ?_
    exact CR.pure_ne_fuel _
  | .ident p x, c => by
    simp only [check]
    split
    · exact CR.bind_ne_fuel (CR.throw_ne_fuel (by decide)) fun _ h => by cases h
    · split
      · exact CR.pure_ne_fuel _
      · exact CR.throw_ne_fuel (by decide)
  | .call p col callee args cty res idx, c => by
    simp only [check]
    refine CR.bind_ne_fuel (checkArgs_ne_fuel hΓ args c) fun x hx => ?_
    obtain ⟨argTys, args', c1⟩ := x
    have hAs : TyOKList argTys = true :=
      typedArgs_tyOK hΓ.envOK args argTys (checkArgs_sound hΓ.envOK args c argTys args' c1 hx)
    simp only []
    split
    · refine CR.bind_ne_fuel (resolve_ne_fuel hΓ _ argTys hAs c1) fun y _ => ?_
      obtain ⟨r, c2⟩ := y
      simp only []
      split
      · exact CR.bind_ne_fuel (CR.throw_ne_fuel (by decide)) fun _ h => by cases h
      · refine CR.bind_ne_fuel (assertParams_ne_fuel _ _) fun _ _ => ?_
        exact CR.pure_ne_fuel _
    · refine CR.bind_ne_fuel (check_ne_fuel hΓ callee c1) fun y hy => ?_
      obtain ⟨fTy, callee', c2⟩ := y
      have hT : TyOK fTy = true :=
        typed_tyOK hΓ.envOK callee fTy (check_sound hΓ.envOK callee c1 fTy callee' c2 hy)
      simp only []
      split
      · exfalso
        simp [TyOK, noFn] at hT
      · exact CR.throw_ne_fuel (by decide)
  | .subscript p col v i vty, c => by
    simp only [check]
    refine CR.bind_ne_fuel (check_ne_fuel hΓ v c) fun x _ => ?_
    obtain ⟨T, v', c1⟩ := x
    simp only []
    split
    · refine CR.bind_ne_fuel (check_ne_fuel hΓ i c1) fun y _ => ?_
      obtain ⟨I, i', c2⟩ := y
      refine CR.bind_ne_fuel (typeAssert_ne_fuel _ _) fun _ _ => ?_
      exact CR.pure_ne_fuel _
    · refine CR.bind_ne_fuel (check_ne_fuel hΓ i c1) fun y _ => ?_
      obtain ⟨I, i', c2⟩ := y
      refine CR.bind_ne_fuel (typeAssert_ne_fuel _ _) fun _ _ => ?_
      exact CR.pure_ne_fuel _
    · exact CR.throw_ne_fuel (by decide)
  | .member p col o f fp oty idx, c => by
    simp only [check]
    refine CR.bind_ne_fuel (check_ne_fuel hΓ o c) fun x _ => ?_
    obtain ⟨T, o', c1⟩ := x
    simp only []
    split
    · split
      · exact CR.pure_ne_fuel _
      · exact CR.throw_ne_fuel (by decide)
    · exact CR.throw_ne_fuel (by decide)
  | .unary .., c | .binary .., c | .ternary .., c | .group .., c => by
    simp only [check]; exact CR.throw_ne_fuel (by decide)
theorem checkElems_ne_fuel {Γ : TEnv} (hΓ : SigEnv Γ) : ∀ (es : ExprList) (c : Nat) (T : Ty),
    checkElems Γ c T es ≠ .error .fuel
  | .nil, c, T => by simp only [checkElems]; exact CR.pure_ne_fuel _
  | .cons e es, c, T => by
    simp only [checkElems]
    refine CR.bind_ne_fuel (check_ne_fuel hΓ e c) fun x _ => ?_
    obtain ⟨U, e', c1⟩ := x
    refine CR.bind_ne_fuel (typeAssert_ne_fuel _ _) fun _ _ => ?_
    refine CR.bind_ne_fuel (checkElems_ne_fuel hΓ es c1 T) fun y _ => ?_
    exact CR.pure_ne_fuel _
theorem checkPairs_ne_fuel {Γ : TEnv} (hΓ : SigEnv Γ) : ∀ (ps : PairList) (c : Nat) (K V : Ty),
    checkPairs Γ c K V ps ≠ .error .fuel
  | .nil, c, K, V => by simp only [checkPairs]; exact CR.pure_ne_fuel _
  | .cons k v ps, c, K, V => by
    simp only [checkPairs]
    refine CR.bind_ne_fuel (check_ne_fuel hΓ k c) fun x _ => ?_
    obtain ⟨K', k', c1⟩ := x
    refine CR.bind_ne_fuel (typeAssert_ne_fuel _ _) fun _ _ => ?_
    refine CR.bind_ne_fuel (check_ne_fuel hΓ v c1) fun y _ => ?_
    obtain ⟨V', v', c2⟩ := y
    refine CR.bind_ne_fuel (typeAssert_ne_fuel _ _) fun _ _ => ?_
    refine CR.bind_ne_fuel (checkPairs_ne_fuel hΓ ps c2 K V) fun z _ => ?_
    exact CR.pure_ne_fuel _
theorem checkFields_ne_fuel {Γ : TEnv} (hΓ : SigEnv Γ) : ∀ (fs : FieldEList) (c : Nat),
    checkFields Γ c fs ≠ .error .fuel
  | .nil, c => by simp only [checkFields]; exact CR.pure_ne_fuel _
  | .cons n e fs, c => by
    simp only [checkFields]
    refine CR.bind_ne_fuel (check_ne_fuel hΓ e c) fun x _ => ?_
    obtain ⟨T, e', c1⟩ := x
    refine CR.bind_ne_fuel (checkFields_ne_fuel hΓ fs c1) fun y _ => ?_
    exact CR.pure_ne_fuel _
theorem checkArgs_ne_fuel {Γ : TEnv} (hΓ : SigEnv Γ) : ∀ (es : ExprList) (c : Nat),
    checkArgs Γ c es ≠ .error .fuel
  | .nil, c => by simp only [checkArgs]; exact CR.pure_ne_fuel _
  | .cons e es, c => by
    simp only [checkArgs]
    refine CR.bind_ne_fuel (check_ne_fuel hΓ e c) fun x _ => ?_
    obtain ⟨T, e', c1⟩ := x
    refine CR.bind_ne_fuel (checkArgs_ne_fuel hΓ es c1) fun y _ => ?_
    exact CR.pure_ne_fuel _
end


/-! ### the built-in environment -/

theorem builtinFuns_sigOK : builtinFuns.all (fun d => sigOK d.ty) = true := by decide

/-- the environment of the built-ins with variables of types expressions can have -/
theorem builtinEnv_sigEnv {vars : List (String × Ty)} (hv : ∀ p ∈ vars, TyOK p.2 = true) :
    SigEnv (builtinEnv vars) where
  vars := by
    intro x T h
    simp only [TEnv.lookupVar, builtinEnv, Option.map_eq_some_iff] at h
    obtain ⟨p, hp, rfl⟩ := h
    exact hv p (List.mem_of_find?_eq_some hp)
  funs := fun d hd => sigOK_declOK (List.all_eq_true.mp builtinFuns_sigOK d hd)

end Yae.PolyOK
