/-
  Value-level lemmas for C18 / C13 / C04: list views of the mutual inductives `Val` / `ValList` /
  `EntryList`, an induction principle "by membership", deep well-formedness `Val.WF`, and
  list-level characterisations of `valEq`'s helper functions.
-/
import Yae.Model.Val
import Yae.Proofs.TyEq
import Yae.Proofs.ValRelSort
namespace Yae

/-! ### list views -/

namespace ValList
theorem length_toList : ∀ vs : ValList, vs.toList.length = vs.length
  | .nil => rfl
  | .cons _ vs => by simp [toList, length, length_toList vs]
theorem get?_eq : ∀ (vs : ValList) (i : Nat), vs.get? i = vs.toList[i]?
  | .nil, _ => by simp [get?, toList]
  | .cons _ _, 0 => by simp [get?, toList]
  | .cons _ vs, i+1 => by simp [get?, toList, get?_eq vs i]
theorem toList_ofList : ∀ l : List Val, (ofList l).toList = l
  | [] => rfl
  | x :: l => by simp [ofList, toList, toList_ofList l]
end ValList

namespace EntryList
theorem length_toList : ∀ es : EntryList, es.toList.length = es.length
  | .nil => rfl
  | .cons _ _ _ es => by simp [toList, length, length_toList es]

/-- the keys (tag, text) in insertion order -/
def keys (es : EntryList) : List (Kind × String) := es.toList.map fun e => (e.1, e.2.1)
/-- the key texts in insertion order -/
def keyTexts (es : EntryList) : List String := es.toList.map fun e => e.2.1

theorem length_keys (es : EntryList) : es.keys.length = es.length := by
  simp [keys, length_toList]

theorem find?_some_mem : ∀ (es : EntryList) (t : Kind) (k : String) (v : Val),
    es.find? t k = some v → (t, k, v) ∈ es.toList
  | .nil, _, _, _, h => by simp [find?] at h
  | .cons t' k' v' es, t, k, v, h => by
    simp only [find?] at h
    split at h
    · next hc => cases h; simp [toList, hc.1, hc.2]
    · exact List.mem_cons_of_mem _ (find?_some_mem es t k v h)

theorem find?_none_iff : ∀ (es : EntryList) (t : Kind) (k : String),
    es.find? t k = none ↔ (t, k) ∉ es.keys
  | .nil, _, _ => by simp [find?, keys, toList]
  | .cons t' k' v' es, t, k => by
    have ih := find?_none_iff es t k
    simp only [keys] at ih
    simp only [find?, keys, toList, List.map_cons, List.mem_cons, not_or]
    split
    · next hc => simp [hc.1, hc.2]
    · next hc =>
      rw [ih]
      constructor
      · intro h; refine ⟨?_, h⟩
        intro he; apply hc; cases he; exact ⟨rfl, rfl⟩
      · exact fun h => h.2

theorem mem_find?_of_nodup : ∀ (es : EntryList) (t : Kind) (k : String) (v : Val),
    es.keys.Nodup → (t, k, v) ∈ es.toList → es.find? t k = some v
  | .nil, _, _, _, _, h => by simp [toList] at h
  | .cons t' k' v' es, t, k, v, hnd, h => by
    simp only [keys, toList, List.map_cons, List.nodup_cons] at hnd
    simp only [toList, List.mem_cons] at h
    simp only [find?]
    rcases h with h | h
    · cases h; simp
    · split
      · next hc =>
        exfalso; apply hnd.1
        rw [hc.1, hc.2]
        exact List.mem_map.2 ⟨(t, k, v), h, rfl⟩
      · exact mem_find?_of_nodup es t k v hnd.2 h

theorem mem_keys_iff (es : EntryList) (t : Kind) (k : String) :
    (t, k) ∈ es.keys ↔ ∃ v, (t, k, v) ∈ es.toList := by
  simp only [keys, List.mem_map]
  constructor
  · rintro ⟨⟨t', k', v⟩, h, he⟩; cases he; exact ⟨v, h⟩
  · rintro ⟨v, h⟩; exact ⟨_, h, rfl⟩

/-- with unique keys, lookup does not depend on the order of the entries -/
theorem find?_perm {es₁ es₂ : EntryList} (hp : es₁.toList.Perm es₂.toList) (hnd : es₁.keys.Nodup)
    (t : Kind) (k : String) : es₁.find? t k = es₂.find? t k := by
  have hnd₂ : es₂.keys.Nodup := (hp.map _).nodup_iff.1 hnd
  cases h : es₁.find? t k with
  | none =>
    symm
    rw [find?_none_iff] at h ⊢
    intro hm; exact h ((hp.map _).mem_iff.2 hm)
  | some v =>
    exact (mem_find?_of_nodup es₂ t k v hnd₂ (hp.mem_iff.1 (find?_some_mem es₁ t k v h))).symm

/-- keys with one common tag: distinct keys have distinct texts -/
theorem keyTexts_nodup_of_tag {es : EntryList} {t : Kind} (ht : ∀ e ∈ es.toList, e.1 = t)
    (hnd : es.keys.Nodup) : es.keyTexts.Nodup := by
  have : es.keys = es.keyTexts.map fun k => (t, k) := by
    simp only [keys, keyTexts, List.map_map]
    apply List.map_congr_left
    intro e he; simp [ht e he]
  rw [this] at hnd
  rw [List.Nodup, List.pairwise_map] at hnd
  exact hnd.imp (fun h e => h (by rw [e]))
end EntryList

theorem renderVals_eq : ∀ vs : ValList, renderVals vs = vs.toList.map Val.render
  | .nil => by simp [renderVals, ValList.toList]
  | .cons _ vs => by simp [renderVals, ValList.toList, renderVals_eq vs]
theorem stringifyVals_eq : ∀ vs : ValList, stringifyVals vs = vs.toList.map Val.stringify
  | .nil => by simp [stringifyVals, ValList.toList]
  | .cons _ vs => by simp [stringifyVals, ValList.toList, stringifyVals_eq vs]
theorem renderEntries_eq : ∀ es : EntryList,
    renderEntries es = es.toList.map fun e => (e.2.1, e.2.2.render)
  | .nil => by simp [renderEntries, EntryList.toList]
  | .cons _ _ _ es => by simp [renderEntries, EntryList.toList, renderEntries_eq es]
theorem stringifyEntries_eq : ∀ es : EntryList,
    stringifyEntries es = es.toList.map fun e => (e.2.1, e.2.2.stringify)
  | .nil => by simp [stringifyEntries, EntryList.toList]
  | .cons _ _ _ es => by simp [stringifyEntries, EntryList.toList, stringifyEntries_eq es]

/-- what `render` / `stringify` do with the (key text, value text) pairs of a map -/
def mapText (xs : List (String × String)) : String :=
  match xs with
  | [] => "[:]"
  | xs => joinStr ((sortBy (ltKey Prod.fst) xs).map fun (k, v) => k ++ ": " ++ v) ", " "[" "]"

/-- what `render` does with the (field name, value text) pairs of an object -/
def objText (xs : List (String × String)) : String :=
  joinStr ((sortBy (ltKey Prod.fst) xs).map fun (k, v) => k ++ ": " ++ v) ", " "{" "}"

theorem render_map (ty : Ty) (es : EntryList) :
    Val.render (.map ty es) = mapText (renderEntries es) := by
  cases es <;> simp [Val.render, mapText, renderEntries]
theorem stringify_map (ty : Ty) (es : EntryList) :
    Val.stringify (.map ty es) = mapText (stringifyEntries es) := by
  cases es <;> simp [Val.stringify, mapText, stringifyEntries]
theorem render_obj (fs : FieldList) (vs : ValList) :
    Val.render (.obj (.obj fs) vs) = objText (List.zip fs.names (renderVals vs)) := by
  simp [Val.render, objText]

theorem mapText_perm {l₁ l₂ : List (String × String)} (hp : l₁.Perm l₂)
    (hnd : (l₁.map Prod.fst).Nodup) : mapText l₁ = mapText l₂ := by
  cases l₁ with
  | nil => rw [List.nil_perm.1 hp]
  | cons a l₁ =>
    cases l₂ with
    | nil => simp at hp
    | cons b l₂ => simp only [mapText]; rw [sortBy_eq_of_perm Prod.fst hp hnd]

theorem objText_perm {l₁ l₂ : List (String × String)} (hp : l₁.Perm l₂)
    (hnd : (l₁.map Prod.fst).Nodup) : objText l₁ = objText l₂ := by
  simp only [objText]; rw [sortBy_eq_of_perm Prod.fst hp hnd]

/-! ### induction by membership -/

section Induct
set_option linter.unusedSectionVars false
variable {P : Val → Prop}
  (num : ∀ x, P (.num x)) (str : ∀ s, P (.str s)) (bool : ∀ b, P (.bool b))
  (time : ∀ t, P (.time t))
  (list : ∀ ty vs, (∀ v ∈ vs.toList, P v) → P (.list ty vs))
  (map : ∀ ty es, (∀ e ∈ es.toList, P e.2.2) → P (.map ty es))
  (obj : ∀ ty vs, (∀ v ∈ vs.toList, P v) → P (.obj ty vs))
  (fn : ∀ ty r l, P (.fn ty r l))
  (just : ∀ el v, P v → P (.just el v))
  (nothing : ∀ el, P (.nothing el))
  (nil : P .nil)
include num str bool time list map obj fn just nothing nil

mutual
/-- Induction over values where the hypotheses for composites speak about the members of the
component list. -/
theorem Val.induct_mem : ∀ v, P v
  | .num x => num x
  | .str s => str s
  | .bool b => bool b
  | .time t => time t
  | .list ty vs => list ty vs (ValList.induct_mem vs)
  | .map ty es => map ty es (EntryList.induct_mem es)
  | .obj ty vs => obj ty vs (ValList.induct_mem vs)
  | .fn ty r l => fn ty r l
  | .just el v => just el v (Val.induct_mem v)
  | .nothing el => nothing el
  | .nil => nil
theorem ValList.induct_mem : ∀ vs : ValList, ∀ v ∈ vs.toList, P v
  | .nil => by intro v hv; simp [ValList.toList] at hv
  | .cons w vs => by
    intro v hv
    simp only [ValList.toList, List.mem_cons] at hv
    rcases hv with hv | hv
    · rw [hv]; exact Val.induct_mem w
    · exact ValList.induct_mem vs v hv
theorem EntryList.induct_mem : ∀ es : EntryList, ∀ e ∈ es.toList, P e.2.2
  | .nil => by intro e he; simp [EntryList.toList] at he
  | .cons t k w es => by
    intro e he
    simp only [EntryList.toList, List.mem_cons] at he
    rcases he with he | he
    · rw [he]; exact Val.induct_mem w
    · exact EntryList.induct_mem es e he
end
end Induct

/-! ### objects as association lists -/

/-- (field name, value) pairs of an object value, in declaration order -/
def objPairs (fs : FieldList) (vs : ValList) : List (String × Val) := List.zip fs.names vs.toList

theorem objGet?_nil_fields (ys : ValList) (n : String) : objGet? (.obj .nil) ys n = none := by
  simp [objGet?, FieldList.indexOf?]
theorem objGet?_nil_vals (fs : FieldList) (n : String) : objGet? (.obj fs) .nil n = none := by
  simp only [objGet?]
  cases fs.indexOf? n <;> simp [ValList.get?]
theorem objGet?_cons (m : String) (t : Ty) (gs : FieldList) (y : Val) (ys : ValList) (n : String) :
    objGet? (.obj (.cons m t gs)) (.cons y ys) n =
      if m = n then some y else objGet? (.obj gs) ys n := by
  simp only [objGet?, FieldList.indexOf?]
  split
  · simp [ValList.get?]
  · cases gs.indexOf? n <;> simp [ValList.get?]

theorem objGet?_some_mem : ∀ (gs : FieldList) (ys : ValList) (n : String) (w : Val),
    objGet? (.obj gs) ys n = some w → (n, w) ∈ objPairs gs ys
  | .nil, ys, n, w, h => by simp [objGet?_nil_fields] at h
  | .cons _ _ _, .nil, n, w, h => by simp [objGet?_nil_vals] at h
  | .cons m t gs, .cons y ys, n, w, h => by
    rw [objGet?_cons] at h
    simp only [objPairs, FieldList.names, ValList.toList, List.zip_cons_cons, List.mem_cons]
    split at h
    · next hc => cases h; left; rw [hc]
    · right; exact objGet?_some_mem gs ys n w h

theorem mem_objGet?_of_nodup : ∀ (gs : FieldList) (ys : ValList) (n : String) (w : Val),
    gs.names.Nodup → (n, w) ∈ objPairs gs ys → objGet? (.obj gs) ys n = some w
  | .nil, ys, n, w, _, h => by simp [objPairs, FieldList.names] at h
  | .cons _ _ _, .nil, n, w, _, h => by simp [objPairs, ValList.toList] at h
  | .cons m t gs, .cons y ys, n, w, hnd, h => by
    rw [objGet?_cons]
    simp only [FieldList.names, List.nodup_cons] at hnd
    simp only [objPairs, FieldList.names, ValList.toList, List.zip_cons_cons, List.mem_cons] at h
    rcases h with h | h
    · cases h; simp
    · split
      · next hc =>
        exfalso; apply hnd.1; rw [hc]; exact (List.of_mem_zip h).1
      · exact mem_objGet?_of_nodup gs ys n w hnd.2 h

theorem map_fst_zip_sublist {α β : Type} : ∀ (l₁ : List α) (l₂ : List β),
    ((l₁.zip l₂).map Prod.fst).Sublist l₁
  | [], _ => by simp
  | _ :: _, [] => by simp
  | a :: l₁, b :: l₂ => by
    simp only [List.zip_cons_cons, List.map_cons]
    exact (map_fst_zip_sublist l₁ l₂).cons_cons a

theorem objPairs_fst_sublist (fs : FieldList) (vs : ValList) :
    ((objPairs fs vs).map Prod.fst).Sublist fs.names := map_fst_zip_sublist _ _

theorem objPairs_nodup {fs : FieldList} (vs : ValList) (h : fs.names.Nodup) :
    ((objPairs fs vs).map Prod.fst).Nodup := (objPairs_fst_sublist fs vs).nodup h

theorem objPairs_fst (fs : FieldList) (vs : ValList) (h : fs.length = vs.length) :
    (objPairs fs vs).map Prod.fst = fs.names := by
  simp only [objPairs]
  apply List.map_fst_zip
  rw [FieldList.length_names, ValList.length_toList, h]; exact Nat.le_refl _

theorem exists_mem_objPairs (fs : FieldList) (vs : ValList) (h : fs.length = vs.length)
    (n : String) (hn : n ∈ fs.names) : ∃ v, (n, v) ∈ objPairs fs vs := by
  rw [← objPairs_fst fs vs h] at hn
  rcases List.mem_map.1 hn with ⟨⟨n', v⟩, hm, rfl⟩
  exact ⟨v, hm⟩

theorem objPairs_render (fs : FieldList) (vs : ValList) :
    List.zip fs.names (renderVals vs) = (objPairs fs vs).map fun p => (p.1, p.2.render) := by
  rw [renderVals_eq, objPairs, List.zip_map_right]
  apply List.map_congr_left
  intro p _; rfl

/-! ### list-level characterisations of the helpers of `valEq` -/

theorem valEqList_iff : ∀ xs ys : ValList, valEqList xs ys = true ↔
    xs.toList.length = ys.toList.length ∧
    ∀ (i : Nat) v w, xs.toList[i]? = some v → ys.toList[i]? = some w → valEq v w = true
  | .nil, .nil => by simp [valEqList, ValList.toList]
  | .nil, .cons _ _ => by simp [valEqList, ValList.toList]
  | .cons _ _, .nil => by simp [valEqList, ValList.toList]
  | .cons x xs, .cons y ys => by
    simp only [valEqList, Bool.and_eq_true, valEqList_iff xs ys, ValList.toList, List.length_cons]
    constructor
    · rintro ⟨h0, hl, h⟩
      refine ⟨by omega, ?_⟩
      intro i v w hv hw
      cases i with
      | zero => simp at hv hw; rw [← hv, ← hw]; exact h0
      | succ i => simp at hv hw; exact h i v w hv hw
    · rintro ⟨hl, h⟩
      refine ⟨h 0 x y (by simp) (by simp), by omega, ?_⟩
      intro i v w hv hw
      exact h (i+1) v w (by simpa using hv) (by simpa using hw)

theorem valEqEntries_iff : ∀ xs ys : EntryList, valEqEntries xs ys = true ↔
    ∀ e ∈ xs.toList, ∃ w, ys.find? e.1 e.2.1 = some w ∧ valEq e.2.2 w = true
  | .nil, ys => by simp [valEqEntries, EntryList.toList]
  | .cons t k v es, ys => by
    simp only [valEqEntries, Bool.and_eq_true, valEqEntries_iff es ys, EntryList.toList,
      List.mem_cons, forall_eq_or_imp]
    refine and_congr ?_ Iff.rfl
    cases ys.find? t k <;> simp

theorem valEqFields_iff : ∀ (fs : FieldList) (xs : ValList) (ty : Ty) (ys : ValList),
    valEqFields fs xs ty ys = true ↔
    ∀ p ∈ objPairs fs xs, ∃ w, objGet? ty ys p.1 = some w ∧ valEq p.2 w = true
  | .nil, xs, ty, ys => by simp [valEqFields, objPairs, FieldList.names]
  | .cons _ _ _, .nil, ty, ys => by simp [valEqFields, objPairs, ValList.toList]
  | .cons n t fs, .cons v vs, ty, ys => by
    simp only [valEqFields, Bool.and_eq_true, valEqFields_iff fs vs ty ys, objPairs,
      FieldList.names, ValList.toList, List.zip_cons_cons, List.mem_cons, forall_eq_or_imp]
    refine and_congr ?_ Iff.rfl
    cases objGet? ty ys n <;> simp

theorem valEq_list (tx ty : Ty) (xs ys : ValList) :
    valEq (.list tx xs) (.list ty ys) =
      (tyEq tx ty && (xs.length == ys.length && valEqList xs ys)) := by
  simp [valEq, Val.typeOf]
theorem valEq_map (tx ty : Ty) (xs ys : EntryList) :
    valEq (.map tx xs) (.map ty ys) =
      (tyEq tx ty && (xs.length == ys.length && valEqEntries xs ys)) := by
  simp [valEq, Val.typeOf]
theorem valEq_obj (fs : FieldList) (ty : Ty) (xs ys : ValList) :
    valEq (.obj (.obj fs) xs) (.obj ty ys) =
      (tyEq (.obj fs) ty && (xs.length == ys.length && valEqFields fs xs ty ys)) := by
  simp [valEq, Val.typeOf]
theorem valEq_just (a b : Ty) (x y : Val) :
    valEq (.just a x) (.just b y) = (tyEq a b && valEq x y) := by
  simp [valEq, Val.typeOf, tyEq]

/-! ### canonical rendering: permutation invariance (C13 / C18) -/

/-- Rendering a map does not depend on the order in which the entries were inserted
(nor on the map's own type). -/
theorem render_map_perm' {ty ty' : Ty} {es₁ es₂ : EntryList} (hp : es₁.toList.Perm es₂.toList)
    (hnd : es₁.keyTexts.Nodup) : Val.render (.map ty es₁) = Val.render (.map ty' es₂) := by
  rw [render_map, render_map, renderEntries_eq, renderEntries_eq]
  apply mapText_perm (hp.map _)
  simpa [EntryList.keyTexts, List.map_map, Function.comp_def] using hnd

theorem stringify_map_perm' {ty ty' : Ty} {es₁ es₂ : EntryList} (hp : es₁.toList.Perm es₂.toList)
    (hnd : es₁.keyTexts.Nodup) : Val.stringify (.map ty es₁) = Val.stringify (.map ty' es₂) := by
  rw [stringify_map, stringify_map, stringifyEntries_eq, stringifyEntries_eq]
  apply mapText_perm (hp.map _)
  simpa [EntryList.keyTexts, List.map_map, Function.comp_def] using hnd

/-- `==` on maps does not depend on the insertion order either. -/
theorem valEq_map_perm' {ty : Ty} {es₁ es₂ : EntryList} (hp : es₁.toList.Perm es₂.toList)
    (hnd : es₁.keys.Nodup) (hself : valEq (.map ty es₁) (.map ty es₁) = true) :
    valEq (.map ty es₁) (.map ty es₂) = true := by
  rw [valEq_map] at hself ⊢
  simp only [Bool.and_eq_true, beq_iff_eq] at hself ⊢
  refine ⟨hself.1, ?_, ?_⟩
  · rw [← EntryList.length_toList, ← EntryList.length_toList]; exact hp.length_eq
  · rw [valEqEntries_iff] at hself ⊢
    intro e he
    rw [← EntryList.find?_perm hp hnd]
    exact hself.2.2 e he

/-- Rendering an object depends only on the set of (field name, value) pairs. -/
theorem render_obj_perm' {fs₁ fs₂ : FieldList} {vs₁ vs₂ : ValList}
    (hp : (objPairs fs₁ vs₁).Perm (objPairs fs₂ vs₂)) (hnd : fs₁.names.Nodup) :
    Val.render (.obj (.obj fs₁) vs₁) = Val.render (.obj (.obj fs₂) vs₂) := by
  rw [render_obj, render_obj, objPairs_render, objPairs_render]
  apply objText_perm (hp.map _)
  simpa [List.map_map, Function.comp_def] using objPairs_nodup vs₁ hnd

end Yae
