/-
  C18: well-formed values, the assumed IEEE facts (`FloatFacts`), symmetry and reflexivity of
  `valEq`, tolerance-separated pairs (`Sep`) and "equal values render alike".
-/
import Yae.Proofs.ValRel
import Yae.Proofs.NumLemmas
namespace Yae

/-! ### deep predicates -/

mutual
/-- `P` holds for the value and for every value below it. -/
def Val.All (P : Val → Prop) : Val → Prop
  | .list ty vs => P (.list ty vs) ∧ ValList.All P vs
  | .map ty es => P (.map ty es) ∧ EntryList.All P es
  | .obj ty vs => P (.obj ty vs) ∧ ValList.All P vs
  | .just el v => P (.just el v) ∧ Val.All P v
  | .num x => P (.num x)
  | .str s => P (.str s)
  | .bool b => P (.bool b)
  | .time t => P (.time t)
  | .fn ty r l => P (.fn ty r l)
  | .nothing el => P (.nothing el)
  | .nil => P .nil
def ValList.All (P : Val → Prop) : ValList → Prop
  | .nil => True
  | .cons v vs => Val.All P v ∧ ValList.All P vs
def EntryList.All (P : Val → Prop) : EntryList → Prop
  | .nil => True
  | .cons _ _ v es => Val.All P v ∧ EntryList.All P es
end

theorem Val.All.self {P : Val → Prop} : ∀ {v : Val}, v.All P → P v
  | .list _ _, h | .map _ _, h | .obj _ _, h | .just _ _, h => by
    simp only [Val.All] at h; exact h.1
  | .num _, h | .str _, h | .bool _, h | .time _, h | .fn _ _ _, h | .nothing _, h | .nil, h => by
    simpa only [Val.All] using h

theorem ValList.all_iff (P : Val → Prop) : ∀ vs : ValList,
    vs.All P ↔ ∀ v ∈ vs.toList, v.All P
  | .nil => by simp [ValList.All, ValList.toList]
  | .cons v vs => by simp [ValList.All, ValList.toList, ValList.all_iff P vs]

theorem EntryList.all_iff (P : Val → Prop) : ∀ es : EntryList,
    es.All P ↔ ∀ e ∈ es.toList, e.2.2.All P
  | .nil => by simp [EntryList.All, EntryList.toList]
  | .cons t k v es => by simp [EntryList.All, EntryList.toList, EntryList.all_iff P es]

theorem Val.all_list {P : Val → Prop} {ty vs} :
    (Val.list ty vs).All P ↔ P (.list ty vs) ∧ ∀ v ∈ vs.toList, v.All P := by
  simp [Val.All, ValList.all_iff]
theorem Val.all_obj {P : Val → Prop} {ty vs} :
    (Val.obj ty vs).All P ↔ P (.obj ty vs) ∧ ∀ v ∈ vs.toList, v.All P := by
  simp [Val.All, ValList.all_iff]
theorem Val.all_map {P : Val → Prop} {ty es} :
    (Val.map ty es).All P ↔ P (.map ty es) ∧ ∀ e ∈ es.toList, e.2.2.All P := by
  simp [Val.All, EntryList.all_iff]
theorem Val.all_just {P : Val → Prop} {el v} :
    (Val.just el v).All P ↔ P (.just el v) ∧ v.All P := by
  simp [Val.All]

/-- Local well-formedness of one node: own type well formed and of the right kind, an object has
as many values as its own type has fields, map keys (tag, text) are pairwise distinct and all carry
the tag of the key type; no Go `nil` inside. -/
def Val.LocalWF : Val → Prop
  | .num _ | .str _ | .bool _ | .time _ => True
  | .list ty _ => ty.wf = true ∧ ∃ el, ty = .list el
  | .map ty es => ty.wf = true ∧ es.keys.Nodup ∧
      ∃ k v, ty = .map k v ∧ ∀ e ∈ es.toList, e.1 = k.kind
  | .obj ty vs => ty.wf = true ∧ ∃ fs, ty = .obj fs ∧ fs.length = vs.length
  | .fn ty _ _ => ty.wf = true ∧ ∃ n ps r, ty = .fn n ps r
  | .just el _ => el.wf = true
  | .nothing el => el.wf = true
  | .nil => False

/-- Deep well-formedness. -/
def Val.WF (v : Val) : Prop := v.All Val.LocalWF

/-- Conformance of the components' own types to the declared component types
(`types.Equals`), on top of `WF`. -/
def Val.LocalTyped : Val → Prop
  | .list ty vs => ∀ el, ty = .list el → ∀ v ∈ vs.toList, tyEq v.typeOf el = true
  | .map ty es => ∀ k v, ty = .map k v → ∀ e ∈ es.toList, tyEq e.2.2.typeOf v = true
  | .obj ty vs => ∀ fs, ty = .obj fs → ∀ (i : Nat) n t v, fs.get? i = some (n, t) →
      vs.toList[i]? = some v → tyEq v.typeOf t = true
  | .just el v => tyEq v.typeOf el = true
  | _ => True
def Val.Typed (v : Val) : Prop := v.WF ∧ v.All Val.LocalTyped

theorem Val.WF.typeOf_wf : ∀ {v : Val}, v.WF → v.typeOf.wf = true
  | .num _, _ | .str _, _ | .bool _, _ | .time _, _ => by simp [Val.typeOf, Ty.wf]
  | .list _ _, h | .map _ _, h | .obj _ _, h | .fn _ _ _, h => by
    have := Val.All.self h; simp only [Val.LocalWF] at this; exact this.1
  | .just _ _, h | .nothing _, h => by
    have := Val.All.self h; simp only [Val.LocalWF] at this; simpa [Val.typeOf, Ty.wf] using this
  | .nil, h => by have := Val.All.self h; simp [Val.LocalWF] at this

/-! ### the assumed facts about IEEE doubles and shortest formatting -/

/-- Every fact about `Float` (opaque to the kernel) and about the shortest round-trip formatting
algorithm that the C18 / C04 theorems rely on, as explicit hypotheses.  Nothing here is an axiom:
the theorems take a `FloatFacts` argument. -/
structure FloatFacts : Prop where
  /-- IEEE: `|x - y| = |y - x|`, so the tolerance test is symmetric. -/
  numEQ_symm : ∀ x y : Float, numEQ x y = numEQ y x
  /-- IEEE: `|(±0) - (±0)| = 0 < ε`. -/
  numEQ_zeros : ∀ x y : Float, Num.bitsIsZero x.toBits = true → Num.bitsIsZero y.toBits = true →
    numEQ x y = true
  /-- `Float.toBits` canonicalises NaN (documented behaviour of `Float.toBits`). -/
  nan_bits_unique : ∀ x y : Float, Num.bitsIsNaN x.toBits = true → Num.bitsIsNaN y.toBits = true →
    x.toBits = y.toBits
  /-- IEEE: for non-NaN `d`, `¬ (d < ε) ↔ d ≥ ε`; with `d = |x - y|`, which is NaN only if `x`
  or `y` is NaN or both are infinities of the same sign. -/
  numNE_eq_not_numEQ : ∀ x y : Float, Num.isFinite x = true → Num.isFinite y = true →
    numNE x y = !numEQ x y
  /-- `strconv.FormatFloat(x,'f',-1,64)` (shortest round-trip digits) is injective on the bit
  patterns that are rendered through it, NaN payloads aside. -/
  fmtFloat_injective : ∀ a b : UInt64, Num.isIntBits a = false → Num.isIntBits b = false →
    Num.fmtFloatBits a = Num.fmtFloatBits b → a = b ∨ (Num.bitsIsNaN a = true ∧ Num.bitsIsNaN b = true)
  /-- an integer text (`FormatInt`) is never the text of a value rendered through `FormatFloat`
  (those have a fraction, or at least 19 digits, or are `NaN` / `±Inf`). -/
  fmtInt_ne_fmtFloat : ∀ a b : UInt64, Num.isIntBits a = true → Num.isIntBits b = false →
    Num.fmtInt (Num.toInt64Bits a) ≠ Num.fmtFloatBits b

/-! ### symmetry -/

theorem tyEqFields_mem : ∀ (gs fs : FieldList), tyEqFields gs fs = true →
    ∀ n ∈ gs.names, n ∈ fs.names
  | .nil, _, _, n, hn => by simp [FieldList.names] at hn
  | .cons m t gs, fs, h, n, hn => by
    simp only [tyEqFields, Bool.and_eq_true] at h
    simp only [FieldList.names, List.mem_cons] at hn
    rcases hn with hn | hn
    · rw [hn]
      cases hq : fs.find? m with
      | none => simp [hq] at h
      | some u => exact (FieldList.find?_isSome_iff fs m).1 (by simp [hq])
    · exact tyEqFields_mem gs fs h.2 n hn

theorem wf_obj_nodup {fs : FieldList} (h : (Ty.obj fs).wf = true) : fs.names.Nodup :=
  wfFields_nodup fs (by simpa [Ty.wf] using h)

theorem valEq_symm_imp (hsym : ∀ a b : Float, numEQ a b = numEQ b a) :
    ∀ x y : Val, x.WF → y.WF → valEq x y = true → valEq y x = true := by
  intro x
  apply Val.induct_mem (P := fun x => ∀ y : Val, x.WF → y.WF → valEq x y = true → valEq y x = true)
  case num =>
    intro a y _ _ h
    cases y <;> simp [valEq, Val.typeOf, tyEq] at h ⊢
    rw [hsym]; exact h
  case str =>
    intro a y _ _ h
    cases y <;> simp [valEq, Val.typeOf, tyEq] at h ⊢
    exact h.symm
  case bool =>
    intro a y _ _ h
    cases y <;> simp [valEq, Val.typeOf, tyEq] at h ⊢
    exact h.symm
  case time =>
    intro a y _ _ h
    cases y <;> simp [valEq, Val.typeOf, tyEq, TimeV.equal] at h ⊢
    exact ⟨h.1.symm, h.2.symm⟩
  case fn =>
    intro ty r l y _ _ h
    cases y <;> simp [valEq, Val.typeOf] at h
  case nil =>
    intro y hx; exact absurd (Val.All.self hx) (by simp [Val.LocalWF])
  case nothing =>
    intro el y hx hy h
    cases y <;> try (simp [valEq, Val.typeOf] at h; done)
    rename_i el'
    have h1 := hx.typeOf_wf; have h2 := hy.typeOf_wf
    simp only [Val.typeOf] at h1 h2
    simp only [valEq, Val.typeOf, Bool.and_true] at h ⊢
    rw [tyEq_symm' h2 h1]; exact h
  case just =>
    intro el v ih y hx hy h
    cases y <;> try (simp [valEq, Val.typeOf] at h; done)
    rename_i el' w
    have h1 := hx.typeOf_wf; have h2 := hy.typeOf_wf
    simp only [Val.typeOf, Ty.wf] at h1 h2
    rw [valEq_just] at h ⊢
    simp only [Bool.and_eq_true] at h ⊢
    refine ⟨by rw [tyEq_symm' h2 h1]; exact h.1, ?_⟩
    exact ih w (Val.all_just.1 hx).2 (Val.all_just.1 hy).2 h.2
  case list =>
    intro tx xs ih y hx hy h
    cases y <;> try (simp [valEq, Val.typeOf] at h; done)
    rename_i ty ys
    have h1 := hx.typeOf_wf; have h2 := hy.typeOf_wf
    simp only [Val.typeOf] at h1 h2
    rw [valEq_list] at h ⊢
    simp only [Bool.and_eq_true, beq_iff_eq] at h ⊢
    obtain ⟨ht, hl, hv⟩ := h
    have hx' := Val.all_list.1 hx
    have hy' := Val.all_list.1 hy
    refine ⟨by rw [tyEq_symm' h2 h1]; exact ht, hl.symm, ?_⟩
    rw [valEqList_iff] at hv ⊢
    refine ⟨hv.1.symm, ?_⟩
    intro i v w hv1 hw1
    have hwm : w ∈ xs.toList := List.mem_of_getElem? hw1
    have hvm : v ∈ ys.toList := List.mem_of_getElem? hv1
    exact ih w hwm v (hx'.2 w hwm) (hy'.2 v hvm) (hv.2 i w v hw1 hv1)
  case map =>
    intro tx xs ih y hx hy h
    cases y <;> try (simp [valEq, Val.typeOf] at h; done)
    rename_i ty ys
    have h1 := hx.typeOf_wf; have h2 := hy.typeOf_wf
    simp only [Val.typeOf] at h1 h2
    rw [valEq_map] at h ⊢
    simp only [Bool.and_eq_true, beq_iff_eq] at h ⊢
    obtain ⟨ht, hl, hv⟩ := h
    have hx' := Val.all_map.1 hx
    have hy' := Val.all_map.1 hy
    have hndx : xs.keys.Nodup := by
      have := hx'.1; simp only [Val.LocalWF] at this; exact this.2.1
    have hndy : ys.keys.Nodup := by
      have := hy'.1; simp only [Val.LocalWF] at this; exact this.2.1
    refine ⟨by rw [tyEq_symm' h2 h1]; exact ht, hl.symm, ?_⟩
    rw [valEqEntries_iff] at hv ⊢
    have hsub : ∀ a, a ∈ xs.keys → a ∈ ys.keys := by
      intro a ha
      obtain ⟨t, k⟩ := a
      obtain ⟨v, hm⟩ := (EntryList.mem_keys_iff xs t k).1 ha
      obtain ⟨w, hf, _⟩ := hv _ hm
      exact (EntryList.mem_keys_iff ys t k).2 ⟨w, EntryList.find?_some_mem _ _ _ _ hf⟩
    have hsup := subset_of_nodup_of_length_le xs.keys ys.keys hndx hsub
      (by rw [EntryList.length_keys, EntryList.length_keys, hl]; exact Nat.le_refl _)
    intro e he
    obtain ⟨t, k, w⟩ := e
    have hk : (t, k) ∈ xs.keys := hsup _ ((EntryList.mem_keys_iff ys t k).2 ⟨w, he⟩)
    obtain ⟨v, hm⟩ := (EntryList.mem_keys_iff xs t k).1 hk
    obtain ⟨w', hf, hvw⟩ := hv _ hm
    have hw : ys.find? t k = some w := EntryList.mem_find?_of_nodup ys t k w hndy he
    simp only [] at hf hvw
    rw [hw] at hf; cases hf
    exact ⟨v, EntryList.mem_find?_of_nodup xs t k v hndx hm,
      ih _ hm w (hx'.2 _ hm) (hy'.2 _ he) hvw⟩
  case obj =>
    intro tx xs ih y hx hy h
    cases y <;> try (simp [valEq, Val.typeOf] at h; done)
    rename_i ty ys
    have hx' := Val.all_obj.1 hx
    have hy' := Val.all_obj.1 hy
    obtain ⟨hwx, fs, rfl, hlx⟩ : tx.wf = true ∧ ∃ fs, tx = .obj fs ∧ fs.length = xs.length := by
      simpa only [Val.LocalWF] using hx'.1
    obtain ⟨hwy, gs, rfl, hly⟩ : ty.wf = true ∧ ∃ fs, ty = .obj fs ∧ fs.length = ys.length := by
      simpa only [Val.LocalWF] using hy'.1
    rw [valEq_obj] at h ⊢
    simp only [Bool.and_eq_true, beq_iff_eq] at h ⊢
    obtain ⟨ht, hl, hv⟩ := h
    have ht' : tyEq (.obj gs) (.obj fs) = true := by rw [tyEq_symm' hwy hwx]; exact ht
    refine ⟨ht', hl.symm, ?_⟩
    rw [valEqFields_iff] at hv ⊢
    have hndx := wf_obj_nodup hwx
    have hndy := wf_obj_nodup hwy
    have hnames : ∀ n, n ∈ gs.names → n ∈ fs.names := by
      have := ht'
      simp only [tyEq, Bool.and_eq_true] at this
      exact tyEqFields_mem gs fs this.2
    intro p hp
    obtain ⟨m, w⟩ := p
    have hm : m ∈ fs.names := hnames m (List.of_mem_zip hp).1
    obtain ⟨v, hpv⟩ := exists_mem_objPairs fs xs hlx m hm
    obtain ⟨w', hg, hvw⟩ := hv _ hpv
    have hw : objGet? (.obj gs) ys m = some w := mem_objGet?_of_nodup gs ys m w hndy hp
    simp only [] at hg hvw
    rw [hw] at hg; cases hg
    have hvm : v ∈ xs.toList := (List.of_mem_zip hpv).2
    have hwm : w ∈ ys.toList := (List.of_mem_zip hp).2
    exact ⟨v, mem_objGet?_of_nodup fs xs m v hndx hpv, ih v hvm w (hx'.2 v hvm) (hy'.2 w hwm) hvw⟩

/-- `==` is symmetric on well-formed values, given that the tolerance test on numbers is. -/
theorem valEq_symm' (hsym : ∀ a b : Float, numEQ a b = numEQ b a) {x y : Val}
    (hx : x.WF) (hy : y.WF) : valEq x y = valEq y x := by
  rw [Bool.eq_iff_iff]
  exact ⟨valEq_symm_imp hsym x y hx hy, valEq_symm_imp hsym y x hy hx⟩


/-! ### reflexivity -/

/-- what makes a node not equal to itself: a number that is not within tolerance of itself
(NaN, ±Inf: `|x - x|` is NaN), and function values (compared by pointer identity; the model
treats every occurrence as a distinct pointer). -/
def Val.LocalSelfEq : Val → Prop
  | .num x => numEQ x x = true
  | .fn _ _ _ => False
  | _ => True

/-- every number inside is within tolerance of itself and there is no function value inside -/
def Val.SelfEq (v : Val) : Prop := v.All Val.LocalSelfEq

theorem objPairs_snd (fs : FieldList) (vs : ValList) (h : fs.length = vs.length) :
    (objPairs fs vs).map Prod.snd = vs.toList := by
  simp only [objPairs]
  apply List.map_snd_zip
  rw [FieldList.length_names, ValList.length_toList, h]; exact Nat.le_refl _

theorem exists_mem_objPairs_val (fs : FieldList) (vs : ValList) (h : fs.length = vs.length)
    (v : Val) (hv : v ∈ vs.toList) : ∃ n, (n, v) ∈ objPairs fs vs := by
  rw [← objPairs_snd fs vs h] at hv
  rcases List.mem_map.1 hv with ⟨⟨n, v'⟩, hm, rfl⟩
  exact ⟨n, hm⟩

theorem valEq_refl_iff' : ∀ v : Val, v.WF → (valEq v v = true ↔ v.SelfEq) := by
  apply Val.induct_mem (P := fun v => v.WF → (valEq v v = true ↔ v.SelfEq))
  case num => intro a _; simp [valEq, Val.typeOf, tyEq, Val.SelfEq, Val.All, Val.LocalSelfEq]
  case str => intro a _; simp [valEq, Val.typeOf, tyEq, Val.SelfEq, Val.All, Val.LocalSelfEq]
  case bool => intro a _; simp [valEq, Val.typeOf, tyEq, Val.SelfEq, Val.All, Val.LocalSelfEq]
  case time =>
    intro a _; simp [valEq, Val.typeOf, tyEq, Val.SelfEq, Val.All, Val.LocalSelfEq, TimeV.equal]
  case fn => intro ty r l _; simp [valEq, Val.SelfEq, Val.All, Val.LocalSelfEq]
  case nil => intro hx; exact absurd (Val.All.self hx) (by simp [Val.LocalWF])
  case nothing =>
    intro el hx
    have h1 := hx.typeOf_wf
    simp [valEq, Val.SelfEq, Val.All, Val.LocalSelfEq, tyEq_refl' h1]
  case just =>
    intro el v ih hx
    have h1 := hx.typeOf_wf
    simp only [Val.typeOf, Ty.wf] at h1
    rw [valEq_just, tyEq_refl' h1, Bool.true_and, ih (Val.all_just.1 hx).2]
    simp [Val.SelfEq, Val.All, Val.LocalSelfEq]
  case list =>
    intro tx xs ih hx
    have h1 := hx.typeOf_wf
    simp only [Val.typeOf] at h1
    have hx' := Val.all_list.1 hx
    rw [valEq_list, tyEq_refl' h1]
    simp only [Bool.true_and, beq_self_eq_true, valEqList_iff, true_and]
    rw [Val.SelfEq, Val.all_list]
    simp only [Val.LocalSelfEq, true_and]
    constructor
    · intro h v hv
      obtain ⟨i, hi⟩ := List.mem_iff_getElem?.1 hv
      exact (ih v hv (hx'.2 v hv)).1 (h i v v hi hi)
    · intro h i v w hv hw
      rw [hv] at hw; cases hw
      have hvm : v ∈ xs.toList := List.mem_of_getElem? hv
      exact (ih v hvm (hx'.2 v hvm)).2 (h v hvm)
  case map =>
    intro tx xs ih hx
    have h1 := hx.typeOf_wf
    simp only [Val.typeOf] at h1
    have hx' := Val.all_map.1 hx
    have hnd : xs.keys.Nodup := by
      have := hx'.1; simp only [Val.LocalWF] at this; exact this.2.1
    rw [valEq_map, tyEq_refl' h1]
    simp only [Bool.true_and, beq_self_eq_true, valEqEntries_iff]
    rw [Val.SelfEq, Val.all_map]
    simp only [Val.LocalSelfEq, true_and]
    constructor
    · intro h e he
      obtain ⟨w, hf, hvw⟩ := h e he
      rw [EntryList.mem_find?_of_nodup xs e.1 e.2.1 e.2.2 hnd he] at hf
      cases hf
      exact (ih e he (hx'.2 e he)).1 hvw
    · intro h e he
      exact ⟨e.2.2, EntryList.mem_find?_of_nodup xs e.1 e.2.1 e.2.2 hnd he,
        (ih e he (hx'.2 e he)).2 (h e he)⟩
  case obj =>
    intro tx xs ih hx
    have hx' := Val.all_obj.1 hx
    obtain ⟨hwx, fs, rfl, hlx⟩ : tx.wf = true ∧ ∃ fs, tx = .obj fs ∧ fs.length = xs.length := by
      simpa only [Val.LocalWF] using hx'.1
    have hnd := wf_obj_nodup hwx
    rw [valEq_obj, tyEq_refl' hwx]
    simp only [Bool.true_and, beq_self_eq_true, valEqFields_iff]
    rw [Val.SelfEq, Val.all_obj]
    simp only [Val.LocalSelfEq, true_and]
    constructor
    · intro h v hv
      obtain ⟨n, hp⟩ := exists_mem_objPairs_val fs xs hlx v hv
      obtain ⟨w, hf, hvw⟩ := h _ hp
      rw [mem_objGet?_of_nodup fs xs n v hnd hp] at hf
      cases hf
      exact (ih v hv (hx'.2 v hv)).1 hvw
    · intro h p hp
      have hvm : p.2 ∈ xs.toList := (List.of_mem_zip hp).2
      exact ⟨p.2, mem_objGet?_of_nodup fs xs p.1 p.2 hnd hp, (ih p.2 hvm (hx'.2 _ hvm)).2 (h _ hvm)⟩


/-! ### tolerance-separated pairs -/

/-- `Sep x y`: `x` and `y` have the same shape (same constructors at corresponding positions:
list elements by index, map values by key, object fields by name) and at corresponding leaves
* numbers are within tolerance exactly when they are bit-identical ("identical, or further apart
  than the tolerance"; a NaN / ±Inf leaf is not within tolerance of itself, so it is excluded);
* (display condition, see the counterexample `C18.time_equal_render_differs`) equal instants are
  displayed in the same zone;
* (display condition, see `C18.nothing_equal_render_differs`) the element types of optionals,
  when `tyEq`, render alike (`Ty.render` lists object fields in declaration order). -/
inductive Sep : Val → Val → Prop
  | num {a b : Float} : (numEQ a b = true ↔ a.toBits = b.toBits) → Sep (.num a) (.num b)
  | str (a b : String) : Sep (.str a) (.str b)
  | bool (a b : Bool) : Sep (.bool a) (.bool b)
  | time {a b : TimeV} : (a.equal b = true → a.offset = b.offset ∧ a.zone = b.zone) →
      Sep (.time a) (.time b)
  | list {tx ty : Ty} {xs ys : ValList} :
      (∀ (i : Nat) v w, xs.toList[i]? = some v → ys.toList[i]? = some w → Sep v w) →
      Sep (.list tx xs) (.list ty ys)
  | map {tx ty : Ty} {xs ys : EntryList} :
      (∀ t k v w, xs.find? t k = some v → ys.find? t k = some w → Sep v w) →
      Sep (.map tx xs) (.map ty ys)
  | obj {tx ty : Ty} {xs ys : ValList} :
      (∀ n v w, objGet? tx xs n = some v → objGet? ty ys n = some w → Sep v w) →
      Sep (.obj tx xs) (.obj ty ys)
  | fn (tx ty : Ty) (r r' : FunRef) (l l' : Bool) : Sep (.fn tx r l) (.fn ty r' l')
  | just {ea eb : Ty} {a b : Val} : (tyEq ea eb = true → ea.render = eb.render) → Sep a b →
      Sep (.just ea a) (.just eb b)
  | nothing {ea eb : Ty} : (tyEq ea eb = true → ea.render = eb.render) →
      Sep (.nothing ea) (.nothing eb)

theorem nodup_of_map {α β : Type} (f : α → β) {l : List α} (h : (l.map f).Nodup) : l.Nodup := by
  rw [List.Nodup, List.pairwise_map] at h
  exact h.imp (fun h e => h (by rw [e]))

theorem perm_of_subset_nodup {α : Type} [DecidableEq α] {l₁ l₂ : List α} (h1 : l₁.Nodup)
    (h2 : l₂.Nodup) (hsub : ∀ a, a ∈ l₁ → a ∈ l₂) (hl : l₂.length ≤ l₁.length) : l₁.Perm l₂ :=
  (List.perm_ext_iff_of_nodup h1 h2).2 fun a =>
    ⟨hsub a, subset_of_nodup_of_length_le l₁ l₂ h1 hsub hl a⟩

theorem map_eq_of_index {α β : Type} (f : α → β) : ∀ (l₁ l₂ : List α),
    l₁.length = l₂.length →
    (∀ (i : Nat) a b, l₁[i]? = some a → l₂[i]? = some b → f a = f b) → l₁.map f = l₂.map f
  | [], [], _, _ => rfl
  | [], _ :: _, hl, _ => by simp at hl
  | _ :: _, [], hl, _ => by simp at hl
  | a :: l₁, b :: l₂, hl, h => by
    simp only [List.map_cons, List.cons.injEq]
    refine ⟨h 0 a b (by simp) (by simp), map_eq_of_index f l₁ l₂ (by simpa using hl) ?_⟩
    intro i a' b' ha hb
    exact h (i+1) a' b' (by simpa using ha) (by simpa using hb)

/-- **Equal values render alike** (for separated pairs of well-formed values). -/
theorem valEq_imp_render' : ∀ x y : Val, x.WF → y.WF → Sep x y → valEq x y = true →
    x.render = y.render := by
  intro x
  apply Val.induct_mem
    (P := fun x => ∀ y : Val, x.WF → y.WF → Sep x y → valEq x y = true → x.render = y.render)
  case num =>
    intro a y _ _ hs h
    cases hs with
    | num hiff =>
      simp only [valEq, Val.typeOf, tyEq, Bool.true_and] at h
      simp [Val.render, Num.renderNum, hiff.1 h]
  case str =>
    intro a y _ _ hs h
    cases hs
    simp [valEq, Val.typeOf, tyEq] at h
    rw [h]
  case bool =>
    intro a y _ _ hs h
    cases hs
    simp [valEq, Val.typeOf, tyEq] at h
    rw [h]
  case time =>
    intro a y _ _ hs h
    cases hs with
    | @time _ b hz =>
      simp only [valEq, Val.typeOf, tyEq, Bool.true_and] at h
      have hz := hz h
      simp only [TimeV.equal, Bool.and_eq_true, beq_iff_eq] at h
      have : a = b := by
        cases a; cases b; simp_all
      rw [this]
  case fn =>
    intro ty r l y _ _ hs h
    cases hs
    simp [valEq, Val.typeOf] at h
  case nil =>
    intro y hx; exact absurd (Val.All.self hx) (by simp [Val.LocalWF])
  case nothing =>
    intro el y _ _ hs h
    cases hs with
    | nothing hr =>
      simp only [valEq, Val.typeOf, tyEq, Bool.and_true] at h
      simp [Val.render, hr h]
  case just =>
    intro el v ih y hx hy hs h
    cases hs with
    | just hr hs' =>
      rw [valEq_just] at h
      simp only [Bool.and_eq_true] at h
      simp [Val.render, hr h.1, ih _ (Val.all_just.1 hx).2 (Val.all_just.1 hy).2 hs' h.2]
  case list =>
    intro tx xs ih y hx hy hs h
    cases hs with
    | list hs' =>
      rename_i ty ys
      rw [valEq_list] at h
      simp only [Bool.and_eq_true, beq_iff_eq] at h
      obtain ⟨_, _, hv⟩ := h
      have hx' := Val.all_list.1 hx
      have hy' := Val.all_list.1 hy
      rw [valEqList_iff] at hv
      simp only [Val.render, renderVals_eq]
      have hm : xs.toList.map Val.render = ys.toList.map Val.render := by
        apply map_eq_of_index _ _ _ hv.1
        intro i v w hv1 hw1
        have hvm : v ∈ xs.toList := List.mem_of_getElem? hv1
        have hwm : w ∈ ys.toList := List.mem_of_getElem? hw1
        exact ih v hvm w (hx'.2 v hvm) (hy'.2 w hwm) (hs' i v w hv1 hw1) (hv.2 i v w hv1 hw1)
      rw [hm]
  case map =>
    intro tx xs ih y hx hy hs h
    cases hs with
    | map hs' =>
      rename_i ty ys
      rw [valEq_map] at h
      simp only [Bool.and_eq_true, beq_iff_eq] at h
      obtain ⟨_, hl, hv⟩ := h
      have hx' := Val.all_map.1 hx
      have hy' := Val.all_map.1 hy
      obtain ⟨_, hndx, kx, vx, _, htx⟩ := (by simpa only [Val.LocalWF] using hx'.1 :
        tx.wf = true ∧ xs.keys.Nodup ∧ ∃ k v, tx = .map k v ∧ ∀ e ∈ xs.toList, e.1 = k.kind)
      have hndy : ys.keys.Nodup := by
        have := hy'.1; simp only [Val.LocalWF] at this; exact this.2.1
      rw [valEqEntries_iff] at hv
      let f : Kind × String × Val → Kind × String × String := fun e => (e.1, e.2.1, e.2.2.render)
      have hk : ∀ es : EntryList, (es.toList.map f).map (fun p => (p.1, p.2.1)) = es.keys := by
        intro es; simp [EntryList.keys, List.map_map, Function.comp_def, f]
      have hp : (xs.toList.map f).Perm (ys.toList.map f) := by
        apply perm_of_subset_nodup
        · exact nodup_of_map (fun p => (p.1, p.2.1)) (by rw [hk]; exact hndx)
        · exact nodup_of_map (fun p => (p.1, p.2.1)) (by rw [hk]; exact hndy)
        · intro a ha
          obtain ⟨e, he, rfl⟩ := List.mem_map.1 ha
          obtain ⟨w, hf, hvw⟩ := hv e he
          have hwm := EntryList.find?_some_mem ys _ _ _ hf
          have hfx := EntryList.mem_find?_of_nodup xs e.1 e.2.1 e.2.2 hndx he
          have := ih e he w (hx'.2 e he) (hy'.2 _ hwm) (hs' _ _ _ _ hfx hf) hvw
          refine List.mem_map.2 ⟨(e.1, e.2.1, w), hwm, ?_⟩
          simp [f, this]
        · simp [EntryList.length_toList, hl]
      rw [render_map, render_map, renderEntries_eq, renderEntries_eq]
      have hp' := hp.map (fun p : Kind × String × String => (p.2.1, p.2.2))
      simp only [List.map_map, Function.comp_def, f] at hp'
      apply mapText_perm hp'
      have := EntryList.keyTexts_nodup_of_tag htx hndx
      simpa [EntryList.keyTexts, List.map_map, Function.comp_def] using this
  case obj =>
    intro tx xs ih y hx hy hs h
    cases hs with
    | obj hs' =>
      rename_i ty ys
      have hx' := Val.all_obj.1 hx
      have hy' := Val.all_obj.1 hy
      obtain ⟨hwx, fs, rfl, hlx⟩ : tx.wf = true ∧ ∃ fs, tx = .obj fs ∧ fs.length = xs.length := by
        simpa only [Val.LocalWF] using hx'.1
      obtain ⟨hwy, gs, rfl, hly⟩ : ty.wf = true ∧ ∃ fs, ty = .obj fs ∧ fs.length = ys.length := by
        simpa only [Val.LocalWF] using hy'.1
      rw [valEq_obj] at h
      simp only [Bool.and_eq_true, beq_iff_eq] at h
      obtain ⟨_, hl, hv⟩ := h
      rw [valEqFields_iff] at hv
      have hndx := wf_obj_nodup hwx
      have hndy := wf_obj_nodup hwy
      let f : String × Val → String × String := fun p => (p.1, p.2.render)
      have hk : ∀ (fs : FieldList) (vs : ValList),
          ((objPairs fs vs).map f).map Prod.fst = (objPairs fs vs).map Prod.fst := by
        intro fs vs; simp [List.map_map, Function.comp_def, f]
      have hlen : ∀ (fs : FieldList) (vs : ValList), fs.length = vs.length →
          (objPairs fs vs).length = vs.length := by
        intro fs vs h
        simp [objPairs, FieldList.length_names, ValList.length_toList, h]
      have hp : ((objPairs fs xs).map f).Perm ((objPairs gs ys).map f) := by
        apply perm_of_subset_nodup
        · exact nodup_of_map Prod.fst (by rw [hk]; exact objPairs_nodup xs hndx)
        · exact nodup_of_map Prod.fst (by rw [hk]; exact objPairs_nodup ys hndy)
        · intro a ha
          obtain ⟨p, hp, rfl⟩ := List.mem_map.1 ha
          obtain ⟨w, hg, hvw⟩ := hv p hp
          have hwm := objGet?_some_mem gs ys _ _ hg
          have hgx := mem_objGet?_of_nodup fs xs p.1 p.2 hndx hp
          have hvm : p.2 ∈ xs.toList := (List.of_mem_zip hp).2
          have := ih p.2 hvm w (hx'.2 _ hvm) (hy'.2 _ (List.of_mem_zip hwm).2)
            (hs' _ _ _ hgx hg) hvw
          refine List.mem_map.2 ⟨(p.1, w), hwm, ?_⟩
          simp [f, this]
        · simp [hlen fs xs hlx, hlen gs ys hly, hl]
      rw [render_obj, render_obj, objPairs_render, objPairs_render]
      apply objText_perm hp
      rw [hk]; exact objPairs_nodup xs hndx

end Yae
