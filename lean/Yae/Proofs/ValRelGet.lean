/-
  C04: `get` / `isset` with defaults, as equations of `applyBuiltin`.
-/
import Yae.Model.Builtins
import Yae.Proofs.ValRelEq
namespace Yae

/-- a stored Go `nil` counts as absent -/
def orDefault (o : Option Val) (d : Val) : Val :=
  match o with
  | some .nil => d
  | some x => x
  | none => d

theorem orDefault_some {v d : Val} (hv : v ≠ .nil) : orDefault (some v) d = v := by
  cases v <;> first | rfl | exact absurd rfl hv

theorem get_map_eq (ext : Externs) (ty : Ty) (es : EntryList) (key dflt : Val) (t : Kind)
    (ks : String) (hk : key.key? = some (t, ks)) :
    applyBuiltin ext .GET_MAP_ANY_ANY [.map ty es, key, dflt] =
      .ok (orDefault (es.find? t ks) dflt, []) := by
  simp only [applyBuiltin, hk]
  generalize es.find? t ks = o
  cases o with
  | none => rfl
  | some v => cases v <;> rfl

theorem isset_map_eq (ext : Externs) (ty : Ty) (es : EntryList) (key : Val) (t : Kind)
    (ks : String) (hk : key.key? = some (t, ks)) :
    applyBuiltin ext .ISSET_MAP_ANY [.map ty es, key] = .ok (.bool (es.find? t ks).isSome, []) := by
  simp only [applyBuiltin, hk]

theorem get_list_eq (ext : Externs) (ty : Ty) (vs : ValList) (i : Float) (dflt : Val) :
    applyBuiltin ext .GET_LIST_NUM_ANY [.list ty vs, .num i, dflt] =
      .ok ((if Num.toInt i < 0 ∨ Num.toInt i ≥ vs.length then dflt
            else orDefault (vs.get? (Num.toInt i).toNat) dflt), []) := by
  simp only [applyBuiltin]
  split
  · next h => simp only [Bool.or_eq_true, decide_eq_true_eq] at h; simp [h]
  · next h =>
    simp only [Bool.or_eq_true, decide_eq_true_eq] at h; simp only [h, if_false]
    generalize vs.get? (Num.toInt i).toNat = o
    cases o with
    | none => rfl
    | some v => cases v <;> rfl

theorem get_maybe_just (ext : Externs) (el : Ty) (x dflt : Val) :
    applyBuiltin ext .GET_MAYBE [.just el x, dflt] = .ok (x, []) := by
  simp only [applyBuiltin]
theorem get_maybe_nothing (ext : Externs) (el : Ty) (dflt : Val) :
    applyBuiltin ext .GET_MAYBE [.nothing el, dflt] = .ok (dflt, []) := by
  simp only [applyBuiltin]

end Yae
