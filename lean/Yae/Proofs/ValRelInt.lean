/-
  C18: `int64(x)` is injective on integral doubles inside the int64 range, except that `+0` and
  `-0` both give `0`.  Hence integral doubles in the int64 range (up to `2^63`, far beyond `2^53`)
  never render alike: this part of "distinct numbers never render alike" needs no assumption.
-/
import Yae.Proofs.NumLemmas
namespace Yae.Num

theorem fracField_toNat (b : UInt64) : fracField b = b.toNat % 2 ^ 52 := by
  unfold fracField
  rw [UInt64.toNat_and]
  have e2 : fracMask.toNat = 2 ^ 52 - 1 := by decide
  rw [e2, Nat.and_two_pow_sub_one_eq_mod]

theorem signBit_iff (b : UInt64) : signBit b = true ↔ 2 ^ 63 ≤ b.toNat := by
  have hlt := b.toNat_lt
  have hb : b = UInt64.ofNat b.toNat := by simp
  by_cases h : b.toNat < 2 ^ 63
  · have := signBit_ofNat_small b.toNat h
    rw [← hb] at this
    simp [this]; omega
  · have := signBit_ofNat_large b.toNat (by omega) hlt
    rw [← hb] at this
    simp [this]; omega

/-- a word is determined by its sign, exponent field and fraction field -/
theorem eq_of_fields (a b : UInt64) (hs : signBit a = signBit b) (he : expField a = expField b)
    (hf : fracField a = fracField b) : a = b := by
  apply UInt64.toNat_inj.mp
  have ha := a.toNat_lt
  have hb := b.toNat_lt
  rw [expField_toNat, expField_toNat] at he
  rw [fracField_toNat, fracField_toNat] at hf
  have hs' : (2 ^ 63 ≤ a.toNat) ↔ (2 ^ 63 ≤ b.toNat) := by
    rw [← signBit_iff, ← signBit_iff, hs]
  omega

/-- if clearing the bits of `m = 2^s - 1` changes nothing, the low `s` bits are zero -/
theorem low_zero_of_and_not (b m : UInt64) (s : Nat) (hm : m.toNat = 2 ^ s - 1)
    (h : b &&& ~~~m = b) : b.toNat % 2 ^ s = 0 := by
  have h0 : b &&& m = 0 := by
    rw [← h, UInt64.and_assoc]
    simp
  have := congrArg UInt64.toNat h0
  rw [UInt64.toNat_and, hm, Nat.and_two_pow_sub_one_eq_mod] at this
  simpa using this


theorem pow_split (a b c : Nat) (h : a + b = c) : (2 : Nat) ^ c = 2 ^ a * 2 ^ b := by
  rw [← h, Nat.pow_add]

theorem shiftNat_nonneg (m : Nat) (E : Nat) (h : 1075 ≤ E) :
    shiftNat m ((E : Int) - 1075) = m * 2 ^ (E - 1075) := by
  have : ((E : Int) - 1075) = ((E - 1075 : Nat) : Int) := by omega
  rw [this]
  show m <<< (E - 1075) = _
  rw [Nat.shiftLeft_eq]

theorem shiftNat_lt (m : Nat) (E : Nat) (h : E < 1075) :
    shiftNat m ((E : Int) - 1075) = m / 2 ^ (1075 - E) := by
  have : ((E : Int) - 1075) = -((1075 - E : Nat) : Int) := by omega
  rw [this, shiftNat_neg, Nat.shiftRight_eq_div_pow]

/-- range check of `toInt64Bits` passes for magnitudes up to `2^63` (only negative for `2^63`) -/
theorem toInt64Bits_eq (b : UInt64) (m : Nat) (hE : expField b ≠ 2047)
    (hm : shiftNat (decompose b).1 (decompose b).2 = m) (h1 : m ≤ 2 ^ 63)
    (h2 : signBit b = false → m < 2 ^ 63) :
    toInt64Bits b = if signBit b then -(m : Int) else (m : Int) := by
  unfold toInt64Bits
  have : (expField b == 2047) = false := by simpa using hE
  simp only [this, hm, minInt64, Bool.false_eq_true, if_false]
  cases hs : signBit b
  · have := h2 hs
    simp
    omega
  · simp
    omega

/-- The shape of an integral double inside the int64 range: zero, or exponent field in
`1023..1086` with `|int64(x)| * 2^52 = (frac + 2^52) * 2^(exp - 1023)` and the sign of the result
equal to the sign bit. -/
theorem isIntBits_cases (b : UInt64) (h : isIntBits b = true) :
    bitsIsZero b = true ∨
    (1023 ≤ expField b ∧ expField b ≤ 1086 ∧
     (toInt64Bits b).natAbs * 2 ^ 52 = (fracField b + 2 ^ 52) * 2 ^ (expField b - 1023) ∧
     ((toInt64Bits b < 0) ↔ signBit b = true)) := by
  unfold isIntBits at h
  simp only [Bool.and_eq_true] at h
  obtain ⟨hint, hrange⟩ := h
  have hB := b.toNat_lt
  have hEdef := expField_toNat b
  have hFdef := fracField_toNat b
  -- range: E ≤ 1086, and E = 1086 only for -2^63
  have hr : expField b ≤ 1086 ∧ (expField b = 1086 → signBit b = true ∧ fracField b = 0) := by
    unfold inInt64RangeBits at hrange
    have e : twoPow63Bits.toNat = 1086 * 2 ^ 52 := by decide
    simp only [magMask_toNat, e] at hrange
    have hr63 : b.toNat % 2 ^ 63 = expField b * 2 ^ 52 + fracField b := by
      rw [hEdef, hFdef]; omega
    have hf52 : fracField b < 2 ^ 52 := by rw [hFdef]; omega
    rw [hr63] at hrange
    cases hs : signBit b <;> simp [hs] at hrange ⊢ <;> omega
  unfold isIntegralBits at hint
  simp only [Bool.and_eq_true, Bool.not_eq_true', beq_iff_eq] at hint
  obtain ⟨hnan, htr⟩ := hint
  unfold truncBits at htr
  by_cases hlow : expField b < 1023
  · -- only the sign bit may be set
    left
    simp only [hlow, if_true] at htr
    have hsm : signMask = ~~~magMask := by decide
    rw [hsm] at htr
    have := low_zero_of_and_not b magMask 63 (by decide) htr
    unfold bitsIsZero
    simp only [beq_iff_eq]
    apply UInt64.toNat_inj.mp
    rw [magMask_toNat, this]; rfl
  · right
    have hE1 : 1023 ≤ expField b := by omega
    refine ⟨hE1, hr.1, ?_⟩
    simp only [hlow, if_false] at htr
    have hD : decompose b = (fracField b + 2 ^ 52, (expField b : Int) - 1075) := by
      unfold decompose
      have : (expField b == 0) = false := by simp; omega
      simp [this]
    have hM1 : 2 ^ 52 ≤ fracField b + 2 ^ 52 := by omega
    have hM2 : fracField b + 2 ^ 52 < 2 ^ 53 := by omega
    generalize hMd : fracField b + 2 ^ 52 = M at *
    -- the magnitude `m` with `m * 2^52 = M * 2^(E - 1023)`
    have hm : ∃ m, shiftNat M ((expField b : Int) - 1075) = m ∧
        m * 2 ^ 52 = M * 2 ^ (expField b - 1023) := by
      by_cases hge : 1075 ≤ expField b
      · refine ⟨_, shiftNat_nonneg M _ hge, ?_⟩
        rw [Nat.mul_assoc, ← pow_split (expField b - 1075) 52 (expField b - 1023) (by omega)]
      · have hlt : expField b < 1075 := by omega
        have hge' : ¬ expField b ≥ 1075 := by omega
        simp only [hge', if_false] at htr
        have e : expField b - 1023 = 52 - (1075 - expField b) := by omega
        rw [e] at htr
        have hz := low_zero_of_and_not b _ (1075 - expField b)
          (fracMask_shift (1075 - expField b) (by omega)) htr
        -- M is divisible by 2^s
        have hdiv : M % 2 ^ (1075 - expField b) = 0 := by
          have hs : 1075 - expField b ≤ 52 := by omega
          have h52 : (2 : Nat) ^ 52 = 2 ^ (1075 - expField b) * 2 ^ (52 - (1075 - expField b)) :=
            pow_split _ _ _ (by omega)
          have hf : fracField b % 2 ^ (1075 - expField b) = 0 := by
            rw [hFdef, h52, Nat.mod_mul_right_mod]; exact hz
          rw [← hMd, Nat.add_mod, hf, h52, Nat.mul_mod_right]
          simp
        refine ⟨_, shiftNat_lt M _ hlt, ?_⟩
        have h52 : (2 : Nat) ^ 52 = 2 ^ (1075 - expField b) * 2 ^ (expField b - 1023) :=
          pow_split _ _ _ (by omega)
        rw [h52, ← Nat.mul_assoc, Nat.div_mul_cancel (Nat.dvd_of_mod_eq_zero hdiv)]
    obtain ⟨m, hsm, hmk⟩ := hm
    -- bounds on m
    have hpos : 0 < m := by
      apply Nat.pos_of_ne_zero
      intro h0
      rw [h0] at hmk
      have : 0 < M * 2 ^ (expField b - 1023) := Nat.mul_pos (by omega) (Nat.pow_pos (by decide))
      omega
    have hbound : m ≤ 2 ^ 63 ∧ (signBit b = false → m < 2 ^ 63) := by
      by_cases h86 : expField b = 1086
      · have := hr.2 h86
        have hM : M = 2 ^ 52 := by omega
        rw [h86, hM] at hmk
        have : m = 2 ^ 63 := by
          have h' : m * 2 ^ 52 = 2 ^ 63 * 2 ^ 52 := by rw [hmk, Nat.mul_comm]
          exact Nat.eq_of_mul_eq_mul_right (by decide) h'
        have hsg := (hr.2 h86).1
        refine ⟨by omega, fun hs => ?_⟩
        rw [hs] at hsg; cases hsg
      · have hk : expField b - 1023 ≤ 62 := by omega
        have h1 : 2 ^ (expField b - 1023) ≤ 2 ^ 62 := Nat.pow_le_pow_right (by decide) hk
        have h2 : M * 2 ^ (expField b - 1023) ≤ M * 2 ^ 62 := Nat.mul_le_mul_left _ h1
        have : m < 2 ^ 63 := by omega
        exact ⟨by omega, fun _ => this⟩
    have hE2047 : expField b ≠ 2047 := by omega
    have hval := toInt64Bits_eq b m hE2047 (by rw [hD]; exact hsm) hbound.1 hbound.2
    rw [hval]
    cases hs : signBit b
    · simp; exact hmk
    · simp; exact ⟨hmk, by omega⟩


theorem normalized_lt (M M' k k' : Nat) (h2 : M < 2 ^ 53) (h1' : 2 ^ 52 ≤ M') (hk : k < k') :
    M * 2 ^ k < M' * 2 ^ k' := by
  have hp : 2 ^ (k + 1) ≤ 2 ^ k' := Nat.pow_le_pow_right (by decide) (by omega)
  rw [Nat.pow_succ] at hp
  have hpos : 0 < 2 ^ k := Nat.pow_pos (by decide)
  have a1 : M * 2 ^ k < 2 ^ 53 * 2 ^ k := Nat.mul_lt_mul_of_pos_right h2 hpos
  have a2 : 2 ^ 52 * 2 ^ k' ≤ M' * 2 ^ k' := Nat.mul_le_mul_right _ h1'
  omega

/-- a normalised mantissa / exponent pair is determined by the value -/
theorem normalized_unique (M M' k k' : Nat) (h1 : 2 ^ 52 ≤ M) (h2 : M < 2 ^ 53)
    (h1' : 2 ^ 52 ≤ M') (h2' : M' < 2 ^ 53) (h : M * 2 ^ k = M' * 2 ^ k') : k = k' ∧ M = M' := by
  have hk : k = k' := by
    apply Decidable.byContradiction
    intro hne
    rcases Nat.lt_or_gt_of_ne hne with hlt | hgt
    · have := normalized_lt M M' k k' h2 h1' hlt; omega
    · have := normalized_lt M' M k' k h2' h1 hgt; omega
  subst hk
  exact ⟨rfl, Nat.eq_of_mul_eq_mul_right (Nat.pow_pos (by decide)) h⟩

theorem toInt64Bits_zero (b : UInt64) (h : bitsIsZero b = true) : toInt64Bits b = 0 := by
  unfold bitsIsZero at h
  simp only [beq_iff_eq] at h
  have h' := congrArg UInt64.toNat h
  rw [magMask_toNat] at h'
  have hlt := b.toNat_lt
  have : b = 0 ∨ b = signMask := by
    have h0 : b.toNat = 0 ∨ b.toNat = 2 ^ 63 := by
      have : (0 : UInt64).toNat = 0 := rfl
      omega
    rcases h0 with h0 | h0
    · left; apply UInt64.toNat_inj.mp; rw [h0]; rfl
    · right; apply UInt64.toNat_inj.mp; rw [h0]; decide
  rcases this with rfl | rfl <;> decide

/-- **`int64(x)` is injective on integral doubles inside the int64 range**, except that `+0` and
`-0` both give `0`. -/
theorem toInt64Bits_injective (a b : UInt64) (ha : isIntBits a = true) (hb : isIntBits b = true)
    (h : toInt64Bits a = toInt64Bits b) :
    a = b ∨ (bitsIsZero a = true ∧ bitsIsZero b = true) := by
  rcases isIntBits_cases a ha with hza | ⟨ha1, _, hav, has⟩ <;>
    rcases isIntBits_cases b hb with hzb | ⟨hb1, _, hbv, hbs⟩
  · exact Or.inr ⟨hza, hzb⟩
  · exfalso
    have hz : toInt64Bits b = 0 := by rw [← h]; exact toInt64Bits_zero a hza
    rw [hz] at hbv
    have : 0 < (fracField b + 2 ^ 52) * 2 ^ (expField b - 1023) :=
      Nat.mul_pos (by omega) (Nat.pow_pos (by decide))
    have h0 : (0 : Int).natAbs * 2 ^ 52 = 0 := by simp
    omega
  · exfalso
    have hz : toInt64Bits a = 0 := by rw [h]; exact toInt64Bits_zero b hzb
    rw [hz] at hav
    have : 0 < (fracField a + 2 ^ 52) * 2 ^ (expField a - 1023) :=
      Nat.mul_pos (by omega) (Nat.pow_pos (by decide))
    have h0 : (0 : Int).natAbs * 2 ^ 52 = 0 := by simp
    omega
  · left
    have hfa : fracField a < 2 ^ 52 := by rw [fracField_toNat]; omega
    have hfb : fracField b < 2 ^ 52 := by rw [fracField_toNat]; omega
    rw [h] at hav has
    have hu := normalized_unique _ _ _ _ (by omega) (by omega) (by omega) (by omega)
      (hav.symm.trans hbv)
    apply eq_of_fields
    · rw [Bool.eq_iff_iff, ← has, ← hbs]
    · omega
    · omega

/-- Integral doubles in the int64 range render apart (no assumption): equal renderings mean
bit-identical, or `+0` / `-0`. -/
theorem renderNumBits_int_injective (a b : UInt64) (ha : isIntBits a = true)
    (hb : isIntBits b = true) (h : renderNumBits a = renderNumBits b) :
    a = b ∨ (bitsIsZero a = true ∧ bitsIsZero b = true) := by
  unfold renderNumBits at h
  rw [ha, hb] at h
  exact toInt64Bits_injective a b ha hb (fmtInt_injective h)

end Yae.Num
