/-
  C13 (value level): two values that differ only in the insertion order of map entries, at any
  depth, have the same rendering and the same `string()` text.
-/
import Yae.Proofs.ValRelEq
namespace Yae

/-- `PermEq x y`: `y` is `x` with the entries of any number of maps inside (at any depth)
re-ordered.  Maps must have pairwise distinct key texts (true of every well-formed map). -/
inductive PermEq : Val → Val → Prop
  | refl (v : Val) : PermEq v v
  | list {ty : Ty} {xs ys : ValList} (hlen : xs.toList.length = ys.toList.length)
      (h : ∀ (i : Nat) v w, xs.toList[i]? = some v → ys.toList[i]? = some w → PermEq v w) :
      PermEq (.list ty xs) (.list ty ys)
  | obj {ty : Ty} {xs ys : ValList} (hlen : xs.toList.length = ys.toList.length)
      (h : ∀ (i : Nat) v w, xs.toList[i]? = some v → ys.toList[i]? = some w → PermEq v w) :
      PermEq (.obj ty xs) (.obj ty ys)
  | just {el : Ty} {v w : Val} (h : PermEq v w) : PermEq (.just el v) (.just el w)
  /-- same keys in the same order with related values (`es₁` / `es₁'`), then a permutation -/
  | map {ty : Ty} {es₁ es₁' es₂ : EntryList} (hnd : es₁.keyTexts.Nodup)
      (hlen : es₁.toList.length = es₁'.toList.length)
      (hk : ∀ (i : Nat) e e', es₁.toList[i]? = some e → es₁'.toList[i]? = some e' →
        e.1 = e'.1 ∧ e.2.1 = e'.2.1)
      (hv : ∀ (i : Nat) e e', es₁.toList[i]? = some e → es₁'.toList[i]? = some e' →
        PermEq e.2.2 e'.2.2)
      (hp : es₁'.toList.Perm es₂.toList) : PermEq (.map ty es₁) (.map ty es₂)

theorem render_obj_congr (ty : Ty) {xs ys : ValList} (h : renderVals xs = renderVals ys) :
    Val.render (.obj ty xs) = Val.render (.obj ty ys) := by
  cases ty <;> simp [Val.render, h]

theorem stringify_obj_congr (ty : Ty) {xs ys : ValList} (h : stringifyVals xs = stringifyVals ys) :
    Val.stringify (.obj ty xs) = Val.stringify (.obj ty ys) := by
  cases ty <;> simp [Val.stringify, h]

theorem PermEq.texts {x y : Val} (h : PermEq x y) :
    x.render = y.render ∧ x.stringify = y.stringify := by
  induction h with
  | refl v => exact ⟨rfl, rfl⟩
  | list hlen _ ih =>
    refine ⟨?_, ?_⟩
    · simp only [Val.render, renderVals_eq]
      rw [map_eq_of_index Val.render _ _ hlen (fun i v w hv hw => (ih i v w hv hw).1)]
    · simp only [Val.stringify, stringifyVals_eq]
      rw [map_eq_of_index Val.stringify _ _ hlen (fun i v w hv hw => (ih i v w hv hw).2)]
  | obj hlen _ ih =>
    refine ⟨render_obj_congr _ ?_, stringify_obj_congr _ ?_⟩
    · rw [renderVals_eq, renderVals_eq]
      exact map_eq_of_index Val.render _ _ hlen (fun i v w hv hw => (ih i v w hv hw).1)
    · rw [stringifyVals_eq, stringifyVals_eq]
      exact map_eq_of_index Val.stringify _ _ hlen (fun i v w hv hw => (ih i v w hv hw).2)
  | just _ ih => simp [Val.render, Val.stringify, ih.1, ih.2]
  | map hnd hlen hk _ hp ih =>
    refine ⟨?_, ?_⟩
    · rw [render_map, render_map, renderEntries_eq, renderEntries_eq]
      rw [map_eq_of_index (fun e : Kind × String × Val => (e.2.1, e.2.2.render)) _ _ hlen
        (fun i e e' he he' => by rw [(hk i e e' he he').2, (ih i e e' he he').1])]
      apply mapText_perm (hp.map _)
      rw [← map_eq_of_index (fun e : Kind × String × Val => (e.2.1, e.2.2.render)) _ _ hlen
        (fun i e e' he he' => by rw [(hk i e e' he he').2, (ih i e e' he he').1])]
      simpa [EntryList.keyTexts, List.map_map, Function.comp_def] using hnd
    · rw [stringify_map, stringify_map, stringifyEntries_eq, stringifyEntries_eq]
      rw [map_eq_of_index (fun e : Kind × String × Val => (e.2.1, e.2.2.stringify)) _ _ hlen
        (fun i e e' he he' => by rw [(hk i e e' he he').2, (ih i e e' he he').2])]
      apply mapText_perm (hp.map _)
      rw [← map_eq_of_index (fun e : Kind × String × Val => (e.2.1, e.2.2.stringify)) _ _ hlen
        (fun i e e' he he' => by rw [(hk i e e' he he').2, (ih i e e' he he').2])]
      simpa [EntryList.keyTexts, List.map_map, Function.comp_def] using hnd

/-- re-ordering the entries of one map is a `PermEq` step -/
theorem PermEq.of_perm {ty : Ty} {es₁ es₂ : EntryList} (hnd : es₁.keyTexts.Nodup)
    (hp : es₁.toList.Perm es₂.toList) : PermEq (.map ty es₁) (.map ty es₂) :=
  PermEq.map hnd rfl
    (fun i e e' he he' => by rw [he] at he'; cases he'; exact ⟨rfl, rfl⟩)
    (fun i e e' he he' => by rw [he] at he'; cases he'; exact PermEq.refl _) hp

end Yae
