/-
  C18 on primitives: `==`, rendering and map-key identity agree on separated numbers, strings and
  booleans; numbers never render alike unless they are bit-identical (or both zero), relative to
  the explicit `FloatFacts`.
-/
import Yae.Proofs.ValRelEq
import Yae.Proofs.ValRelInt
namespace Yae
open Num

/-- Rendering of numbers is injective on bit patterns, except that `+0` and `-0` both give `0`
(and NaN payloads, which `Float.toBits` does not expose). -/
theorem renderNumBits_inj (F : FloatFacts) (a b : UInt64)
    (hnan : bitsIsNaN a = true → bitsIsNaN b = true → a = b)
    (h : renderNumBits a = renderNumBits b) :
    a = b ∨ (bitsIsZero a = true ∧ bitsIsZero b = true) := by
  unfold renderNumBits at h
  cases ha : isIntBits a <;> cases hb : isIntBits b <;> simp only [ha, hb, if_true, if_false,
    Bool.false_eq_true] at h
  · rcases F.fmtFloat_injective a b ha hb h with h' | h'
    · exact Or.inl h'
    · exact Or.inl (hnan h'.1 h'.2)
  · exact absurd h.symm (F.fmtInt_ne_fmtFloat b a hb ha)
  · exact absurd h (F.fmtInt_ne_fmtFloat a b ha hb)
  · exact toInt64Bits_injective a b ha hb (fmtInt_injective h)

theorem renderNum_inj (F : FloatFacts) (x y : Float) (h : renderNum x = renderNum y) :
    x.toBits = y.toBits ∨ (bitsIsZero x.toBits = true ∧ bitsIsZero y.toBits = true) :=
  renderNumBits_inj F _ _ (F.nan_bits_unique x y) h

/-- number, string or boolean -/
def Val.isNSB : Val → Prop
  | .num _ | .str _ | .bool _ => True
  | _ => False

theorem boolText_inj (a b : Bool) :
    (if a then "true" else "false" : String) = (if b then "true" else "false") ↔ a = b := by
  cases a <;> cases b <;> decide

theorem prim_valEq_iff_render (F : FloatFacts) {x y : Val} (hp : x.isNSB) (hs : Sep x y) :
    valEq x y = true ↔ x.render = y.render := by
  cases hs <;> simp only [Val.isNSB] at hp
  case num a b hiff =>
    simp only [valEq, Val.typeOf, tyEq, Bool.true_and, Val.render]
    constructor
    · intro h; simp [renderNum, hiff.1 h]
    · intro h
      rcases renderNum_inj F a b h with h' | h'
      · exact hiff.2 h'
      · exact F.numEQ_zeros a b h'.1 h'.2
  case str a b =>
    simp only [valEq, Val.typeOf, tyEq, Bool.true_and, Val.render, beq_iff_eq]
    exact ⟨fun h => by rw [h], quote_injective⟩
  case bool a b =>
    simp only [valEq, Val.typeOf, tyEq, Bool.true_and, Val.render, beq_iff_eq]
    exact (boolText_inj a b).symm

theorem prim_render_iff_key {x y : Val} (hp : x.isNSB) (hs : Sep x y) :
    x.render = y.render ↔ x.key? = y.key? := by
  cases hs <;> simp only [Val.isNSB] at hp <;> simp [Val.render, Val.key?]

theorem prim_valEq_iff_key (F : FloatFacts) {x y : Val} (hp : x.isNSB) (hs : Sep x y) :
    valEq x y = true ↔ x.key? = y.key? :=
  (prim_valEq_iff_render F hp hs).trans (prim_render_iff_key hp hs)

/-- times: equal instants displayed in the same zone have the same key (the converse needs the
injectivity of the calendar rendering:
`key_eq_iff_valEq` in `Yae/Proofs/ValRelTextCor.lean`) -/
theorem time_valEq_imp_key {a b : TimeV} (hs : Sep (.time a) (.time b))
    (h : valEq (.time a) (.time b) = true) : (Val.time a).key? = (Val.time b).key? := by
  cases hs with
  | time hz =>
    simp only [valEq, Val.typeOf, tyEq, Bool.true_and] at h
    have hz := hz h
    simp only [TimeV.equal, Bool.and_eq_true, beq_iff_eq] at h
    have : a = b := by cases a; cases b; simp_all
    rw [this]

/-- selecting a map entry: separated keys that are `==` find the same entry, and conversely -/
theorem find?_key_congr (F : FloatFacts) {x y : Val} (hp : x.isNSB) (hs : Sep x y)
    (t : Kind) (k : String) (hx : x.key? = some (t, k)) :
    valEq x y = true ↔ y.key? = some (t, k) := by
  rw [prim_valEq_iff_key F hp hs, hx]
  exact eq_comm

end Yae
