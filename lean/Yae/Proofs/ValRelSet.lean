/-
  C04 / C18: the set functions of `fun/list.go` (`valSetOf`, `union`, `intersect`, `diff`):
  membership is by rendering, results are duplicate free by rendering, first-occurrence order is
  preserved.  Pure list lemmas.
-/
import Yae.Model.Builtins
import Yae.Proofs.ValRel
namespace Yae

/-- the renderings of a list of values -/
def renders (l : List Val) : List String := l.map Val.render

theorem filter_eraseDups {α : Type} [BEq α] [LawfulBEq α] (p : α → Bool) :
    ∀ (n : Nat) (l : List α), l.length ≤ n → (l.filter p).eraseDups = l.eraseDups.filter p
  | _, [], _ => by simp
  | 0, _ :: _, h => by simp at h
  | n+1, a :: l, h => by
    have hlen : (l.filter fun b => !b == a).length ≤ n :=
      Nat.le_trans (List.length_filter_le _ _) (by simpa using h)
    have ih := filter_eraseDups p n (l.filter fun b => !b == a) hlen
    rw [List.eraseDups_cons]
    by_cases hp : p a = true
    · simp only [List.filter_cons, hp, if_true, List.eraseDups_cons]
      rw [← ih, List.filter_filter, List.filter_filter]
      congr 2
      apply List.filter_congr
      intro b _; exact Bool.and_comm _ _
    · simp only [List.filter_cons, hp]
      rw [← ih, List.filter_filter]
      simp only [Bool.false_eq_true, if_false]
      congr 1
      apply List.filter_congr
      intro b _
      by_cases hb : p b = true
      · have : (b == a) = false := by
          cases hba : b == a with
          | false => rfl
          | true => rw [eq_of_beq hba] at hb; exact absurd hb hp
        simp [hb, this]
      · simp [hb]

/-! ### `valSetOf` -/

/-- the hash stored with a value is its rendering -/
theorem valSetOf_fst : ∀ (xs : ValList), ∀ e ∈ valSetOf xs, e.1 = e.2.render
  | .nil => by simp [valSetOf]
  | .cons x xs => by
    intro e he
    simp only [valSetOf, List.mem_cons, List.mem_filter] at he
    rcases he with he | he
    · rw [he]
    · exact valSetOf_fst xs e he.1

/-- the hashes of `valSetOf xs` are the renderings of `xs` with later duplicates removed
(`List.eraseDups` keeps first occurrences, in order) -/
theorem valSetOf_keys : ∀ xs : ValList,
    (valSetOf xs).map Prod.fst = (renders xs.toList).eraseDups
  | .nil => by simp [valSetOf, renders, ValList.toList]
  | .cons x xs => by
    simp only [valSetOf, renders, ValList.toList, List.map_cons, List.eraseDups_cons]
    congr 1
    rw [filter_eraseDups _ _ _ (Nat.le_refl _), ← renders, ← valSetOf_keys xs, List.filter_map]
    rfl

theorem eraseDups_nodup {α : Type} [BEq α] [LawfulBEq α] :
    ∀ (n : Nat) (l : List α), l.length ≤ n → l.eraseDups.Nodup
  | _, [], _ => by simp
  | 0, _ :: _, h => by simp at h
  | n+1, a :: l, h => by
    rw [List.eraseDups_cons, List.nodup_cons]
    have hlen : (l.filter fun b => !b == a).length ≤ n :=
      Nat.le_trans (List.length_filter_le _ _) (by simpa using h)
    refine ⟨?_, eraseDups_nodup n _ hlen⟩
    rw [filter_eraseDups _ _ _ (Nat.le_refl _)]
    simp

theorem mem_eraseDups {α : Type} [BEq α] [LawfulBEq α] (x : α) :
    ∀ (n : Nat) (l : List α), l.length ≤ n → (x ∈ l.eraseDups ↔ x ∈ l)
  | _, [], _ => by simp
  | 0, _ :: _, h => by simp at h
  | n+1, a :: l, h => by
    have hlen : (l.filter fun b => !b == a).length ≤ n :=
      Nat.le_trans (List.length_filter_le _ _) (by simpa using h)
    rw [List.eraseDups_cons, List.mem_cons, List.mem_cons, mem_eraseDups x n _ hlen,
      List.mem_filter]
    by_cases hxa : x = a <;> simp [hxa]

/-- no two elements of `valSetOf xs` render alike -/
theorem valSetOf_nodup (xs : ValList) : ((valSetOf xs).map Prod.fst).Nodup := by
  rw [valSetOf_keys]; exact eraseDups_nodup _ _ (Nat.le_refl _)

/-- a rendering is in the set iff some element of the list has it -/
theorem mem_valSetOf_keys (xs : ValList) (h : String) :
    h ∈ (valSetOf xs).map Prod.fst ↔ ∃ v ∈ xs.toList, v.render = h := by
  rw [valSetOf_keys, mem_eraseDups _ _ _ (Nat.le_refl _)]
  simp [renders]

theorem setHas_iff (s : List (String × Val)) (h : String) :
    setHas s h = true ↔ h ∈ s.map Prod.fst := by
  simp only [setHas, List.any_eq_true, beq_iff_eq, List.mem_map]

/-- the element kept for a rendering is the first element of the list with that rendering -/
theorem setGet_valSetOf : ∀ (xs : ValList) (h : String),
    setGet (valSetOf xs) h = xs.toList.find? (fun v => v.render == h)
  | .nil, h => by simp [valSetOf, setGet, ValList.toList]
  | .cons x xs, h => by
    have ih := setGet_valSetOf xs h
    simp only [setGet] at ih
    simp only [valSetOf, setGet, ValList.toList, List.find?_cons]
    by_cases hx : x.render = h
    · simp [hx]
    · have hx' : (x.render == h) = false := by simpa using hx
      simp only [hx']
      rw [← ih]
      congr 1
      -- the filter only removes entries whose hash is `x.render ≠ h`
      generalize valSetOf xs = s
      induction s with
      | nil => rfl
      | cons e s ihs =>
        simp only [List.filter_cons]
        by_cases he : e.1 = x.render
        · have : (e.1 == h) = false := by rw [he]; exact hx'
          simp only [he, bne_self_eq_false, Bool.false_eq_true, if_false, List.find?_cons]
          rw [he] at this
          simp only [this]
          exact ihs
        · have he' : (e.1 != x.render) = true := by simpa using he
          simp only [he', if_true, List.find?_cons]
          split
          · rfl
          · exact ihs

/-! ### union / intersect / diff on sets -/

/-- what the set functions may assume about their operands -/
structure IsValSet (s : List (String × Val)) : Prop where
  nodup : (s.map Prod.fst).Nodup
  hash : ∀ e ∈ s, e.1 = e.2.render

theorem isValSet_valSetOf (xs : ValList) : IsValSet (valSetOf xs) :=
  ⟨valSetOf_nodup xs, valSetOf_fst xs⟩

theorem IsValSet.renders_eq {s : List (String × Val)} (hs : IsValSet s) :
    renders (s.map Prod.snd) = s.map Prod.fst := by
  simp only [renders, List.map_map]
  apply List.map_congr_left
  intro e he; exact (hs.hash e he).symm

theorem IsValSet.filter {s : List (String × Val)} (hs : IsValSet s) (p : String × Val → Bool) :
    IsValSet (s.filter p) :=
  ⟨(List.filter_sublist.map _).nodup hs.nodup, fun e he => hs.hash e (List.mem_filter.1 he).1⟩

theorem setGet_some {s : List (String × Val)} {h : String} {v : Val}
    (hg : setGet s h = some v) : (h, v) ∈ s := by
  simp only [setGet, Option.map_eq_some_iff] at hg
  obtain ⟨e, he, rfl⟩ := hg
  have := List.find?_some he
  have hm := List.mem_of_find?_eq_some he
  simp only [beq_iff_eq] at this
  rw [← this]; exact hm

theorem setGet_isSome (s : List (String × Val)) (h : String) :
    (setGet s h).isSome = setHas s h := by
  simp only [setGet, setHas, Option.isSome_map]
  induction s with
  | nil => rfl
  | cons e s ih => simp only [List.find?_cons, List.any_cons]; cases e.1 == h <;> simp [ih]

/-- renderings of the union: those of `x`, then those of `y` not in `x` -/
theorem renders_setUnion {x y : List (String × Val)} (hx : IsValSet x) (hy : IsValSet y) :
    renders (setUnion x y) =
      x.map Prod.fst ++ (y.map Prod.fst).filter (fun h => !setHas x h) := by
  simp only [setUnion, renders, List.map_append]
  have h1 := hx.renders_eq
  have h2 := (hy.filter fun e => !setHas x e.1).renders_eq
  simp only [renders] at h1 h2
  rw [h1, h2, List.filter_map]
  rfl

/-- renderings of the intersection: those of `x` that are in `y`, in the order of `x`
(the values themselves are taken from `y`) -/
theorem renders_setIntersect {x y : List (String × Val)} (hy : IsValSet y) :
    renders (setIntersect x y) = (x.map Prod.fst).filter (fun h => setHas y h) := by
  simp only [setIntersect, renders]
  induction x with
  | nil => rfl
  | cons e x ih =>
    simp only [List.filterMap_cons, List.map_cons, List.filter_cons]
    cases hg : setGet y e.1 with
    | none =>
      have : setHas y e.1 = false := by rw [← setGet_isSome, hg]; rfl
      simp [this, ih]
    | some v =>
      have : setHas y e.1 = true := by rw [← setGet_isSome, hg]; rfl
      have hv : v.render = e.1 := (hy.hash _ (setGet_some hg)).symm
      simp [this, ih, hv]

/-- renderings of the difference: those of `x` that are not in `y`, in the order of `x` -/
theorem renders_setDiff {x y : List (String × Val)} (hx : IsValSet x) :
    renders (setDiff x y) = (x.map Prod.fst).filter (fun h => !setHas y h) := by
  simp only [setDiff]
  rw [(hx.filter fun e => !setHas y e.1).renders_eq, List.filter_map]
  rfl

theorem nodup_setUnion {x y : List (String × Val)} (hx : IsValSet x) (hy : IsValSet y) :
    (renders (setUnion x y)).Nodup := by
  rw [renders_setUnion hx hy, List.nodup_append]
  refine ⟨hx.nodup, List.filter_sublist.nodup hy.nodup, ?_⟩
  intro a ha b hb hab
  rw [List.mem_filter] at hb
  have := (setHas_iff x b).2 (hab ▸ ha)
  simp [this] at hb

theorem nodup_setIntersect {x y : List (String × Val)} (hx : IsValSet x) (hy : IsValSet y) :
    (renders (setIntersect x y)).Nodup := by
  rw [renders_setIntersect hy]; exact List.filter_sublist.nodup hx.nodup

theorem nodup_setDiff {x y : List (String × Val)} (hx : IsValSet x) :
    (renders (setDiff x y)).Nodup := by
  rw [renders_setDiff hx]; exact List.filter_sublist.nodup hx.nodup


/-! ### the three built-ins on lists -/

theorem setHas_valSetOf (xs : ValList) (h : String) :
    setHas (valSetOf xs) h = decide (h ∈ renders xs.toList) := by
  rw [Bool.eq_iff_iff, setHas_iff, mem_valSetOf_keys]
  simp [renders]

/-- `union(xs, ys)`: the distinct renderings of `xs` in first-occurrence order, then the distinct
renderings of `ys` that do not occur in `xs`, in first-occurrence order. -/
theorem renders_union (xs ys : ValList) :
    renders (setUnion (valSetOf xs) (valSetOf ys)) =
      (renders xs.toList).eraseDups ++
        (renders ys.toList).eraseDups.filter (fun h => decide (h ∉ renders xs.toList)) := by
  rw [renders_setUnion (isValSet_valSetOf xs) (isValSet_valSetOf ys), valSetOf_keys, valSetOf_keys]
  congr 1
  apply List.filter_congr
  intro h _; rw [setHas_valSetOf]; simp

/-- `intersect(xs, ys)`: the distinct renderings of `xs` that occur in `ys`, in the
first-occurrence order of `xs`. -/
theorem renders_intersect (xs ys : ValList) :
    renders (setIntersect (valSetOf xs) (valSetOf ys)) =
      (renders xs.toList).eraseDups.filter (fun h => decide (h ∈ renders ys.toList)) := by
  rw [renders_setIntersect (isValSet_valSetOf ys), valSetOf_keys]
  apply List.filter_congr
  intro h _; rw [setHas_valSetOf]

/-- `diff(xs, ys)`: the distinct renderings of `xs` that do not occur in `ys`, in the
first-occurrence order of `xs`. -/
theorem renders_diff (xs ys : ValList) :
    renders (setDiff (valSetOf xs) (valSetOf ys)) =
      (renders xs.toList).eraseDups.filter (fun h => decide (h ∉ renders ys.toList)) := by
  rw [renders_setDiff (isValSet_valSetOf xs), valSetOf_keys]
  apply List.filter_congr
  intro h _; rw [setHas_valSetOf]; simp

theorem mem_renders_union (xs ys : ValList) (h : String) :
    h ∈ renders (setUnion (valSetOf xs) (valSetOf ys)) ↔
      h ∈ renders xs.toList ∨ h ∈ renders ys.toList := by
  rw [renders_union, List.mem_append, List.mem_filter, mem_eraseDups _ _ _ (Nat.le_refl _),
    mem_eraseDups _ _ _ (Nat.le_refl _)]
  by_cases hx : h ∈ renders xs.toList <;> simp [hx]

theorem mem_renders_intersect (xs ys : ValList) (h : String) :
    h ∈ renders (setIntersect (valSetOf xs) (valSetOf ys)) ↔
      h ∈ renders xs.toList ∧ h ∈ renders ys.toList := by
  rw [renders_intersect, List.mem_filter, mem_eraseDups _ _ _ (Nat.le_refl _)]
  simp

theorem mem_renders_diff (xs ys : ValList) (h : String) :
    h ∈ renders (setDiff (valSetOf xs) (valSetOf ys)) ↔
      h ∈ renders xs.toList ∧ h ∉ renders ys.toList := by
  rw [renders_diff, List.mem_filter, mem_eraseDups _ _ _ (Nat.le_refl _)]
  simp

/-- the value kept by `intersect` for a rendering is the first such element of the RIGHT list,
the values kept by `union` / `diff` come from the first occurrence in their own list -/
theorem setIntersect_eq (xs ys : ValList) :
    setIntersect (valSetOf xs) (valSetOf ys) =
      (valSetOf xs).filterMap fun e => ys.toList.find? (fun v => v.render == e.1) := by
  simp only [setIntersect]
  congr 1
  funext e
  exact setGet_valSetOf ys e.1

end Yae
