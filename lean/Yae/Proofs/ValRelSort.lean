/-
  Lemmas for C13 / C18 ("rendering is canonical"): the stable insertion sort `sortBy` used by
  `Val.render` / `Val.stringify` returns the same list for any two permutations of a list whose
  sort keys (`String`, ordered by `<`) are pairwise distinct.
-/
import Yae.Model.Val
namespace Yae

variable {α : Type}

theorem String.le_of_lt' {a b : String} (h : a < b) : a ≤ b := String.not_lt.1 (String.lt_asymm h)

theorem String.lt_of_le_of_ne' {a b : String} (h : a ≤ b) (hne : a ≠ b) : a < b :=
  Classical.byContradiction fun hn => hne (String.le_antisymm h (String.not_lt.1 hn))

theorem insertBy_perm (lt : α → α → Bool) (x : α) : ∀ l : List α, (insertBy lt x l).Perm (x :: l)
  | [] => List.Perm.refl _
  | y :: ys => by
    simp only [insertBy]
    split
    · exact List.Perm.refl _
    · exact ((insertBy_perm lt x ys).cons y).trans (List.Perm.swap x y ys)

theorem sortBy_perm (lt : α → α → Bool) : ∀ l : List α, (sortBy lt l).Perm l
  | [] => List.Perm.refl _
  | x :: xs => by
    show (insertBy lt x (sortBy lt xs)).Perm (x :: xs)
    exact (insertBy_perm lt x _).trans ((sortBy_perm lt xs).cons x)

theorem mem_insertBy (lt : α → α → Bool) (x : α) (l : List α) (a : α) :
    a ∈ insertBy lt x l ↔ a = x ∨ a ∈ l := by
  rw [(insertBy_perm lt x l).mem_iff]; simp

theorem mem_sortBy (lt : α → α → Bool) (l : List α) (a : α) : a ∈ sortBy lt l ↔ a ∈ l :=
  (sortBy_perm lt l).mem_iff

theorem length_sortBy (lt : α → α → Bool) (l : List α) : (sortBy lt l).length = l.length :=
  (sortBy_perm lt l).length_eq

/-- the comparison `render` sorts with: by a `String` key -/
abbrev ltKey (key : α → String) : α → α → Bool := fun a b => decide (key a < key b)

theorem insertBy_sorted (key : α → String) (x : α) : ∀ l : List α,
    l.Pairwise (fun a b => key a ≤ key b) →
    (insertBy (ltKey key) x l).Pairwise (fun a b => key a ≤ key b)
  | [], _ => by simp [insertBy]
  | y :: ys, h => by
    simp only [insertBy]
    have hy := List.pairwise_cons.1 h
    split
    · next hlt =>
      have hlt : key x < key y := by simpa [ltKey] using hlt
      refine List.pairwise_cons.2 ⟨?_, h⟩
      intro a ha
      rcases List.mem_cons.1 ha with rfl | ha
      · exact String.le_of_lt' hlt
      · exact String.le_trans (String.le_of_lt' hlt) (hy.1 a ha)
    · next hlt =>
      have hle : key y ≤ key x := by
        have : ¬ key x < key y := by simpa [ltKey] using hlt
        exact String.not_lt.1 this
      refine List.pairwise_cons.2 ⟨?_, insertBy_sorted key x ys hy.2⟩
      intro a ha
      rcases (mem_insertBy _ x ys a).1 ha with rfl | ha
      · exact hle
      · exact hy.1 a ha

theorem sortBy_sorted (key : α → String) : ∀ l : List α,
    (sortBy (ltKey key) l).Pairwise (fun a b => key a ≤ key b)
  | [] => by simp [sortBy]
  | x :: xs => by
    show (insertBy (ltKey key) x (sortBy (ltKey key) xs)).Pairwise _
    exact insertBy_sorted key x _ (sortBy_sorted key xs)

theorem eq_of_nodup_map {β : Type} (f : α → β) : ∀ (l : List α), (l.map f).Nodup →
    ∀ a b, a ∈ l → b ∈ l → f a = f b → a = b
  | [], _, a, _, ha, _, _ => by cases ha
  | x :: xs, h, a, b, ha, hb, hab => by
    simp only [List.map_cons, List.nodup_cons, List.mem_map, not_exists, not_and] at h
    rcases List.mem_cons.1 ha with ha1 | ha1 <;> rcases List.mem_cons.1 hb with hb1 | hb1
    · rw [ha1, hb1]
    · rw [ha1] at hab; exact absurd hab.symm (h.1 b hb1)
    · rw [hb1] at hab; exact absurd hab (h.1 a ha1)
    · exact eq_of_nodup_map f xs h.2 a b ha1 hb1 hab

/-- **Canonical order.**  Sorting two permutations of a list with pairwise distinct keys gives the
same list. -/
theorem sortBy_eq_of_perm (key : α → String) {l₁ l₂ : List α} (hp : l₁.Perm l₂)
    (hnd : (l₁.map key).Nodup) : sortBy (ltKey key) l₁ = sortBy (ltKey key) l₂ := by
  refine List.Perm.eq_of_pairwise (le := fun a b => key a ≤ key b) ?_
    (sortBy_sorted key l₁) (sortBy_sorted key l₂)
    ((sortBy_perm _ l₁).trans (hp.trans (sortBy_perm _ l₂).symm))
  intro a b ha hb h1 h2
  have ha' : a ∈ l₁ := (mem_sortBy _ _ _).1 ha
  have hb' : b ∈ l₁ := hp.mem_iff.2 ((mem_sortBy _ _ _).1 hb)
  exact eq_of_nodup_map key l₁ hnd a b ha' hb' (String.le_antisymm h1 h2)

/-- the sorted list is strictly increasing when the keys are distinct -/
theorem sortBy_strict (key : α → String) (l : List α) (hnd : (l.map key).Nodup) :
    (sortBy (ltKey key) l).Pairwise (fun a b => key a < key b) := by
  have hs := sortBy_sorted key l
  have hnd' : ((sortBy (ltKey key) l).map key).Nodup :=
    ((sortBy_perm (ltKey key) l).map key).nodup_iff.2 hnd
  rw [List.Nodup, List.pairwise_map] at hnd'
  refine (hs.and hnd').imp ?_
  intro a b h
  exact String.lt_of_le_of_ne' h.1 h.2

end Yae
