/-
  C18, "same text ⇒ `==`": the rendering grammar is unambiguous on values of equal type.

  `text_unique`: for good (`Val.Good`) values `x`, `y` of `tyEq` types that are separated (`Sep`),
  if `x.render` followed by a stop character (or nothing) equals `y.render` followed by a stop
  character (or nothing), then `x == y` and the two rests agree.  By induction on `x`: the types
  tell which fields / which kind of key to expect, the stop characters tell where a number ends,
  quoted strings are self-delimiting.
-/
import Yae.Proofs.ValRelTextBase
namespace Yae

/-- every number inside satisfies `N` -/
def Val.LocalNums (N : Float → Prop) : Val → Prop
  | .num a => N a
  | _ => True
def Val.NumsSat (N : Float → Prop) (v : Val) : Prop := v.All (Val.LocalNums N)

/-- what is needed of a number `a`: among the numbers separated from it, only those within
tolerance render like it -/
def NumTextInj (a : Float) : Prop :=
  ∀ b : Float, (numEQ a b = true ↔ a.toBits = b.toBits) → Num.renderNum a = Num.renderNum b →
    numEQ a b = true

/-- the statement proved by induction on `x` (`N`: what is known of the numbers inside `x`) -/
def TextUnique (N : Float → Prop) (x : Val) : Prop :=
  ∀ y : Val, x.Good → x.NumsSat N → y.Good → tyEq x.typeOf y.typeOf = true → Sep x y →
    ∀ s s' : List Char, Term stopV s → Term stopV s' → R x ++ s = R y ++ s' →
      valEq x y = true ∧ s = s'

theorem getElem?_map_fst {α β : Type} {l : List (α × β)} {i : Nat} {p : α × β}
    (h : l[i]? = some p) : (l.map Prod.fst)[i]? = some p.1 := by
  rw [List.getElem?_map, h]; rfl

theorem numTextInj_of_floatFacts (F : FloatFacts) (a : Float) : NumTextInj a := by
  intro b hiff h
  have := (prim_valEq_iff_render F (x := .num a) trivial (Sep.num hiff)).2
    (by simpa [Val.render] using h)
  simpa [valEq, Val.typeOf, tyEq] using this

theorem textUnique_num {N : Float → Prop} (hN : ∀ a, N a → NumTextInj a) (a : Float) :
    TextUnique N (.num a) := by
  intro y _ hn _ _ hs s s' ht ht' h
  cases hs with
  | @num _ b hiff =>
    rw [R_num, R_num] at h
    obtain ⟨h1, h2⟩ := prefix_unique stopV _ _ _ _
      (fun c hc => (numChar_not_stop (renderNum_numChar a c hc)).1)
      (fun c hc => (numChar_not_stop (renderNum_numChar b c hc)).1) ht ht' h
    refine ⟨?_, h2⟩
    have hna : N a := by simpa [Val.NumsSat, Val.All, Val.LocalNums] using hn
    simp only [valEq, Val.typeOf, tyEq, Bool.true_and]
    exact hN a hna b hiff (String.toList_inj.1 h1)

theorem textUnique_str {N : Float → Prop} (a : String) : TextUnique N (.str a) := by
  intro y _ _ _ _ hs s s' _ _ h
  cases hs with
  | str _ b =>
    rw [R_str, R_str] at h
    obtain ⟨h1, h2⟩ := quote_prefix_unique a b s s' h
    exact ⟨by simp [valEq, Val.typeOf, tyEq, h1], h2⟩

theorem textUnique_bool {N : Float → Prop} (a : Bool) : TextUnique N (.bool a) := by
  intro y _ _ _ _ hs s s' ht ht' h
  cases hs with
  | bool _ b =>
    rw [R_bool, R_bool] at h
    obtain ⟨h1, h2⟩ := prefix_unique stopV _ _ _ _ (fun c hc => (boolText_chars a c hc).1)
      (fun c hc => (boolText_chars b c hc).1) ht ht' h
    have : a = b := (boolText_inj a b).1 (String.toList_inj.1 h1)
    exact ⟨by simp [valEq, Val.typeOf, tyEq, this], h2⟩

theorem textUnique_time {N : Float → Prop} (TT : TimeText) (a : TimeV) :
    TextUnique N (.time a) := by
  intro y hx _ hy _ hs s s' ht ht' h
  cases hs with
  | @time _ b _ =>
    have hoa : a.TextOK := (Val.All.self hx).2.2
    have hob : b.TextOK := (Val.All.self hy).2.2
    rw [R_time, R_time] at h
    obtain ⟨h1, h2⟩ := prefix_unique stopV _ _ _ _ (TT.chars a hoa) (TT.chars b hob) ht ht' h
    refine ⟨?_, h2⟩
    simp only [valEq, Val.typeOf, tyEq, Bool.true_and]
    exact TT.inj a b hoa hob (String.toList_inj.1 h1)

theorem textUnique_nothing {N : Float → Prop} (el : Ty) : TextUnique N (.nothing el) := by
  intro y _ _ _ hty hs s s' _ _ h
  cases hs with
  | @nothing _ eb hr =>
    have hty' : tyEq el eb = true := by simpa [Val.typeOf, tyEq] using hty
    rw [R_nothing, R_nothing, hr hty'] at h
    simp only [List.append_assoc] at h
    have h2 := List.append_cancel_left (List.append_cancel_left (List.append_cancel_left h))
    exact ⟨by simp [valEq, Val.typeOf, tyEq, hty'], h2⟩

theorem textUnique_just {N : Float → Prop} (el : Ty) (v : Val) (ih : TextUnique N v) :
    TextUnique N (.just el v) := by
  intro y hx hn hy hty hs s s' ht ht' h
  cases hs with
  | @just _ eb _ w hr hs' =>
    have hty' : tyEq el eb = true := by simpa [Val.typeOf, tyEq] using hty
    have hx' := Val.all_just.1 hx
    have hy' := Val.all_just.1 hy
    rw [R_just, R_just, hr hty'] at h
    simp only [List.append_assoc, List.cons_append, List.nil_append] at h
    have h2 := List.append_cancel_left (List.append_cancel_left h)
    simp only [List.cons.injEq, true_and] at h2
    have hwel : el.wf = true := hx'.1.1
    have hweb : eb.wf = true := hy'.1.1
    have htv : tyEq v.typeOf el = true := hx'.1.2.1
    have htw : tyEq w.typeOf eb = true := hy'.1.2.1
    have htvw := tyEq_via (Val.Good.wf hx'.2).typeOf_wf (Val.Good.wf hy'.2).typeOf_wf hwel hweb
      htv hty' htw
    obtain ⟨he, hs2⟩ := ih w hx'.2 (Val.all_just.1 hn).2 hy'.2 htvw hs' _ _ (Term.cons (by decide) s)
      (Term.cons (by decide) s') h2
    refine ⟨?_, by simpa using hs2⟩
    rw [valEq_just, hty', he]; rfl

theorem textUnique_list {N : Float → Prop} (TT : TimeText) (tx : Ty) (xs : ValList)
    (ih : ∀ v ∈ xs.toList, TextUnique N v) : TextUnique N (.list tx xs) := by
  intro y hx hn hy hty hs s s' ht ht' h
  cases hs with
  | @list _ ty _ ys hs' =>
    have hx' := Val.all_list.1 hx
    have hy' := Val.all_list.1 hy
    obtain ⟨⟨hwx, ex, rfl⟩, htyx, _⟩ := hx'.1
    obtain ⟨⟨hwy, ey, rfl⟩, htyy, _⟩ := hy'.1
    have hee : tyEq ex ey = true := by simpa [Val.typeOf, tyEq] using hty
    have hwex : ex.wf = true := by simpa [Ty.wf] using hwx
    have hwey : ey.wf = true := by simpa [Ty.wf] using hwy
    rw [R_list, R_list] at h
    obtain ⟨hl, hr, hs2⟩ := seq_unique R R (fun v w => valEq v w = true) '[' ']' (by decide)
      (by decide) xs.toList ys.toList s s'
      (Or.inr ⟨fun v hv t hh => by
          obtain ⟨c, hc, hcs⟩ := R_head TT (Val.All.self (hx'.2 v hv)).1
            (Val.All.self (hx'.2 v hv)).2.2 t
          rw [hc] at hh; cases hh; exact absurd hcs (by decide),
        fun v hv t hh => by
          obtain ⟨c, hc, hcs⟩ := R_head TT (Val.All.self (hy'.2 v hv)).1
            (Val.All.self (hy'.2 v hv)).2.2 t
          rw [hc] at hh; cases hh; exact absurd hcs (by decide)⟩)
      (fun i v w hv hw t t' htt htt' he => by
        have hvm : v ∈ xs.toList := List.mem_of_getElem? hv
        have hwm : w ∈ ys.toList := List.mem_of_getElem? hw
        have htvw := tyEq_via (Val.Good.wf (hx'.2 v hvm)).typeOf_wf
          (Val.Good.wf (hy'.2 w hwm)).typeOf_wf hwex hwey (htyx ex rfl v hvm) hee
          (htyy ey rfl w hwm)
        exact ih v hvm w (hx'.2 v hvm) ((Val.all_list.1 hn).2 v hvm) (hy'.2 w hwm) htvw
          (hs' i v w hv hw) t t' htt htt' he) h
    refine ⟨?_, hs2⟩
    rw [valEq_list]
    simp only [Bool.and_eq_true, beq_iff_eq]
    refine ⟨hty, ?_, (valEqList_iff xs ys).2 ⟨hl, hr⟩⟩
    rw [← ValList.length_toList, ← ValList.length_toList]; exact hl

theorem textUnique_map {N : Float → Prop} (tx : Ty) (xs : EntryList)
    (ih : ∀ e ∈ xs.toList, TextUnique N e.2.2) : TextUnique N (.map tx xs) := by
  intro y hx hn hy hty hs s s' ht ht' h
  cases hs with
  | @map _ ty _ ys hs' =>
    have hx' := Val.all_map.1 hx
    have hy' := Val.all_map.1 hy
    obtain ⟨⟨hwx, hndx, kx, vx, rfl, htagx⟩, htyx, hkx⟩ := hx'.1
    obtain ⟨⟨hwy, hndy, ky, vy, rfl, htagy⟩, htyy, hky⟩ := hy'.1
    have hkv : tyEq kx ky = true ∧ tyEq vx vy = true := by
      simpa [Val.typeOf, tyEq] using hty
    have hkind : kx.kind = ky.kind := tyEq_kind_eq' hkv.1
    have hwvx : vx.wf = true := by
      simp only [Ty.wf, Bool.and_eq_true] at hwx; exact hwx.2
    have hwvy : vy.wf = true := by
      simp only [Ty.wf, Bool.and_eq_true] at hwy; exact hwy.2
    -- the item-wise hypothesis
    have H : ∀ (i : Nat) e e', (sortE xs)[i]? = some e → (sortE ys)[i]? = some e' →
        ∀ t t', Term stopV t → Term stopV t' → entryText e ++ t = entryText e' ++ t' →
        (e.2.1 = e'.2.1 ∧ valEq e.2.2 e'.2.2 = true) ∧ t = t' := by
      intro i e e' he he' t t' htt htt' hh
      have hem : e ∈ xs.toList := mem_sortE.1 (List.mem_of_getElem? he)
      have hem' : e' ∈ ys.toList := mem_sortE.1 (List.mem_of_getElem? he')
      have htag : e'.1 = e.1 := by rw [htagx e hem, htagy e' hem', hkind]
      have hg : KeyGenuine e.1 e.2.1 := hkx e hem
      have hg' : KeyGenuine e.1 e'.2.1 := by rw [← htag]; exact hky e' hem'
      simp only [entryText, List.append_assoc, List.cons_append] at hh
      obtain ⟨hk, hrest⟩ := key_prefix_unique hg hg' _ _ hh
      simp only [List.cons.injEq, true_and] at hrest
      have hfx : xs.find? e.1 e.2.1 = some e.2.2 :=
        EntryList.mem_find?_of_nodup xs e.1 e.2.1 e.2.2 hndx hem
      have hfy : ys.find? e.1 e.2.1 = some e'.2.2 := by
        rw [← htag, hk]; exact EntryList.mem_find?_of_nodup ys e'.1 e'.2.1 e'.2.2 hndy hem'
      have htvw := tyEq_via (Val.Good.wf (hx'.2 e hem)).typeOf_wf
        (Val.Good.wf (hy'.2 e' hem')).typeOf_wf hwvx hwvy (htyx kx vx rfl e hem) hkv.2
        (htyy ky vy rfl e' hem')
      obtain ⟨hv, ht2⟩ := ih e hem e'.2.2 (hx'.2 e hem) ((Val.all_map.1 hn).2 e hem)
        (hy'.2 e' hem') htvw
        (hs' _ _ _ _ hfx hfy) t t' htt htt' hrest
      exact ⟨⟨hk, hv⟩, ht2⟩
    -- conclusion from the item-wise relation
    have concl : (sortE xs).length = (sortE ys).length →
        (∀ (i : Nat) e e', (sortE xs)[i]? = some e → (sortE ys)[i]? = some e' →
          e.2.1 = e'.2.1 ∧ valEq e.2.2 e'.2.2 = true) →
        valEq (.map (.map kx vx) xs) (.map (.map ky vy) ys) = true := by
      intro hl hr
      rw [valEq_map]
      simp only [Bool.and_eq_true, beq_iff_eq]
      refine ⟨hty, by rw [← length_sortE, ← length_sortE]; exact hl, ?_⟩
      rw [valEqEntries_iff]
      intro e hem
      obtain ⟨e', hem', hk, hv⟩ := exists_of_indexwise hl hr e (mem_sortE.2 hem)
      have hem' := mem_sortE.1 hem'
      have htag : e'.1 = e.1 := by rw [htagx e hem, htagy e' hem', hkind]
      refine ⟨e'.2.2, ?_, hv⟩
      rw [← htag, hk]; exact EntryList.mem_find?_of_nodup ys e'.1 e'.2.1 e'.2.2 hndy hem'
    cases xs with
    | nil =>
      cases ys with
      | nil =>
        rw [R_map_nil, R_map_nil] at h
        refine ⟨?_, List.append_cancel_left h⟩
        rw [valEq_map]
        simp only [EntryList.length, valEqEntries, beq_self_eq_true, Bool.and_true]
        exact hty
      | cons t k v ys =>
        exfalso
        rw [R_map_nil, R_map_cons] at h
        have hne : sortE (.cons t k v ys) ≠ [] := by
          intro h0
          have := length_sortE (.cons t k v ys)
          rw [h0] at this; simp [EntryList.length] at this
        cases hq : sortE (.cons t k v ys) with
        | nil => exact hne hq
        | cons e es =>
          rw [hq] at h
          simp only [List.cons_append, List.nil_append, List.map_cons, seqT, entryText,
            List.append_assoc, List.cons.injEq, true_and] at h
          have hem : e ∈ (EntryList.cons t k v ys).toList := mem_sortE.1 (by rw [hq]; simp)
          obtain ⟨c, hc, hc1, _⟩ := key_head (hky e hem)
            (':' :: ' ' :: (R e.2.2 ++ tailT ']' (es.map entryText) s'))
          rw [← h] at hc
          cases hc; exact hc1 rfl
    | cons t k v xs =>
      cases ys with
      | nil =>
        exfalso
        rw [R_map_nil, R_map_cons] at h
        have hne : sortE (.cons t k v xs) ≠ [] := by
          intro h0
          have := length_sortE (.cons t k v xs)
          rw [h0] at this; simp [EntryList.length] at this
        cases hq : sortE (.cons t k v xs) with
        | nil => exact hne hq
        | cons e es =>
          rw [hq] at h
          simp only [List.cons_append, List.nil_append, List.map_cons, seqT, entryText,
            List.append_assoc, List.cons.injEq, true_and] at h
          have hem : e ∈ (EntryList.cons t k v xs).toList := mem_sortE.1 (by rw [hq]; simp)
          obtain ⟨c, hc, hc1, _⟩ := key_head (hkx e hem)
            (':' :: ' ' :: (R e.2.2 ++ tailT ']' (es.map entryText) s))
          rw [h] at hc
          cases hc; exact hc1 rfl
      | cons t' k' v' ys =>
        rw [R_map_cons, R_map_cons] at h
        obtain ⟨hl, hr, hs2⟩ := seq_unique entryText entryText
          (fun e e' => e.2.1 = e'.2.1 ∧ valEq e.2.2 e'.2.2 = true) '[' ']' (by decide) (by decide)
          _ _ s s'
          (Or.inr ⟨fun e he u hh => by
              obtain ⟨c, hc, _, hc2⟩ := key_head (hkx e (mem_sortE.1 he))
                (':' :: ' ' :: (R e.2.2 ++ u))
              simp only [entryText, List.append_assoc, List.cons_append] at hh
              rw [hc] at hh; cases hh; exact hc2 rfl,
            fun e he u hh => by
              obtain ⟨c, hc, _, hc2⟩ := key_head (hky e (mem_sortE.1 he))
                (':' :: ' ' :: (R e.2.2 ++ u))
              simp only [entryText, List.append_assoc, List.cons_append] at hh
              rw [hc] at hh; cases hh; exact hc2 rfl⟩)
          H h
        exact ⟨concl hl hr, hs2⟩

theorem textUnique_obj {N : Float → Prop} (tx : Ty) (xs : ValList)
    (ih : ∀ v ∈ xs.toList, TextUnique N v) : TextUnique N (.obj tx xs) := by
  intro y hx hnum hy hty hs s s' ht ht' h
  cases hs with
  | @obj _ ty _ ys hs' =>
    have hx' := Val.all_obj.1 hx
    have hy' := Val.all_obj.1 hy
    obtain ⟨⟨hwx, fs, rfl, hlx⟩, htyx, _⟩ := hx'.1
    obtain ⟨⟨hwy, gs, rfl, hly⟩, htyy, _⟩ := hy'.1
    have hfg : fs.length = gs.length ∧ tyEqFields fs gs = true := by
      simpa [Val.typeOf, tyEq] using hty
    have hndx := wf_obj_nodup hwx
    have hndy := wf_obj_nodup hwy
    have hwfx : wfFields fs = true := by simpa [Ty.wf] using hwx
    have hwfy : wfFields gs = true := by simpa [Ty.wf] using hwy
    have hperm : fs.names.Perm gs.names :=
      perm_of_subset_nodup hndx hndy (tyEqFields_mem fs gs hfg.2)
        (by rw [FieldList.length_names, FieldList.length_names, hfg.1]; exact Nat.le_refl _)
    have hnames : (sortP fs xs).map Prod.fst = (sortP gs ys).map Prod.fst := by
      rw [sortP_names fs xs hlx, sortP_names gs ys hly]
      exact sortBy_eq_of_perm id hperm (by simpa using hndx)
    have hlen : (sortP fs xs).length = (sortP gs ys).length := by
      have := congrArg List.length hnames
      simpa using this
    rw [R_obj, R_obj] at h
    obtain ⟨hl, hr, hs2⟩ := seq_unique pairText pairText
      (fun p q => p.1 = q.1 ∧ valEq p.2 q.2 = true) '{' '}' (by decide) (by decide)
      _ _ s s' (Or.inl hlen)
      (fun i p q hp hq t t' htt htt' hh => by
        have hn : p.1 = q.1 := by
          have h1 := getElem?_map_fst hp
          have h2 := getElem?_map_fst hq
          rw [hnames, h2] at h1
          exact (Option.some.inj h1).symm
        have hpm : p ∈ objPairs fs xs := mem_sortP.1 (List.mem_of_getElem? hp)
        have hqm : q ∈ objPairs gs ys := mem_sortP.1 (List.mem_of_getElem? hq)
        have hvm : p.2 ∈ xs.toList := (List.of_mem_zip hpm).2
        have hwm : q.2 ∈ ys.toList := (List.of_mem_zip hqm).2
        simp only [pairText, List.append_assoc, List.cons_append, hn] at hh
        have hrest := List.append_cancel_left hh
        simp only [List.cons.injEq, true_and] at hrest
        obtain ⟨tp, hfp, htp⟩ := objPairs_field_ty fs xs hndx (htyx fs rfl) p.1 p.2 hpm
        obtain ⟨tq, hfq, htq⟩ := objPairs_field_ty gs ys hndy (htyy gs rfl) q.1 q.2 hqm
        obtain ⟨u, hfu, htu⟩ := tyEqFields_find fs gs p.1 tp hfg.2 hfp
        rw [hn, hfq] at hfu; cases hfu
        have htvw := tyEq_via (Val.Good.wf (hx'.2 _ hvm)).typeOf_wf
          (Val.Good.wf (hy'.2 _ hwm)).typeOf_wf (wfFields_find fs _ _ hwfx hfp)
          (wfFields_find gs _ _ hwfy hfq) htp htu htq
        have hgx := mem_objGet?_of_nodup fs xs p.1 p.2 hndx hpm
        have hgy : objGet? (.obj gs) ys p.1 = some q.2 := by
          rw [hn]; exact mem_objGet?_of_nodup gs ys q.1 q.2 hndy hqm
        obtain ⟨hv, ht2⟩ := ih p.2 hvm q.2 (hx'.2 _ hvm) ((Val.all_obj.1 hnum).2 _ hvm)
          (hy'.2 _ hwm) htvw
          (hs' _ _ _ hgx hgy) t t' htt htt' hrest
        exact ⟨⟨hn, hv⟩, ht2⟩) h
    refine ⟨?_, hs2⟩
    rw [valEq_obj]
    simp only [Bool.and_eq_true, beq_iff_eq]
    refine ⟨hty, by rw [← hlx, ← hly]; exact hfg.1, ?_⟩
    rw [valEqFields_iff]
    intro p hpm
    obtain ⟨q, hqm, hn, hv⟩ := exists_of_indexwise hl hr p (mem_sortP.2 hpm)
    have hqm := mem_sortP.1 hqm
    exact ⟨q.2, by rw [hn]; exact mem_objGet?_of_nodup gs ys q.1 q.2 hndy hqm, hv⟩

/-- **The rendering grammar is unambiguous on values of equal type.** -/
theorem text_unique {N : Float → Prop} (hN : ∀ a, N a → NumTextInj a) (TT : TimeText) :
    ∀ x : Val, TextUnique N x := by
  apply Val.induct_mem
  case num => exact textUnique_num hN
  case str => exact textUnique_str
  case bool => exact textUnique_bool
  case time => exact textUnique_time TT
  case list => exact textUnique_list TT
  case map => exact textUnique_map
  case obj => exact textUnique_obj
  case fn => intro ty r l y hx; exact absurd (Val.All.self hx).2.2 (by simp [Val.LocalTextOK])
  case just => exact textUnique_just
  case nothing => exact textUnique_nothing
  case nil => intro y hx; exact absurd (Val.All.self hx).1 (by simp [Val.LocalWF])

theorem numsSat_true (v : Val) : v.NumsSat (fun _ => True) := by
  apply Val.induct_mem (P := fun v => v.NumsSat (fun _ => True))
  case list => intro ty vs ih; exact Val.all_list.2 ⟨trivial, ih⟩
  case obj => intro ty vs ih; exact Val.all_obj.2 ⟨trivial, ih⟩
  case map => intro ty es ih; exact Val.all_map.2 ⟨trivial, ih⟩
  case just => intro el v ih; exact Val.all_just.2 ⟨trivial, ih⟩
  all_goals (intros; simp [Val.NumsSat, Val.All, Val.LocalNums])

/-- **Same text ⇒ `==`.** -/
theorem render_imp_valEq (F : FloatFacts) (TT : TimeText) {x y : Val} (hx : x.Good) (hy : y.Good)
    (hty : tyEq x.typeOf y.typeOf = true) (hs : Sep x y) (h : x.render = y.render) :
    valEq x y = true :=
  (text_unique (N := fun _ => True) (fun a _ => numTextInj_of_floatFacts F a) TT x y hx
    (numsSat_true x) hy hty hs [] [] (Term.nil _) (Term.nil _) (by simp [R, h])).1

/-- no number inside -/
def Val.NoNum (v : Val) : Prop := v.NumsSat (fun _ => False)

/-- the same without any assumption on `Float`, for values without numbers -/
theorem render_imp_valEq_noNum (TT : TimeText) {x y : Val} (hx : x.Good) (hn : x.NoNum)
    (hy : y.Good) (hty : tyEq x.typeOf y.typeOf = true) (hs : Sep x y)
    (h : x.render = y.render) : valEq x y = true :=
  (text_unique (N := fun _ => False) (fun _ h => h.elim) TT x y hx hn hy hty hs [] []
    (Term.nil _) (Term.nil _) (by simp [R, h])).1

end Yae
