/-
  C18, "same text ⇒ `==`": the hypotheses (`Val.TextOK`, `Val.Good`), the shape of the text of
  each kind of value (`R_list`, `R_map`, `R_obj`, …), the first character of a value's text, and
  the facts about types used to compare corresponding components.
-/
import Yae.Proofs.ValRelTextSeq
namespace Yae

/-- the characters of the rendering -/
def R (v : Val) : List Char := v.render.toList

/-! ### hypotheses on the values -/

/-- What makes the text of an instant determine the instant, and keeps it apart from what follows
it inside a composite (each clause is needed, see the counterexamples in `Yae/Props/C18.lean`):
the zone abbreviation contains none of `,` `]` `}` `)`; nanoseconds below `10^9`; the zone offset
is a whole number of minutes (`Time.String()` prints `-0700`: offset seconds are not displayed);
the displayed date is not before 0000-03-01 (the model's `civilFromDays` is one day off before
that date, and `TimeV.render` prints every negative year as `0000`). -/
structure TimeV.TextOK (t : TimeV) : Prop where
  zone : ∀ c ∈ t.zone.toList, stopV c = false
  nsec : t.nsec < 1000000000
  offset_min : t.offset % 60 = 0
  year_lo : -62162035200 ≤ t.sec + t.offset

/-- the two facts about `Time.String()` the decomposition needs; proved in
`Yae/Proofs/ValRelTextTime.lean` (`timeText`) -/
structure TimeText : Prop where
  ne : ∀ t : TimeV, t.render.toList ≠ []
  chars : ∀ t : TimeV, t.TextOK → ∀ c ∈ t.render.toList, stopV c = false
  inj : ∀ a b : TimeV, a.TextOK → b.TextOK → a.render = b.render → a.equal b = true

/-- Local conditions for "the text determines the value": instants as above; every key text of a
map is the text `Key()` computes for some value of the key's kind (true of every map the
evaluator builds; the model's `EntryList` stores arbitrary strings); no function value (function
values are never `==`, not even to themselves). -/
def Val.LocalTextOK : Val → Prop
  | .time t => t.TextOK
  | .map _ es => ∀ e ∈ es.toList, KeyGenuine e.1 e.2.1
  | .fn _ _ _ => False
  | _ => True

def Val.TextOK (v : Val) : Prop := v.All Val.LocalTextOK

def Val.LocalGood (v : Val) : Prop := v.LocalWF ∧ v.LocalTyped ∧ v.LocalTextOK

/-- well formed, components conform to the declared component types, text conditions -/
def Val.Good (v : Val) : Prop := v.All Val.LocalGood

theorem Val.All.imp {P Q : Val → Prop} (h : ∀ u, P u → Q u) : ∀ v : Val, v.All P → v.All Q := by
  apply Val.induct_mem (P := fun v => v.All P → v.All Q)
  case list => intro ty vs ih hv; rw [Val.all_list] at hv ⊢; exact ⟨h _ hv.1, fun v hm => ih v hm (hv.2 v hm)⟩
  case obj => intro ty vs ih hv; rw [Val.all_obj] at hv ⊢; exact ⟨h _ hv.1, fun v hm => ih v hm (hv.2 v hm)⟩
  case map => intro ty es ih hv; rw [Val.all_map] at hv ⊢; exact ⟨h _ hv.1, fun e hm => ih e hm (hv.2 e hm)⟩
  case just => intro el v ih hv; rw [Val.all_just] at hv ⊢; exact ⟨h _ hv.1, ih hv.2⟩
  all_goals (intros; simp only [Val.All] at *; apply h; assumption)

theorem Val.All.and {P Q : Val → Prop} : ∀ v : Val, v.All P → v.All Q →
    v.All (fun u => P u ∧ Q u) := by
  apply Val.induct_mem (P := fun v => v.All P → v.All Q → v.All (fun u => P u ∧ Q u))
  case list =>
    intro ty vs ih hp hq; rw [Val.all_list] at hp hq ⊢
    exact ⟨⟨hp.1, hq.1⟩, fun v hm => ih v hm (hp.2 v hm) (hq.2 v hm)⟩
  case obj =>
    intro ty vs ih hp hq; rw [Val.all_obj] at hp hq ⊢
    exact ⟨⟨hp.1, hq.1⟩, fun v hm => ih v hm (hp.2 v hm) (hq.2 v hm)⟩
  case map =>
    intro ty es ih hp hq; rw [Val.all_map] at hp hq ⊢
    exact ⟨⟨hp.1, hq.1⟩, fun e hm => ih e hm (hp.2 e hm) (hq.2 e hm)⟩
  case just =>
    intro el v ih hp hq; rw [Val.all_just] at hp hq ⊢
    exact ⟨⟨hp.1, hq.1⟩, ih hp.2 hq.2⟩
  all_goals (intros; simp only [Val.All] at *; constructor <;> assumption)

theorem Val.good_iff (v : Val) : v.Good ↔ v.Typed ∧ v.TextOK := by
  constructor
  · intro h
    exact ⟨⟨Val.All.imp (fun _ hu => hu.1) v h, Val.All.imp (fun _ hu => hu.2.1) v h⟩,
      Val.All.imp (fun _ hu => hu.2.2) v h⟩
  · rintro ⟨⟨h1, h2⟩, h3⟩
    exact Val.All.and v h1 (Val.All.and v h2 h3)

theorem Val.Good.wf {v : Val} (h : v.Good) : v.WF := Val.All.imp (fun _ hu => hu.1) v h

/-! ### the shape of the texts -/

theorem R_num (x : Float) : R (.num x) = (Num.renderNum x).toList := by simp [R, Val.render]
theorem R_str (a : String) : R (.str a) = (Num.quote a).toList := by simp [R, Val.render]
theorem R_bool (b : Bool) : R (.bool b) = (boolText b).toList := by simp [R, Val.render, boolText]
theorem R_time (t : TimeV) : R (.time t) = t.render.toList := by simp [R, Val.render]

theorem R_list (ty : Ty) (vs : ValList) (s : List Char) :
    R (.list ty vs) ++ s = seqT '[' ']' (vs.toList.map R) s := by
  simp only [R, Val.render]
  rw [joinStr_toList _ _ _ '[' ']' rfl rfl, renderVals_eq, List.map_map]
  rfl

/-- the entries of a map in the order in which they are rendered -/
def sortE (es : EntryList) : List (Kind × String × Val) :=
  sortBy (ltKey (fun e : Kind × String × Val => e.2.1)) es.toList

def entryText (e : Kind × String × Val) : List Char := e.2.1.toList ++ ':' :: ' ' :: R e.2.2

theorem mem_sortE {es : EntryList} {e : Kind × String × Val} : e ∈ sortE es ↔ e ∈ es.toList :=
  mem_sortBy _ _ _

theorem length_sortE (es : EntryList) : (sortE es).length = es.length := by
  rw [sortE, length_sortBy, EntryList.length_toList]

theorem R_map_nil (ty : Ty) : R (.map ty .nil) = ['[', ':', ']'] := by
  simp [R, Val.render]

theorem R_map_cons (ty : Ty) (t : Kind) (k : String) (v : Val) (es : EntryList) (s : List Char) :
    R (.map ty (.cons t k v es)) ++ s = seqT '[' ']' ((sortE (.cons t k v es)).map entryText) s := by
  rw [R, render_map, renderEntries_eq]
  have hne : (EntryList.cons t k v es).toList.map (fun e => (e.2.1, e.2.2.render)) =
      (k, v.render) :: es.toList.map (fun e => (e.2.1, e.2.2.render)) := by
    simp [EntryList.toList]
  rw [hne]
  simp only [mapText]
  rw [← hne, joinStr_toList _ _ _ '[' ']' rfl rfl,
    sortBy_map Prod.fst (fun e : Kind × String × Val => (e.2.1, e.2.2.render)),
    List.map_map, List.map_map]
  exact congrArg (fun l => seqT '[' ']' l s) (List.map_congr_left (fun e _ => by
    simp [entryText, R, String.toList_append]))

/-- the (field name, value) pairs of an object in the order in which they are rendered -/
def sortP (fs : FieldList) (vs : ValList) : List (String × Val) :=
  sortBy (ltKey Prod.fst) (objPairs fs vs)

def pairText (p : String × Val) : List Char := p.1.toList ++ ':' :: ' ' :: R p.2

theorem mem_sortP {fs : FieldList} {vs : ValList} {p : String × Val} :
    p ∈ sortP fs vs ↔ p ∈ objPairs fs vs := mem_sortBy _ _ _

theorem R_obj (fs : FieldList) (vs : ValList) (s : List Char) :
    R (.obj (.obj fs) vs) ++ s = seqT '{' '}' ((sortP fs vs).map pairText) s := by
  rw [R, render_obj, objPairs_render, objText, joinStr_toList _ _ _ '{' '}' rfl rfl,
    sortBy_map Prod.fst (fun p : String × Val => (p.1, p.2.render)), List.map_map, List.map_map]
  exact congrArg (fun l => seqT '{' '}' l s) (List.map_congr_left (fun p _ => by
    simp [pairText, R, String.toList_append]))

/-- the field names of an object in the order in which they are rendered -/
theorem sortP_names (fs : FieldList) (vs : ValList) (h : fs.length = vs.length) :
    (sortP fs vs).map Prod.fst = sortBy (ltKey id) fs.names := by
  rw [← objPairs_fst fs vs h, sortBy_map id Prod.fst]
  rfl

theorem R_just (el : Ty) (v : Val) :
    R (.just el v) = "Just#".toList ++ (el.render.toList ++ '(' :: (R v ++ [')'])) := by
  simp [R, Val.render, String.toList_append]
theorem R_nothing (el : Ty) :
    R (.nothing el) = "Nothing#".toList ++ (el.render.toList ++ ['(', ')']) := by
  simp [R, Val.render, String.toList_append]

/-! ### the first character -/

/-- The text of a well-formed value without function values is not empty and does not begin with
`,` `]` `}` `)`. -/
theorem R_head (TT : TimeText) {v : Val} (hw : v.LocalWF) (ho : v.LocalTextOK) (t : List Char) :
    ∃ c, (R v ++ t).head? = some c ∧ stopV c = false := by
  cases v with
  | num x =>
    rw [R_num]
    cases hx : (Num.renderNum x).toList with
    | nil => exact absurd hx (renderNumBits_ne_nil x.toBits)
    | cons c r =>
      exact ⟨c, rfl, (numChar_not_stop (renderNum_numChar x c (by rw [hx]; simp))).1⟩
  | str a => rw [R_str]; exact ⟨'"', quote_head a t, by decide⟩
  | bool b => rw [R_bool]; cases b; exact ⟨'f', rfl, by decide⟩; exact ⟨'t', rfl, by decide⟩
  | time a =>
    rw [R_time]
    cases hx : a.render.toList with
    | nil => exact absurd hx (TT.ne a)
    | cons c r => exact ⟨c, rfl, TT.chars a ho c (by rw [hx]; simp)⟩
  | list ty vs => rw [R_list]; cases vs.toList.map R <;> exact ⟨'[', rfl, by decide⟩
  | map ty es =>
    cases es with
    | nil => rw [R_map_nil]; exact ⟨'[', rfl, by decide⟩
    | cons k tk v es =>
      rw [R_map_cons]; cases (sortE (.cons k tk v es)).map entryText <;> exact ⟨'[', rfl, by decide⟩
  | obj ty vs =>
    obtain ⟨_, fs, rfl, _⟩ := hw
    rw [R_obj]; cases (sortP fs vs).map pairText <;> exact ⟨'{', rfl, by decide⟩
  | fn ty r l => exact absurd ho (by simp [Val.LocalTextOK])
  | just el v => rw [R_just]; exact ⟨'J', rfl, by decide⟩
  | nothing el => rw [R_nothing]; exact ⟨'N', rfl, by decide⟩
  | nil => exact absurd hw (by simp [Val.LocalWF])

/-! ### types of corresponding components -/

theorem tyEq_kind_eq' {a b : Ty} (h : tyEq a b = true) : a.kind = b.kind := by
  cases a <;> cases b <;> simp [tyEq] at h <;> rfl

/-- two values whose own types are `tyEq` to two `tyEq` declared types have `tyEq` own types -/
theorem tyEq_via {a b ta tb : Ty} (ha : a.wf = true) (hb : b.wf = true) (hta : ta.wf = true)
    (htb : tb.wf = true) (h1 : tyEq a ta = true) (h2 : tyEq ta tb = true)
    (h3 : tyEq b tb = true) : tyEq a b = true := by
  have h3' : tyEq tb b = true := by rw [tyEq_symm' htb hb]; exact h3
  exact tyEq_trans' ha hta h1 (tyEq_trans' hta htb h2 h3')

theorem tyEqFields_find : ∀ (fs gs : FieldList) (n : String) (t : Ty),
    tyEqFields fs gs = true → fs.find? n = some t → ∃ u, gs.find? n = some u ∧ tyEq t u = true
  | .nil, _, n, t, _, h => by simp [FieldList.find?] at h
  | .cons m t0 fs, gs, n, t, he, h => by
    simp only [tyEqFields, Bool.and_eq_true] at he
    simp only [FieldList.find?] at h
    split at h
    · next hmn =>
      cases h; subst hmn
      cases hq : gs.find? m with
      | none => simp [hq] at he
      | some u => exact ⟨u, rfl, by simpa [hq] using he.1⟩
    · exact tyEqFields_find fs gs n t he.2 h

/-- the declared type of the field a pair of an object value belongs to -/
theorem objPairs_field_ty : ∀ (fs : FieldList) (vs : ValList), fs.names.Nodup →
    (∀ (i : Nat) n t v, fs.get? i = some (n, t) → vs.toList[i]? = some v →
      tyEq v.typeOf t = true) →
    ∀ n v, (n, v) ∈ objPairs fs vs → ∃ t, fs.find? n = some t ∧ tyEq v.typeOf t = true
  | .nil, _, _, _, n, v, h => by simp [objPairs, FieldList.names] at h
  | .cons _ _ _, .nil, _, _, n, v, h => by simp [objPairs, ValList.toList] at h
  | .cons m t0 fs, .cons v0 vs, hnd, hty, n, v, h => by
    simp only [FieldList.names, List.nodup_cons] at hnd
    simp only [objPairs, FieldList.names, ValList.toList, List.zip_cons_cons, List.mem_cons] at h
    rcases h with h | h
    · cases h
      exact ⟨t0, by simp [FieldList.find?], hty 0 m t0 v0 (by simp [FieldList.get?])
        (by simp [ValList.toList])⟩
    · have hn : n ∈ fs.names := (List.of_mem_zip h).1
      have hmn : m ≠ n := by rintro rfl; exact hnd.1 hn
      obtain ⟨t, hf, ht⟩ := objPairs_field_ty fs vs hnd.2
        (fun i n' t' v' hg hv => hty (i+1) n' t' v' (by simpa [FieldList.get?] using hg)
          (by simpa [ValList.toList] using hv)) n v h
      exact ⟨t, by simp [FieldList.find?, hmn, hf], ht⟩

end Yae
