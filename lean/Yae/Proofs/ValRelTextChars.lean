/-
  C18, "same text ⇒ `==`": character-level facts about the rendering grammar.

  * `prefix_unique`: a text without stop characters, followed by a stop character (or by nothing),
    is determined by the concatenation;
  * the text of a number (`renderNumBits`, for every bit pattern) consists of digits and
    `- . + N a I n f`: no delimiter of the value grammar occurs in it;
  * a quoted string (`Num.quote`) is self-delimiting whatever follows it;
  * the text of a genuine map key (one produced by `Val.key?`), followed by `:`, is determined by
    the concatenation.
-/
import Yae.Proofs.ValRelPrim
namespace Yae
open Num

/-! ### texts followed by a stop character -/

/-- `s` is empty or begins with a stop character -/
def Term (stop : Char → Bool) (s : List Char) : Prop := ∀ c, s.head? = some c → stop c = true

theorem Term.nil (stop : Char → Bool) : Term stop [] := by intro c h; simp at h
theorem Term.cons {stop : Char → Bool} {c : Char} (h : stop c = true) (t : List Char) :
    Term stop (c :: t) := by
  intro d hd; simp at hd; rw [← hd]; exact h

/-- a text without stop characters followed by a stop character: the split is unique -/
theorem prefix_unique (stop : Char → Bool) : ∀ (r r' s s' : List Char),
    (∀ c ∈ r, stop c = false) → (∀ c ∈ r', stop c = false) → Term stop s → Term stop s' →
    r ++ s = r' ++ s' → r = r' ∧ s = s'
  | [], [], _, _, _, _, _, _, h => ⟨rfl, by simpa using h⟩
  | [], c :: r', s, s', _, hr', hs, _, h => by
    have h1 : s.head? = some c := by rw [show s = c :: (r' ++ s') by simpa using h]; rfl
    have := hs c h1
    rw [hr' c (by simp)] at this; exact absurd this (by decide)
  | c :: r, [], s, s', hr, _, _, hs', h => by
    have h1 : s'.head? = some c := by rw [show s' = c :: (r ++ s) by simpa using h.symm]; rfl
    have := hs' c h1
    rw [hr c (by simp)] at this; exact absurd this (by decide)
  | c :: r, d :: r', s, s', hr, hr', hs, hs', h => by
    simp only [List.cons_append, List.cons.injEq] at h
    obtain ⟨h1, h2⟩ := prefix_unique stop r r' s s' (fun x hx => hr x (by simp [hx]))
      (fun x hx => hr' x (by simp [hx])) hs hs' h.2
    exact ⟨by rw [h.1, h1], h2⟩

/-- the characters that end a value's text inside a composite: `,` `]` `}` `)` -/
def stopV (c : Char) : Bool := c == ',' || c == ']' || c == '}' || c == ')'
/-- the character that ends a key's text: `:` -/
def stopK (c : Char) : Bool := c == ':'

/-- the characters of number texts -/
def numChar (c : Char) : Bool :=
  isDigit c || c == '-' || c == '.' || c == '+' || c == 'N' || c == 'a' || c == 'I' || c == 'n' ||
    c == 'f'

theorem numChar_of_isDigit {c : Char} (h : isDigit c = true) : numChar c = true := by
  simp [numChar, h]

theorem numChar_not_stop {c : Char} (h : numChar c = true) : stopV c = false ∧ stopK c = false := by
  simp only [numChar, isDigit, Bool.or_eq_true, Bool.and_eq_true, decide_eq_true_eq, beq_iff_eq] at h
  have hd : ('0' ≤ c ∧ c ≤ '9') → stopV c = false ∧ stopK c = false := by
    rintro ⟨h1, h2⟩
    have h1' : 48 ≤ c.toNat := h1
    have h2' : c.toNat ≤ 57 := h2
    have hne : ∀ d : Char, (d.toNat < 48 ∨ 57 < d.toNat) → (c == d) = false := by
      intro d hd
      cases hcd : c == d with
      | false => rfl
      | true => rw [eq_of_beq hcd] at h1' h2'; omega
    simp only [stopV, stopK]
    rw [hne ',' (by decide), hne ']' (by decide), hne '}' (by decide), hne ')' (by decide),
      hne ':' (by decide)]
    exact ⟨rfl, rfl⟩
  rcases h with ((((((((h | h) | h) | h) | h) | h) | h) | h) | h)
  · exact hd h
  all_goals (subst h; exact ⟨by decide, by decide⟩)

/-! ### number texts -/

theorem natDigits_numChar (n : Nat) : ∀ c ∈ natDigits n, numChar c = true :=
  fun c hc => numChar_of_isDigit (natDigits_all_digits n c hc)

theorem fmtInt_numChar (n : Int) : ∀ c ∈ (fmtInt n).toList, numChar c = true := by
  cases n with
  | ofNat k =>
    simp only [fmtInt, fmtNat, String.toList_ofList]; exact natDigits_numChar k
  | negSucc k =>
    simp only [fmtInt, String.toList_ofList, List.mem_cons]
    rintro c (rfl | hc)
    · decide
    · exact natDigits_numChar _ c hc

theorem fmtPositional_numChar (ds : List Char) (dp : Int) (h : ∀ c ∈ ds, numChar c = true) :
    ∀ c ∈ fmtPositional ds dp, numChar c = true := by
  intro c hc
  simp only [fmtPositional, List.mem_append] at hc
  rcases hc with hc | hc
  · split at hc
    · simp only [List.mem_append, List.mem_replicate] at hc
      rcases hc with hc | hc
      · exact h c (List.mem_of_mem_take hc)
      · rw [hc.2]; decide
    · simp only [List.mem_singleton] at hc; rw [hc]; decide
  · split at hc
    · simp only [List.mem_cons, List.mem_append, List.mem_replicate] at hc
      rcases hc with hc | hc | hc
      · rw [hc]; decide
      · rw [hc.2]; decide
      · exact h c (List.mem_of_mem_drop hc)
    · simp at hc

theorem fmtFloatBits_numChar (b : UInt64) : ∀ c ∈ (fmtFloatBits b).toList, numChar c = true := by
  unfold fmtFloatBits
  split
  · decide
  split
  · split <;> decide
  have hsign : ∀ c ∈ (if signBit b then ['-'] else []), numChar c = true := by
    split <;> simp <;> decide
  simp only []
  split
  · intro c hc
    simp only [String.toList_ofList, List.mem_append, List.mem_singleton] at hc
    rcases hc with hc | hc
    · exact hsign c hc
    · rw [hc]; decide
  · intro c hc
    simp only [String.toList_ofList, List.mem_append] at hc
    rcases hc with hc | hc
    · exact hsign c hc
    · exact fmtPositional_numChar _ _ (natDigits_numChar _) c hc

/-- every character of a number's text — for every bit pattern, NaN and ±Inf included — is a
digit or one of `- . + N a I n f` -/
theorem renderNumBits_numChar (b : UInt64) : ∀ c ∈ (renderNumBits b).toList, numChar c = true := by
  unfold renderNumBits
  split
  · exact fmtInt_numChar _
  · exact fmtFloatBits_numChar b

theorem fmtPositional_ne_nil (ds : List Char) (dp : Int) : fmtPositional ds dp ≠ [] := by
  intro h
  have hl := congrArg List.length h
  simp only [fmtPositional, List.length_append, List.length_nil] at hl
  split at hl
  · next hdp =>
    simp only [List.length_append, List.length_take, List.length_replicate] at hl
    omega
  · simp at hl

theorem renderNumBits_ne_nil (b : UInt64) : (renderNumBits b).toList ≠ [] := by
  unfold renderNumBits
  split
  · cases toInt64Bits b with
    | ofNat k => simp only [fmtInt, fmtNat, String.toList_ofList]; exact natDigits_ne_nil k
    | negSucc k => simp [fmtInt]
  · unfold fmtFloatBits
    split
    · decide
    split
    · split <;> decide
    simp only []
    split
    · simp
    · simp only [String.toList_ofList]
      intro h
      exact fmtPositional_ne_nil _ _ (List.append_eq_nil_iff.1 h).2

theorem renderNum_numChar (x : Float) : ∀ c ∈ (renderNum x).toList, numChar c = true :=
  renderNumBits_numChar x.toBits

/-! ### quoted strings are self-delimiting -/

theorem unquoteBody_quoted_tail (l : List Char) (tail : List Char) :
    ∀ (fuel : Nat) (acc : List Char), l.length + 1 ≤ fuel →
    unquoteBody '"' false fuel acc (l.flatMap quoteChar ++ '"' :: tail) =
      some (acc.reverse ++ l, tail) := by
  induction l with
  | nil =>
    intro fuel acc h
    obtain ⟨f, rfl⟩ : ∃ f, fuel = f + 1 := ⟨fuel - 1, by omega⟩
    simp [unquoteBody]
  | cons c l ih =>
    intro fuel acc h
    obtain ⟨f, rfl⟩ : ∃ f, fuel = f + 1 := ⟨fuel - 1, by omega⟩
    simp only [List.flatMap_cons, List.append_assoc]
    rw [unquoteBody_quoteChar, ih f (c :: acc) (by simpa using h)]
    simp

theorem quote_toList (a : String) :
    (quote a).toList = '"' :: (a.toList.flatMap quoteChar ++ ['"']) := by
  simp [quote]

/-- **A quoted string is self-delimiting**: whatever follows, the string and the rest are
determined by the concatenation. -/
theorem quote_prefix_unique (a b : String) (s s' : List Char)
    (h : (quote a).toList ++ s = (quote b).toList ++ s') : a = b ∧ s = s' := by
  rw [quote_toList, quote_toList] at h
  simp only [List.cons_append, List.append_assoc, List.cons.injEq, true_and,
    List.nil_append] at h
  have h1 := unquoteBody_quoted_tail a.toList s (a.toList.length + b.toList.length + 1) []
    (by omega)
  have h2 := unquoteBody_quoted_tail b.toList s' (a.toList.length + b.toList.length + 1) []
    (by omega)
  rw [h, h2] at h1
  simp only [List.reverse_nil, List.nil_append, Option.some.injEq, Prod.mk.injEq] at h1
  exact ⟨(String.toList_inj.1 h1.1).symm, h1.2.symm⟩

theorem quote_head (a : String) (t : List Char) : ((quote a).toList ++ t).head? = some '"' := by
  rw [quote_toList]; rfl

/-! ### booleans -/

def boolText (b : Bool) : String := if b then "true" else "false"

theorem boolText_chars (b : Bool) : ∀ c ∈ (boolText b).toList, stopV c = false ∧ stopK c = false := by
  cases b <;> decide

/-! ### genuine key texts -/

/-- the key text is the one `Key()` computes for some value (of the kind named by the tag) -/
def KeyGenuine (tag : Kind) (text : String) : Prop := ∃ kv : Val, kv.key? = some (tag, text)

theorem keyGenuine_cases {tag : Kind} {text : String} (h : KeyGenuine tag text) :
    (tag = .bool ∧ ∃ b, text = boolText b) ∨ (tag = .num ∧ ∃ x, text = renderNum x) ∨
    ((tag = .str ∨ tag = .time) ∧ ∃ s, text = quote s) := by
  obtain ⟨kv, hk⟩ := h
  cases kv <;> simp only [Val.key?, Option.some.injEq, Prod.mk.injEq, reduceCtorEq] at hk
  case num x => exact Or.inr (Or.inl ⟨hk.1.symm, x, hk.2.symm⟩)
  case str s => exact Or.inr (Or.inr ⟨Or.inl hk.1.symm, s, hk.2.symm⟩)
  case bool b => exact Or.inl ⟨hk.1.symm, b, hk.2.symm⟩
  case time t => exact Or.inr (Or.inr ⟨Or.inr hk.1.symm, _, hk.2.symm⟩)

/-- **Key texts are self-delimiting**: two genuine keys of one kind, each followed by `:`. -/
theorem key_prefix_unique {tag : Kind} {k k' : String} (hk : KeyGenuine tag k)
    (hk' : KeyGenuine tag k') (s s' : List Char)
    (h : k.toList ++ ':' :: s = k'.toList ++ ':' :: s') : k = k' ∧ s = s' := by
  have hterm : ∀ t, Term stopK (':' :: t) := fun t => Term.cons (by decide) t
  rcases keyGenuine_cases hk with ⟨ht, b, rfl⟩ | ⟨ht, x, rfl⟩ | ⟨ht, a, rfl⟩ <;>
    rcases keyGenuine_cases hk' with ⟨ht', b', rfl⟩ | ⟨ht', x', rfl⟩ | ⟨ht', a', rfl⟩
  · obtain ⟨h1, h2⟩ := prefix_unique stopK _ _ _ _ (fun c hc => (boolText_chars b c hc).2)
      (fun c hc => (boolText_chars b' c hc).2) (hterm s) (hterm s') h
    exact ⟨String.toList_inj.1 h1, by simpa using h2⟩
  · rw [ht] at ht'; cases ht'
  · rw [ht] at ht'; rcases ht' with h | h <;> cases h
  · rw [ht] at ht'; cases ht'
  · obtain ⟨h1, h2⟩ := prefix_unique stopK _ _ _ _
      (fun c hc => (numChar_not_stop (renderNum_numChar x c hc)).2)
      (fun c hc => (numChar_not_stop (renderNum_numChar x' c hc)).2) (hterm s) (hterm s') h
    exact ⟨String.toList_inj.1 h1, by simpa using h2⟩
  · rw [ht] at ht'; rcases ht' with h | h <;> cases h
  · rw [ht'] at ht; rcases ht with h | h <;> cases h
  · rw [ht'] at ht; rcases ht with h | h <;> cases h
  · obtain ⟨h1, h2⟩ := quote_prefix_unique a a' _ _ h
    exact ⟨by rw [h1], by simpa using h2⟩

/-- a genuine key text is not empty and begins neither with `:` nor with `]` -/
theorem key_head {tag : Kind} {k : String} (hk : KeyGenuine tag k) (t : List Char) :
    ∃ c, (k.toList ++ t).head? = some c ∧ c ≠ ':' ∧ c ≠ ']' := by
  rcases keyGenuine_cases hk with ⟨_, b, rfl⟩ | ⟨_, x, rfl⟩ | ⟨_, a, rfl⟩
  · cases b
    · exact ⟨'f', rfl, by decide, by decide⟩
    · exact ⟨'t', rfl, by decide, by decide⟩
  · cases hx : (renderNum x).toList with
    | nil => exact absurd hx (renderNumBits_ne_nil x.toBits)
    | cons c r =>
      have hc := numChar_not_stop (renderNum_numChar x c (by rw [hx]; simp))
      refine ⟨c, rfl, ?_, ?_⟩
      · rintro rfl; exact absurd hc.2 (by decide)
      · rintro rfl; exact absurd hc.1 (by decide)
  · exact ⟨'"', quote_head a t, by decide, by decide⟩

end Yae
