/-
  C18: consequences of "same text ⇒ `==`" (`Yae/Proofs/ValRelText.lean`) and of
  "`==` ⇒ same text" (`Yae/Proofs/ValRelEq.lean`): the equivalence, membership in the sets
  behind `union` / `intersect` / `diff`, and map-key identity for all four key kinds.
-/
import Yae.Proofs.ValRelText
import Yae.Proofs.ValRelTextTime
import Yae.Proofs.ValRelSet
namespace Yae

theorem valEq_imp_tyEq {x y : Val} (h : valEq x y = true) : tyEq x.typeOf y.typeOf = true := by
  cases x <;> cases y <;>
    first
    | (simp only [valEq, Bool.and_eq_true] at h; exact h.1)
    | (simp_all [valEq, Val.typeOf, tyEq]; done)
    | (unfold valEq at h; simp only [Bool.and_eq_true] at h; exact h.1)

/-- **`==` ⇔ same type and same text.** -/
theorem valEq_iff_render (F : FloatFacts) {x y : Val} (hx : x.Good) (hy : y.Good) (hs : Sep x y) :
    valEq x y = true ↔ (tyEq x.typeOf y.typeOf = true ∧ x.render = y.render) :=
  ⟨fun h => ⟨valEq_imp_tyEq h, valEq_imp_render' x y hx.wf hy.wf hs h⟩,
   fun h => render_imp_valEq F timeText hx hy h.1 hs h.2⟩

theorem valEq_iff_render_noNum {x y : Val} (hx : x.Good) (hn : x.NoNum) (hy : y.Good)
    (hs : Sep x y) :
    valEq x y = true ↔ (tyEq x.typeOf y.typeOf = true ∧ x.render = y.render) :=
  ⟨fun h => ⟨valEq_imp_tyEq h, valEq_imp_render' x y hx.wf hy.wf hs h⟩,
   fun h => render_imp_valEq_noNum timeText hx hn hy h.1 hs h.2⟩

/-! ### sets -/

/-- `x` is comparable with every member of `l`: good values of `x`'s type, separated from `x` -/
def Comparable (x : Val) (l : List Val) : Prop :=
  ∀ v ∈ l, v.Good ∧ tyEq x.typeOf v.typeOf = true ∧ Sep x v

/-- the text of `x` is among the texts of `l` exactly when `x` is `==` to a member of `l` -/
theorem render_mem_iff (F : FloatFacts) {x : Val} {l : List Val} (hx : x.Good)
    (hl : Comparable x l) : x.render ∈ renders l ↔ ∃ v ∈ l, valEq x v = true := by
  simp only [renders, List.mem_map]
  constructor
  · rintro ⟨v, hv, he⟩
    obtain ⟨hg, ht, hs⟩ := hl v hv
    exact ⟨v, hv, render_imp_valEq F timeText hx hg ht hs he.symm⟩
  · rintro ⟨v, hv, he⟩
    obtain ⟨hg, _, hs⟩ := hl v hv
    exact ⟨v, hv, (valEq_imp_render' x v hx.wf hg.wf hs he).symm⟩

/-- membership in the set built from a list (`valSetOf`, keyed by text) is `==`-membership -/
theorem setHas_valSetOf_iff (F : FloatFacts) {x : Val} {ys : ValList} (hx : x.Good)
    (hl : Comparable x ys.toList) :
    setHas (valSetOf ys) x.render = true ↔ ∃ v ∈ ys.toList, valEq x v = true := by
  rw [setHas_valSetOf, decide_eq_true_eq]
  exact render_mem_iff F hx hl

/-- two elements are merged by `valSetOf` exactly when they are `==` -/
theorem valSetOf_pair_merged_iff (F : FloatFacts) {x y : Val} (hx : x.Good) (hy : y.Good)
    (hty : tyEq x.typeOf y.typeOf = true) (hs : Sep x y) :
    (valSetOf (.cons x (.cons y .nil))).length = 1 ↔ valEq x y = true := by
  have hiff : valEq x y = true ↔ x.render = y.render :=
    ⟨valEq_imp_render' x y hx.wf hy.wf hs, render_imp_valEq F timeText hx hy hty hs⟩
  rw [hiff]
  simp only [valSetOf, List.filter_nil, List.filter_cons, List.length_cons]
  by_cases h : y.render = x.render
  · simp [h]
  · have h' : ¬ x.render = y.render := fun e => h e.symm
    simp [h, h']

/-! ### map keys -/

theorem key_eq_iff_valEq (F : FloatFacts) {x y : Val} (hk : x.key?.isSome = true)
    (hox : x.TextOK) (hoy : y.TextOK) (hs : Sep x y) :
    x.key? = y.key? ↔ valEq x y = true := by
  cases hs <;> try (simp [Val.key?] at hk; done)
  case num a b hiff => exact (prim_valEq_iff_key F (x := .num a) trivial (Sep.num hiff)).symm
  case str a b => exact (prim_valEq_iff_key F (x := .str a) trivial (Sep.str a b)).symm
  case bool a b => exact (prim_valEq_iff_key F (x := .bool a) trivial (Sep.bool a b)).symm
  case time a b hz =>
    have hoa : a.TextOK := by simpa [Val.TextOK, Val.All, Val.LocalTextOK] using hox
    have hob : b.TextOK := by simpa [Val.TextOK, Val.All, Val.LocalTextOK] using hoy
    constructor
    · intro h
      simp only [Val.key?, Option.some.injEq, Prod.mk.injEq, true_and] at h
      simp only [valEq, Val.typeOf, tyEq, Bool.true_and]
      exact timeText.inj a b hoa hob (Num.quote_injective h)
    · intro h
      exact time_valEq_imp_key (Sep.time hz) h

/-- `m[x]` and `m[y]` select the same entry of every map exactly when `x == y` -/
theorem select_same_entry_iff (F : FloatFacts) {x y : Val} {t t' : Kind} {k k' : String}
    (hkx : x.key? = some (t, k)) (hky : y.key? = some (t', k')) (hox : x.TextOK)
    (hoy : y.TextOK) (hs : Sep x y) :
    (∀ es : EntryList, es.find? t k = es.find? t' k') ↔ valEq x y = true := by
  rw [← key_eq_iff_valEq F (by rw [hkx]; rfl) hox hoy hs, hkx, hky]
  constructor
  · intro h
    have := h (.cons t k .nil .nil)
    simp only [EntryList.find?, and_self, if_true] at this
    split at this
    · next hc => rw [hc.1, hc.2]
    · exact absurd this (by simp)
  · intro h es
    cases h; rfl

/-! ### helpers for checking the hypotheses on concrete values -/

theorem localTyped_obj_nil (vs : ValList) : (Val.obj (.obj .nil) vs).LocalTyped := by
  intro fs h; cases h
  intro i n t v hg; simp [FieldList.get?] at hg

theorem localTyped_obj_nil_vals (fs : FieldList) : (Val.obj (.obj fs) .nil).LocalTyped := by
  intro fs' h; cases h
  intro i n t v _ hv; simp [ValList.toList] at hv

theorem localTyped_obj_cons (n : String) (t : Ty) (fs : FieldList) (v : Val) (vs : ValList) :
    (Val.obj (.obj (.cons n t fs)) (.cons v vs)).LocalTyped ↔
      (tyEq v.typeOf t = true ∧ (Val.obj (.obj fs) vs).LocalTyped) := by
  constructor
  · intro h
    refine ⟨h _ rfl 0 n t v (by simp [FieldList.get?]) (by simp [ValList.toList]), ?_⟩
    intro fs' hf; cases hf
    intro i n' t' v' hg hv
    exact h _ rfl (i+1) n' t' v' (by simpa [FieldList.get?] using hg)
      (by simpa [ValList.toList] using hv)
  · rintro ⟨h0, h1⟩ fs' hf; cases hf
    intro i n' t' v' hg hv
    cases i with
    | zero =>
      simp [FieldList.get?] at hg; simp [ValList.toList] at hv
      rw [← hv, ← hg.2]; exact h0
    | succ i =>
      exact h1 _ rfl i n' t' v' (by simpa [FieldList.get?] using hg)
        (by simpa [ValList.toList] using hv)

end Yae
