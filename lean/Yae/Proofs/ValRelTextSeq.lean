/-
  C18, "same text ⇒ `==`": the text of a sequence `⟨open⟩ item, item, … ⟨close⟩` decomposes
  uniquely into its items, provided each item, followed by `,` or by the closing bracket, can be
  recognised (`tail_unique`, `seq_unique`).  Also: `sortBy` commutes with maps that respect the
  sort key.
-/
import Yae.Proofs.ValRelTextChars
namespace Yae

/-! ### the text after an item -/

/-- `, item, item … ⟨close⟩ rest` -/
def tailT (c : Char) : List (List Char) → List Char → List Char
  | [], s => c :: s
  | r :: rs, s => ',' :: ' ' :: (r ++ tailT c rs s)

/-- `⟨open⟩ item, item … ⟨close⟩ rest` -/
def seqT (o c : Char) : List (List Char) → List Char → List Char
  | [], s => o :: c :: s
  | r :: rs, s => o :: (r ++ tailT c rs s)

theorem tailT_term {c : Char} (hc : stopV c = true) (rs : List (List Char)) (s : List Char) :
    Term stopV (tailT c rs s) := by
  cases rs with
  | nil => exact Term.cons hc _
  | cons r rs => exact Term.cons (by decide) _

theorem intercalate_tail (c : Char) (r : List Char) (rs : List (List Char)) (s : List Char) :
    ([',', ' '].intercalate (r :: rs)) ++ c :: s = r ++ tailT c rs s := by
  induction rs generalizing r with
  | nil => simp [List.intercalate, tailT]
  | cons r' rs ih =>
    have := ih r'
    simp only [List.intercalate, List.intersperse_cons_cons, List.flatten_cons,
      List.append_assoc] at this ⊢
    rw [this]; simp [tailT]

/-- the characters of `joinStr xs ", " ⟨o⟩ ⟨c⟩`, followed by `s` -/
theorem joinStr_toList (xs : List String) (os cs : String) (o c : Char) (ho : os.toList = [o])
    (hc : cs.toList = [c]) (s : List Char) :
    (joinStr xs ", " os cs).toList ++ s = seqT o c (xs.map String.toList) s := by
  have hsep : (", " : String).toList = [',', ' '] := rfl
  simp only [joinStr, String.toList_append, String.toList_intercalate, ho, hc, hsep,
    List.append_assoc, List.cons_append, List.nil_append]
  cases xs with
  | nil => simp [seqT, List.intercalate]
  | cons x xs =>
    simp only [List.map_cons, seqT, List.cons.injEq, true_and]
    exact intercalate_tail c _ _ s

/-! ### unique decomposition -/

/-- If every pair of items at the same position can be told apart from what follows (a `,` or the
closing bracket), two equal sequence tails have the same number of items, related pairwise, and
the same rest. -/
theorem tail_unique {α β : Type} (f : α → List Char) (g : β → List Char) (Rel : α → β → Prop)
    (c : Char) (hc : stopV c = true) (hc' : c ≠ ',') :
    ∀ (I : List α) (J : List β) (s s' : List Char),
    (∀ (i : Nat) a b, I[i]? = some a → J[i]? = some b → ∀ t t', Term stopV t → Term stopV t' →
      f a ++ t = g b ++ t' → Rel a b ∧ t = t') →
    tailT c (I.map f) s = tailT c (J.map g) s' →
    I.length = J.length ∧ (∀ (i : Nat) a b, I[i]? = some a → J[i]? = some b → Rel a b) ∧ s = s'
  | [], [], s, s', _, h => by
    simp only [List.map_nil, tailT, List.cons.injEq, true_and] at h
    exact ⟨rfl, by intro i a b ha; simp at ha, h⟩
  | [], b :: J, s, s', _, h => by
    simp only [List.map_nil, List.map_cons, tailT, List.cons.injEq] at h
    exact absurd h.1 hc'
  | a :: I, [], s, s', _, h => by
    simp only [List.map_nil, List.map_cons, tailT, List.cons.injEq] at h
    exact absurd h.1.symm hc'
  | a :: I, b :: J, s, s', H, h => by
    simp only [List.map_cons, tailT, List.cons.injEq, true_and] at h
    obtain ⟨h0, ht⟩ := H 0 a b (by simp) (by simp) _ _ (tailT_term hc _ _) (tailT_term hc _ _) h
    obtain ⟨hl, hr, hs⟩ := tail_unique f g Rel c hc hc' I J s s'
      (fun i a' b' ha hb => H (i+1) a' b' (by simpa using ha) (by simpa using hb)) ht
    refine ⟨by simp [hl], ?_, hs⟩
    intro i a' b' ha hb
    cases i with
    | zero => simp at ha hb; rw [← ha, ← hb]; exact h0
    | succ i => exact hr i a' b' (by simpa using ha) (by simpa using hb)

/-- The same for whole sequences.  The first item needs care: an empty sequence must not be
confused with a non-empty one, which is excluded either because the numbers of items are known to
agree or because no item begins with the closing bracket. -/
theorem seq_unique {α β : Type} (f : α → List Char) (g : β → List Char) (Rel : α → β → Prop)
    (o c : Char) (hc : stopV c = true) (hc' : c ≠ ',') (I : List α) (J : List β)
    (s s' : List Char)
    (hemp : I.length = J.length ∨
      ((∀ a ∈ I, ∀ t, (f a ++ t).head? ≠ some c) ∧ (∀ b ∈ J, ∀ t, (g b ++ t).head? ≠ some c)))
    (H : ∀ (i : Nat) a b, I[i]? = some a → J[i]? = some b → ∀ t t', Term stopV t → Term stopV t' →
      f a ++ t = g b ++ t' → Rel a b ∧ t = t')
    (h : seqT o c (I.map f) s = seqT o c (J.map g) s') :
    I.length = J.length ∧ (∀ (i : Nat) a b, I[i]? = some a → J[i]? = some b → Rel a b) ∧ s = s' := by
  cases I with
  | nil =>
    cases J with
    | nil =>
      simp only [List.map_nil, seqT, List.cons.injEq, true_and] at h
      exact ⟨rfl, by intro i a b ha; simp at ha, h⟩
    | cons b J =>
      exfalso
      rcases hemp with hl | ⟨_, hb⟩
      · simp at hl
      · simp only [List.map_nil, List.map_cons, seqT, List.cons.injEq, true_and] at h
        apply hb b (by simp) (tailT c (J.map g) s')
        rw [← h]; rfl
  | cons a I =>
    cases J with
    | nil =>
      exfalso
      rcases hemp with hl | ⟨ha, _⟩
      · simp at hl
      · simp only [List.map_nil, List.map_cons, seqT, List.cons.injEq, true_and] at h
        apply ha a (by simp) (tailT c (I.map f) s)
        rw [h]; rfl
    | cons b J =>
      simp only [List.map_cons, seqT, List.cons.injEq, true_and] at h
      obtain ⟨h0, ht⟩ := H 0 a b (by simp) (by simp) _ _ (tailT_term hc _ _) (tailT_term hc _ _) h
      obtain ⟨hl, hr, hs⟩ := tail_unique f g Rel c hc hc' I J s s'
        (fun i a' b' ha hb => H (i+1) a' b' (by simpa using ha) (by simpa using hb)) ht
      refine ⟨by simp [hl], ?_, hs⟩
      intro i a' b' ha hb
      cases i with
      | zero => simp at ha hb; rw [← ha, ← hb]; exact h0
      | succ i => exact hr i a' b' (by simpa using ha) (by simpa using hb)

/-! ### sorting commutes with key-respecting maps -/

theorem insertBy_map {α β : Type} (key : β → String) (f : α → β) (x : α) : ∀ l : List α,
    insertBy (ltKey key) (f x) (l.map f) = (insertBy (ltKey (fun a => key (f a))) x l).map f
  | [] => rfl
  | y :: ys => by
    simp only [List.map_cons, insertBy]
    split
    · rfl
    · simp [insertBy_map key f x ys]

theorem sortBy_map {α β : Type} (key : β → String) (f : α → β) : ∀ l : List α,
    sortBy (ltKey key) (l.map f) = (sortBy (ltKey (fun a => key (f a))) l).map f
  | [] => rfl
  | x :: xs => by
    show insertBy (ltKey key) (f x) (sortBy (ltKey key) (xs.map f)) =
      (insertBy (ltKey (fun a => key (f a))) x (sortBy (ltKey (fun a => key (f a))) xs)).map f
    rw [sortBy_map key f xs, insertBy_map]

/-! ### index-wise relations -/

theorem exists_of_indexwise {α β : Type} {Rel : α → β → Prop} {I : List α} {J : List β}
    (hl : I.length = J.length) (h : ∀ (i : Nat) a b, I[i]? = some a → J[i]? = some b → Rel a b)
    (a : α) (ha : a ∈ I) : ∃ b ∈ J, Rel a b := by
  obtain ⟨i, hi⟩ := List.mem_iff_getElem?.1 ha
  have hlt : i < J.length := by
    rw [← hl]; exact (List.getElem?_eq_some_iff.1 hi).1
  exact ⟨J[i], List.getElem_mem hlt, h i a J[i] hi (List.getElem?_eq_getElem hlt)⟩

end Yae
