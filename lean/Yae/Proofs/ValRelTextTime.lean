/-
  C18, "same text ⇒ `==`" for instants: `Time.String()` (`TimeV.render`) determines the instant
  (`TimeV.equal`: seconds and nanoseconds) for instants satisfying `TimeV.TextOK`, and contains
  none of `,` `]` `}` `)` when the zone abbreviation does not (`timeText`).

  The calendar part: `civilFromDays` (Howard Hinnant's algorithm) is injective on days from
  0000-03-01 on (`civil_inj`).
-/
import Yae.Proofs.ValRelTextBase
namespace Yae

/-! ### the civil calendar -/

theorem red1 (r e h a w : Nat) (he : e ≤ 3) (hr : r ≤ 36523)
    (hh : h = (24 * e + r) / 1460) (ha : a = (r - h) / 365) (hw : w = a / 4) :
    365 * a + w ≤ r ∧ r - (365 * a + w) ≤ 365 ∧ a ≤ 99 := by
  omega

theorem doe_div_1460 (doe : Nat) (_h : doe ≤ 146095) :
    doe / 1460 = 25 * (doe / 36524) + (24 * (doe / 36524) + doe % 36524) / 1460 := by omega

theorem yoe_eq (doe : Nat) (h : doe ≤ 146095) :
    (doe - doe / 1460 + doe / 36524 - doe / 146096) / 365 =
      100 * (doe / 36524) +
        (doe % 36524 - (24 * (doe / 36524) + doe % 36524) / 1460) / 365 := by
  have h1 := doe_div_1460 doe h
  have h2 : doe / 146096 = 0 := by omega
  have h3 : (24 * (doe / 36524) + doe % 36524) / 1460 ≤ doe % 36524 := by omega
  rw [h1, h2]
  omega

/-- the year of the era computed by Hinnant's formula is the right one: day `doe` of the
400-year era lies in year `yoe`, at most 365 days after its first day -/
theorem yoe_facts (doe yoe : Nat) (h : doe ≤ 146096)
    (hy : yoe = (doe - doe / 1460 + doe / 36524 - doe / 146096) / 365) :
    365 * yoe + yoe / 4 - yoe / 100 ≤ doe ∧ doe - (365 * yoe + yoe / 4 - yoe / 100) ≤ 365 ∧
      yoe ≤ 399 := by
  by_cases hd : doe = 146096
  · subst hd; subst hy; decide
  · have hle : doe ≤ 146095 := by omega
    rw [yoe_eq doe hle] at hy
    have hr := red1 (doe % 36524) (doe / 36524)
      ((24 * (doe / 36524) + doe % 36524) / 1460)
      ((doe % 36524 - (24 * (doe / 36524) + doe % 36524) / 1460) / 365)
      ((doe % 36524 - (24 * (doe / 36524) + doe % 36524) / 1460) / 365 / 4)
      (by omega) (by omega) rfl rfl rfl
    omega

/-- month number from the March-based month index -/
def monthOf (mp : Nat) : Nat := if mp < 10 then mp + 3 else mp - 9

/-- `civilFromDays` spelled out, from 0000-03-01 on -/
theorem civil_eq (z : Int) (hz : 0 ≤ z + 719468) :
    ∃ (era : Int) (doe yoe doy mp : Nat), 0 ≤ era ∧ z + 719468 = era * 146097 + doe ∧
      doe ≤ 146096 ∧ yoe = (doe - doe / 1460 + doe / 36524 - doe / 146096) / 365 ∧
      doy = doe - (365 * yoe + yoe / 4 - yoe / 100) ∧ mp = (5 * doy + 2) / 153 ∧
      civilFromDays z =
        ((if monthOf mp ≤ 2 then (yoe : Int) + era * 400 + 1 else (yoe : Int) + era * 400),
          monthOf mp, doy - (153 * mp + 2) / 5 + 1) := by
  refine ⟨(z + 719468) / 146097, ((z + 719468) - (z + 719468) / 146097 * 146097).toNat, _, _, _,
    by omega, by omega, by omega, rfl, rfl, rfl, ?_⟩
  have hz' : z + 719468 ≥ 0 := hz
  unfold civilFromDays
  simp only [if_pos hz']
  rfl

theorem monthOf_inj {a b : Nat} (ha : a ≤ 11) (hb : b ≤ 11) (h : monthOf a = monthOf b) :
    a = b := by
  simp only [monthOf] at h
  split at h <;> split at h <;> omega

theorem doy_inj {d1 d2 mp : Nat} (h1 : mp = (5 * d1 + 2) / 153) (h2 : mp = (5 * d2 + 2) / 153)
    (h : d1 - (153 * mp + 2) / 5 + 1 = d2 - (153 * mp + 2) / 5 + 1) : d1 = d2 := by omega

theorem mp_le {doy mp : Nat} (h : doy ≤ 365) (hmp : mp = (5 * doy + 2) / 153) : mp ≤ 11 := by
  omega

theorem era_inj {era1 era2 : Int} {yoe1 yoe2 : Nat} (h1 : yoe1 ≤ 399) (h2 : yoe2 ≤ 399)
    (h : (yoe1 : Int) + era1 * 400 = (yoe2 : Int) + era2 * 400) :
    era1 = era2 ∧ yoe1 = yoe2 := by omega

theorem doe_eq {doe yoe doy : Nat} (h : 365 * yoe + yoe / 4 - yoe / 100 ≤ doe)
    (hd : doy = doe - (365 * yoe + yoe / 4 - yoe / 100)) :
    doe = 365 * yoe + yoe / 4 - yoe / 100 + doy := by omega

/-- **The civil date determines the day** (from 0000-03-01 on). -/
theorem civil_inj (z1 z2 : Int) (h1 : 0 ≤ z1 + 719468) (h2 : 0 ≤ z2 + 719468)
    (h : civilFromDays z1 = civilFromDays z2) : z1 = z2 := by
  obtain ⟨era1, doe1, yoe1, doy1, mp1, _, hz1, hd1, hy1, hdy1, hmp1, hc1⟩ := civil_eq z1 h1
  obtain ⟨era2, doe2, yoe2, doy2, mp2, _, hz2, hd2, hy2, hdy2, hmp2, hc2⟩ := civil_eq z2 h2
  rw [hc1, hc2] at h
  simp only [Prod.mk.injEq] at h
  obtain ⟨hy, hm, hd⟩ := h
  obtain ⟨f1, f2, f3⟩ := yoe_facts doe1 yoe1 hd1 hy1
  obtain ⟨g1, g2, g3⟩ := yoe_facts doe2 yoe2 hd2 hy2
  clear hy1 hy2 hc1 hc2
  have hmp : mp1 = mp2 :=
    monthOf_inj (mp_le (by rw [hdy1]; exact f2) hmp1) (mp_le (by rw [hdy2]; exact g2) hmp2) hm
  subst hmp
  have hye : (yoe1 : Int) + era1 * 400 = (yoe2 : Int) + era2 * 400 := by
    clear hz1 hz2 hd hmp1 hmp2 hdy1 hdy2 f1 f2 g1 g2
    split at hy <;> omega
  obtain ⟨hera, hyoe⟩ := era_inj f3 g3 hye
  have hdoy : doy1 = doy2 := doy_inj hmp1 hmp2 hd
  have e1 := doe_eq f1 hdy1
  have e2 := doe_eq g1 hdy2
  rw [hyoe, hdoy] at e1
  rw [← e2] at e1
  rw [hera, e1] at hz1
  clear hy hm hd f1 f2 f3 g1 g2 g3 hdy1 hdy2 hmp1 hmp2 hye e2
  omega

/-- the year is not negative from 0000-03-01 on -/
theorem civil_year_nonneg (z : Int) (hz : 0 ≤ z + 719468) : 0 ≤ (civilFromDays z).1 := by
  obtain ⟨era, doe, yoe, doy, mp, he, _, _, _, _, _, hc⟩ := civil_eq z hz
  rw [hc]
  simp only []
  split <;> omega

/-! ### zero-padded numbers -/

/-- the characters of `pad w n` -/
def padL (w n : Nat) : List Char :=
  List.replicate (w - (Nat.toDigits 10 n).length) '0' ++ Nat.toDigits 10 n

theorem pad_toList (w n : Nat) : (pad w n).toList = padL w n := by
  simp only [pad, padL, String.toList_append, String.toList_ofList, Nat.toString_eq_repr,
    Nat.toList_repr, ← String.length_toList]

theorem padL_isDigit (w n : Nat) : ∀ c ∈ padL w n, c.isDigit = true := by
  intro c hc
  simp only [padL, List.mem_append, List.mem_replicate] at hc
  rcases hc with hc | hc
  · rw [hc.2]; rfl
  · exact Nat.isDigit_of_mem_toDigits (by decide) (by decide) hc

theorem padL_ne_nil (w n : Nat) : padL w n ≠ [] := by
  simp [padL]

theorem padL_value (w n : Nat) : Nat.ofDigitChars 10 (padL w n) 0 = n := by
  simp [padL, Nat.ofDigitChars_append]

theorem padL_inj {w a b : Nat} (h : padL w a = padL w b) : a = b := by
  rw [← padL_value w a, ← padL_value w b, h]

theorem padL_length {w n : Nat} (hw : 0 < w) (h : n < 10 ^ w) : (padL w n).length = w := by
  have := (Nat.length_toDigits_le_iff (b := 10) (n := n) (by decide) hw).2 h
  simp only [padL, List.length_append, List.length_replicate]
  omega

/-- a digit is none of the punctuation characters of the time format or the value grammar -/
theorem isDigit_ne {c : Char} (h : c.isDigit = true) (d : Char) (hd : d.isDigit = false) :
    (c == d) = false := by
  cases hcd : c == d with
  | false => rfl
  | true => rw [eq_of_beq hcd, hd] at h; exact absurd h (by decide)

/-! ### fractional seconds -/

def fracL (nsec : Nat) : List Char :=
  if nsec = 0 then [] else '.' :: ((padL 9 nsec).reverse.dropWhile (· == '0')).reverse

theorem fracStr_toList (nsec : Nat) : (fracStr nsec).toList = fracL nsec := by
  simp only [fracStr, fracL]
  split
  · rfl
  · simp [String.toList_append, pad_toList]

theorem fracL_chars (nsec : Nat) : ∀ c ∈ fracL nsec, c = '.' ∨ c.isDigit = true := by
  intro c hc
  simp only [fracL] at hc
  split at hc
  · simp at hc
  · simp only [List.mem_cons, List.mem_reverse] at hc
    rcases hc with hc | hc
    · exact Or.inl hc
    · exact Or.inr (padL_isDigit 9 nsec c (List.mem_reverse.1 ((List.dropWhile_sublist _).mem hc)))

theorem mem_takeWhile_imp' {α : Type} (p : α → Bool) : ∀ (l : List α) (b : α),
    b ∈ l.takeWhile p → p b = true
  | [], b, h => by simp at h
  | a :: l, b, h => by
    rw [List.takeWhile_cons] at h
    split at h
    · next hp =>
      rcases List.mem_cons.1 h with rfl | h
      · exact hp
      · exact mem_takeWhile_imp' p l b h
    · simp at h

/-- stripping trailing zeros is injective on texts of one length -/
theorem strip_inj (l l' : List Char) (hl : l.length = l'.length)
    (h : (l.reverse.dropWhile (· == '0')).reverse = (l'.reverse.dropWhile (· == '0')).reverse) :
    l = l' := by
  have h' := List.reverse_inj.1 h
  have key : ∀ m : List Char, m = List.replicate (m.takeWhile (· == '0')).length '0' ++
      m.dropWhile (· == '0') := by
    intro m
    have h1 : m.takeWhile (· == '0') = List.replicate (m.takeWhile (· == '0')).length '0' := by
      rw [List.eq_replicate_iff]
      refine ⟨rfl, fun b hb => ?_⟩
      have := mem_takeWhile_imp' _ _ _ hb
      simpa using this
    rw [← h1]; exact List.takeWhile_append_dropWhile.symm
  have k1 := key l.reverse
  have k2 := key l'.reverse
  have hlen : (l.reverse.takeWhile (· == '0')).length = (l'.reverse.takeWhile (· == '0')).length := by
    have e1 := congrArg List.length k1
    have e2 := congrArg List.length k2
    simp only [List.length_append, List.length_replicate, List.length_reverse] at e1 e2
    have e3 := congrArg List.length h'
    omega
  have : l.reverse = l'.reverse := by rw [k1, k2, hlen, h']
  exact List.reverse_inj.1 this

theorem fracL_inj {a b : Nat} (ha : a < 1000000000) (hb : b < 1000000000)
    (h : fracL a = fracL b) : a = b := by
  simp only [fracL] at h
  split at h <;> split at h
  · omega
  · simp at h
  · simp at h
  · simp only [List.cons.injEq, true_and] at h
    exact padL_inj (strip_inj _ _
      (by rw [padL_length (by decide) (by simpa using ha),
        padL_length (by decide) (by simpa using hb)]) h)

/-! ### the text of an instant -/

/-- the characters of `Time.String()` from the displayed fields -/
def timeL (Y M D hh mm ss nsec : Nat) (neg : Bool) (oh om : Nat) (zone : List Char) : List Char :=
  padL 4 Y ++ '-' :: (padL 2 M ++ '-' :: (padL 2 D ++ ' ' :: (padL 2 hh ++ ':' :: (padL 2 mm ++
    ':' :: (padL 2 ss ++ (fracL nsec ++ ' ' :: (if neg then '-' else '+') ::
      ((padL 2 oh ++ padL 2 om) ++ ' ' :: zone)))))))

def TimeV.days (t : TimeV) : Int := (t.sec + t.offset).fdiv 86400
def TimeV.sod (t : TimeV) : Nat := ((t.sec + t.offset).fmod 86400).toNat

theorem render_toList (t : TimeV) :
    t.render.toList = timeL (civilFromDays t.days).1.toNat (civilFromDays t.days).2.1
      (civilFromDays t.days).2.2 (t.sod / 3600) (t.sod % 3600 / 60) (t.sod % 60) t.nsec
      (decide (t.offset < 0)) (t.offset.natAbs / 3600) (t.offset.natAbs % 3600 / 60)
      t.zone.toList := by
  have hsign : (if t.offset < 0 then "-" else "+" : String).toList =
      [if decide (t.offset < 0) then '-' else '+'] := by
    by_cases h : t.offset < 0 <;> simp [h]
  rcases hc : civilFromDays t.days with ⟨y, m, d⟩
  simp only [TimeV.days] at hc
  simp only [TimeV.render, hc, timeL, TimeV.sod, String.toList_append, pad_toList,
    fracStr_toList, hsign]
  simp [List.append_assoc]

theorem timeL_ne_nil (Y M D hh mm ss nsec : Nat) (neg : Bool) (oh om : Nat) (zone : List Char) :
    timeL Y M D hh mm ss nsec neg oh om zone ≠ [] := by
  intro h
  simp only [timeL, List.append_eq_nil_iff] at h
  exact padL_ne_nil 4 Y h.1

theorem timeL_chars (Y M D hh mm ss nsec : Nat) (neg : Bool) (oh om : Nat) (zone : List Char)
    (hz : ∀ c ∈ zone, stopV c = false) :
    ∀ c ∈ timeL Y M D hh mm ss nsec neg oh om zone, stopV c = false := by
  have hdig : ∀ c : Char, c.isDigit = true → stopV c = false := by
    intro c hc
    simp only [stopV]
    rw [isDigit_ne hc ',' (by decide), isDigit_ne hc ']' (by decide), isDigit_ne hc '}' (by decide),
      isDigit_ne hc ')' (by decide)]
    rfl
  have hp : ∀ w n, ∀ c ∈ padL w n, stopV c = false := fun w n c hc => hdig c (padL_isDigit w n c hc)
  intro c hc
  simp only [timeL, List.mem_append, List.mem_cons] at hc
  rcases hc with hc | rfl | hc | rfl | hc | rfl | hc | rfl | hc | rfl | hc | hc | rfl | hc |
    (hc | hc) | rfl | hc
  · exact hp _ _ c hc
  · decide
  · exact hp _ _ c hc
  · decide
  · exact hp _ _ c hc
  · decide
  · exact hp _ _ c hc
  · decide
  · exact hp _ _ c hc
  · decide
  · exact hp _ _ c hc
  · rcases fracL_chars nsec c hc with rfl | h
    · decide
    · exact hdig c h
  · decide
  · rw [hc]; cases neg <;> decide
  · exact hp _ _ c hc
  · exact hp _ _ c hc
  · decide
  · exact hz c hc

/-- splitting off a block of digits followed by a non-digit -/
theorem digits_split {w w' a b : Nat} {d : Char} (hd : d.isDigit = false) {r r' : List Char}
    (h : padL w a ++ d :: r = padL w' b ++ d :: r') : padL w a = padL w' b ∧ r = r' := by
  obtain ⟨h1, h2⟩ := prefix_unique (fun c => c == d) _ _ _ _
    (fun c hc => isDigit_ne (padL_isDigit w a c hc) d hd)
    (fun c hc => isDigit_ne (padL_isDigit w' b c hc) d hd)
    (Term.cons (by simp) r) (Term.cons (by simp) r') h
  exact ⟨h1, by simpa using h2⟩

theorem timeL_inj {Y M D hh mm ss nsec Y' M' D' hh' mm' ss' nsec' : Nat} {neg neg' : Bool}
    {oh om oh' om' : Nat} {zone zone' : List Char}
    (hn : nsec < 1000000000) (hn' : nsec' < 1000000000) (hom : om < 100) (hom' : om' < 100)
    (h : timeL Y M D hh mm ss nsec neg oh om zone =
      timeL Y' M' D' hh' mm' ss' nsec' neg' oh' om' zone') :
    Y = Y' ∧ M = M' ∧ D = D' ∧ hh = hh' ∧ mm = mm' ∧ ss = ss' ∧ nsec = nsec' ∧ neg = neg' ∧
      oh = oh' ∧ om = om' := by
  simp only [timeL] at h
  obtain ⟨e1, h⟩ := digits_split (by decide) h
  obtain ⟨e2, h⟩ := digits_split (by decide) h
  obtain ⟨e3, h⟩ := digits_split (by decide) h
  obtain ⟨e4, h⟩ := digits_split (by decide) h
  obtain ⟨e5, h⟩ := digits_split (by decide) h
  -- seconds: followed by `.` or by a space
  have hterm : ∀ n (r : List Char), Term (fun c => c == '.' || c == ' ') (fracL n ++ ' ' :: r) := by
    intro n r c hc
    simp only [fracL] at hc
    split at hc
    · simp at hc; rw [← hc]; rfl
    · simp at hc; rw [← hc]; rfl
  obtain ⟨e6, h⟩ := prefix_unique (fun c => c == '.' || c == ' ') _ _ _ _
    (fun c hc => by
      rw [isDigit_ne (padL_isDigit _ _ c hc) '.' (by decide),
        isDigit_ne (padL_isDigit _ _ c hc) ' ' (by decide)]; rfl)
    (fun c hc => by
      rw [isDigit_ne (padL_isDigit _ _ c hc) '.' (by decide),
        isDigit_ne (padL_isDigit _ _ c hc) ' ' (by decide)]; rfl)
    (hterm _ _) (hterm _ _) h
  -- fraction: followed by a space
  have hfrac : ∀ n, ∀ c ∈ fracL n, (c == ' ') = false := by
    intro n c hc
    rcases fracL_chars n c hc with rfl | hd
    · decide
    · exact isDigit_ne hd ' ' (by decide)
  obtain ⟨e7, h⟩ := prefix_unique (fun c => c == ' ') _ _ _ _ (hfrac _) (hfrac _)
    (Term.cons (by simp) _) (Term.cons (by simp) _) h
  simp only [List.cons.injEq, true_and] at h
  obtain ⟨e8, h⟩ := h
  -- offset: hours and minutes, then a space
  have hdd : ∀ a b, ∀ c ∈ padL 2 a ++ padL 2 b, (c == ' ') = false := by
    intro a b c hc
    rcases List.mem_append.1 hc with hc | hc <;>
      exact isDigit_ne (padL_isDigit _ _ c hc) ' ' (by decide)
  obtain ⟨e9, _⟩ := prefix_unique (fun c => c == ' ') _ _ _ _ (hdd _ _) (hdd _ _)
    (Term.cons (by simp) _) (Term.cons (by simp) _) h
  obtain ⟨e10, e11⟩ := List.append_inj' e9
    (by rw [padL_length (by decide) (by simpa using hom),
      padL_length (by decide) (by simpa using hom')])
  refine ⟨padL_inj e1, padL_inj e2, padL_inj e3, padL_inj e4, padL_inj e5, padL_inj e6,
    fracL_inj hn hn' e7, ?_, padL_inj e10, padL_inj e11⟩
  cases neg <;> cases neg' <;> first | rfl | (exact absurd e8 (by decide))

/-! ### the result -/

/-- **`Time.String()` determines the instant**, and is free of the grammar's delimiters. -/
theorem timeText : TimeText where
  ne := fun t => by rw [render_toList]; exact timeL_ne_nil _ _ _ _ _ _ _ _ _ _ _
  chars := fun t ht => by rw [render_toList]; exact timeL_chars _ _ _ _ _ _ _ _ _ _ _ ht.zone
  inj := fun a b ha hb h => by
    have h' := congrArg String.toList h
    rw [render_toList, render_toList] at h'
    obtain ⟨eY, eM, eD, ehh, emm, ess, ens, eneg, eoh, eom⟩ := timeL_inj ha.nsec hb.nsec
      (by omega) (by omega) h'
    have hda : 0 ≤ a.days + 719468 := by
      have := ha.year_lo
      simp only [TimeV.days, Int.fdiv_eq_ediv_of_nonneg _ (by decide : (0 : Int) ≤ 86400)]
      omega
    have hdb : 0 ≤ b.days + 719468 := by
      have := hb.year_lo
      simp only [TimeV.days, Int.fdiv_eq_ediv_of_nonneg _ (by decide : (0 : Int) ≤ 86400)]
      omega
    have hya := civil_year_nonneg a.days hda
    have hyb := civil_year_nonneg b.days hdb
    have hciv : civilFromDays a.days = civilFromDays b.days := by
      apply Prod.ext
      · omega
      · exact Prod.ext eM eD
    have hdays := civil_inj a.days b.days hda hdb hciv
    have hoa := ha.offset_min
    have hob := hb.offset_min
    have hoff : a.offset = b.offset := by
      have := decide_eq_decide.1 eneg
      omega
    have hsod : a.sod = b.sod := by omega
    simp only [TimeV.days, TimeV.sod, Int.fdiv_eq_ediv_of_nonneg _ (by decide : (0 : Int) ≤ 86400),
      Int.fmod_eq_emod_of_nonneg _ (by decide : (0 : Int) ≤ 86400)] at hdays hsod
    have hsec : a.sec = b.sec := by omega
    simp [TimeV.equal, hsec, ens]

end Yae
