/-
  C11: the extra annotation `compile_verified` needs (`VmCV.lit`: list / map literals carry a
  list / map type) is what the checker writes: the tree `check` returns satisfies it.
-/
import Yae.Proofs.VmCompileVerified
import Yae.Proofs.TypingCheck
namespace Yae.VmCV
open Yae

mutual
theorem check_lit (Γ : TEnv) : ∀ (e : Expr) (c : Nat) (T : Ty) (e' : Expr) (c' : Nat),
    check Γ c e = .ok (T, e', c') → lit e' = true
  | .str _ _, _, _, _, _, h | .num _ _, _, _, _, _, h | .time _ _, _, _, _, _, h
  | .bool _ _, _, _, _, _, h => by
    simp only [check, CR.pure_eq_ok, Prod.mk.injEq] at h
    rw [← h.2.1]; rfl
  | .list p .nil ty, c, T, e', c', h => by
    simp only [check, CR.pure_eq_ok, Prod.mk.injEq] at h
    rw [← h.2.1]; rfl
  | .list p (.cons e es) ty, c, T, e', c', h => by
    simp only [check, CR.bind_eq_ok, CR.pure_eq_ok, Prod.mk.injEq] at h
    obtain ⟨⟨T1, e1, c1⟩, h1, ⟨es1, c2⟩, h2, h3⟩ := h
    rw [← h3.2.1]
    simp only [lit, listShape, litL, check_lit Γ e _ _ _ _ h1, checkElems_lit Γ es _ _ _ _ h2,
      Bool.and_self]
  | .map p .nil ty, c, T, e', c', h => by
    simp only [check, CR.pure_eq_ok, Prod.mk.injEq] at h
    rw [← h.2.1]; rfl
  | .map p (.cons k v ps) ty, c, T, e', c', h => by
    simp only [check] at h
    obtain ⟨⟨T1, k1, c1⟩, h1, h⟩ := CR.bind_eq_ok.1 h
    split at h
    · exact absurd h (by simp [CR.throw_eq])
    simp only [CR.bind_eq_ok] at h
    obtain ⟨⟨T2, v1, c2⟩, h3, ⟨ps1, c3⟩, h4, h5⟩ := h
    simp only [CR.pure_eq_ok, Prod.mk.injEq] at h5
    rw [← h5.2.1]
    simp only [lit, mapShape, litP, check_lit Γ k _ _ _ _ h1, check_lit Γ v _ _ _ _ h3,
      checkPairs_lit Γ ps _ _ _ _ _ h4, Bool.and_self]
  | .obj p fs ty, c, T, e', c', h => by
    simp only [check, CR.bind_eq_ok] at h
    obtain ⟨⟨tys, fs1, c1⟩, h1, ty1, h2, h3⟩ := h
    simp only [CR.pure_eq_ok, Prod.mk.injEq] at h3
    rw [← h3.2.1]
    simp only [lit, checkFields_lit Γ fs _ _ _ _ h1]
  | .ident p x, c, T, e', c', h => by
    simp only [check] at h
    split at h
    · exact absurd h (by simp [CR.throw_eq])
    split at h
    · simp only [CR.pure_eq_ok, Prod.mk.injEq] at h
      rw [← h.2.1]; rfl
    · exact absurd h CR.throw_ne_ok
  | .call p col callee args cty res idx, c, T, e', c', h => by
    simp only [check] at h
    obtain ⟨⟨As, args1, c1⟩, h1, h⟩ := CR.bind_eq_ok.1 h
    have ha := checkArgs_lit Γ args _ _ _ _ h1
    split at h
    · next cp fname =>
      obtain ⟨⟨r, c2⟩, h2, h⟩ := CR.bind_eq_ok.1 h
      split at h
      · exact absurd h (by simp [CR.throw_eq])
      obtain ⟨_, h3, h⟩ := CR.bind_eq_ok.1 h
      simp only [CR.pure_eq_ok, Prod.mk.injEq] at h
      rw [← h.2.1]
      simp only [lit, ha, Bool.and_self, ite_self]
    · obtain ⟨⟨fT, callee1, c2⟩, h2, h⟩ := CR.bind_eq_ok.1 h
      have hc := check_lit Γ callee _ _ _ _ h2
      split at h
      · obtain ⟨o, h3, h⟩ := CR.bind_eq_ok.1 h
        split at h
        · exact absurd h CR.throw_ne_ok
        · split at h
          · exact absurd h (by simp [CR.throw_eq])
          obtain ⟨_, h4, h⟩ := CR.bind_eq_ok.1 h
          simp only [CR.pure_eq_ok, Prod.mk.injEq] at h
          rw [← h.2.1]
          simp only [lit, ha, hc, Bool.and_self, ite_self]
      · exact absurd h CR.throw_ne_ok
  | .subscript p col v i vty, c, T, e', c', h => by
    simp only [check] at h
    obtain ⟨⟨T1, v1, c1⟩, h1, h⟩ := CR.bind_eq_ok.1 h
    have hv := check_lit Γ v _ _ _ _ h1
    split at h
    · obtain ⟨⟨T2, i1, c2⟩, h2, h⟩ := CR.bind_eq_ok.1 h
      obtain ⟨_, h3, h⟩ := CR.bind_eq_ok.1 h
      simp only [CR.pure_eq_ok, Prod.mk.injEq] at h
      rw [← h.2.1]
      simp only [lit, hv, check_lit Γ i _ _ _ _ h2, Bool.and_self]
    · obtain ⟨⟨T2, i1, c2⟩, h2, h⟩ := CR.bind_eq_ok.1 h
      obtain ⟨_, h3, h⟩ := CR.bind_eq_ok.1 h
      simp only [CR.pure_eq_ok, Prod.mk.injEq] at h
      rw [← h.2.1]
      simp only [lit, hv, check_lit Γ i _ _ _ _ h2, Bool.and_self]
    · exact absurd h CR.throw_ne_ok
  | .member p col o f fp oty idx, c, T, e', c', h => by
    simp only [check] at h
    obtain ⟨⟨T1, o1, c1⟩, h1, h⟩ := CR.bind_eq_ok.1 h
    have ho := check_lit Γ o _ _ _ _ h1
    split at h
    · split at h
      · simp only [CR.pure_eq_ok, Prod.mk.injEq] at h
        rw [← h.2.1]
        simp only [lit, ho]
      · exact absurd h CR.throw_ne_ok
    · exact absurd h CR.throw_ne_ok
  | .unary .., _, _, _, _, h | .binary .., _, _, _, _, h | .ternary .., _, _, _, _, h
  | .group .., _, _, _, _, h => by
    simp only [check] at h
    exact absurd h CR.throw_ne_ok
theorem checkElems_lit (Γ : TEnv) : ∀ (es : ExprList) (c : Nat) (T : Ty) (es' : ExprList)
    (c' : Nat), checkElems Γ c T es = .ok (es', c') → litL es' = true
  | .nil, _, _, _, _, h => by
    simp only [checkElems, CR.pure_eq_ok, Prod.mk.injEq] at h
    rw [← h.1]; rfl
  | .cons e es, c, T, es', c', h => by
    simp only [checkElems, CR.bind_eq_ok] at h
    obtain ⟨⟨T1, e1, c1⟩, h1, _, h2, ⟨es1, c2⟩, h3, h4⟩ := h
    simp only [CR.pure_eq_ok, Prod.mk.injEq] at h4
    rw [← h4.1]
    simp only [litL, check_lit Γ e _ _ _ _ h1, checkElems_lit Γ es _ _ _ _ h3, Bool.and_self]
theorem checkPairs_lit (Γ : TEnv) : ∀ (ps : PairList) (c : Nat) (K V : Ty) (ps' : PairList)
    (c' : Nat), checkPairs Γ c K V ps = .ok (ps', c') → litP ps' = true
  | .nil, _, _, _, _, _, h => by
    simp only [checkPairs, CR.pure_eq_ok, Prod.mk.injEq] at h
    rw [← h.1]; rfl
  | .cons k v ps, c, K, V, ps', c', h => by
    simp only [checkPairs, CR.bind_eq_ok] at h
    obtain ⟨⟨T1, k1, c1⟩, h1, _, h2, ⟨T2, v1, c2⟩, h3, _, h4, ⟨ps1, c3⟩, h5, h6⟩ := h
    simp only [CR.pure_eq_ok, Prod.mk.injEq] at h6
    rw [← h6.1]
    simp only [litP, check_lit Γ k _ _ _ _ h1, check_lit Γ v _ _ _ _ h3,
      checkPairs_lit Γ ps _ _ _ _ _ h5, Bool.and_self]
theorem checkFields_lit (Γ : TEnv) : ∀ (fs : FieldEList) (c : Nat) (tys : FieldList)
    (fs' : FieldEList) (c' : Nat), checkFields Γ c fs = .ok (tys, fs', c') → litF fs' = true
  | .nil, _, _, _, _, h => by
    simp only [checkFields, CR.pure_eq_ok, Prod.mk.injEq] at h
    rw [← h.2.1]; rfl
  | .cons n e fs, c, tys, fs', c', h => by
    simp only [checkFields, CR.bind_eq_ok] at h
    obtain ⟨⟨T1, e1, c1⟩, h1, ⟨tys1, fs1, c2⟩, h2, h3⟩ := h
    simp only [CR.pure_eq_ok, Prod.mk.injEq] at h3
    rw [← h3.2.1]
    simp only [litF, check_lit Γ e _ _ _ _ h1, checkFields_lit Γ fs _ _ _ _ h2, Bool.and_self]
theorem checkArgs_lit (Γ : TEnv) : ∀ (es : ExprList) (c : Nat) (tys : TyList)
    (es' : ExprList) (c' : Nat), checkArgs Γ c es = .ok (tys, es', c') → litL es' = true
  | .nil, _, _, _, _, h => by
    simp only [checkArgs, CR.pure_eq_ok, Prod.mk.injEq] at h
    rw [← h.2.1]; rfl
  | .cons e es, c, tys, es', c', h => by
    simp only [checkArgs, CR.bind_eq_ok] at h
    obtain ⟨⟨T1, e1, c1⟩, h1, ⟨tys1, es1, c2⟩, h2, h3⟩ := h
    simp only [CR.pure_eq_ok, Prod.mk.injEq] at h3
    rw [← h3.2.1]
    simp only [litL, check_lit Γ e _ _ _ _ h1, checkArgs_lit Γ es _ _ _ _ h2, Bool.and_self]
end

end Yae.VmCV
