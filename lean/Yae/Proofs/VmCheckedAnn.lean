/-
  C03, checked programs, part 1: what the checker leaves on the tree, as far as the simulation
  theorem needs it.

  `CK Γ e` (recursive over the tree, in the positions the compiler visits): empty list / map
  literals carry `list[⊥]` / `map[⊥,⊥]`, non-empty ones some type, an object literal an object
  type of the literal's arity; a statically dispatched call resolves in `Γ.funs` to a declaration
  that passes `callOk`; the callee of a dynamically dispatched call is an annotated tree of
  function type; the operand of a subscript is an annotated tree of the list / map type the node
  is annotated with.

  `check_ck`: the tree `check` returns satisfies `CK`.   `ck_wa`: `CK` gives `wa`
  (`C03.WellAnnotated`).
-/
import Yae.Proofs.VmSimExec
import Yae.Proofs.SoundnessMain
import Yae.Proofs.TypingCheck
namespace Yae.VmChk
open Yae Yae.Vm Yae.VmSim

/-- the annotation of a subscript node is the (list / map) type of its annotated operand -/
def SubAnn (Γ : TEnv) (var : Expr) (vty : Option Ty) : Prop :=
  (∃ el, vty = some (.list el) ∧ Sound.Ann Γ var (.list el)) ∨
  (∃ k v, vty = some (.map k v) ∧ Sound.Ann Γ var (.map k v))

mutual
def CK (Γ : TEnv) : Expr → Prop
  | .list _ es ty => listTyOk es ty = true ∧ CKL Γ es
  | .map _ ps ty => mapTyOk ps ty = true ∧ CKP Γ ps
  | .obj _ fs ty => objTyOk fs ty = true ∧ CKF Γ fs
  | .call _ _ callee args _ resolved index =>
    (if resolved == "" then CK Γ callee ∧ ∃ n ps r, Sound.Ann Γ callee (.fn n ps r)
     else ∃ d, resolveStatic Γ.funs resolved index = some d ∧ callOk d args.length = true) ∧
    CKL Γ args
  | .subscript _ _ var idx vty => CK Γ var ∧ CK Γ idx ∧ SubAnn Γ var vty
  | .member _ _ obj _ _ _ _ => CK Γ obj
  | .unary .. => False
  | .binary .. => False
  | .ternary .. => False
  | .group .. => False
  | _ => True
def CKL (Γ : TEnv) : ExprList → Prop
  | .nil => True
  | .cons e es => CK Γ e ∧ CKL Γ es
def CKP (Γ : TEnv) : PairList → Prop
  | .nil => True
  | .cons k v ps => CK Γ k ∧ CK Γ v ∧ CKP Γ ps
def CKF (Γ : TEnv) : FieldEList → Prop
  | .nil => True
  | .cons _ e fs => CK Γ e ∧ CKF Γ fs
end

/-! ### `CK` gives `wa` -/

mutual
theorem ck_wa {Γ : TEnv} : ∀ e : Expr, CK Γ e → wa Γ.funs e = true
  | .str .., _ | .num .., _ | .time .., _ | .bool .., _ | .ident .., _ => rfl
  | .list _ es ty, h => by
    simp only [CK] at h
    simp only [wa, h.1, ckl_wa es h.2, Bool.and_self]
  | .map _ ps ty, h => by
    simp only [CK] at h
    simp only [wa, h.1, ckp_wa ps h.2, Bool.and_self]
  | .obj _ fs ty, h => by
    simp only [CK] at h
    simp only [wa, h.1, ckf_wa fs h.2, Bool.and_self]
  | .call _ _ callee args _ resolved index, h => by
    simp only [CK] at h
    obtain ⟨h1, h2⟩ := h
    simp only [wa]
    split at h1
    · next hr => simp only [hr, if_true, ck_wa callee h1.1, ckl_wa args h2, Bool.and_self]
    · next hr =>
      obtain ⟨d, hd, hok⟩ := h1
      simp only [hr, Bool.false_eq_true, if_false, hd, hok, ckl_wa args h2, Bool.and_self]
  | .subscript _ _ var idx vty, h => by
    simp only [CK] at h
    obtain ⟨h1, h2, h3⟩ := h
    have : subTyOk vty = true := by
      rcases h3 with ⟨el, rfl, _⟩ | ⟨k, v, rfl, _⟩ <;> rfl
    simp only [wa, this, ck_wa var h1, ck_wa idx h2, Bool.and_self]
  | .member _ _ obj _ _ _ _, h => by
    simp only [CK] at h
    simp only [wa, ck_wa obj h]
  | .unary .., h | .binary .., h | .ternary .., h | .group .., h => by
    simp only [CK] at h
theorem ckl_wa {Γ : TEnv} : ∀ es : ExprList, CKL Γ es → waL Γ.funs es = true
  | .nil, _ => rfl
  | .cons e es, h => by
    simp only [CKL] at h
    simp only [waL, ck_wa e h.1, ckl_wa es h.2, Bool.and_self]
theorem ckp_wa {Γ : TEnv} : ∀ ps : PairList, CKP Γ ps → waP Γ.funs ps = true
  | .nil, _ => rfl
  | .cons k v ps, h => by
    simp only [CKP] at h
    simp only [waP, ck_wa k h.1, ck_wa v h.2.1, ckp_wa ps h.2.2, Bool.and_self]
theorem ckf_wa {Γ : TEnv} : ∀ fs : FieldEList, CKF Γ fs → waF Γ.funs fs = true
  | .nil, _ => rfl
  | .cons _ e fs, h => by
    simp only [CKF] at h
    simp only [waF, ck_wa e h.1, ckf_wa fs h.2, Bool.and_self]
end

/-! ### a resolved declaration passes `callOk` -/

theorem annFields_length {Γ : TEnv} : ∀ (fs : FieldEList) (tys : FieldList),
    Sound.AnnFields Γ fs tys → tys.length = fs.length
  | .nil, _, h => by cases h; rfl
  | .cons n e fs, _, h => by
    cases h with
    | cons h1 h2 => simp [FieldList.length, FieldEList.length, annFields_length fs _ h2]

/-- a registered declaration that refers to a built-in has the built-in's signature and
laziness; so a call that instantiates the signature has the built-in's arity -/
theorem callOk_of_inst {funs : List FunDecl} (hf : Sound.FunsOK funs) {d : FunDecl}
    (hmem : d ∈ funs) {n : String} {ps : TyList} {ret : Ty} (hty : d.ty = .fn n ps ret)
    {k : Nat} (hk : k = ps.length) : callOk d k = true := by
  unfold callOk builtinOf
  have hok := hf d hmem
  cases hr : d.ref with
  | host name beh => rfl
  | builtin i =>
    simp only
    cases hb : builtins[i]? with
    | none => rfl
    | some b =>
      simp only [Sound.declOK, hr, hb, Bool.and_eq_true, beq_iff_eq] at hok
      have hbt : b.ty = d.ty := Sound.tyBeq_eq _ _ hok.2.1
      simp only [Bool.and_eq_true, beq_iff_eq]
      refine ⟨?_, hok.2.2.symm⟩
      unfold arityOf
      rw [hbt, hty]
      exact hk

/-! ### the tree `check` returns satisfies `CK` -/

section
set_option linter.unusedSectionVars false
variable {Γ : TEnv} (hf : Sound.FunsOK Γ.funs) (hv : Sound.VarsOK Γ)
include hf hv

mutual
theorem check_ck : ∀ (e : Expr) (c : Nat) (T : Ty) (e' : Expr) (c' : Nat),
    check Γ c e = .ok (T, e', c') → CK Γ e'
  | .str _ _, _, _, _, _, h | .num _ _, _, _, _, _, h | .time _ _, _, _, _, _, h
  | .bool _ _, _, _, _, _, h => by
    simp only [check, Yae.CR.pure_eq_ok, Prod.mk.injEq] at h
    rw [← h.2.1]; simp only [CK]
  | .list p .nil ty, c, T, e', c', h => by
    simp only [check, Yae.CR.pure_eq_ok, Prod.mk.injEq] at h
    rw [← h.2.1]; exact ⟨rfl, trivial⟩
  | .list p (.cons e es) ty, c, T, e', c', h => by
    simp only [check, Yae.CR.bind_eq_ok, Yae.CR.pure_eq_ok, Prod.mk.injEq] at h
    obtain ⟨⟨T1, e1, c1⟩, h1, ⟨es1, c2⟩, h2, h3⟩ := h
    rw [← h3.2.1]
    exact ⟨rfl, check_ck e _ _ _ _ h1, checkElems_ck es _ _ _ _ h2⟩
  | .map p .nil ty, c, T, e', c', h => by
    simp only [check, Yae.CR.pure_eq_ok, Prod.mk.injEq] at h
    rw [← h.2.1]; exact ⟨rfl, trivial⟩
  | .map p (.cons k v ps) ty, c, T, e', c', h => by
    simp only [check] at h
    obtain ⟨⟨T1, k1, c1⟩, h1, h⟩ := Yae.CR.bind_eq_ok.1 h
    split at h
    · exact absurd h (by simp [Yae.CR.throw_eq])
    simp only [Yae.CR.bind_eq_ok] at h
    obtain ⟨⟨T2, v1, c2⟩, h3, ⟨ps1, c3⟩, h4, h5⟩ := h
    simp only [Yae.CR.pure_eq_ok, Prod.mk.injEq] at h5
    rw [← h5.2.1]
    exact ⟨rfl, check_ck k _ _ _ _ h1, check_ck v _ _ _ _ h3, checkPairs_ck ps _ _ _ _ _ h4⟩
  | .obj p fs ty, c, T, e', c', h => by
    simp only [check, Yae.CR.bind_eq_ok] at h
    obtain ⟨⟨tys, fs1, c1⟩, h1, ty1, h2, h3⟩ := h
    simp only [Yae.CR.pure_eq_ok, Prod.mk.injEq] at h3
    rw [← h3.2.1]
    obtain ⟨rfl, _⟩ := Sound.mkObj_inv h2
    have hlen := annFields_length _ _ (Sound.checkFields_ann hf hv fs _ _ _ _ h1).1
    refine ⟨?_, checkFields_ck fs _ _ _ _ h1⟩
    simp only [objTyOk, hlen, beq_self_eq_true]
  | .ident p x, c, T, e', c', h => by
    simp only [check] at h
    split at h
    · exact absurd h (by simp [Yae.CR.throw_eq])
    split at h
    · simp only [Yae.CR.pure_eq_ok, Prod.mk.injEq] at h
      rw [← h.2.1]; simp only [CK]
    · exact absurd h Yae.CR.throw_ne_ok
  | .call p col callee args cty res idx, c, T, e', c', h => by
    obtain ⟨argTys, args', c1, h1, hcases⟩ := Sound.check_call_inv h
    have hargs := checkArgs_ck args _ _ _ _ h1
    obtain ⟨a1, w1, s1⟩ := Sound.checkArgs_ann hf hv args c _ _ _ h1
    rcases hcases with ⟨cp, fname, r, _, h2, hlen, hass, rfl, rfl⟩ |
      ⟨name, ps, ret, callee', c2, ps', h2, hinf, hlen, hass, rfl⟩
    · obtain ⟨hne, d, n, ps, ret, hres, hty, σ, _, hse, _⟩ := Sound.resolve_ok hf s1 w1 h2 hlen hass
      simp only [CK, hne, Bool.false_eq_true, if_false]
      refine ⟨⟨d, hres, callOk_of_inst hf (Sound.resolveStatic_mem hres) hty ?_⟩, hargs⟩
      rw [Sound.annArgs_length _ _ a1, ← Sound.StructEqList.length' hse, length_substGList]
    · simp only [CK, beq_self_eq_true, if_true]
      exact ⟨⟨check_ck callee _ _ _ _ h2, name, ps, ret, (Sound.check_ann hf hv callee _ _ _ _ h2).1⟩,
        hargs⟩
  | .subscript p col v i vty, c, T, e', c', h => by
    simp only [check] at h
    obtain ⟨⟨T1, v1, c1⟩, h1, h⟩ := Yae.CR.bind_eq_ok.1 h
    have hv1 := check_ck v _ _ _ _ h1
    have ha := (Sound.check_ann hf hv v _ _ _ _ h1).1
    cases T1 with
    | list el =>
      obtain ⟨⟨T2, i1, c2⟩, h2, h⟩ := Yae.CR.bind_eq_ok.1 h
      obtain ⟨_, h3, h⟩ := Yae.CR.bind_eq_ok.1 h
      simp only [Yae.CR.pure_eq_ok, Prod.mk.injEq] at h
      rw [← h.2.1]
      exact ⟨hv1, check_ck i _ _ _ _ h2, .inl ⟨_, rfl, ha⟩⟩
    | map k v =>
      obtain ⟨⟨T2, i1, c2⟩, h2, h⟩ := Yae.CR.bind_eq_ok.1 h
      obtain ⟨_, h3, h⟩ := Yae.CR.bind_eq_ok.1 h
      simp only [Yae.CR.pure_eq_ok, Prod.mk.injEq] at h
      rw [← h.2.1]
      exact ⟨hv1, check_ck i _ _ _ _ h2, .inr ⟨_, _, rfl, ha⟩⟩
    | _ => exact absurd h Yae.CR.throw_ne_ok
  | .member p col o f fp oty idx, c, T, e', c', h => by
    simp only [check] at h
    obtain ⟨⟨T1, o1, c1⟩, h1, h⟩ := Yae.CR.bind_eq_ok.1 h
    have ho := check_ck o _ _ _ _ h1
    split at h
    · split at h
      · simp only [Yae.CR.pure_eq_ok, Prod.mk.injEq] at h
        rw [← h.2.1]
        exact ho
      · exact absurd h Yae.CR.throw_ne_ok
    · exact absurd h Yae.CR.throw_ne_ok
  | .unary .., _, _, _, _, h | .binary .., _, _, _, _, h | .ternary .., _, _, _, _, h
  | .group .., _, _, _, _, h => by
    simp only [check] at h
    exact absurd h Yae.CR.throw_ne_ok
theorem checkElems_ck : ∀ (es : ExprList) (c : Nat) (T : Ty) (es' : ExprList)
    (c' : Nat), checkElems Γ c T es = .ok (es', c') → CKL Γ es'
  | .nil, _, _, _, _, h => by
    simp only [checkElems, Yae.CR.pure_eq_ok, Prod.mk.injEq] at h
    rw [← h.1]; trivial
  | .cons e es, c, T, es', c', h => by
    simp only [checkElems, Yae.CR.bind_eq_ok] at h
    obtain ⟨⟨T1, e1, c1⟩, h1, _, h2, ⟨es1, c2⟩, h3, h4⟩ := h
    simp only [Yae.CR.pure_eq_ok, Prod.mk.injEq] at h4
    rw [← h4.1]
    exact ⟨check_ck e _ _ _ _ h1, checkElems_ck es _ _ _ _ h3⟩
theorem checkPairs_ck : ∀ (ps : PairList) (c : Nat) (K V : Ty) (ps' : PairList)
    (c' : Nat), checkPairs Γ c K V ps = .ok (ps', c') → CKP Γ ps'
  | .nil, _, _, _, _, _, h => by
    simp only [checkPairs, Yae.CR.pure_eq_ok, Prod.mk.injEq] at h
    rw [← h.1]; trivial
  | .cons k v ps, c, K, V, ps', c', h => by
    simp only [checkPairs, Yae.CR.bind_eq_ok] at h
    obtain ⟨⟨T1, k1, c1⟩, h1, _, h2, ⟨T2, v1, c2⟩, h3, _, h4, ⟨ps1, c3⟩, h5, h6⟩ := h
    simp only [Yae.CR.pure_eq_ok, Prod.mk.injEq] at h6
    rw [← h6.1]
    exact ⟨check_ck k _ _ _ _ h1, check_ck v _ _ _ _ h3, checkPairs_ck ps _ _ _ _ _ h5⟩
theorem checkFields_ck : ∀ (fs : FieldEList) (c : Nat) (tys : FieldList)
    (fs' : FieldEList) (c' : Nat), checkFields Γ c fs = .ok (tys, fs', c') → CKF Γ fs'
  | .nil, _, _, _, _, h => by
    simp only [checkFields, Yae.CR.pure_eq_ok, Prod.mk.injEq] at h
    rw [← h.2.1]; trivial
  | .cons n e fs, c, tys, fs', c', h => by
    simp only [checkFields, Yae.CR.bind_eq_ok] at h
    obtain ⟨⟨T1, e1, c1⟩, h1, ⟨tys1, fs1, c2⟩, h2, h3⟩ := h
    simp only [Yae.CR.pure_eq_ok, Prod.mk.injEq] at h3
    rw [← h3.2.1]
    exact ⟨check_ck e _ _ _ _ h1, checkFields_ck fs _ _ _ _ h2⟩
theorem checkArgs_ck : ∀ (es : ExprList) (c : Nat) (tys : TyList)
    (es' : ExprList) (c' : Nat), checkArgs Γ c es = .ok (tys, es', c') → CKL Γ es'
  | .nil, _, _, _, _, h => by
    simp only [checkArgs, Yae.CR.pure_eq_ok, Prod.mk.injEq] at h
    rw [← h.2.1]; trivial
  | .cons e es, c, tys, es', c', h => by
    simp only [checkArgs, Yae.CR.bind_eq_ok] at h
    obtain ⟨⟨T1, e1, c1⟩, h1, ⟨tys1, es1, c2⟩, h2, h3⟩ := h
    simp only [Yae.CR.pure_eq_ok, Prod.mk.injEq] at h3
    rw [← h3.2.1]
    exact ⟨check_ck e _ _ _ _ h1, checkArgs_ck es _ _ _ _ h2⟩
end

end

end Yae.VmChk
