/-
  C03, checked programs, part 4: fuel monotonicity of the machine.  An outcome of `run` other
  than fuel exhaustion does not depend on the fuel: with more fuel the machine returns the same
  value or failure and the same log.
-/
import Yae.Proofs.VmSimBase
namespace Yae.VmChk
open Yae Yae.Vm Yae.VmSim EvalM

/-- `y` is `x`, unless `x` ran out of fuel -/
def Le {α : Type} (x y : Except Fail α × List Event) : Prop := x.1 ≠ .error .fuel → y = x

/-- pointwise, from every log -/
structure LeM {α : Type} (x y : EvalM α) : Prop where
  le : ∀ l, Le (x l) (y l)

theorem LeM.refl {α : Type} (x : EvalM α) : LeM x x := ⟨fun _ _ => rfl⟩

theorem LeM.bind {α β : Type} {x y : EvalM α} {f g : α → EvalM β}
    (h : LeM x y) (hf : ∀ a, LeM (f a) (g a)) : LeM (x >>= f) (y >>= g) := by
  refine ⟨fun l hne => ?_⟩
  show (y >>= g) l = (x >>= f) l
  rw [bind_apply] at hne
  rw [bind_apply, bind_apply]
  rcases hx : x l with ⟨e | a, l1⟩
  · rw [hx, andThen_err] at hne
    have he : e ≠ .fuel := fun h => hne (by rw [h])
    rw [h.le l (by rw [hx]; intro h'; exact he (by cases h'; rfl)), hx]
    rfl
  · rw [hx, andThen_ok] at hne
    rw [h.le l (by rw [hx]; simp), hx, andThen_ok, andThen_ok]
    exact (hf a).le l1 hne

section
variable {ρ : REnv} {P : Pool} {F : Nat}

/-- the induction hypothesis: one more unit of fuel does not change a non-fuel outcome -/
def RunMono (ρ : REnv) (P : Pool) (F : Nat) : Prop :=
  ∀ C pc st, LeM (run F ρ P C pc st) (run (F+1) ρ P C pc st)

theorem forceAll_mono (ih : RunMono ρ P F) (ths : List (Code × Ty)) :
    ∀ (order : List Nat) (acc : Option Val),
      LeM (forceAll F ρ P ths order acc) (forceAll (F+1) ρ P ths order acc)
  | [], some v => by unfold forceAll; exact LeM.refl _
  | [], none => by unfold forceAll; exact LeM.refl _
  | i :: rest, acc => by
    unfold forceAll
    split
    · exact LeM.bind (ih _ _ _) fun v => forceAll_mono ih ths rest (some v)
    · exact LeM.refl _

theorem callLazy_mono (ih : RunMono ρ P F) (d : FunDecl) (ths : List (Code × Ty)) :
    LeM (callLazy F ρ P d ths) (callLazy (F+1) ρ P d ths) := by
  unfold callLazy
  split
  · exact LeM.bind (LeM.refl _) fun _ => forceAll_mono ih ths _ _
  · split
    · refine LeM.bind (ih _ _ _) fun v => ?_
      split
      · exact ih _ _ _
      · exact ih _ _ _
      · exact LeM.refl _
    · exact LeM.refl _
  · exact LeM.refl _

theorem run_mono_succ (ih : RunMono ρ P F) : RunMono ρ P (F+1) := by
  intro C pc st
  have hl := callLazy_mono ih
  conv => lhs; rw [run]
  conv => rhs; rw [run]
  split
  · exact LeM.refl _
  · split
    all_goals
      repeat' (first
        | exact LeM.refl _
        | exact ih _ _ _
        | exact hl _ _
        | apply LeM.bind
        | intro _
        | split
        | (show LeM (if _ then _ else _) (if _ then _ else _)))

theorem run_mono_all : ∀ F, RunMono ρ P F
  | 0 => fun C pc st => ⟨fun l h => by rw [run_zero] at h; exact absurd rfl h⟩
  | F+1 => run_mono_succ (run_mono_all F)

/-- **Fuel monotonicity.**  If the machine, with fuel `F`, ends in anything but fuel exhaustion,
it ends in exactly the same way (result and log) with any larger fuel. -/
theorem run_fuel_mono {C : Code} {pc : Nat} {st : List Slot} {l : List Event} {F F' : Nat}
    (hle : F ≤ F') (h : (run F ρ P C pc st l).1 ≠ .error .fuel) :
    run F' ρ P C pc st l = run F ρ P C pc st l := by
  induction hle with
  | refl => rfl
  | step _ ih => rw [(run_mono_all _ C pc st).le l (by rw [ih]; exact h), ih]

end

end Yae.VmChk
