/-
  C03, checked programs, part 3: the semantic hypothesis `KA` (`C03.KindsAgree`) of the
  simulation theorem, for the tree the checker returns, from type soundness (C01: the operand of
  a subscript evaluates to a value of its static list / map type, which is the annotation) and
  from `eval_noLazy` (the callee of a dynamic call does not evaluate to a lazy function value
  when the environment holds none).
-/
import Yae.Proofs.VmCheckedAnn
import Yae.Proofs.VmCheckedNoLazy
namespace Yae.VmChk
open Yae Yae.Vm Yae.VmSim

/-- type soundness, in the form used here -/
theorem ann_sound {Γ : TEnv} {ρ : REnv} (hf : Sound.FunsOK Γ.funs) (henv : Sound.EnvOK Γ ρ)
    {e : Expr} {T : Ty} (hA : Sound.Ann Γ e T) {f : Nat} {dbg : Bool} {l l' : List Event} {v : Val}
    (he : eval f dbg ρ e l = (.ok v, l')) : Sound.HasTy v T := by
  have := Sound.evalOK (dbg := dbg) hf henv f e T hA l
  rw [he] at this
  exact this

theorem subAnn_kind {Γ : TEnv} {ρ : REnv} (hf : Sound.FunsOK Γ.funs) (henv : Sound.EnvOK Γ ρ)
    {var : Expr} {vty : Option Ty} (h : SubAnn Γ var vty) {f : Nat} {l l' : List Event} {v : Val}
    (he : eval f false ρ var l = (.ok v, l')) : ValKind vty v := by
  rcases h with ⟨el, rfl, hA⟩ | ⟨k, x, rfl, hA⟩
  · obtain ⟨el', vs, rfl, _⟩ := (ann_sound hf henv hA he).list_inv
    trivial
  · obtain ⟨k', v', es, rfl, _⟩ := (ann_sound hf henv hA he).map_inv
    trivial

/-! ### the callee condition on its own

`DynStrict ρ e`: in the positions the compiler visits, whenever the callee of a dynamically
dispatched call evaluates, the value is not a function value with the lazy flag.  This is the
part of `KA` that type soundness does not give; it is what the end-to-end theorem needs beyond
the checker and the environment check, and `NoLazyEnv` implies it for every expression. -/

mutual
def DynStrict (ρ : REnv) : Expr → Prop
  | .list _ es _ => DynStrictL ρ es
  | .map _ ps _ => DynStrictP ρ ps
  | .obj _ fs _ => DynStrictF ρ fs
  | .call _ _ callee args _ resolved _ =>
    (resolved = "" → DynStrict ρ callee ∧
      ∀ f l v l', eval f false ρ callee l = (.ok v, l') → ∀ ty ref, v ≠ .fn ty ref true) ∧
    DynStrictL ρ args
  | .subscript _ _ var idx _ => DynStrict ρ var ∧ DynStrict ρ idx
  | .member _ _ obj _ _ _ _ => DynStrict ρ obj
  | _ => True
def DynStrictL (ρ : REnv) : ExprList → Prop
  | .nil => True
  | .cons e es => DynStrict ρ e ∧ DynStrictL ρ es
def DynStrictP (ρ : REnv) : PairList → Prop
  | .nil => True
  | .cons k v ps => DynStrict ρ k ∧ DynStrict ρ v ∧ DynStrictP ρ ps
def DynStrictF (ρ : REnv) : FieldEList → Prop
  | .nil => True
  | .cons _ e fs => DynStrict ρ e ∧ DynStrictF ρ fs
end

section
set_option linter.unusedSectionVars false
variable {ρ : REnv} (hnl : NoLazyEnv ρ)
include hnl

mutual
/-- without lazy function values in the environment, every expression is `DynStrict` -/
theorem noLazy_dynStrict : ∀ e : Expr, DynStrict ρ e
  | .str .. | .num .. | .time .. | .bool .. | .ident .. => by simp only [DynStrict]
  | .unary .. | .binary .. | .ternary .. | .group .. => by simp only [DynStrict]
  | .list _ es _ => by simp only [DynStrict]; exact noLazy_dynStrictL es
  | .map _ ps _ => by simp only [DynStrict]; exact noLazy_dynStrictP ps
  | .obj _ fs _ => by simp only [DynStrict]; exact noLazy_dynStrictF fs
  | .call _ _ callee args _ resolved index => by
    simp only [DynStrict]
    refine ⟨fun _ => ⟨noLazy_dynStrict callee, fun f l v l' hv ty ref hfn => ?_⟩,
      noLazy_dynStrictL args⟩
    have := eval_noLazy hnl hv
    rw [hfn] at this
    simp [noLazy] at this
  | .subscript _ _ var idx _ => by
    simp only [DynStrict]; exact ⟨noLazy_dynStrict var, noLazy_dynStrict idx⟩
  | .member _ _ obj _ _ _ _ => by simp only [DynStrict]; exact noLazy_dynStrict obj
theorem noLazy_dynStrictL : ∀ es : ExprList, DynStrictL ρ es
  | .nil => by simp only [DynStrictL]
  | .cons e es => by simp only [DynStrictL]; exact ⟨noLazy_dynStrict e, noLazy_dynStrictL es⟩
theorem noLazy_dynStrictP : ∀ ps : PairList, DynStrictP ρ ps
  | .nil => by simp only [DynStrictP]
  | .cons k v ps => by
    simp only [DynStrictP]
    exact ⟨noLazy_dynStrict k, noLazy_dynStrict v, noLazy_dynStrictP ps⟩
theorem noLazy_dynStrictF : ∀ fs : FieldEList, DynStrictF ρ fs
  | .nil => by simp only [DynStrictF]
  | .cons _ e fs => by simp only [DynStrictF]; exact ⟨noLazy_dynStrict e, noLazy_dynStrictF fs⟩
end

end

mutual
/-- `DynStrict` is part of `KA` (so it is necessary for the simulation theorem's hypothesis) -/
theorem ka_dynStrict {ρ : REnv} : ∀ e : Expr, KA ρ e → DynStrict ρ e
  | .str .., _ | .num .., _ | .time .., _ | .bool .., _ | .ident .., _ => by simp only [DynStrict]
  | .unary .., _ | .binary .., _ | .ternary .., _ | .group .., _ => by simp only [DynStrict]
  | .list _ es _, h => by simp only [KA] at h; simp only [DynStrict]; exact kal_dynStrict es h
  | .map _ ps _, h => by simp only [KA] at h; simp only [DynStrict]; exact kap_dynStrict ps h
  | .obj _ fs _, h => by simp only [KA] at h; simp only [DynStrict]; exact kaf_dynStrict fs h
  | .call _ _ callee args _ resolved index, h => by
    simp only [KA] at h
    simp only [DynStrict]
    exact ⟨fun hr => ⟨ka_dynStrict callee (h.1 hr).1, (h.1 hr).2⟩, kal_dynStrict args h.2⟩
  | .subscript _ _ var idx _, h => by
    simp only [KA] at h
    simp only [DynStrict]; exact ⟨ka_dynStrict var h.1, ka_dynStrict idx h.2.1⟩
  | .member _ _ obj _ _ _ _, h => by
    simp only [KA] at h; simp only [DynStrict]; exact ka_dynStrict obj h
theorem kal_dynStrict {ρ : REnv} : ∀ es : ExprList, KAL ρ es → DynStrictL ρ es
  | .nil, _ => by simp only [DynStrictL]
  | .cons e es, h => by
    simp only [KAL] at h; simp only [DynStrictL]; exact ⟨ka_dynStrict e h.1, kal_dynStrict es h.2⟩
theorem kap_dynStrict {ρ : REnv} : ∀ ps : PairList, KAP ρ ps → DynStrictP ρ ps
  | .nil, _ => by simp only [DynStrictP]
  | .cons k v ps, h => by
    simp only [KAP] at h; simp only [DynStrictP]
    exact ⟨ka_dynStrict k h.1, ka_dynStrict v h.2.1, kap_dynStrict ps h.2.2⟩
theorem kaf_dynStrict {ρ : REnv} : ∀ fs : FieldEList, KAF ρ fs → DynStrictF ρ fs
  | .nil, _ => by simp only [DynStrictF]
  | .cons _ e fs, h => by
    simp only [KAF] at h; simp only [DynStrictF]; exact ⟨ka_dynStrict e h.1, kaf_dynStrict fs h.2⟩
end

section
set_option linter.unusedSectionVars false
variable {Γ : TEnv} {ρ : REnv} (hf : Sound.FunsOK Γ.funs) (henv : Sound.EnvOK Γ ρ)
include hf henv

mutual
theorem ck_ka : ∀ e : Expr, CK Γ e → DynStrict ρ e → KA ρ e
  | .str .., _, _ | .num .., _, _ | .time .., _, _ | .bool .., _, _ | .ident .., _, _ => by
    simp only [KA]
  | .unary .., _, _ | .binary .., _, _ | .ternary .., _, _ | .group .., _, _ => by simp only [KA]
  | .list _ es _, h, hd => by
    simp only [CK] at h; simp only [DynStrict] at hd; simp only [KA]; exact ckl_ka es h.2 hd
  | .map _ ps _, h, hd => by
    simp only [CK] at h; simp only [DynStrict] at hd; simp only [KA]; exact ckp_ka ps h.2 hd
  | .obj _ fs _, h, hd => by
    simp only [CK] at h; simp only [DynStrict] at hd; simp only [KA]; exact ckf_ka fs h.2 hd
  | .call _ _ callee args _ resolved index, h, hd => by
    simp only [CK] at h
    simp only [DynStrict] at hd
    simp only [KA]
    refine ⟨fun hr => ?_, ckl_ka args h.2 hd.2⟩
    have h1 := h.1
    simp only [hr, beq_self_eq_true, if_true] at h1
    exact ⟨ck_ka callee h1.1 (hd.1 hr).1, (hd.1 hr).2⟩
  | .subscript _ _ var idx vty, h, hd => by
    simp only [CK] at h
    simp only [DynStrict] at hd
    simp only [KA]
    exact ⟨ck_ka var h.1 hd.1, ck_ka idx h.2.1 hd.2,
      fun f l v l' hv => subAnn_kind hf henv h.2.2 hv⟩
  | .member _ _ obj _ _ _ _, h, hd => by
    simp only [CK] at h; simp only [DynStrict] at hd; simp only [KA]; exact ck_ka obj h hd
theorem ckl_ka : ∀ es : ExprList, CKL Γ es → DynStrictL ρ es → KAL ρ es
  | .nil, _, _ => by simp only [KAL]
  | .cons e es, h, hd => by
    simp only [CKL] at h; simp only [DynStrictL] at hd; simp only [KAL]
    exact ⟨ck_ka e h.1 hd.1, ckl_ka es h.2 hd.2⟩
theorem ckp_ka : ∀ ps : PairList, CKP Γ ps → DynStrictP ρ ps → KAP ρ ps
  | .nil, _, _ => by simp only [KAP]
  | .cons k v ps, h, hd => by
    simp only [CKP] at h; simp only [DynStrictP] at hd; simp only [KAP]
    exact ⟨ck_ka k h.1 hd.1, ck_ka v h.2.1 hd.2.1, ckp_ka ps h.2.2 hd.2.2⟩
theorem ckf_ka : ∀ fs : FieldEList, CKF Γ fs → DynStrictF ρ fs → KAF ρ fs
  | .nil, _, _ => by simp only [KAF]
  | .cons _ e fs, h, hd => by
    simp only [CKF] at h; simp only [DynStrictF] at hd; simp only [KAF]
    exact ⟨ck_ka e h.1 hd.1, ckf_ka fs h.2 hd.2⟩
end

end

end Yae.VmChk
