/-
  C03, checked programs, part 5: the pieces put together.  For the tree `check` returns, in an
  environment that passed the environment check and in which no dynamically called callee is a
  lazy function value (`DynStrict`; implied by `NoLazyEnv`), the three
  hypotheses of the simulation theorem hold; hence machine = evaluator for every sufficient fuel,
  and, with the verifier's step bound (C11) and fuel monotonicity, for the fuel `runVm` passes.
-/
import Yae.Proofs.VmCheckedKinds
import Yae.Proofs.VmCheckedFuel
import Yae.Proofs.VmSimCall
import Yae.Proofs.VmSimCompile
import Yae.Proofs.VmCheckLit
namespace Yae.VmChk
open Yae Yae.Vm Yae.VmSim

section
variable {Γ : TEnv} {ρ : REnv} {c c' : Nat} {e e' : Expr} {T : Ty}

theorem checked_wa (hf : Sound.FunsOK Γ.funs) (hv : Sound.VarsOK Γ)
    (hc : check Γ c e = .ok (T, e', c')) : wa Γ.funs e' = true :=
  ck_wa e' (check_ck hf hv e c T e' c' hc)

theorem checked_ka (hf : Sound.FunsOK Γ.funs) (henv : Sound.EnvOK Γ ρ) (hd : DynStrict ρ e')
    (hc : check Γ c e = .ok (T, e', c')) : KA ρ e' :=
  ck_ka hf henv e' (check_ck hf henv.tys e c T e' c' hc) hd

/-- an allowed failure is not an internal fault -/
theorem notStuck_of_allowed {α : Type} {f : Fail} (h : Sound.Allowed f) :
    NotStuck (.error f : Except Fail α) := by
  cases f <;> first | trivial | exact h

/-- progress (C02): with more fuel than the depth, evaluation of the checked tree does not end
in an internal fault -/
theorem checked_notStuck (hf : Sound.FunsOK Γ.funs) (henv : Sound.EnvOK Γ ρ)
    (hc : check Γ c e = .ok (T, e', c')) {fuel : Nat} (hfuel : e'.depth < fuel) (dbg : Bool)
    (log : List Event) : NotStuck (eval fuel dbg ρ e' log).1 := by
  have hA := (Sound.check_ann hf henv.tys e c T e' c' hc).1
  have h := Sound.evalOK (dbg := dbg) hf henv fuel e' T hA log
  rcases hr : eval fuel dbg ρ e' log with ⟨r, l⟩
  rw [hr] at h
  cases r with
  | ok v => trivial
  | error f =>
    rcases h with h | ⟨_, h⟩
    · exact notStuck_of_allowed h
    · exact absurd hfuel h

/-- machine = evaluator on checked programs, for every fuel from `W e' + 1` on -/
theorem checked_run_eq (hf : Sound.FunsOK Γ.funs) (henv : Sound.EnvOK Γ ρ) (hd : DynStrict ρ e')
    (hc : check Γ c e = .ok (T, e', c')) {code : Code} {pool : Pool}
    (hcomp : compile Γ.funs e' = .ok (code, pool)) (log : List Event) {F : Nat}
    (hF : W e' + 1 ≤ F) :
    run F ρ pool code 0 [] log = eval (e'.depth + 1) false ρ e' log := by
  obtain ⟨ob, hlay, hret⟩ := compile_layout hcomp
  exact exec_correct henv.funs hlay hret (checked_wa hf henv.tys hc) (checked_ka hf henv hd hc) hF
    log (checked_notStuck hf henv hc (Nat.lt_succ_self _) false log)

/-- the code compiled from a checked tree passes the verifier -/
theorem checked_verified (hf : Sound.FunsOK Γ.funs) (hv : Sound.VarsOK Γ)
    (hc : check Γ c e = .ok (T, e', c')) {code : Code} {pool : Pool}
    (hcomp : compile Γ.funs e' = .ok (code, pool)) : VmVerify.verify code pool = true :=
  VmCV.compile_verified hcomp (checked_wa hf hv hc) (VmCV.check_lit Γ e c T e' c' hc)

/-- machine = evaluator on checked programs, for every fuel from the number of emitted bytes on
(main code and deferred bodies): the verifier's bound excludes fuel exhaustion there, and fuel
monotonicity carries the outcome up to `W e' + 1` -/
theorem checked_run_eq_size (hf : Sound.FunsOK Γ.funs) (henv : Sound.EnvOK Γ ρ)
    (hd : DynStrict ρ e') (hc : check Γ c e = .ok (T, e', c')) {code : Code} {pool : Pool}
    (hcomp : compile Γ.funs e' = .ok (code, pool)) (log : List Event) {F : Nat}
    (hF : totalCodeSize code pool ≤ F) :
    run F ρ pool code 0 [] log = eval (e'.depth + 1) false ρ e' log := by
  have hver := checked_verified hf henv.tys hc hcomp
  have hgood := VmVerify.verify_good hver ρ F log
  have hne : (run F ρ pool code 0 [] log).1 ≠ .error .fuel := by
    intro h
    exact hgood .fuel h hF
  rw [← run_fuel_mono (F' := max F (W e' + 1)) (Nat.le_max_left _ _) hne]
  exact checked_run_eq hf henv hd hc hcomp log (Nat.le_max_right _ _)

end

end Yae.VmChk
