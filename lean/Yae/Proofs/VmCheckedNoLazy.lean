/-
  C03, checked programs, part 2: function VALUES with the lazy flag.

  The machine refuses `DYNAMIC_CALL` of a lazy function value (in Go: it passes evaluated
  arguments where the function expects thunks, defect D20), the evaluator builds thunks.  The two
  agree on programs in which no lazy function value ever reaches the callee position of a
  dynamic call.  Function values are not created by evaluation (literals, built-ins and the host
  behaviours of the model only pass them on), so it is enough that the environment holds none:

  `noLazy v`     no function value with the lazy flag occurs anywhere inside `v` (Bool, deep),
  `NoLazyEnv ρ`  every variable of `ρ` is bound to such a value (decidable),
  `eval_noLazy`  evaluation (any expression, any fuel, with or without debug recording, from any
                 log) in such an environment only produces such values.  No typing is needed.
-/
import Yae.Proofs.VmSimBase
import Yae.Proofs.SoundnessBuiltins
namespace Yae.VmChk
open Yae Yae.Vm Yae.VmSim EvalM

mutual
/-- no function value with the lazy flag anywhere inside the value -/
def noLazy : Val → Bool
  | .fn _ _ isLazy => !isLazy
  | .list _ vs => noLazyL vs
  | .map _ es => noLazyE es
  | .obj _ vs => noLazyL vs
  | .just _ v => noLazy v
  | _ => true
def noLazyL : ValList → Bool
  | .nil => true
  | .cons v vs => noLazy v && noLazyL vs
def noLazyE : EntryList → Bool
  | .nil => true
  | .cons _ _ v es => noLazy v && noLazyE es
end

/-- no variable is bound to a value containing a lazy function value -/
def NoLazyEnv (ρ : REnv) : Prop := ρ.vars.all (fun p => noLazy p.2) = true

instance (ρ : REnv) : Decidable (NoLazyEnv ρ) := by unfold NoLazyEnv; infer_instance

theorem NoLazyEnv.lookup {ρ : REnv} (h : NoLazyEnv ρ) {x : String} {v : Val}
    (hx : ρ.lookupVar x = some v) : noLazy v = true := by
  unfold REnv.lookupVar at hx
  cases hq : ρ.vars.find? (fun p => p.1 == x) with
  | none => simp [hq] at hx
  | some p =>
    simp only [hq, Option.map_some, Option.some.injEq] at hx
    subst hx
    exact List.all_eq_true.mp h p (List.mem_of_find?_eq_some hq)

/-! ### components -/

theorem noLazyL_iff : ∀ vs : ValList, noLazyL vs = true ↔ ∀ v ∈ vs.toList, noLazy v = true
  | .nil => by simp [noLazyL, ValList.toList]
  | .cons x xs => by
    simp only [noLazyL, Bool.and_eq_true, ValList.toList, List.mem_cons, forall_eq_or_imp,
      noLazyL_iff xs]

theorem noLazyL_ofList (l : List Val) :
    noLazyL (ValList.ofList l) = true ↔ ∀ v ∈ l, noLazy v = true := by
  rw [noLazyL_iff, Sound.ValList.toList_ofList]

theorem noLazyL_get? : ∀ (vs : ValList) (i : Nat) (v : Val), noLazyL vs = true →
    vs.get? i = some v → noLazy v = true
  | .nil, _, _, _, h => by simp [ValList.get?] at h
  | .cons x xs, 0, v, hl, h => by
    simp only [ValList.get?, Option.some.injEq] at h
    simp only [noLazyL, Bool.and_eq_true] at hl
    rw [← h]; exact hl.1
  | .cons x xs, i+1, v, hl, h => by
    simp only [ValList.get?] at h
    simp only [noLazyL, Bool.and_eq_true] at hl
    exact noLazyL_get? xs i v hl.2 h

theorem noLazyE_find? : ∀ (es : EntryList) (t : Kind) (k : String) (v : Val), noLazyE es = true →
    es.find? t k = some v → noLazy v = true
  | .nil, _, _, _, _, h => by simp [EntryList.find?] at h
  | .cons t' k' x es, t, k, v, hl, h => by
    simp only [noLazyE, Bool.and_eq_true] at hl
    simp only [EntryList.find?] at h
    split at h
    · cases h; exact hl.1
    · exact noLazyE_find? es t k v hl.2 h

theorem noLazyE_insert : ∀ (es : EntryList) (t : Kind) (k : String) (v : Val), noLazyE es = true →
    noLazy v = true → noLazyE (es.insert t k v) = true
  | .nil, _, _, _, _, hv => by simp [EntryList.insert, noLazyE, hv]
  | .cons t' k' x es, t, k, v, hl, hv => by
    simp only [noLazyE, Bool.and_eq_true] at hl
    simp only [EntryList.insert]
    split
    · simp [noLazyE, hv, hl.2]
    · simp [noLazyE, hl.1, noLazyE_insert es t k v hl.2 hv]

theorem noLazy_objGet {ty : Ty} {vs : ValList} {f : String} {v : Val} (hl : noLazyL vs = true)
    (h : objGet? ty vs f = some v) : noLazy v = true := by
  unfold objGet? at h
  split at h
  · cases hi : FieldList.indexOf? _ f with
    | none => rw [hi] at h; cases h
    | some i => rw [hi] at h; exact noLazyL_get? vs i v hl h
  · cases h

/-! ### the built-ins pass function values on, they do not make them -/

theorem setMem_noLazy {xs : ValList} (hx : noLazyL xs = true) {e : String × Val}
    (he : e ∈ valSetOf xs) : noLazy e.2 = true :=
  (noLazyL_iff xs).1 hx _ (Sound.valSetOf_mem xs e he)

/-- One case analysis of `applyBuiltin` (the `split` realizes the splitter of its 54-arm
matcher, which takes most of the time of this file): the result is a primitive, an argument, a
component of an argument, or a list of elements of the arguments. -/
theorem applyBuiltin_noLazy {ext : Externs} {id : BId} {args : List Val} {v : Val}
    {evs : List Event} (ha : ∀ a ∈ args, noLazy a = true)
    (h : applyBuiltin ext id args = .ok (v, evs)) : noLazy v = true := by
  unfold applyBuiltin at h
  dsimp only at h
  split at h
  all_goals (try simp only [List.mem_cons, List.not_mem_nil, or_false, forall_eq_or_imp, forall_eq,
    noLazy, and_true] at ha)
  all_goals try (simp only [Except.ok.injEq, Prod.mk.injEq] at h; obtain ⟨rfl, _⟩ := h; first | rfl | exact ha | exact ha.1 | exact ha.2)
  case h_13 => split at h <;> cases h; rfl
  case h_17 => split at h <;> cases h <;> rfl
  case h_18 => split at h <;> cases h <;> rfl
  case h_43 => split at h <;> cases h; rfl
  case h_44 => split at h <;> cases h; rfl
  case h_47 => split at h <;> cases h; rfl
  case h_48 =>
    split at h
    · next t ks _ =>
      split at h <;> cases h
      · exact ha.2.2
      · next x _ hx => exact noLazyE_find? _ _ _ _ ha.1 hx
      · exact ha.2.2
    · cases h
  case h_49 =>
    split at h
    · cases h; exact ha.2.2
    · split at h <;> cases h
      · exact ha.2.2
      · next x _ hx => exact noLazyL_get? _ _ _ ha.1 hx
      · exact ha.2.2
  case h_50 =>
    split at h <;> cases h
    · simpa [noLazy] using ha.1
    · exact ha.2
  case h_51 =>
    cases h
    simp only [noLazy, noLazyL_ofList]
    intro x hx
    rcases Sound.setUnion_mem hx with ⟨e, he, rfl⟩ | ⟨e, he, rfl⟩
    · exact setMem_noLazy ha.1 he
    · exact setMem_noLazy ha.2 he
  case h_52 =>
    cases h
    simp only [noLazy, noLazyL_ofList]
    intro x hx
    obtain ⟨e, he, rfl⟩ := Sound.setIntersect_mem hx
    exact setMem_noLazy ha.2 he
  case h_53 =>
    cases h
    simp only [noLazy, noLazyL_ofList]
    intro x hx
    obtain ⟨e, he, rfl⟩ := Sound.setDiff_mem hx
    exact setMem_noLazy ha.1 he
  case h_54 => cases h

/-! ### a postcondition calculus for `EvalM` (successful outcomes only) -/

/-- every successful outcome satisfies `P` -/
def Post {α : Type} (x : EvalM α) (P : α → Prop) : Prop := ∀ l a l', x l = (.ok a, l') → P a

theorem Post.pure {α : Type} {a : α} {P : α → Prop} (h : P a) : Post (pure a : EvalM α) P := by
  intro l b l' hb; cases hb; exact h

theorem Post.fail {α : Type} {f : Fail} {P : α → Prop} : Post (EvalM.fail f : EvalM α) P := by
  intro l b l' hb; cases hb

theorem Post.bind {α β : Type} {x : EvalM α} {f : α → EvalM β} {Q : α → Prop} {P : β → Prop}
    (hx : Post x Q) (hf : ∀ a, Q a → Post (f a) P) : Post (x >>= f) P := by
  intro l b l' hb
  rw [bind_apply] at hb
  rcases hxl : x l with ⟨e | a, l1⟩
  · rw [hxl] at hb; cases hb
  · rw [hxl] at hb; exact hf a (hx l a l1 hxl) l1 b l' hb

theorem Post.recDbg {dbg : Bool} {v : Val} {col : Int} {P : Val → Prop} (h : P v) :
    Post (recDbg dbg v col) P := by
  intro l b l' hb
  cases dbg
  · cases hb; exact h
  · simp only [Yae.recDbg, if_true] at hb
    cases hb; exact h

theorem Post.emit {e : Event} : Post (EvalM.emit e) (fun _ => True) := fun _ _ _ _ => trivial
theorem Post.emitAll {es : List Event} : Post (EvalM.emitAll es) (fun _ => True) :=
  fun _ _ _ _ => trivial

theorem Post.lift {α : Type} {x : Except Fail α} {P : α → Prop} (h : ∀ a, x = .ok a → P a) :
    Post (EvalM.lift x) P := by
  intro l b l' hb
  simp only [lift_apply, Prod.mk.injEq] at hb
  exact h b hb.1

theorem hostStrict_noLazy {name : String} {beh : HostBeh} {args : List Val}
    (ha : ∀ a ∈ args, noLazy a = true) :
    Post (hostStrict name beh args) (fun v => noLazy v = true) := by
  unfold hostStrict
  refine Post.bind Post.emit fun _ _ => ?_
  cases beh with
  | retArg i =>
    simp only
    cases hi : args[i]? with
    | none => exact Post.fail
    | some v => exact Post.pure (ha v (List.mem_of_getElem? hi))
  | constNum _ => exact Post.pure rfl
  | constStr _ => exact Post.pure rfl
  | constBool _ => exact Post.pure rfl
  | fail => exact Post.fail
  | force _ => exact Post.fail

/-! ### evaluation -/

/-- the induction hypothesis on the evaluator's fuel -/
def NL (ρ : REnv) (dbg : Bool) (f : Nat) : Prop :=
  ∀ e, Post (eval f dbg ρ e) (fun v => noLazy v = true)

section
variable {ρ : REnv} {dbg : Bool} {f : Nat}

theorem evalList_nl (ih : NL ρ dbg f) : ∀ es : ExprList,
    Post (evalList f dbg ρ es) (fun vs => noLazyL vs = true)
  | .nil => by simp only [evalList]; exact Post.pure rfl
  | .cons e es => by
    simp only [evalList]
    refine Post.bind (ih e) fun v hv => Post.bind (evalList_nl ih es) fun vs hvs => Post.pure ?_
    simp only [noLazyL, hv, hvs, Bool.and_self]

theorem evalFields_nl (ih : NL ρ dbg f) : ∀ fs : FieldEList,
    Post (evalFields f dbg ρ fs) (fun vs => noLazyL vs = true)
  | .nil => by simp only [evalFields]; exact Post.pure rfl
  | .cons _ e fs => by
    simp only [evalFields]
    refine Post.bind (ih e) fun v hv => Post.bind (evalFields_nl ih fs) fun vs hvs => Post.pure ?_
    simp only [noLazyL, hv, hvs, Bool.and_self]

theorem evalPairs_nl (ih : NL ρ dbg f) : ∀ (ps : PairList) (acc : EntryList),
    noLazyE acc = true → Post (evalPairs f dbg ρ ps acc) (fun es => noLazyE es = true)
  | .nil, acc, hacc => by simp only [evalPairs]; exact Post.pure hacc
  | .cons k v ps, acc, hacc => by
    simp only [evalPairs]
    refine Post.bind (ih k) fun kv _ => ?_
    cases kv.key? with
    | none => exact Post.fail
    | some tk =>
      obtain ⟨t, ks⟩ := tk
      exact Post.bind (ih v) fun vv hvv => evalPairs_nl ih ps _ (noLazyE_insert acc t ks vv hacc hvv)

theorem forceSeq_nl (ih : NL ρ dbg f) (args : ExprList) : ∀ (order : List Nat) (acc : Option Val),
    (∀ v, acc = some v → noLazy v = true) →
    Post (forceSeq f dbg ρ args order acc) (fun v => noLazy v = true)
  | [], some v, h => by simp only [forceSeq]; exact Post.pure (h v rfl)
  | [], none, _ => by simp only [forceSeq]; exact Post.fail
  | i :: rest, acc, _ => by
    simp only [forceSeq]
    cases args.get? i with
    | none => exact Post.fail
    | some a =>
      exact Post.bind (ih a) fun v hv => forceSeq_nl ih args rest (some v)
        (fun w hw => by cases hw; exact hv)

theorem toList_noLazy {vs : ValList} (h : noLazyL vs = true) : ∀ a ∈ vs.toList, noLazy a = true :=
  (noLazyL_iff vs).1 h

theorem boolCast_nl {x : EvalM Val} : Post (x >>= fun r => match r with
    | .bool b => (pure (.bool b) : EvalM Val)
    | _ => EvalM.fail (.stuck "cast:bool")) (fun v => noLazy v = true) := by
  refine Post.bind (Q := fun _ => True) (fun _ _ _ _ => trivial) fun r _ => ?_
  split
  · exact Post.pure rfl
  · exact Post.fail

theorem callFun_nl (ih : NL ρ dbg f) (ref : FunRef) (isLazy : Bool) (args : ExprList) :
    Post (callFun f dbg ρ ref isLazy args) (fun v => noLazy v = true) := by
  unfold callFun
  cases ref with
  | builtin idx =>
    simp only
    cases builtins[idx]? with
    | none => exact Post.fail
    | some d =>
      simp only
      cases isLazy with
      | true =>
        simp only [if_true]
        split
        · refine Post.bind (Q := fun _ => True) (fun _ _ _ _ => trivial) fun r _ => ?_
          split
          · exact ih _
          · exact ih _
          · exact Post.fail
        · refine Post.bind (Q := fun _ => True) (fun _ _ _ _ => trivial) fun r _ => ?_
          split
          · exact boolCast_nl
          · exact Post.pure rfl
          · exact Post.fail
        · refine Post.bind (Q := fun _ => True) (fun _ _ _ _ => trivial) fun r _ => ?_
          split
          · exact Post.pure rfl
          · exact boolCast_nl
          · exact Post.fail
        · exact Post.fail
      | false =>
        simp only [Bool.false_eq_true, if_false]
        refine Post.bind (evalList_nl ih args) fun vs hvs => ?_
        refine Post.bind (Q := fun r => noLazy r.1 = true)
          (Post.lift fun r hr => applyBuiltin_noLazy (toList_noLazy hvs) (v := r.1) (evs := r.2) hr)
          fun r hr => ?_
        exact Post.bind Post.emitAll fun _ _ => Post.pure hr
  | host name beh =>
    simp only
    cases isLazy with
    | true =>
      simp only [if_true]
      cases beh with
      | force order =>
        exact Post.bind Post.emit fun _ _ => forceSeq_nl ih args order none (fun _ h => by cases h)
      | _ => exact Post.fail
    | false =>
      simp only [Bool.false_eq_true, if_false]
      exact Post.bind (evalList_nl ih args) fun vs hvs => hostStrict_noLazy (toList_noLazy hvs)

theorem nl_zero : NL ρ dbg 0 := by
  intro e; simp only [eval]; exact Post.fail

theorem nl_succ (hρ : NoLazyEnv ρ) (ih : NL ρ dbg f) : NL ρ dbg (f+1) := by
  intro e
  cases e with
  | str => simp only [eval]; exact Post.pure rfl
  | num => simp only [eval]; exact Post.pure rfl
  | time => simp only [eval]; exact Post.pure rfl
  | bool => simp only [eval]; exact Post.pure rfl
  | list p es ty =>
    cases es with
    | nil => simp only [eval]; exact Post.pure rfl
    | cons e es =>
      simp only [eval]
      refine Post.bind (evalList_nl ih _) fun vs hvs => ?_
      split
      · exact Post.pure (by simpa [noLazy] using hvs)
      · exact Post.fail
  | map p ps ty =>
    cases ps with
    | nil => simp only [eval]; exact Post.pure rfl
    | cons k v ps =>
      cases ty with
      | none => simp only [eval]; exact Post.fail
      | some t =>
        simp only [eval]
        exact Post.bind (evalPairs_nl ih _ .nil rfl) fun es hes =>
          Post.pure (by simpa [noLazy] using hes)
  | obj p fs ty =>
    cases fs with
    | nil => simp only [eval]; exact Post.pure rfl
    | cons n e fs =>
      simp only [eval]
      refine Post.bind (evalFields_nl ih _) fun vs hvs => ?_
      split
      · exact Post.pure (by simpa [noLazy] using hvs)
      · exact Post.fail
  | ident p name =>
    simp only [eval]
    cases hl : ρ.lookupVar name with
    | none => exact Post.fail
    | some v => exact Post.recDbg (hρ.lookup hl)
  | call p col callee args cty resolved index =>
    simp only [eval]
    refine Post.bind (Q := fun v => noLazy v = true) ?_ fun v hv => Post.recDbg hv
    split
    · refine Post.bind (Q := fun _ => True) (fun _ _ _ _ => trivial) fun fv _ => ?_
      split
      · exact callFun_nl ih _ _ _
      · exact Post.fail
    · split
      · exact callFun_nl ih _ _ _
      · exact Post.fail
  | subscript p col var idx vty =>
    simp only [eval]
    refine Post.bind (ih var) fun x hx => ?_
    refine Post.bind (Q := fun v => noLazy v = true) ?_ fun v hv => Post.recDbg hv
    split
    · next t vs =>
      refine Post.bind (Q := fun _ => True) (fun _ _ _ _ => trivial) fun i _ => ?_
      split
      · split
        · exact Post.fail
        · split
          · next v hv => exact Post.pure (noLazyL_get? vs _ v (by simpa [noLazy] using hx) hv)
          · exact Post.fail
      · exact Post.fail
    · next t es =>
      refine Post.bind (Q := fun _ => True) (fun _ _ _ _ => trivial) fun k _ => ?_
      split
      · split
        · next v hv => exact Post.pure (noLazyE_find? es _ _ v (by simpa [noLazy] using hx) hv)
        · exact Post.fail
      · exact Post.fail
    · exact Post.fail
  | member p col obj field fp oty index =>
    simp only [eval]
    refine Post.bind (ih obj) fun o ho => ?_
    refine Post.bind (Q := fun v => noLazy v = true) ?_ fun v hv => Post.recDbg hv
    split
    · next ty vs =>
      split
      · next v hv => exact Post.pure (noLazy_objGet (by simpa [noLazy] using ho) hv)
      · exact Post.fail
    · exact Post.fail
  | unary => simp only [eval]; exact Post.fail
  | binary => simp only [eval]; exact Post.fail
  | ternary => simp only [eval]; exact Post.fail
  | group => simp only [eval]; exact Post.fail

theorem nl_all (hρ : NoLazyEnv ρ) : ∀ f, NL ρ dbg f
  | 0 => nl_zero
  | f+1 => nl_succ hρ (nl_all hρ f)

end

/-- **Evaluation makes no lazy function values**: in an environment that holds none, whatever
`eval` returns (any expression, any fuel, any log) contains none. -/
theorem eval_noLazy {ρ : REnv} (hρ : NoLazyEnv ρ) {f : Nat} {dbg : Bool} {e : Expr}
    {l l' : List Event} {v : Val} (h : eval f dbg ρ e l = (.ok v, l')) : noLazy v = true :=
  nl_all hρ f e l v l' h

end Yae.VmChk
