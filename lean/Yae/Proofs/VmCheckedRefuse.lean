/-
  C03, checked programs, part 7: refusals.  Operands the decoder reads back are in range, so a
  tree with a count that does not fit its operand cannot be compiled: a list / map literal of
  more than 65 535 members, a dynamic call of more than 255 arguments.
-/
import Yae.Proofs.VmSimCompile
import Yae.Proofs.VmSimRefuse
import Yae.Proofs.VmVerify
import Yae.Proofs.TypingCheck
namespace Yae.VmChk
open Yae Yae.Vm Yae.VmSim

/-- the size operand of `NEW_LIST` / `NEW_MAP` is a 16-bit number, the argument count of
`DYNAMIC_CALL` and of the call instructions an 8-bit one -/
theorem decodeAt_operands {c : Code} {pc : Nat} {ins : Instr} {next : Nat}
    (h : decodeAt c pc = some (ins, next)) :
    (∀ op i n, ins = .newColl op i n → n < 65536) ∧ (∀ a, ins = .dyn a → a < 256) ∧
    (∀ op i a, ins = .call op i a → a < 256) := by
  unfold decodeAt at h
  cases h1 : c[pc]? with
  | none => simp [h1] at h
  | some b =>
    cases h2 : Op.ofCode b.toNat with
    | none => simp [h1, h2] at h
    | some op =>
      simp only [h1, h2, Option.bind_eq_bind, Option.bind_some] at h
      split at h
      all_goals
        simp only [Option.bind_eq_some_iff, Option.pure_def, Option.some.injEq, Prod.mk.injEq] at h
      all_goals first
        | (obtain ⟨rfl, _⟩ := h
           exact ⟨nofun, nofun, nofun⟩)
        | (obtain ⟨_, h3, rfl, _⟩ := h
           refine ⟨nofun, fun _ h => ?_, nofun⟩
           cases h; exact UInt8.toNat_lt _)
        | (obtain ⟨_, h3, rfl, _⟩ := h
           exact ⟨nofun, nofun, nofun⟩)
        | (obtain ⟨_, h3, _, h4, rfl, _⟩ := h
           refine ⟨fun _ _ _ h => ?_, nofun, nofun⟩
           cases h; exact (VmVerify.u16At_some h4).2)
        | (obtain ⟨_, h3, _, h4, rfl, _⟩ := h
           refine ⟨nofun, nofun, fun _ _ _ h => ?_⟩
           cases h; exact UInt8.toNat_lt _)

section
variable {funs : List FunDecl}

/-- **A list literal of more than 65 535 members is never compiled.** -/
theorem compile_long_list {p : Pos} {es : ExprList} {ty : Option Ty} (hlen : 65535 < es.length)
    (code : Code) (pool : Pool) : compile funs (.list p es ty) ≠ .ok (code, pool) := by
  intro h
  obtain ⟨ob, hlay, _⟩ := compile_layout h
  cases hlay with
  | list _ hdec _ =>
    have := (decodeAt_operands hdec).1 _ _ _ rfl
    omega

/-- … nor a map literal of more than 65 535 entries -/
theorem compile_long_map {p : Pos} {ps : PairList} {ty : Option Ty} (hlen : 65535 < ps.length)
    (code : Code) (pool : Pool) : compile funs (.map p ps ty) ≠ .ok (code, pool) := by
  intro h
  obtain ⟨ob, hlay, _⟩ := compile_layout h
  cases hlay with
  | map _ hdec _ =>
    have := (decodeAt_operands hdec).1 _ _ _ rfl
    omega

/-- **A dynamic call of more than 255 arguments is never compiled.** -/
theorem compile_many_args {p : Pos} {col : Int} {callee : Expr} {args : ExprList}
    {cty : Option Ty} {index : Int} (hlen : 255 < args.length)
    (code : Code) (pool : Pool) :
    compile funs (.call p col callee args cty "" index) ≠ .ok (code, pool) := by
  intro h
  obtain ⟨ob, hlay, _⟩ := compile_layout h
  cases hlay with
  | dyn _ _ _ hdec =>
    have := (decodeAt_operands hdec).2.1 _ rfl
    omega
  | condIf hres => cases hres
  | condAnd hres => cases hres
  | condOr hres => cases hres
  | not hres => cases hres
  | strict hres => cases hres
  | byNeed hres => cases hres

/-- so, on a well-annotated tree, the refusal is an overflow -/
theorem compile_overflow_of_not_ok {e : Expr} (hw : wa funs e = true)
    (h : ∀ code pool, compile funs e ≠ .ok (code, pool)) : compile funs e = .error .overflow := by
  cases hc : compile funs e with
  | ok r => exact absurd hc (h r.1 r.2)
  | error err => rw [compile_refuse_overflow hw hc]

end

/-! ### the exhibited shapes: `n` number literals -/

/-- `n` copies of a literal -/
def lits (e : Expr) : Nat → ExprList
  | 0 => .nil
  | n+1 => .cons e (lits e n)

theorem lits_length (e : Expr) : ∀ n, (lits e n).length = n
  | 0 => rfl
  | n+1 => by simp [lits, ExprList.length, lits_length e n]

theorem lits_wa (funs : List FunDecl) {e : Expr} (he : wa funs e = true) :
    ∀ n, waL funs (lits e n) = true
  | 0 => rfl
  | n+1 => by simp [lits, waL, he, lits_wa funs he n]

/-- the checker accepts `[v, v, …, v]` (`n+1` number literals) as `list[num]` and annotates it -/
theorem check_lits (Γ : TEnv) (p q : Pos) (v : Float) (c : Nat) (ty : Option Ty) (n : Nat) :
    check Γ c (.list p (lits (.num q v) (n+1)) ty) =
      .ok (.list .num, .list p (lits (.num q v) (n+1)) (some (.list .num)), c) := by
  have hel : ∀ n, checkElems Γ c .num (lits (.num q v) n) = .ok (lits (.num q v) n, c) := by
    intro n
    induction n with
    | zero => rfl
    | succ n ih =>
      simp only [lits, checkElems, check, Yae.CR.pure_eq, Yae.CR.ok_bind, ih]
      rfl
  simp only [lits, check, Yae.CR.pure_eq, Yae.CR.ok_bind, hel]

/-- … and the compiler refuses it when it has more than 65 535 members -/
theorem lits_overflow (funs : List FunDecl) (p q : Pos) (v : Float) (ty : Ty) {n : Nat}
    (hn : 65535 < n) :
    compile funs (.list p (lits (.num q v) n) (some ty)) = .error .overflow := by
  refine compile_overflow_of_not_ok ?_ (compile_long_list (by rw [lits_length]; exact hn))
  obtain ⟨m, rfl⟩ : ∃ m, n = m + 1 := ⟨n - 1, by omega⟩
  have := lits_wa funs (e := .num q v) rfl (m+1)
  simp only [lits] at this ⊢
  simp only [wa, listTyOk, this, Bool.and_self]

/-- a dynamic call `callee(v, …, v)` with more than 255 arguments is refused -/
theorem args_overflow (funs : List FunDecl) (p q : Pos) (col : Int) (v : Float) (callee : Expr)
    (cty : Option Ty) (index : Int) (hcallee : wa funs callee = true) {n : Nat} (hn : 255 < n) :
    compile funs (.call p col callee (lits (.num q v) n) cty "" index) = .error .overflow := by
  refine compile_overflow_of_not_ok ?_ (compile_many_args (by rw [lits_length]; exact hn))
  simp only [wa, beq_self_eq_true, if_true, hcallee, lits_wa funs (e := .num q v) rfl n,
    Bool.and_self]

end Yae.VmChk
