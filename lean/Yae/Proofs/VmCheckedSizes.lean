/-
  C03, checked programs, part 8: WHEN the compiler refuses.  `compile` run on sizes only.

  `sizeE` is `compileE` with the code buffer and the constant pool replaced by their sizes (a pair
  of numbers): the same control structure, the same checks.  `compileE_sizes`: it is an exact
  abstraction -- `compileE` fails iff `sizeE` fails, with the same error, and on success the sizes
  of the buffers `compileE` returns are the numbers `sizeE` returns.  So a refusal depends only on
  running totals, and the checks (`sU16`, `sU8`, `sConst`, `sPatch`) are exactly: the pool size at
  a constant, the member count of a list / map literal, a jump target (offsets in the code
  buffer), each above 65 535; the argument count of a call above 255.
-/
import Yae.Proofs.VmSimCompile
namespace Yae.VmChk
open Yae Yae.Vm Yae.VmSim

/-- the compiler monad on sizes: (bytes of code, number of constants) -/
abbrev SM := StateT (Nat × Nat) (Except CErr)

def sOp : SM Unit := modify fun (c, p) => (c + 1, p)
/-- an 8-bit operand: refused above 255 -/
def sU8 (n : Nat) : SM Unit := do
  if n > 255 then throw .overflow
  modify fun (c, p) => (c + 1, p)
/-- a 16-bit operand: refused above 65 535 -/
def sU16 (n : Nat) : SM Unit := do
  if n > 65535 then throw .overflow
  modify fun (c, p) => (c + 2, p)
/-- a new constant and its index as a 16-bit operand: refused when 65 536 constants exist -/
def sConst : SM Unit := do
  let (_, p) ← get
  modify fun (c, p) => (c, p + 1)
  sU16 p
def sHere : SM Nat := do let (c, _) ← get; pure c
def sPlaceholder : SM Nat := do let off ← sHere; sU16 0; pure off
/-- a jump target: refused above 65 535 -/
def sPatch (target : Nat) : SM Unit := do
  if target > 65535 then throw .overflow

mutual
def sizeE (fuel : Nat) (funs : List FunDecl) (e : Expr) : SM Unit :=
  match fuel with
  | 0 => throw (.unreachable "fuel")
  | fuel+1 =>
  match e with
  | .str _ _ => do sOp; sConst
  | .num _ _ => do sOp; sConst
  | .time _ _ => do sOp; sConst
  | .bool _ _ => do sOp; sConst
  | .list _ es _ => do
    sizeL fuel funs es
    sOp
    sConst
    sU16 es.length
  | .map _ ps _ => do
    sizeP fuel funs ps
    sOp
    sConst
    sU16 ps.length
  | .obj _ fs _ => do
    sizeF fuel funs fs
    sOp
    sConst
  | .ident _ _ => do sOp; sConst
  | .call _ _ callee args _ resolved index =>
    if resolved == "" then do
      sizeE fuel funs callee
      sizeL fuel funs args
      sOp
      sU8 args.length
    else
      match resolveStatic funs resolved index with
      | none => throw .notDefined
      | some d =>
        let bid : Option BId := match d.ref with
          | .builtin i => (builtins[i]?).map (·.id)
          | _ => none
        match bid, args with
        | some .IF_BOOL_ANY_ANY, .cons c (.cons t (.cons f .nil)) => sizeC fuel funs c t f
        | some .LOGIC_AND_BOOL_BOOL, .cons x (.cons y .nil) =>
            sizeC fuel funs x y (.bool Pos.unknown false)
        | some .LOGIC_OR_BOOL_BOOL, .cons x (.cons y .nil) =>
            sizeC fuel funs x (.bool Pos.unknown true) y
        | some .LOGIC_NOT_BOOL, .cons x _ => do
            sizeE fuel funs x
            sOp
        | _, _ => do
          if (bid.map isCondIntrinsic).getD false then throw (.unreachable "intrinsic-args")
          if d.isLazy then sizeT fuel funs args
          else sizeL fuel funs args
          match bid.bind intrinsicByValue with
          | some _ => sOp
          | none => do
            sOp
            sConst
            sU8 args.length
  | .subscript _ _ var idx varTy => do
    sizeE fuel funs var
    sizeE fuel funs idx
    match varTy with
    | some (.list _) => sOp
    | some (.map _ _) => sOp
    | _ => throw (.unreachable "subscript")
  | .member _ _ obj _ _ _ _ => do
    sizeE fuel funs obj
    sOp
    sConst
  | _ => throw (.unreachable "sugar")
def sizeL (fuel : Nat) (funs : List FunDecl) : ExprList → SM Unit
  | .nil => pure ()
  | .cons e es => do sizeE fuel funs e; sizeL fuel funs es
def sizeP (fuel : Nat) (funs : List FunDecl) : PairList → SM Unit
  | .nil => pure ()
  | .cons k v ps => do sizeE fuel funs k; sizeE fuel funs v; sizeP fuel funs ps
def sizeF (fuel : Nat) (funs : List FunDecl) : FieldEList → SM Unit
  | .nil => pure ()
  | .cons _ e fs => do sizeE fuel funs e; sizeF fuel funs fs
/-- deferred arguments: each body starts a fresh code buffer, the pool is shared -/
def sizeT (fuel : Nat) (funs : List FunDecl) : ExprList → SM Unit
  | .nil => pure ()
  | .cons e es => do
    sOp
    let (c, p) ← get
    set ((0 : Nat), p)
    sizeE fuel funs e
    sOp
    let (_, p') ← get
    set (c, p')
    sConst
    sizeT fuel funs es
def sizeC (fuel : Nat) (funs : List FunDecl) (c t f : Expr) : SM Unit := do
  sizeE fuel funs c
  sOp
  let _ ← sPlaceholder
  sizeE fuel funs t
  sOp
  let _ ← sPlaceholder
  let branchFalse ← sHere
  sizeE fuel funs f
  let next ← sHere
  sPatch branchFalse
  sPatch next
end

/-- `Compiler.Compile` on sizes: the sizes of the code and of the pool, or the refusal -/
def sizes (funs : List FunDecl) (e : Expr) : Except CErr (Nat × Nat) := do
  let ((), s) ← (do sizeE (e.depth + 1) funs e; sOp : SM Unit).run (0, 0)
  pure s

/-- the body of a statically resolved call in `sizeE`, with the built-in identifier abstracted
(as `VmSim.callBody` for `compileE`) -/
def sizeBody (cf : Nat) (funs : List FunDecl) (d : FunDecl) (bid : Option BId) (args : ExprList) :
    SM Unit :=
  match bid, args with
  | some .IF_BOOL_ANY_ANY, .cons c (.cons t (.cons f .nil)) => sizeC cf funs c t f
  | some .LOGIC_AND_BOOL_BOOL, .cons x (.cons y .nil) =>
      sizeC cf funs x y (.bool Pos.unknown false)
  | some .LOGIC_OR_BOOL_BOOL, .cons x (.cons y .nil) =>
      sizeC cf funs x (.bool Pos.unknown true) y
  | some .LOGIC_NOT_BOOL, .cons x _ => do
      sizeE cf funs x
      sOp
  | _, _ => do
    if (bid.map isCondIntrinsic).getD false then throw (.unreachable "intrinsic-args")
    if d.isLazy then sizeT cf funs args
    else sizeL cf funs args
    match bid.bind intrinsicByValue with
    | some _ => sOp
    | none => do
      sOp
      sConst
      sU8 args.length

/-! ### the abstraction -/

def sz (s : Code × Pool) : Nat × Nat := (s.1.size, s.2.size)

/-- `y` is `x` on sizes: both fail with the same error, or both succeed, with related results,
and the sizes of the buffers `x` leaves are the numbers `y` leaves -/
def AbsRel {α β} (R : α → β → Prop) (x : CM α) (y : SM β) : Prop :=
  ∀ s, match x s, y (sz s) with
    | .ok (a, s'), .ok (b, t) => R a b ∧ sz s' = t
    | .error e, .error e' => e = e'
    | _, _ => False

abbrev Abs {α} (x : CM α) (y : SM α) : Prop := AbsRel Eq x y

theorem sm_bind {α β} (x : SM α) (f : α → SM β) (s : Nat × Nat) :
    (x >>= f) s = match x s with
      | .ok (a, s') => f a s'
      | .error e => .error e := by
  show (StateT.bind x f) s = _
  unfold StateT.bind
  cases x s <;> rfl

theorem AbsRel.bind {α α' β β'} {R : α → α' → Prop} {Q : β → β' → Prop} {x : CM α} {y : SM α'}
    {f : α → CM β} {g : α' → SM β'}
    (hx : AbsRel R x y) (hf : ∀ a b, R a b → AbsRel Q (f a) (g b)) :
    AbsRel Q (x >>= f) (y >>= g) := by
  intro s
  rw [cm_bind, sm_bind]
  have h := hx s
  rcases hxs : x s with e | ⟨a, s'⟩ <;> rcases hys : y (sz s) with e' | ⟨b, t⟩ <;>
    rw [hxs, hys] at h
  · exact h
  · exact h.elim
  · exact h.elim
  · obtain ⟨hr, hs⟩ := h
    have := hf a b hr s'
    rw [hs] at this
    exact this

theorem Abs.bind {α β β'} {Q : β → β' → Prop} {x : CM α} {y : SM α} {f : α → CM β}
    {g : α → SM β'} (hx : Abs x y) (hf : ∀ a, AbsRel Q (f a) (g a)) :
    AbsRel Q (x >>= f) (y >>= g) :=
  AbsRel.bind hx fun a b hab => by subst hab; exact hf a

theorem absRel_ok {α β} {R : α → β → Prop} {x : CM α} {y : SM β} {s : Code × Pool} {a : α}
    {s' : Code × Pool} {b : β} {t : Nat × Nat} (hx : x s = .ok (a, s')) (hy : y (sz s) = .ok (b, t))
    (hr : R a b) (hs : sz s' = t) :
    (match x s, y (sz s) with
      | .ok (a, s'), .ok (b, t) => R a b ∧ sz s' = t
      | .error e, .error e' => e = e'
      | _, _ => False) := by
  rw [hx, hy]; exact ⟨hr, hs⟩

theorem absRel_err {α β} {R : α → β → Prop} {x : CM α} {y : SM β} {s : Code × Pool} {e : CErr}
    (hx : x s = .error e) (hy : y (sz s) = .error e) :
    (match x s, y (sz s) with
      | .ok (a, s'), .ok (b, t) => R a b ∧ sz s' = t
      | .error e, .error e' => e = e'
      | _, _ => False) := by
  rw [hx, hy]

theorem abs_pure {α} (a : α) : Abs (pure a : CM α) (pure a : SM α) :=
  fun s => absRel_ok (x := (pure a : CM α)) (y := (pure a : SM α)) (s := s) (a := a) (s' := s)
    (b := a) (t := sz s) rfl rfl rfl rfl
theorem abs_throw {α β} {R : α → β → Prop} (e : CErr) :
    AbsRel R (throw e : CM α) (throw e : SM β) :=
  fun s => absRel_err (R := R) (x := (throw e : CM α)) (y := (throw e : SM β)) (s := s) (e := e) rfl rfl

theorem abs_emitOp (op : Op) : Abs (emitOp op) sOp := by
  intro s; obtain ⟨c, p⟩ := s
  exact absRel_ok (x := emitOp op) (y := sOp) (s := (c, p)) (a := ())
    (s' := (c.push (UInt8.ofNat op.code), p)) (b := ()) (t := (c.size + 1, p.size)) rfl rfl rfl
    (by simp [sz])

theorem abs_emitU16 (n : Nat) : Abs (emitU16 n) (sU16 n) := by
  intro s; obtain ⟨c, p⟩ := s
  have h1 : emitU16 n (c, p) = if n > 65535 then .error .overflow
      else .ok ((), ((c.push (UInt8.ofNat (n / 256))).push (UInt8.ofNat (n % 256)), p)) := by
    unfold emitU16; split <;> rfl
  have h2 : sU16 n (sz (c, p)) = if n > 65535 then .error .overflow
      else .ok ((), (c.size + 2, p.size)) := by
    unfold sU16; split <;> rfl
  by_cases hn : n > 65535
  · exact absRel_err (x := emitU16 n) (y := sU16 n) (s := (c, p)) (by rw [h1, if_pos hn])
      (by rw [h2, if_pos hn])
  · exact absRel_ok (x := emitU16 n) (y := sU16 n) (s := (c, p)) (by rw [h1, if_neg hn])
      (by rw [h2, if_neg hn]) rfl (by simp [sz])

theorem abs_emitU8 (n : Nat) : Abs (emitU8 n) (sU8 n) := by
  intro s; obtain ⟨c, p⟩ := s
  have h1 : emitU8 n (c, p) = if n > 255 then .error .overflow
      else .ok ((), (c.push (UInt8.ofNat n), p)) := by
    unfold emitU8; split <;> rfl
  have h2 : sU8 n (sz (c, p)) = if n > 255 then .error .overflow
      else .ok ((), (c.size + 1, p.size)) := by
    unfold sU8; split <;> rfl
  by_cases hn : n > 255
  · exact absRel_err (x := emitU8 n) (y := sU8 n) (s := (c, p)) (by rw [h1, if_pos hn])
      (by rw [h2, if_pos hn])
  · exact absRel_ok (x := emitU8 n) (y := sU8 n) (s := (c, p)) (by rw [h1, if_neg hn])
      (by rw [h2, if_neg hn]) rfl (by simp [sz])

theorem abs_emitConst (k : Const) : Abs (emitConst k) sConst := by
  intro s; obtain ⟨c, p⟩ := s
  have h1 : emitConst k (c, p) = emitU16 p.size (c, p.push k) := rfl
  have h2 : sConst (sz (c, p)) = sU16 p.size (sz (c, p.push k)) := by
    simp only [sz, Array.size_push]; rfl
  rw [h1, h2]
  exact abs_emitU16 p.size (c, p.push k)

theorem abs_here : Abs here sHere := by
  intro s; obtain ⟨c, p⟩ := s
  exact absRel_ok (x := here) (y := sHere) (s := (c, p)) (a := c.size) (s' := (c, p))
    (b := c.size) (t := sz (c, p)) rfl rfl rfl rfl

theorem abs_placeholder : Abs placeholder sPlaceholder := by
  unfold placeholder sPlaceholder
  exact Abs.bind abs_here fun off => Abs.bind (abs_emitU16 0) fun _ => abs_pure off

theorem abs_patch (off t : Nat) : Abs (patch off t) (sPatch t) := by
  intro s; obtain ⟨c, p⟩ := s
  have h1 : patch off t (c, p) = if t > 65535 then .error .overflow
      else .ok ((), ((c.set! off (UInt8.ofNat (t / 256))).set! (off + 1) (UInt8.ofNat (t % 256)), p)) := by
    unfold patch; split <;> rfl
  have h2 : sPatch t (sz (c, p)) = if t > 65535 then .error .overflow
      else .ok ((), (c.size, p.size)) := by
    unfold sPatch; split <;> rfl
  by_cases hn : t > 65535
  · exact absRel_err (x := patch off t) (y := sPatch t) (s := (c, p)) (by rw [h1, if_pos hn])
      (by rw [h2, if_pos hn])
  · exact absRel_ok (x := patch off t) (y := sPatch t) (s := (c, p)) (by rw [h1, if_neg hn])
      (by rw [h2, if_neg hn]) rfl (by simp [sz])

theorem abs_get : AbsRel (fun a b => sz a = b) (get : CM (Code × Pool)) (get : SM (Nat × Nat)) :=
  fun s => absRel_ok (R := fun a b => sz a = b) (x := (get : CM (Code × Pool)))
    (y := (get : SM (Nat × Nat))) (s := s)
    (a := s) (s' := s) (b := sz s) (t := sz s) rfl rfl rfl rfl

theorem abs_set {x : Code × Pool} {y : Nat × Nat} (h : sz x = y) :
    AbsRel (fun _ _ => True) (set x : CM PUnit) (set y : SM PUnit) :=
  fun s => absRel_ok (R := fun _ _ => True) (x := (set x : CM PUnit)) (y := (set y : SM PUnit))
    (s := s)
    (a := PUnit.unit) (s' := x) (b := PUnit.unit) (t := y) rfl rfl trivial h

/-- the induction hypothesis on the compiler's fuel -/
def AbsE (funs : List FunDecl) (cf : Nat) : Prop := ∀ e, Abs (compileE cf funs e) (sizeE cf funs e)

section
variable {funs : List FunDecl} {cf : Nat}

theorem absList (hE : AbsE funs cf) : ∀ es, Abs (compileList cf funs es) (sizeL cf funs es)
  | .nil => by unfold compileList sizeL; exact abs_pure _
  | .cons e es => by
    unfold compileList sizeL
    exact Abs.bind (hE e) fun _ => absList hE es

theorem absFields (hE : AbsE funs cf) : ∀ fs, Abs (compileFields cf funs fs) (sizeF cf funs fs)
  | .nil => by unfold compileFields sizeF; exact abs_pure _
  | .cons _ e fs => by
    unfold compileFields sizeF
    exact Abs.bind (hE e) fun _ => absFields hE fs

theorem absPairs (hE : AbsE funs cf) : ∀ ps, Abs (compilePairs cf funs ps) (sizeP cf funs ps)
  | .nil => by unfold compilePairs sizeP; exact abs_pure _
  | .cons k v ps => by
    unfold compilePairs sizeP
    exact Abs.bind (hE k) fun _ => Abs.bind (hE v) fun _ => absPairs hE ps

theorem absCond (hE : AbsE funs cf) (c t f : Expr) :
    Abs (compileCond cf funs c t f) (sizeC cf funs c t f) := by
  rw [compileCond, sizeC]
  exact Abs.bind (hE c) fun _ => Abs.bind (abs_emitOp _) fun _ =>
    Abs.bind abs_placeholder fun pF => Abs.bind (hE t) fun _ =>
    Abs.bind (abs_emitOp _) fun _ => Abs.bind abs_placeholder fun pN =>
    Abs.bind abs_here fun bf => Abs.bind (hE f) fun _ =>
    Abs.bind abs_here fun nx => Abs.bind (abs_patch pF bf) fun _ => abs_patch pN nx

/-- deferred arguments: each body is compiled into a fresh buffer against the same pool -/
theorem absThunks (hE : AbsE funs cf) : ∀ (es : ExprList) (ps : TyList),
    Abs (compileThunks cf funs es ps) (sizeT cf funs es)
  | .nil, _ => by unfold compileThunks sizeT; exact abs_pure _
  | .cons e es, ps => by
    unfold compileThunks sizeT
    refine Abs.bind (abs_emitOp _) fun _ => AbsRel.bind abs_get fun x y hxy => ?_
    obtain ⟨code, pool⟩ := x
    obtain ⟨c, p⟩ := y
    simp only [sz, Prod.mk.injEq] at hxy
    dsimp only
    refine AbsRel.bind (abs_set (by simp [sz, hxy.2])) fun _ _ _ =>
      Abs.bind (hE e) fun _ => Abs.bind (abs_emitOp _) fun _ =>
      AbsRel.bind abs_get fun x' y' hxy' => ?_
    obtain ⟨body, pool'⟩ := x'
    obtain ⟨c', p'⟩ := y'
    simp only [sz, Prod.mk.injEq] at hxy'
    dsimp only
    refine AbsRel.bind (abs_set (by simp [sz, hxy.1, hxy'.2])) fun _ _ _ => ?_
    exact Abs.bind (abs_emitConst _) fun _ => absThunks hE es _

theorem abs_tail (op0 : Op) (k : Const) (o : Option Op) (n : Nat) :
    Abs (match o with
      | some op => emitOp op
      | none => do
        emitOp op0
        emitConst k
        emitU8 n : CM Unit)
      (match o with
      | some _ => sOp
      | none => do
        sOp
        sConst
        sU8 n : SM Unit) := by
  cases o with
  | some op => exact abs_emitOp op
  | none => exact Abs.bind (abs_emitOp _) fun _ => Abs.bind (abs_emitConst _) fun _ => abs_emitU8 _

theorem sizeBody_other {d : FunDecl} {bid : Option BId} {args : ExprList}
    (n1 : ∀ c t f, bid = some .IF_BOOL_ANY_ANY → args = .cons c (.cons t (.cons f .nil)) → False)
    (n2 : ∀ x y, bid = some .LOGIC_AND_BOOL_BOOL → args = .cons x (.cons y .nil) → False)
    (n3 : ∀ x y, bid = some .LOGIC_OR_BOOL_BOOL → args = .cons x (.cons y .nil) → False)
    (n4 : ∀ x es, bid = some .LOGIC_NOT_BOOL → args = .cons x es → False) :
    sizeBody cf funs d bid args = (do
      if (bid.map isCondIntrinsic).getD false then throw (.unreachable "intrinsic-args")
      if d.isLazy then sizeT cf funs args
      else sizeL cf funs args
      match bid.bind intrinsicByValue with
      | some _ => sOp
      | none => do
        sOp
        sConst
        sU8 args.length : SM Unit) := by
  unfold sizeBody
  split
  · exact (n1 _ _ _ rfl rfl).elim
  · exact (n2 _ _ rfl rfl).elim
  · exact (n3 _ _ rfl rfl).elim
  · exact (n4 _ _ rfl rfl).elim
  · rfl

theorem abs_callBody (hE : AbsE funs cf) (d : FunDecl) (bid : Option BId) (args : ExprList) :
    Abs (callBody cf funs d bid args) (sizeBody cf funs d bid args) := by
  unfold callBody
  split
  · exact absCond hE _ _ _
  · exact absCond hE _ _ _
  · exact absCond hE _ _ _
  · exact Abs.bind (hE _) fun _ => abs_emitOp _
  · rename_i n1 n2 n3 n4
    rw [sizeBody_other n1 n2 n3 n4]
    dsimp only
    by_cases hcond : (Option.map isCondIntrinsic bid).getD false = true
    · simp only [if_pos hcond]
      exact AbsRel.bind (abs_throw (R := Eq) _) fun _ _ _ => by
        by_cases hl : d.isLazy = true
        · simp only [if_pos hl]
          exact Abs.bind (absThunks hE args _) fun _ => abs_tail _ _ _ _
        · simp only [if_neg hl]
          exact Abs.bind (absList hE args) fun _ => abs_tail _ _ _ _
    · simp only [if_neg hcond]
      by_cases hl : d.isLazy = true
      · simp only [if_pos hl]
        exact Abs.bind (absThunks hE args _) fun _ => abs_tail _ _ _ _
      · simp only [if_neg hl]
        exact Abs.bind (absList hE args) fun _ => abs_tail _ _ _ _

theorem absE_zero : AbsE funs 0 := by
  intro e
  unfold compileE sizeE
  exact abs_throw _

theorem absE_succ (hE : AbsE funs cf) : AbsE funs (cf + 1) := by
  intro e
  cases e with
  | str p v => unfold compileE sizeE; exact Abs.bind (abs_emitOp _) fun _ => abs_emitConst _
  | num p v => unfold compileE sizeE; exact Abs.bind (abs_emitOp _) fun _ => abs_emitConst _
  | time p v => unfold compileE sizeE; exact Abs.bind (abs_emitOp _) fun _ => abs_emitConst _
  | bool p v => unfold compileE sizeE; exact Abs.bind (abs_emitOp _) fun _ => abs_emitConst _
  | ident p x => unfold compileE sizeE; exact Abs.bind (abs_emitOp _) fun _ => abs_emitConst _
  | list p es ty =>
    unfold compileE sizeE
    exact Abs.bind (absList hE es) fun _ => Abs.bind (abs_emitOp _) fun _ =>
      Abs.bind (abs_emitConst _) fun _ => abs_emitU16 _
  | map p ps ty =>
    unfold compileE sizeE
    exact Abs.bind (absPairs hE ps) fun _ => Abs.bind (abs_emitOp _) fun _ =>
      Abs.bind (abs_emitConst _) fun _ => abs_emitU16 _
  | obj p fs ty =>
    unfold compileE sizeE
    exact Abs.bind (absFields hE fs) fun _ => Abs.bind (abs_emitOp _) fun _ => abs_emitConst _
  | member p col obj field fp oty index =>
    unfold compileE sizeE
    exact Abs.bind (hE obj) fun _ => Abs.bind (abs_emitOp _) fun _ => abs_emitConst _
  | subscript p col var idx vty =>
    unfold compileE sizeE
    refine Abs.bind (hE var) fun _ => Abs.bind (hE idx) fun _ => ?_
    split
    · exact abs_emitOp _
    · exact abs_emitOp _
    · rename_i h1 h2
      split
      · exact absurd rfl (h1 _)
      · exact absurd rfl (h2 _ _)
      · exact abs_throw _
  | unary => unfold compileE sizeE; exact abs_throw _
  | binary => unfold compileE sizeE; exact abs_throw _
  | ternary => unfold compileE sizeE; exact abs_throw _
  | group => unfold compileE sizeE; exact abs_throw _
  | call p col callee args cty resolved index =>
    unfold compileE sizeE
    dsimp only
    by_cases hres : (resolved == "") = true
    · rw [if_pos hres, if_pos hres]
      exact Abs.bind (hE callee) fun _ => Abs.bind (absList hE args) fun _ =>
        Abs.bind (abs_emitOp _) fun _ => abs_emitU8 _
    · rw [if_neg hres, if_neg hres]
      cases hrs : resolveStatic funs resolved index with
      | none => exact abs_throw _
      | some d => exact abs_callBody hE d (bidOf d) args

theorem absE_all : ∀ cf, AbsE funs cf
  | 0 => absE_zero
  | cf+1 => absE_succ (absE_all cf)

/-- **`compile` on sizes.**  `compile` refuses iff `sizes` refuses, with the same error; if it
succeeds, the code and the pool it returns have the sizes `sizes` returns. -/
theorem compile_sizes (funs : List FunDecl) (e : Expr) :
    (match compile funs e with
      | .ok (code, pool) => .ok (code.size, pool.size)
      | .error err => .error err : Except CErr (Nat × Nat)) = sizes funs e := by
  have h : Abs (do compileE (e.depth + 1) funs e; emitOp .RETURN : CM Unit)
      (do sizeE (e.depth + 1) funs e; sOp : SM Unit) :=
    Abs.bind (absE_all _ e) fun _ => abs_emitOp _
  have h0 := h (#[], #[])
  unfold compile sizes
  show (match (do
      let ((), (code, pool)) ← (do compileE (e.depth + 1) funs e; emitOp .RETURN : CM Unit) (#[], #[])
      pure (code, pool) : Except CErr (Code × Pool)) with
    | .ok (code, pool) => .ok (code.size, pool.size)
    | .error err => .error err : Except CErr (Nat × Nat)) =
    (do
      let ((), s) ← (do sizeE (e.depth + 1) funs e; sOp : SM Unit) (sz (#[], #[]))
      pure s)
  rcases hx : (do compileE (e.depth + 1) funs e; emitOp .RETURN : CM Unit) (#[], #[]) with
    err | ⟨u, c, p⟩ <;>
  rcases hy : (do sizeE (e.depth + 1) funs e; sOp : SM Unit) (sz (#[], #[])) with err' | ⟨u', t⟩ <;>
  rw [hx, hy] at h0
  · cases h0; rfl
  · exact h0.elim
  · exact h0.elim
  · obtain ⟨_, hs⟩ := h0
    cases hs; rfl

end

end Yae.VmChk
