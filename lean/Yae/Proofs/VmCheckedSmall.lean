/-
  C03, checked programs, part 9: small programs are never refused.  On sizes: if the code
  offset has room for 16 bytes per node of the tree and the pool for 2 constants per node, and no
  call has more than 255 arguments, `sizeE` does not overflow.
-/
import Yae.Proofs.VmCheckedSizes
import Yae.Proofs.VmSimRefuse
namespace Yae.VmChk
open Yae Yae.Vm Yae.VmSim

mutual
/-- number of nodes of the tree -/
def nodes : Expr → Nat
  | .list _ es _ => nodesL es + 1
  | .map _ ps _ => nodesP ps + 1
  | .obj _ fs _ => nodesF fs + 1
  | .call _ _ c as _ _ _ => nodes c + nodesL as + 1
  | .subscript _ _ v i _ => nodes v + nodes i + 1
  | .member _ _ o _ _ _ _ => nodes o + 1
  | _ => 1
def nodesL : ExprList → Nat
  | .nil => 0
  | .cons e es => nodes e + nodesL es
def nodesP : PairList → Nat
  | .nil => 0
  | .cons k v ps => nodes k + nodes v + nodesP ps
def nodesF : FieldEList → Nat
  | .nil => 0
  | .cons _ e fs => nodes e + nodesF fs
end

mutual
/-- no call has more than 255 arguments -/
def argsOK : Expr → Bool
  | .list _ es _ => argsOKL es
  | .map _ ps _ => argsOKP ps
  | .obj _ fs _ => argsOKF fs
  | .call _ _ c as _ _ _ => decide (as.length ≤ 255) && argsOK c && argsOKL as
  | .subscript _ _ v i _ => argsOK v && argsOK i
  | .member _ _ o _ _ _ _ => argsOK o
  | _ => true
def argsOKL : ExprList → Bool
  | .nil => true
  | .cons e es => argsOK e && argsOKL es
def argsOKP : PairList → Bool
  | .nil => true
  | .cons k v ps => argsOK k && argsOK v && argsOKP ps
def argsOKF : FieldEList → Bool
  | .nil => true
  | .cons _ e fs => argsOK e && argsOKF fs
end

theorem nodes_pos (e : Expr) : 1 ≤ nodes e := by cases e <;> simp [nodes] <;> omega

theorem length_le_nodesL : ∀ es : ExprList, es.length ≤ nodesL es
  | .nil => by simp [ExprList.length, nodesL]
  | .cons e es => by
    have := length_le_nodesL es; have := nodes_pos e
    simp [ExprList.length, nodesL]; omega

theorem length_le_nodesP : ∀ ps : PairList, ps.length ≤ nodesP ps
  | .nil => by simp [PairList.length, nodesP]
  | .cons k v ps => by
    have := length_le_nodesP ps; have := nodes_pos k
    simp [PairList.length, nodesP]; omega

/-- From a state with room for `n` more bytes (below offset 65 535) and `m` more constants, `x`
does not overflow, and uses at most `n` bytes and `m` constants. -/
def Fit {α} (x : SM α) (n m : Nat) : Prop :=
  ∀ c p, c + n ≤ 65535 → p + m ≤ 65536 →
    match x (c, p) with
    | .ok (_, (c', p')) => c' ≤ c + n ∧ p' ≤ p + m
    | .error err => err ≠ .overflow

theorem Fit.bind {α β} {x : SM α} {f : α → SM β} {n1 m1 n2 m2 : Nat}
    (hx : Fit x n1 m1) (hf : ∀ a, Fit (f a) n2 m2) : Fit (x >>= f) (n1 + n2) (m1 + m2) := by
  intro c p hc hp
  rw [sm_bind]
  have h1 := hx c p (by omega) (by omega)
  rcases hxs : x (c, p) with err | ⟨a, c1, p1⟩
  · rw [hxs] at h1; exact h1
  · rw [hxs] at h1
    have h2 := hf a c1 p1 (by omega) (by omega)
    show (match f a (c1, p1) with
      | .ok (_, (c', p')) => c' ≤ c + (n1 + n2) ∧ p' ≤ p + (m1 + m2)
      | .error err => err ≠ .overflow)
    rcases hfs : f a (c1, p1) with err | ⟨b, c2, p2⟩
    · rw [hfs] at h2; exact h2
    · rw [hfs] at h2; exact ⟨by omega, by omega⟩

theorem Fit.mono {α} {x : SM α} {n m n' m' : Nat} (h : Fit x n m) (hn : n ≤ n') (hm : m ≤ m') :
    Fit x n' m' := by
  intro c p hc hp
  have h1 := h c p (by omega) (by omega)
  rcases hxs : x (c, p) with err | ⟨a, c1, p1⟩
  · rw [hxs] at h1; exact h1
  · rw [hxs] at h1; exact ⟨by omega, by omega⟩

theorem fit_pure {α} (a : α) : Fit (pure a : SM α) 0 0 :=
  fun _ _ _ _ => ⟨Nat.le_refl _, Nat.le_refl _⟩
theorem fit_throw {α} {e : CErr} (he : e ≠ .overflow) : Fit (throw e : SM α) 0 0 := fun _ _ _ _ => he
theorem fit_sOp : Fit sOp 1 0 := fun _ _ _ _ => ⟨Nat.le_refl _, Nat.le_refl _⟩

theorem fit_sU16 {k : Nat} (hk : k ≤ 65535) : Fit (sU16 k) 2 0 := by
  intro c p _ _
  have : sU16 k (c, p) = .ok ((), (c + 2, p)) := by
    unfold sU16; rw [if_neg (by omega)]; rfl
  rw [this]; exact ⟨Nat.le_refl _, Nat.le_refl _⟩

theorem fit_sU8 {k : Nat} (hk : k ≤ 255) : Fit (sU8 k) 1 0 := by
  intro c p _ _
  have : sU8 k (c, p) = .ok ((), (c + 1, p)) := by
    unfold sU8; rw [if_neg (by omega)]; rfl
  rw [this]; exact ⟨Nat.le_refl _, Nat.le_refl _⟩

theorem fit_sConst : Fit sConst 2 1 := by
  intro c p _ hp
  have : sConst (c, p) = sU16 p (c, p + 1) := rfl
  rw [this]
  have : sU16 p (c, p + 1) = .ok ((), (c + 2, p + 1)) := by
    unfold sU16; rw [if_neg (by omega)]; rfl
  rw [this]; exact ⟨Nat.le_refl _, Nat.le_refl _⟩

/-! ### primitives at a state -/

theorem sOp_apply (c p : Nat) : sOp (c, p) = .ok ((), (c + 1, p)) := rfl
theorem sHere_apply (c p : Nat) : sHere (c, p) = .ok (c, (c, p)) := rfl
theorem sPlaceholder_apply (c p : Nat) : sPlaceholder (c, p) = .ok (c, (c + 2, p)) := rfl
theorem sPatch_apply {t : Nat} (h : t ≤ 65535) (c p : Nat) : sPatch t (c, p) = .ok ((), (c, p)) := by
  unfold sPatch; rw [if_neg (by omega)]; rfl
theorem sm_get_apply (s : Nat × Nat) : (get : SM (Nat × Nat)) s = .ok (s, s) := rfl
theorem sm_set_apply (x s : Nat × Nat) : (set x : SM PUnit) s = .ok (⟨⟩, x) := rfl

/-- the induction hypothesis on the compiler's fuel: 16 bytes and 2 constants per node, one
constant to spare (a deferred argument costs one more) -/
def FitE (funs : List FunDecl) (cf : Nat) : Prop :=
  ∀ e, argsOK e = true → Fit (sizeE cf funs e) (16 * nodes e) (2 * nodes e - 1)

section
variable {funs : List FunDecl} {cf : Nat}

theorem fitL (hE : FitE funs cf) : ∀ es, argsOKL es = true →
    Fit (sizeL cf funs es) (16 * nodesL es) (2 * nodesL es)
  | .nil, _ => by unfold sizeL; exact fit_pure _
  | .cons e es, h => by
    simp only [argsOKL, Bool.and_eq_true] at h
    unfold sizeL
    have := nodes_pos e
    exact (Fit.bind (hE e h.1) fun _ => fitL hE es h.2).mono (by simp only [nodesL]; omega)
      (by simp only [nodesL]; omega)

theorem fitF (hE : FitE funs cf) : ∀ fs, argsOKF fs = true →
    Fit (sizeF cf funs fs) (16 * nodesF fs) (2 * nodesF fs)
  | .nil, _ => by unfold sizeF; exact fit_pure _
  | .cons _ e fs, h => by
    simp only [argsOKF, Bool.and_eq_true] at h
    unfold sizeF
    have := nodes_pos e
    exact (Fit.bind (hE e h.1) fun _ => fitF hE fs h.2).mono (by simp only [nodesF]; omega)
      (by simp only [nodesF]; omega)

theorem fitP (hE : FitE funs cf) : ∀ ps, argsOKP ps = true →
    Fit (sizeP cf funs ps) (16 * nodesP ps) (2 * nodesP ps)
  | .nil, _ => by unfold sizeP; exact fit_pure _
  | .cons k v ps, h => by
    simp only [argsOKP, Bool.and_eq_true] at h
    unfold sizeP
    have := nodes_pos k; have := nodes_pos v
    exact (Fit.bind (hE k h.1.1) fun _ => Fit.bind (hE v h.1.2) fun _ => fitP hE ps h.2).mono
      (by simp only [nodesP]; omega) (by simp only [nodesP]; omega)

/-- deferred arguments: three bytes each in the enclosing buffer, the body in a fresh one -/
theorem fitT (hE : FitE funs cf) : ∀ es, argsOKL es = true →
    Fit (sizeT cf funs es) (16 * nodesL es) (2 * nodesL es)
  | .nil, _ => by unfold sizeT; exact fit_pure _
  | .cons e es, h => by
    simp only [argsOKL, Bool.and_eq_true] at h
    have hn := nodes_pos e
    intro c p hc hp
    simp only [nodesL] at hc hp
    unfold sizeT
    simp only [sm_bind, sOp_apply, sm_get_apply, sm_set_apply]
    have h1 := hE e h.1 0 p (by omega) (by omega)
    rcases hb : sizeE cf funs e (0, p) with err | ⟨u, cb, pb⟩
    · rw [hb] at h1; exact h1
    · rw [hb] at h1
      simp only [sOp_apply]
      have h2 := fit_sConst (c + 1) pb (by omega) (by omega)
      rcases hk : sConst (c + 1, pb) with err | ⟨u', ck, pk⟩
      · rw [hk] at h2; exact h2
      · rw [hk] at h2
        dsimp only at h1 h2 ⊢
        have h3 := fitT hE es h.2 ck pk (by omega) (by omega)
        rcases ht : sizeT cf funs es (ck, pk) with err | ⟨u'', ct, pt⟩
        · rw [ht] at h3; exact h3
        · rw [ht] at h3
          dsimp only at h3 ⊢
          simp only [nodesL]
          exact ⟨by omega, by omega⟩

/-- a conditional: the two jump targets are offsets reached in the same buffer -/
theorem fitC (hE : FitE funs cf) (c t f : Expr) (hc : argsOK c = true) (ht : argsOK t = true)
    (hf : argsOK f = true) :
    Fit (sizeC cf funs c t f) (16 * (nodes c + nodes t + nodes f) + 6)
      (2 * (nodes c + nodes t + nodes f) - 3) := by
  have := nodes_pos c; have := nodes_pos t; have := nodes_pos f
  intro c0 p0 hc0 hp0
  unfold sizeC
  simp only [sm_bind]
  have h1 := hE c hc c0 p0 (by omega) (by omega)
  rcases e1 : sizeE cf funs c (c0, p0) with err | ⟨u, c1, p1⟩
  · rw [e1] at h1; exact h1
  · rw [e1] at h1
    simp only [sOp_apply, sPlaceholder_apply]
    have h2 := hE t ht (c1 + 1 + 2) p1 (by omega) (by omega)
    rcases e2 : sizeE cf funs t (c1 + 1 + 2, p1) with err | ⟨u, c2, p2⟩
    · rw [e2] at h2; exact h2
    · rw [e2] at h2
      simp only [sOp_apply, sPlaceholder_apply, sHere_apply]
      have h3 := hE f hf (c2 + 1 + 2) p2 (by omega) (by omega)
      rcases e3 : sizeE cf funs f (c2 + 1 + 2, p2) with err | ⟨u, c3, p3⟩
      · rw [e3] at h3; exact h3
      · rw [e3] at h3
        dsimp only at h1 h2 h3 ⊢
        simp only [sHere_apply]
        rw [sPatch_apply (by omega)]
        dsimp only
        rw [sPatch_apply (by omega)]
        dsimp only
        exact ⟨by omega, by omega⟩

theorem fit_tail (o : Option Op) {k : Nat} (hk : k ≤ 255) :
    Fit (match o with
      | some _ => sOp
      | none => do
        sOp
        sConst
        sU8 k : SM Unit) 4 1 := by
  cases o with
  | some op => exact fit_sOp.mono (by omega) (by omega)
  | none => exact Fit.bind fit_sOp fun _ => Fit.bind fit_sConst fun _ => fit_sU8 hk

theorem fit_sizeBody (hE : FitE funs cf) (d : FunDecl) (bid : Option BId) (args : ExprList)
    (ha : argsOKL args = true) (hlen : args.length ≤ 255) :
    Fit (sizeBody cf funs d bid args) (16 * nodesL args + 22) (2 * nodesL args + 1) := by
  unfold sizeBody
  split
  · rename_i c t f
    simp only [argsOKL, Bool.and_eq_true] at ha
    have := nodes_pos c; have := nodes_pos t; have := nodes_pos f
    exact (fitC hE c t f ha.1 ha.2.1 ha.2.2.1).mono (by simp only [nodesL]; omega)
      (by simp only [nodesL]; omega)
  · rename_i x y
    simp only [argsOKL, Bool.and_eq_true] at ha
    have := nodes_pos x; have := nodes_pos y
    exact (fitC hE x y _ ha.1 ha.2.1 rfl).mono (by simp only [nodesL, nodes]; omega)
      (by simp only [nodesL, nodes]; omega)
  · rename_i x y
    simp only [argsOKL, Bool.and_eq_true] at ha
    have := nodes_pos x; have := nodes_pos y
    exact (fitC hE x _ y ha.1 rfl ha.2.1).mono (by simp only [nodesL, nodes]; omega)
      (by simp only [nodesL, nodes]; omega)
  · rename_i x rest
    simp only [argsOKL, Bool.and_eq_true] at ha
    have := nodes_pos x
    exact (Fit.bind (hE x ha.1) fun _ => fit_sOp).mono (by simp only [nodesL]; omega)
      (by simp only [nodesL]; omega)
  · have hrest : Fit (do
        if d.isLazy then sizeT cf funs args else sizeL cf funs args
        match bid.bind intrinsicByValue with
        | some _ => sOp
        | none => do
          sOp
          sConst
          sU8 args.length : SM Unit) (16 * nodesL args + 4) (2 * nodesL args + 1) := by
      dsimp only
      by_cases hl : d.isLazy = true
      · simp only [if_pos hl]
        exact Fit.bind (fitT hE args ha) fun _ => fit_tail _ hlen
      · simp only [if_neg hl]
        exact Fit.bind (fitL hE args ha) fun _ => fit_tail _ hlen
    dsimp only at hrest ⊢
    by_cases hcond : (Option.map isCondIntrinsic bid).getD false = true
    · simp only [if_pos hcond]
      exact (Fit.bind (fit_throw (by simp)) fun _ => hrest).mono (by omega) (by omega)
    · simp only [if_neg hcond]
      exact hrest.mono (by omega) (by omega)

theorem fitE_zero : FitE funs 0 := by
  intro e _
  unfold sizeE
  exact (fit_throw (by simp)).mono (by omega) (by omega)

theorem fit_lit : Fit (do sOp; sConst : SM Unit) (16 * 1) (2 * 1 - 1) :=
  (Fit.bind fit_sOp fun _ => fit_sConst).mono (by omega) (by omega)

theorem fitE_succ (hE : FitE funs cf) : FitE funs (cf + 1) := by
  intro e ha
  cases e with
  | str p v => unfold sizeE; exact fit_lit
  | num p v => unfold sizeE; exact fit_lit
  | time p v => unfold sizeE; exact fit_lit
  | bool p v => unfold sizeE; exact fit_lit
  | ident p x => unfold sizeE; exact fit_lit
  | list p es ty =>
    simp only [argsOK] at ha
    unfold sizeE
    intro c p hc hp
    simp only [nodes] at hc hp ⊢
    have hlen : es.length ≤ 65535 := by have := length_le_nodesL es; omega
    exact ((Fit.bind (fitL hE es ha) fun _ => Fit.bind fit_sOp fun _ => Fit.bind fit_sConst fun _ =>
      fit_sU16 hlen).mono (n' := 16 * (nodesL es + 1)) (m' := 2 * (nodesL es + 1) - 1)
      (by omega) (by omega)) c p hc hp
  | map p ps ty =>
    simp only [argsOK] at ha
    unfold sizeE
    intro c p hc hp
    simp only [nodes] at hc hp ⊢
    have hlen : ps.length ≤ 65535 := by have := length_le_nodesP ps; omega
    exact ((Fit.bind (fitP hE ps ha) fun _ => Fit.bind fit_sOp fun _ => Fit.bind fit_sConst fun _ =>
      fit_sU16 hlen).mono (n' := 16 * (nodesP ps + 1)) (m' := 2 * (nodesP ps + 1) - 1)
      (by omega) (by omega)) c p hc hp
  | obj p fs ty =>
    simp only [argsOK] at ha
    unfold sizeE
    exact (Fit.bind (fitF hE fs ha) fun _ => Fit.bind fit_sOp fun _ => fit_sConst).mono
      (by simp only [nodes]; omega) (by simp only [nodes]; omega)
  | member p col obj field fp oty index =>
    simp only [argsOK] at ha
    unfold sizeE
    have := nodes_pos obj
    exact (Fit.bind (hE obj ha) fun _ => Fit.bind fit_sOp fun _ => fit_sConst).mono
      (by simp only [nodes]; omega) (by simp only [nodes]; omega)
  | subscript p col var idx vty =>
    simp only [argsOK, Bool.and_eq_true] at ha
    unfold sizeE
    have := nodes_pos var; have := nodes_pos idx
    have htail : Fit (match vty with
        | some (.list _) => sOp
        | some (.map _ _) => sOp
        | _ => throw (.unreachable "subscript") : SM Unit) 1 0 := by
      split
      · exact fit_sOp
      · exact fit_sOp
      · exact (fit_throw (by simp)).mono (by omega) (by omega)
    exact (Fit.bind (hE var ha.1) fun _ => Fit.bind (hE idx ha.2) fun _ => htail).mono
      (by simp only [nodes]; omega) (by simp only [nodes]; omega)
  | unary => unfold sizeE; exact (fit_throw (by simp)).mono (by omega) (by omega)
  | binary => unfold sizeE; exact (fit_throw (by simp)).mono (by omega) (by omega)
  | ternary => unfold sizeE; exact (fit_throw (by simp)).mono (by omega) (by omega)
  | group => unfold sizeE; exact (fit_throw (by simp)).mono (by omega) (by omega)
  | call p col callee args cty resolved index =>
    simp only [argsOK, Bool.and_eq_true, decide_eq_true_eq] at ha
    obtain ⟨⟨hlen, hcal⟩, hargs⟩ := ha
    have := nodes_pos callee
    unfold sizeE
    dsimp only
    split
    · exact (Fit.bind (hE callee hcal) fun _ => Fit.bind (fitL hE args hargs) fun _ =>
        Fit.bind fit_sOp fun _ => fit_sU8 hlen).mono
        (by simp only [nodes]; omega) (by simp only [nodes]; omega)
    · split
      · exact (fit_throw (by simp)).mono (by omega) (by omega)
      · rename_i d _
        exact (fit_sizeBody hE d (bidOf d) args hargs hlen).mono
          (by simp only [nodes]; omega) (by simp only [nodes]; omega)

theorem fitE_all : ∀ cf, FitE funs cf
  | 0 => fitE_zero
  | cf+1 => fitE_succ (fitE_all cf)

/-- **`sizes` does not overflow on a small tree**: at most 4095 nodes, no call with more than
255 arguments -/
theorem sizes_small (funs : List FunDecl) {e : Expr} (ha : argsOK e = true)
    (hn : nodes e ≤ 4095) : sizes funs e ≠ .error .overflow := by
  have h : Fit (do sizeE (e.depth + 1) funs e; sOp : SM Unit) (16 * nodes e + 1) (2 * nodes e - 1) :=
    Fit.bind (fitE_all _ e ha) fun _ => fit_sOp
  have h0 := h 0 0 (by omega) (by omega)
  unfold sizes
  show (do
      let ((), s) ← (do sizeE (e.depth + 1) funs e; sOp : SM Unit) (0, 0)
      pure s : Except CErr (Nat × Nat)) ≠ _
  rcases hx : (do sizeE (e.depth + 1) funs e; sOp : SM Unit) (0, 0) with err | ⟨u, c, p⟩
  · rw [hx] at h0
    intro hc; cases hc; exact h0 rfl
  · intro hc; cases hc

end

end Yae.VmChk
