/-
  C03, checked programs, part 6: concrete programs.
  * `D20`: a checked program in a conforming environment on which the machine and the evaluator
    differ: the environment binds, inside an object, a function VALUE with the lazy flag, and the
    program calls it dynamically, `h.f(1)`.  Everything but `NoLazyEnv` holds.
  * `Ex`: `[o.a, 2][1] + 2`: a subscript, a member access and a statically dispatched call, for
    which all hypotheses of the end-to-end theorem hold.
  * `Deep`: `!!…!true` (13 negations): a checked program whose `W`-bound exceeds the fuel `runVm`
    passes (so `runVm` is handled through the verifier's step bound and fuel monotonicity).
-/
import Yae.Proofs.VmCheckedMain
import Yae.Proofs.TypingPolyOK
import Yae.Proofs.SoundnessExample2
namespace Yae.VmChk.D20
open Yae Yae.Vm Yae.VmSim

def p0 : Pos := Pos.unknown
def lzTy : Ty := .fn "lz" (.cons .num .nil) .num
/-- a lazy host function as a first-class value: it forces its only argument -/
def lzVal : Val := .fn lzTy (.host "lz" (.force [0])) true
def hTy : Ty := .obj (.cons "f" lzTy .nil)
def hVal : Val := .obj hTy (.cons lzVal .nil)
def Γ : TEnv := ⟨[("h", hTy)], [], reservedWords⟩
def ρ : REnv := ⟨[("h", hVal)], [], {}⟩

/-- `h.f(1)` as parsed -/
def prog : Expr :=
  .call p0 0 (.member p0 0 (.ident p0 "h") "f" p0 none 0) (.cons (.num p0 1) .nil) none "" 0
/-- … and as the checker returns it -/
def prog' : Expr :=
  .call p0 0 (.member p0 0 (.ident p0 "h") "f" p0 (some hTy) 0) (.cons (.num p0 1) .nil)
    (some lzTy) "" (-1)

/-- `LOAD h; OBJ_LOAD f; CONST 1; DYNAMIC_CALL 1; RETURN` -/
def code : Code := #[3, 0, 0, 45, 0, 1, 2, 0, 2, 52, 1, 1]
def pool : Pool := #[.name "h", .name "f", .val (.num 1)]

theorem funsOK : Sound.FunsOK Γ.funs := fun d hd => by cases hd

theorem envOK : Sound.EnvOK Γ ρ where
  vars := by
    intro x T h
    simp only [TEnv.lookupVar, Γ, List.find?] at h
    split at h
    · next hx =>
      simp only [Option.map_some, Option.some.injEq] at h
      subst h
      refine ⟨hVal, ?_, by decide, by decide⟩
      simp only [REnv.lookupVar, ρ, List.find?, hx]; rfl
    · simp at h
  funs := rfl
  tys := by
    intro p hp
    simp only [Γ, List.mem_singleton] at hp
    subst hp
    exact ⟨by decide, by decide⟩

theorem inferred (ctr : Nat) :
    inferFun ctr "lz" (.cons .num .nil) .num (.cons .num .nil) = .ok (.cons .num .nil, .num) := by
  rw [PolyOK.sigOK_inferFun (by decide) (by decide)]
  rfl

theorem checkedCallee : check Γ 0 (.member p0 0 (.ident p0 "h") "f" p0 none 0) =
    .ok (lzTy, .member p0 0 (.ident p0 "h") "f" p0 (some hTy) 0, 0) := by rfl

theorem checked : check Γ 0 prog = .ok (.num, prog', 2) := by
  have h1 : check Γ 0 prog = (do
      let (fTy, callee', ctr) ← check Γ 0 (.member p0 0 (.ident p0 "h") "f" p0 none 0)
      match fTy with
      | .fn name ps ret =>
        match ← liftU (inferFun ctr name ps ret (.cons .num .nil)) with
        | none => throw .type
        | some (ps', ret') =>
          let ctr := ctr + (TyList.cons Ty.num .nil).length + 1
          if ps'.length != (TyList.cons Ty.num .nil).length then throw .arity
          assertParams ps' (.cons .num .nil)
          pure (ret', .call p0 0 callee' (.cons (.num p0 1) .nil) (some (.fn name ps' ret')) "" (-1), ctr)
      | _ => throw .noncallable) := by
    rw [prog, check]
    rfl
  rw [h1, checkedCallee]
  simp only [Yae.CR.ok_bind, lzTy, inferred, liftU]
  rfl

theorem compiled : compile Γ.funs prog' = .ok (code, pool) := by
  simp only [compile, prog', compileE, compileList, Expr.depth, depthList, Nat.reduceAdd,
    Nat.max_def, Nat.reduceLeDiff, ↓reduceIte, beq_self_eq_true]
  rfl

/-- everything the checker leaves on the tree is there … -/
theorem annotated : wa Γ.funs prog' = true := by decide

/-- … and the operand kinds agree; only the lazy callee is in the way -/
theorem notNoLazy : ¬ NoLazyEnv ρ := by decide

/-- the callee `h.f` evaluates to the lazy function value -/
theorem calleeEval : eval 2 false ρ (.member p0 0 (.ident p0 "h") "f" p0 (some hTy) 0) [] =
    (.ok lzVal, []) := by
  have hl : ρ.lookupVar "h" = some hVal := rfl
  simp only [eval, hl, hVal, hTy, objGet?, recDbg, Option.bind]
  rfl

theorem notDynStrict : ¬ DynStrict ρ prog' := by
  intro h
  simp only [prog', DynStrict] at h
  exact (h.1 trivial).2 _ _ _ _ calleeEval _ _ rfl

/-- the evaluator builds a thunk for the argument, logs the host call and forces the thunk -/
theorem depth_prog' : prog'.depth = 3 := by decide

theorem evaluated :
    eval (prog'.depth + 1) false ρ prog' [] = (.ok (.num 1), [.call "lz" []]) := by
  have hl : ρ.lookupVar "h" = some hVal := rfl
  rw [depth_prog']
  simp only [prog', eval, hl, hVal, hTy, lzVal, lzTy, callFun, forceSeq,
    objGet?, FieldList.indexOf?, ValList.get?, ExprList.get?, recDbg, Option.bind,
    beq_self_eq_true, if_true, Bool.false_eq_true, if_false, Nat.reduceAdd,
    Sound.Example.EvalM.pure_bind']
  rfl

/-- `DYNAMIC_CALL` of a function value with the lazy flag -/
theorem run_dyn_lazy {ρ : REnv} {P : Pool} {C : Code} {pc nx : Nat} {st : List Slot}
    {l : List Event} {F : Nat} {argc : Nat} {ty : Ty} {ref : FunRef} {args : List Val}
    {st' : List Slot} (hd : decodeAt C pc = some (.dyn argc, nx))
    (hpop : popN argc st [] l = (.ok (args, .val (.fn ty ref true) :: st'), l)) :
    run (F+1) ρ P C pc st l = (.error (.stuck "dynamic call of a lazy function"), l) := by
  rw [run]; simp only [hd]; rw [bind_ok hpop]; simp [bind_apply]

/-- the machine evaluates the argument, then refuses the lazy callee (in Go, defect D20: it goes
on and hands the VALUE to a function that expects a thunk) -/
theorem ran (F : Nat) (hF : 5 ≤ F) :
    run F ρ pool code 0 [] [] = (.error (.stuck "dynamic call of a lazy function"), []) := by
  obtain ⟨F0, rfl⟩ : ∃ F0, F = F0 + 5 := ⟨F - 5, by omega⟩
  rw [run_load (i := 0) (x := "h") (nx := 3) rfl rfl,
    show (ρ.lookupVar "h").getD .nil = hVal from rfl, hVal,
    run_objload (i := 1) (f := "f") (nx := 6) rfl rfl]
  simp only [hTy, objGet?, FieldList.indexOf?, ValList.get?, Option.bind, if_true]
  rw [run_const_val (i := 2) (v := .num 1) (nx := 9) rfl rfl]
  exact run_dyn_lazy (argc := 1) (nx := 11) (args := [.num 1]) (st' := []) rfl rfl

end Yae.VmChk.D20

namespace Yae.VmChk.Ex
open Yae Yae.Vm Yae.VmSim Yae.Sound.Example

/-- `[o.a, 2][1] + 2` as parsed, in the environment of `Yae.Sound.Example` (all built-ins
registered, `o : {a: num, b: str}` bound to a value whose own type lists `b` first) -/
def prog : Expr :=
  .call p0 0 (.ident p0 "+")
    (.cons (.subscript p0 0
        (.list p0 (.cons (.member p0 0 (.ident p0 "o") "a" p0 none 0) (.cons (.num p0 2) .nil)) none)
        (.num p0 one) none)
      (.cons (.num p0 2) .nil)) none "" 0

/-- … and as the checker returns it -/
def prog' : Expr :=
  .call p0 0 (.ident p0 "+")
    (.cons (.subscript p0 0
        (.list p0 (.cons (.member p0 0 (.ident p0 "o") "a" p0 (some objT) 0) (.cons (.num p0 2) .nil))
          (some (.list .num)))
        (.num p0 one) (some (.list .num)))
      (.cons (.num p0 2) .nil))
    (some (.fn "+" (.cons .num (.cons .num .nil)) .num)) "λ + (num, num)" (-1)

theorem checked : check Γ 0 prog = .ok (.num, prog', 0) := by rfl

theorem noLazy : NoLazyEnv ρ := by decide

theorem compiled : ∃ code pool, compile Γ.funs prog' = .ok (code, pool) := by
  have hr : resolveStatic Γ.funs "λ + (num, num)" (-1) =
      some ⟨.fn "+" (.cons .num (.cons .num .nil)) .num, .builtin 2, false⟩ := resolved
  have hb : Option.map (fun x => x.id) builtins[2]? = some BId.ADD_NUM_NUM := rfl
  have hne : ("λ + (num, num)" == "") = false := by decide
  simp only [compile, prog', compileE, compileList, Expr.depth, depthList, Nat.reduceAdd,
    Nat.max_def, Nat.reduceLeDiff, ↓reduceIte, hr, hb, hne, Bool.false_eq_true]
  exact ⟨_, _, rfl⟩

end Yae.VmChk.Ex

/-! ### `vmFuel` is not below the fuel `runVm` passes

`W` doubles at every call argument (twice the argument's weight: it may be compiled in line or
as a deferred body, run by a forcing), the code grows by one byte.  Thirteen nested negations:
17 bytes of code, `runVm` passes 18 000 units of fuel, `W + 1 = 49 148`. -/

namespace Yae.VmChk.Deep
open Yae Yae.Vm Yae.VmSim Yae.Sound.Example

/-- `!!…!true`, `n` negations, as parsed -/
def nots : Nat → Expr
  | 0 => .bool p0 true
  | n+1 => .call p0 0 (.ident p0 "!") (.cons (nots n) .nil) none "" 0

/-- … and as the checker returns it -/
def nots' : Nat → Expr
  | 0 => .bool p0 true
  | n+1 => .call p0 0 (.ident p0 "!") (.cons (nots' n) .nil)
      (some (.fn "!" (.cons .bool .nil) .bool)) "λ ! (bool)" (-1)

set_option maxRecDepth 100000 in
theorem checked : check Γ 0 (nots 13) = .ok (.bool, nots' 13, 0) := by rfl

theorem W_nots' : ∀ n, W (nots' n) + 5 = 6 * 2 ^ n
  | 0 => rfl
  | n+1 => by
    have := W_nots' n
    simp only [nots', W, WL]
    omega


set_option maxRecDepth 100000 in
theorem notResolved : resolveStatic Γ.funs "λ ! (bool)" (-1) =
    some ⟨.fn "!" (.cons .bool .nil) .bool, .builtin 31, false⟩ := by rfl

theorem depth_nots' : ∀ n, (nots' n).depth = n + 1
  | 0 => rfl
  | n+1 => by simp [nots', Expr.depth, depthList, depth_nots' n]

def code13 : Code := #[2, 0, 0, 55, 55, 55, 55, 55, 55, 55, 55, 55, 55, 55, 55, 55, 1]
def pool13 : Pool := #[.val (.bool true)]

theorem compiled : compile Γ.funs (nots' 13) = .ok (code13, pool13) := by
  have hr := notResolved
  have hb : Option.map (fun x => x.id) builtins[31]? = some BId.LOGIC_NOT_BOOL := rfl
  have hne : ("λ ! (bool)" == "") = false := by decide
  unfold compile
  rw [depth_nots']
  simp only [nots', compileE, hr, hb, hne,
    Bool.false_eq_true, ↓reduceIte, Nat.reduceAdd]
  rfl

theorem exceeds : 1000 * (totalCodeSize code13 pool13 + 1) < W (nots' 13) + 1 := by
  have := W_nots' 13
  have h : totalCodeSize code13 pool13 = 17 := by decide
  rw [h]; omega

end Yae.VmChk.Deep
