/-
  C11, the compiler side: every program `compile` emits from a tree carrying the checker's
  annotations is accepted by the verifier `VmVerify.verify` (main code against the whole pool,
  every deferred body against the constants allocated before it).

  Route: `VmSimCompile.compile_layout` gives the layout `LayE funs pool code e 0 ob` of the
  emitted code.  By induction over the layout a fragment laid out at `[o, o')` *verifies as a +1
  fragment* (`Frag`): a verifier pass that succeeds from `o'` with one more value on the abstract
  stack succeeds from `o`, using one unit of fuel per byte of the fragment at most.  The deferred
  bodies are handled by a second pass over the compiler (`PoolInv`): every deferred constant the
  compiler appends was compiled into a fresh buffer against the pool as it was, so its body
  verifies against exactly the constants before it.
-/
import Yae.Proofs.VmVerify
import Yae.Proofs.VmSimCompile
import Yae.Proofs.VmSimExec
namespace Yae.VmCV
open Yae Yae.Vm Yae.VmVerify Yae.VmSim

/-! ### literal annotations

`wa` (the annotations the simulation proof needs) asks a non-empty list / map literal only to
carry *some* type; the verifier (as the machine's `NEW_LIST` / `NEW_MAP`) wants a list / map
type.  The checker attaches `list[el]` / `map[k,v]` (`Check.lean`), so this is what it leaves
on the tree as well. -/

def listShape : Option Ty → Bool
  | some (.list _) => true
  | _ => false
def mapShape : Option Ty → Bool
  | some (.map _ _) => true
  | _ => false

mutual
/-- list and map literals are annotated with a list / map type (in the positions the compiler
visits: the callee of a statically resolved call is not compiled) -/
def lit : Expr → Bool
  | .list _ es ty => listShape ty && litL es
  | .map _ ps ty => mapShape ty && litP ps
  | .obj _ fs _ => litF fs
  | .call _ _ callee args _ resolved _ =>
    if resolved == "" then lit callee && litL args else litL args
  | .subscript _ _ var idx _ => lit var && lit idx
  | .member _ _ obj _ _ _ _ => lit obj
  | _ => true
def litL : ExprList → Bool
  | .nil => true
  | .cons e es => lit e && litL es
def litP : PairList → Bool
  | .nil => true
  | .cons k v ps => lit k && lit v && litP ps
def litF : FieldEList → Bool
  | .nil => true
  | .cons _ e fs => lit e && litF fs
end

/-! ### fragments of a verifier pass -/

/-- a verifier pass that succeeds from `o'` with `τ` succeeds from `o` with `σ`, whatever is
promised to offsets from `o'` on; one unit of fuel per byte of `[o, o')` suffices -/
def Frag (P : Pool) (C : Code) (o o' : Nat) (σ τ : AStack) : Prop :=
  ∀ (pending : List (Nat × AStack)) (fuel : Nat), (∀ p ∈ pending, o' ≤ p.1) →
    verifyFrom fuel P C o' (some τ) pending = true →
    verifyFrom (fuel + (o' - o)) P C o (some σ) pending = true

theorem Frag.refl {P : Pool} {C : Code} {o : Nat} {σ : AStack} : Frag P C o o σ σ := by
  intro pending fuel _ h
  simpa using h

theorem Frag.trans {P : Pool} {C : Code} {o o1 o' : Nat} {σ τ υ : AStack}
    (h1 : Frag P C o o1 σ τ) (h2 : Frag P C o1 o' τ υ) (l1 : o ≤ o1) (l2 : o1 ≤ o') :
    Frag P C o o' σ υ := by
  intro pending fuel hf h
  have a := h2 pending fuel hf h
  have b := h1 pending _ (fun p hp => Nat.le_trans l2 (hf p hp)) a
  have e : fuel + (o' - o) = fuel + (o' - o1) + (o1 - o) := by omega
  rw [e]; exact b

/-- one instruction that is neither `RETURN` nor a jump -/
theorem Frag.plain {P : Pool} {C : Code} {o o' : Nat} {ins : Instr} {σ τ : AStack}
    (hd : decodeAt C o = some (ins, o')) (hs : stepA P ins σ = some τ)
    (hr : ins ≠ .simple .RETURN) (hj : ∀ op t, ins ≠ .jump op t) (hsz : o' < C.size) :
    Frag P C o o' σ τ := by
  intro pending fuel hf h
  have hlt := (decodeAt_next hd).1
  have hfresh : ∀ p ∈ pending, p.1 ≠ o := fun p hp => by have := hf p hp; omega
  have e : fuel + (o' - o) = (fuel + (o' - o - 1)) + 1 := by omega
  rw [e, verifyFrom_plain hd hs hr hj hfresh]
  simp only [hsz, decide_true, Bool.true_and]
  exact verifyFrom_fuel_le (by omega) h

/-! ### abstract steps -/

theorem stepA_of_effect {P : Pool} {ins : Instr} {n : Nat} {σ : AStack}
    (he : effect P ins = some (n, 1)) :
    stepA P ins (List.replicate n (popKind ins) ++ σ) = some (pushKind P ins :: σ) := by
  unfold stepA
  rw [he]
  simp

theorem replicate_snoc (n : Nat) (a : Bool) (σ : AStack) :
    List.replicate n a ++ (a :: σ) = List.replicate (n + 1) a ++ σ := by
  induction n with
  | zero => rfl
  | succ n ih => rw [List.replicate_succ, List.cons_append, ih]; rfl

/-- an instruction that pops `n` values and pushes one -/
theorem Frag.popPush {P : Pool} {C : Code} {o o' n : Nat} {ins : Instr} {σ : AStack}
    (hd : decodeAt C o = some (ins, o')) (he : effect P ins = some (n, 1))
    (hk : popKind ins = false) (hp : pushKind P ins = false)
    (hr : ins ≠ .simple .RETURN) (hj : ∀ op t, ins ≠ .jump op t) (hsz : o' < C.size) :
    Frag P C o o' (List.replicate n false ++ σ) (false :: σ) := by
  have := stepA_of_effect (σ := σ) he
  rw [hk, hp] at this
  exact Frag.plain hd this hr hj hsz


/-! ### conditionals -/

/-- after `JUMP end`, the promise `IF_TRUE` made for the current offset becomes the state -/
theorem verifyFrom_land2 {P : Pool} {C : Code} {pc t fuel : Nat} {σ τ : AStack}
    {pending : List (Nat × AStack)} (hne : t ≠ pc) (hfresh : ∀ p ∈ pending, p.1 ≠ pc) :
    verifyFrom fuel P C pc none ((t, τ) :: (pc, σ) :: pending) =
      verifyFrom fuel P C pc (some σ) ((t, τ) :: pending) := by
  have hfresh' : ∀ p ∈ (t, τ) :: pending, p.1 ≠ pc := by
    intro p hp
    rcases List.mem_cons.mp hp with rfl | hp
    · exact hne
    · exact hfresh p hp
  cases fuel with
  | zero => simp [VmVerify.verifyFrom]
  | succ fuel =>
    rw [VmVerify.verifyFrom, VmVerify.verifyFrom]
    have h1 : mergeAt pc none ((t, τ) :: (pc, σ) :: pending) = some σ := by
      have : pending.all (fun q => q.1 != pc || q.2 == σ) = true := by
        rw [List.all_eq_true]; intro p hp; simp [hfresh p hp]
      simp [mergeAt, this, hne]
    have h2 : ((t, τ) :: (pc, σ) :: pending).filter (·.1 != pc) =
        ((t, τ) :: pending).filter (·.1 != pc) := by
      simp [hne]
    rw [h1, h2, mergeAt_fresh hfresh']

theorem stepA_if (P : Pool) (t : Nat) (σ : AStack) :
    stepA P (.jump .IF_TRUE t) (false :: σ) = some σ := by
  simp [stepA, effect, popKind]

theorem stepA_jump (P : Pool) (t : Nat) (σ : AStack) :
    stepA P (.jump .JUMP t) σ = some σ := by
  simp [stepA, effect]

/-- `c; IF_TRUE else; t; JUMP end; else: f; end:` -/
theorem Frag.cond {P : Pool} {C : Code} {o o1 o2 o3 o4 o' : Nat} {σ : AStack}
    (hc : Frag P C o o1 σ (false :: σ)) (l1 : o ≤ o1)
    (d1 : decodeAt C o1 = some (.jump .IF_TRUE o4, o2))
    (ht : Frag P C o2 o3 σ (false :: σ)) (l2 : o2 ≤ o3)
    (d2 : decodeAt C o3 = some (.jump .JUMP o', o4))
    (hf : Frag P C o4 o' σ (false :: σ)) (l3 : o4 < o') (hsz : o' < C.size) :
    Frag P C o o' σ (false :: σ) := by
  intro pending fuel hfr h
  have n1 := (decodeAt_next d1).1
  have n2 := (decodeAt_next d2).1
  -- the else branch, with the promise of `JUMP` pending
  have a := hf ((o', false :: σ) :: pending) fuel
    (by intro p hp
        rcases List.mem_cons.mp hp with rfl | hp
        · exact Nat.le_refl _
        · exact hfr p hp)
    (by rw [verifyFrom_absorb]; exact h)
  have fr4 : ∀ p ∈ pending, p.1 ≠ o4 := fun p hp => by have := hfr p hp; omega
  rw [← verifyFrom_land2 (by omega) fr4] at a
  -- `JUMP`
  have fr3 : ∀ p ∈ (o4, σ) :: pending, p.1 ≠ o3 := by
    intro p hp
    rcases List.mem_cons.mp hp with rfl | hp
    · show o4 ≠ o3; omega
    · have := hfr p hp; omega
  have b : verifyFrom (fuel + (o' - o4) + 1) P C o3 (some (false :: σ)) ((o4, σ) :: pending) = true := by
    rw [verifyFrom_jump d2 (stepA_jump P o' _) fr3]
    have e1 : decide (o3 < o') = true := by simp; omega
    have e2 : decide (o' < C.size) = true := by simpa using hsz
    have e3 : decide (o4 < C.size) = true := by simp; omega
    rw [e1, e2, e3]
    simpa using a
  -- the then branch
  have c := ht ((o4, σ) :: pending) _
    (by intro p hp
        rcases List.mem_cons.mp hp with rfl | hp
        · show o3 ≤ o4; omega
        · have := hfr p hp; omega) b
  -- `IF_TRUE`
  have fr1 : ∀ p ∈ pending, p.1 ≠ o1 := fun p hp => by have := hfr p hp; omega
  have d : verifyFrom (fuel + (o' - o4) + 1 + (o3 - o2) + 1) P C o1 (some (false :: σ)) pending = true := by
    rw [verifyFrom_if d1 (stepA_if P o4 σ) fr1]
    have e1 : decide (o1 < o4) = true := by simp; omega
    have e2 : decide (o4 < C.size) = true := by simp; omega
    have e3 : decide (o2 < C.size) = true := by simp; omega
    rw [e1, e2, e3]
    simpa using c
  -- the condition
  have e := hc pending _ (fun p hp => by have := hfr p hp; omega) d
  exact verifyFrom_fuel_le (by omega) e

/-! ### single instructions -/

theorem effect_intrinsic {b : BId} {op : Op} (h : intrinsicByValue b = some op) (P : Pool)
    {bid : BId} {a : Nat} (hb : op.builtin? = some (bid, a)) :
    effect P (.simple op) = some (a, 1) ∧ op ≠ .RETURN := by
  cases b <;> first | (cases h; done) | (injection h with h; subst h; exact ⟨by simp only [effect, hb, Option.map_some], by decide⟩)

theorem bidOf_inv {d : FunDecl} {id : BId} (h : bidOf d = some id) :
    ∃ idx b, d.ref = .builtin idx ∧ builtins[idx]? = some b ∧ b.id = id := by
  unfold bidOf at h
  split at h
  · rename_i i hr
    cases hb : builtins[i]? with
    | none => rw [hb] at h; cases h
    | some b => rw [hb] at h; exact ⟨i, b, hr, hb, by simpa using h⟩
  · cases h

theorem callOk_inv' {d : FunDecl} {n idx : Nat} {b : BuiltinDecl} (h : callOk d n = true)
    (hr : d.ref = .builtin idx) (hb : builtins[idx]? = some b) :
    n = arityOf b ∧ d.isLazy = b.isLazy := by
  simp only [callOk, builtinOf, hr, hb, Bool.and_eq_true, beq_iff_eq] at h
  exact h

section
variable {P : Pool} {C : Code}

theorem Frag.constVal {o o' i : Nat} {v : Val} {σ : AStack}
    (hd : decodeAt C o = some (.const .CONST i, o')) (hp : P[i]? = some (.val v)) (hsz : o' < C.size) :
    Frag P C o o' σ (false :: σ) :=
  Frag.popPush (n := 0) hd (by simp [effect, hp]) rfl (by simp [pushKind, hp])
    (by intro h; cases h) (by intro _ _ h; cases h) hsz

theorem Frag.load {o o' i : Nat} {x : String} {σ : AStack}
    (hd : decodeAt C o = some (.const .LOAD i, o')) (hp : P[i]? = some (.name x)) (hsz : o' < C.size) :
    Frag P C o o' σ (false :: σ) :=
  Frag.popPush (n := 0) hd (by simp [effect, hp]) rfl rfl
    (by intro h; cases h) (by intro _ _ h; cases h) hsz

theorem Frag.constThunk {o o' i : Nat} {b : Code} {r : Ty} {σ : AStack}
    (hd : decodeAt C o = some (.const .CONST i, o')) (hp : P[i]? = some (.thunk b r)) (hsz : o' < C.size) :
    Frag P C o o' σ (true :: σ) := by
  have he : effect P (.const .CONST i) = some (0, 1) := by simp [effect, hp]
  have := stepA_of_effect (σ := σ) he
  have hk : pushKind P (.const .CONST i) = true := by simp [pushKind, hp]
  rw [hk] at this
  exact Frag.plain hd this (by intro h; cases h) (by intro _ _ h; cases h) hsz

/-- the instruction ending a strict static call -/
theorem Frag.tailStrict {d : FunDecl} {n o1 o' : Nat} {σ : AStack}
    (ht : CallTail P C d n o1 o') (hok : callOk d n = true) (hlazy : d.isLazy = false)
    (hsz : o' < C.size) : Frag P C o1 o' (List.replicate n false ++ σ) (false :: σ) := by
  unfold CallTail at ht
  split at ht
  · rename_i op hop
    obtain ⟨id, hid, hiv⟩ := Option.bind_eq_some_iff.mp hop
    obtain ⟨idx, b, hr, hb, rfl⟩ := bidOf_inv hid
    obtain ⟨har, _⟩ := callOk_inv' hok hr hb
    obtain ⟨he, hne⟩ := effect_intrinsic hiv P (builtin?_of_intrinsic hb hiv)
    subst har
    exact Frag.popPush ht he rfl rfl (by intro h; injection h with h; exact hne h)
      (by intro _ _ h; cases h) hsz
  · obtain ⟨i, hd, hp⟩ := ht
    rw [hlazy] at hd
    exact Frag.popPush hd (by simp [effect, hp, hlazy]) rfl rfl (by intro h; cases h)
      (by intro _ _ h; cases h) hsz

/-- the instruction ending a lazy static call -/
theorem Frag.tailNeed {d : FunDecl} {n o1 o' : Nat} {σ : AStack}
    (ht : CallTail P C d n o1 o') (hok : callOk d n = true) (hlazy : d.isLazy = true)
    (hsz : o' < C.size) : Frag P C o1 o' (List.replicate n true ++ σ) (false :: σ) := by
  unfold CallTail at ht
  split at ht
  · rename_i op hop
    exfalso
    obtain ⟨id, hid, hiv⟩ := Option.bind_eq_some_iff.mp hop
    obtain ⟨idx, b, hr, hb, rfl⟩ := bidOf_inv hid
    obtain ⟨_, hlz⟩ := callOk_inv' hok hr hb
    rw [hlazy, isLazy_iff hb] at hlz
    simp only [Bool.true_eq, Bool.or_eq_true, beq_iff_eq] at hlz
    rcases hlz with (h | h) | h <;> rw [h] at hiv <;> cases hiv
  · obtain ⟨i, hd, hp⟩ := ht
    rw [hlazy] at hd
    have he : effect P (.call .CALL_BY_NEED i n) = some (n, 1) := by simp [effect, hp, hlazy]
    have := stepA_of_effect (σ := σ) he
    exact Frag.plain hd this (by intro h; cases h) (by intro _ _ h; cases h) hsz

end

/-! ### offsets grow -/

theorem callTail_lt {P C d n o1 o2} (h : CallTail P C d n o1 o2) : o1 < o2 := by
  unfold CallTail at h; split at h
  · exact (decodeAt_next h).1
  · obtain ⟨i, h, _⟩ := h; exact (decodeAt_next h).1
mutual
theorem layE_lt {funs P C e o o'} : LayE funs P C e o o' → o < o'
  | .str hd _ => (decodeAt_next hd).1
  | .num hd _ => (decodeAt_next hd).1
  | .time hd _ => (decodeAt_next hd).1
  | .bool hd _ => (decodeAt_next hd).1
  | .ident hd _ => (decodeAt_next hd).1
  | .list hl hd _ => Nat.lt_of_le_of_lt (layL_le hl) (decodeAt_next hd).1
  | .map hl hd _ => Nat.lt_of_le_of_lt (layP_le hl) (decodeAt_next hd).1
  | .obj hl hd _ => Nat.lt_of_le_of_lt (layF_le hl) (decodeAt_next hd).1
  | .dyn _ h1 h2 hd => by have := layE_lt h1; have := layL_le h2; have := (decodeAt_next hd).1; omega
  | .condIf _ _ _ h => layC_lt h
  | .condAnd _ _ _ h => layC_lt h
  | .condOr _ _ _ h => layC_lt h
  | .not _ _ _ h hd => by have := layE_lt h; have := (decodeAt_next hd).1; omega
  | .strict _ _ _ _ h ht => by
      have := layL_le h; have := callTail_lt ht; omega
  | .byNeed _ _ _ _ h ht => by
      have := layT_le h; have := callTail_lt ht; omega
  | .subList h1 h2 hd => by have := layE_lt h1; have := layE_lt h2; have := (decodeAt_next hd).1; omega
  | .subMap h1 h2 hd => by have := layE_lt h1; have := layE_lt h2; have := (decodeAt_next hd).1; omega
  | .member h1 hd _ => by have := layE_lt h1; have := (decodeAt_next hd).1; omega
theorem layL_le {funs P C es o o'} : LayL funs P C es o o' → o ≤ o'
  | .nil => Nat.le_refl _
  | .cons h1 h2 => by have := layE_lt h1; have := layL_le h2; omega
theorem layP_le {funs P C es o o'} : LayP funs P C es o o' → o ≤ o'
  | .nil => Nat.le_refl _
  | .cons h1 h2 h3 => by have := layE_lt h1; have := layE_lt h2; have := layP_le h3; omega
theorem layF_le {funs P C es o o'} : LayF funs P C es o o' → o ≤ o'
  | .nil => Nat.le_refl _
  | .cons h1 h2 => by have := layE_lt h1; have := layF_le h2; omega
theorem layC_lt {funs P C c t f o o'} : LayC funs P C c t f o o' → o < o'
  | .mk h1 d1 h2 d2 h3 => by
    have := layE_lt h1; have := layE_lt h2; have := layE_lt h3
    have := (decodeAt_next d1).1; have := (decodeAt_next d2).1; omega
theorem layT_le {funs P C es ths o o'} : LayT funs P C es ths o o' → o ≤ o'
  | .nil => Nat.le_refl _
  | .cons hd _ _ _ h => by have := (decodeAt_next hd).1; have := layT_le h; omega
end

/-! ### a laid-out expression verifies as a fragment that pushes one value -/

mutual
theorem fragE {funs P C e o o'} : LayE funs P C e o o' → wa funs e = true → lit e = true →
    o' < C.size → ∀ σ, Frag P C o o' σ (false :: σ)
  | .str hd hp, _, _, hsz, _ => Frag.constVal hd hp hsz
  | .num hd hp, _, _, hsz, _ => Frag.constVal hd hp hsz
  | .time hd hp, _, _, hsz, _ => Frag.constVal hd hp hsz
  | .bool hd hp, _, _, hsz, _ => Frag.constVal hd hp hsz
  | .ident hd hp, _, _, hsz, _ => Frag.load hd hp hsz
  | .list (es := es) (ty := ty) hl hd hp, hw, hlit, hsz, σ => by
    simp only [wa, Bool.and_eq_true] at hw
    simp only [lit, Bool.and_eq_true] at hlit
    have n1 := (decodeAt_next hd).1
    have hty : ∃ t, ty = some (.list t) := by
      have := hlit.1; unfold listShape at this; split at this
      · exact ⟨_, rfl⟩
      · cases this
    obtain ⟨t, rfl⟩ := hty
    exact (fragL hl hw.2 hlit.2 (by omega) σ).trans
      (Frag.popPush hd (by simp [effect, hp, tyConst]) rfl rfl (by intro h; cases h)
        (by intro _ _ h; cases h) hsz) (layL_le hl) (Nat.le_of_lt n1)
  | .map (ps := ps) (ty := ty) hl hd hp, hw, hlit, hsz, σ => by
    simp only [wa, Bool.and_eq_true] at hw
    simp only [lit, Bool.and_eq_true] at hlit
    have n1 := (decodeAt_next hd).1
    have hty : ∃ k v, ty = some (.map k v) := by
      have := hlit.1; unfold mapShape at this; split at this
      · exact ⟨_, _, rfl⟩
      · cases this
    obtain ⟨k, v, rfl⟩ := hty
    exact (fragP hl hw.2 hlit.2 (by omega) σ).trans
      (Frag.popPush hd (by simp [effect, hp, tyConst]) rfl rfl (by intro h; cases h)
        (by intro _ _ h; cases h) hsz) (layP_le hl) (Nat.le_of_lt n1)
  | .obj (fs := fs) (ty := ty) hl hd hp, hw, hlit, hsz, σ => by
    simp only [wa, Bool.and_eq_true] at hw
    simp only [lit] at hlit
    have n1 := (decodeAt_next hd).1
    have hty : ∃ tfs, ty = some (.obj tfs) ∧ tfs.length = fs.length := by
      have := hw.1; unfold objTyOk at this; split at this
      · exact ⟨_, rfl, by simpa using this⟩
      · cases this
    obtain ⟨tfs, rfl, hlen⟩ := hty
    have := fragF hl hw.2 hlit (by omega) σ
    rw [← hlen] at this
    exact this.trans
      (Frag.popPush hd (by simp [effect, hp, tyConst]) rfl rfl (by intro h; cases h)
        (by intro _ _ h; cases h) hsz) (layF_le hl) (Nat.le_of_lt n1)
  | .dyn (args := args) hres h1 h2 hd, hw, hlit, hsz, σ => by
    simp only [wa, hres, ↓reduceIte, Bool.and_eq_true] at hw
    simp only [lit, hres, ↓reduceIte, Bool.and_eq_true] at hlit
    have n1 := (decodeAt_next hd).1
    have l2 := layL_le h2
    have a := fragE h1 hw.1 hlit.1 (by omega) σ
    have b := fragL h2 hw.2 hlit.2 (by omega) (false :: σ)
    rw [replicate_snoc] at b
    exact (a.trans b (Nat.le_of_lt (layE_lt h1)) l2).trans
      (Frag.popPush hd (by simp [effect]) rfl rfl (by intro h; cases h)
        (by intro _ _ h; cases h) hsz) (by have := layE_lt h1; omega) (Nat.le_of_lt n1)
  | .condIf hres hrs _ hc, hw, hlit, hsz, σ => by
    simp only [wa, hres, Bool.false_eq_true, ↓reduceIte, hrs, waL, Bool.and_eq_true, Bool.and_true] at hw
    simp only [lit, hres, Bool.false_eq_true, ↓reduceIte, litL, Bool.and_eq_true, Bool.and_true] at hlit
    exact fragC hc hw.2.1 hw.2.2.1 hw.2.2.2 hlit.1 hlit.2.1 hlit.2.2 hsz σ
  | .condAnd hres hrs _ hc, hw, hlit, hsz, σ => by
    simp only [wa, hres, Bool.false_eq_true, ↓reduceIte, hrs, waL, Bool.and_eq_true, Bool.and_true] at hw
    simp only [lit, hres, Bool.false_eq_true, ↓reduceIte, litL, Bool.and_eq_true, Bool.and_true] at hlit
    exact fragC hc hw.2.1 hw.2.2 (by simp [wa]) hlit.1 hlit.2 (by simp [lit]) hsz σ
  | .condOr hres hrs _ hc, hw, hlit, hsz, σ => by
    simp only [wa, hres, Bool.false_eq_true, ↓reduceIte, hrs, waL, Bool.and_eq_true, Bool.and_true] at hw
    simp only [lit, hres, Bool.false_eq_true, ↓reduceIte, litL, Bool.and_eq_true, Bool.and_true] at hlit
    exact fragC hc hw.2.1 (by simp [wa]) hw.2.2 hlit.1 (by simp [lit]) hlit.2 hsz σ
  | .not hres hrs _ h1 hd, hw, hlit, hsz, σ => by
    simp only [wa, hres, Bool.false_eq_true, ↓reduceIte, hrs, waL, Bool.and_eq_true] at hw
    simp only [lit, hres, Bool.false_eq_true, ↓reduceIte, litL, Bool.and_eq_true] at hlit
    have n1 := (decodeAt_next hd).1
    exact (fragE h1 hw.2.1 hlit.1 (by omega) σ).trans
      (Frag.popPush (n := 1) hd rfl rfl rfl (by intro h; cases h) (by intro _ _ h; cases h) hsz)
      (Nat.le_of_lt (layE_lt h1)) (Nat.le_of_lt n1)
  | .strict hres hrs _ hlazy h1 ht, hw, hlit, hsz, σ => by
    simp only [wa, hres, Bool.false_eq_true, ↓reduceIte, hrs, Bool.and_eq_true] at hw
    simp only [lit, hres, Bool.false_eq_true, ↓reduceIte] at hlit
    have n1 := callTail_lt ht
    exact (fragL h1 hw.2 hlit (by omega) σ).trans (Frag.tailStrict ht hw.1 hlazy hsz)
      (layL_le h1) (Nat.le_of_lt n1)
  | .byNeed hres hrs _ hlazy h1 ht, hw, _, hsz, σ => by
    simp only [wa, hres, Bool.false_eq_true, ↓reduceIte, hrs, Bool.and_eq_true] at hw
    have n1 := callTail_lt ht
    exact (fragT h1 (by omega) σ).trans (Frag.tailNeed ht hw.1 hlazy hsz)
      (layT_le h1) (Nat.le_of_lt n1)
  | .subList h1 h2 hd, hw, hlit, hsz, σ => by
    simp only [wa, Bool.and_eq_true] at hw
    simp only [lit, Bool.and_eq_true] at hlit
    have n1 := (decodeAt_next hd).1
    have l2 := layE_lt h2
    exact ((fragE h1 hw.1.2 hlit.1 (by omega) σ).trans (fragE h2 hw.2 hlit.2 (by omega) _)
        (Nat.le_of_lt (layE_lt h1)) (Nat.le_of_lt l2)).trans
      (Frag.popPush (n := 2) hd rfl rfl rfl (by intro h; cases h) (by intro _ _ h; cases h) hsz)
      (by have := layE_lt h1; omega) (Nat.le_of_lt n1)
  | .subMap h1 h2 hd, hw, hlit, hsz, σ => by
    simp only [wa, Bool.and_eq_true] at hw
    simp only [lit, Bool.and_eq_true] at hlit
    have n1 := (decodeAt_next hd).1
    have l2 := layE_lt h2
    exact ((fragE h1 hw.1.2 hlit.1 (by omega) σ).trans (fragE h2 hw.2 hlit.2 (by omega) _)
        (Nat.le_of_lt (layE_lt h1)) (Nat.le_of_lt l2)).trans
      (Frag.popPush (n := 2) hd rfl rfl rfl (by intro h; cases h) (by intro _ _ h; cases h) hsz)
      (by have := layE_lt h1; omega) (Nat.le_of_lt n1)
  | .member h1 hd hp, hw, hlit, hsz, σ => by
    simp only [wa] at hw
    simp only [lit] at hlit
    have n1 := (decodeAt_next hd).1
    exact (fragE h1 hw hlit (by omega) σ).trans
      (Frag.popPush (n := 1) hd (by simp [effect, hp]) rfl rfl (by intro h; cases h)
        (by intro _ _ h; cases h) hsz)
      (Nat.le_of_lt (layE_lt h1)) (Nat.le_of_lt n1)
theorem fragL {funs P C es o o'} : LayL funs P C es o o' → waL funs es = true → litL es = true →
    o' < C.size → ∀ σ, Frag P C o o' σ (List.replicate es.length false ++ σ)
  | .nil, _, _, _, _ => Frag.refl
  | .cons (es := es) h1 h2, hw, hlit, hsz, σ => by
    simp only [waL, Bool.and_eq_true] at hw
    simp only [litL, Bool.and_eq_true] at hlit
    have l2 := layL_le h2
    have b := fragL h2 hw.2 hlit.2 hsz (false :: σ)
    rw [replicate_snoc] at b
    exact (fragE h1 hw.1 hlit.1 (by omega) σ).trans b (Nat.le_of_lt (layE_lt h1)) l2
theorem fragP {funs P C ps o o'} : LayP funs P C ps o o' → waP funs ps = true → litP ps = true →
    o' < C.size → ∀ σ, Frag P C o o' σ (List.replicate (2 * ps.length) false ++ σ)
  | .nil, _, _, _, _ => Frag.refl
  | .cons (k := k) (v := v) (ps := ps) h1 h2 h3, hw, hlit, hsz, σ => by
    simp only [waP, Bool.and_eq_true] at hw
    simp only [litP, Bool.and_eq_true] at hlit
    have l3 := layP_le h3
    have l2 := layE_lt h2
    have c := fragP h3 hw.2 hlit.2 hsz (false :: false :: σ)
    rw [replicate_snoc, replicate_snoc] at c
    have e : 2 * (PairList.cons k v ps).length = 2 * ps.length + 1 + 1 := by
      simp only [PairList.length]; omega
    rw [e]
    exact ((fragE h1 hw.1.1 hlit.1.1 (by omega) σ).trans (fragE h2 hw.1.2 hlit.1.2 (by omega) _)
      (Nat.le_of_lt (layE_lt h1)) (Nat.le_of_lt l2)).trans c (by have := layE_lt h1; omega) l3
theorem fragF {funs P C fs o o'} : LayF funs P C fs o o' → waF funs fs = true → litF fs = true →
    o' < C.size → ∀ σ, Frag P C o o' σ (List.replicate fs.length false ++ σ)
  | .nil, _, _, _, _ => Frag.refl
  | .cons (fs := fs) h1 h2, hw, hlit, hsz, σ => by
    simp only [waF, Bool.and_eq_true] at hw
    simp only [litF, Bool.and_eq_true] at hlit
    have l2 := layF_le h2
    have b := fragF h2 hw.2 hlit.2 hsz (false :: σ)
    rw [replicate_snoc] at b
    exact (fragE h1 hw.1 hlit.1 (by omega) σ).trans b (Nat.le_of_lt (layE_lt h1)) l2
theorem fragC {funs P C c t f o o'} : LayC funs P C c t f o o' → wa funs c = true →
    wa funs t = true → wa funs f = true → lit c = true → lit t = true → lit f = true →
    o' < C.size → ∀ σ, Frag P C o o' σ (false :: σ)
  | .mk h1 d1 h2 d2 h3, wc, wt, wf, lc, lt, lf, hsz, σ => by
    have n1 := (decodeAt_next d1).1
    have n2 := (decodeAt_next d2).1
    have l1 := layE_lt h1
    have l2 := layE_lt h2
    have l3 := layE_lt h3
    exact Frag.cond (fragE h1 wc lc (by omega) σ) (Nat.le_of_lt l1) d1
      (fragE h2 wt lt (by omega) σ) (Nat.le_of_lt l2) d2 (fragE h3 wf lf hsz σ) l3 hsz
theorem fragT {funs P C es ths o o'} : LayT funs P C es ths o o' →
    o' < C.size → ∀ σ, Frag P C o o' σ (List.replicate es.length true ++ σ)
  | .nil, _, _ => Frag.refl
  | .cons (es := es) hd hp _ _ h, hsz, σ => by
    have n1 := (decodeAt_next hd).1
    have l2 := layT_le h
    have b := fragT h hsz (true :: σ)
    rw [replicate_snoc] at b
    exact (Frag.constThunk hd hp (by omega)).trans b (Nat.le_of_lt n1) l2
end


/-- a buffer holding the code of `e` followed by the final `RETURN` verifies as a unit -/
theorem unit_verified {funs : List FunDecl} {P : Pool} {C : Code} {e : Expr} {ob : Nat}
    (hl : LayE funs P C e 0 ob) (hret : decodeAt C ob = some (.simple .RETURN, C.size))
    (hw : wa funs e = true) (hlit : lit e = true) : VmVerify.verifyUnit P C = true := by
  have hsz := (decodeAt_next hret).1
  have h := fragE hl hw hlit hsz [] [] 1 (fun _ h => by cases h) (verifyFrom_return (fuel := 0) hret)
  unfold VmVerify.verifyUnit
  exact verifyFrom_fuel_le (by omega) h

/-! ### the pool: every deferred body verifies against the constants before it -/

theorem extract_push_le {p : Pool} {k : Const} {i : Nat} (h : i ≤ p.size) :
    (p.push k).extract 0 i = p.extract 0 i := by
  apply Array.ext
  · simp; omega
  · intro j h1 h2
    simp only [Array.size_extract, Array.size_push] at h1 h2
    simp only [Array.getElem_extract]
    rw [Array.getElem_push_lt]

theorem extract_all (p : Pool) : p.extract 0 p.size = p := by simp

theorem thunksOK_empty : ThunksOK #[] := by
  intro i b r h; simp at h

theorem thunksOK_push_other {p : Pool} {k : Const} (h : ThunksOK p) (hk : ∀ b r, k ≠ .thunk b r) :
    ThunksOK (p.push k) := by
  intro i b r hi
  have hlt : i < p.size + 1 := by
    have := (Array.getElem?_eq_some_iff.mp hi).1; simpa using this
  by_cases hlast : i = p.size
  · subst hlast
    simp at hi
    exact absurd hi (hk b r)
  · have hi' : i < p.size := by omega
    rw [Array.getElem?_push_lt hi'] at hi
    rw [extract_push_le (Nat.le_of_lt hi')]
    exact h i b r (by rw [Array.getElem?_eq_getElem hi']; exact hi)

theorem thunksOK_push_thunk {p : Pool} {body : Code} {pt : Ty} (h : ThunksOK p)
    (hb : VmVerify.verifyUnit p body = true) : ThunksOK (p.push (.thunk body pt)) := by
  intro i b r hi
  have hlt : i < p.size + 1 := by
    have := (Array.getElem?_eq_some_iff.mp hi).1; simpa using this
  by_cases hlast : i = p.size
  · subst hlast
    simp at hi
    obtain ⟨rfl, rfl⟩ := hi
    rw [extract_push_le (Nat.le_refl _), extract_all]
    exact hb
  · have hi' : i < p.size := by omega
    rw [Array.getElem?_push_lt hi'] at hi
    rw [extract_push_le (Nat.le_of_lt hi')]
    exact h i b r (by rw [Array.getElem?_eq_getElem hi']; exact hi)

/-- the action keeps the pool invariant -/
def Keeps {α} (x : CM α) : Prop := ∀ s a s', x s = .ok (a, s') → ThunksOK s.2 → ThunksOK s'.2

theorem Keeps.bind {α β} {x : CM α} {f : α → CM β} (hx : Keeps x) (hf : ∀ a, Keeps (f a)) :
    Keeps (x >>= f) := by
  intro s b s' h ht
  obtain ⟨a, s1, h1, h2⟩ := cm_bind_ok h
  exact hf a s1 b s' h2 (hx s a s1 h1 ht)

theorem keeps_emitOp (op : Op) : Keeps (emitOp op) := by
  intro s a s' h ht; have := emitOp_ok h; subst this; exact ht
theorem keeps_emitU16 (n : Nat) : Keeps (emitU16 n) := by
  intro s a s' h ht; obtain ⟨_, e⟩ := emitU16_ok h; subst e; exact ht
theorem keeps_emitU8 (n : Nat) : Keeps (emitU8 n) := by
  intro s a s' h ht; obtain ⟨_, e⟩ := emitU8_ok h; subst e; exact ht
theorem keeps_emitConst (k : Const) (hk : ∀ b r, k ≠ .thunk b r) : Keeps (emitConst k) := by
  intro s a s' h ht; obtain ⟨_, e⟩ := emitConst_ok h; subst e
  exact thunksOK_push_other ht hk
theorem keeps_here : Keeps here := by
  intro s a s' h ht; obtain ⟨_, e⟩ := here_ok h; subst e; exact ht
theorem keeps_placeholder : Keeps placeholder := by
  intro s a s' h ht; obtain ⟨_, e⟩ := placeholder_ok h; subst e; exact ht
theorem keeps_patch (off t : Nat) : Keeps (patch off t) := by
  intro s a s' h ht; obtain ⟨_, e⟩ := patch_ok h; subst e; exact ht
theorem keeps_pure {α} (a : α) : Keeps (pure a : CM α) := by
  intro s b s' h ht
  have : (pure a : CM α) s = .ok (a, s) := rfl
  rw [this] at h; cases h; exact ht
theorem keeps_throw {α} (e : CErr) : Keeps (throw e : CM α) := by
  intro s b s' h ht
  have : (throw e : CM α) s = .error e := rfl
  rw [this] at h; cases h

theorem tyConst_ne (ty : Option Ty) : ∀ b r, tyConst ty ≠ .thunk b r := by
  intro b r h; unfold tyConst at h; split at h <;> cases h

def KeepsE (funs : List FunDecl) (cf : Nat) : Prop :=
  ∀ e, wa funs e = true → lit e = true → Keeps (compileE cf funs e)

section
variable {funs : List FunDecl} {cf : Nat}

theorem keepsList (hE : KeepsE funs cf) : ∀ es : ExprList, waL funs es = true → litL es = true →
    Keeps (compileList cf funs es)
  | .nil, _, _ => by rw [compileList]; exact keeps_pure _
  | .cons e es, hw, hl => by
    rw [compileList]
    simp only [waL, Bool.and_eq_true] at hw
    simp only [litL, Bool.and_eq_true] at hl
    exact Keeps.bind (hE e hw.1 hl.1) fun _ => keepsList hE es hw.2 hl.2

theorem keepsFields (hE : KeepsE funs cf) : ∀ fs : FieldEList, waF funs fs = true → litF fs = true →
    Keeps (compileFields cf funs fs)
  | .nil, _, _ => by rw [compileFields]; exact keeps_pure _
  | .cons n e fs, hw, hl => by
    rw [compileFields]
    simp only [waF, Bool.and_eq_true] at hw
    simp only [litF, Bool.and_eq_true] at hl
    exact Keeps.bind (hE e hw.1 hl.1) fun _ => keepsFields hE fs hw.2 hl.2

theorem keepsPairs (hE : KeepsE funs cf) : ∀ ps : PairList, waP funs ps = true → litP ps = true →
    Keeps (compilePairs cf funs ps)
  | .nil, _, _ => by rw [compilePairs]; exact keeps_pure _
  | .cons k v ps, hw, hl => by
    rw [compilePairs]
    simp only [waP, Bool.and_eq_true] at hw
    simp only [litP, Bool.and_eq_true] at hl
    exact Keeps.bind (hE k hw.1.1 hl.1.1) fun _ => Keeps.bind (hE v hw.1.2 hl.1.2) fun _ =>
      keepsPairs hE ps hw.2 hl.2

theorem keepsCond (hE : KeepsE funs cf) (c t e : Expr) (wc : wa funs c = true) (wt : wa funs t = true)
    (we : wa funs e = true) (lc : lit c = true) (lt : lit t = true) (le : lit e = true) :
    Keeps (compileCond cf funs c t e) := by
  rw [compileCond]
  exact Keeps.bind (hE c wc lc) fun _ => Keeps.bind (keeps_emitOp _) fun _ =>
    Keeps.bind keeps_placeholder fun _ => Keeps.bind (hE t wt lt) fun _ =>
    Keeps.bind (keeps_emitOp _) fun _ => Keeps.bind keeps_placeholder fun _ =>
    Keeps.bind keeps_here fun _ => Keeps.bind (hE e we le) fun _ =>
    Keeps.bind keeps_here fun _ => Keeps.bind (keeps_patch _ _) fun _ => keeps_patch _ _

/-- the deferred arguments: each body is compiled into a fresh buffer against the pool as it
is, so it verifies against the constants before the one that holds it -/
theorem keepsThunks (hE : KeepsE funs cf) : ∀ (es : ExprList) (ps : TyList), waL funs es = true →
    litL es = true → Keeps (compileThunks cf funs es ps)
  | .nil, _, _, _ => by unfold compileThunks; exact keeps_pure _
  | .cons e es, ps, hw, hl => by
    simp only [waL, Bool.and_eq_true] at hw
    simp only [litL, Bool.and_eq_true] at hl
    intro s u s' h ht
    unfold compileThunks at h
    obtain ⟨_, s1, h1, k1⟩ := cm_bind_ok h
    obtain ⟨x, s1', h2, k2⟩ := cm_bind_ok k1
    obtain ⟨ex, es1⟩ := get_ok h2
    subst x; subst s1'
    obtain ⟨code, pool⟩ := s1
    simp only [] at k2
    obtain ⟨_, s2, h3, k3⟩ := cm_bind_ok k2
    have e3 := set_ok h3
    subst e3
    obtain ⟨_, sb, h4, k4⟩ := cm_bind_ok k3
    obtain ⟨_, sb2, h5, k5⟩ := cm_bind_ok k4
    obtain ⟨y, sb2', h6, k6⟩ := cm_bind_ok k5
    obtain ⟨ey, esb⟩ := get_ok h6
    subst y; subst sb2'
    have e5 := emitOp_ok h5
    obtain ⟨body0, poolb⟩ := sb
    subst e5
    simp only [] at k6
    obtain ⟨_, s3, h7, k7⟩ := cm_bind_ok k6
    have e7 := set_ok h7
    subst e7
    obtain ⟨_, s4, h8, k8⟩ := cm_bind_ok k7
    obtain ⟨hn, e8⟩ := emitConst_ok h8
    have e1 := emitOp_ok h1
    obtain ⟨c0, p0⟩ := s
    simp only [Prod.mk.injEq] at e1
    obtain ⟨ec, ep⟩ := e1
    subst ec ep e8
    -- the pool after the body
    have hb : ThunksOK poolb := hE e hw.1 hl.1 _ _ _ h4 ht
    -- the body verifies against it
    have a := compE_all (funs := funs) cf e _ _ _ h4
    have hlay : LayE funs poolb (body0 ++ [UInt8.ofNat Op.RETURN.code].toArray) e 0 body0.size := by
      have := a.lay (body0 ++ [UInt8.ofNat Op.RETURN.code].toArray) poolb
        (Same.of_pre (Pre.append _ _) _) (Pre.refl _)
      simpa using this
    have hret : decodeAt (body0 ++ [UInt8.ofNat Op.RETURN.code].toArray) body0.size =
        some (.simple .RETURN, (body0 ++ [UInt8.ofNat Op.RETURN.code].toArray).size) := by
      have := decode_simple (C := body0 ++ [UInt8.ofNat Op.RETURN.code].toArray) (o := body0.size)
        (op := .RETURN) (bytesAt_tail (Same.refl _ 0 _) (Nat.zero_le _)) (by decide)
      simpa using this
    have hv := unit_verified hlay hret hw.1 hl.1
    exact keepsThunks hE es _ hw.2 hl.2 _ _ _ k8 (thunksOK_push_thunk hb hv)

theorem keeps_tail (op0 : Op) (d : FunDecl) (bid : Option BId) (n : Nat) :
    Keeps (match bid.bind intrinsicByValue with
      | some op => emitOp op
      | none => do
        emitOp op0
        emitConst (.fn d)
        emitU8 n : CM Unit) := by
  split
  · exact keeps_emitOp _
  · exact Keeps.bind (keeps_emitOp _) fun _ =>
      Keeps.bind (keeps_emitConst _ (by intro b r h; cases h)) fun _ => keeps_emitU8 _

theorem keeps_callBody (hE : KeepsE funs cf) (d : FunDecl) (bid : Option BId) (args : ExprList)
    (hw : waL funs args = true) (hl : litL args = true) : Keeps (callBody cf funs d bid args) := by
  unfold callBody
  split
  · rename_i c t f
    simp only [waL, Bool.and_eq_true, Bool.and_true] at hw
    simp only [litL, Bool.and_eq_true, Bool.and_true] at hl
    exact keepsCond hE c t f hw.1 hw.2.1 hw.2.2 hl.1 hl.2.1 hl.2.2
  · rename_i x y
    simp only [waL, Bool.and_eq_true, Bool.and_true] at hw
    simp only [litL, Bool.and_eq_true, Bool.and_true] at hl
    exact keepsCond hE x y _ hw.1 hw.2 (by simp [wa]) hl.1 hl.2 (by simp [lit])
  · rename_i x y
    simp only [waL, Bool.and_eq_true, Bool.and_true] at hw
    simp only [litL, Bool.and_eq_true, Bool.and_true] at hl
    exact keepsCond hE x _ y hw.1 (by simp [wa]) hw.2 hl.1 (by simp [lit]) hl.2
  · rename_i x rest
    simp only [waL, Bool.and_eq_true] at hw
    simp only [litL, Bool.and_eq_true] at hl
    exact Keeps.bind (hE x hw.1 hl.1) fun _ => keeps_emitOp _
  · dsimp only
    by_cases hcond : (Option.map isCondIntrinsic bid).getD false = true
    · rw [if_pos hcond]
      intro s a s' h
      obtain ⟨_, _, h1, _⟩ := cm_bind_ok h
      cases h1
    · rw [if_neg hcond]
      split
      · exact Keeps.bind (keepsThunks hE args _ hw hl) fun _ => keeps_tail _ _ bid _
      · exact Keeps.bind (keepsList hE args hw hl) fun _ => keeps_tail _ _ bid _

theorem keepsE_succ (hE : KeepsE funs cf) : KeepsE funs (cf + 1) := by
  intro e hw hl
  unfold compileE
  cases e with
  | str p v => exact Keeps.bind (keeps_emitOp _) fun _ => keeps_emitConst _ (by intro b r h; cases h)
  | num p v => exact Keeps.bind (keeps_emitOp _) fun _ => keeps_emitConst _ (by intro b r h; cases h)
  | time p v => exact Keeps.bind (keeps_emitOp _) fun _ => keeps_emitConst _ (by intro b r h; cases h)
  | bool p v => exact Keeps.bind (keeps_emitOp _) fun _ => keeps_emitConst _ (by intro b r h; cases h)
  | ident p x => exact Keeps.bind (keeps_emitOp _) fun _ => keeps_emitConst _ (by intro b r h; cases h)
  | list p es ty =>
    simp only [wa, Bool.and_eq_true] at hw
    simp only [lit, Bool.and_eq_true] at hl
    exact Keeps.bind (keepsList hE es hw.2 hl.2) fun _ => Keeps.bind (keeps_emitOp _) fun _ =>
      Keeps.bind (keeps_emitConst _ (tyConst_ne ty)) fun _ => keeps_emitU16 _
  | map p ps ty =>
    simp only [wa, Bool.and_eq_true] at hw
    simp only [lit, Bool.and_eq_true] at hl
    exact Keeps.bind (keepsPairs hE ps hw.2 hl.2) fun _ => Keeps.bind (keeps_emitOp _) fun _ =>
      Keeps.bind (keeps_emitConst _ (tyConst_ne ty)) fun _ => keeps_emitU16 _
  | obj p fs ty =>
    simp only [wa, Bool.and_eq_true] at hw
    simp only [lit] at hl
    exact Keeps.bind (keepsFields hE fs hw.2 hl) fun _ => Keeps.bind (keeps_emitOp _) fun _ =>
      keeps_emitConst _ (tyConst_ne ty)
  | member p col obj field fp oty index =>
    simp only [wa] at hw
    simp only [lit] at hl
    exact Keeps.bind (hE obj hw hl) fun _ => Keeps.bind (keeps_emitOp _) fun _ =>
      keeps_emitConst _ (by intro b r h; cases h)
  | subscript p col var idx varTy =>
    simp only [wa, Bool.and_eq_true] at hw
    simp only [lit, Bool.and_eq_true] at hl
    refine Keeps.bind (hE var hw.1.2 hl.1) fun _ => Keeps.bind (hE idx hw.2 hl.2) fun _ => ?_
    split
    · exact keeps_emitOp _
    · exact keeps_emitOp _
    · exact keeps_throw _
  | call p col callee args cty resolved index =>
    dsimp only
    by_cases hres : (resolved == "") = true
    · rw [if_pos hres]
      simp only [wa, hres, ↓reduceIte, Bool.and_eq_true] at hw
      simp only [lit, hres, ↓reduceIte, Bool.and_eq_true] at hl
      exact Keeps.bind (hE callee hw.1 hl.1) fun _ =>
        Keeps.bind (keepsList hE args hw.2 hl.2) fun _ =>
        Keeps.bind (keeps_emitOp _) fun _ => keeps_emitU8 _
    · rw [if_neg hres]
      simp only [wa, hres, Bool.false_eq_true, ↓reduceIte, Bool.and_eq_true] at hw
      simp only [lit, hres, Bool.false_eq_true, ↓reduceIte] at hl
      cases hrs : resolveStatic funs resolved index with
      | none => exact keeps_throw _
      | some d =>
        dsimp only
        exact keeps_callBody hE d (bidOf d) args hw.2 hl
  | _ => simp [wa] at hw

theorem keepsE_all : ∀ cf, KeepsE funs cf := by
  intro cf
  induction cf with
  | zero => intro e _ _; unfold compileE; exact keeps_throw _
  | succ cf ih => exact keepsE_succ ih

end

/-! ### the theorem -/

/-- `compile` is `compileE` on empty buffers followed by `RETURN` -/
theorem compile_parts {funs : List FunDecl} {e : Expr} {code : Code} {pool : Pool}
    (h : compile funs e = .ok (code, pool)) :
    ∃ (u : Unit) (s1 : Code × Pool), compileE (e.depth + 1) funs e (#[], #[]) = .ok (u, s1) ∧
      emitOp .RETURN s1 = .ok ((), (code, pool)) := by
  unfold compile at h
  have h' : ∃ u, (do compileE (e.depth + 1) funs e; emitOp .RETURN : CM Unit) (#[], #[]) =
      .ok (u, (code, pool)) := by
    cases hx : (do compileE (e.depth + 1) funs e; emitOp .RETURN : CM Unit).run (#[], #[]) with
    | error err => rw [hx] at h; cases h
    | ok r =>
      rw [hx] at h
      obtain ⟨u, c, p⟩ := r
      cases h
      exact ⟨u, hx⟩
  obtain ⟨u, h'⟩ := h'
  obtain ⟨u1, s1, h1, h2⟩ := cm_bind_ok h'
  exact ⟨u1, s1, h1, h2⟩

/-- **The compiler's output verifies.**  For a tree carrying the checker's annotations (`wa`,
and list / map literals annotated with a list / map type), the code `compile` emits is accepted
by the verifier: the main code against the whole pool, and every deferred body against the
constants allocated before it. -/
theorem compile_verified {funs : List FunDecl} {e : Expr} {code : Code} {pool : Pool}
    (h : compile funs e = .ok (code, pool)) (hw : wa funs e = true) (hl : lit e = true) :
    VmVerify.verify code pool = true := by
  obtain ⟨u, s1, h1, h2⟩ := compile_parts h
  have hk : ThunksOK s1.2 := keepsE_all _ e hw hl _ _ _ h1 thunksOK_empty
  obtain ⟨hc, hp, hlay⟩ := step_then_simple (compE_all _ e _ s1 _ h1) h2 (by decide)
  obtain ⟨hl1, hd⟩ := hlay code pool (Same.refl _ _ _) (Pre.refl _)
  have e2 := emitOp_ok h2
  have hpool : pool = s1.2 := by have := congrArg (fun x => x.2) e2; simpa using this
  simp only [Array.size_empty] at hl1
  rw [verify_iff]
  exact ⟨unit_verified hl1 hd hw hl, by rw [hpool]; exact hk⟩

end Yae.VmCV
