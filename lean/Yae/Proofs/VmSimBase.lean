/-
  C03, part 1: the `EvalM` monad applied to a log, one lemma per machine instruction
  (`run (F+1) … = …`), `popN`/`popThunks` on a stack of pushed values, facts about the built-in
  table (`Op.builtin?` inverts `intrinsicByValue`; the lazy built-ins are `if`, `&&`, `||`).
-/
import Yae.Model.Vm
namespace Yae.VmSim
open Yae Yae.Vm EvalM

/-! ### `EvalM` applied to a log -/

@[simp] theorem pure_apply {α} (a : α) (l : List Event) : (pure a : EvalM α) l = (.ok a, l) := rfl
/-- continue from a result -/
def andThen {α β} (r : Except Fail α × List Event)
    (k : α → List Event → Except Fail β × List Event) : Except Fail β × List Event :=
  match r with
  | (.ok a, l') => k a l'
  | (.error e, l') => (.error e, l')
@[simp] theorem andThen_ok {α β} (a : α) (l : List Event)
    (k : α → List Event → Except Fail β × List Event) : andThen (.ok a, l) k = k a l := rfl
@[simp] theorem andThen_err {α β} (e : Fail) (l : List Event)
    (k : α → List Event → Except Fail β × List Event) : andThen (.error e, l) k = (.error e, l) := rfl
theorem bind_apply {α β} (x : EvalM α) (f : α → EvalM β) (l : List Event) :
    (x >>= f) l = andThen (x l) (fun a l' => f a l') := rfl
theorem bind_ok {α β} {x : EvalM α} {f : α → EvalM β} {l l' : List Event} {a : α}
    (h : x l = (.ok a, l')) : (x >>= f) l = f a l' := by
  rw [bind_apply, h]; rfl
theorem bind_err {α β} {x : EvalM α} {f : α → EvalM β} {l l' : List Event} {e : Fail}
    (h : x l = (.error e, l')) : (x >>= f) l = (.error e, l') := by
  rw [bind_apply, h]; rfl
@[simp] theorem fail_apply {α} (x : Fail) (l : List Event) : (fail x : EvalM α) l = (.error x, l) := rfl
@[simp] theorem emit_apply (e : Event) (l : List Event) : emit e l = (.ok (), e :: l) := rfl
@[simp] theorem emitAll_apply (es : List Event) (l : List Event) :
    emitAll es l = (.ok (), es.reverse ++ l) := rfl
@[simp] theorem lift_apply {α} (x : Except Fail α) (l : List Event) : lift x l = (x, l) := rfl
@[simp] theorem recDbg_false (v : Val) (col : Int) (l : List Event) :
    recDbg false v col l = (.ok v, l) := rfl

/-- a miss of the harness' table of external functions (`regexp.MatchString`, `strtotime`): a
device of the model (`Yae.Sound.Allowed`), raised inside `applyBuiltin`, which the evaluator and
the machine both call with the same arguments -/
@[simp] def ExternMiss (m : String) : Prop := m = "extern-miss:regex" ∨ m = "extern-miss:strtotime"

instance (m : String) : Decidable (ExternMiss m) := by unfold ExternMiss; infer_instance

/-- a result that is not an internal fault (`stuck`, other than a miss of the externs table) -/
def NotStuck {α} : Except Fail α → Prop
  | .error (.stuck m) => ExternMiss m
  | _ => True

@[simp] theorem notStuck_ok {α} (a : α) : NotStuck (.ok a : Except Fail α) := trivial
@[simp] theorem notStuck_stuck_iff {α} (m : String) :
    NotStuck (.error (.stuck m) : Except Fail α) ↔ ExternMiss m := Iff.rfl
theorem notStuck_stuck {α} {m : String} (hm : ¬ ExternMiss m) :
    ¬ NotStuck (.error (.stuck m) : Except Fail α) := hm

/-- continue from the result of a built-in: log what it printed -/
def applyThen {β} (r : Except Fail (Val × List Event)) (l : List Event)
    (k : Val → List Event → Except Fail β × List Event) : Except Fail β × List Event :=
  match r with
  | .ok (v, evs) => k v (evs.reverse ++ l)
  | .error x => (.error x, l)

/-! ### the stack -/

@[simp] theorem popVal_val (v : Val) (st : List Slot) (l : List Event) :
    popVal (.val v :: st) l = (.ok (v, st), l) := rfl

/-- the stack after pushing `vs` (first value deepest) onto `s` -/
def pushVals (vs : List Val) (s : List Slot) : List Slot := vs.reverse.map Slot.val ++ s

@[simp] theorem pushVals_nil (s : List Slot) : pushVals [] s = s := rfl
theorem pushVals_cons (v : Val) (vs : List Val) (s : List Slot) :
    pushVals (v :: vs) s = pushVals vs (.val v :: s) := by simp [pushVals]
theorem pushVals_append (xs ys : List Val) (s : List Slot) :
    pushVals (xs ++ ys) s = pushVals ys (pushVals xs s) := by simp [pushVals]

theorem popN_rev (rs : List Val) (s : List Slot) (acc : List Val) (l : List Event) :
    popN rs.length (rs.map Slot.val ++ s) acc l = (.ok (rs.reverse ++ acc, s), l) := by
  induction rs generalizing acc with
  | nil => rfl
  | cons r rs ih =>
    simp only [List.length_cons, List.map_cons, List.cons_append, popN]
    rw [bind_ok (popVal_val r _ l)]
    simp only []
    rw [ih]; simp

theorem popN_pushVals (vs : List Val) (s : List Slot) (l : List Event) (n : Nat) (h : n = vs.length) :
    popN n (pushVals vs s) [] l = (.ok (vs, s), l) := by
  subst h
  have := popN_rev vs.reverse s [] l
  simpa [pushVals] using this

def pushThunks (ths : List (Code × Ty)) (s : List Slot) : List Slot :=
  (ths.reverse.map fun t => Slot.thunk t.1 t.2) ++ s

@[simp] theorem pushThunks_nil (s : List Slot) : pushThunks [] s = s := rfl
theorem pushThunks_cons (t : Code × Ty) (ths : List (Code × Ty)) (s : List Slot) :
    pushThunks (t :: ths) s = pushThunks ths (.thunk t.1 t.2 :: s) := by simp [pushThunks]

theorem popThunks_rev (rs : List (Code × Ty)) (s : List Slot) (acc : List (Code × Ty)) (l : List Event) :
    popThunks rs.length ((rs.map fun t => Slot.thunk t.1 t.2) ++ s) acc l = (.ok (rs.reverse ++ acc, s), l) := by
  induction rs generalizing acc with
  | nil => rfl
  | cons r rs ih =>
    simp only [List.length_cons, List.map_cons, List.cons_append, popThunks]
    rw [ih]; simp

theorem popThunks_pushThunks (ths : List (Code × Ty)) (s : List Slot) (l : List Event) (n : Nat)
    (h : n = ths.length) : popThunks n (pushThunks ths s) [] l = (.ok (ths, s), l) := by
  subst h
  have := popThunks_rev ths.reverse s [] l
  simpa [pushThunks] using this

@[simp] theorem ValList.ofList_toList : ∀ (vs : ValList), ValList.ofList vs.toList = vs
  | .nil => rfl
  | .cons v vs => by simp [ValList.toList, ValList.ofList, ValList.ofList_toList vs]

@[simp] theorem ValList.length_toList : ∀ (vs : ValList), vs.toList.length = vs.length
  | .nil => rfl
  | .cons v vs => by simp [ValList.toList, ValList.length, ValList.length_toList vs]

/-! ### one instruction -/

section steps
variable {ρ : REnv} {P : Pool} {C : Code} {pc nx : Nat} {st : List Slot} {l : List Event} {F : Nat}

theorem run_zero : run 0 ρ P C pc st l = (.error .fuel, l) := by rw [run]; rfl

theorem run_return {v : Val} (hd : decodeAt C pc = some (.simple .RETURN, nx)) :
    run (F+1) ρ P C pc (.val v :: st) l = (.ok v, l) := by
  rw [run]; simp only [hd]; rfl

theorem run_const_val {i : Nat} {v : Val}
    (hd : decodeAt C pc = some (.const .CONST i, nx)) (hp : P[i]? = some (.val v)) :
    run (F+1) ρ P C pc st l = run F ρ P C nx (.val v :: st) l := by
  rw [run]; simp only [hd, hp]

theorem run_const_thunk {i : Nat} {b : Code} {r : Ty}
    (hd : decodeAt C pc = some (.const .CONST i, nx)) (hp : P[i]? = some (.thunk b r)) :
    run (F+1) ρ P C pc st l = run F ρ P C nx (.thunk b r :: st) l := by
  rw [run]; simp only [hd, hp]

theorem run_load {i : Nat} {x : String}
    (hd : decodeAt C pc = some (.const .LOAD i, nx)) (hp : P[i]? = some (.name x)) :
    run (F+1) ρ P C pc st l = run F ρ P C nx (.val ((ρ.lookupVar x).getD .nil) :: st) l := by
  rw [run]; simp only [hd, hp]

theorem run_newobj {i : Nat} {fs : FieldList} {vs : List Val} {st' : List Slot}
    (hd : decodeAt C pc = some (.const .NEW_OBJ i, nx)) (hp : P[i]? = some (.ty (.obj fs)))
    (hpop : popN fs.length st [] l = (.ok (vs, st'), l)) :
    run (F+1) ρ P C pc st l = run F ρ P C nx (.val (.obj (.obj fs) (ValList.ofList vs)) :: st') l := by
  rw [run]; simp only [hd, hp]; rw [bind_ok hpop]

theorem run_objload {i : Nat} {f : String} {ty : Ty} {vs : ValList}
    (hd : decodeAt C pc = some (.const .OBJ_LOAD i, nx)) (hp : P[i]? = some (.name f)) :
    run (F+1) ρ P C pc (.val (.obj ty vs) :: st) l =
      match objGet? ty vs f with
      | some v => run F ρ P C nx (.val v :: st) l
      | none => (.error (.stuck "member-missing"), l) := by
  rw [run]; simp only [hd, hp, bind_apply, popVal_val]; split <;> simp_all

theorem run_objload_bad {i : Nat} {f : String} {o : Val}
    (hd : decodeAt C pc = some (.const .OBJ_LOAD i, nx)) (hp : P[i]? = some (.name f))
    (ho : ∀ ty vs, o ≠ .obj ty vs) :
    run (F+1) ρ P C pc (.val o :: st) l = (.error (.stuck "cast:obj"), l) := by
  rw [run]; simp only [hd, hp, bind_apply, popVal_val]
  cases o <;> first | rfl | exact absurd rfl (ho _ _)

theorem run_newlist {i n : Nat} {t : Ty} {vs : List Val} {st' : List Slot}
    (hd : decodeAt C pc = some (.newColl .NEW_LIST i n, nx)) (hp : P[i]? = some (.ty t))
    (hpop : popN n st [] l = (.ok (vs, st'), l)) :
    run (F+1) ρ P C pc st l = run F ρ P C nx (.val (.list t (ValList.ofList vs)) :: st') l := by
  rw [run]; simp only [hd, hp]; rw [bind_ok hpop]

theorem run_newmap {i n : Nat} {t : Ty} {kvs : List Val} {st' : List Slot}
    (hd : decodeAt C pc = some (.newColl .NEW_MAP i n, nx)) (hp : P[i]? = some (.ty t))
    (hpop : popN (2 * n) st [] l = (.ok (kvs, st'), l)) :
    run (F+1) ρ P C pc st l =
      andThen (mapOfPairs t kvs .nil l) (fun es l' => run F ρ P C nx (.val (.map t es) :: st') l') := by
  rw [run]; simp only [hd, hp]; rw [bind_ok hpop]; simp only [bind_apply]

theorem run_jump {t : Nat} (hd : decodeAt C pc = some (.jump .JUMP t, nx)) :
    run (F+1) ρ P C pc st l = run F ρ P C t st l := by
  rw [run]; simp only [hd]

theorem run_iftrue {t : Nat} {c : Val} (hd : decodeAt C pc = some (.jump .IF_TRUE t, nx)) :
    run (F+1) ρ P C pc (.val c :: st) l =
      match c with
      | .bool true => run F ρ P C nx st l
      | .bool false => run F ρ P C t st l
      | _ => (.error (.stuck "cast:bool"), l) := by
  rw [run]; simp only [hd, bind_apply, popVal_val]; split <;> simp_all

theorem run_lognot {v : Val} (hd : decodeAt C pc = some (.simple .LOGICAL_NOT, nx)) :
    run (F+1) ρ P C pc (.val v :: st) l =
      match v with
      | .bool b => run F ρ P C nx (.val (.bool !b) :: st) l
      | _ => (.error (.stuck "cast:bool"), l) := by
  rw [run]; simp only [hd, bind_apply, popVal_val]; split <;> simp_all

theorem run_listload {f : Float} {t : Ty} {vs : ValList}
    (hd : decodeAt C pc = some (.simple .LIST_LOAD, nx)) :
    run (F+1) ρ P C pc (.val (.num f) :: .val (.list t vs) :: st) l =
      if Num.toInt f < 0 || Num.toInt f ≥ vs.length then (.error .indexOutOfRange, l)
      else match vs.get? (Num.toInt f).toNat with
        | some v => run F ρ P C nx (.val v :: st) l
        | none => (.error .indexOutOfRange, l) := by
  rw [run]; simp only [hd, bind_apply, popVal_val, andThen_ok]
  split
  · rfl
  · cases vs.get? (Num.toInt f).toNat <;> rfl

theorem run_mapload {k : Val} {t : Ty} {es : EntryList} {kt : Kind} {ks : String}
    (hd : decodeAt C pc = some (.simple .MAP_LOAD, nx)) (hk : k.key? = some (kt, ks)) :
    run (F+1) ρ P C pc (.val k :: .val (.map t es) :: st) l =
      match es.find? kt ks with
      | some v => run F ρ P C nx (.val v :: st) l
      | none => (.error .missingKey, l) := by
  rw [run]; simp only [hd, bind_apply, popVal_val, andThen_ok, hk]
  cases es.find? kt ks <;> rfl

theorem run_callval {i argc : Nat} {d : FunDecl} {args : List Val} {st' : List Slot}
    (hd : decodeAt C pc = some (.call .CALL_BY_VALUE i argc, nx)) (hp : P[i]? = some (.fn d))
    (hpop : popN argc st [] l = (.ok (args, st'), l)) :
    run (F+1) ρ P C pc st l =
      andThen (callStrict ρ.ext d args l) (fun v l' => run F ρ P C nx (.val v :: st') l') := by
  rw [run]; simp only [hd, hp]; rw [bind_ok hpop]; simp only [bind_apply]

theorem run_callneed {i argc : Nat} {d : FunDecl} {ths : List (Code × Ty)} {st' : List Slot}
    (hd : decodeAt C pc = some (.call .CALL_BY_NEED i argc, nx)) (hp : P[i]? = some (.fn d))
    (hpop : popThunks argc st [] l = (.ok (ths, st'), l)) :
    run (F+1) ρ P C pc st l =
      andThen (callLazy F ρ P d ths l) (fun v l' => run F ρ P C nx (.val v :: st') l') := by
  rw [run]; simp only [hd, hp]; rw [bind_ok hpop]; simp only [bind_apply]

theorem run_dyn {argc : Nat} {ty : Ty} {ref : FunRef} {args : List Val} {st' : List Slot}
    (hd : decodeAt C pc = some (.dyn argc, nx))
    (hpop : popN argc st [] l = (.ok (args, .val (.fn ty ref false) :: st'), l)) :
    run (F+1) ρ P C pc st l =
      andThen (callStrict ρ.ext { ty := ty, ref := ref, isLazy := false } args l)
        (fun v l' => run F ρ P C nx (.val v :: st') l') := by
  rw [run]; simp only [hd]; rw [bind_ok hpop]; simp [bind_apply]

theorem run_intrinsic {op : Op} {bid : BId} {ar : Nat} {args : List Val} {st' : List Slot}
    (hd : decodeAt C pc = some (.simple op, nx)) (hb : op.builtin? = some (bid, ar))
    (hpop : popN ar st [] l = (.ok (args, st'), l)) :
    run (F+1) ρ P C pc st l =
      applyThen (applyBuiltin ρ.ext bid args) l (fun v l' => run F ρ P C nx (.val v :: st') l') := by
  have key : ∀ (R : Except Fail Val × List Event),
      ((match op.builtin? with
        | some (bid, arity) => do
          let (args, st) ← popN arity st []
          let (v, evs) ← lift (applyBuiltin ρ.ext bid args)
          emitAll evs
          run F ρ P C nx (.val v :: st)
        | none => fail (.stuck "operand-less form of an opcode with operands") : EvalM Val) l = R) →
      run (F+1) ρ P C pc st l = R := by
    intro R hR
    rw [run]; simp only [hd]
    cases op
    case RETURN => rw [show Op.RETURN.builtin? = none by decide] at hb; cases hb
    case NOP => rw [show Op.NOP.builtin? = none by decide] at hb; cases hb
    case LOGICAL_NOT => rw [show Op.LOGICAL_NOT.builtin? = none by decide] at hb; cases hb
    case LIST_LOAD => rw [show Op.LIST_LOAD.builtin? = none by decide] at hb; cases hb
    case MAP_LOAD => rw [show Op.MAP_LOAD.builtin? = none by decide] at hb; cases hb
    all_goals exact hR
  apply key
  simp only [hb]; rw [bind_ok hpop]
  simp only [bind_apply, lift_apply]
  cases applyBuiltin ρ.ext bid args with
  | error x => rfl
  | ok r => obtain ⟨v, evs⟩ := r; simp [applyThen]

end steps

/-! ### the built-in table -/

def arityOf (b : BuiltinDecl) : Nat := match b.ty with | .fn _ ps _ => ps.length | _ => 0

theorem builtin?_of_intrinsic_aux :
    builtins.all (fun b => match intrinsicByValue b.id with
      | some op => decide (op.builtin? = some (b.id, arityOf b))
      | none => true) = true := by decide

theorem lazyTable : builtins.all (fun b => b.isLazy ==
    (b.id == .IF_BOOL_ANY_ANY || b.id == .LOGIC_AND_BOOL_BOOL || b.id == .LOGIC_OR_BOOL_BOOL)) = true := by
  decide
theorem notArityTable : builtins.all (fun b => b.id != .LOGIC_NOT_BOOL || arityOf b == 1) = true := by
  decide

theorem mem_builtins {i : Nat} {b : BuiltinDecl} (h : builtins[i]? = some b) : b ∈ builtins :=
  List.mem_of_getElem? h

/-- `Op.builtin?` inverts `intrinsicByValue` on the table -/
theorem builtin?_of_intrinsic {i : Nat} {b : BuiltinDecl} {op : Op} (h : builtins[i]? = some b)
    (hop : intrinsicByValue b.id = some op) : op.builtin? = some (b.id, arityOf b) := by
  have := List.all_eq_true.mp builtin?_of_intrinsic_aux b (mem_builtins h)
  rw [hop] at this
  simpa using this

theorem isLazy_iff {i : Nat} {b : BuiltinDecl} (h : builtins[i]? = some b) :
    b.isLazy = (b.id == .IF_BOOL_ANY_ANY || b.id == .LOGIC_AND_BOOL_BOOL || b.id == .LOGIC_OR_BOOL_BOOL) := by
  have := List.all_eq_true.mp lazyTable b (mem_builtins h)
  simpa using this

theorem not_arity {i : Nat} {b : BuiltinDecl} (h : builtins[i]? = some b) (hid : b.id = .LOGIC_NOT_BOOL) :
    arityOf b = 1 := by
  have := List.all_eq_true.mp notArityTable b (mem_builtins h)
  simpa [hid] using this

theorem applyBuiltin_lazy {i : Nat} {b : BuiltinDecl} (h : builtins[i]? = some b) (hl : b.isLazy = true)
    (ext : Externs) (args : List Val) : applyBuiltin ext b.id args = stuckCast "builtin-args" := by
  rw [isLazy_iff h] at hl
  simp only [Bool.or_eq_true, beq_iff_eq] at hl
  rcases hl with (hl | hl) | hl <;> rw [hl] <;> rfl

theorem applyBuiltin_not_bool (ext : Externs) (b : Bool) :
    applyBuiltin ext .LOGIC_NOT_BOOL [.bool b] = .ok (.bool !b, []) := rfl
theorem applyBuiltin_not_other (ext : Externs) (v : Val) (h : ∀ b, v ≠ .bool b) :
    applyBuiltin ext .LOGIC_NOT_BOOL [v] = stuckCast "builtin-args" := by
  cases v <;> first | rfl | exact absurd rfl (h _)

end Yae.VmSim
