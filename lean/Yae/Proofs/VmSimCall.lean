/-
  C03, part 4: calls.  Strict calls (`CALL_BY_VALUE`, intrinsic opcodes, `DYNAMIC_CALL`),
  `if` / `&&` / `||` compiled to jumps, `!`, lazy host calls with thunks (`CALL_BY_NEED`).
-/
import Yae.Proofs.VmSimExec
namespace Yae.VmSim
open Yae Yae.Vm EvalM

theorem bind_recDbg {x : EvalM Val} {col : Int} {l : List Event} :
    (x >>= fun v => recDbg false v col) l = x l := by
  rw [bind_apply]; rcases x l with ⟨e | a, l1⟩ <;> rfl

section
variable {ρ : REnv} {P : Pool} {C : Code}

/-- one instruction whose outcome is `r`, unless `r` is an internal fault -/
theorem Sim.stepNS {α} {r : Except Fail α × List Event} {o o' s l} {push : α → List Slot}
    (h : ∀ F0, NotStuck r.1 → run (F0+1) ρ P C o s l =
      andThen r (fun a l' => run F0 ρ P C o' (push a) l')) :
    Sim ρ P C r 1 o o' s l push := by
  intro F hF
  obtain ⟨F0, rfl⟩ : ∃ F0, F = F0 + 1 := ⟨F - 1, by omega⟩
  rcases r with ⟨x | a, l'⟩
  · intro hs
    rw [h F0 (by cases x <;> first | trivial | exact hs)]; rfl
  · exact ⟨F0, by omega, by rw [h F0 trivial]; rfl⟩

/-- `&&` / `||`: the evaluator checks that the second operand is a bool, the machine does not -/
theorem Sim.boolCast {x : EvalM Val} {w o o' s l} {push : Val → List Slot}
    (h : Sim ρ P C (x l) w o o' s l push) :
    Sim ρ P C ((x >>= fun r => match r with
      | .bool b => pure (.bool b)
      | _ => fail (.stuck "cast:bool")) l) w o o' s l push := by
  intro F hF
  have h' := h F hF
  rcases hx : x l with ⟨e | v, l1⟩
  · rw [bind_err hx]; rw [hx] at h'; exact h'
  · rw [bind_ok hx]; rw [hx] at h'
    cases v <;> first | exact h' | (intro hs; exact absurd hs (by simp))

theorem Sim.boolCast' {x : EvalM Val} {k : Val → EvalM Val} {w o o' s l} {push : Val → List Slot}
    (hk : ∀ b l, k (.bool b) l = (.ok (.bool b), l))
    (hk' : ∀ v l, (∀ b, v ≠ .bool b) → ∃ m, ¬ ExternMiss m ∧ k v l = (.error (.stuck m), l))
    (h : Sim ρ P C (x l) w o o' s l push) :
    Sim ρ P C ((x >>= k) l) w o o' s l push := by
  intro F hF
  have h' := h F hF
  rcases hx : x l with ⟨e | v, l1⟩
  · rw [bind_err hx]; rw [hx] at h'; exact h'
  · rw [bind_ok hx]; rw [hx] at h'
    by_cases hv : ∃ b, v = .bool b
    · obtain ⟨b, rfl⟩ := hv; rw [hk]; exact h'
    · obtain ⟨m, hne, hm⟩ := hk' v l1 (fun b hb => hv ⟨b, hb⟩)
      rw [hm]; intro hs; exact absurd hs hne

theorem simC_true {α} {r : Except Fail α × List Event} {w o1 o2 o3 o4 o' s l} {push : α → List Slot}
    (h1 : decodeAt C o1 = some (.jump .IF_TRUE o4, o2))
    (h2 : decodeAt C o3 = some (.jump .JUMP o', o4))
    (h : Sim ρ P C r w o2 o3 s l push) :
    Sim ρ P C r (w + 2) o1 o' (.val (.bool true) :: s) l push := by
  intro F hF
  obtain ⟨F0, rfl⟩ : ∃ F0, F = F0 + 1 := ⟨F - 1, by omega⟩
  have h' := h F0 (by omega)
  rcases r with ⟨x | a, l'⟩
  · intro hs; rw [run_iftrue h1]; exact h' hs
  · obtain ⟨F1, hF1, hrun⟩ := h'
    obtain ⟨F2, rfl⟩ : ∃ F2, F1 = F2 + 1 := ⟨F1 - 1, by omega⟩
    refine ⟨F2, by omega, ?_⟩
    rw [run_iftrue h1]; simp only []; rw [hrun, run_jump h2]

theorem simC_false {α} {r : Except Fail α × List Event} {w o1 o2 o4 o' s l} {push : α → List Slot}
    (h1 : decodeAt C o1 = some (.jump .IF_TRUE o4, o2))
    (h : Sim ρ P C r w o4 o' s l push) :
    Sim ρ P C r (w + 2) o1 o' (.val (.bool false) :: s) l push := by
  intro F hF
  obtain ⟨F0, rfl⟩ : ∃ F0, F = F0 + 1 := ⟨F - 1, by omega⟩
  have h' := h F0 (by omega)
  rcases r with ⟨x | a, l'⟩
  · intro hs; rw [run_iftrue h1]; exact h' hs
  · obtain ⟨F1, hF1, hrun⟩ := h'
    refine ⟨F1, by omega, ?_⟩
    rw [run_iftrue h1]; simp only []; rw [hrun]

end

/-! ### strict calls -/

/-- what the evaluator does with the argument values of a strict call -/
def strictTail (ext : Externs) (ref : FunRef) (args : List Val) : EvalM Val :=
  match ref with
  | .builtin idx =>
    match builtins[idx]? with
    | none => fail (.stuck "builtin-index")
    | some b => do
      let (v, evs) ← lift (applyBuiltin ext b.id args)
      emitAll evs
      pure v
  | .host name beh => hostStrict name beh args

theorem callStrict_eq (ext : Externs) (ty : Ty) (ref : FunRef) (il : Bool) (args : List Val)
    (l : List Event) (h : NotStuck (strictTail ext ref args l).1) :
    callStrict ext ⟨ty, ref, il⟩ args l = strictTail ext ref args l := by
  cases ref with
  | host name beh => rfl
  | builtin idx =>
    simp only [callStrict, strictTail] at h ⊢
    cases hb : builtins[idx]? with
    | none => rfl
    | some b =>
      simp only [hb] at h ⊢
      by_cases hl : b.isLazy = true
      · exfalso
        simp only [bind_apply, lift_apply, applyBuiltin_lazy hb hl, stuckCast, andThen_err] at h
        exact absurd h (show ¬ ExternMiss ("cast:" ++ "builtin-args") by decide)
      · simp only [hl]; rfl

theorem callFun_strict_bad {f ρ idx args l} (hb : builtins[idx]? = none) :
    callFun f false ρ (.builtin idx) false args l = (.error (.stuck "builtin-index"), l) := by
  simp only [callFun, hb]; rfl

theorem callFun_strict {f ρ ref args l}
    (hb : ∀ idx, ref = .builtin idx → builtins[idx]? ≠ none) :
    callFun f false ρ ref false args l =
      (evalList f false ρ args >>= fun vs => strictTail ρ.ext ref vs.toList) l := by
  cases ref with
  | host name beh => unfold callFun; rfl
  | builtin idx =>
    cases hb' : builtins[idx]? with
    | none => exact absurd hb' (hb idx rfl)
    | some b => simp only [callFun, strictTail, hb']; rfl

section
variable {funs : List FunDecl} {ρ : REnv} {P : Pool} {C : Code} {f : Nat}

/-- arguments, then an instruction that applies `callStrict` to them -/
theorem sim_strict_call {args : ExprList} {ref : FunRef} {ty : Ty} {il : Bool}
    {o o1 o' : Nat} {s0 s : List Slot} {l : List Event}
    (hL : Sim ρ P C (evalList f false ρ args l) (WL args) o o1 s0 l (fun vs => pushVals vs.toList s0))
    (hstep : ∀ vs l1 F0, evalList f false ρ args l = (.ok vs, l1) →
      run (F0+1) ρ P C o1 (pushVals vs.toList s0) l1 =
        andThen (callStrict ρ.ext ⟨ty, ref, il⟩ vs.toList l1) (fun v l' => run F0 ρ P C o' (.val v :: s) l')) :
    Sim ρ P C (callFun f false ρ ref false args l) (WL args + 1) o o' s0 l (fun v => .val v :: s) := by
  have main : (∀ idx, ref = .builtin idx → builtins[idx]? ≠ none) →
      Sim ρ P C (callFun f false ρ ref false args l) (WL args + 1) o o' s0 l (fun v => .val v :: s) := by
    intro hb
    rw [callFun_strict hb]
    refine Sim.seq hL fun vs l1 hvs => Sim.stepNS fun F0 hns => ?_
    rw [hstep vs l1 F0 hvs, callStrict_eq _ _ _ _ _ _ hns]
  cases ref with
  | host name beh => exact main (fun _ h => by cases h)
  | builtin idx =>
    cases hb : builtins[idx]? with
    | none => rw [callFun_strict_bad hb]; exact Sim.stuck
    | some b => exact main (fun i h => by cases h; simp [hb])

/-- arguments, then the opcode of the built-in -/
theorem sim_intrinsic {args : ExprList} {idx : Nat} {b : BuiltinDecl} {op : Op}
    {o o1 o' : Nat} {s : List Slot} {l : List Event}
    (hb : builtins[idx]? = some b) (hop : intrinsicByValue b.id = some op)
    (har : args.length = arityOf b)
    (hL : Sim ρ P C (evalList f false ρ args l) (WL args) o o1 s l (fun vs => pushVals vs.toList s))
    (hdec : decodeAt C o1 = some (.simple op, o')) :
    Sim ρ P C (callFun f false ρ (.builtin idx) false args l) (WL args + 1) o o' s l
      (fun v => .val v :: s) := by
  rw [callFun_strict (by intro i hi; cases hi; simp [hb])]
  refine Sim.seq hL fun vs l1 hvs => Sim.step' fun F0 => ?_
  have hlen := evalList_length _ _ _ _ hvs
  rw [run_intrinsic hdec (builtin?_of_intrinsic hb hop)
    (popN_pushVals vs.toList s l1 _ (by simp [hlen, har]))]
  simp only [strictTail, hb, bind_apply, lift_apply]
  cases applyBuiltin ρ.ext b.id vs.toList with
  | error x => rfl
  | ok r => obtain ⟨v, evs⟩ := r; simp [applyThen]

end

/-! ### deferred arguments -/

section
variable {funs : List FunDecl} {ρ : REnv} {P : Pool} {f : Nat}

theorem layT_run : ∀ (args : ExprList) (ths : List (Code × Ty)) (C : Code) (o o1 : Nat),
    LayT funs P C args ths o o1 →
    ths.length = args.length ∧
      ∀ F s l, run (F + args.length) ρ P C o s l = run F ρ P C o1 (pushThunks ths s) l
  | .nil, ths, C, o, o1, h => by cases h; exact ⟨rfl, fun F s l => rfl⟩
  | .cons e es, ths, C, o, o1, h => by
    cases h with
    | cons hdec hp hbody hret hrest =>
      obtain ⟨hlen, hrun⟩ := layT_run es _ C _ o1 hrest
      refine ⟨by simp [ExprList.length, hlen], fun F s l => ?_⟩
      rw [show F + (ExprList.cons e es).length = (F + es.length) + 1 by simp [ExprList.length]; omega]
      rw [run_const_thunk hdec hp, hrun, pushThunks_cons]

theorem layT_get : ∀ (args : ExprList) (ths : List (Code × Ty)) (C : Code) (o o1 : Nat) (i : Nat),
    LayT funs P C args ths o o1 →
    (args.get? i = none ∧ ths[i]? = none) ∨
    ∃ a body pt ob nx, args.get? i = some a ∧ ths[i]? = some (body, pt) ∧
      LayE funs P body a 0 ob ∧ decodeAt body ob = some (.simple .RETURN, nx) ∧
      a.depth ≤ depthList args ∧ W a ≤ WL args ∧
      (waL funs args = true → wa funs a = true) ∧ (KAL ρ args → KA ρ a)
  | .nil, ths, C, o, o1, i, h => by cases h; exact Or.inl ⟨rfl, rfl⟩
  | .cons e es, ths, C, o, o1, i, h => by
    cases h with
    | cons hdec hp hbody hret hrest =>
      cases i with
      | zero =>
        refine Or.inr ⟨e, _, _, _, _, rfl, rfl, hbody, hret, ?_, ?_, ?_, ?_⟩
        · simp only [depthList]; omega
        · simp only [WL]; omega
        · intro h; simp only [waL, Bool.and_eq_true] at h; exact h.1
        · intro h; simp only [KAL] at h; exact h.1
      | succ i =>
        rcases layT_get es _ C _ o1 i hrest with h | ⟨a, body, pt, ob, nx, h1, h2, h3, h4, h5, h6, h7, h8⟩
        · exact Or.inl ⟨by simpa [ExprList.get?] using h.1, by simpa using h.2⟩
        · refine Or.inr ⟨a, body, pt, ob, nx, by simpa [ExprList.get?] using h1, by simpa using h2,
            h3, h4, ?_, ?_, ?_, ?_⟩
          · simp only [depthList]; omega
          · simp only [WL]; omega
          · intro h; simp only [waL, Bool.and_eq_true] at h; exact h7 h.2
          · intro h; simp only [KAL] at h; exact h8 h.2

/-- forcing a thunk runs its buffer on an empty stack -/
theorem thunk_run (hE : SimE funs ρ P f) {a : Expr} {body : Code} {ob nx : Nat} {l : List Event} {F0 : Nat}
    (hd : a.depth < f) (hlay : LayE funs P body a 0 ob)
    (hret : decodeAt body ob = some (.simple .RETURN, nx))
    (hw : wa funs a = true) (hk : KA ρ a) (hF : W a + 1 ≤ F0)
    (hns : NotStuck (eval f false ρ a l).1) :
    run F0 ρ P body 0 [] l = eval f false ρ a l := by
  have h := hE a body 0 ob [] l hd hlay hw hk F0 (by omega)
  rcases he : eval f false ρ a l with ⟨x | v, l1⟩
  · rw [he] at h hns
    exact h (by cases x <;> first | trivial | exact hns)
  · rw [he] at h
    obtain ⟨F1, hF1, hrun⟩ := h
    obtain ⟨F2, rfl⟩ : ∃ F2, F1 = F2 + 1 := ⟨F1 - 1, by omega⟩
    rw [hrun, run_return hret]

theorem forceSim (hE : SimE funs ρ P f) {args : ExprList} {ths : List (Code × Ty)} {C : Code} {o o1 : Nat}
    (hlay : LayT funs P C args ths o o1) (hd : depthList args < f)
    (hw : waL funs args = true) (hk : KAL ρ args) {F0 : Nat} (hF : WL args + 1 ≤ F0) :
    ∀ (order : List Nat) (acc : Option Val) (l : List Event),
      NotStuck (forceSeq f false ρ args order acc l).1 →
      forceAll F0 ρ P ths order acc l = forceSeq f false ρ args order acc l := by
  intro order
  induction order with
  | nil =>
    intro acc l _
    cases acc <;> simp only [forceSeq, forceAll]
  | cons i rest ih =>
    intro acc l hns
    rcases layT_get (ρ := ρ) args ths C o o1 i hlay with h | ⟨a, body, pt, ob, nx, h1, h2, h3, h4, h5, h6, h7, h8⟩
    · simp only [forceSeq, forceAll, h.1, h.2]
    · simp only [forceSeq, forceAll, h1, h2] at hns ⊢
      have hnsa : NotStuck (eval f false ρ a l).1 := by
        rcases he : eval f false ρ a l with ⟨x | v, l1⟩
        · rw [bind_err he] at hns; exact hns
        · trivial
      rw [bind_apply, bind_apply, thunk_run hE (by omega) h3 h4 (h7 hw) (h8 hk) (by omega) hnsa]
      rcases he : eval f false ρ a l with ⟨x | v, l1⟩
      · rfl
      · simp only [andThen_ok]
        rw [bind_ok he] at hns
        exact ih (some v) l1 hns

end

/-! ### the call node -/

theorem bidOf_inv {d : FunDecl} {id : BId} (h : bidOf d = some id) :
    ∃ idx b, d.ref = .builtin idx ∧ builtins[idx]? = some b ∧ b.id = id := by
  unfold bidOf at h
  split at h
  · rename_i i hr
    cases hb : builtins[i]? with
    | none => rw [hb] at h; cases h
    | some b => rw [hb] at h; exact ⟨i, b, hr, hb, by simpa using h⟩
  · cases h

theorem callOk_inv {d : FunDecl} {n idx : Nat} {b : BuiltinDecl} (h : callOk d n = true)
    (hr : d.ref = .builtin idx) (hb : builtins[idx]? = some b) :
    n = arityOf b ∧ d.isLazy = b.isLazy := by
  simp only [callOk, builtinOf, hr, hb, Bool.and_eq_true, beq_iff_eq] at h
  exact h

section
variable {funs : List FunDecl} {ρ : REnv} {P : Pool} {f : Nat}

theorem simE_call (hρ : ρ.funs = funs) (hE : SimE funs ρ P f)
    (p : Pos) (col : Int) (callee : Expr) (args : ExprList) (cty : Option Ty) (resolved : String)
    (index : Int) (C : Code) (o o' : Nat) (s : List Slot) (l : List Event)
    (hd : (Expr.call p col callee args cty resolved index).depth < f + 1)
    (hl : LayE funs P C (.call p col callee args cty resolved index) o o')
    (hw : wa funs (.call p col callee args cty resolved index) = true)
    (hk : KA ρ (.call p col callee args cty resolved index)) :
    Sim ρ P C (eval (f+1) false ρ (.call p col callee args cty resolved index) l)
      (W (.call p col callee args cty resolved index)) o o' s l (fun v => .val v :: s) := by
  simp only [eval, bind_recDbg]
  simp only [Expr.depth] at hd
  simp only [KA] at hk
  simp only [W]
  cases hl with
  | dyn hres h1 h2 hdec =>
    have hres' : resolved = "" := by simpa using hres
    simp only [wa, hres, ↓reduceIte, Bool.and_eq_true] at hw
    obtain ⟨⟨hkc, hnl⟩, hka⟩ := And.intro (hk.1 hres') hk.2
    simp only [hres, ↓reduceIte]
    refine Sim.mono (w := W callee + (WL args + 1)) ?_ (by omega)
    refine Sim.seq (hE callee C o _ s l (by omega) h1 hw.1 hkc) fun fv l1 hfv => ?_
    cases fv with
    | fn ty ref isLazy =>
      cases ty with
      | fn n ps r =>
        cases isLazy with
        | true => exact absurd rfl (hnl _ _ _ _ hfv _ _)
        | false =>
          refine sim_strict_call (ty := .fn n ps r) (il := false)
            (simL hE args C _ _ (.val _ :: s) l1 (Or.inr (by omega)) h2 hw.2 hka)
            fun vs l2 F0 hvs => ?_
          have hlen := evalList_length _ _ _ _ hvs
          exact run_dyn hdec (popN_pushVals vs.toList _ l2 _ (by simp [hlen]))
      | _ => exact Sim.stuck
    | _ => exact Sim.stuck
  | condIf hres hrs hbid hc =>
    rename_i d c t e
    obtain ⟨idx, b, href, hb, hid⟩ := bidOf_inv hbid
    simp only [wa, hres, Bool.false_eq_true, ↓reduceIte, hrs, Bool.and_eq_true] at hw
    obtain ⟨hcok, hwa⟩ := hw
    obtain ⟨har, hlz⟩ := callOk_inv hcok href hb
    have hbl : b.isLazy = true := by rw [isLazy_iff hb, hid]; rfl
    simp only [hres, Bool.false_eq_true, ↓reduceIte, hρ, hrs, href, hlz, hbl]
    simp only [callFun, hb, hid, ↓reduceIte]
    cases hc with
    | mk hc1 hd1 ht hd2 hf =>
      simp only [waL, Bool.and_eq_true] at hwa
      have hka := hk.2; simp only [KAL] at hka
      simp only [depthList] at hd
      refine Sim.mono (w := W c + (max (W t) (W e) + 2)) ?_ (by simp only [WL]; omega)
      refine Sim.seq (hE c C o _ s l (by omega) hc1 hwa.1 hka.1) fun cv l1 _ => ?_
      cases cv with
      | bool bv =>
        cases bv with
        | true =>
          exact simC_true hd1 hd2 (Sim.mono (hE t C _ _ s l1 (by omega) ht hwa.2.1 hka.2.1) (by omega))
        | false =>
          exact simC_false hd1 (Sim.mono (hE e C _ _ s l1 (by omega) hf hwa.2.2.1 hka.2.2.1) (by omega))
      | _ => exact Sim.stuck
  | condAnd hres hrs hbid hc =>
    rename_i d x y
    obtain ⟨idx, b, href, hb, hid⟩ := bidOf_inv hbid
    simp only [wa, hres, Bool.false_eq_true, ↓reduceIte, hrs, Bool.and_eq_true] at hw
    obtain ⟨hcok, hwa⟩ := hw
    obtain ⟨har, hlz⟩ := callOk_inv hcok href hb
    have hbl : b.isLazy = true := by rw [isLazy_iff hb, hid]; rfl
    simp only [hres, Bool.false_eq_true, ↓reduceIte, hρ, hrs, href, hlz, hbl]
    simp only [callFun, hb, hid, ↓reduceIte]
    cases hc with
    | mk hc1 hd1 ht hd2 hf =>
      simp only [waL, Bool.and_eq_true] at hwa
      have hka := hk.2; simp only [KAL] at hka
      simp only [depthList] at hd
      refine Sim.mono (w := W x + (W y + 2)) ?_ (by simp only [WL]; omega)
      refine Sim.seq (hE x C o _ s l (by omega) hc1 hwa.1 hka.1) fun cv l1 _ => ?_
      cases cv with
      | bool bv =>
        cases bv with
        | true =>
          refine simC_true hd1 hd2 (Sim.boolCast' (fun _ _ => rfl) ?_
            (hE y C _ _ s l1 (by omega) ht hwa.2.1 hka.2.1))
          intro v l hv
          cases v <;> first | exact ⟨_, by decide, rfl⟩ | exact absurd rfl (hv _)
        | false =>
          cases hf with
          | bool hdec hp => exact simC_false hd1 (simE_lit (by have := W_pos y; omega) hdec hp)
      | _ => exact Sim.stuck
  | condOr hres hrs hbid hc =>
    rename_i d x y
    obtain ⟨idx, b, href, hb, hid⟩ := bidOf_inv hbid
    simp only [wa, hres, Bool.false_eq_true, ↓reduceIte, hrs, Bool.and_eq_true] at hw
    obtain ⟨hcok, hwa⟩ := hw
    obtain ⟨har, hlz⟩ := callOk_inv hcok href hb
    have hbl : b.isLazy = true := by rw [isLazy_iff hb, hid]; rfl
    simp only [hres, Bool.false_eq_true, ↓reduceIte, hρ, hrs, href, hlz, hbl]
    simp only [callFun, hb, hid, ↓reduceIte]
    cases hc with
    | mk hc1 hd1 ht hd2 hf =>
      simp only [waL, Bool.and_eq_true] at hwa
      have hka := hk.2; simp only [KAL] at hka
      simp only [depthList] at hd
      refine Sim.mono (w := W x + (W y + 2)) ?_ (by simp only [WL]; omega)
      refine Sim.seq (hE x C o _ s l (by omega) hc1 hwa.1 hka.1) fun cv l1 _ => ?_
      cases cv with
      | bool bv =>
        cases bv with
        | true =>
          cases ht with
          | bool hdec hp => exact simC_true hd1 hd2 (simE_lit (by have := W_pos y; omega) hdec hp)
        | false =>
          refine simC_false hd1 (Sim.boolCast' (fun _ _ => rfl) ?_
            (hE y C _ _ s l1 (by omega) hf hwa.2.1 hka.2.1))
          intro v l hv
          cases v <;> first | exact ⟨_, by decide, rfl⟩ | exact absurd rfl (hv _)
      | _ => exact Sim.stuck
  | not hres hrs hbid h1 hdec =>
    rename_i o1 d x rest
    obtain ⟨idx, b, href, hb, hid⟩ := bidOf_inv hbid
    simp only [wa, hres, Bool.false_eq_true, ↓reduceIte, hrs, Bool.and_eq_true] at hw
    obtain ⟨hcok, hwa⟩ := hw
    obtain ⟨har, hlz⟩ := callOk_inv hcok href hb
    have hbl : b.isLazy = false := by rw [isLazy_iff hb, hid]; rfl
    rw [not_arity hb hid] at har
    have hrest : rest = .nil := by
      cases rest with
      | nil => rfl
      | cons _ _ => simp [ExprList.length] at har
    subst hrest
    simp only [hres, Bool.false_eq_true, ↓reduceIte, hρ, hrs, href, hlz, hbl]
    rw [callFun_strict (by intro i hi; cases hi; simp [hb])]
    simp only [evalList, bind_assoc_apply]
    simp only [waL, Bool.and_eq_true] at hwa
    have hka := hk.2; simp only [KAL] at hka
    simp only [depthList] at hd
    refine Sim.mono (w := W x + 1) ?_ (by simp only [WL]; omega)
    refine Sim.seq (hE x C o _ s l (by omega) h1 hwa.1 hka.1) fun v l1 _ => ?_
    show Sim ρ P C (strictTail ρ.ext (.builtin idx) [v] l1) 1 o1 o' (.val v :: s) l1 _
    simp only [strictTail, hb, hid, bind_apply, lift_apply]
    cases v with
    | bool bv =>
      simp only [applyBuiltin_not_bool]
      exact Sim.step (a := Val.bool !bv) (l' := l1) fun F0 => run_lognot hdec
    | _ =>
      rw [applyBuiltin_not_other _ _ (by intro b h; cases h)]
      exact Sim.stuck
  | strict hres hrs hcond hlazy h1 htail =>
    rename_i o1 d
    simp only [wa, hres, Bool.false_eq_true, ↓reduceIte, hrs, Bool.and_eq_true] at hw
    obtain ⟨hcok, hwa⟩ := hw
    simp only [hres, Bool.false_eq_true, ↓reduceIte, hρ, hrs, hlazy]
    have hL := fun s0 => simL hE args C o o1 s0 l (Or.inr (by omega)) h1 hwa hk.2
    refine Sim.mono (w := WL args + 1) ?_ (by omega)
    obtain ⟨dty, dref, dil⟩ := d
    simp only [] at hlazy ⊢
    subst hlazy
    unfold CallTail at htail
    have hbyval : (∃ i, decodeAt C o1 = some (.call .CALL_BY_VALUE i args.length, o') ∧
        P[i]? = some (.fn ⟨dty, dref, false⟩)) →
        Sim ρ P C (callFun f false ρ dref false args l) (WL args + 1) o o' s l (fun v => .val v :: s) := by
      rintro ⟨i, hdec, hp⟩
      refine sim_strict_call (ty := dty) (il := false) (hL s) fun vs l1 F0 hvs => ?_
      have hlen := evalList_length _ _ _ _ hvs
      exact run_callval hdec hp (popN_pushVals vs.toList s l1 _ (by simp [hlen]))
    cases dref with
    | host name beh =>
      simp only [bidOf, Option.bind_none] at htail
      exact hbyval (by simpa using htail)
    | builtin idx =>
      cases hb : builtins[idx]? with
      | none => rw [callFun_strict_bad hb]; exact Sim.stuck
      | some b =>
        obtain ⟨har, _⟩ := callOk_inv hcok rfl hb
        simp only [bidOf, hb, Option.map_some, Option.bind_some] at htail
        cases hop : intrinsicByValue b.id with
        | none =>
          rw [hop] at htail
          exact hbyval (by simpa using htail)
        | some op =>
          rw [hop] at htail
          exact sim_intrinsic hb hop har (hL s) htail
  | byNeed hres hrs hcond hlazy h1 htail =>
    rename_i o1 d ths
    simp only [wa, hres, Bool.false_eq_true, ↓reduceIte, hrs, Bool.and_eq_true] at hw
    obtain ⟨hcok, hwa⟩ := hw
    simp only [hres, Bool.false_eq_true, ↓reduceIte, hρ, hrs, hlazy]
    obtain ⟨dty, dref, dil⟩ := d
    simp only [] at hlazy ⊢
    subst hlazy
    unfold CallTail at htail
    cases dref with
    | builtin idx =>
      cases hb : builtins[idx]? with
      | none => simp only [callFun, hb]; exact Sim.stuck
      | some b =>
        exfalso
        obtain ⟨_, hlz⟩ := callOk_inv hcok rfl hb
        simp only [bidOf, hb, Option.map_some, Option.getD_some] at hcond
        simp only [] at hlz
        rw [isLazy_iff hb] at hlz
        simp only [Bool.true_eq, Bool.or_eq_true, beq_iff_eq] at hlz
        rcases hlz with (h | h) | h <;> rw [h] at hcond <;> cases hcond
    | host name beh =>
      simp only [bidOf, Option.bind_none, ↓reduceIte] at htail
      obtain ⟨i, hdec, hp⟩ := htail
      cases beh with
      | force order =>
        simp only [callFun, ↓reduceIte]
        obtain ⟨hlen, hrunT⟩ := layT_run (ρ := ρ) args ths C o o1 h1
        intro F hF
        have hlw := length_le_WL args
        obtain ⟨F0, rfl⟩ : ∃ F0, F = (F0 + 1) + args.length := ⟨F - 1 - args.length, by omega⟩
        have hrun : run (F0 + 1 + args.length) ρ P C o s l =
            andThen (forceAll F0 ρ P ths order none (.call name [] :: l))
              (fun v l' => run F0 ρ P C o' (.val v :: s) l') := by
          rw [hrunT, run_callneed hdec hp (popThunks_pushThunks ths s l _ hlen.symm), callLazy]
          rfl
        have hfs := forceSim hE h1 (by omega) hwa hk.2 (F0 := F0) (by omega) order none
          (.call name [] :: l)
        rw [bind_apply, emit_apply, andThen_ok]
        rcases hr : forceSeq f false ρ args order none (.call name [] :: l) with ⟨x | v, l'⟩
        · intro hs
          rw [hr] at hfs
          rw [hrun, hfs (by cases x <;> first | trivial | exact hs)]; rfl
        · rw [hr] at hfs
          exact ⟨F0, by omega, by rw [hrun, hfs trivial]; rfl⟩
      | _ => simp only [callFun, ↓reduceIte]; exact Sim.stuck

end

/-! ### all expressions; whole buffers -/

section
variable {funs : List FunDecl} {ρ : REnv} {P : Pool}

theorem simE_all (hρ : ρ.funs = funs) : ∀ f, SimE funs ρ P f := by
  intro f
  induction f with
  | zero => intro e C o o' s l hd; exact absurd hd (Nat.not_lt_zero _)
  | succ f ih =>
    intro e C o o' s l hd hl hw hk
    cases e with
    | call p col callee args cty resolved index =>
      exact simE_call hρ ih p col callee args cty resolved index C o o' s l hd hl hw hk
    | _ => exact simE_nocall ih _ C o o' s l hd hl hw hk (by intros; intro h; cases h)

/-- A buffer holding the code of `e` followed by `RETURN`, run from offset 0 on an empty stack
with at least `W e + 1` units of fuel, returns what the evaluator returns: the same value or the
same failure, and the same log, whenever the evaluator does not end in an internal fault. -/
theorem exec_correct (hρ : ρ.funs = funs) {e : Expr} {C : Code} {ob nx : Nat}
    (hlay : LayE funs P C e 0 ob) (hret : decodeAt C ob = some (.simple .RETURN, nx))
    (hw : wa funs e = true) (hk : KA ρ e) {F : Nat} (hF : W e + 1 ≤ F) (l : List Event)
    (hns : NotStuck (eval (e.depth + 1) false ρ e l).1) :
    run F ρ P C 0 [] l = eval (e.depth + 1) false ρ e l :=
  thunk_run (simE_all hρ _) (Nat.lt_succ_self _) hlay hret hw hk hF hns

end

end Yae.VmSim
