/-
  C03, part 5: bytes.  Prefixes of buffers, the bytes of one instruction read back by
  `decodeAt`, and what each emitter of the compiler monad does to `(code, pool)`.
-/
import Yae.Proofs.VmSimLayout
namespace Yae.VmSim
open Yae Yae.Vm

/-- `a` is an initial segment of `b` -/
def Pre {α} (a b : Array α) : Prop := a.size ≤ b.size ∧ ∀ i, i < a.size → b[i]? = a[i]?

theorem Pre.refl {α} (a : Array α) : Pre a a := ⟨Nat.le_refl _, fun _ _ => rfl⟩
theorem Pre.trans {α} {a b c : Array α} (h1 : Pre a b) (h2 : Pre b c) : Pre a c :=
  ⟨Nat.le_trans h1.1 h2.1, fun i hi => by rw [h2.2 i (by have := h1.1; omega), h1.2 i hi]⟩
theorem Pre.append {α} (a t : Array α) : Pre a (a ++ t) :=
  ⟨by simp, fun i hi => by simp [Array.getElem?_append, hi]⟩
theorem Pre.push {α} (a : Array α) (x : α) : Pre a (a.push x) :=
  ⟨by simp, fun i hi => by rw [Array.getElem?_push]; simp; omega⟩
theorem Pre.get {α} {a b : Array α} (h : Pre a b) {i : Nat} {x : α} (hx : a[i]? = some x) :
    b[i]? = some x := by
  have hi : i < a.size := by
    by_cases hi : i < a.size
    · exact hi
    · rw [Array.getElem?_eq_none (by omega)] at hx; cases hx
  rw [h.2 i hi, hx]

/-- the two buffers hold the same bytes on `[lo, hi)` -/
def Same (a b : Code) (lo hi : Nat) : Prop := ∀ i, lo ≤ i → i < hi → a[i]? = b[i]?

theorem Same.sub {a b : Code} {lo hi lo' hi' : Nat} (h : Same a b lo hi) (h1 : lo ≤ lo') (h2 : hi' ≤ hi) :
    Same a b lo' hi' := fun i hi1 hi2 => h i (by omega) (by omega)
theorem Same.trans {a b c : Code} {lo hi : Nat} (h1 : Same a b lo hi) (h2 : Same b c lo hi) :
    Same a c lo hi := fun i hi1 hi2 => by rw [h1 i hi1 hi2, h2 i hi1 hi2]
theorem Same.of_pre {b c : Code} (h : Pre b c) (lo : Nat) : Same c b lo b.size :=
  fun i _ hi => h.2 i hi
theorem Same.refl (a : Code) (lo hi : Nat) : Same a a lo hi := fun _ _ _ => rfl

/-- the bytes `bs` sit at offset `o` -/
def BytesAt (C : Code) (o : Nat) (bs : List UInt8) : Prop := ∀ j, j < bs.length → C[o + j]? = bs[j]?

theorem bytesAt_append (c : Code) (bs : List UInt8) (c' C : Code) (lo hi : Nat)
    (hp : Pre (c ++ bs.toArray) c') (hs : Same C c' lo hi) (hlo : lo ≤ c.size)
    (hhi : c.size + bs.length ≤ hi) : BytesAt C c.size bs := by
  intro j hj
  rw [hs _ (by omega) (by omega), hp.2 _ (by simp; omega)]
  rw [Array.getElem?_append_right (by omega)]
  simp

theorem ofCode_code (op : Op) : Op.ofCode (UInt8.ofNat op.code).toNat = some op := by
  cases op <;> decide

theorem u16_val {n : Nat} (h : n ≤ 65535) :
    (UInt8.ofNat (n / 256)).toNat * 256 + (UInt8.ofNat (n % 256)).toNat = n := by
  simp only [UInt8.toNat_ofNat']
  omega

theorem u8_val {n : Nat} (h : n ≤ 255) : (UInt8.ofNat n).toNat = n := by
  simp only [UInt8.toNat_ofNat']
  omega

theorem bytesAt_get {C : Code} {o : Nat} {bs : List UInt8} (h : BytesAt C o bs) (j : Nat) (b : UInt8)
    (hb : bs[j]? = some b) : C[o + j]? = some b := by
  have hj : j < bs.length := by
    by_cases hj : j < bs.length
    · exact hj
    · rw [List.getElem?_eq_none (by omega)] at hb; cases hb
  rw [h j hj, hb]

theorem u16At_of {C : Code} {o : Nat} {hi lo : UInt8} (h0 : C[o]? = some hi) (h1 : C[o+1]? = some lo) :
    u16At C o = some (hi.toNat * 256 + lo.toNat) := by
  simp [u16At, h0, h1]

section decode
variable {C : Code} {o : Nat}

theorem decode_simple {op : Op} (h : BytesAt C o [UInt8.ofNat op.code])
    (hop : op ∉ [Op.CONST, .LOAD, .NEW_OBJ, .OBJ_LOAD, .NEW_LIST, .NEW_MAP, .IF_TRUE, .JUMP,
      .CALL_BY_VALUE, .CALL_BY_NEED, .DYNAMIC_CALL]) :
    decodeAt C o = some (.simple op, o + 1) := by
  have h0 := bytesAt_get h 0 _ rfl
  simp only [Nat.add_zero] at h0
  simp only [decodeAt, h0, ofCode_code, Option.bind_eq_bind, Option.bind_some]
  cases op <;> first | rfl | (exfalso; revert hop; decide)

theorem decode_const {op : Op} {n : Nat}
    (h : BytesAt C o [UInt8.ofNat op.code, UInt8.ofNat (n / 256), UInt8.ofNat (n % 256)])
    (hn : n ≤ 65535) (hop : op ∈ [Op.CONST, .LOAD, .NEW_OBJ, .OBJ_LOAD]) :
    decodeAt C o = some (.const op n, o + 3) := by
  have h0 := bytesAt_get h 0 _ rfl
  have h1 := bytesAt_get h 1 _ rfl
  have h2 := bytesAt_get h 2 _ rfl
  simp only [Nat.add_zero] at h0
  have hu := u16At_of h1 h2
  rw [u16_val hn] at hu
  simp only [decodeAt, h0, ofCode_code, Option.bind_eq_bind, Option.bind_some]
  simp only [List.mem_cons, List.not_mem_nil, or_false] at hop
  rcases hop with rfl | rfl | rfl | rfl <;> simp [hu]

theorem decode_jump {op : Op} {n : Nat}
    (h : BytesAt C o [UInt8.ofNat op.code, UInt8.ofNat (n / 256), UInt8.ofNat (n % 256)])
    (hn : n ≤ 65535) (hop : op ∈ [Op.IF_TRUE, .JUMP]) :
    decodeAt C o = some (.jump op n, o + 3) := by
  have h0 := bytesAt_get h 0 _ rfl
  have h1 := bytesAt_get h 1 _ rfl
  have h2 := bytesAt_get h 2 _ rfl
  simp only [Nat.add_zero] at h0
  have hu := u16At_of h1 h2
  rw [u16_val hn] at hu
  simp only [decodeAt, h0, ofCode_code, Option.bind_eq_bind, Option.bind_some]
  simp only [List.mem_cons, List.not_mem_nil, or_false] at hop
  rcases hop with rfl | rfl <;> simp [hu]

theorem decode_newColl {op : Op} {i n : Nat}
    (h : BytesAt C o [UInt8.ofNat op.code, UInt8.ofNat (i / 256), UInt8.ofNat (i % 256),
      UInt8.ofNat (n / 256), UInt8.ofNat (n % 256)])
    (hi : i ≤ 65535) (hn : n ≤ 65535) (hop : op ∈ [Op.NEW_LIST, .NEW_MAP]) :
    decodeAt C o = some (.newColl op i n, o + 5) := by
  have h0 := bytesAt_get h 0 _ rfl
  have h1 := bytesAt_get h 1 _ rfl
  have h2 := bytesAt_get h 2 _ rfl
  have h3 := bytesAt_get h 3 _ rfl
  have h4 := bytesAt_get h 4 _ rfl
  simp only [Nat.add_zero] at h0
  have hu := u16At_of h1 h2
  have hu' := u16At_of (o := o + 3) h3 h4
  rw [u16_val hi] at hu
  rw [u16_val hn] at hu'
  simp only [decodeAt, h0, ofCode_code, Option.bind_eq_bind, Option.bind_some]
  simp only [List.mem_cons, List.not_mem_nil, or_false] at hop
  rcases hop with rfl | rfl <;> simp [hu, hu']

theorem decode_call {op : Op} {i a : Nat}
    (h : BytesAt C o [UInt8.ofNat op.code, UInt8.ofNat (i / 256), UInt8.ofNat (i % 256), UInt8.ofNat a])
    (hi : i ≤ 65535) (ha : a ≤ 255) (hop : op ∈ [Op.CALL_BY_VALUE, .CALL_BY_NEED]) :
    decodeAt C o = some (.call op i a, o + 4) := by
  have h0 := bytesAt_get h 0 _ rfl
  have h1 := bytesAt_get h 1 _ rfl
  have h2 := bytesAt_get h 2 _ rfl
  have h3 := bytesAt_get h 3 _ rfl
  simp only [Nat.add_zero] at h0
  have hu := u16At_of h1 h2
  rw [u16_val hi] at hu
  simp only [decodeAt, h0, ofCode_code, Option.bind_eq_bind, Option.bind_some]
  simp only [List.mem_cons, List.not_mem_nil, or_false] at hop
  rcases hop with rfl | rfl <;> simp [hu, h3, u8_val ha]

theorem decode_dyn {a : Nat}
    (h : BytesAt C o [UInt8.ofNat Op.DYNAMIC_CALL.code, UInt8.ofNat a]) (ha : a ≤ 255) :
    decodeAt C o = some (.dyn a, o + 2) := by
  have h0 := bytesAt_get h 0 _ rfl
  have h1 := bytesAt_get h 1 _ rfl
  simp only [Nat.add_zero] at h0
  simp only [decodeAt, h0, ofCode_code, Option.bind_eq_bind, Option.bind_some]
  simp [h1, u8_val ha]

end decode

end Yae.VmSim
