/-
  C03, part 6: the compiler produces a layout.  `compileE` only appends to the code buffer and
  to the pool (the two `patch` calls of `compileCond` write inside the fragment being emitted),
  and whatever buffer agrees with the result on the fragment's range is laid out for `e`.
-/
import Yae.Proofs.VmSimCode
namespace Yae.VmSim
open Yae Yae.Vm

/-! ### the compiler monad -/

theorem cm_bind {α β} (x : CM α) (f : α → CM β) (s : Code × Pool) :
    (x >>= f) s = match x s with
      | .ok (a, s') => f a s'
      | .error e => .error e := by
  show (StateT.bind x f) s = _
  unfold StateT.bind
  cases x s <;> rfl

theorem cm_bind_ok {α β} {x : CM α} {f : α → CM β} {s : Code × Pool} {r : β × (Code × Pool)}
    (h : (x >>= f) s = .ok r) : ∃ a s', x s = .ok (a, s') ∧ f a s' = .ok r := by
  rw [cm_bind] at h
  cases hx : x s with
  | error e => rw [hx] at h; cases h
  | ok v => obtain ⟨a, s'⟩ := v; rw [hx] at h; exact ⟨a, s', rfl, h⟩

theorem app2 (c : Code) (x y : List UInt8) : (c ++ x.toArray) ++ y.toArray = c ++ (x ++ y).toArray := by
  simp [Array.append_assoc]

theorem push2 (c : Code) (a b : UInt8) : (c.push a).push b = c ++ #[a, b] := by
  apply Array.ext'; simp

theorem emitOp_ok {op : Op} {s s' : Code × Pool} {u : Unit} (h : emitOp op s = .ok (u, s')) :
    s' = (s.1 ++ [UInt8.ofNat op.code].toArray, s.2) := by
  obtain ⟨c, p⟩ := s
  have : emitOp op (c, p) = .ok ((), (c.push (UInt8.ofNat op.code), p)) := rfl
  rw [this] at h; cases h; simp

theorem emitU16_ok {n : Nat} {s s' : Code × Pool} {u : Unit} (h : emitU16 n s = .ok (u, s')) :
    n ≤ 65535 ∧ s' = (s.1 ++ [UInt8.ofNat (n / 256), UInt8.ofNat (n % 256)].toArray, s.2) := by
  obtain ⟨c, p⟩ := s
  have : emitU16 n (c, p) = if n > 65535 then .error .overflow
      else .ok ((), ((c.push (UInt8.ofNat (n / 256))).push (UInt8.ofNat (n % 256)), p)) := by
    unfold emitU16; split <;> rfl
  rw [this] at h
  split at h
  · cases h
  · cases h; exact ⟨by omega, by rw [push2]⟩

theorem emitU8_ok {n : Nat} {s s' : Code × Pool} {u : Unit} (h : emitU8 n s = .ok (u, s')) :
    n ≤ 255 ∧ s' = (s.1 ++ [UInt8.ofNat n].toArray, s.2) := by
  obtain ⟨c, p⟩ := s
  have : emitU8 n (c, p) = if n > 255 then .error .overflow
      else .ok ((), (c.push (UInt8.ofNat n), p)) := by
    unfold emitU8; split <;> rfl
  rw [this] at h
  split at h
  · cases h
  · cases h; exact ⟨by omega, by simp⟩

theorem emitConst_ok {k : Const} {s s' : Code × Pool} {u : Unit} (h : emitConst k s = .ok (u, s')) :
    s.2.size ≤ 65535 ∧
    s' = (s.1 ++ [UInt8.ofNat (s.2.size / 256), UInt8.ofNat (s.2.size % 256)].toArray, s.2.push k) := by
  obtain ⟨c, p⟩ := s
  have : emitConst k (c, p) = emitU16 p.size (c, p.push k) := rfl
  rw [this] at h
  exact emitU16_ok h

theorem here_ok {s s' : Code × Pool} {n : Nat} (h : here s = .ok (n, s')) : n = s.1.size ∧ s' = s := by
  obtain ⟨c, p⟩ := s
  have : here (c, p) = .ok (c.size, (c, p)) := rfl
  rw [this] at h; cases h; exact ⟨rfl, rfl⟩

theorem placeholder_ok {s s' : Code × Pool} {n : Nat} (h : placeholder s = .ok (n, s')) :
    n = s.1.size ∧ s' = (s.1 ++ [UInt8.ofNat 0, UInt8.ofNat 0].toArray, s.2) := by
  obtain ⟨c, p⟩ := s
  have : placeholder (c, p) = .ok (c.size, ((c.push (UInt8.ofNat 0)).push (UInt8.ofNat 0), p)) := rfl
  rw [this] at h; cases h; exact ⟨rfl, by rw [push2]⟩

theorem patch_ok {off t : Nat} {s s' : Code × Pool} {u : Unit} (h : patch off t s = .ok (u, s')) :
    t ≤ 65535 ∧ s' = ((s.1.set! off (UInt8.ofNat (t / 256))).set! (off + 1) (UInt8.ofNat (t % 256)), s.2) := by
  obtain ⟨c, p⟩ := s
  have : patch off t (c, p) = if t > 65535 then .error .overflow
      else .ok ((), ((c.set! off (UInt8.ofNat (t / 256))).set! (off + 1) (UInt8.ofNat (t % 256)), p)) := by
    unfold patch; split <;> rfl
  rw [this] at h
  split at h
  · cases h
  · cases h; exact ⟨by omega, rfl⟩

theorem get_ok {s s' a : Code × Pool} (h : (get : CM (Code × Pool)) s = .ok (a, s')) : a = s ∧ s' = s := by
  have : (get : CM (Code × Pool)) s = .ok (s, s) := rfl
  rw [this] at h; cases h; exact ⟨rfl, rfl⟩

theorem set_ok {x s s' : Code × Pool} {u : PUnit} (h : (set x : CM PUnit) s = .ok (u, s')) : s' = x := by
  have : (set x : CM PUnit) s = .ok (⟨⟩, x) := rfl
  rw [this] at h; cases h; rfl

/-! ### what one compilation step guarantees -/

theorem Same.restrict {C c' cb : Code} {lo hi a : Nat} (h : Same C c' lo hi) (hp : Pre cb c')
    (h1 : lo ≤ a) (h2 : cb.size ≤ hi) : Same C cb a cb.size :=
  fun i hi1 hi2 => by rw [h i (by omega) (by omega), hp.2 i hi2]

theorem bytesAt_tail {C c1 : Code} {bs : List UInt8} {lo : Nat}
    (hS : Same C (c1 ++ bs.toArray) lo (c1 ++ bs.toArray).size) (hlo : lo ≤ c1.size) :
    BytesAt C c1.size bs :=
  bytesAt_append c1 bs _ C lo _ (Pre.refl _) hS hlo (by simp)

theorem pool_last {P p : Pool} {k : Const} (h : Pre (p.push k) P) : P[p.size]? = some k :=
  h.get (by simp)

/-- code and pool grow; any buffer equal to the result on the new range is laid out -/
structure Step {ι : Type} (Lay : Pool → Code → ι → Nat → Nat → Prop) (x : ι) (s s' : Code × Pool) : Prop where
  code : Pre s.1 s'.1
  pool : Pre s.2 s'.2
  lay : ∀ C P, Same C s'.1 s.1.size s'.1.size → Pre s'.2 P → Lay P C x s.1.size s'.1.size

def CompE (funs : List FunDecl) (cf : Nat) : Prop :=
  ∀ e s s' u, compileE cf funs e s = .ok (u, s') → Step (LayE funs) e s s'

section
variable {funs : List FunDecl} {cf : Nat}

theorem compE_lit {op : Op} {k : Const} {s s' : Code × Pool} {u : Unit} {e : Expr}
    (hop : op ∈ [Op.CONST, .LOAD, .NEW_OBJ, .OBJ_LOAD])
    (h : (do emitOp op; emitConst k : CM Unit) s = .ok (u, s'))
    (mk : ∀ P C i o', decodeAt C s.1.size = some (.const op i, o') → P[i]? = some k →
      LayE funs P C e s.1.size o') :
    Step (LayE funs) e s s' := by
  obtain ⟨_, s1, h1, h⟩ := cm_bind_ok h
  have e1 := emitOp_ok h1
  obtain ⟨hn, e2⟩ := emitConst_ok h
  subst e1; subst e2
  simp only [app2, List.cons_append, List.nil_append]
  refine ⟨Pre.append _ _, Pre.push _ _, fun C P hS hP => ?_⟩
  have hb := bytesAt_tail hS (Nat.le_refl _)
  have := decode_const hb hn hop
  exact mk P C _ _ (by simpa using this) (pool_last hP)

theorem compList (hE : CompE funs cf) :
    ∀ (es : ExprList) s s' u, compileList cf funs es s = .ok (u, s') → Step (LayL funs) es s s'
  | .nil, s, s', u, h => by
    rw [compileList] at h; cases h
    exact ⟨Pre.refl _, Pre.refl _, fun _ _ _ _ => LayL.nil⟩
  | .cons e es, s, s', u, h => by
    rw [compileList] at h
    obtain ⟨_, s1, h1, h⟩ := cm_bind_ok h
    have a := hE e s s1 _ h1
    have b := compList hE es s1 s' _ h
    refine ⟨a.code.trans b.code, a.pool.trans b.pool, fun C P hS hP => ?_⟩
    exact LayL.cons (a.lay C P (hS.restrict b.code (Nat.le_refl _) b.code.1) (b.pool.trans hP))
      (b.lay C P (hS.sub a.code.1 (Nat.le_refl _)) hP)

theorem compFields (hE : CompE funs cf) :
    ∀ (fs : FieldEList) s s' u, compileFields cf funs fs s = .ok (u, s') → Step (LayF funs) fs s s'
  | .nil, s, s', u, h => by
    rw [compileFields] at h; cases h
    exact ⟨Pre.refl _, Pre.refl _, fun _ _ _ _ => LayF.nil⟩
  | .cons n e fs, s, s', u, h => by
    rw [compileFields] at h
    obtain ⟨_, s1, h1, h⟩ := cm_bind_ok h
    have a := hE e s s1 _ h1
    have b := compFields hE fs s1 s' _ h
    refine ⟨a.code.trans b.code, a.pool.trans b.pool, fun C P hS hP => ?_⟩
    exact LayF.cons (a.lay C P (hS.restrict b.code (Nat.le_refl _) b.code.1) (b.pool.trans hP))
      (b.lay C P (hS.sub a.code.1 (Nat.le_refl _)) hP)

theorem compPairs (hE : CompE funs cf) :
    ∀ (ps : PairList) s s' u, compilePairs cf funs ps s = .ok (u, s') → Step (LayP funs) ps s s'
  | .nil, s, s', u, h => by
    rw [compilePairs] at h; cases h
    exact ⟨Pre.refl _, Pre.refl _, fun _ _ _ _ => LayP.nil⟩
  | .cons k v ps, s, s', u, h => by
    rw [compilePairs] at h
    obtain ⟨_, s1, h1, h⟩ := cm_bind_ok h
    obtain ⟨_, s2, h2, h⟩ := cm_bind_ok h
    have a := hE k s s1 _ h1
    have a2 := hE v s1 s2 _ h2
    have b := compPairs hE ps s2 s' _ h
    refine ⟨a.code.trans (a2.code.trans b.code), a.pool.trans (a2.pool.trans b.pool), fun C P hS hP => ?_⟩
    exact LayP.cons
      (a.lay C P (hS.restrict (a2.code.trans b.code) (Nat.le_refl _) (a2.code.trans b.code).1)
        (a2.pool.trans (b.pool.trans hP)))
      (a2.lay C P (hS.restrict b.code a.code.1 b.code.1) (b.pool.trans hP))
      (b.lay C P (hS.sub (a.code.trans a2.code).1 (Nat.le_refl _)) hP)

theorem bytesAt3 {C : Code} {o : Nat} {a b c : UInt8} (h0 : C[o]? = some a) (h1 : C[o+1]? = some b)
    (h2 : C[o+2]? = some c) : BytesAt C o [a, b, c] := by
  intro j hj
  match j, hj with
  | 0, _ => simpa using h0
  | 1, _ => simpa using h1
  | 2, _ => simpa using h2

/-- the two `patch` calls of `compileCond` -/
theorem patched_get (c : Code) (pF pN : Nat) (h1 l1 h2 l2 : UInt8) (hlt : pF + 1 < pN) (hsz : pN + 1 < c.size) :
    let c9 := (((c.set! pF h1).set! (pF + 1) l1).set! pN h2).set! (pN + 1) l2
    c9.size = c.size ∧ c9[pF]? = some h1 ∧ c9[pF+1]? = some l1 ∧ c9[pN]? = some h2 ∧
    c9[pN+1]? = some l2 ∧
    ∀ i, i ≠ pF → i ≠ pF + 1 → i ≠ pN → i ≠ pN + 1 → c9[i]? = c[i]? := by
  intro c9
  refine ⟨by simp [c9], ?_, ?_, ?_, ?_, ?_⟩
  · simp only [c9, Array.set!_eq_setIfInBounds, Array.getElem?_setIfInBounds, Array.size_setIfInBounds]
    repeat (first | rw [if_neg (by omega)] | rw [if_pos (by omega)] | rw [if_pos trivial])
  · simp only [c9, Array.set!_eq_setIfInBounds, Array.getElem?_setIfInBounds, Array.size_setIfInBounds]
    repeat (first | rw [if_neg (by omega)] | rw [if_pos (by omega)] | rw [if_pos trivial])
  · simp only [c9, Array.set!_eq_setIfInBounds, Array.getElem?_setIfInBounds, Array.size_setIfInBounds]
    repeat (first | rw [if_neg (by omega)] | rw [if_pos (by omega)] | rw [if_pos trivial])
  · simp only [c9, Array.set!_eq_setIfInBounds, Array.getElem?_setIfInBounds, Array.size_setIfInBounds]
    repeat (first | rw [if_neg (by omega)] | rw [if_pos (by omega)] | rw [if_pos trivial])
  · intro i a b c d
    simp only [c9, Array.set!_eq_setIfInBounds, Array.getElem?_setIfInBounds, Array.size_setIfInBounds]
    repeat (first | rw [if_neg (by omega)] | rw [if_pos (by omega)] | rw [if_pos trivial])

theorem compCond (hE : CompE funs cf) (c t e : Expr) (s s' : Code × Pool) (u : Unit)
    (h : compileCond cf funs c t e s = .ok (u, s')) :
    Step (fun P C (x : Expr × Expr × Expr) o o' => LayC funs P C x.1 x.2.1 x.2.2 o o') (c, t, e) s s' := by
  rw [compileCond] at h
  obtain ⟨_, s1, h1, k1⟩ := cm_bind_ok h
  obtain ⟨_, s2, h2, k2⟩ := cm_bind_ok k1
  obtain ⟨pF, s3, h3, k3⟩ := cm_bind_ok k2
  obtain ⟨_, s4, h4, k4⟩ := cm_bind_ok k3
  obtain ⟨_, s5, h5, k5⟩ := cm_bind_ok k4
  obtain ⟨pN, s6x, h6, k6⟩ := cm_bind_ok k5
  obtain ⟨bF, s6, h7, k7⟩ := cm_bind_ok k6
  obtain ⟨_, s7x, h8, k8⟩ := cm_bind_ok k7
  obtain ⟨nx, s7, h9, k9⟩ := cm_bind_ok k8
  obtain ⟨_, s8, h10, h11⟩ := cm_bind_ok k9
  clear h k1 k2 k3 k4 k5 k6 k7 k8 k9
  obtain ⟨ebF, e7⟩ := here_ok h7
  obtain ⟨enx, e9⟩ := here_ok h9
  subst e7 e9
  have a := hE c s s1 _ h1
  have e2 := emitOp_ok h2
  obtain ⟨epF, e3⟩ := placeholder_ok h3
  have b := hE t s3 s4 _ h4
  have e5 := emitOp_ok h5
  obtain ⟨epN, e6⟩ := placeholder_ok h6
  have d := hE e s6 s7 _ h8
  obtain ⟨hbF, e10⟩ := patch_ok h10
  obtain ⟨hnx, e11⟩ := patch_ok h11
  clear h1 h2 h3 h4 h5 h6 h7 h8 h9 h10 h11
  obtain ⟨c0, p0⟩ := s
  obtain ⟨c1, p1⟩ := s1
  obtain ⟨c4, p4⟩ := s4
  obtain ⟨c7, p7⟩ := s7
  obtain ⟨c', p'⟩ := s'
  subst e2; subst e3; subst e5; subst e6; subst e10
  simp only [app2, List.cons_append, List.nil_append] at *
  subst epF; subst epN; subst ebF; subst enx
  simp only [Array.size_append, List.size_toArray, List.length_cons, List.length_nil, Nat.zero_add,
    Nat.reduceAdd] at e11 hbF
  have ac : Pre c0 c1 := a.code
  have ap : Pre p0 p1 := a.pool
  have al : ∀ C P, Same C c1 c0.size c1.size → Pre p1 P → LayE funs P C c c0.size c1.size := a.lay
  have bc : Pre (c1 ++ [UInt8.ofNat Op.IF_TRUE.code, UInt8.ofNat 0, UInt8.ofNat 0].toArray) c4 := b.code
  have bp : Pre p1 p4 := b.pool
  have bl : ∀ C P, Same C c4 (c1.size + 3) c4.size → Pre p4 P → LayE funs P C t (c1.size + 3) c4.size := by
    have := b.lay; simpa using this
  have dc : Pre (c4 ++ [UInt8.ofNat Op.JUMP.code, UInt8.ofNat 0, UInt8.ofNat 0].toArray) c7 := d.code
  have dp : Pre p4 p7 := d.pool
  have dl : ∀ C P, Same C c7 (c4.size + 3) c7.size → Pre p7 P → LayE funs P C e (c4.size + 3) c7.size := by
    have := d.lay; simpa using this
  clear a b d
  have hc3 : Pre (c1 ++ [UInt8.ofNat Op.IF_TRUE.code, UInt8.ofNat 0, UInt8.ofNat 0].toArray) c7 :=
    bc.trans ((Pre.append _ _).trans dc)
  have hc1 : Pre c1 c7 := (Pre.append _ _).trans hc3
  have hc4 : Pre c4 c7 := (Pre.append _ _).trans dc
  have hs3 := hc3.1; have hs6 := dc.1; have hs1 := ac.1; have hs4 := bc.1
  simp only [Array.size_append, List.size_toArray, List.length_cons, List.length_nil] at hs3 hs6 hs4
  obtain ⟨q0, q1, q2, q3, q4, q5⟩ := patched_get c7 (c1.size + 1) (c4.size + 1)
    (UInt8.ofNat ((c4.size + 3) / 256)) (UInt8.ofNat ((c4.size + 3) % 256))
    (UInt8.ofNat (c7.size / 256)) (UInt8.ofNat (c7.size % 256)) (by omega) (by omega)
  have hc' : c' = (((c7.set! (c1.size + 1) (UInt8.ofNat ((c4.size + 3) / 256))).set! (c1.size + 1 + 1)
      (UInt8.ofNat ((c4.size + 3) % 256))).set! (c4.size + 1) (UInt8.ofNat (c7.size / 256))).set!
      (c4.size + 1 + 1) (UInt8.ofNat (c7.size % 256)) := by
    have := congrArg Prod.fst e11; simpa using this
  have hp' : p' = p7 := by have := congrArg Prod.snd e11; simpa using this
  rw [← hc'] at q0 q1 q2 q3 q4 q5
  clear hc' e11
  subst hp'
  refine ⟨?_, ?_, ?_⟩
  · show Pre c0 c'
    refine ⟨by omega, fun i hi => ?_⟩
    rw [q5 i (by omega) (by omega) (by omega) (by omega)]
    exact (ac.trans hc1).2 i hi
  · exact ap.trans (bp.trans dp)
  · intro C P hS hP
    have hS : Same C c' c0.size c7.size := by rw [← q0]; exact hS
    have hP : Pre p' P := hP
    show LayC funs P C c t e c0.size c'.size
    rw [q0]
    have hC : ∀ i, c0.size ≤ i → i < c7.size → i ≠ c1.size + 1 → i ≠ c1.size + 1 + 1 →
        i ≠ c4.size + 1 → i ≠ c4.size + 1 + 1 → C[i]? = c7[i]? := by
      intro i i1 i2 i3 i4 i5 i6
      rw [hS i i1 i2, q5 i i3 i4 i5 i6]
    have hop1 : c7[c1.size]? = some (UInt8.ofNat Op.IF_TRUE.code) := by
      rw [hc3.2 _ (by simp)]; simp
    have hop2 : c7[c4.size]? = some (UInt8.ofNat Op.JUMP.code) := by
      rw [dc.2 _ (by simp)]; simp
    refine LayC.mk (o1 := c1.size) (o2 := c1.size + 3) (o3 := c4.size) (o4 := c4.size + 3)
      (al C P ?_ (bp.trans (dp.trans hP))) ?_ (bl C P ?_ (dp.trans hP)) ?_
      (dl C P ?_ hP)
    · intro i i1 i2
      rw [hC i i1 (by omega) (by omega) (by omega) (by omega) (by omega)]
      exact hc1.2 i i2
    · refine decode_jump (bytesAt3 ?_ ?_ ?_) hbF (by simp)
      · rw [hC _ (by omega) (by omega) (by omega) (by omega) (by omega) (by omega)]; exact hop1
      · rw [hS _ (by omega) (by omega)]; exact q1
      · rw [hS _ (by omega) (by omega)]; exact q2
    · intro i i1 i2
      rw [hC i (by omega) (by omega) (by omega) (by omega) (by omega) (by omega)]
      exact hc4.2 i i2
    · refine decode_jump (bytesAt3 ?_ ?_ ?_) hnx (by simp)
      · rw [hC _ (by omega) (by omega) (by omega) (by omega) (by omega) (by omega)]; exact hop2
      · rw [hS _ (by omega) (by omega)]; exact q3
      · rw [hS _ (by omega) (by omega)]; exact q4
    · intro i i1 i2
      exact hC i (by omega) (by omega) (by omega) (by omega) (by omega) (by omega)

theorem compThunks (hE : CompE funs cf) :
    ∀ (es : ExprList) (ps : TyList) s s' u, compileThunks cf funs es ps s = .ok (u, s') →
      Step (fun P C es o o' => ∃ ths, LayT funs P C es ths o o') es s s'
  | .nil, ps, s, s', u, h => by
    unfold compileThunks at h; cases h
    exact ⟨Pre.refl _, Pre.refl _, fun _ _ _ _ => ⟨[], LayT.nil⟩⟩
  | .cons e es, ps, s, s', u, h => by
    unfold compileThunks at h
    obtain ⟨_, s1, h1, k1⟩ := cm_bind_ok h
    obtain ⟨x, s1', h2, k2⟩ := cm_bind_ok k1
    obtain ⟨ex, es1⟩ := get_ok h2
    subst x; subst s1'
    obtain ⟨code, pool⟩ := s1
    simp only [] at k2
    obtain ⟨_, s2, h3, k3⟩ := cm_bind_ok k2
    have e3 := set_ok h3
    subst e3
    obtain ⟨_, sb, h4, k4⟩ := cm_bind_ok k3
    obtain ⟨_, sb2, h5, k5⟩ := cm_bind_ok k4
    obtain ⟨y, sb2', h6, k6⟩ := cm_bind_ok k5
    obtain ⟨ey, esb⟩ := get_ok h6
    subst y; subst sb2'
    have e5 := emitOp_ok h5
    obtain ⟨body0, poolb⟩ := sb
    subst e5
    simp only [] at k6
    obtain ⟨_, s3, h7, k7⟩ := cm_bind_ok k6
    have e7 := set_ok h7
    subst e7
    obtain ⟨_, s4, h8, k8⟩ := cm_bind_ok k7
    obtain ⟨hn, e8⟩ := emitConst_ok h8
    have a := hE e _ _ _ h4
    have r := compThunks hE es _ s4 s' _ k8
    have e1 := emitOp_ok h1
    clear h k1 k2 k3 k4 k5 k6 k7 h1 h2 h3 h4 h5 h6 h7 h8 k8
    obtain ⟨c0, p0⟩ := s
    obtain ⟨c', p'⟩ := s'
    simp only [Prod.mk.injEq] at e1
    obtain ⟨ec, ep⟩ := e1
    subst ec ep e8
    simp only [app2, List.cons_append, List.nil_append] at *
    have ap : Pre pool poolb := a.pool
    have al : ∀ C P, Same C body0 0 body0.size → Pre poolb P → LayE funs P C e 0 body0.size := by
      have := a.lay; simpa using this
    have rc : Pre (c0 ++ [UInt8.ofNat Op.CONST.code, UInt8.ofNat (poolb.size / 256),
        UInt8.ofNat (poolb.size % 256)].toArray) c' := r.code
    have rp := r.pool
    have rl := r.lay
    simp only [Array.size_append, List.size_toArray, List.length_cons, List.length_nil, Nat.zero_add,
      Nat.reduceAdd] at rl rp
    clear a r
    refine ⟨(Pre.append _ _).trans rc, ap.trans ((Pre.push _ _).trans rp), fun C P hS hP => ?_⟩
    have hS : Same C c' c0.size c'.size := hS
    have hP : Pre p' P := hP
    have hsz := rc.1
    simp only [Array.size_append, List.size_toArray, List.length_cons, List.length_nil] at hsz
    obtain ⟨ths, hT⟩ := rl C P (hS.sub (by omega) (Nat.le_refl _)) hP
    have hb := bytesAt_append c0 _ c' C _ _ rc hS (Nat.le_refl _) (by simp; omega)
    have hdec := decode_const hb hn (by simp)
    show ∃ ths, LayT funs P C (.cons e es) ths c0.size c'.size
    have hret : decodeAt (body0 ++ [UInt8.ofNat Op.RETURN.code].toArray) body0.size =
        some (.simple .RETURN, body0.size + 1) :=
      decode_simple (bytesAt_tail (Same.refl _ 0 _) (Nat.zero_le _)) (by decide)
    exact ⟨_, LayT.cons hdec (pool_last (rp.trans hP))
      (al _ P (Same.of_pre (Pre.append _ _) 0) ((Pre.push _ _).trans (rp.trans hP))) hret hT⟩

/-- `x`; one-byte instruction -/
theorem step_then_simple {ι} {Lay : Pool → Code → ι → Nat → Nat → Prop} {x : ι} {s s1 s' : Code × Pool}
    {op : Op} {u : Unit} (a : Step Lay x s s1) (h : emitOp op s1 = .ok (u, s'))
    (hop : op ∉ [Op.CONST, .LOAD, .NEW_OBJ, .OBJ_LOAD, .NEW_LIST, .NEW_MAP, .IF_TRUE, .JUMP,
      .CALL_BY_VALUE, .CALL_BY_NEED, .DYNAMIC_CALL]) :
    Pre s.1 s'.1 ∧ Pre s.2 s'.2 ∧ ∀ C P, Same C s'.1 s.1.size s'.1.size → Pre s'.2 P →
      Lay P C x s.1.size s1.1.size ∧ decodeAt C s1.1.size = some (.simple op, s'.1.size) := by
  have e := emitOp_ok h
  subst e
  refine ⟨a.code.trans (Pre.append _ _), a.pool, fun C P hS hP => ⟨?_, ?_⟩⟩
  · exact a.lay C P (hS.restrict (Pre.append _ _) (Nat.le_refl _) (by simp)) hP
  · have := decode_simple (bytesAt_tail hS a.code.1) hop
    simpa using this

/-- `x`; `op` with one constant -/
theorem step_then_const {ι} {Lay : Pool → Code → ι → Nat → Nat → Prop} {x : ι} {s s1 s' : Code × Pool}
    {op : Op} {k : Const} {u : Unit} (a : Step Lay x s s1)
    (h : (do emitOp op; emitConst k : CM Unit) s1 = .ok (u, s'))
    (hop : op ∈ [Op.CONST, .LOAD, .NEW_OBJ, .OBJ_LOAD]) :
    Pre s.1 s'.1 ∧ Pre s.2 s'.2 ∧ ∀ C P, Same C s'.1 s.1.size s'.1.size → Pre s'.2 P →
      Lay P C x s.1.size s1.1.size ∧ ∃ i, decodeAt C s1.1.size = some (.const op i, s'.1.size) ∧
        P[i]? = some k := by
  obtain ⟨_, s2, h1, h⟩ := cm_bind_ok h
  have e1 := emitOp_ok h1
  obtain ⟨hn, e2⟩ := emitConst_ok h
  subst e1; subst e2
  simp only [app2, List.cons_append, List.nil_append]
  refine ⟨a.code.trans (Pre.append _ _), a.pool.trans (Pre.push _ _), fun C P hS hP => ⟨?_, ?_⟩⟩
  · exact a.lay C P (hS.restrict (Pre.append _ _) (Nat.le_refl _) (by simp)) ((Pre.push _ _).trans hP)
  · have := decode_const (bytesAt_tail hS a.code.1) hn hop
    exact ⟨_, by simpa using this, pool_last hP⟩

/-- `x`; `NEW_LIST` / `NEW_MAP` with a type constant and a count -/
theorem step_then_coll {ι} {Lay : Pool → Code → ι → Nat → Nat → Prop} {x : ι} {s s1 s' : Code × Pool}
    {op : Op} {k : Const} {n : Nat} {u : Unit} (a : Step Lay x s s1)
    (h : (do emitOp op; emitConst k; emitU16 n : CM Unit) s1 = .ok (u, s'))
    (hop : op ∈ [Op.NEW_LIST, .NEW_MAP]) :
    Pre s.1 s'.1 ∧ Pre s.2 s'.2 ∧ ∀ C P, Same C s'.1 s.1.size s'.1.size → Pre s'.2 P →
      Lay P C x s.1.size s1.1.size ∧ ∃ i, decodeAt C s1.1.size = some (.newColl op i n, s'.1.size) ∧
        P[i]? = some k := by
  obtain ⟨_, s2, h1, h⟩ := cm_bind_ok h
  obtain ⟨_, s3, h2, h⟩ := cm_bind_ok h
  have e1 := emitOp_ok h1
  obtain ⟨hn, e2⟩ := emitConst_ok h2
  obtain ⟨hn', e3⟩ := emitU16_ok h
  subst e1; subst e2; subst e3
  simp only [app2, List.cons_append, List.nil_append]
  refine ⟨a.code.trans (Pre.append _ _), a.pool.trans (Pre.push _ _), fun C P hS hP => ⟨?_, ?_⟩⟩
  · exact a.lay C P (hS.restrict (Pre.append _ _) (Nat.le_refl _) (by simp)) ((Pre.push _ _).trans hP)
  · have := decode_newColl (bytesAt_tail hS a.code.1) hn hn' hop
    exact ⟨_, by simpa using this, pool_last hP⟩

/-- `x`; `CALL_BY_VALUE` / `CALL_BY_NEED` with a function constant and an argument count -/
theorem step_then_call {ι} {Lay : Pool → Code → ι → Nat → Nat → Prop} {x : ι} {s s1 s' : Code × Pool}
    {op : Op} {k : Const} {n : Nat} {u : Unit} (a : Step Lay x s s1)
    (h : (do emitOp op; emitConst k; emitU8 n : CM Unit) s1 = .ok (u, s'))
    (hop : op ∈ [Op.CALL_BY_VALUE, .CALL_BY_NEED]) :
    Pre s.1 s'.1 ∧ Pre s.2 s'.2 ∧ ∀ C P, Same C s'.1 s.1.size s'.1.size → Pre s'.2 P →
      Lay P C x s.1.size s1.1.size ∧ ∃ i, decodeAt C s1.1.size = some (.call op i n, s'.1.size) ∧
        P[i]? = some k := by
  obtain ⟨_, s2, h1, h⟩ := cm_bind_ok h
  obtain ⟨_, s3, h2, h⟩ := cm_bind_ok h
  have e1 := emitOp_ok h1
  obtain ⟨hn, e2⟩ := emitConst_ok h2
  obtain ⟨hn', e3⟩ := emitU8_ok h
  subst e1; subst e2; subst e3
  simp only [app2, List.cons_append, List.nil_append]
  refine ⟨a.code.trans (Pre.append _ _), a.pool.trans (Pre.push _ _), fun C P hS hP => ⟨?_, ?_⟩⟩
  · exact a.lay C P (hS.restrict (Pre.append _ _) (Nat.le_refl _) (by simp)) ((Pre.push _ _).trans hP)
  · have := decode_call (bytesAt_tail hS a.code.1) hn hn' hop
    exact ⟨_, by simpa using this, pool_last hP⟩

theorem intrinsic_simple {b : BId} {op : Op} (h : intrinsicByValue b = some op) :
    op ∉ [Op.CONST, .LOAD, .NEW_OBJ, .OBJ_LOAD, .NEW_LIST, .NEW_MAP, .IF_TRUE, .JUMP,
      .CALL_BY_VALUE, .CALL_BY_NEED, .DYNAMIC_CALL] := by
  cases b <;> first | (cases h; done) | (injection h with h; subst h; decide)

/-- the end of a static call that is not compiled to jumps -/
theorem step_then_tail {ι} {Lay : Pool → Code → ι → Nat → Nat → Prop} {x : ι} {s s1 s' : Code × Pool}
    {d : FunDecl} {n : Nat} {u : Unit} (a : Step Lay x s s1)
    (h : (match (bidOf d).bind intrinsicByValue with
      | some op => emitOp op
      | none => do
        emitOp (if d.isLazy then .CALL_BY_NEED else .CALL_BY_VALUE)
        emitConst (.fn d)
        emitU8 n : CM Unit) s1 = .ok (u, s')) :
    Pre s.1 s'.1 ∧ Pre s.2 s'.2 ∧ ∀ C P, Same C s'.1 s.1.size s'.1.size → Pre s'.2 P →
      Lay P C x s.1.size s1.1.size ∧ CallTail P C d n s1.1.size s'.1.size := by
  unfold CallTail
  cases hop : (bidOf d).bind intrinsicByValue with
  | some op =>
    rw [hop] at h
    obtain ⟨b, _, hb⟩ := Option.bind_eq_some_iff.mp hop
    exact step_then_simple a h (intrinsic_simple hb)
  | none =>
    rw [hop] at h
    exact step_then_call a h (by cases d.isLazy <;> simp)

theorem Step.seq {ι κ} {L1 : Pool → Code → ι → Nat → Nat → Prop} {L2 : Pool → Code → κ → Nat → Nat → Prop}
    {x : ι} {y : κ} {s s1 s2 : Code × Pool} (a : Step L1 x s s1) (b : Step L2 y s1 s2) :
    Step (fun P C (z : ι × κ) o o' => ∃ o1, L1 P C z.1 o o1 ∧ L2 P C z.2 o1 o') (x, y) s s2 :=
  ⟨a.code.trans b.code, a.pool.trans b.pool, fun C P hS hP =>
    ⟨s1.1.size, a.lay C P (hS.restrict b.code (Nat.le_refl _) b.code.1) (b.pool.trans hP),
      b.lay C P (hS.sub a.code.1 (Nat.le_refl _)) hP⟩⟩

theorem compE_succ_nocall (hE : CompE funs cf) (e : Expr) (s s' : Code × Pool) (u : Unit)
    (h : compileE (cf + 1) funs e s = .ok (u, s'))
    (hnc : ∀ p col callee args cty resolved index, e ≠ .call p col callee args cty resolved index) :
    Step (LayE funs) e s s' := by
  unfold compileE at h
  cases e with
  | str p v => exact compE_lit (by simp) h fun P C i o' hd hp => LayE.str hd hp
  | num p v => exact compE_lit (by simp) h fun P C i o' hd hp => LayE.num hd hp
  | time p v => exact compE_lit (by simp) h fun P C i o' hd hp => LayE.time hd hp
  | bool p v => exact compE_lit (by simp) h fun P C i o' hd hp => LayE.bool hd hp
  | ident p x => exact compE_lit (by simp) h fun P C i o' hd hp => LayE.ident hd hp
  | list p es ty =>
    dsimp only at h
    obtain ⟨_, s1, h1, h⟩ := cm_bind_ok h
    obtain ⟨hc, hp, hl⟩ := step_then_coll (compList hE es s s1 _ h1) h (by simp)
    exact ⟨hc, hp, fun C P hS hP => by
      obtain ⟨hl1, i, hd, hi⟩ := hl C P hS hP
      exact LayE.list hl1 hd hi⟩
  | map p ps ty =>
    dsimp only at h
    obtain ⟨_, s1, h1, h⟩ := cm_bind_ok h
    obtain ⟨hc, hp, hl⟩ := step_then_coll (compPairs hE ps s s1 _ h1) h (by simp)
    exact ⟨hc, hp, fun C P hS hP => by
      obtain ⟨hl1, i, hd, hi⟩ := hl C P hS hP
      exact LayE.map hl1 hd hi⟩
  | obj p fs ty =>
    dsimp only at h
    obtain ⟨_, s1, h1, h⟩ := cm_bind_ok h
    obtain ⟨hc, hp, hl⟩ := step_then_const (compFields hE fs s s1 _ h1) h (by simp)
    exact ⟨hc, hp, fun C P hS hP => by
      obtain ⟨hl1, i, hd, hi⟩ := hl C P hS hP
      exact LayE.obj hl1 hd hi⟩
  | member p col obj field fp oty index =>
    dsimp only at h
    obtain ⟨_, s1, h1, h⟩ := cm_bind_ok h
    obtain ⟨hc, hp, hl⟩ := step_then_const (hE obj s s1 _ h1) h (by simp)
    exact ⟨hc, hp, fun C P hS hP => by
      obtain ⟨hl1, i, hd, hi⟩ := hl C P hS hP
      exact LayE.member hl1 hd hi⟩
  | subscript p col var idx varTy =>
    dsimp only at h
    obtain ⟨_, s1, h1, h⟩ := cm_bind_ok h
    obtain ⟨_, s2, h2, h⟩ := cm_bind_ok h
    have ab := Step.seq (hE var s s1 _ h1) (hE idx s1 s2 _ h2)
    split at h
    · obtain ⟨hc, hp, hl⟩ := step_then_simple ab h (by decide)
      exact ⟨hc, hp, fun C P hS hP => by
        obtain ⟨⟨o1, hl1, hl2⟩, hd⟩ := hl C P hS hP
        exact LayE.subList hl1 hl2 hd⟩
    · obtain ⟨hc, hp, hl⟩ := step_then_simple ab h (by decide)
      exact ⟨hc, hp, fun C P hS hP => by
        obtain ⟨⟨o1, hl1, hl2⟩, hd⟩ := hl C P hS hP
        exact LayE.subMap hl1 hl2 hd⟩
    · cases h
  | call p col callee args cty resolved index => exact absurd rfl (hnc _ _ _ _ _ _ _)
  | _ => cases h

/-- the body of a statically resolved call in `compileE`, with the built-in identifier abstracted -/
def callBody (cf : Nat) (funs : List FunDecl) (d : FunDecl) (bid : Option BId) (args : ExprList) : CM Unit :=
  match bid, args with
  | some .IF_BOOL_ANY_ANY, .cons c (.cons t (.cons f .nil)) => compileCond cf funs c t f
  | some .LOGIC_AND_BOOL_BOOL, .cons x (.cons y .nil) =>
      compileCond cf funs x y (.bool Pos.unknown false)
  | some .LOGIC_OR_BOOL_BOOL, .cons x (.cons y .nil) =>
      compileCond cf funs x (.bool Pos.unknown true) y
  | some .LOGIC_NOT_BOOL, .cons x _ => do
      compileE cf funs x
      emitOp .LOGICAL_NOT
  | _, _ => do
    if (bid.map isCondIntrinsic).getD false then throw (.unreachable "intrinsic-args")
    let params : TyList := match d.ty with | .fn _ ps _ => ps | _ => .nil
    if d.isLazy then compileThunks cf funs args params
    else compileList cf funs args
    match bid.bind intrinsicByValue with
    | some op => emitOp op
    | none => do
      emitOp (if d.isLazy then .CALL_BY_NEED else .CALL_BY_VALUE)
      emitConst (.fn d)
      emitU8 args.length

theorem compE_succ_call (hE : CompE funs cf) (p : Pos) (col : Int) (callee : Expr) (args : ExprList)
    (cty : Option Ty) (resolved : String) (index : Int) (s s' : Code × Pool) (u : Unit)
    (h : compileE (cf + 1) funs (.call p col callee args cty resolved index) s = .ok (u, s')) :
    Step (LayE funs) (.call p col callee args cty resolved index) s s' := by
  unfold compileE at h
  dsimp only at h
  by_cases hres : (resolved == "") = true
  · rw [if_pos hres] at h
    obtain ⟨_, s1, h1, h⟩ := cm_bind_ok h
    obtain ⟨_, s2, h2, h⟩ := cm_bind_ok h
    obtain ⟨_, s3, h3, h⟩ := cm_bind_ok h
    have ab := Step.seq (hE callee s s1 _ h1) (compList hE args s1 s2 _ h2)
    have e3 := emitOp_ok h3
    obtain ⟨hn, e4⟩ := emitU8_ok h
    subst e3; subst e4
    simp only [app2, List.cons_append, List.nil_append]
    refine ⟨ab.code.trans (Pre.append _ _), ab.pool, fun C P hS hP => ?_⟩
    obtain ⟨o1, hl1, hl2⟩ := ab.lay C P (hS.restrict (Pre.append _ _) (Nat.le_refl _) (by simp)) hP
    have := decode_dyn (bytesAt_tail hS ab.code.1) hn
    exact LayE.dyn hres hl1 hl2 (by simpa using this)
  · rw [if_neg hres] at h
    have hres : (resolved == "") = false := by simpa using hres
    cases hrs : resolveStatic funs resolved index with
    | none => rw [hrs] at h; cases h
    | some d =>
      rw [hrs] at h
      dsimp only at h
      have h' : callBody cf funs d (bidOf d) args s = .ok (u, s') := h
      clear h
      generalize hbid : bidOf d = bid at h'
      unfold callBody at h'
      split at h'
      · rename_i c t f
        have r := compCond hE c t f s s' u h'
        exact ⟨r.code, r.pool, fun C P hS hP => LayE.condIf hres hrs hbid (r.lay C P hS hP)⟩
      · rename_i x y
        have r := compCond hE x y (.bool Pos.unknown false) s s' u h'
        exact ⟨r.code, r.pool, fun C P hS hP => LayE.condAnd hres hrs hbid (r.lay C P hS hP)⟩
      · rename_i x y
        have r := compCond hE x (.bool Pos.unknown true) y s s' u h'
        exact ⟨r.code, r.pool, fun C P hS hP => LayE.condOr hres hrs hbid (r.lay C P hS hP)⟩
      · rename_i x rest
        obtain ⟨_, s1, h1, h⟩ := cm_bind_ok h'
        obtain ⟨hc, hp, hl⟩ := step_then_simple (hE x s s1 _ h1) h (by decide)
        exact ⟨hc, hp, fun C P hS hP => by
          obtain ⟨hl1, hd⟩ := hl C P hS hP
          exact LayE.not hres hrs hbid hl1 hd⟩
      · subst hbid
        dsimp only at h'
        by_cases hcond : (Option.map isCondIntrinsic (bidOf d)).getD false = true
        · rw [if_pos hcond] at h'
          obtain ⟨_, _, h1, _⟩ := cm_bind_ok h'
          cases h1
        · rw [if_neg hcond] at h'
          have hcond : (Option.map isCondIntrinsic (bidOf d)).getD false = false := by simpa using hcond
          by_cases hlazy : d.isLazy = true
          · rw [if_pos hlazy] at h'
            obtain ⟨_, s1, h1, h⟩ := cm_bind_ok h'
            obtain ⟨hc, hp, hl⟩ := step_then_tail (compThunks hE args _ s s1 _ h1) h
            exact ⟨hc, hp, fun C P hS hP => by
              obtain ⟨⟨ths, hl1⟩, ht⟩ := hl C P hS hP
              exact LayE.byNeed hres hrs hcond hlazy hl1 ht⟩
          · rw [if_neg hlazy] at h'
            have hlazy : d.isLazy = false := by simpa using hlazy
            obtain ⟨_, s1, h1, h⟩ := cm_bind_ok h'
            obtain ⟨hc, hp, hl⟩ := step_then_tail (compList hE args s s1 _ h1) h
            exact ⟨hc, hp, fun C P hS hP => by
              obtain ⟨hl1, ht⟩ := hl C P hS hP
              exact LayE.strict hres hrs hcond hlazy hl1 ht⟩

theorem compE_all : ∀ cf, CompE funs cf := by
  intro cf
  induction cf with
  | zero => intro e s s' u h; unfold compileE at h; cases h
  | succ cf ih =>
    intro e s s' u h
    cases e with
    | call p col callee args cty resolved index =>
      exact compE_succ_call ih p col callee args cty resolved index s s' u h
    | _ => exact compE_succ_nocall ih _ s s' u h (by intros; intro h; cases h)

/-- `compile` lays the expression out from offset 0 and ends the buffer with `RETURN` -/
theorem compile_layout {e : Expr} {code : Code} {pool : Pool}
    (h : compile funs e = .ok (code, pool)) :
    ∃ ob, LayE funs pool code e 0 ob ∧ decodeAt code ob = some (.simple .RETURN, ob + 1) := by
  unfold compile at h
  have h' : ∃ u, (do compileE (e.depth + 1) funs e; emitOp .RETURN : CM Unit) (#[], #[]) =
      .ok (u, (code, pool)) := by
    cases hx : (do compileE (e.depth + 1) funs e; emitOp .RETURN : CM Unit).run (#[], #[]) with
    | error err => rw [hx] at h; cases h
    | ok r =>
      rw [hx] at h
      obtain ⟨u, c, p⟩ := r
      cases h
      exact ⟨u, hx⟩
  obtain ⟨u, h'⟩ := h'
  obtain ⟨_, s1, h1, h2⟩ := cm_bind_ok h'
  obtain ⟨hc, hp, hl⟩ := step_then_simple (compE_all _ e _ s1 _ h1) h2 (by decide)
  obtain ⟨hl1, hd⟩ := hl code pool (Same.refl _ _ _) (Pre.refl _)
  have e2 := emitOp_ok h2
  have hsz : code.size = s1.1.size + 1 := by
    have := congrArg (fun x => x.1.size) e2; simpa using this
  simp only [Array.size_empty] at hl1
  exact ⟨s1.1.size, hl1, by rw [hd, hsz]⟩

end

end Yae.VmSim
