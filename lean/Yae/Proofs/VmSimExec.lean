/-
  C03, part 3: a laid-out fragment, run by the machine, does what the reference evaluator does.
-/
import Yae.Proofs.VmSimLayout
namespace Yae.VmSim
open Yae Yae.Vm EvalM

/-! ### fuel the machine needs -/

mutual
def W : Expr → Nat
  | .list _ es _ => WL es + 1
  | .map _ ps _ => WP ps + 1
  | .obj _ fs _ => WF fs + 1
  | .call _ _ c as _ _ _ => W c + 2 * WL as + 4
  | .subscript _ _ v i _ => W v + W i + 1
  | .member _ _ o _ _ _ _ => W o + 1
  | _ => 1
def WL : ExprList → Nat
  | .nil => 0
  | .cons e es => W e + WL es
def WP : PairList → Nat
  | .nil => 0
  | .cons k v ps => W k + W v + WP ps
def WF : FieldEList → Nat
  | .nil => 0
  | .cons _ e fs => W e + WF fs
end

theorem W_pos (e : Expr) : 1 ≤ W e := by cases e <;> simp [W] <;> omega

theorem length_le_WL : ∀ es : ExprList, es.length ≤ WL es
  | .nil => by simp [ExprList.length, WL]
  | .cons e es => by
    have := length_le_WL es; have := W_pos e
    simp [ExprList.length, WL]; omega

/-! ### what the checker leaves on the tree, as far as the compiler relies on it -/

def listTyOk : ExprList → Option Ty → Bool
  | .nil, some (.list .bot) => true
  | .nil, _ => false
  | .cons _ _, some _ => true
  | .cons _ _, none => false
def mapTyOk : PairList → Option Ty → Bool
  | .nil, some (.map .bot .bot) => true
  | .nil, _ => false
  | .cons _ _ _, some _ => true
  | .cons _ _ _, none => false
def objTyOk (fs : FieldEList) : Option Ty → Bool
  | some (.obj tfs) => tfs.length == fs.length
  | _ => false
def subTyOk : Option Ty → Bool
  | some (.list _) => true
  | some (.map _ _) => true
  | _ => false
/-- a statically resolved call of a built-in has the built-in's arity, and the registered
declaration carries the built-in's laziness -/
def callOk (d : FunDecl) (n : Nat) : Bool :=
  match builtinOf d with
  | some b => n == arityOf b && d.isLazy == b.isLazy
  | none => true

mutual
def wa (funs : List FunDecl) : Expr → Bool
  | .str .. => true
  | .num .. => true
  | .time .. => true
  | .bool .. => true
  | .ident .. => true
  | .list _ es ty => listTyOk es ty && waL funs es
  | .map _ ps ty => mapTyOk ps ty && waP funs ps
  | .obj _ fs ty => objTyOk fs ty && waF funs fs
  | .call _ _ callee args _ resolved index =>
    if resolved == "" then wa funs callee && waL funs args
    else (match resolveStatic funs resolved index with
          | some d => callOk d args.length
          | none => false) && waL funs args
  | .subscript _ _ var idx varTy => subTyOk varTy && wa funs var && wa funs idx
  | .member _ _ obj _ _ _ _ => wa funs obj
  | _ => false
def waL (funs : List FunDecl) : ExprList → Bool
  | .nil => true
  | .cons e es => wa funs e && waL funs es
def waP (funs : List FunDecl) : PairList → Bool
  | .nil => true
  | .cons k v ps => wa funs k && wa funs v && waP funs ps
def waF (funs : List FunDecl) : FieldEList → Bool
  | .nil => true
  | .cons _ e fs => wa funs e && waF funs fs
end

/-- the value has the kind the subscript node was annotated with -/
def ValKind : Option Ty → Val → Prop
  | some (.list _), .list _ _ => True
  | some (.map _ _), .map _ _ => True
  | _, _ => False

/- Consequences of type soundness (C01) the machine relies on, for the values that occur:
the operand of a subscript evaluates to a value of the annotated kind, and the callee of a
dynamic call does not evaluate to a lazy function value. -/
mutual
def KA (ρ : REnv) : Expr → Prop
  | .list _ es _ => KAL ρ es
  | .map _ ps _ => KAP ρ ps
  | .obj _ fs _ => KAF ρ fs
  | .call _ _ callee args _ resolved _ =>
    (resolved = "" → KA ρ callee ∧
      ∀ f l v l', eval f false ρ callee l = (.ok v, l') → ∀ ty ref, v ≠ .fn ty ref true) ∧
    KAL ρ args
  | .subscript _ _ var idx varTy =>
    KA ρ var ∧ KA ρ idx ∧ ∀ f l v l', eval f false ρ var l = (.ok v, l') → ValKind varTy v
  | .member _ _ obj _ _ _ _ => KA ρ obj
  | _ => True
def KAL (ρ : REnv) : ExprList → Prop
  | .nil => True
  | .cons e es => KA ρ e ∧ KAL ρ es
def KAP (ρ : REnv) : PairList → Prop
  | .nil => True
  | .cons k v ps => KA ρ k ∧ KA ρ v ∧ KAP ρ ps
def KAF (ρ : REnv) : FieldEList → Prop
  | .nil => True
  | .cons _ e fs => KA ρ e ∧ KAF ρ fs
end

/-! ### the simulation statement -/

/-- From `(o, s, l)` the machine does what `r` says: on success it reaches `o'` with the stack
`push a` and the log of `r`, using at most `w` instructions; a failure that is not an internal
fault is reproduced with its log.  `w` units of fuel are enough. -/
def Sim {α} (ρ : REnv) (P : Pool) (C : Code) (r : Except Fail α × List Event) (w o o' : Nat)
    (s : List Slot) (l : List Event) (push : α → List Slot) : Prop :=
  ∀ F, w ≤ F →
    match r with
    | (.ok a, l') => ∃ F', F ≤ F' + w ∧ run F ρ P C o s l = run F' ρ P C o' (push a) l'
    | (.error x, l') => NotStuck (.error x : Except Fail Unit) → run F ρ P C o s l = (.error x, l')

section sim
variable {ρ : REnv} {P : Pool} {C : Code}

theorem Sim.mono {α} {r : Except Fail α × List Event} {w w' o o' s l} {push : α → List Slot}
    (h : Sim ρ P C r w o o' s l push) (hw : w ≤ w') : Sim ρ P C r w' o o' s l push := by
  intro F hF
  have := h F (by omega)
  rcases r with ⟨_ | a, l'⟩
  · exact this
  · obtain ⟨F', h1, h2⟩ := this
    exact ⟨F', by omega, h2⟩

theorem Sim.stuck {α} {m l' w o o' s l} {push : α → List Slot}
    (hm : ¬ ExternMiss m := by decide) :
    Sim ρ P C ((.error (.stuck m), l') : Except Fail α × List Event) w o o' s l push := by
  intro F _ h; exact absurd h hm

/-- nothing to run -/
theorem Sim.skip {α} {a : α} {w o s l} {push : α → List Slot} (hp : push a = s) :
    Sim ρ P C (.ok a, l) w o o s l push := by
  intro F _; exact ⟨F, by omega, by rw [hp]⟩

/-- one instruction that cannot fail -/
theorem Sim.step {α} {a : α} {o o' s l l'} {push : α → List Slot}
    (h : ∀ F0, run (F0+1) ρ P C o s l = run F0 ρ P C o' (push a) l') :
    Sim ρ P C (.ok a, l') 1 o o' s l push := by
  intro F hF
  obtain ⟨F0, rfl⟩ : ∃ F0, F = F0 + 1 := ⟨F - 1, by omega⟩
  exact ⟨F0, by omega, h F0⟩

/-- one instruction whose outcome is `r` -/
theorem Sim.step' {α} {r : Except Fail α × List Event} {o o' s l} {push : α → List Slot}
    (h : ∀ F0, run (F0+1) ρ P C o s l =
      andThen r (fun a l' => run F0 ρ P C o' (push a) l')) :
    Sim ρ P C r 1 o o' s l push := by
  intro F hF
  obtain ⟨F0, rfl⟩ : ∃ F0, F = F0 + 1 := ⟨F - 1, by omega⟩
  rcases r with ⟨x | a, l'⟩
  · intro _; rw [h F0]; rfl
  · exact ⟨F0, by omega, by rw [h F0]; rfl⟩

/-- sequencing -/
theorem Sim.seq {α β} {x : EvalM α} {k : α → EvalM β} {w1 w2 o o1 o' s l}
    {push1 : α → List Slot} {push2 : β → List Slot}
    (h1 : Sim ρ P C (x l) w1 o o1 s l push1)
    (h2 : ∀ a l1, x l = (.ok a, l1) → Sim ρ P C (k a l1) w2 o1 o' (push1 a) l1 push2) :
    Sim ρ P C ((x >>= k) l) (w1 + w2) o o' s l push2 := by
  intro F hF
  have h1' := h1 F (by omega)
  rcases hx : x l with ⟨e | a, l1⟩
  · rw [bind_err hx]; rw [hx] at h1'; exact h1'
  · rw [bind_ok hx]; rw [hx] at h1'
    obtain ⟨F1, hF1, hrun⟩ := h1'
    have h2' := h2 a l1 hx F1 (by omega)
    rcases hk : k a l1 with ⟨e | b, l2⟩
    · rw [hk] at h2'; intro hs; rw [hrun]; exact h2' hs
    · rw [hk] at h2'
      obtain ⟨F2, hF2, hrun2⟩ := h2'
      exact ⟨F2, by omega, by rw [hrun, hrun2]⟩

end sim

/-! ### expressions, by induction on the evaluator's fuel -/

def SimE (funs : List FunDecl) (ρ : REnv) (P : Pool) (f : Nat) : Prop :=
  ∀ (e : Expr) (C : Code) (o o' : Nat) (s : List Slot) (l : List Event),
    e.depth < f → LayE funs P C e o o' → wa funs e = true → KA ρ e →
    Sim ρ P C (eval f false ρ e l) (W e) o o' s l (fun v => .val v :: s)

section lists
variable {funs : List FunDecl} {ρ : REnv} {P : Pool} {f : Nat}

theorem simL (hE : SimE funs ρ P f) :
    ∀ (es : ExprList) (C : Code) (o o' : Nat) (s : List Slot) (l : List Event),
      (es = .nil ∨ depthList es < f) → LayL funs P C es o o' → waL funs es = true → KAL ρ es →
      Sim ρ P C (evalList f false ρ es l) (WL es) o o' s l (fun vs => pushVals vs.toList s)
  | .nil, C, o, o', s, l, _, hl, _, _ => by
    cases hl
    simp only [evalList]
    exact Sim.skip rfl
  | .cons e es, C, o, o', s, l, hd, hl, hw, hk => by
    cases hl with
    | cons h1 h2 =>
      simp only [waL, Bool.and_eq_true] at hw
      simp only [KAL] at hk
      have hd' : max e.depth (depthList es) < f := by
        rcases hd with hd | hd
        · cases hd
        · simpa [depthList] using hd
      simp only [evalList]
      refine Sim.mono (Sim.seq (hE e C o _ s l (by omega) h1 hw.1 hk.1) fun v l1 _ =>
        Sim.seq (simL hE es C _ o' (.val v :: s) l1 (Or.inr (by omega)) h2 hw.2 hk.2) fun vs l2 _ =>
          Sim.skip (w := 0) ?_) ?_
      · simp [ValList.toList, pushVals_cons]
      · simp [WL]

theorem simF (hE : SimE funs ρ P f) :
    ∀ (fs : FieldEList) (C : Code) (o o' : Nat) (s : List Slot) (l : List Event),
      (fs = .nil ∨ depthFields fs < f) → LayF funs P C fs o o' → waF funs fs = true → KAF ρ fs →
      Sim ρ P C (evalFields f false ρ fs l) (WF fs) o o' s l (fun vs => pushVals vs.toList s)
  | .nil, C, o, o', s, l, _, hl, _, _ => by
    cases hl
    simp only [evalFields]
    exact Sim.skip rfl
  | .cons n e fs, C, o, o', s, l, hd, hl, hw, hk => by
    cases hl with
    | cons h1 h2 =>
      simp only [waF, Bool.and_eq_true] at hw
      simp only [KAF] at hk
      have hd' : max e.depth (depthFields fs) < f := by
        rcases hd with hd | hd
        · cases hd
        · simpa [depthFields] using hd
      simp only [evalFields]
      refine Sim.mono (Sim.seq (hE e C o _ s l (by omega) h1 hw.1 hk.1) fun v l1 _ =>
        Sim.seq (simF hE fs C _ o' (.val v :: s) l1 (Or.inr (by omega)) h2 hw.2 hk.2) fun vs l2 _ =>
          Sim.skip (w := 0) ?_) ?_
      · simp [ValList.toList, pushVals_cons]
      · simp [WF]

/-- pairs: the machine pushes all keys and values, `NEW_MAP` inserts them in the same order -/
def SimPairs (ρ : REnv) (P : Pool) (C : Code) (r : Except Fail EntryList × List Event) (acc : EntryList)
    (n w o o' : Nat) (s : List Slot) (l : List Event) : Prop :=
  ∀ F, w ≤ F →
    match r with
    | (.ok es, l') => ∃ F' kvs, F ≤ F' + w ∧ kvs.length = 2 * n ∧
        (∀ t l0, mapOfPairs t kvs acc l0 = (.ok es, l0)) ∧
        run F ρ P C o s l = run F' ρ P C o' (pushVals kvs s) l'
    | (.error x, l') => NotStuck (.error x : Except Fail Unit) → run F ρ P C o s l = (.error x, l')

theorem simP (hE : SimE funs ρ P f) :
    ∀ (ps : PairList) (C : Code) (o o' : Nat) (s : List Slot) (l : List Event) (acc : EntryList),
      (ps = .nil ∨ depthPairs ps < f) → LayP funs P C ps o o' → waP funs ps = true → KAP ρ ps →
      SimPairs ρ P C (evalPairs f false ρ ps acc l) acc ps.length (WP ps) o o' s l
  | .nil, C, o, o', s, l, acc, _, hl, _, _ => by
    cases hl
    simp only [evalPairs]
    intro F _
    exact ⟨F, [], by omega, rfl, fun _ _ => rfl, rfl⟩
  | .cons k v ps, C, o, o', s, l, acc, hd, hl, hw, hk => by
    cases hl with
    | cons h1 h2 h3 =>
      simp only [waP, Bool.and_eq_true] at hw
      simp only [KAP] at hk
      have hd' : max (max k.depth v.depth) (depthPairs ps) < f := by
        rcases hd with hd | hd
        · cases hd
        · simpa [depthPairs] using hd
      simp only [evalPairs]
      intro F hF
      simp only [WP] at hF
      have hk1 := hE k C o _ s l (by omega) h1 hw.1.1 hk.1 F (by omega)
      rcases hek : eval f false ρ k l with ⟨x | kv, l1⟩
      · rw [bind_err hek]; rw [hek] at hk1; exact hk1
      · rw [bind_ok hek]; rw [hek] at hk1
        obtain ⟨F1, hF1, hrun1⟩ := hk1
        rcases hkey : kv.key? with _ | ⟨kt, ks⟩
        · simp only []; intro hs; exact absurd hs (by simp)
        · simp only []
          have hv1 := hE v C _ _ (.val kv :: s) l1 (by omega) h2 hw.1.2 hk.2.1 F1 (by omega)
          rcases hev : eval f false ρ v l1 with ⟨x | vv, l2⟩
          · rw [bind_err hev]; rw [hev] at hv1; intro hs; rw [hrun1]; exact hv1 hs
          · rw [bind_ok hev]; rw [hev] at hv1
            obtain ⟨F2, hF2, hrun2⟩ := hv1
            have hps := simP hE ps C _ o' (.val vv :: .val kv :: s) l2 (acc.insert kt ks vv)
              (Or.inr (by omega)) h3 hw.2 hk.2.2 F2 (by omega)
            rcases hep : evalPairs f false ρ ps (acc.insert kt ks vv) l2 with ⟨x | es, l3⟩
            · rw [hep] at hps; intro hs; rw [hrun1, hrun2]; exact hps hs
            · rw [hep] at hps
              obtain ⟨F3, kvs, hF3, hlen, hmap, hrun3⟩ := hps
              refine ⟨F3, kv :: vv :: kvs, by simp only [WP]; omega, ?_, ?_, ?_⟩
              · simp [PairList.length, hlen]; omega
              · intro t l0; simp only [mapOfPairs, hkey]; exact hmap t l0
              · rw [hrun1, hrun2, hrun3]; simp [pushVals_cons]

end lists

theorem bind_assoc_apply {α β γ} (x : EvalM α) (g : α → EvalM β) (k : β → EvalM γ) (l : List Event) :
    ((x >>= g) >>= k) l = (x >>= fun a => g a >>= k) l := by
  simp only [bind_apply]
  rcases x l with ⟨e | a, l1⟩ <;> rfl

theorem evalList_length {f dbg ρ} : ∀ (es : ExprList) (l : List Event) (vs : ValList) (l' : List Event),
    evalList f dbg ρ es l = (.ok vs, l') → vs.length = es.length
  | .nil, l, vs, l', h => by
    simp only [evalList, pure_apply] at h; cases h; rfl
  | .cons e es, l, vs, l', h => by
    simp only [evalList, bind_apply] at h
    rcases he : eval f dbg ρ e l with ⟨x | v, l1⟩
    · rw [he] at h; cases h
    · rw [he] at h; simp only [andThen_ok] at h
      rcases hes : evalList f dbg ρ es l1 with ⟨x | vs', l2⟩
      · rw [hes] at h; cases h
      · rw [hes] at h; simp only [andThen_ok, pure_apply] at h
        cases h
        simp only [ValList.length, ExprList.length, Nat.add_right_cancel_iff]
        exact evalList_length es _ _ _ hes

theorem evalFields_length {f dbg ρ} : ∀ (fs : FieldEList) (l : List Event) (vs : ValList) (l' : List Event),
    evalFields f dbg ρ fs l = (.ok vs, l') → vs.length = fs.length
  | .nil, l, vs, l', h => by
    simp only [evalFields, pure_apply] at h; cases h; rfl
  | .cons n e fs, l, vs, l', h => by
    simp only [evalFields, bind_apply] at h
    rcases he : eval f dbg ρ e l with ⟨x | v, l1⟩
    · rw [he] at h; cases h
    · rw [he] at h; simp only [andThen_ok] at h
      rcases hes : evalFields f dbg ρ fs l1 with ⟨x | vs', l2⟩
      · rw [hes] at h; cases h
      · rw [hes] at h; simp only [andThen_ok, pure_apply] at h
        cases h
        simp only [ValList.length, FieldEList.length, Nat.add_right_cancel_iff]
        exact evalFields_length fs _ _ _ hes

theorem listTyOk_nil {ty} (h : listTyOk .nil ty = true) : ty = some (.list .bot) := by
  unfold listTyOk at h; split at h <;> simp_all
theorem listTyOk_cons {e es ty} (h : listTyOk (.cons e es) ty = true) : ∃ t, ty = some t := by
  cases ty with
  | none => simp [listTyOk] at h
  | some t => exact ⟨t, rfl⟩
theorem mapTyOk_nil {ty} (h : mapTyOk .nil ty = true) : ty = some (.map .bot .bot) := by
  unfold mapTyOk at h; split at h <;> simp_all
theorem mapTyOk_cons {k v ps ty} (h : mapTyOk (.cons k v ps) ty = true) : ∃ t, ty = some t := by
  cases ty with
  | none => simp [mapTyOk] at h
  | some t => exact ⟨t, rfl⟩
theorem objTyOk_inv {fs ty} (h : objTyOk fs ty = true) : ∃ tfs, ty = some (.obj tfs) ∧ tfs.length = fs.length := by
  unfold objTyOk at h; split at h
  · exact ⟨_, rfl, by simpa using h⟩
  · cases h

section main
variable {funs : List FunDecl} {ρ : REnv} {P : Pool} {f : Nat}

theorem simE_lit {C : Code} {o o' i : Nat} {s l} {v : Val} {w : Nat} (hw : 1 ≤ w)
    (hdec : decodeAt C o = some (.const .CONST i, o')) (hp : P[i]? = some (.val v)) :
    Sim ρ P C (.ok v, l) w o o' s l (fun v => .val v :: s) :=
  Sim.mono (Sim.step fun _ => run_const_val hdec hp) hw

theorem simE_nocall (hE : SimE funs ρ P f)
    (e : Expr) (C : Code) (o o' : Nat) (s : List Slot) (l : List Event)
    (hd : e.depth < f + 1) (hl : LayE funs P C e o o') (hw : wa funs e = true) (hk : KA ρ e)
    (hnc : ∀ p col callee args cty resolved index, e ≠ .call p col callee args cty resolved index) :
    Sim ρ P C (eval (f+1) false ρ e l) (W e) o o' s l (fun v => .val v :: s) := by
  cases hl with
  | str hdec hp => simp only [eval, pure_apply]; exact simE_lit (W_pos _) hdec hp
  | num hdec hp => simp only [eval, pure_apply]; exact simE_lit (W_pos _) hdec hp
  | time hdec hp => simp only [eval, pure_apply]; exact simE_lit (W_pos _) hdec hp
  | bool hdec hp => simp only [eval, pure_apply]; exact simE_lit (W_pos _) hdec hp
  | ident hdec hp =>
    rename_i x
    simp only [eval]
    cases hlk : ρ.lookupVar x with
    | none => exact Sim.stuck
    | some v =>
      simp only [recDbg_false]
      refine Sim.mono (Sim.step fun F0 => ?_) (W_pos _)
      rw [run_load hdec hp, hlk]; rfl
  | list h1 hdec hp =>
    rename_i o1 i p es ty
    simp only [wa, Bool.and_eq_true] at hw
    simp only [KA] at hk
    cases es with
    | nil =>
      cases h1
      have hty := listTyOk_nil hw.1; subst hty
      simp only [eval, pure_apply]
      refine Sim.mono (Sim.step fun F0 => ?_) (W_pos _)
      exact run_newlist hdec hp (vs := []) rfl
    | cons e es =>
      obtain ⟨t, rfl⟩ := listTyOk_cons hw.1
      simp only [eval]
      refine Sim.seq (simL hE _ C o _ s l (Or.inr (by simpa [Expr.depth] using hd)) h1 hw.2 hk)
        fun vs l1 hvs => Sim.step fun F0 => ?_
      have hlen := evalList_length _ _ _ _ hvs
      rw [run_newlist hdec hp (popN_pushVals vs.toList s l1 _ (by simp [hlen]))]
      simp
  | map h1 hdec hp =>
    rename_i o1 i p ps ty
    simp only [wa, Bool.and_eq_true] at hw
    simp only [KA] at hk
    cases ps with
    | nil =>
      cases h1
      have hty := mapTyOk_nil hw.1; subst hty
      simp only [eval, pure_apply]
      refine Sim.mono (Sim.step fun F0 => ?_) (W_pos _)
      rw [run_newmap hdec hp (kvs := []) rfl]; rfl
    | cons k v ps =>
      obtain ⟨t, rfl⟩ := mapTyOk_cons hw.1
      simp only [eval]
      intro F hF
      simp only [W] at hF
      have hps := simP hE _ C o _ s l .nil (Or.inr (by simpa [Expr.depth] using hd)) h1 hw.2 hk F (by omega)
      rcases hep : evalPairs f false ρ (.cons k v ps) .nil l with ⟨x | es, l1⟩
      · rw [bind_err hep]; rw [hep] at hps; exact hps
      · rw [bind_ok hep]; rw [hep] at hps
        obtain ⟨F1, kvs, hF1, hlen, hmap, hrun⟩ := hps
        obtain ⟨F2, rfl⟩ : ∃ F2, F1 = F2 + 1 := ⟨F1 - 1, by omega⟩
        refine ⟨F2, by simp only [W]; omega, ?_⟩
        rw [hrun, run_newmap hdec hp (popN_pushVals kvs s l1 _ hlen.symm), hmap]
        rfl
  | obj h1 hdec hp =>
    rename_i o1 i p fs ty
    simp only [wa, Bool.and_eq_true] at hw
    simp only [KA] at hk
    obtain ⟨tfs, rfl, htl⟩ := objTyOk_inv hw.1
    cases fs with
    | nil =>
      cases h1
      cases tfs with
      | cons _ _ _ => simp [FieldList.length, FieldEList.length] at htl
      | nil =>
        simp only [eval, pure_apply]
        refine Sim.mono (Sim.step fun F0 => ?_) (W_pos _)
        exact run_newobj hdec hp (vs := []) rfl
    | cons n e fs =>
      simp only [eval]
      refine Sim.seq (simF hE _ C o _ s l (Or.inr (by simpa [Expr.depth] using hd)) h1 hw.2 hk)
        fun vs l1 hvs => Sim.step fun F0 => ?_
      have hlen := evalFields_length _ _ _ _ hvs
      rw [run_newobj hdec hp (popN_pushVals vs.toList s l1 _ (by simp [hlen, htl]))]
      simp
  | member h1 hdec hp =>
    rename_i o1 i p col obj field fp oty index
    simp only [wa] at hw
    simp only [KA] at hk
    simp only [eval]
    refine Sim.seq (hE obj C o _ s l (by simp [Expr.depth] at hd; omega) h1 hw hk) fun ov l1 _ => ?_
    cases ov with
    | obj ty vs =>
      refine Sim.step' fun F0 => ?_
      rw [run_objload hdec hp]
      dsimp only
      cases objGet? ty vs field <;> rfl
    | _ => exact Sim.stuck
  | subList h1 h2 hdec =>
    rename_i o1 o2 p col var idx el
    simp only [wa, Bool.and_eq_true] at hw
    simp only [KA] at hk
    simp only [eval]
    simp only [Expr.depth] at hd
    refine Sim.mono (w := W var + (W idx + 1)) ?_ (by simp only [W]; omega)
    refine Sim.seq (hE var C o _ s l (by omega) h1 hw.1.2 hk.1) fun x l1 hx => ?_
    have hkind := hk.2.2 _ _ _ _ hx
    cases x <;> simp only [ValKind] at hkind
    rename_i t vs
    simp only [bind_assoc_apply]
    refine Sim.seq (hE idx C _ _ _ l1 (by omega) h2 hw.2 hk.2.1) fun iv l2 _ => ?_
    cases iv with
    | num x =>
      refine Sim.step' fun F0 => ?_
      rw [run_listload hdec]
      simp only [bind_apply]
      split
      · rfl
      · cases vs.get? (Num.toInt x).toNat <;> rfl
    | _ => exact Sim.stuck
  | subMap h1 h2 hdec =>
    rename_i o1 o2 p col var idx kt vt
    simp only [wa, Bool.and_eq_true] at hw
    simp only [KA] at hk
    simp only [eval]
    simp only [Expr.depth] at hd
    refine Sim.mono (w := W var + (W idx + 1)) ?_ (by simp only [W]; omega)
    refine Sim.seq (hE var C o _ s l (by omega) h1 hw.1.2 hk.1) fun x l1 hx => ?_
    have hkind := hk.2.2 _ _ _ _ hx
    cases x <;> simp only [ValKind] at hkind
    rename_i t es
    simp only [bind_assoc_apply]
    refine Sim.seq (hE idx C _ _ _ l1 (by omega) h2 hw.2 hk.2.1) fun kv l2 _ => ?_
    rcases hkey : kv.key? with _ | ⟨kt', ks⟩
    · simp only []; exact Sim.stuck
    · refine Sim.step' fun F0 => ?_
      rw [run_mapload hdec hkey]
      simp only [bind_apply]
      cases es.find? kt' ks <;> rfl
  | _ => exact absurd rfl (hnc _ _ _ _ _ _ _)

end main

end Yae.VmSim
