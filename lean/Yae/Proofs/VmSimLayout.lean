/-
  C03, part 2: what the compiler writes, as a relation between an expression and a region
  `[o, o')` of a code buffer `C` read through `decodeAt`, relative to a constant pool `P`.
  Jump targets are absolute offsets in `C`; a deferred argument is a pool constant holding
  its own buffer, laid out for the same pool and ending in `RETURN`.
-/
import Yae.Proofs.VmSimBase
namespace Yae.VmSim
open Yae Yae.Vm

/-- the built-in a declaration refers to -/
def builtinOf (d : FunDecl) : Option BuiltinDecl :=
  match d.ref with
  | .builtin i => builtins[i]?
  | _ => none

/-- as computed by `compileE` -/
def bidOf (d : FunDecl) : Option BId :=
  match d.ref with
  | .builtin i => (builtins[i]?).map (·.id)
  | _ => none

theorem bidOf_eq (d : FunDecl) : bidOf d = (builtinOf d).map (·.id) := by
  unfold bidOf builtinOf; split <;> rfl

/-- the constant a list / map / object literal refers to -/
def tyConst (ty : Option Ty) : Const :=
  match ty with | some t => .ty t | none => .name "<nil>"

/-- the instruction that ends a static call that is not compiled to jumps -/
def CallTail (P : Pool) (C : Code) (d : FunDecl) (n : Nat) (o1 o' : Nat) : Prop :=
  match (bidOf d).bind intrinsicByValue with
  | some op => decodeAt C o1 = some (.simple op, o')
  | none => ∃ i, decodeAt C o1 =
      some (.call (if d.isLazy then .CALL_BY_NEED else .CALL_BY_VALUE) i n, o') ∧
      P[i]? = some (.fn d)

mutual
inductive LayE (funs : List FunDecl) (P : Pool) : Code → Expr → Nat → Nat → Prop
  | str {C o o' i p v} : decodeAt C o = some (.const .CONST i, o') → P[i]? = some (.val (.str v)) →
      LayE funs P C (.str p v) o o'
  | num {C o o' i p v} : decodeAt C o = some (.const .CONST i, o') → P[i]? = some (.val (.num v)) →
      LayE funs P C (.num p v) o o'
  | time {C o o' i p v} : decodeAt C o = some (.const .CONST i, o') →
      P[i]? = some (.val (.time (TimeV.unix v))) → LayE funs P C (.time p v) o o'
  | bool {C o o' i p v} : decodeAt C o = some (.const .CONST i, o') → P[i]? = some (.val (.bool v)) →
      LayE funs P C (.bool p v) o o'
  | list {C o o1 o' i p es ty} : LayL funs P C es o o1 →
      decodeAt C o1 = some (.newColl .NEW_LIST i es.length, o') → P[i]? = some (tyConst ty) →
      LayE funs P C (.list p es ty) o o'
  | map {C o o1 o' i p ps ty} : LayP funs P C ps o o1 →
      decodeAt C o1 = some (.newColl .NEW_MAP i ps.length, o') → P[i]? = some (tyConst ty) →
      LayE funs P C (.map p ps ty) o o'
  | obj {C o o1 o' i p fs ty} : LayF funs P C fs o o1 →
      decodeAt C o1 = some (.const .NEW_OBJ i, o') → P[i]? = some (tyConst ty) →
      LayE funs P C (.obj p fs ty) o o'
  | ident {C o o' i p x} : decodeAt C o = some (.const .LOAD i, o') → P[i]? = some (.name x) →
      LayE funs P C (.ident p x) o o'
  | dyn {C o o1 o2 o' p col callee args cty resolved index} : (resolved == "") = true →
      LayE funs P C callee o o1 → LayL funs P C args o1 o2 →
      decodeAt C o2 = some (.dyn args.length, o') →
      LayE funs P C (.call p col callee args cty resolved index) o o'
  | condIf {C o o' p col callee cty resolved index d c t f} : (resolved == "") = false →
      resolveStatic funs resolved index = some d → bidOf d = some .IF_BOOL_ANY_ANY →
      LayC funs P C c t f o o' →
      LayE funs P C (.call p col callee (.cons c (.cons t (.cons f .nil))) cty resolved index) o o'
  | condAnd {C o o' p col callee cty resolved index d x y} : (resolved == "") = false →
      resolveStatic funs resolved index = some d → bidOf d = some .LOGIC_AND_BOOL_BOOL →
      LayC funs P C x y (.bool Pos.unknown false) o o' →
      LayE funs P C (.call p col callee (.cons x (.cons y .nil)) cty resolved index) o o'
  | condOr {C o o' p col callee cty resolved index d x y} : (resolved == "") = false →
      resolveStatic funs resolved index = some d → bidOf d = some .LOGIC_OR_BOOL_BOOL →
      LayC funs P C x (.bool Pos.unknown true) y o o' →
      LayE funs P C (.call p col callee (.cons x (.cons y .nil)) cty resolved index) o o'
  | not {C o o1 o' p col callee cty resolved index d x rest} : (resolved == "") = false →
      resolveStatic funs resolved index = some d → bidOf d = some .LOGIC_NOT_BOOL →
      LayE funs P C x o o1 → decodeAt C o1 = some (.simple .LOGICAL_NOT, o') →
      LayE funs P C (.call p col callee (.cons x rest) cty resolved index) o o'
  | strict {C o o1 o' p col callee args cty resolved index d} : (resolved == "") = false →
      resolveStatic funs resolved index = some d →
      ((bidOf d).map isCondIntrinsic).getD false = false → d.isLazy = false →
      LayL funs P C args o o1 → CallTail P C d args.length o1 o' →
      LayE funs P C (.call p col callee args cty resolved index) o o'
  | byNeed {C o o1 o' p col callee args cty resolved index d ths} : (resolved == "") = false →
      resolveStatic funs resolved index = some d →
      ((bidOf d).map isCondIntrinsic).getD false = false → d.isLazy = true →
      LayT funs P C args ths o o1 → CallTail P C d args.length o1 o' →
      LayE funs P C (.call p col callee args cty resolved index) o o'
  | subList {C o o1 o2 o' p col var idx el} : LayE funs P C var o o1 → LayE funs P C idx o1 o2 →
      decodeAt C o2 = some (.simple .LIST_LOAD, o') →
      LayE funs P C (.subscript p col var idx (some (.list el))) o o'
  | subMap {C o o1 o2 o' p col var idx k v} : LayE funs P C var o o1 → LayE funs P C idx o1 o2 →
      decodeAt C o2 = some (.simple .MAP_LOAD, o') →
      LayE funs P C (.subscript p col var idx (some (.map k v))) o o'
  | member {C o o1 o' i p col obj field fp oty index} : LayE funs P C obj o o1 →
      decodeAt C o1 = some (.const .OBJ_LOAD i, o') → P[i]? = some (.name field) →
      LayE funs P C (.member p col obj field fp oty index) o o'
inductive LayL (funs : List FunDecl) (P : Pool) : Code → ExprList → Nat → Nat → Prop
  | nil {C o} : LayL funs P C .nil o o
  | cons {C o o1 o' e es} : LayE funs P C e o o1 → LayL funs P C es o1 o' →
      LayL funs P C (.cons e es) o o'
inductive LayP (funs : List FunDecl) (P : Pool) : Code → PairList → Nat → Nat → Prop
  | nil {C o} : LayP funs P C .nil o o
  | cons {C o o1 o2 o' k v ps} : LayE funs P C k o o1 → LayE funs P C v o1 o2 →
      LayP funs P C ps o2 o' → LayP funs P C (.cons k v ps) o o'
inductive LayF (funs : List FunDecl) (P : Pool) : Code → FieldEList → Nat → Nat → Prop
  | nil {C o} : LayF funs P C .nil o o
  | cons {C o o1 o' n e fs} : LayE funs P C e o o1 → LayF funs P C fs o1 o' →
      LayF funs P C (.cons n e fs) o o'
/-- `c`; `IF_TRUE else`; `t`; `JUMP end`; else: `f`; end: -/
inductive LayC (funs : List FunDecl) (P : Pool) : Code → Expr → Expr → Expr → Nat → Nat → Prop
  | mk {C o o1 o2 o3 o4 o' c t f} : LayE funs P C c o o1 →
      decodeAt C o1 = some (.jump .IF_TRUE o4, o2) → LayE funs P C t o2 o3 →
      decodeAt C o3 = some (.jump .JUMP o', o4) → LayE funs P C f o4 o' →
      LayC funs P C c t f o o'
/-- one `CONST` per argument, each a thunk whose own buffer holds the argument and `RETURN` -/
inductive LayT (funs : List FunDecl) (P : Pool) : Code → ExprList → List (Code × Ty) → Nat → Nat → Prop
  | nil {C o} : LayT funs P C .nil [] o o
  | cons {C o o1 o' i e es body pt ths ob nx} : decodeAt C o = some (.const .CONST i, o1) →
      P[i]? = some (.thunk body pt) → LayE funs P body e 0 ob →
      decodeAt body ob = some (.simple .RETURN, nx) → LayT funs P C es ths o1 o' →
      LayT funs P C (.cons e es) ((body, pt) :: ths) o o'
end

end Yae.VmSim
