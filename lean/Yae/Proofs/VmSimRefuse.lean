/-
  C03, part 7: on a well-annotated tree the compiler fails only with `overflow`.
-/
import Yae.Proofs.VmSimCompile
import Yae.Proofs.VmSimExec
namespace Yae.VmSim
open Yae Yae.Vm

/-- the only failure is an encoding overflow -/
def OvOnly {α} (x : CM α) : Prop := ∀ s err, x s = .error err → err = .overflow

theorem OvOnly.bind {α β} {x : CM α} {f : α → CM β} (hx : OvOnly x) (hf : ∀ a, OvOnly (f a)) :
    OvOnly (x >>= f) := by
  intro s err h
  rw [cm_bind] at h
  cases hxs : x s with
  | error e => rw [hxs] at h; cases h; exact hx s _ hxs
  | ok v => obtain ⟨a, s'⟩ := v; rw [hxs] at h; exact hf a s' err h

theorem ov_emitOp (op : Op) : OvOnly (emitOp op) := by
  intro s err h; obtain ⟨c, p⟩ := s
  have : emitOp op (c, p) = .ok ((), (c.push (UInt8.ofNat op.code), p)) := rfl
  rw [this] at h; cases h
theorem ov_emitU16 (n : Nat) : OvOnly (emitU16 n) := by
  intro s err h; obtain ⟨c, p⟩ := s
  have : emitU16 n (c, p) = if n > 65535 then .error .overflow
      else .ok ((), ((c.push (UInt8.ofNat (n / 256))).push (UInt8.ofNat (n % 256)), p)) := by
    unfold emitU16; split <;> rfl
  rw [this] at h; split at h <;> cases h; rfl
theorem ov_emitU8 (n : Nat) : OvOnly (emitU8 n) := by
  intro s err h; obtain ⟨c, p⟩ := s
  have : emitU8 n (c, p) = if n > 255 then .error .overflow
      else .ok ((), (c.push (UInt8.ofNat n), p)) := by
    unfold emitU8; split <;> rfl
  rw [this] at h; split at h <;> cases h; rfl
theorem ov_emitConst (k : Const) : OvOnly (emitConst k) := by
  intro s err h; obtain ⟨c, p⟩ := s
  have : emitConst k (c, p) = emitU16 p.size (c, p.push k) := rfl
  rw [this] at h; exact ov_emitU16 _ _ _ h
theorem ov_here : OvOnly here := by
  intro s err h; obtain ⟨c, p⟩ := s
  have : here (c, p) = .ok (c.size, (c, p)) := rfl
  rw [this] at h; cases h
theorem ov_placeholder : OvOnly placeholder := by
  intro s err h; obtain ⟨c, p⟩ := s
  have : placeholder (c, p) = .ok (c.size, ((c.push (UInt8.ofNat 0)).push (UInt8.ofNat 0), p)) := rfl
  rw [this] at h; cases h
theorem ov_patch (off t : Nat) : OvOnly (patch off t) := by
  intro s err h; obtain ⟨c, p⟩ := s
  have : patch off t (c, p) = if t > 65535 then .error .overflow
      else .ok ((), ((c.set! off (UInt8.ofNat (t / 256))).set! (off + 1) (UInt8.ofNat (t % 256)), p)) := by
    unfold patch; split <;> rfl
  rw [this] at h; split at h <;> cases h; rfl
theorem ov_get : OvOnly (get : CM (Code × Pool)) := by
  intro s err h
  have : (get : CM (Code × Pool)) s = .ok (s, s) := rfl
  rw [this] at h; cases h
theorem ov_set (x : Code × Pool) : OvOnly (set x : CM PUnit) := by
  intro s err h
  have : (set x : CM PUnit) s = .ok (⟨⟩, x) := rfl
  rw [this] at h; cases h
theorem ov_pure {α} (a : α) : OvOnly (pure a : CM α) := by
  intro s err h
  have : (pure a : CM α) s = .ok (a, s) := rfl
  rw [this] at h; cases h

theorem bidOf_inv' {d : FunDecl} {id : BId} (h : bidOf d = some id) :
    ∃ idx b, d.ref = .builtin idx ∧ builtins[idx]? = some b ∧ b.id = id := by
  unfold bidOf at h
  split at h
  · rename_i i hr
    cases hb : builtins[i]? with
    | none => rw [hb] at h; cases h
    | some b => rw [hb] at h; exact ⟨i, b, hr, hb, by simpa using h⟩
  · cases h

def OvE (funs : List FunDecl) (cf : Nat) : Prop :=
  ∀ e, e.depth < cf → wa funs e = true → OvOnly (compileE cf funs e)

section
variable {funs : List FunDecl} {cf : Nat}

theorem ovList (hE : OvE funs cf) : ∀ es : ExprList, (es = .nil ∨ depthList es < cf) →
    waL funs es = true → OvOnly (compileList cf funs es)
  | .nil, _, _ => by rw [compileList]; exact ov_pure _
  | .cons e es, hd, hw => by
    rw [compileList]
    simp only [waL, Bool.and_eq_true] at hw
    have hd' : max e.depth (depthList es) < cf := by
      rcases hd with hd | hd
      · cases hd
      · simpa [depthList] using hd
    exact OvOnly.bind (hE e (by omega) hw.1) fun _ => ovList hE es (Or.inr (by omega)) hw.2

theorem ovFields (hE : OvE funs cf) : ∀ fs : FieldEList, (fs = .nil ∨ depthFields fs < cf) →
    waF funs fs = true → OvOnly (compileFields cf funs fs)
  | .nil, _, _ => by rw [compileFields]; exact ov_pure _
  | .cons n e fs, hd, hw => by
    rw [compileFields]
    simp only [waF, Bool.and_eq_true] at hw
    have hd' : max e.depth (depthFields fs) < cf := by
      rcases hd with hd | hd
      · cases hd
      · simpa [depthFields] using hd
    exact OvOnly.bind (hE e (by omega) hw.1) fun _ => ovFields hE fs (Or.inr (by omega)) hw.2

theorem ovPairs (hE : OvE funs cf) : ∀ ps : PairList, (ps = .nil ∨ depthPairs ps < cf) →
    waP funs ps = true → OvOnly (compilePairs cf funs ps)
  | .nil, _, _ => by rw [compilePairs]; exact ov_pure _
  | .cons k v ps, hd, hw => by
    rw [compilePairs]
    simp only [waP, Bool.and_eq_true] at hw
    have hd' : max (max k.depth v.depth) (depthPairs ps) < cf := by
      rcases hd with hd | hd
      · cases hd
      · simpa [depthPairs] using hd
    exact OvOnly.bind (hE k (by omega) hw.1.1) fun _ => OvOnly.bind (hE v (by omega) hw.1.2) fun _ =>
      ovPairs hE ps (Or.inr (by omega)) hw.2

theorem ovThunks (hE : OvE funs cf) : ∀ (es : ExprList) (ps : TyList), (es = .nil ∨ depthList es < cf) →
    waL funs es = true → OvOnly (compileThunks cf funs es ps)
  | .nil, _, _, _ => by unfold compileThunks; exact ov_pure _
  | .cons e es, ps, hd, hw => by
    unfold compileThunks
    simp only [waL, Bool.and_eq_true] at hw
    have hd' : max e.depth (depthList es) < cf := by
      rcases hd with hd | hd
      · cases hd
      · simpa [depthList] using hd
    refine OvOnly.bind (ov_emitOp _) fun _ => OvOnly.bind ov_get fun x => ?_
    obtain ⟨code, pool⟩ := x
    dsimp only
    refine OvOnly.bind (ov_set _) fun _ => OvOnly.bind (hE e (by omega) hw.1) fun _ =>
      OvOnly.bind (ov_emitOp _) fun _ => OvOnly.bind ov_get fun y => ?_
    obtain ⟨body, pool'⟩ := y
    dsimp only
    refine OvOnly.bind (ov_set _) fun _ => ?_
    exact OvOnly.bind (ov_emitConst _) fun _ => ovThunks hE es _ (Or.inr (by omega)) hw.2

theorem ovCond (hE : OvE funs cf) (c t e : Expr) (hc : c.depth < cf) (ht : t.depth < cf)
    (he : e.depth < cf) (wc : wa funs c = true) (wt : wa funs t = true) (we : wa funs e = true) :
    OvOnly (compileCond cf funs c t e) := by
  rw [compileCond]
  exact OvOnly.bind (hE c hc wc) fun _ => OvOnly.bind (ov_emitOp _) fun _ =>
    OvOnly.bind ov_placeholder fun _ => OvOnly.bind (hE t ht wt) fun _ =>
    OvOnly.bind (ov_emitOp _) fun _ => OvOnly.bind ov_placeholder fun _ =>
    OvOnly.bind ov_here fun _ => OvOnly.bind (hE e he we) fun _ =>
    OvOnly.bind ov_here fun _ => OvOnly.bind (ov_patch _ _) fun _ => ov_patch _ _

theorem condArityTable : builtins.all (fun b =>
    (b.id != .IF_BOOL_ANY_ANY || arityOf b == 3) && (b.id != .LOGIC_AND_BOOL_BOOL || arityOf b == 2) &&
    (b.id != .LOGIC_OR_BOOL_BOOL || arityOf b == 2) && (b.id != .LOGIC_NOT_BOOL || arityOf b == 1)) = true := by
  decide

theorem ov_tail (op0 : Op) (k : Const) (bid : Option BId) (n : Nat) :
    OvOnly (match bid.bind intrinsicByValue with
      | some op => emitOp op
      | none => do
        emitOp op0
        emitConst k
        emitU8 n : CM Unit) := by
  split
  · exact ov_emitOp _
  · exact OvOnly.bind (ov_emitOp _) fun _ => OvOnly.bind (ov_emitConst _) fun _ => ov_emitU8 _

theorem ov_callBody (hE : OvE funs cf) (d : FunDecl) (args : ExprList)
    (hd : args = .nil ∨ depthList args < cf) (hw : waL funs args = true)
    (hok : callOk d args.length = true) : OvOnly (callBody cf funs d (bidOf d) args) := by
  have hbid : bidOf d = bidOf d := rfl
  generalize hb : bidOf d = bid at hbid ⊢
  unfold callBody
  have hdl : ∀ {c t f : Expr}, args = .cons c (.cons t (.cons f .nil)) →
      c.depth < cf ∧ t.depth < cf ∧ f.depth < cf ∧ wa funs c = true ∧ wa funs t = true ∧ wa funs f = true := by
    intro c t f h; subst h
    rcases hd with hd | hd
    · cases hd
    · simp only [depthList] at hd; simp only [waL, Bool.and_eq_true] at hw
      exact ⟨by omega, by omega, by omega, hw.1, hw.2.1, hw.2.2.1⟩
  have hdl2 : ∀ {x y : Expr}, args = .cons x (.cons y .nil) →
      x.depth < cf ∧ y.depth < cf ∧ 1 < cf ∧ wa funs x = true ∧ wa funs y = true := by
    intro x y h; subst h
    rcases hd with hd | hd
    · cases hd
    · simp only [depthList] at hd; simp only [waL, Bool.and_eq_true] at hw
      have := W_pos x
      have hx : 1 ≤ x.depth := by cases x <;> simp [Expr.depth]
      exact ⟨by omega, by omega, by omega, hw.1, hw.2.1⟩
  split
  · rename_i c t f
    obtain ⟨h1, h2, h3, h4, h5, h6⟩ := hdl rfl
    exact ovCond hE c t f h1 h2 h3 h4 h5 h6
  · rename_i x y
    obtain ⟨h1, h2, h3, h4, h5⟩ := hdl2 rfl
    exact ovCond hE x y _ h1 h2 (by simp [Expr.depth]; omega) h4 h5 (by simp [wa])
  · rename_i x y
    obtain ⟨h1, h2, h3, h4, h5⟩ := hdl2 rfl
    exact ovCond hE x _ y h1 (by simp [Expr.depth]; omega) h2 h4 (by simp [wa]) h5
  · rename_i x rest
    have : x.depth < cf ∧ wa funs x = true := by
      rcases hd with hd | hd
      · cases hd
      · simp only [depthList] at hd; simp only [waL, Bool.and_eq_true] at hw
        exact ⟨by omega, hw.1⟩
    exact OvOnly.bind (hE x this.1 this.2) fun _ => ov_emitOp _
  · rename_i n1 n2 n3 n4
    dsimp only
    by_cases hcond : (Option.map isCondIntrinsic bid).getD false = true
    · exfalso
      cases bid with
      | none => simp at hcond
      | some id =>
        simp only [Option.map_some, Option.getD_some] at hcond
        obtain ⟨idx, b, href, hbi, hid⟩ := bidOf_inv' hb
        have har : args.length = arityOf b := by
          simp only [callOk, builtinOf, href, hbi, Bool.and_eq_true, beq_iff_eq] at hok
          exact hok.1
        have ht := List.all_eq_true.mp condArityTable b (mem_builtins hbi)
        simp only [Bool.and_eq_true, Bool.or_eq_true, bne_iff_ne, ne_eq, beq_iff_eq, hid] at ht
        cases id <;> simp only [isCondIntrinsic] at hcond <;> try (cases hcond)
        · have h3 : arityOf b = 3 := by simpa using ht.1.1.1
          rw [h3] at har
          match args, har with
          | .cons c (.cons t (.cons f .nil)), _ => exact n1 c t f rfl rfl
        · have h2 : arityOf b = 2 := by simpa using ht.1.1.2
          rw [h2] at har
          match args, har with
          | .cons x (.cons y .nil), _ => exact n2 x y rfl rfl
        · have h1 : arityOf b = 1 := by simpa using ht.2
          rw [h1] at har
          match args, har with
          | .cons x .nil, _ => exact n4 x .nil rfl rfl
        · have h2 : arityOf b = 2 := by simpa using ht.1.2
          rw [h2] at har
          match args, har with
          | .cons x (.cons y .nil), _ => exact n3 x y rfl rfl
    · rw [if_neg hcond]
      split
      · exact OvOnly.bind (ovThunks hE args _ hd hw) fun _ => ov_tail _ _ bid _
      · exact OvOnly.bind (ovList hE args hd hw) fun _ => ov_tail _ _ bid _

theorem ovE_succ (hE : OvE funs cf) : OvE funs (cf + 1) := by
  intro e hd hw
  unfold compileE
  cases e with
  | str p v => exact OvOnly.bind (ov_emitOp _) fun _ => ov_emitConst _
  | num p v => exact OvOnly.bind (ov_emitOp _) fun _ => ov_emitConst _
  | time p v => exact OvOnly.bind (ov_emitOp _) fun _ => ov_emitConst _
  | bool p v => exact OvOnly.bind (ov_emitOp _) fun _ => ov_emitConst _
  | ident p x => exact OvOnly.bind (ov_emitOp _) fun _ => ov_emitConst _
  | list p es ty =>
    simp only [wa, Bool.and_eq_true] at hw
    simp only [Expr.depth] at hd
    exact OvOnly.bind (ovList hE es (Or.inr (by omega)) hw.2) fun _ => OvOnly.bind (ov_emitOp _) fun _ =>
      OvOnly.bind (ov_emitConst _) fun _ => ov_emitU16 _
  | map p ps ty =>
    simp only [wa, Bool.and_eq_true] at hw
    simp only [Expr.depth] at hd
    exact OvOnly.bind (ovPairs hE ps (Or.inr (by omega)) hw.2) fun _ => OvOnly.bind (ov_emitOp _) fun _ =>
      OvOnly.bind (ov_emitConst _) fun _ => ov_emitU16 _
  | obj p fs ty =>
    simp only [wa, Bool.and_eq_true] at hw
    simp only [Expr.depth] at hd
    exact OvOnly.bind (ovFields hE fs (Or.inr (by omega)) hw.2) fun _ => OvOnly.bind (ov_emitOp _) fun _ =>
      ov_emitConst _
  | member p col obj field fp oty index =>
    simp only [wa] at hw
    simp only [Expr.depth] at hd
    exact OvOnly.bind (hE obj (by omega) hw) fun _ => OvOnly.bind (ov_emitOp _) fun _ => ov_emitConst _
  | subscript p col var idx varTy =>
    simp only [wa, Bool.and_eq_true] at hw
    simp only [Expr.depth] at hd
    refine OvOnly.bind (hE var (by omega) hw.1.2) fun _ => OvOnly.bind (hE idx (by omega) hw.2) fun _ => ?_
    have h := hw.1.1
    unfold subTyOk at h
    split at h
    · exact ov_emitOp _
    · exact ov_emitOp _
    · cases h
  | call p col callee args cty resolved index =>
    simp only [Expr.depth] at hd
    dsimp only
    by_cases hres : (resolved == "") = true
    · rw [if_pos hres]
      simp only [wa, hres, ↓reduceIte, Bool.and_eq_true] at hw
      exact OvOnly.bind (hE callee (by omega) hw.1) fun _ =>
        OvOnly.bind (ovList hE args (Or.inr (by omega)) hw.2) fun _ =>
        OvOnly.bind (ov_emitOp _) fun _ => ov_emitU8 _
    · rw [if_neg hres]
      simp only [wa, hres, Bool.false_eq_true, ↓reduceIte, Bool.and_eq_true] at hw
      cases hrs : resolveStatic funs resolved index with
      | none => rw [hrs] at hw; simp at hw
      | some d =>
        rw [hrs] at hw
        dsimp only at hw ⊢
        exact ov_callBody hE d args (Or.inr (by omega)) hw.2 hw.1
  | _ => simp [wa] at hw

theorem ovE_all : ∀ cf, OvE funs cf := by
  intro cf
  induction cf with
  | zero => intro e hd; exact absurd hd (Nat.not_lt_zero _)
  | succ cf ih => exact ovE_succ ih

/-- on a well-annotated tree (callees resolve, built-in calls have the built-in's arity) the
compiler refuses only for an encoding overflow -/
theorem compile_refuse_overflow {e : Expr} {err : CErr} (hw : wa funs e = true)
    (h : compile funs e = .error err) : err = .overflow := by
  unfold compile at h
  have ho : OvOnly (do compileE (e.depth + 1) funs e; emitOp .RETURN : CM Unit) :=
    OvOnly.bind (ovE_all _ e (Nat.lt_succ_self _) hw) fun _ => ov_emitOp _
  cases hx : (do compileE (e.depth + 1) funs e; emitOp .RETURN : CM Unit).run (#[], #[]) with
  | error err' =>
    rw [hx] at h
    have : err' = err := by cases h; rfl
    subst this
    exact ho _ _ hx
  | ok r => rw [hx] at h; obtain ⟨u, c, p⟩ := r; cases h

end

end Yae.VmSim
