/-
  Soundness of the bytecode verifier `Yae.VmVerify.verify` (property C11).

  * `lab_step`: a successful pass yields a locally consistent labelling `Lab` of the reachable
    offsets by abstract stacks;
  * `run_step` / `run_good`: by induction on the machine's fuel, the concrete stack always has
    the labelled kinds, so no pop fails, every constant has the kind the instruction needs, and
    `pc` strictly increases (fuel `code.size - pc`, plus the sizes of the deferred bodies stored
    below the unit's constant level for nested forcings);
  * `verifyFrom_wf` / `WellFormed`: the declarative reading of what the verifier checks;
  * last section: equational lemmas about the pass, meant for `compile_verified` (not proved:
    it needs a hypothesis that the tree is a checked one -- `compile` also accepts e.g. an
    untyped list literal or an object literal whose attached type has another field count,
    and the verifier rightly rejects their code -- and a byte-level specification of `compileE`).
-/
import Yae.Model.VmVerify
namespace Yae.VmVerify
open Yae Yae.Vm

/-! ### decoding -/

theorem u16At_some {c : Code} {i n : Nat} (h : u16At c i = some n) : i + 1 < c.size ∧ n < 65536 := by
  unfold u16At at h
  cases h1 : c[i]? with
  | none => simp [h1] at h
  | some hi =>
    cases h2 : c[i+1]? with
    | none => simp [h1, h2] at h
    | some lo =>
      simp [h1, h2] at h
      have := (Array.getElem?_eq_some_iff.mp h2).1
      have := hi.toNat_lt
      have := lo.toNat_lt
      omega

theorem getElem?_some_lt {c : Code} {i : Nat} {a : UInt8} (h : c[i]? = some a) : i < c.size :=
  (Array.getElem?_eq_some_iff.mp h).1

theorem decodeAt_next {c : Code} {pc : Nat} {ins : Instr} {next : Nat}
    (h : decodeAt c pc = some (ins, next)) : pc < next ∧ next ≤ c.size := by
  unfold decodeAt at h
  cases h1 : c[pc]? with
  | none => simp [h1] at h
  | some b =>
    have hpc := (Array.getElem?_eq_some_iff.mp h1).1
    cases h2 : Op.ofCode b.toNat with
    | none => simp [h1, h2] at h
    | some op =>
      simp only [h1, h2, Option.bind_eq_bind, Option.bind_some] at h
      split at h
      all_goals
        simp only [Option.bind_eq_some_iff, Option.pure_def, Option.some.injEq, Prod.mk.injEq] at h
      all_goals first
        | (obtain ⟨_, rfl⟩ := h; omega)
        | (obtain ⟨_, h3, _, rfl⟩ := h
           first
             | (have := u16At_some h3; omega)
             | (have := getElem?_some_lt h3; omega))
        | (obtain ⟨_, h3, _, h4, _, rfl⟩ := h
           have := u16At_some h3
           first
             | (have := u16At_some h4; omega)
             | (have := getElem?_some_lt h4; omega))

/-! ### the labelling extracted from a successful verifier pass -/

theorem mergeAt_some {pc : Nat} {cur : Option AStack} {pending : List (Nat × AStack)} {σ : AStack}
    (h : mergeAt pc cur pending = some σ) :
    (∀ x, cur = some x → x = σ) ∧ ∀ p ∈ pending, p.1 = pc → p.2 = σ := by
  unfold mergeAt at h
  split at h
  · split at h
    · rename_i hall
      simp only [Option.some.injEq] at h
      subst h
      refine ⟨by simp, ?_⟩
      intro p hp hpc
      have := List.all_eq_true.mp hall p hp
      simp_all
    · simp at h
  · split at h
    · split at h
      · rename_i hall
        simp only [Option.some.injEq] at h
        refine ⟨by simp, ?_⟩
        intro p hp hpc
        have := List.all_eq_true.mp hall p hp
        simp_all
      · simp at h
    · simp at h

/-- `Lab pool code pc σ`: a successful verifier pass over `code` assigns the abstract stack `σ`
to offset `pc` (either as its current position or as a promise made by a jump). -/
def Lab (pool : Pool) (code : Code) (pc : Nat) (σ : AStack) : Prop :=
  ∃ fuel pc0 cur pending, verifyFrom fuel pool code pc0 cur pending = true ∧
    ((pc = pc0 ∧ cur = some σ) ∨ (pc, σ) ∈ pending)

theorem lab_of_verifyUnit {pool : Pool} {code : Code} (h : verifyUnit pool code = true) :
    Lab pool code 0 [] := ⟨_, 0, some [], [], h, .inl ⟨rfl, rfl⟩⟩

/-- The labelling is locally consistent: at a labelled offset an instruction decodes, its
abstract execution succeeds, and every successor is labelled with the resulting stack. -/
theorem lab_step {pool : Pool} {code : Code} {pc : Nat} {σ : AStack} (h : Lab pool code pc σ) :
    ∃ ins next σ', decodeAt code pc = some (ins, next) ∧ stepA pool ins σ = some σ' ∧
      (ins = .simple .RETURN → σ = [false] ∧ next = code.size) ∧
      (∀ t, ins = .jump .JUMP t → pc < t ∧ Lab pool code t σ') ∧
      (∀ t, ins = .jump .IF_TRUE t → pc < t ∧ Lab pool code t σ') ∧
      (ins ≠ .simple .RETURN → (∀ t, ins ≠ .jump .JUMP t) → Lab pool code next σ') := by
  obtain ⟨fuel, pc0, cur, pending, hv, hst⟩ := h
  induction fuel generalizing pc0 cur pending with
  | zero => simp [verifyFrom] at hv
  | succ fuel ih =>
    unfold verifyFrom at hv
    split at hv
    · simp at hv
    · rename_i σ0 hm
      have hmm := mergeAt_some hm
      simp only at hv
      split at hv
      · simp at hv
      · rename_i ins next hdec
        split at hv
        · simp at hv
        · rename_i σ' hstep
          by_cases hpc : pc = pc0
          · -- the verifier is at `pc`
            have hσ : σ = σ0 := by
              rcases hst with ⟨_, hc⟩ | hmem
              · exact hmm.1 _ hc
              · exact hmm.2 _ hmem hpc
            subst hpc hσ
            refine ⟨ins, next, σ', hdec, hstep, ?_⟩
            split at hv
            · simp at hv
              simp [hv.1.1, hv.1.2]
            · rename_i t
              simp only [Bool.and_eq_true, decide_eq_true_eq] at hv
              refine ⟨by simp, ?_, by simp, by simp⟩
              intro t' ht'
              cases ht'
              exact ⟨hv.1.1.1, _, _, _, _, hv.2, .inr (by simp)⟩
            · rename_i t
              simp only [Bool.and_eq_true, decide_eq_true_eq] at hv
              refine ⟨by simp, by simp, ?_, ?_⟩
              · intro t' ht'
                cases ht'
                exact ⟨hv.1.1.1, _, _, _, _, hv.2, .inr (by simp)⟩
              · intro _ _
                exact ⟨_, _, _, _, hv.2, .inl ⟨rfl, rfl⟩⟩
            · rename_i hnr hnj hni
              simp only [Bool.and_eq_true, decide_eq_true_eq] at hv
              refine ⟨fun h => absurd h (by simpa using hnr), ?_, ?_, ?_⟩
              · intro t ht; exact absurd ht (by simpa using hnj t)
              · intro t ht; exact absurd ht (by simpa using hni t)
              · intro _ _
                exact ⟨_, _, _, _, hv.2, .inl ⟨rfl, rfl⟩⟩
          · -- a promise for a later offset: it is passed on
            have hmem : (pc, σ) ∈ pending.filter (·.1 != pc0) := by
              rcases hst with ⟨h1, _⟩ | hmem
              · exact absurd h1 hpc
              · simp [hmem, hpc]
            split at hv
            · simp at hv
              simp at hmem
              exact absurd (hv.2 _ _ hmem.1) hmem.2
            · simp only [Bool.and_eq_true, decide_eq_true_eq] at hv
              exact ih _ _ _ hv.2 (.inr (List.mem_cons_of_mem _ hmem))
            · simp only [Bool.and_eq_true, decide_eq_true_eq] at hv
              exact ih _ _ _ hv.2 (.inr (List.mem_cons_of_mem _ hmem))
            · simp only [Bool.and_eq_true, decide_eq_true_eq] at hv
              exact ih _ _ _ hv.2 (.inr hmem)

theorem stepA_some {pool : Pool} {ins : Instr} {σ σ' : AStack} (h : stepA pool ins σ = some σ') :
    ∃ pops pushes, effect pool ins = some (pops, pushes) ∧ pops ≤ σ.length ∧
      (σ.take pops).all (· == popKind ins) = true ∧
      σ' = List.replicate pushes (pushKind pool ins) ++ σ.drop pops := by
  unfold stepA at h
  split at h
  · simp at h
  · rename_i pops pushes heff
    split at h
    · rename_i hc
      simp only [Bool.and_eq_true, decide_eq_true_eq] at hc
      simp only [Option.some.injEq] at h
      exact ⟨pops, pushes, heff, hc.1, hc.2, h.symm⟩
    · simp at h

/-! ### what the verifier establishes, declaratively -/

/-- local consistency of a labelling `d` (abstract stack per offset) at the instruction `ins`
at offset `o`; `offs` are the instruction boundaries of the code -/
def LocalOK (pool : Pool) (code : Code) (offs : List Nat) (d : Nat → AStack) (o : Nat) (ins : Instr) : Prop :=
  ∃ next σ', decodeAt code o = some (ins, next) ∧ stepA pool ins (d o) = some σ' ∧
    (ins = .simple .RETURN → d o = [false] ∧ next = code.size) ∧
    (∀ op t, ins = .jump op t → o < t ∧ t ∈ offs ∧ d t = σ') ∧
    (ins ≠ .simple .RETURN → (∀ t, ins ≠ .jump .JUMP t) → next ∈ offs ∧ d next = σ')

theorem upd_ne (σ : AStack) (d' : Nat → AStack) {pc x : Nat} (h : x ≠ pc) :
    (fun y => if y = pc then σ else d' y) x = d' x := if_neg h

theorem decodeFrom_head {fuel : Nat} {code : Code} {pc : Nat} {is : List (Nat × Instr)}
    (h : decodeFrom fuel code pc = some is) (hpc : pc ≠ code.size) :
    ∃ ins rest, is = (pc, ins) :: rest := by
  unfold decodeFrom at h
  simp only [hpc, if_false] at h
  split at h
  · simp at h
  · split at h
    · simp at h
    · rename_i ins next _
      simp only [Option.map_eq_some_iff] at h
      obtain ⟨rest, _, rfl⟩ := h
      exact ⟨ins, rest, rfl⟩

theorem verifyFrom_wf {pool : Pool} {code : Code} : ∀ (fuel pc : Nat) (cur : Option AStack)
    (pending : List (Nat × AStack)), verifyFrom fuel pool code pc cur pending = true →
    ∃ (is : List (Nat × Instr)) (d : Nat → AStack),
      decodeFrom fuel code pc = some is ∧
      (∀ x, cur = some x → d pc = x) ∧
      (∀ p ∈ pending, p.1 ∈ is.map (·.1) ∧ d p.1 = p.2) ∧
      (∀ p ∈ is, pc ≤ p.1) ∧
      (∃ o, is.getLast? = some (o, .simple .RETURN)) ∧
      ∀ o ins, (o, ins) ∈ is → LocalOK pool code (is.map (·.1)) d o ins := by
  intro fuel
  induction fuel with
  | zero => intro pc cur pending hv; simp [verifyFrom] at hv
  | succ fuel ih =>
    intro pc cur pending hv
    unfold verifyFrom at hv
    split at hv
    · simp at hv
    rename_i σ hm
    have hmm := mergeAt_some hm
    simp only at hv
    split at hv
    · simp at hv
    rename_i ins next hdec
    have hnx := decodeAt_next hdec
    have hpc : pc ≠ code.size := by omega
    split at hv
    · simp at hv
    rename_i σ' hstep
    -- the common part: extend the labelling of the rest by `pc ↦ σ`
    have key : ∀ (cur' : Option AStack) (pending' : List (Nat × AStack)),
        verifyFrom fuel pool code next cur' pending' = true → next < code.size →
        (∀ p ∈ pending.filter (·.1 != pc), p ∈ pending') →
        (∀ (is' : List (Nat × Instr)) (d' : Nat → AStack), (∀ x, cur' = some x → d' next = x) →
            (∀ p ∈ pending', p.1 ∈ is'.map (·.1) ∧ d' p.1 = p.2) →
            (∃ rest : Instr × List (Nat × Instr), is' = (next, rest.1) :: rest.2) →
            LocalOK pool code (pc :: is'.map (·.1)) (fun x => if x = pc then σ else d' x) pc ins) →
        ∃ (is : List (Nat × Instr)) (d : Nat → AStack),
          decodeFrom (fuel+1) code pc = some is ∧
          (∀ x, cur = some x → d pc = x) ∧
          (∀ p ∈ pending, p.1 ∈ is.map (·.1) ∧ d p.1 = p.2) ∧
          (∀ p ∈ is, pc ≤ p.1) ∧
          (∃ o, is.getLast? = some (o, .simple .RETURN)) ∧
          ∀ o ins, (o, ins) ∈ is → LocalOK pool code (is.map (·.1)) d o ins := by
      intro cur' pending' hv' hlt hsub hloc
      obtain ⟨is', d', hdf, hcur', hpend', hge', hlast', hloc'⟩ := ih next cur' pending' hv'
      obtain ⟨ins1, rest1, his'⟩ := decodeFrom_head hdf (by omega)
      refine ⟨(pc, ins) :: is', fun x => if x = pc then σ else d' x, ?_, ?_, ?_, ?_, ?_, ?_⟩
      · unfold decodeFrom
        simp [hpc, hdec, hdf]
      · intro x hx; simp [hmm.1 x hx]
      · intro p hp
        by_cases hpp : p.1 = pc
        · simp [hpp, hmm.2 p hp hpp]
        · have := hpend' p (hsub p (by simp [hp, hpp]))
          simp [hpp, this]
      · intro p hp
        rcases List.mem_cons.mp hp with rfl | hp
        · exact Nat.le_refl _
        · have := hge' p hp; omega
      · obtain ⟨o, ho⟩ := hlast'
        refine ⟨o, ?_⟩
        rw [his'] at ho ⊢
        rw [List.getLast?_cons_cons]; exact ho
      · intro o ins' hmem
        rcases List.mem_cons.mp hmem with heq | hmem
        · cases heq
          simpa using hloc is' d' hcur' hpend' ⟨(ins1, rest1), his'⟩
        · -- instructions of the rest: the labelling agrees above `pc`
          have ho := hge' _ hmem
          obtain ⟨nx, σ2, h1, h2, h3, h4, h5⟩ := hloc' o ins' hmem
          have hnx2 := decodeAt_next h1
          have e1 : (if o = pc then σ else d' o) = d' o := by rw [if_neg]; simp at ho; omega
          refine ⟨nx, σ2, h1, by simpa [e1] using h2, ?_, ?_, ?_⟩
          · intro h; simpa [e1] using h3 h
          · intro op t ht
            obtain ⟨a, b, c⟩ := h4 op t ht
            simp at ho
            refine ⟨a, by simp [b], ?_⟩
            exact (upd_ne σ d' (by omega)).trans (c)
          · intro hr hj
            obtain ⟨b, c⟩ := h5 hr hj
            simp at ho
            refine ⟨by simp [b], ?_⟩
            exact (upd_ne σ d' (by omega)).trans (c)
    split at hv
    · -- RETURN
      simp only [Bool.and_eq_true, beq_iff_eq, List.isEmpty_iff] at hv
      obtain ⟨⟨rfl, rfl⟩, hemp⟩ := hv
      refine ⟨[(pc, .simple .RETURN)], fun _ => [false], ?_, ?_, ?_, ?_, ?_, ?_⟩
      · unfold decodeFrom
        simp only [hpc, if_false, hdec]
        unfold decodeFrom
        simp
      · intro x hx; exact (hmm.1 x hx).symm
      · intro p hp
        have hpp : p.1 = pc := by
          apply Classical.byContradiction
          intro hne
          have : p ∈ pending.filter (·.1 != pc) := by simp [hp, hne]
          rw [hemp] at this; simp at this
        simp [hpp, hmm.2 p hp hpp]
      · intro p hp; simp at hp; subst hp; exact Nat.le_refl _
      · exact ⟨pc, rfl⟩
      · intro o ins' hmem
        simp at hmem
        obtain ⟨rfl, rfl⟩ := hmem
        exact ⟨_, σ', hdec, hstep, fun _ => ⟨rfl, rfl⟩, by simp, by simp⟩
    · -- JUMP
      rename_i t
      simp only [Bool.and_eq_true, decide_eq_true_eq] at hv
      obtain ⟨⟨⟨hpt, hts⟩, hns⟩, hv'⟩ := hv
      refine key none _ hv' hns (fun p hp => List.mem_cons_of_mem _ hp) ?_
      intro is' d' _ hpend' _
      have ht := hpend' (t, σ') (by simp)
      refine ⟨next, σ', hdec, by simpa using hstep, by simp, ?_, by simp⟩
      intro op t' ht'
      cases ht'
      refine ⟨hpt, by simp [ht.1], ?_⟩
      exact (upd_ne σ d' (by omega)).trans (ht.2)
    · -- IF_TRUE
      rename_i t
      simp only [Bool.and_eq_true, decide_eq_true_eq] at hv
      obtain ⟨⟨⟨hpt, hts⟩, hns⟩, hv'⟩ := hv
      refine key (some σ') _ hv' hns (fun p hp => List.mem_cons_of_mem _ hp) ?_
      intro is' d' hcur' hpend' hhead
      have ht := hpend' (t, σ') (by simp)
      obtain ⟨rest, rfl⟩ := hhead
      refine ⟨next, σ', hdec, by simpa using hstep, by simp, ?_, ?_⟩
      · intro op t' ht'
        cases ht'
        refine ⟨hpt, List.mem_cons_of_mem _ ht.1, ?_⟩
        exact (upd_ne σ d' (by omega)).trans (ht.2)
      · intro _ _
        refine ⟨by simp, ?_⟩
        exact (upd_ne σ d' (by omega)).trans (hcur' _ rfl)
    · -- everything else
      rename_i hnr hnj hni
      simp only [Bool.and_eq_true, decide_eq_true_eq] at hv
      obtain ⟨hns, hv'⟩ := hv
      refine key (some σ') _ hv' hns (fun p hp => hp) ?_
      intro is' d' hcur' hpend' hhead
      obtain ⟨rest, rfl⟩ := hhead
      refine ⟨next, σ', hdec, by simpa using hstep, ?_, ?_, ?_⟩
      · intro h; exact absurd h (by simpa using hnr)
      · intro op t ht
        subst ht
        -- a jump with another opcode has no stack effect
        exfalso
        obtain ⟨_, _, heff, _⟩ := stepA_some hstep
        rw [effect.eq_17 _ _ _ (by intro h; exact hnj t (by rw [h])) (by intro h; exact hni t (by rw [h]))] at heff
        simp at heff
      · intro _ _
        refine ⟨by simp, ?_⟩
        exact (upd_ne σ d' (by omega)).trans (hcur' _ rfl)

/-- One code unit is well formed with respect to a constant pool: it decodes completely into
instructions, and there is a labelling of the instruction boundaries by abstract stacks
(slot kinds, hence depths) that starts empty and is respected by every instruction and every
control transfer; jumps go forward to instruction boundaries; the unit ends with `RETURN`. -/
def WellFormed (pool : Pool) (code : Code) : Prop :=
  ∃ (is : List (Nat × Instr)) (d : Nat → AStack),
    decodeAll code = some is ∧ d 0 = [] ∧ (∃ o, is.getLast? = some (o, .simple .RETURN)) ∧
    ∀ o ins, (o, ins) ∈ is → LocalOK pool code (is.map (·.1)) d o ins

theorem verifyUnit_wf {pool : Pool} {code : Code} (h : verifyUnit pool code = true) :
    WellFormed pool code := by
  obtain ⟨is, d, h1, h2, _, _, h5, h6⟩ := verifyFrom_wf _ _ _ _ h
  exact ⟨is, d, h1, h2 _ rfl, h5, h6⟩

/-- what `effect pool ins = some _` says about the operands of `ins` -/
def OperandsOK (pool : Pool) : Instr → Prop
  | .simple op => op = .RETURN ∨ op = .NOP ∨ op = .LOGICAL_NOT ∨ op = .LIST_LOAD ∨ op = .MAP_LOAD ∨
      op.builtin?.isSome = true
  | .const op i => ∃ c, pool[i]? = some c ∧
      ((op = .CONST ∧ (c.kind = "val" ∨ c.kind = "thunk")) ∨ (op = .LOAD ∧ c.kind = "name") ∨
       (op = .NEW_OBJ ∧ ∃ fs, c = .ty (.obj fs)) ∨ (op = .OBJ_LOAD ∧ c.kind = "name"))
  | .newColl op i _ => ∃ c, pool[i]? = some c ∧
      ((op = .NEW_LIST ∧ ∃ t, c = .ty (.list t)) ∨ (op = .NEW_MAP ∧ ∃ k v, c = .ty (.map k v)))
  | .jump op _ => op = .JUMP ∨ op = .IF_TRUE
  | .call op i _ => ∃ d, pool[i]? = some (.fn d) ∧
      ((op = .CALL_BY_VALUE ∧ d.isLazy = false) ∨ (op = .CALL_BY_NEED ∧ d.isLazy = true))
  | .dyn _ => True

theorem effect_operands {pool : Pool} {ins : Instr} {e : Nat × Nat} (h : effect pool ins = some e) :
    OperandsOK pool ins := by
  unfold effect at h
  split at h
  all_goals (try (split at h))
  all_goals (try (split at h))
  all_goals (first | (simp at h; done) | (simp_all [OperandsOK, Const.kind]; done) |
    (simp_all [OperandsOK]; obtain ⟨a, b, hb, _⟩ := h; simp [hb]))

/-- `WellFormed` spelled out -/
theorem WellFormed.explicit {pool : Pool} {code : Code} (h : WellFormed pool code) :
    ∃ (is : List (Nat × Instr)) (d : Nat → AStack),
      decodeAll code = some is ∧ d 0 = [] ∧ (∃ o, is.getLast? = some (o, .simple .RETURN)) ∧
      ∀ o ins, (o, ins) ∈ is →
        ∃ next σ' pops pushes, decodeAt code o = some (ins, next) ∧ o < next ∧ next ≤ code.size ∧
          OperandsOK pool ins ∧ effect pool ins = some (pops, pushes) ∧
          stepA pool ins (d o) = some σ' ∧
          pops ≤ (d o).length ∧ σ'.length = (d o).length - pops + pushes ∧
          (ins = .simple .RETURN → d o = [false] ∧ next = code.size) ∧
          (∀ op t, ins = .jump op t → o < t ∧ t < code.size ∧ t ∈ is.map (·.1) ∧ d t = σ') ∧
          (ins ≠ .simple .RETURN → (∀ t, ins ≠ .jump .JUMP t) → next ∈ is.map (·.1) ∧ d next = σ') := by
  obtain ⟨is, d, h1, h2, h3, h4⟩ := h
  refine ⟨is, d, h1, h2, h3, fun o ins hmem => ?_⟩
  obtain ⟨next, σ', hdec, hstep, hr, hj, hn⟩ := h4 o ins hmem
  obtain ⟨pops, pushes, heff, hpops, _, hσ'⟩ := stepA_some hstep
  have hnx := decodeAt_next hdec
  refine ⟨next, σ', pops, pushes, hdec, hnx.1, hnx.2, effect_operands heff, heff, hstep, hpops, ?_, hr, ?_, hn⟩
  · subst hσ'; simp; omega
  · intro op t ht
    obtain ⟨a, b, c⟩ := hj op t ht
    refine ⟨a, ?_, b, c⟩
    obtain ⟨p, hp, hpt⟩ := List.mem_map.mp b
    obtain ⟨nx, _, hd, _⟩ := h4 p.1 p.2 hp
    have := decodeAt_next hd
    omega

/-! ### outcomes -/

/-- the internal faults the verifier rules out -/
def BadStuck (s : String) : Prop :=
  s = "stack-underflow" ∨ s = "bad-opcode-or-truncated" ∨ s = "const-kind" ∨ s = "decode" ∨
  s = "cast:thunk-as-value" ∨ s = "cast:value-as-thunk"

instance : DecidablePred BadStuck := fun s => by unfold BadStuck; exact inferInstance

/-- `Bad P f`: `f` is one of the ruled-out faults, or fuel exhaustion when `P` holds -/
def Bad (P : Prop) : Fail → Prop
  | .stuck s => BadStuck s
  | .fuel => P
  | _ => False

/-- an outcome that is not a ruled-out failure -/
def Good {α : Type} (P : Prop) (r : Except Fail α × List Event) : Prop :=
  ∀ f, r.1 = .error f → ¬ Bad P f

theorem Good.mono {α : Type} {P Q : Prop} {r : Except Fail α × List Event} (hpq : Q → P)
    (h : Good P r) : Good Q r := by
  intro f hf hb
  apply h f hf
  cases f <;> simp_all [Bad]

theorem good_ok {α : Type} {P : Prop} (a : α) (log : List Event) : Good P ((.ok a, log) : Except Fail α × List Event) := by
  intro f hf; simp at hf

theorem good_fail {α : Type} {P : Prop} {f : Fail} (log : List Event) (h : ¬ Bad P f) :
    Good P ((EvalM.fail f : EvalM α) log) := by
  intro f' hf; simp [EvalM.fail] at hf; subst hf; exact h

theorem bind_apply {α β : Type} (x : EvalM α) (f : α → EvalM β) (log : List Event) :
    (x >>= f) log = match x log with
      | (.ok a, log') => f a log'
      | (.error e, log') => (.error e, log') := rfl

theorem good_bind {α β : Type} {P : Prop} {x : EvalM α} {f : α → EvalM β} {log : List Event}
    (hx : Good P (x log)) (hf : ∀ a log', x log = (.ok a, log') → Good P (f a log')) :
    Good P ((x >>= f) log) := by
  rw [bind_apply]
  split
  · rename_i a log' h; exact hf a log' h
  · rename_i e log' h
    intro f' hf'
    simp at hf'
    subst hf'
    exact hx e (by simp [h])

theorem applyBuiltin_error {ext : Externs} {id : BId} {args : List Val} {f : Fail}
    (h : applyBuiltin ext id args = .error f) : ¬ Bad True f := by
  unfold applyBuiltin at h
  split at h
  all_goals (try simp only [] at h)
  all_goals repeat' split at h
  all_goals first
    | (cases h; done)
    | (simp only [stuckCast, Except.error.injEq] at h; subst h; simp [Bad, BadStuck]; done)

/-- a computation all of whose outcomes are good -/
def GoodM {α : Type} (P : Prop) (x : EvalM α) : Prop := ∀ log, Good P (x log)

theorem GoodM.mono {α : Type} {P Q : Prop} {x : EvalM α} (hpq : Q → P) (h : GoodM P x) : GoodM Q x :=
  fun log => (h log).mono hpq

theorem goodM_pure {α : Type} {P : Prop} (a : α) : GoodM P (pure a : EvalM α) := fun log => good_ok a log

theorem goodM_fail {α : Type} {P : Prop} {f : Fail} (h : ¬ Bad P f) : GoodM P (EvalM.fail f : EvalM α) :=
  fun log => good_fail log h

theorem goodM_bind {α β : Type} {P : Prop} {x : EvalM α} {f : α → EvalM β}
    (hx : GoodM P x) (hf : ∀ a, GoodM P (f a)) : GoodM P (x >>= f) :=
  fun _ => good_bind (hx _) (fun a log' _ => hf a log')

theorem pure_bind' {α β : Type} (a : α) (f : α → EvalM β) : (pure a >>= f) = f a := rfl

theorem goodM_lift_applyBuiltin {P : Prop} {ext : Externs} {id : BId} {args : List Val} :
    GoodM P (EvalM.lift (applyBuiltin ext id args)) := by
  intro log f hf
  simp only [EvalM.lift] at hf
  exact fun hb => applyBuiltin_error hf (by cases f <;> simp_all [Bad])

theorem goodM_emitAll {P : Prop} (es : List Event) : GoodM P (EvalM.emitAll es) := by
  intro log f hf; simp [EvalM.emitAll] at hf

theorem goodM_emit {P : Prop} (e : Event) : GoodM P (EvalM.emit e) := by
  intro log f hf; simp [EvalM.emit] at hf

theorem goodM_hostStrict {P : Prop} (name : String) (beh : HostBeh) (args : List Val) :
    GoodM P (hostStrict name beh args) := by
  unfold hostStrict
  apply goodM_bind (goodM_emit _)
  intro _
  split
  · split
    · exact goodM_pure _
    · exact goodM_fail (by simp [Bad, BadStuck])
  · exact goodM_pure _
  · exact goodM_pure _
  · exact goodM_pure _
  · exact goodM_fail (by simp [Bad])
  · exact goodM_fail (by simp [Bad, BadStuck])

theorem goodM_callStrict {P : Prop} (ext : Externs) (d : FunDecl) (args : List Val) :
    GoodM P (callStrict ext d args) := by
  unfold callStrict
  split
  · split
    · split
      · exact goodM_fail (by simp [Bad, BadStuck])
      · apply goodM_bind goodM_lift_applyBuiltin
        intro a
        apply goodM_bind (goodM_emitAll _)
        intro _
        exact goodM_pure _
    · exact goodM_fail (by simp [Bad, BadStuck])
  · exact goodM_hostStrict _ _ _

theorem goodM_mapOfPairs {P : Prop} (ty : Ty) (kvs : List Val) (acc : EntryList) :
    GoodM P (mapOfPairs ty kvs acc) := by
  fun_induction mapOfPairs ty kvs acc with
  | case1 => assumption
  | case2 => exact goodM_fail (by simp [Bad, BadStuck])
  | case3 => exact goodM_pure _

/-! ### the stack and its abstraction -/

def isThunk : Slot → Bool
  | .thunk _ _ => true
  | .val _ => false

/-- the abstract stack of a machine stack -/
def kinds (st : List Slot) : AStack := st.map isThunk

theorem popN_ok : ∀ (n : Nat) (st : List Slot) (acc : List Val), n ≤ (kinds st).length →
    ((kinds st).take n).all (· == false) = true →
    ∃ vs, popN n st acc = pure (vs, st.drop n)
  | 0, st, acc, _, _ => ⟨acc, by simp [popN]⟩
  | n+1, [], acc, h, _ => by simp [kinds] at h
  | n+1, .thunk b r :: st, acc, _, h => by simp [kinds, isThunk] at h
  | n+1, .val v :: st, acc, hl, h => by
    have hl' : n ≤ (kinds st).length := by simpa [kinds] using hl
    have h' : ((kinds st).take n).all (· == false) = true := by
      simp only [kinds, List.map_cons, List.take_succ_cons, List.all_cons, Bool.and_eq_true] at h
      exact h.2
    obtain ⟨vs, hvs⟩ := popN_ok n st (v :: acc) hl' h'
    refine ⟨vs, ?_⟩
    simp only [popN, popVal, pure_bind']
    simpa using hvs

theorem popVal_ok {st : List Slot} {σ : AStack} (h : kinds st = false :: σ) :
    ∃ v rest, st = .val v :: rest ∧ kinds rest = σ := by
  cases st with
  | nil => simp [kinds] at h
  | cons s rest =>
    cases s with
    | thunk b r => simp [kinds, isThunk] at h
    | val v => exact ⟨v, rest, rfl, by simpa [kinds, isThunk] using h⟩

theorem popThunks_ok : ∀ (n : Nat) (st : List Slot) (acc : List (Code × Ty)), n ≤ (kinds st).length →
    ((kinds st).take n).all (· == true) = true →
    ∃ ths, popThunks n st acc = pure (ths, st.drop n) ∧
      ∀ p ∈ ths, p ∈ acc ∨ Slot.thunk p.1 p.2 ∈ st
  | 0, st, acc, _, _ => ⟨acc, by simp [popThunks], fun p hp => .inl hp⟩
  | n+1, [], acc, h, _ => by simp [kinds] at h
  | n+1, .val v :: st, acc, _, h => by simp [kinds, isThunk] at h
  | n+1, .thunk b r :: st, acc, hl, h => by
    have hl' : n ≤ (kinds st).length := by simpa [kinds] using hl
    have h' : ((kinds st).take n).all (· == true) = true := by
      simp only [kinds, List.map_cons, List.take_succ_cons, List.all_cons, Bool.and_eq_true] at h
      exact h.2
    obtain ⟨ths, hths, hmem⟩ := popThunks_ok n st ((b, r) :: acc) hl' h'
    refine ⟨ths, ?_, fun p hp => ?_⟩
    · simpa [popThunks] using hths
    · rcases hmem p hp with h1 | h1
      · rcases List.mem_cons.mp h1 with h2 | h2
        · subst h2; exact .inr (by simp)
        · exact .inl h2
      · exact .inr (List.mem_cons_of_mem _ h1)

/-! ### deferred bodies -/

/-- total size of the deferred bodies stored at constant indices below `k` -/
def tsz (pool : Pool) : Nat → Nat
  | 0 => 0
  | k+1 => tsz pool k + (match pool[k]? with | some (.thunk b _) => b.size | _ => 0)

theorem tsz_mono {pool : Pool} {i k : Nat} (h : i ≤ k) : tsz pool i ≤ tsz pool k := by
  induction k with
  | zero => simp_all
  | succ k ih =>
    by_cases hik : i = k + 1
    · subst hik; exact Nat.le_refl _
    · have := ih (by omega)
      simp only [tsz]; omega

theorem tsz_thunk {pool : Pool} {i k : Nat} {b : Code} {r : Ty} (h : i < k)
    (hp : pool[i]? = some (.thunk b r)) : tsz pool i + b.size ≤ tsz pool k := by
  have h1 : tsz pool (i+1) = tsz pool i + b.size := by simp [tsz, hp]
  have := tsz_mono (pool := pool) (i := i+1) (k := k) h
  omega

/-- every deferred body in the pool verifies against the constants allocated before it -/
def ThunksOK (pool : Pool) : Prop :=
  ∀ i b r, pool[i]? = some (.thunk b r) → verifyUnit (pool.extract 0 i) b = true

/-- deferred arguments on the stack come from constants below `k` -/
def StackOK (pool : Pool) (k : Nat) (st : List Slot) : Prop :=
  ∀ b r, Slot.thunk b r ∈ st → ∃ i, i < k ∧ pool[i]? = some (.thunk b r)

theorem extract_getElem? {pool : Pool} {k i : Nat} {c : Const}
    (h : (pool.extract 0 k)[i]? = some c) : i < k ∧ pool[i]? = some c := by
  rw [Array.getElem?_extract] at h
  split at h
  · rename_i hlt
    simp at h
    exact ⟨by omega, h⟩
  · simp at h

theorem all_take_le {l : List Bool} {p : Bool → Bool} {m n : Nat} (hmn : m ≤ n)
    (h : (l.take n).all p = true) : (l.take m).all p = true := by
  have : l.take m = (l.take n).take m := by simp [List.take_take, Nat.min_eq_left hmn]
  rw [this, List.all_eq_true]
  intro x hx
  exact List.all_eq_true.mp h x (List.mem_of_mem_take hx)

theorem popVal_drop {st : List Slot} {n i : Nat} (hi : i < n) (hn : n ≤ (kinds st).length)
    (hk : ((kinds st).take n).all (· == false) = true) :
    ∃ v, popVal (st.drop i) = pure (v, st.drop (i+1)) := by
  have hlen : i < st.length := by simp [kinds] at hn; omega
  have hki : isThunk st[i] = false := by
    have hmem : (kinds st)[i]'(by simp [kinds]; exact hlen) ∈ (kinds st).take n := by
      rw [List.mem_take_iff_getElem]
      exact ⟨i, by omega, rfl⟩
    have := List.all_eq_true.mp hk _ hmem
    simpa [kinds] using this
  rw [List.drop_eq_getElem_cons hlen]
  cases hs : st[i] with
  | thunk b r => simp [hs, isThunk] at hki
  | val v => exact ⟨v, rfl⟩

theorem StackOK.push_val {pool : Pool} {k : Nat} {st : List Slot} (h : StackOK pool k st) (v : Val) :
    StackOK pool k (.val v :: st) := by
  intro b r hm
  simp at hm
  exact h b r hm

theorem StackOK.drop {pool : Pool} {k : Nat} {st : List Slot} (h : StackOK pool k st) (n : Nat) :
    StackOK pool k (st.drop n) :=
  fun b r hm => h b r (List.mem_of_mem_drop hm)

theorem StackOK.nil {pool : Pool} {k : Nat} : StackOK pool k [] := by
  intro b r hm; simp at hm

/-- fuel that suffices for the rest of a unit at constant level `k` -/
def Enough (pool : Pool) (k : Nat) (c : Code) (pc : Nat) (F : Nat) : Prop :=
  c.size - pc + tsz pool k ≤ F

section machine
variable (env : REnv) (pool : Pool)

/-- the statement proved by induction on the fuel -/
def RunGood (F : Nat) : Prop :=
  ∀ k c pc st, k ≤ pool.size → Lab (pool.extract 0 k) c pc (kinds st) → StackOK pool k st →
    GoodM (Enough pool k c pc F) (run F env pool c pc st)

theorem run_thunk (hpool : ThunksOK pool) (F : Nat) (ih : RunGood env pool F) (k : Nat)
    (b : Code) (r : Ty) (h : ∃ i, i < k ∧ pool[i]? = some (.thunk b r)) :
    GoodM (tsz pool k ≤ F) (run F env pool b 0 []) := by
  obtain ⟨i, hik, hp⟩ := h
  have hi : i ≤ pool.size := Nat.le_of_lt (Array.getElem?_eq_some_iff.mp hp).1
  have := ih i b 0 [] hi (lab_of_verifyUnit (hpool i b r hp)) StackOK.nil
  refine this.mono ?_
  have := tsz_thunk hik hp
  unfold Enough; omega

theorem forceAll_good (hpool : ThunksOK pool) (F : Nat) (ih : RunGood env pool F) (k : Nat)
    (ths : List (Code × Ty)) (hths : ∀ p ∈ ths, ∃ i, i < k ∧ pool[i]? = some (.thunk p.1 p.2)) :
    ∀ (order : List Nat) (acc : Option Val), GoodM (tsz pool k ≤ F) (forceAll F env pool ths order acc)
  | [], some v => by unfold forceAll; exact goodM_pure _
  | [], none => by unfold forceAll; exact goodM_fail (by simp [Bad, BadStuck])
  | i :: rest, acc => by
    unfold forceAll
    split
    · rename_i body ty hget
      have hmem : (body, ty) ∈ ths := List.mem_of_getElem? hget
      apply goodM_bind (run_thunk env pool hpool F ih k body ty (hths _ hmem))
      intro v
      exact forceAll_good hpool F ih k ths hths rest (some v)
    · exact goodM_fail (by simp [Bad, BadStuck])

theorem callLazy_good (hpool : ThunksOK pool) (F : Nat) (ih : RunGood env pool F) (k : Nat)
    (d : FunDecl) (ths : List (Code × Ty))
    (hths : ∀ p ∈ ths, ∃ i, i < k ∧ pool[i]? = some (.thunk p.1 p.2)) :
    GoodM (tsz pool k ≤ F) (callLazy F env pool d ths) := by
  unfold callLazy
  split
  · apply goodM_bind (goodM_emit _)
    intro _
    exact forceAll_good env pool hpool F ih k ths hths _ _
  · split
    · rename_i c rc t rt f rf _
      have hc := hths (c, rc) (by simp)
      have ht := hths (t, rt) (by simp)
      have hf := hths (f, rf) (by simp)
      apply goodM_bind (run_thunk env pool hpool F ih k _ _ hc)
      intro v
      split
      · exact run_thunk env pool hpool F ih k _ _ ht
      · exact run_thunk env pool hpool F ih k _ _ hf
      · exact goodM_fail (by simp [Bad, BadStuck])
    · exact goodM_fail (by simp [Bad, BadStuck])
  · exact goodM_fail (by simp [Bad, BadStuck])

theorem run_step (hpool : ThunksOK pool) (F : Nat) (ih : RunGood env pool F) : RunGood env pool (F+1) := by
  intro k c pc st hk hlab hst
  obtain ⟨ins, next, σ', hdec, hstep, hret, hjmp, hif, hnext⟩ := lab_step hlab
  obtain ⟨pops, pushes, heff, hpops, hkind, hσ'⟩ := stepA_some hstep
  have hnx := decodeAt_next hdec
  have hgo : ∀ pc' st', pc < pc' → Lab (pool.extract 0 k) c pc' (kinds st') → StackOK pool k st' →
      GoodM (Enough pool k c pc (F+1)) (run F env pool c pc' st') := by
    intro pc' st' hlt hl hs
    refine (ih k c pc' st' hk hl hs).mono ?_
    unfold Enough; omega
  subst hσ'
  unfold run
  simp only [hdec]
  split
  case h_1 =>
    simp only [effect, Option.some.injEq, Prod.mk.injEq] at heff
    obtain ⟨rfl, rfl⟩ := heff
    obtain ⟨v, hv⟩ := popVal_drop (i := 0) (Nat.lt_succ_self 0) hpops hkind
    simp only [List.drop_zero] at hv
    rw [hv, pure_bind']
    exact goodM_pure _
  case h_2 =>
    simp only [effect, Option.some.injEq, Prod.mk.injEq] at heff
    obtain ⟨rfl, rfl⟩ := heff
    exact hgo next st hnx.1 (by simpa using hnext (by simp) (by simp)) hst
  case h_3 =>
    simp only [effect, Option.some.injEq, Prod.mk.injEq] at heff
    obtain ⟨rfl, rfl⟩ := heff
    have hcont : ∀ x : Val, GoodM (Enough pool k c pc (F+1)) (run F env pool c next (.val x :: st.drop 1)) :=
      fun x => hgo next _ hnx.1 (by simpa [kinds, isThunk, pushKind, List.map_drop] using hnext (by simp) (by simp))
        ((hst.drop _).push_val _)
    obtain ⟨v, hv⟩ := popVal_drop (i := 0) (by omega : 0 < 1) hpops hkind
    simp only [List.drop_zero] at hv
    rw [hv, pure_bind']
    simp only
    repeat' split
    all_goals first | exact hcont _ | exact goodM_fail (by simp [Bad, BadStuck])
  case h_4 =>
    simp only [effect, Option.some.injEq, Prod.mk.injEq] at heff
    obtain ⟨rfl, rfl⟩ := heff
    have hcont : ∀ x : Val, GoodM (Enough pool k c pc (F+1)) (run F env pool c next (.val x :: st.drop 2)) :=
      fun x => hgo next _ hnx.1 (by simpa [kinds, isThunk, pushKind, List.map_drop] using hnext (by simp) (by simp))
        ((hst.drop _).push_val _)
    obtain ⟨v, hv⟩ := popVal_drop (i := 0) (by omega : 0 < 2) hpops hkind
    obtain ⟨w, hw⟩ := popVal_drop (i := 1) (by omega : 1 < 2) hpops hkind
    simp only [List.drop_zero] at hv
    rw [hv, pure_bind']
    simp only
    rw [hw, pure_bind']
    simp only
    repeat' split
    all_goals first | exact hcont _ | exact goodM_fail (by simp [Bad, BadStuck]) | exact goodM_fail (by simp [Bad])
  case h_5 =>
    simp only [effect, Option.some.injEq, Prod.mk.injEq] at heff
    obtain ⟨rfl, rfl⟩ := heff
    have hcont : ∀ x : Val, GoodM (Enough pool k c pc (F+1)) (run F env pool c next (.val x :: st.drop 2)) :=
      fun x => hgo next _ hnx.1 (by simpa [kinds, isThunk, pushKind, List.map_drop] using hnext (by simp) (by simp))
        ((hst.drop _).push_val _)
    obtain ⟨v, hv⟩ := popVal_drop (i := 0) (by omega : 0 < 2) hpops hkind
    obtain ⟨w, hw⟩ := popVal_drop (i := 1) (by omega : 1 < 2) hpops hkind
    simp only [List.drop_zero] at hv
    rw [hv, pure_bind']
    simp only
    rw [hw, pure_bind']
    simp only
    repeat' split
    all_goals first | exact hcont _ | exact goodM_fail (by simp [Bad, BadStuck]) | exact goodM_fail (by simp [Bad])
  case h_6 =>
    rename_i op h1 h2 h3 h4 h5
    rw [effect.eq_6 _ _ h1 h2 h3 h4 h5] at heff
    cases hb : op.builtin? with
    | none => simp [hb] at heff
    | some ba =>
      obtain ⟨bid, arity⟩ := ba
      simp only [hb, Option.map_some, Option.some.injEq, Prod.mk.injEq] at heff
      obtain ⟨rfl, rfl⟩ := heff
      have hcont : ∀ x : Val, GoodM (Enough pool k c pc (F+1)) (run F env pool c next (.val x :: st.drop arity)) :=
        fun x => hgo next _ hnx.1 (by simpa [kinds, isThunk, pushKind, List.map_drop] using hnext (by simpa using h1) (by simp))
          ((hst.drop _).push_val _)
      obtain ⟨vs, hvs⟩ := popN_ok arity st [] hpops (by simpa [popKind] using hkind)
      simp only
      rw [hvs, pure_bind']
      apply goodM_bind goodM_lift_applyBuiltin; intro a
      apply goodM_bind (goodM_emitAll _); intro _
      exact hcont _
  case h_7 =>
    rename_i i
    have hl := hnext (by simp) (by simp)
    simp only [effect] at heff
    split at heff
    · rename_i v hp
      have hp' := extract_getElem? hp
      simp only [Option.some.injEq, Prod.mk.injEq] at heff
      obtain ⟨rfl, rfl⟩ := heff
      simp only [hp'.2]
      exact hgo next _ hnx.1 (by simpa [kinds, isThunk, pushKind, hp] using hl) (hst.push_val _)
    · rename_i b r hp
      have hp' := extract_getElem? hp
      simp only [Option.some.injEq, Prod.mk.injEq] at heff
      obtain ⟨rfl, rfl⟩ := heff
      simp only [hp'.2]
      refine hgo next _ hnx.1 (by simpa [kinds, isThunk, pushKind, hp] using hl) ?_
      intro b' r' hm
      rcases List.mem_cons.mp hm with h | h
      · cases h; exact ⟨i, hp'.1, hp'.2⟩
      · exact hst b' r' h
    · simp at heff
  case h_8 =>
    rename_i i
    have hl := hnext (by simp) (by simp)
    simp only [effect] at heff
    split at heff
    · rename_i x hp
      have hp' := extract_getElem? hp
      simp only [Option.some.injEq, Prod.mk.injEq] at heff
      obtain ⟨rfl, rfl⟩ := heff
      simp only [hp'.2]
      exact hgo next _ hnx.1 (by simpa [kinds, isThunk, pushKind] using hl) (hst.push_val _)
    · simp at heff
  case h_9 =>
    rename_i i
    have hl := hnext (by simp) (by simp)
    simp only [effect] at heff
    split at heff
    · rename_i fs hp
      have hp' := extract_getElem? hp
      simp only [Option.some.injEq, Prod.mk.injEq] at heff
      obtain ⟨rfl, rfl⟩ := heff
      simp only [hp'.2]
      obtain ⟨vs, hvs⟩ := popN_ok fs.length st [] hpops (by simpa [popKind] using hkind)
      rw [hvs, pure_bind']
      exact hgo next _ hnx.1 (by simpa [kinds, isThunk, pushKind, List.map_drop] using hl)
        ((hst.drop _).push_val _)
    · simp at heff
  case h_10 =>
    rename_i i
    have hl := hnext (by simp) (by simp)
    simp only [effect] at heff
    split at heff
    · rename_i x hp
      have hp' := extract_getElem? hp
      simp only [Option.some.injEq, Prod.mk.injEq] at heff
      obtain ⟨rfl, rfl⟩ := heff
      simp only [hp'.2]
      have hcont : ∀ x : Val, GoodM (Enough pool k c pc (F+1)) (run F env pool c next (.val x :: st.drop 1)) :=
        fun x => hgo next _ hnx.1 (by simpa [kinds, isThunk, pushKind, List.map_drop] using hl)
          ((hst.drop _).push_val _)
      obtain ⟨v, hv⟩ := popVal_drop (i := 0) (by omega : 0 < 1) hpops hkind
      simp only [List.drop_zero] at hv
      rw [hv, pure_bind']
      simp only
      repeat' split
      all_goals first | exact hcont _ | exact goodM_fail (by simp [Bad, BadStuck])
    · simp at heff
  case h_11 =>
    rename_i op idx h1 h2 h3 h4
    rw [effect.eq_11 _ _ _ h1 h2 h3 h4] at heff
    simp at heff
  case h_12 =>
    rename_i i n
    have hl := hnext (by simp) (by simp)
    simp only [effect] at heff
    split at heff
    · rename_i t hp
      have hp' := extract_getElem? hp
      simp only [Option.some.injEq, Prod.mk.injEq] at heff
      obtain ⟨rfl, rfl⟩ := heff
      simp only [hp'.2]
      obtain ⟨vs, hvs⟩ := popN_ok n st [] hpops (by simpa [popKind] using hkind)
      rw [hvs, pure_bind']
      exact hgo next _ hnx.1 (by simpa [kinds, isThunk, pushKind, List.map_drop] using hl)
        ((hst.drop _).push_val _)
    · simp at heff
  case h_13 =>
    rename_i i n
    have hl := hnext (by simp) (by simp)
    simp only [effect] at heff
    split at heff
    · rename_i t1 t2 hp
      have hp' := extract_getElem? hp
      simp only [Option.some.injEq, Prod.mk.injEq] at heff
      obtain ⟨rfl, rfl⟩ := heff
      simp only [hp'.2]
      obtain ⟨vs, hvs⟩ := popN_ok (2 * n) st [] hpops (by simpa [popKind] using hkind)
      rw [hvs, pure_bind']
      apply goodM_bind (goodM_mapOfPairs _ _ _); intro es
      exact hgo next _ hnx.1 (by simpa [kinds, isThunk, pushKind, List.map_drop] using hl)
        ((hst.drop _).push_val _)
    · simp at heff
  case h_14 =>
    rename_i op idx n h1 h2
    rw [effect.eq_14 _ _ _ _ h1 h2] at heff
    simp at heff
  case h_15 =>
    rename_i t
    simp only [effect, Option.some.injEq, Prod.mk.injEq] at heff
    obtain ⟨rfl, rfl⟩ := heff
    have hj := hjmp t rfl
    exact hgo t st hj.1 (by simpa using hj.2) hst
  case h_16 =>
    rename_i t
    simp only [effect, Option.some.injEq, Prod.mk.injEq] at heff
    obtain ⟨rfl, rfl⟩ := heff
    have hj := hif t rfl
    have hl := hnext (by simp) (by simp)
    obtain ⟨v, hv⟩ := popVal_drop (i := 0) (by omega : 0 < 1) hpops hkind
    simp only [List.drop_zero] at hv
    rw [hv, pure_bind']
    simp only
    split
    · exact hgo next _ hnx.1 (by simpa [kinds, List.map_drop] using hl) (hst.drop _)
    · exact hgo t _ hj.1 (by simpa [kinds, List.map_drop] using hj.2) (hst.drop _)
    · exact goodM_fail (by simp [Bad, BadStuck])
  case h_17 =>
    rename_i op t h1 h2
    rw [effect.eq_17 _ _ _ h1 h2] at heff
    simp at heff
  case h_18 =>
    rename_i i argc
    have hl := hnext (by simp) (by simp)
    simp only [effect] at heff
    split at heff
    · rename_i d hp
      have hp' := extract_getElem? hp
      split at heff
      · simp at heff
      · simp only [Option.some.injEq, Prod.mk.injEq] at heff
        obtain ⟨rfl, rfl⟩ := heff
        simp only [hp'.2]
        obtain ⟨vs, hvs⟩ := popN_ok argc st [] hpops (by simpa [popKind] using hkind)
        rw [hvs, pure_bind']
        apply goodM_bind (goodM_callStrict _ _ _); intro v
        exact hgo next _ hnx.1 (by simpa [kinds, isThunk, pushKind, List.map_drop] using hl)
          ((hst.drop _).push_val _)
    · simp at heff
  case h_19 =>
    rename_i i argc
    have hl := hnext (by simp) (by simp)
    simp only [effect] at heff
    split at heff
    · rename_i d hp
      have hp' := extract_getElem? hp
      split at heff
      · simp only [Option.some.injEq, Prod.mk.injEq] at heff
        obtain ⟨rfl, rfl⟩ := heff
        simp only [hp'.2]
        obtain ⟨ths, hths, hmem⟩ := popThunks_ok argc st [] hpops (by simpa [popKind] using hkind)
        rw [hths, pure_bind']
        have hths' : ∀ p ∈ ths, ∃ i, i < k ∧ pool[i]? = some (.thunk p.1 p.2) := by
          intro p hp
          rcases hmem p hp with h | h
          · simp at h
          · exact hst _ _ h
        apply goodM_bind
        · refine (callLazy_good env pool hpool F ih k d ths hths').mono ?_
          unfold Enough; omega
        intro v
        exact hgo next _ hnx.1 (by simpa [kinds, isThunk, pushKind, List.map_drop] using hl)
          ((hst.drop _).push_val _)
      · simp at heff
    · simp at heff
  case h_20 =>
    rename_i op idx argc h1 h2
    rw [effect.eq_20 _ _ _ _ h1 h2] at heff
    simp at heff
  case h_21 =>
    rename_i argc
    have hl := hnext (by simp) (by simp)
    simp only [effect, Option.some.injEq, Prod.mk.injEq] at heff
    obtain ⟨rfl, rfl⟩ := heff
    have hkind' : ((kinds st).take (argc+1)).all (· == false) = true := by simpa [popKind] using hkind
    obtain ⟨vs, hvs⟩ := popN_ok argc st [] (by omega) (all_take_le (Nat.le_succ _) hkind')
    rw [hvs, pure_bind']
    simp only
    obtain ⟨f, hf⟩ := popVal_drop (i := argc) (Nat.lt_succ_self _) hpops hkind'
    rw [hf, pure_bind']
    simp only
    split
    · split
      · exact goodM_fail (by simp [Bad, BadStuck])
      · apply goodM_bind (goodM_callStrict _ _ _); intro v
        exact hgo next _ hnx.1 (by simpa [kinds, isThunk, pushKind, List.map_drop] using hl)
          ((hst.drop _).push_val _)
    · exact goodM_fail (by simp [Bad, BadStuck])

theorem run_good (hpool : ThunksOK pool) : ∀ F, RunGood env pool F
  | 0 => by
    intro k c pc st _ hlab _
    obtain ⟨ins, next, σ', hdec, _⟩ := lab_step hlab
    have := decodeAt_next hdec
    unfold run
    exact goodM_fail (by simp only [Bad, Enough]; omega)
  | F+1 => run_step env pool hpool F (run_good hpool F)

end machine

theorem verify_iff {code : Code} {pool : Pool} :
    verify code pool = true ↔ verifyUnit pool code = true ∧ ThunksOK pool := by
  unfold verify ThunksOK
  rw [Bool.and_eq_true, List.all_eq_true]
  constructor
  · rintro ⟨h1, h2⟩
    refine ⟨h1, fun i b r hp => ?_⟩
    have hi := (Array.getElem?_eq_some_iff.mp hp).1
    have := h2 i (List.mem_range.mpr hi)
    simpa [hp] using this
  · rintro ⟨h1, h2⟩
    refine ⟨h1, fun i _ => ?_⟩
    split
    · rename_i b r hp; exact h2 i b r hp
    · rfl

theorem tsz_eq_foldl (pool : Pool) (k : Nat) :
    tsz pool k = (pool.toList.take k).foldl
      (fun n c => match c with | .thunk b _ => n + b.size | _ => n) 0 := by
  induction k with
  | zero => simp [tsz]
  | succ k ih =>
    rw [List.take_add_one, List.foldl_append, ← ih]
    simp only [tsz, Array.getElem?_toList]
    cases h : pool[k]? with
    | none => simp
    | some c => cases c <;> simp

theorem totalCodeSize_eq (code : Code) (pool : Pool) :
    totalCodeSize code pool = code.size + tsz pool pool.size := by
  unfold totalCodeSize
  have : List.take pool.size pool.toList = pool.toList := by
    rw [← Array.length_toList]; exact List.take_length
  rw [tsz_eq_foldl, this, Array.foldl_toList]
  rfl

/-- main soundness statement, in terms of `Good` -/
theorem verify_good {code : Code} {pool : Pool} (h : verify code pool = true) (env : REnv)
    (fuel : Nat) (log : List Event) :
    Good (totalCodeSize code pool ≤ fuel) (run fuel env pool code 0 [] log) := by
  obtain ⟨hu, hp⟩ := verify_iff.mp h
  have hlab : Lab (pool.extract 0 pool.size) code 0 (kinds []) := by
    simpa [kinds] using lab_of_verifyUnit hu
  have := run_good env pool hp fuel pool.size code 0 [] (Nat.le_refl _) hlab StackOK.nil log
  refine this.mono ?_
  rw [totalCodeSize_eq]
  unfold Enough; omega

/-- the same for the body of a deferred argument, run on its own -/
theorem verify_good_thunk {code : Code} {pool : Pool} (h : verify code pool = true) (env : REnv)
    {i : Nat} {b : Code} {r : Ty} (hb : pool[i]? = some (.thunk b r))
    (fuel : Nat) (log : List Event) :
    Good (b.size + tsz pool i ≤ fuel) (run fuel env pool b 0 [] log) := by
  obtain ⟨_, hp⟩ := verify_iff.mp h
  have hi : i ≤ pool.size := Nat.le_of_lt (Array.getElem?_eq_some_iff.mp hb).1
  have := run_good env pool hp fuel i b 0 [] hi (lab_of_verifyUnit (hp i b r hb)) StackOK.nil log
  refine this.mono ?_
  unfold Enough; omega

/-! ### towards `compile_verified`: the verifier pass, equationally

Building blocks for showing that the compiler's output verifies (not used by the theorems
above): one step of `verifyFrom` at an offset no pending jump targets, for each of the three
shapes of instruction, the absorption of promises at the current offset, fuel monotonicity,
and the round trip of the opcode encoding. -/

theorem mergeAt_fresh {pc : Nat} {σ : AStack} {pending : List (Nat × AStack)}
    (h : ∀ p ∈ pending, p.1 ≠ pc) : mergeAt pc (some σ) pending = some σ := by
  unfold mergeAt
  simp only
  rw [if_pos]
  rw [List.all_eq_true]
  intro p hp
  simp [h p hp]

theorem filter_fresh {pc : Nat} {pending : List (Nat × AStack)}
    (h : ∀ p ∈ pending, p.1 ≠ pc) : pending.filter (·.1 != pc) = pending := by
  rw [List.filter_eq_self]
  intro p hp
  simp [h p hp]

/-- a step over an instruction that is neither `RETURN` nor a jump -/
theorem verifyFrom_plain {pool : Pool} {code : Code} {pc next fuel : Nat} {ins : Instr}
    {σ σ' : AStack} {pending : List (Nat × AStack)}
    (hdec : decodeAt code pc = some (ins, next)) (hstep : stepA pool ins σ = some σ')
    (hr : ins ≠ .simple .RETURN) (hj : ∀ op t, ins ≠ .jump op t)
    (hfresh : ∀ p ∈ pending, p.1 ≠ pc) :
    verifyFrom (fuel+1) pool code pc (some σ) pending =
      (decide (next < code.size) && verifyFrom fuel pool code next (some σ') pending) := by
  rw [verifyFrom]
  simp only [mergeAt_fresh hfresh, hdec, hstep, filter_fresh hfresh]
  split
  · exact absurd rfl hr
  · exact absurd rfl (hj _ _)
  · exact absurd rfl (hj _ _)
  · rfl

/-- a step over `IF_TRUE t` -/
theorem verifyFrom_if {pool : Pool} {code : Code} {pc next t fuel : Nat}
    {σ σ' : AStack} {pending : List (Nat × AStack)}
    (hdec : decodeAt code pc = some (.jump .IF_TRUE t, next))
    (hstep : stepA pool (.jump .IF_TRUE t) σ = some σ')
    (hfresh : ∀ p ∈ pending, p.1 ≠ pc) :
    verifyFrom (fuel+1) pool code pc (some σ) pending =
      (decide (pc < t) && decide (t < code.size) && decide (next < code.size)
        && verifyFrom fuel pool code next (some σ') ((t, σ') :: pending)) := by
  rw [verifyFrom]
  simp only [mergeAt_fresh hfresh, hdec, hstep, filter_fresh hfresh]

/-- a step over `JUMP t` -/
theorem verifyFrom_jump {pool : Pool} {code : Code} {pc next t fuel : Nat}
    {σ σ' : AStack} {pending : List (Nat × AStack)}
    (hdec : decodeAt code pc = some (.jump .JUMP t, next))
    (hstep : stepA pool (.jump .JUMP t) σ = some σ')
    (hfresh : ∀ p ∈ pending, p.1 ≠ pc) :
    verifyFrom (fuel+1) pool code pc (some σ) pending =
      (decide (pc < t) && decide (t < code.size) && decide (next < code.size)
        && verifyFrom fuel pool code next none ((t, σ') :: pending)) := by
  rw [verifyFrom]
  simp only [mergeAt_fresh hfresh, hdec, hstep, filter_fresh hfresh]

/-- the final `RETURN` -/
theorem verifyFrom_return {pool : Pool} {code : Code} {pc fuel : Nat}
    (hdec : decodeAt code pc = some (.simple .RETURN, code.size)) :
    verifyFrom (fuel+1) pool code pc (some [false]) [] = true := by
  rw [verifyFrom]
  have : stepA pool (.simple .RETURN) [false] = some [] := by simp [stepA, effect, popKind]
  simp [mergeAt, hdec, this]

/-- a promise for the current offset that agrees with the fall-through state is absorbed -/
theorem verifyFrom_absorb {pool : Pool} {code : Code} {pc fuel : Nat} {σ : AStack}
    {pending : List (Nat × AStack)} :
    verifyFrom fuel pool code pc (some σ) ((pc, σ) :: pending) =
      verifyFrom fuel pool code pc (some σ) pending := by
  cases fuel with
  | zero => simp [verifyFrom]
  | succ fuel =>
    rw [verifyFrom, verifyFrom]
    have h1 : mergeAt pc (some σ) ((pc, σ) :: pending) = mergeAt pc (some σ) pending := by
      have hall : (((pc, σ) :: pending).all fun p => p.1 != pc || p.2 == σ) =
          (pending.all fun p => p.1 != pc || p.2 == σ) := by simp
      unfold mergeAt
      simp only [hall]
    have h2 : ((pc, σ) :: pending).filter (·.1 != pc) = pending.filter (·.1 != pc) := by
      simp
    rw [h1, h2]

/-- after a `JUMP`, the promise for the current offset becomes the state -/
theorem verifyFrom_land {pool : Pool} {code : Code} {pc fuel : Nat} {σ : AStack}
    {pending : List (Nat × AStack)} (hfresh : ∀ p ∈ pending, p.1 ≠ pc) :
    verifyFrom fuel pool code pc none ((pc, σ) :: pending) =
      verifyFrom fuel pool code pc (some σ) pending := by
  cases fuel with
  | zero => simp [verifyFrom]
  | succ fuel =>
    rw [verifyFrom, verifyFrom]
    have h1 : mergeAt pc none ((pc, σ) :: pending) = some σ := by
      have : pending.all (fun q => q.1 != pc || q.2 == σ) = true := by
        rw [List.all_eq_true]; intro p hp; simp [hfresh p hp]
      simp [mergeAt, this]
    have h2 : ((pc, σ) :: pending).filter (·.1 != pc) = pending.filter (·.1 != pc) := by
      simp
    rw [h1, h2, mergeAt_fresh hfresh]

theorem verifyFrom_fuel_succ {pool : Pool} {code : Code} : ∀ (fuel pc : Nat) (cur : Option AStack)
    (pending : List (Nat × AStack)), verifyFrom fuel pool code pc cur pending = true →
    verifyFrom (fuel+1) pool code pc cur pending = true := by
  intro fuel
  induction fuel with
  | zero => intro pc cur pending h; simp [verifyFrom] at h
  | succ fuel ih =>
    intro pc cur pending h
    rw [verifyFrom] at h ⊢
    cases hm : mergeAt pc cur pending with
    | none => simp [hm] at h
    | some σ =>
      simp only [hm] at h ⊢
      cases hdec : decodeAt code pc with
      | none => simp [hdec] at h
      | some r =>
        obtain ⟨ins, next⟩ := r
        simp only [hdec] at h ⊢
        cases hstep : stepA pool ins σ with
        | none => simp [hstep] at h
        | some σ' =>
          simp only [hstep] at h ⊢
          split
          · simpa using h
          · simp only [Bool.and_eq_true] at h ⊢
            exact ⟨h.1, ih _ _ _ h.2⟩
          · simp only [Bool.and_eq_true] at h ⊢
            exact ⟨h.1, ih _ _ _ h.2⟩
          · rename_i h1 h2 h3
            simp only [Bool.and_eq_true] at h ⊢
            exact ⟨h.1, ih _ _ _ h.2⟩

theorem verifyFrom_fuel_le {pool : Pool} {code : Code} {fuel fuel' pc : Nat} {cur : Option AStack}
    {pending : List (Nat × AStack)} (hle : fuel ≤ fuel')
    (h : verifyFrom fuel pool code pc cur pending = true) :
    verifyFrom fuel' pool code pc cur pending = true := by
  induction hle with
  | refl => exact h
  | step _ ih => exact verifyFrom_fuel_succ _ _ _ _ ih

/-- the opcode byte decodes to the opcode -/
theorem ofCode_code (o : Op) : Op.ofCode (UInt8.ofNat o.code).toNat = some o := by
  cases o <;> rfl

end Yae.VmVerify
