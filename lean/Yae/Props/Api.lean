/-
  API-LEVEL SOUNDNESS, FOR EVERY HISTORY.

  C01 (type soundness), C02 (progress / failure discipline), C07 (environment check) and C12
  (totality of the pipeline) are stated for ONE compilation and ONE run of a tree against the
  environment it was checked in.  Here they are composed THROUGH THE ENGINE OBJECT of `facade.go`
  (`Yae/Model/Engine.lean`: `Engine`, `Callable`, `Op`, `Engine.run`), for EVERY history of API
  calls — registrations, settings, compilations and invocations of the history's own Callables, in
  any order and number — on a fresh engine (`Engine.new`; `…_from`: any engine whose table is
  `FunsOK`).  Proofs: `Yae/Proofs/ApiHistory.lean` (histories from the left, the invariant),
  `ApiSound.lean` (one invocation, one compilation), `ApiWitness.lean` (the witness, corollaries),
  `ApiRebind.lean` (the refinement: re-registration with the same type).

  ## The theorems

  * `api_sound`.  HYPOTHESES, each about the calls of the history only:
      `hreg`   every function handed to `RegisterFun` that has a function type (the others are
               refused by `RegisterFun`: `Engine.registerFun`) respects its signature
               (`Sound.declOK`, a Bool: well-formed signature, variable names that cannot collide
               with the checker's fresh ones, the host behaviour returns what the signature says).
               Needed: C01/C02 are false for a host function that returns something else.
      `htenv`  every compile-time environment holds well-formed, variable-free types
               (what `conv.TypeEnvOf` produces).  Needed by `check_ann` (C01).
      `hvenv`  every run-time environment handed to an invocation holds well-formed values
               (`Sound.WF`; C15: what `conv.ValEnvOf` produces).  Needed: `envCheck` compares the
               value's OWN type only, it does not look inside.
      `hlate`  `LateOK`, see below.
    CONCLUSION, for every `invoke k venv ext` at step `i` with output `out`:
      (a) `out = noCallable`, and step `k` is not an earlier successful compilation; or
      step `k < i` is a `compile … tenv …` that returned the Callable `c`, `c.tenv = tenv`, and
      (b) the environment check refuses, `out` is that error and the event log is EMPTY
          (`api_env_refusal_iff`: exactly when a compile-time name is missing at run time or
          bound to a value of another type), or the check accepts and
      (c) `out` is a value `v` with `HasTy v c.ty` — `c.ty` is the type inferred at compile time
          (`C13.callable_records`) —, or
      (d) `out` is a failure `f` with `Allowed f`: a documented partial-operation failure, a host
          function failing on purpose, a miss of the model's extern table; never `.fuel`, never
          another `.stuck` (`C02.allowed_iff`).
    Every compiler (`vm`, `closure`, `closureDebug`, `interp`) and every `useCompiler` /
    `useBuiltIn` / `registerOperator` in between is covered.

  * THE SUBTLETY: LATE BINDING.  `Engine.invoke` runs the tree against `tableFor e c`: for
    `interp.Interp` this is the engine's table AT THE TIME OF THE INVOCATION, not the table the
    tree was checked against.  The table only grows by appending, so the engine's table is
    `c.funs ++ regsBetween ops k i` (part of the invariant `Api.Inv`), and a statically resolved
    call changes its meaning exactly when it is MONOMORPHIC and its key is registered again
    (`C13.append_keeps_resolution`).  `LateOK ops`: for every invocation (step `i`) of a Callable
    (step `k`) compiled by a late-binding compiler, the functions registered strictly between
    `k` and `i` register no monomorphic key a call of the Callable's tree was resolved to
    (`EngineCheck.NoMonoClash`).  Under it the invocation is the invocation on the engine as the
    compilation left it (`C13.callable_stable_under_append`).
    - `late_binding_breaks_soundness`: the condition CANNOT BE DROPPED.  `Api.histBad` — select
      `interp.Interp`, compile `!true` (inferred type `bool`), register the respectful host
      function `!(bool) : str`, invoke — satisfies `hreg`, `htenv`, `hvenv`, and the invocation
      returns the STRING `"oops"`, which is not `HasTy … bool`: conclusion (c) fails (and (a),
      (b), (d) too).  Kernel-checked, no `native_decide`.
    - Purely syntactic sufficient conditions: `api_sound_early` (the history never selects
      `interp.Interp`: NO hypothesis on late binding), `api_sound_poly` (only polymorphic functions
      are registered).

  * `api_sound_same_type`: THE REFINEMENT.  The same conclusion under the weaker `LateTyOK`: a
    monomorphic key that a call of a late-binding Callable's tree was resolved to MAY be
    registered again, provided the function registered last under it has the SAME TYPE as the
    one the tree was checked against (`Api.SameTyClash`; `NoMonoClash` is the special case
    "not registered again": `LateOK.lateTyOK`).  Then the RESULT of the Callable may change
    (`C13.late_binding_depends_on_compiler`: `!true` becomes `true`), its SOUNDNESS does not:
    the annotation `Ann` of the tree transfers to the grown table (`Api.ann_transfer`) and
    C01/C02 apply there.  `api_sound` is the corollary for `LateOK`.

  * `api_compile_reports`: every `compile` of a history returns a Callable (for the `tenv` given)
    or a REPORTED error (`C12.reported`: the syntax error, a type error, the model-only
    `externMiss`; never lexer/parser/unifier `fuel`, never the desugarer's `Unreachable`).
    Hypotheses (`C12.compile_total` needs them): registered operators have a kind other than
    `""`, `<END-OF-FILE>` and the literal kinds; registered function types satisfy
    `PolyOK.declOK`; compile-time variable types are `TyOK` (no function types: the checker's
    `SigEnv`).

  ## NOT proved here

  * `LateTyOK` (`api_sound_same_type`) is SUFFICIENT, and necessary in the sense of the witness
    (`histBad_not_lateTyOK`), but it is still not the weakest condition: a monomorphic key
    re-registered with ANOTHER type is harmless when the call is never reached (a lazy branch)
    or when the two return types differ only up to `types.Equals` (field order of objects);
    no syntactic condition on the history captures the former, the latter is not proved.
  * `invokeC` (a Callable obtained anywhere, e.g. from another engine) is outside `api_sound`:
    nothing is known about such a Callable.  The theorems allow such steps in the history and say
    nothing about their outputs.
  * The model's limits are those of `Engine.lean`: user translators, the debug writer and
    function tables of the environments themselves are not modelled; the back ends are tied to
    the reference evaluator elsewhere (C03, C19).
-/
import Yae.Proofs.ApiWitness
import Yae.Proofs.ApiRebind
namespace Yae.ApiProps
open Yae Yae.Facade Yae.Api Yae.EngineCheck

/-- from the hypotheses as stated here to `Api.OpsOK` -/
theorem opsOK_of {ops : List Op}
    (hreg : ∀ d, Op.registerFun d ∈ ops → (∃ n ps r, d.ty = .fn n ps r) → Sound.declOK d = true)
    (htenv : ∀ times tenv src, Op.compile times tenv src ∈ ops →
      ∀ p ∈ tenv, p.2.wf = true ∧ slotFree p.2 = true) : OpsOK ops := by
  intro op hop
  cases op with
  | registerFun d => exact hreg d hop
  | compile times tenv src => exact htenv times tenv src hop
  | _ => trivial

/-- **API-level soundness for every history**, from any engine whose table respects its
signatures. -/
theorem api_sound_from {e : Engine} (he : Sound.FunsOK e.funs) (ops : List Op)
    (hreg : ∀ d, Op.registerFun d ∈ ops → (∃ n ps r, d.ty = .fn n ps r) → Sound.declOK d = true)
    (htenv : ∀ times tenv src, Op.compile times tenv src ∈ ops →
      ∀ p ∈ tenv, p.2.wf = true ∧ slotFree p.2 = true)
    (hvenv : ∀ k venv ext, Op.invoke k venv ext ∈ ops → ∀ p ∈ venv, Sound.WF p.2 = true)
    (hlate : LateOK e ops)
    {i k : Nat} {venv : List (String × Val)} {ext : Externs} {out : Out}
    (hop : ops[i]? = some (.invoke k venv ext)) (hout : (e.run ops).2[i]? = some out) :
    -- (a)
    (out = .noCallable ∧ ∀ c, k < i → (e.run ops).2[k]? ≠ some (.compiled (.ok c))) ∨
    ∃ c, k < i ∧ (e.run ops).2[k]? = some (.compiled (.ok c)) ∧
      (∃ times src, ops[k]? = some (.compile times c.tenv src)) ∧
      -- (b)
      ((∃ err, envCheck c.tenv venv = .error err ∧ out = .result (.error (.env err), [])) ∨
       (envCheck c.tenv venv = .ok () ∧
          -- (c)
         ((∃ v evs, out = .result (.ok v, evs) ∧ Sound.HasTy v c.ty) ∨
          -- (d)
          (∃ f evs, out = .result (.error (.fail f), evs) ∧ Sound.Allowed f)))) := by
  rcases invoke_out_ok he (opsOK_of hreg htenv) hvenv hlate hop hout with h | ⟨c, hk, hc, hsrc, r, hr, hok⟩
  · exact .inl h
  · refine .inr ⟨c, hk, hc, hsrc, ?_⟩
    subst hr
    rcases hok with ⟨err, he, hr⟩ | ⟨hacc, ⟨v, evs, hr, hv⟩ | ⟨f, evs, hr, hf⟩⟩
    · exact .inl ⟨err, he, by rw [hr]⟩
    · exact .inr ⟨hacc, .inl ⟨v, evs, by rw [hr], hv⟩⟩
    · exact .inr ⟨hacc, .inr ⟨f, evs, by rw [hr], hf⟩⟩

theorem funsOK_new : Sound.FunsOK Engine.new.funs := fun d hd => by cases hd

/-- **API-level soundness for every history on a fresh engine.** -/
theorem api_sound (ops : List Op)
    (hreg : ∀ d, Op.registerFun d ∈ ops → (∃ n ps r, d.ty = .fn n ps r) → Sound.declOK d = true)
    (htenv : ∀ times tenv src, Op.compile times tenv src ∈ ops →
      ∀ p ∈ tenv, p.2.wf = true ∧ slotFree p.2 = true)
    (hvenv : ∀ k venv ext, Op.invoke k venv ext ∈ ops → ∀ p ∈ venv, Sound.WF p.2 = true)
    (hlate : LateOK Engine.new ops)
    {i k : Nat} {venv : List (String × Val)} {ext : Externs} {out : Out}
    (hop : ops[i]? = some (.invoke k venv ext)) (hout : (Engine.new.run ops).2[i]? = some out) :
    (out = .noCallable ∧ ∀ c, k < i → (Engine.new.run ops).2[k]? ≠ some (.compiled (.ok c))) ∨
    ∃ c, k < i ∧ (Engine.new.run ops).2[k]? = some (.compiled (.ok c)) ∧
      (∃ times src, ops[k]? = some (.compile times c.tenv src)) ∧
      ((∃ err, envCheck c.tenv venv = .error err ∧ out = .result (.error (.env err), [])) ∨
       (envCheck c.tenv venv = .ok () ∧
         ((∃ v evs, out = .result (.ok v, evs) ∧ Sound.HasTy v c.ty) ∨
          (∃ f evs, out = .result (.error (.fail f), evs) ∧ Sound.Allowed f)))) :=
  api_sound_from funsOK_new ops hreg htenv hvenv hlate hop hout

/-- `LateOK`, spelled out -/
theorem lateOK_iff (e : Engine) (ops : List Op) : LateOK e ops ↔
    ∀ i k venv ext c, ops[i]? = some (.invoke k venv ext) → k < i →
      (e.run ops).2[k]? = some (.compiled (.ok c)) → c.backend.late = true →
      NoMonoClash (regs ((ops.take i).drop (k+1))) c.tree := Iff.rfl

/-- `LateTyOK`, spelled out: whenever a Callable compiled by a late-binding compiler is invoked,
every MONOMORPHIC call `(r, i)` (`i < 0`) of its tree whose key `r` is registered between the
compilation and the invocation is registered (last) with the type `r` has in the Callable's own
table. -/
theorem lateTyOK_iff (e : Engine) (ops : List Op) : LateTyOK e ops ↔
    ∀ i k venv ext c, ops[i]? = some (.invoke k venv ext) → k < i →
      (e.run ops).2[k]? = some (.compiled (.ok c)) → c.backend.late = true →
      EngineEval.All (fun _ => True)
        (fun r i' => i' < 0 → ∀ d', lookupMono (regs ((ops.take i).drop (k+1))) r = some d' →
          ∀ d, lookupMono c.funs r = some d → d'.ty = d.ty) True c.tree := Iff.rfl

/-- **API-level soundness under the refined condition**: a monomorphic key may be registered
again with a function of the same type. -/
theorem api_sound_same_type (ops : List Op)
    (hreg : ∀ d, Op.registerFun d ∈ ops → (∃ n ps r, d.ty = .fn n ps r) → Sound.declOK d = true)
    (htenv : ∀ times tenv src, Op.compile times tenv src ∈ ops →
      ∀ p ∈ tenv, p.2.wf = true ∧ slotFree p.2 = true)
    (hvenv : ∀ k venv ext, Op.invoke k venv ext ∈ ops → ∀ p ∈ venv, Sound.WF p.2 = true)
    (hlate : LateTyOK Engine.new ops)
    {i k : Nat} {venv : List (String × Val)} {ext : Externs} {out : Out}
    (hop : ops[i]? = some (.invoke k venv ext)) (hout : (Engine.new.run ops).2[i]? = some out) :
    (out = .noCallable ∧ ∀ c, k < i → (Engine.new.run ops).2[k]? ≠ some (.compiled (.ok c))) ∨
    ∃ c, k < i ∧ (Engine.new.run ops).2[k]? = some (.compiled (.ok c)) ∧
      (∃ times src, ops[k]? = some (.compile times c.tenv src)) ∧
      ((∃ err, envCheck c.tenv venv = .error err ∧ out = .result (.error (.env err), [])) ∨
       (envCheck c.tenv venv = .ok () ∧
         ((∃ v evs, out = .result (.ok v, evs) ∧ Sound.HasTy v c.ty) ∨
          (∃ f evs, out = .result (.error (.fail f), evs) ∧ Sound.Allowed f)))) := by
  rcases invoke_out_ok_ty funsOK_new (opsOK_of hreg htenv) hvenv hlate hop hout with
    h | ⟨c, hk, hc, hsrc, r, hr, hok⟩
  · exact .inl h
  · refine .inr ⟨c, hk, hc, hsrc, ?_⟩
    subst hr
    rcases hok with ⟨err, he, hr⟩ | ⟨hacc, ⟨v, evs, hr, hv⟩ | ⟨f, evs, hr, hf⟩⟩
    · exact .inl ⟨err, he, by rw [hr]⟩
    · exact .inr ⟨hacc, .inl ⟨v, evs, by rw [hr], hv⟩⟩
    · exact .inr ⟨hacc, .inr ⟨f, evs, by rw [hr], hf⟩⟩

/-- **(b), exactly.**  Under the hypotheses of `api_sound`, the invocation of the Callable of
step `k` ends in an environment error iff some compile-time name is missing at run time or bound
to a value of another type — and then nothing was evaluated (`api_sound` (b): the log is empty). -/
theorem api_env_refusal_iff (ops : List Op)
    (hreg : ∀ d, Op.registerFun d ∈ ops → (∃ n ps r, d.ty = .fn n ps r) → Sound.declOK d = true)
    (htenv : ∀ times tenv src, Op.compile times tenv src ∈ ops →
      ∀ p ∈ tenv, p.2.wf = true ∧ slotFree p.2 = true)
    (hvenv : ∀ k venv ext, Op.invoke k venv ext ∈ ops → ∀ p ∈ venv, Sound.WF p.2 = true)
    (hlate : LateOK Engine.new ops)
    {i k : Nat} {venv : List (String × Val)} {ext : Externs} {out : Out} {c : Callable}
    (hop : ops[i]? = some (.invoke k venv ext)) (hout : (Engine.new.run ops).2[i]? = some out)
    (hki : k < i) (hc : (Engine.new.run ops).2[k]? = some (.compiled (.ok c))) :
    (∃ err evs, out = .result (.error (.env err), evs)) ↔
      ∃ n t, (n, t) ∈ c.tenv ∧ (lookupVal venv n = none ∨
        ∃ v, lookupVal venv n = some v ∧ tyEq t v.typeOf = false) := by
  rw [← Yae.C07.reject_iff]
  rcases api_sound ops hreg htenv hvenv hlate hop hout with ⟨_, hno⟩ | ⟨c', _, hc', _, h⟩
  · exact absurd hc (hno c hki)
  · rw [hc] at hc'
    simp only [Option.some.injEq, Out.compiled.injEq, Except.ok.injEq] at hc'
    subst hc'
    rcases h with ⟨err, he, hr⟩ | ⟨hacc, ⟨v, evs, hr, _⟩ | ⟨f, evs, hr, _⟩⟩
    · exact ⟨fun _ => ⟨err, he⟩, fun _ => ⟨err, [], hr⟩⟩
    · refine ⟨fun ⟨err, evs', h⟩ => ?_, fun ⟨err, h⟩ => ?_⟩
      · rw [hr] at h; cases h
      · rw [hacc] at h; cases h
    · refine ⟨fun ⟨err, evs', h⟩ => ?_, fun ⟨err, h⟩ => ?_⟩
      · rw [hr] at h; cases h
      · rw [hacc] at h; cases h

/-! ## histories that need no hypothesis on late binding -/

/-- **No `interp.Interp` in the history** (`vm.Compile`, `closure.Compile`,
`closure.DebugCompile` only): soundness with no further condition — registrations after a
compilation, of whatever key and type, cannot disturb a Callable. -/
theorem api_sound_early (ops : List Op)
    (hreg : ∀ d, Op.registerFun d ∈ ops → (∃ n ps r, d.ty = .fn n ps r) → Sound.declOK d = true)
    (htenv : ∀ times tenv src, Op.compile times tenv src ∈ ops →
      ∀ p ∈ tenv, p.2.wf = true ∧ slotFree p.2 = true)
    (hvenv : ∀ k venv ext, Op.invoke k venv ext ∈ ops → ∀ p ∈ venv, Sound.WF p.2 = true)
    (hearly : ∀ b, Op.useCompiler b ∈ ops → b.late = false)
    {i k : Nat} {venv : List (String × Val)} {ext : Externs} {out : Out}
    (hop : ops[i]? = some (.invoke k venv ext)) (hout : (Engine.new.run ops).2[i]? = some out) :
    (out = .noCallable ∧ ∀ c, k < i → (Engine.new.run ops).2[k]? ≠ some (.compiled (.ok c))) ∨
    ∃ c, k < i ∧ (Engine.new.run ops).2[k]? = some (.compiled (.ok c)) ∧
      (∃ times src, ops[k]? = some (.compile times c.tenv src)) ∧
      ((∃ err, envCheck c.tenv venv = .error err ∧ out = .result (.error (.env err), [])) ∨
       (envCheck c.tenv venv = .ok () ∧
         ((∃ v evs, out = .result (.ok v, evs) ∧ Sound.HasTy v c.ty) ∨
          (∃ f evs, out = .result (.error (.fail f), evs) ∧ Sound.Allowed f)))) :=
  api_sound ops hreg htenv hvenv (lateOK_of_early rfl hearly) hop hout

/-- **Only polymorphic functions are registered** (any compiler, `interp.Interp` included):
soundness with no further condition — a polymorphic registration extends an overload list at the
end and leaves every resolved index where it was. -/
theorem api_sound_poly (ops : List Op)
    (hreg : ∀ d, Op.registerFun d ∈ ops → (∃ n ps r, d.ty = .fn n ps r) → Sound.declOK d = true)
    (htenv : ∀ times tenv src, Op.compile times tenv src ∈ ops →
      ∀ p ∈ tenv, p.2.wf = true ∧ slotFree p.2 = true)
    (hvenv : ∀ k venv ext, Op.invoke k venv ext ∈ ops → ∀ p ∈ venv, Sound.WF p.2 = true)
    (hpoly : ∀ d, Op.registerFun d ∈ ops → d.key.2 = false)
    {i k : Nat} {venv : List (String × Val)} {ext : Externs} {out : Out}
    (hop : ops[i]? = some (.invoke k venv ext)) (hout : (Engine.new.run ops).2[i]? = some out) :
    (out = .noCallable ∧ ∀ c, k < i → (Engine.new.run ops).2[k]? ≠ some (.compiled (.ok c))) ∨
    ∃ c, k < i ∧ (Engine.new.run ops).2[k]? = some (.compiled (.ok c)) ∧
      (∃ times src, ops[k]? = some (.compile times c.tenv src)) ∧
      ((∃ err, envCheck c.tenv venv = .error err ∧ out = .result (.error (.env err), [])) ∨
       (envCheck c.tenv venv = .ok () ∧
         ((∃ v evs, out = .result (.ok v, evs) ∧ Sound.HasTy v c.ty) ∨
          (∃ f evs, out = .result (.error (.fail f), evs) ∧ Sound.Allowed f)))) :=
  api_sound ops hreg htenv hvenv
    (lateOK_of_poly funsOK_new (opsOK_of hreg htenv) hpoly) hop hout

/-! ## the condition on late binding cannot be dropped -/

/-- **Late binding breaks type soundness through the API.**  The history `Api.histBad`
(`useCompiler interp; compile "!true"; registerFun (!(bool) : str, returns "oops"); invoke 1`)
satisfies every hypothesis of `api_sound` except `LateOK`; the Callable of step 1 has the inferred
type `bool`, the environment check accepts (there is nothing to check), and the invocation at
step 3 returns the string `"oops"` — not a value of type `bool`. -/
theorem late_binding_breaks_soundness :
    (∀ d, Op.registerFun d ∈ histBad → (∃ n ps r, d.ty = .fn n ps r) → Sound.declOK d = true) ∧
    (∀ times tenv src, Op.compile times tenv src ∈ histBad →
      ∀ p ∈ tenv, p.2.wf = true ∧ slotFree p.2 = true) ∧
    (∀ k venv ext, Op.invoke k venv ext ∈ histBad → ∀ p ∈ venv, Sound.WF p.2 = true) ∧
    ¬ LateOK Engine.new histBad ∧
    histBad[3]? = some (.invoke 1 [] {}) ∧
    ∃ c evs, (Engine.new.run histBad).2[1]? = some (.compiled (.ok c)) ∧
      c.ty = .bool ∧ c.backend = .interp ∧ envCheck c.tenv [] = .ok () ∧
      (Engine.new.run histBad).2[3]? = some (.result (.ok (.str "oops"), evs)) ∧
      ¬ Sound.HasTy (.str "oops") c.ty := by
  refine ⟨fun d hd => ?_, fun times tenv src hc => ?_, histBad_venvs, histBad_not_lateOK, rfl, ?_⟩
  · exact histBad_opsOK _ hd
  · exact histBad_opsOK _ hc
  · obtain ⟨p, col, cp, bp, hrun⟩ := bad_run
    refine ⟨_, _, by rw [hrun]; rfl, rfl, rfl, rfl, by rw [hrun]; rfl, ?_⟩
    show ¬ Sound.HasTy (.str "oops") .bool
    decide

/-- … and it does not satisfy the refined condition either (the key `λ ! (bool)` is registered
again with ANOTHER type, `… : str`) -/
theorem histBad_not_lateTyOK : ¬ LateTyOK Engine.new histBad := by
  intro hl
  obtain ⟨p, col, cp, bp, hrun⟩ := bad_run
  have hk : (Engine.new.run histBad).2[1]? =
      some (.compiled (.ok ⟨[], .bool, EngineWitness.notTrue p col cp bp, builtinDecls, .interp⟩)) := by
    rw [hrun]; rfl
  have h := hl 3 1 [] {} _ rfl (by decide) hk rfl
  have hreg : regsBetween histBad 1 3 = [hostNotStr] := by rfl
  rw [hreg] at h
  simp only [SameTyClash, EngineWitness.notTrue, EngineEval.All] at h
  have hne : ("λ ! (bool)" == "") = false := by decide
  rw [hne] at h
  have h1 : Ty.fn "!" (.cons .bool .nil) .str = Ty.fn "!" (.cons .bool .nil) .bool :=
    h.1 (by decide) hostNotStr (by rfl) EngineWitness.builtinNot (by rfl)
  cases h1

/-! ## compilations -/

/-- **Every compilation of a history returns a Callable or a reported error.** -/
theorem api_compile_reports (ops : List Op)
    (hoper : ∀ o, Op.registerOperator o ∈ ops →
      o.kind ≠ "" ∧ o.kind ≠ "<END-OF-FILE>" ∧ o.kind ∉ literalKinds)
    (hreg : ∀ d, Op.registerFun d ∈ ops → (∃ n ps r, d.ty = .fn n ps r) →
      Yae.PolyOK.declOK d.ty = true)
    (htenv : ∀ times tenv src, Op.compile times tenv src ∈ ops → ∀ p ∈ tenv, TyOK p.2 = true)
    {i : Nat} {times : List (String × Int)} {tenv : List (String × Ty)} {src : String} {out : Out}
    (hop : ops[i]? = some (.compile times tenv src))
    (hout : (Engine.new.run ops).2[i]? = some out) :
    (∃ c, out = .compiled (.ok c) ∧ c.tenv = tenv) ∨
    (∃ err, out = .compiled (.error err) ∧ Yae.C12.reported err) := by
  have hnew : StaticOK Engine.new := by
    unfold StaticOK
    exact ⟨fun o ho => (by cases ho), fun d hd => (by cases hd)⟩
  refine compile_out_ok hnew (fun op hm => ?_) hop hout
  cases op with
  | registerFun d => exact hreg d hm
  | registerOperator o => exact hoper o hm
  | compile times tenv src => exact htenv times tenv src hm
  | _ => trivial

/-! ## non-vacuity -/

/-- register a polymorphic host `string(a) : str`, compile `x + 1` with `x : num`, invoke with
`x = 1`, invoke again with `x` missing -/
def histGood : List Op :=
  [.registerFun EngineWitness.hostString,
   .compile [] [("x", .num)] "x + 1",
   .invoke 1 [("x", .num 1)] {},
   .invoke 1 [] {}]

/-- `histGood` satisfies the hypotheses of `api_sound` (and of `api_sound_early`) … -/
theorem histGood_hyps :
    (∀ d, Op.registerFun d ∈ histGood → (∃ n ps r, d.ty = .fn n ps r) → Sound.declOK d = true) ∧
    (∀ times tenv src, Op.compile times tenv src ∈ histGood →
      ∀ p ∈ tenv, p.2.wf = true ∧ slotFree p.2 = true) ∧
    (∀ k venv ext, Op.invoke k venv ext ∈ histGood → ∀ p ∈ venv, Sound.WF p.2 = true) ∧
    (∀ b, Op.useCompiler b ∈ histGood → b.late = false) ∧
    LateOK Engine.new histGood := by
  have hearly : ∀ b, Op.useCompiler b ∈ histGood → b.late = false := by
    intro b hb
    simp [histGood] at hb
  refine ⟨fun d hd _ => ?_, fun times tenv src hc p hp => ?_, fun k venv ext hi p hp => ?_,
    hearly, lateOK_of_early rfl hearly⟩
  · simp only [histGood, List.mem_cons, List.not_mem_nil, or_false, reduceCtorEq,
      Op.registerFun.injEq] at hd
    subst hd
    decide
  · simp only [histGood, List.mem_cons, List.not_mem_nil, or_false, reduceCtorEq, false_or,
      Op.compile.injEq] at hc
    obtain ⟨_, rfl, _⟩ := hc
    simp only [List.mem_singleton] at hp
    subst hp
    exact ⟨rfl, rfl⟩
  · simp only [histGood, List.mem_cons, List.not_mem_nil, or_false, reduceCtorEq, false_or,
      Op.invoke.injEq] at hi
    rcases hi with ⟨_, rfl, _⟩ | ⟨_, rfl, _⟩
    · simp only [List.mem_singleton] at hp
      subst hp
      rfl
    · cases hp

/-- … so both of its invocations are covered by `api_sound` -/
example {out : Out} (hout : (Engine.new.run histGood).2[2]? = some out) :
    (out = .noCallable ∧ ∀ c, 1 < 2 → (Engine.new.run histGood).2[1]? ≠ some (.compiled (.ok c))) ∨
    ∃ c, 1 < 2 ∧ (Engine.new.run histGood).2[1]? = some (.compiled (.ok c)) ∧
      (∃ times src, histGood[1]? = some (.compile times c.tenv src)) ∧
      ((∃ err, envCheck c.tenv [("x", .num 1)] = .error err ∧
          out = .result (.error (.env err), [])) ∨
       (envCheck c.tenv [("x", .num 1)] = .ok () ∧
         ((∃ v evs, out = .result (.ok v, evs) ∧ Sound.HasTy v c.ty) ∨
          (∃ f evs, out = .result (.error (.fail f), evs) ∧ Sound.Allowed f)))) :=
  api_sound histGood histGood_hyps.1 histGood_hyps.2.1 histGood_hyps.2.2.1 histGood_hyps.2.2.2.2
    (i := 2) rfl hout

/-- a history with `interp.Interp` AND a registration after the compilation that satisfies
`LateOK` (through `lateOK_of_poly`): the registered function is polymorphic -/
def histGoodLate : List Op :=
  [.useCompiler .interp, .compile [] [] "string(true)", .registerFun EngineWitness.hostString,
   .invoke 1 [] {}]

example : LateOK Engine.new histGoodLate := by
  refine lateOK_of_poly funsOK_new ?_ ?_
  · intro op hop
    simp only [histGoodLate, List.mem_cons, List.not_mem_nil, or_false] at hop
    rcases hop with rfl | rfl | rfl | rfl
    · trivial
    · intro p hp; cases hp
    · intro _; decide
    · trivial
  · intro d hd
    simp only [histGoodLate, List.mem_cons, List.not_mem_nil, or_false, reduceCtorEq, false_or,
      Op.registerFun.injEq] at hd
    subst hd
    decide

/-- the hypotheses of `api_compile_reports` hold for `histGood` -/
example {out : Out} (hout : (Engine.new.run histGood).2[1]? = some out) :
    (∃ c, out = .compiled (.ok c) ∧ c.tenv = [("x", .num)]) ∨
    (∃ err, out = .compiled (.error err) ∧ Yae.C12.reported err) := by
  refine api_compile_reports histGood (fun o ho => ?_) (fun d hd _ => ?_)
    (fun times tenv src hc p hp => ?_) (i := 1) rfl hout
  · simp [histGood] at ho
  · simp only [histGood, List.mem_cons, List.not_mem_nil, or_false, reduceCtorEq,
      Op.registerFun.injEq] at hd
    subst hd
    decide
  · simp only [histGood, List.mem_cons, List.not_mem_nil, or_false, reduceCtorEq, false_or,
      Op.compile.injEq] at hc
    obtain ⟨_, rfl, _⟩ := hc
    simp only [List.mem_singleton] at hp
    subst hp
    decide

end Yae.ApiProps

#print axioms Yae.ApiProps.api_sound_from
#print axioms Yae.ApiProps.api_sound
#print axioms Yae.ApiProps.lateOK_iff
#print axioms Yae.ApiProps.lateTyOK_iff
#print axioms Yae.ApiProps.api_sound_same_type
#print axioms Yae.ApiProps.histBad_not_lateTyOK
#print axioms Yae.ApiProps.api_env_refusal_iff
#print axioms Yae.ApiProps.api_sound_early
#print axioms Yae.ApiProps.api_sound_poly
#print axioms Yae.ApiProps.late_binding_breaks_soundness
#print axioms Yae.ApiProps.api_compile_reports
#print axioms Yae.ApiProps.histGood_hyps
