/-
  C01. "Whenever an expression is accepted with inferred type T and evaluated in an environment
  that passed the environment check, any value it produces has type T, and every component of
  that value (list elements, map keys and values, object fields, optional payloads) has the type
  its container declares, with no absent (nil) component. This holds irrespective of the order
  in which object fields were written in literals or supplied by host data."

  Model: `Yae.Model.Check` (`check` returns the inferred type and the annotated tree),
  `Yae.Model.Eval` (`eval`, the reference evaluator of the annotated tree; tags are checked
  dynamically).  Definitions: `Yae.Spec.WF`:
    `WF v`      deep well-formedness (components `WF`, of the component type the container's own
                type declares up to `tyEq`; object arity; map key kinds; no `.nil`; function
                values respect their type),
    `HasTy v T` `WF v ∧ tyEq T v.typeOf`  (`tyEq` compares object fields BY NAME),
    `FunsOK`    every registered function is what its signature says (`declOK`),
    `EnvOK Γ ρ` the environment check,
    `Ann Γ e T` what `check` guarantees about the tree it returns.
  Proofs: `Yae.Proofs.Soundness*`.  This file only states the property-level theorems.
-/
import Yae.Proofs.SoundnessMain
import Yae.Proofs.SoundnessExample
import Yae.Proofs.SoundnessExample2
import Yae.Proofs.SoundnessTotal
namespace Yae.C01
open Yae Yae.Sound

/-! ## 1  built-ins -/

/-- Every strict built-in, at every ground instance `σ` of its signature, applied to well-formed
arguments of the instantiated parameter types, returns a well-formed value of the instantiated
return type, or fails with a documented failure, or misses the harness' table of external
functions (extern-miss is treated as a separate allowed outcome). -/
theorem builtin_sound (ext : Externs) (b : BuiltinDecl) (hb : b ∈ builtins)
    (hstrict : b.isLazy = false)
    {name : String} {ps : TyList} {ret : Ty} (hty : b.ty = .fn name ps ret)
    (σ : Subst) (hσ : σ.Ground)
    (hw : wfList (substGList σ ps) = true) (hs : slotFreeList (substGList σ ps) = true)
    (vs : List Val) (hvs : HasTyList vs (substGList σ ps)) :
    match applyBuiltin ext b.id vs with
    | .ok (v, _) => HasTy v (substG σ ret)
    | .error f => Documented f ∨ f = .stuck "extern-miss:regex" ∨
        f = .stuck "extern-miss:strtotime" :=
  Yae.Sound.builtin_sound ext b hb hstrict hty σ hσ hw hs vs hvs

/-- non-vacuity: `get(list['a], num, 'a)` at `'a := str` on `["x"]`, index 0, default "d" -/
theorem ex_ground : Subst.Ground [("a", Ty.str)] := by
  intro n k h
  simp only [Subst.get?] at h
  split at h
  · cases h; exact ⟨rfl, rfl⟩
  · cases h

example : ∃ b ∈ builtins, b.isLazy = false ∧ ∃ name ps ret, b.ty = .fn name ps ret ∧
    ∃ σ : Subst, σ.Ground ∧ wfList (substGList σ ps) = true ∧
      slotFreeList (substGList σ ps) = true ∧
      ∃ vs, HasTyList vs (substGList σ ps) := by
  refine ⟨⟨.GET_LIST_NUM_ANY,
    .fn "get" (.cons (.list (.var "a")) (.cons .num (.cons (.var "a") .nil))) (.var "a"), false⟩,
    List.mem_of_getElem? (i := 15) rfl, rfl, _, _, _, rfl, [("a", .str)], ex_ground,
    by decide, by decide,
    [.list (.list .str) (.cons (.str "x") .nil), .num 0, .str "d"], ?_⟩
  simp only [substGList, substG, Subst.get?, HasTyList]
  decide

/-- What `FunsOK` demands of a strict host function (`hostRespects`, a syntactic condition on
the registered signature and the behaviour) means: at every instance of the signature, on
well-formed arguments of the instantiated parameter types, the function returns a well-formed
value of the instantiated return type or fails on purpose. -/
theorem host_respects {n : String} {ps : TyList} {ret : Ty} {name : String} {beh : HostBeh}
    (h : hostRespects (.fn n ps ret) beh false = true) (σ : Subst)
    (vs : List Val) (hvs : HasTyList vs (substGList σ ps)) (log : List Event) :
    match (hostStrict name beh vs log).1 with
    | .ok v => HasTy v (substG σ ret)
    | .error f => f = .hostFail name :=
  hostRespects_sound h σ vs hvs log

example : hostRespects (.fn "id" (.cons (.var "a") .nil) (.var "a")) (.retArg 0) false = true ∧
    HasTyList [.num 1] (substGList [("a", .num)] (.cons (.var "a") .nil)) := by
  refine ⟨by decide, ?_⟩
  simp only [substGList, substG, Subst.get?, HasTyList]
  decide

/-! ## 2  the annotated tree -/

/-- The tree returned by the checker satisfies `Ann` (list/map/object attachments are the
inferred types; a statically dispatched call resolves at run time to a registered function whose
signature instantiates to the argument types with the inferred result type; a member's object
type has the field; …) and the inferred type is well formed and variable free. -/
theorem check_annotated {Γ : TEnv} (hf : FunsOK Γ.funs) (hv : VarsOK Γ)
    {c : Nat} {e : Expr} {T : Ty} {e' : Expr} {c' : Nat}
    (h : check Γ c e = .ok (T, e', c')) :
    Ann Γ e' T ∧ T.wf = true ∧ slotFree T = true :=
  check_ann hf hv e c T e' c' h

example : FunsOK Example.Γ.funs ∧ VarsOK Example.Γ ∧
    check Example.Γ 0 Example.prog = .ok (.num, Example.prog', 0) :=
  ⟨Example.funsOK, Example.envOK.tys, Example.checked⟩

/-- evaluation of an annotated tree in a conforming environment yields values of its type -/
theorem annotated_sound {Γ : TEnv} {ρ : REnv} (hf : FunsOK Γ.funs) (henv : EnvOK Γ ρ)
    {e' : Expr} {T : Ty} (hA : Ann Γ e' T)
    {fuel : Nat} {dbg : Bool} {log log' : List Event} {v : Val}
    (he : eval fuel dbg ρ e' log = (.ok v, log')) : HasTy v T := by
  have := evalOK (dbg := dbg) hf henv fuel e' T hA log
  rw [he] at this
  exact this

example : FunsOK Example.Γ.funs ∧ EnvOK Example.Γ Example.ρ ∧ Ann Example.Γ Example.prog' .num ∧
    eval 3 false Example.ρ Example.prog' [] = (.ok (.num ((1 : Float) + 2)), []) :=
  ⟨Example.funsOK, Example.envOK,
    (check_annotated Example.funsOK Example.envOK.tys Example.checked).1, Example.evaluated⟩

/-- non-vacuity on the other paths: `id(h.f(1))` — a polymorphic HOST function (`retArg 0`,
signature `('a) → 'a`) applied to a DYNAMICALLY dispatched call of a function value stored in an
object of the environment; the function table also contains a failing and a lazy host function -/
example : FunsOK Example.Γ2.funs ∧ EnvOK Example.Γ2 Example.ρ2 ∧
    Ann Example.Γ2 Example.idProg' .num ∧
    (eval 5 false Example.ρ2 Example.idProg' []).1 = .ok (.num 7) :=
  ⟨Example.funsOK2, Example.envOK2, Example.idAnn, Example.idEval⟩

/-- … and a polymorphic built-in: `get(["x"], 7, "d")` -/
example : FunsOK Example.Γ.funs ∧ EnvOK Example.Γ Example.ρ ∧ Ann Example.Γ Example.getProg' .str :=
  ⟨Example.funsOK, Example.envOK, Example.getAnn⟩

/-! ## 3  preservation -/

/-- C01: an expression accepted with inferred type `T`, evaluated (with any fuel, with or without
debug recording, from any event log) in an environment that passed the environment check, can
only produce values of type `T`.  `HasTy` is deep (`WF`), and is up to `tyEq`, i.e. object
fields by name: the value may list its fields in any order. -/
theorem preservation {Γ : TEnv} {ρ : REnv} (hf : FunsOK Γ.funs) (henv : EnvOK Γ ρ)
    {c : Nat} {e : Expr} {T : Ty} {e' : Expr} {c' : Nat}
    (hc : check Γ c e = .ok (T, e', c'))
    {fuel : Nat} {dbg : Bool} {log log' : List Event} {v : Val}
    (he : eval fuel dbg ρ e' log = (.ok v, log')) : HasTy v T :=
  annotated_sound hf henv (check_annotated hf henv.tys hc).1 he

/-- non-vacuity: `o.a + 2` with `o : {a: num, b: str}` bound to a value whose own type is
`{b: str, a: num}` is accepted with type `num` and evaluates to a value -/
example : FunsOK Example.Γ.funs ∧ EnvOK Example.Γ Example.ρ ∧
    check Example.Γ 0 Example.prog = .ok (.num, Example.prog', 0) ∧
    eval 3 false Example.ρ Example.prog' [] = (.ok (.num ((1 : Float) + 2)), []) :=
  ⟨Example.funsOK, Example.envOK, Example.checked, Example.evaluated⟩

/-- the same for the entry point `runEval` -/
theorem preservation_run {Γ : TEnv} {ρ : REnv} (hf : FunsOK Γ.funs) (henv : EnvOK Γ ρ)
    {c : Nat} {e : Expr} {T : Ty} {e' : Expr} {c' : Nat}
    (hc : check Γ c e = .ok (T, e', c'))
    {dbg : Bool} {evs : List Event} {v : Val}
    (he : runEval dbg ρ e' = (.ok v, evs)) : HasTy v T := by
  unfold runEval at he
  rcases hr : eval (e'.depth + 1) dbg ρ e' [] with ⟨r, l⟩
  rw [hr] at he
  simp only [Prod.mk.injEq] at he
  obtain ⟨rfl, _⟩ := he
  exact preservation hf henv hc hr

example : runEval false Example.ρ Example.prog' = (.ok (.num ((1 : Float) + 2)), []) := by
  unfold runEval
  rw [Example.depth_prog']
  show (match eval 4 false Example.ρ Example.prog' [] with | (r, log) => (r, log.reverse)) = _
  have hb : builtins[2]? =
      some ⟨.ADD_NUM_NUM, .fn "+" (.cons .num (.cons .num .nil)) .num, false⟩ := rfl
  have ho : Example.ρ.lookupVar "o" = some Example.oVal := rfl
  simp only [Example.prog', eval, Example.resolved, callFun, hb, evalList, ho, Example.oVal, recDbg]
  rfl

/-! ## 4  what `HasTy` says about the components -/

/-- no absent (nil) component anywhere inside a well-typed value -/
theorem no_nil {v : Val} {T : Ty} (h : HasTy v T) : noNil v = true := WF_noNil v h.1

example : HasTy Example.oVal Example.objT ∧ noNil Example.oVal = true := by decide

/-- list elements have the element type -/
theorem list_components {v : Val} {el : Ty} (h : HasTy v (.list el)) (hel : el.wf = true) :
    ∃ ty vs, v = .list ty vs ∧ ∀ i x, vs.get? i = some x → HasTy x el := by
  obtain ⟨el', vs, rfl, hw, hl, he⟩ := h.list_inv
  refine ⟨_, vs, rfl, fun i x hx => ?_⟩
  obtain ⟨h1, h2⟩ := WFList_get? el' vs i x hl hx
  exact ⟨h1, tyEq_trans' hel (by simpa [Ty.wf] using hw) he h2⟩

example : HasTy (.list (.list .num) (.cons (.num 1) .nil)) (.list .num) ∧ Ty.num.wf = true := by
  decide

/-- map keys have the key kind and map values the value type -/
theorem map_components {v : Val} {K V : Ty} (h : HasTy v (.map K V)) (hV : V.wf = true) :
    ∃ ty es, v = .map ty es ∧
      (∀ t ks x, es.find? t ks = some x → HasTy x V) ∧
      (∀ t ks x, (t, ks, x) ∈ es.toList → t = K.kind) := by
  obtain ⟨k', v', es, rfl, hw, he, hk, hv⟩ := h.map_inv
  simp only [Ty.wf, Bool.and_eq_true] at hw
  refine ⟨_, es, rfl, fun t ks x hx => ?_, ?_⟩
  · obtain ⟨h1, h2⟩ := WFEntries_find? k' v' es t ks x he hx
    exact ⟨h1, tyEq_trans' hV hw.2 hv h2⟩
  · intro t ks x hm
    rw [tyEq_kind hk]
    exact WFEntries_tag k' v' es he t ks x hm

example : HasTy (.map (.map .str .num) (.cons .str "\"k\"" (.num 1) .nil)) (.map .str .num) ∧
    Ty.num.wf = true := by decide

/-- optional payloads have the payload type -/
theorem maybe_components {v : Val} {el : Ty} (h : HasTy v (.maybe el)) (hel : el.wf = true) :
    (∃ ty x, v = .just ty x ∧ HasTy x el) ∨ (∃ ty, v = .nothing ty) := by
  rcases h.maybe_inv with ⟨el', x, rfl, hw, hx, h1, h2⟩ | ⟨el', rfl, _, _⟩
  · exact .inl ⟨_, _, rfl, hx, tyEq_trans' hel hw h2 h1⟩
  · exact .inr ⟨_, rfl⟩

example : HasTy (.just .num (.num 1)) (.maybe .num) ∧ Ty.num.wf = true := by decide

/-- C01, field order: a value of object type `{fs}` may list its fields in ANY order (its own
type `gs` is only `tyEq`, i.e. equal by name, to the static type).  Member access looks the
field up by name in the value's own type (`objGet?`) and finds a value of the field's static
type. -/
theorem field_order {v : Val} {fs : FieldList} {field : String} {T : Ty}
    (h : HasTy v (.obj fs)) (hfs : (Ty.obj fs).wf = true) (hf : fs.find? field = some T) :
    ∃ gs vs x, v = .obj (.obj gs) vs ∧ objGet? (.obj gs) vs field = some x ∧ HasTy x T := by
  obtain ⟨gs, vs, rfl, hw, hwo, hte⟩ := h.obj_inv
  obtain ⟨x, hx, hxT⟩ := objGet_of_hasTy hfs hw hwo hte hf
  exact ⟨gs, vs, x, rfl, hx, hxT⟩

/-- non-vacuity, with a permuted object: static type `{a: num, b: str}`, the value's own type is
`{b: str, a: num}` with positional values `["x", 1]`; field `a` is found by name -/
example : HasTy Example.oVal (.obj (.cons "a" .num (.cons "b" .str .nil))) ∧
    Example.oVal.typeOf = .obj (.cons "b" .str (.cons "a" .num .nil)) ∧
    objGet? Example.objT' (.cons (.str "x") (.cons (.num 1) .nil)) "a" = some (.num 1) :=
  ⟨by decide, rfl, rfl⟩

/-- … and literals: `[{a: 1, b: "x"}, {b: "y", a: 2}][1].a` — two object literals with their
fields in different orders in one list — is accepted with type `num`; the second element of the
list value carries its own type `{b: str, a: num}`, and `.a` finds `2` by name -/
example : check Example.Γ 0 Example.mixed = .ok (.num, Example.mixed', 0) ∧
    (eval 5 false Example.ρ Example.mixed' []).1 = .ok (.num 2) :=
  ⟨Example.mixedChecked, Example.mixedEval⟩

/-- … `{b: "x", a: 1}` is accepted where `{a: num, b: str}` is the declared type of
an equal value: the two object types are equal by name -/
example : tyEq (.obj (.cons "a" .num (.cons "b" .str .nil)))
               (.obj (.cons "b" .str (.cons "a" .num .nil))) = true := by decide

end Yae.C01

#print axioms Yae.C01.builtin_sound
#print axioms Yae.C01.host_respects
#print axioms Yae.C01.check_annotated
#print axioms Yae.C01.annotated_sound
#print axioms Yae.C01.preservation
#print axioms Yae.C01.preservation_run
#print axioms Yae.C01.no_nil
#print axioms Yae.C01.list_components
#print axioms Yae.C01.map_components
#print axioms Yae.C01.maybe_components
#print axioms Yae.C01.field_order
