/-
  C02. "An accepted expression evaluated in a conforming environment either yields a value or
  stops with one of the language's partial-operation failures (list index outside the list,
  missing map key, modulo by zero, invalid regular expression), and it stops exactly when the
  language semantics says the operation is undefined. It never fails through an internal fault
  such as a mis-typed value access, nil dereference, evaluation-stack underflow, unknown
  instruction or an 'unreachable' branch, and total library functions such as get-with-default
  never fail at all."

  Model: `Yae.Model.Eval` — every unchecked cast, nil access and `Unreachable` of the Go
  evaluators is a `Fail.stuck _` outcome of `eval`; running out of the recursion-depth budget is
  `Fail.fuel`.  `Allowed f` (`Yae.Spec.WF`): the four documented failures, `hostFail _` (a host
  function registered by the embedding program that fails on purpose), and a miss of the
  harness' table of external functions (`stuck "extern-miss:…"`: `regexp.MatchString` and
  `strtotime` are not re-implemented in the model; a miss is a device of the model, treated as a
  separate allowed outcome, it is not an internal fault of the evaluator).
  Proofs: `Yae.Proofs.Soundness*`.  This file only states the property-level theorems.
-/
import Yae.Proofs.SoundnessMain
import Yae.Proofs.SoundnessExample
import Yae.Proofs.SoundnessExample2
import Yae.Proofs.SoundnessTotal
namespace Yae.C02
open Yae Yae.Sound

/-- `Allowed`, spelled out -/
theorem allowed_iff {f : Fail} : Allowed f ↔
    f = .indexOutOfRange ∨ f = .missingKey ∨ f = .modZero ∨ f = .badRegex ∨
    (∃ n, f = .hostFail n) ∨ f = .stuck "extern-miss:regex" ∨
    f = .stuck "extern-miss:strtotime" := by
  cases f <;> simp [Allowed]

/-! ## 1  progress -/

/-- C02: an accepted expression, evaluated in a conforming environment with more fuel than the
depth of the tree (as `runEval` does), yields a value (of the inferred type) or stops with an
allowed failure. -/
theorem progress {Γ : TEnv} {ρ : REnv} (hf : FunsOK Γ.funs) (henv : EnvOK Γ ρ)
    {c : Nat} {e : Expr} {T : Ty} {e' : Expr} {c' : Nat}
    (hc : check Γ c e = .ok (T, e', c'))
    {fuel : Nat} (hfuel : e'.depth < fuel) (dbg : Bool) (log : List Event) :
    (∃ v log', eval fuel dbg ρ e' log = (.ok v, log') ∧ HasTy v T) ∨
    (∃ f log', eval fuel dbg ρ e' log = (.error f, log') ∧ Allowed f) := by
  have hA := (check_ann hf henv.tys e c T e' c' hc).1
  have h := evalOK (dbg := dbg) hf henv fuel e' T hA log
  rcases hr : eval fuel dbg ρ e' log with ⟨r, l⟩
  rw [hr] at h
  cases r with
  | ok v => exact .inl ⟨v, l, rfl, h⟩
  | error f =>
    rcases h with h | ⟨_, h⟩
    · exact .inr ⟨f, l, rfl, h⟩
    · exact absurd hfuel h

/-- non-vacuity: the hypotheses hold for `o.a + 2` (`Yae.Example`), depth 3, fuel 4 -/
example : FunsOK Example.Γ.funs ∧ EnvOK Example.Γ Example.ρ ∧
    check Example.Γ 0 Example.prog = .ok (.num, Example.prog', 0) ∧ Example.prog'.depth < 4 :=
  ⟨Example.funsOK, Example.envOK, Example.checked, by decide⟩

/-- C02, negative form: whatever failure stops the evaluation is an allowed one: never an
internal fault (`stuck` other than an externs-table miss), never fuel exhaustion. -/
theorem no_internal_fault {Γ : TEnv} {ρ : REnv} (hf : FunsOK Γ.funs) (henv : EnvOK Γ ρ)
    {c : Nat} {e : Expr} {T : Ty} {e' : Expr} {c' : Nat}
    (hc : check Γ c e = .ok (T, e', c'))
    {fuel : Nat} (hfuel : e'.depth < fuel) {dbg : Bool} {log log' : List Event} {f : Fail}
    (he : eval fuel dbg ρ e' log = (.error f, log')) :
    f ≠ .fuel ∧
    (∀ s, f = .stuck s → s = "extern-miss:regex" ∨ s = "extern-miss:strtotime") ∧
    (f = .indexOutOfRange ∨ f = .missingKey ∨ f = .modZero ∨ f = .badRegex ∨
      (∃ n, f = .hostFail n) ∨ f = .stuck "extern-miss:regex" ∨
      f = .stuck "extern-miss:strtotime") := by
  have hal : Allowed f := by
    rcases progress hf henv hc hfuel dbg log with ⟨v, l, h, _⟩ | ⟨f', l, h, hal⟩
    · rw [he] at h; cases h
    · rw [he] at h; cases h; exact hal
  refine ⟨?_, ?_, allowed_iff.1 hal⟩
  · rintro rfl; exact hal
  · rintro s rfl; exact hal

example : FunsOK Example.Γ.funs ∧ EnvOK Example.Γ Example.ρ ∧
    check Example.Γ 0 Example.prog = .ok (.num, Example.prog', 0) ∧ Example.prog'.depth < 4 :=
  ⟨Example.funsOK, Example.envOK, Example.checked, by decide⟩

/-- the entry point `runEval` passes `depth + 1` fuel: it yields a value of the inferred type or
an allowed failure -/
theorem progress_run {Γ : TEnv} {ρ : REnv} (hf : FunsOK Γ.funs) (henv : EnvOK Γ ρ)
    {c : Nat} {e : Expr} {T : Ty} {e' : Expr} {c' : Nat}
    (hc : check Γ c e = .ok (T, e', c')) (dbg : Bool) :
    (∃ v evs, runEval dbg ρ e' = (.ok v, evs) ∧ HasTy v T) ∨
    (∃ f evs, runEval dbg ρ e' = (.error f, evs) ∧ Allowed f) := by
  unfold runEval
  rcases progress hf henv hc (Nat.lt_succ_self _) dbg [] with ⟨v, l, h, hv⟩ | ⟨f, l, h, hal⟩
  · exact .inl ⟨v, l.reverse, by rw [h], hv⟩
  · exact .inr ⟨f, l.reverse, by rw [h], hal⟩

example : FunsOK Example.Γ.funs ∧ EnvOK Example.Γ Example.ρ ∧
    check Example.Γ 0 Example.prog = .ok (.num, Example.prog', 0) :=
  ⟨Example.funsOK, Example.envOK, Example.checked⟩

/-! ## 2  total library functions -/

/-- The `get`-with-default built-ins (on lists, maps, optionals) never fail on well-typed
arguments and return a value of the instantiated return type. -/
theorem total_get (ext : Externs) (b : BuiltinDecl) (hb : b ∈ builtins)
    (hstrict : b.isLazy = false)
    {name : String} {ps : TyList} {ret : Ty} (hty : b.ty = .fn name ps ret)
    (σ : Subst) (hσ : σ.Ground)
    (hw : wfList (substGList σ ps) = true) (hs : slotFreeList (substGList σ ps) = true)
    (vs : List Val) (hvs : HasTyList vs (substGList σ ps))
    (hid : b.id = .GET_LIST_NUM_ANY ∨ b.id = .GET_MAP_ANY_ANY ∨ b.id = .GET_MAYBE) :
    ∃ v evs, applyBuiltin ext b.id vs = .ok (v, evs) ∧ HasTy v (substG σ ret) :=
  builtin_get_total ext b hb hstrict hty σ hσ hw hs vs hvs hid

/-- non-vacuity: `get(["x"], 7, "d")` (index out of range: the default is returned) -/
example : ∃ b ∈ builtins, b.isLazy = false ∧ b.id = .GET_LIST_NUM_ANY ∧
    ∃ name ps ret, b.ty = .fn name ps ret ∧
    ∃ σ : Subst, σ.Ground ∧ wfList (substGList σ ps) = true ∧
      slotFreeList (substGList σ ps) = true ∧
      ∃ vs, HasTyList vs (substGList σ ps) := by
  refine ⟨⟨.GET_LIST_NUM_ANY,
    .fn "get" (.cons (.list (.var "a")) (.cons .num (.cons (.var "a") .nil))) (.var "a"), false⟩,
    List.mem_of_getElem? (i := 15) rfl, rfl, rfl, _, _, _, rfl, [("a", .str)], ?_,
    by decide, by decide,
    [.list (.list .str) (.cons (.str "x") .nil), .num 7, .str "d"], ?_⟩
  · intro n k h
    simp only [Subst.get?] at h
    split at h
    · cases h; exact ⟨rfl, rfl⟩
    · cases h
  · simp only [substGList, substG, Subst.get?, HasTyList]
    decide

/-- Every strict built-in other than `%`, `match` and `strtotime` is total on well-typed
arguments. -/
theorem total (ext : Externs) (b : BuiltinDecl) (hb : b ∈ builtins)
    (hstrict : b.isLazy = false)
    {name : String} {ps : TyList} {ret : Ty} (hty : b.ty = .fn name ps ret)
    (σ : Subst) (hσ : σ.Ground)
    (hw : wfList (substGList σ ps) = true) (hs : slotFreeList (substGList σ ps) = true)
    (vs : List Val) (hvs : HasTyList vs (substGList σ ps))
    (hid : b.id ≠ .MOD_NUM_NUM ∧ b.id ≠ .MATCH_STR_STR ∧ b.id ≠ .STRTOTIME_STR) :
    ∃ v evs, applyBuiltin ext b.id vs = .ok (v, evs) ∧ HasTy v (substG σ ret) :=
  builtin_total_typed ext b hb hstrict hty σ hσ hw hs vs hvs hid

example : ∃ b ∈ builtins, b.isLazy = false ∧
    (b.id ≠ .MOD_NUM_NUM ∧ b.id ≠ .MATCH_STR_STR ∧ b.id ≠ .STRTOTIME_STR) ∧
    ∃ name ps ret, b.ty = .fn name ps ret ∧
    ∃ σ : Subst, σ.Ground ∧ wfList (substGList σ ps) = true ∧
      slotFreeList (substGList σ ps) = true ∧ ∃ vs, HasTyList vs (substGList σ ps) :=
  ⟨⟨.LEN_STR, .fn "len" (.cons .str .nil) .num, false⟩, List.mem_of_getElem? (i := 27) rfl, rfl,
    by decide, _, _, _, rfl, [], Subst.ground_nil, by decide, by decide, [.str "abc"],
    by simp only [substGList, substG, HasTyList]; decide⟩

/-- At the level of evaluation: a (statically dispatched) call of a total strict built-in — in
particular `get` with a default — in an annotated tree never fails once its arguments have been
evaluated: it yields a value of the type of the call. -/
theorem total_call {Γ : TEnv} {ρ : REnv} (hf : FunsOK Γ.funs) (henv : EnvOK Γ ρ)
    {p : Pos} {col : Int} {callee : Expr} {args : ExprList} {cty : Option Ty}
    {resolved : String} {index : Int} {T : Ty}
    (hA : Ann Γ (.call p col callee args cty resolved index) T)
    (hne : (resolved == "") = false)
    {d : FunDecl} (hres : resolveStatic Γ.funs resolved index = some d)
    {i : Nat} {b : BuiltinDecl} (hd : d.ref = .builtin i) (hb : builtins[i]? = some b)
    (hstrict : b.isLazy = false)
    (hid : b.id ≠ .MOD_NUM_NUM ∧ b.id ≠ .MATCH_STR_STR ∧ b.id ≠ .STRTOTIME_STR)
    {fuel : Nat} {dbg : Bool} {log log1 : List Event} {vs : ValList}
    (hargs : evalList fuel dbg ρ args log = (.ok vs, log1)) :
    ∃ v log', eval (fuel+1) dbg ρ (.call p col callee args cty resolved index) log =
      (.ok v, log') ∧ HasTy v T :=
  call_builtin_total hf henv hA hne hres hd hb hstrict hid hargs

/-- non-vacuity: `get(["x"], 7, "d")`, index out of range -/
example : FunsOK Example.Γ.funs ∧ EnvOK Example.Γ Example.ρ ∧
    Ann Example.Γ Example.getProg' .str ∧
    resolveStatic Example.Γ.funs "∀.λ get 3" 0 = some Example.getDecl ∧
    Example.getDecl.ref = .builtin 15 ∧
    builtins[15]? = some ⟨.GET_LIST_NUM_ANY, Example.getDecl.ty, false⟩ ∧
    ∃ vs log1, evalList 2 false Example.ρ
      (.cons (.list Example.p0 (.cons (.str Example.p0 "x") .nil) (some (.list .str)))
        (.cons (.num Example.p0 7) (.cons (.str Example.p0 "d") .nil))) [] = (.ok vs, log1) :=
  ⟨Example.funsOK, Example.envOK, Example.getAnn, Example.getResolved, rfl, rfl, _, _,
    Example.getArgs⟩

/-- and the only failures of the other three are the documented ones (or an externs miss) -/
theorem fail_exact (ext : Externs) (b : BuiltinDecl) (hb : b ∈ builtins)
    (hstrict : b.isLazy = false)
    {name : String} {ps : TyList} {ret : Ty} (hty : b.ty = .fn name ps ret)
    (σ : Subst) (hσ : σ.Ground)
    (hw : wfList (substGList σ ps) = true) (hs : slotFreeList (substGList σ ps) = true)
    (vs : List Val) (hvs : HasTyList vs (substGList σ ps)) (f : Fail)
    (h : (applyBuiltin ext b.id vs) = .error f) :
    (b.id = .MOD_NUM_NUM ∧ f = .modZero) ∨
    (b.id = .MATCH_STR_STR ∧ (f = .badRegex ∨ f = .stuck "extern-miss:regex")) ∨
    (b.id = .STRTOTIME_STR ∧ f = .stuck "extern-miss:strtotime") :=
  builtin_fail_exact ext b hb hstrict hty σ hσ hw hs vs hvs f h

example : ∃ b ∈ builtins, b.isLazy = false ∧ ∃ name ps ret, b.ty = .fn name ps ret ∧
    ∃ σ : Subst, σ.Ground ∧ wfList (substGList σ ps) = true ∧
      slotFreeList (substGList σ ps) = true ∧ ∃ vs, HasTyList vs (substGList σ ps) ∧
      ∃ ext f, applyBuiltin ext b.id vs = .error f :=
  ⟨⟨.MOD_NUM_NUM, .fn "%" (.cons .num (.cons .num .nil)) .num, false⟩,
    List.mem_of_getElem? (i := 40) rfl, rfl, _, _, _, rfl, [], Subst.ground_nil, by decide,
    by decide, [.num 1, .num (Float.ofBits 0)],
    by simp only [substGList, substG, HasTyList]; decide, {}, .modZero, by
      rw [app_MOD]
      have : Num.toInt64 (Float.ofBits 0) = 0 := by decide
      rw [if_pos this]⟩

/-! ## 3  the partial operations fail exactly when undefined -/

/-- list subscript: `indexOutOfRange` exactly when the (truncated) index is negative or not less
than the length; otherwise the element at that index -/
theorem exact_index {fuel : Nat} {dbg : Bool} {ρ : REnv} {p : Pos} {col : Int}
    {var idx : Expr} {vty : Option Ty} {log log1 log2 : List Event} {ty : Ty} {vs : ValList}
    {f : Float}
    (hvar : eval fuel dbg ρ var log = (.ok (.list ty vs), log1))
    (hidx : eval fuel dbg ρ idx log1 = (.ok (.num f), log2)) :
    ((eval (fuel+1) dbg ρ (.subscript p col var idx vty) log).1 = .error .indexOutOfRange ↔
      (Num.toInt f < 0 ∨ Num.toInt f ≥ vs.length)) ∧
    (¬ (Num.toInt f < 0 ∨ Num.toInt f ≥ vs.length) →
      ∃ v, vs.get? (Num.toInt f).toNat = some v ∧
        (eval (fuel+1) dbg ρ (.subscript p col var idx vty) log).1 = .ok v) := by
  rw [eval_subscript_list hvar hidx]
  have hin : ¬ (Num.toInt f < 0 ∨ Num.toInt f ≥ vs.length) →
      ∃ v, vs.get? (Num.toInt f).toNat = some v := fun hc =>
    ValList.get?_lt vs _ (by omega)
  refine ⟨⟨fun h => ?_, fun h => by rw [if_pos h]⟩, fun hc => ?_⟩
  · apply Classical.byContradiction
    intro hc
    obtain ⟨v, hv⟩ := hin hc
    rw [if_neg hc, hv] at h
    cases h
  · obtain ⟨v, hv⟩ := hin hc
    exact ⟨v, hv, by rw [if_neg hc, hv]⟩

/-- non-vacuity: literal list `[5]` subscripted by the literal `0` (the hypotheses are
evaluations of the two sub-expressions) -/
example : ∃ (var idx : Expr) (ty : Ty) (vs : ValList) (f : Float) (log1 log2 : List Event),
    eval 2 false Example.ρ var [] = (.ok (.list ty vs), log1) ∧
    eval 2 false Example.ρ idx log1 = (.ok (.num f), log2) :=
  ⟨.list Example.p0 (.cons (.num Example.p0 5) .nil) (some (.list .num)), .num Example.p0 0,
    .list .num, .cons (.num 5) .nil, 0, [], [], by simp only [eval, evalList]; rfl,
    by simp only [eval]; rfl⟩

/-- map subscript: `missingKey` exactly when the key is absent; otherwise the entry -/
theorem exact_key {fuel : Nat} {dbg : Bool} {ρ : REnv} {p : Pos} {col : Int}
    {var idx : Expr} {vty : Option Ty} {log log1 log2 : List Event} {ty : Ty} {es : EntryList}
    {k : Val} {t : Kind} {ks : String}
    (hvar : eval fuel dbg ρ var log = (.ok (.map ty es), log1))
    (hidx : eval fuel dbg ρ idx log1 = (.ok k, log2)) (hk : k.key? = some (t, ks)) :
    ((eval (fuel+1) dbg ρ (.subscript p col var idx vty) log).1 = .error .missingKey ↔
      es.find? t ks = none) ∧
    (∀ v, es.find? t ks = some v →
      (eval (fuel+1) dbg ρ (.subscript p col var idx vty) log).1 = .ok v) := by
  rw [eval_subscript_map hvar hidx hk]
  cases hg : es.find? t ks with
  | none => simp
  | some v => simp

example : ∃ (var idx : Expr) (ty : Ty) (es : EntryList) (k : Val) (t : Kind) (ks : String)
    (log1 log2 : List Event),
    eval 2 false Example.ρ var [] = (.ok (.map ty es), log1) ∧
    eval 2 false Example.ρ idx log1 = (.ok k, log2) ∧ k.key? = some (t, ks) :=
  ⟨.map Example.p0 .nil none, .bool Example.p0 true, .map .bot .bot, .nil, .bool true, .bool,
    "true", [], [], by simp only [eval]; rfl, by simp only [eval]; rfl, rfl⟩

/-- `%`: `modZero` exactly when the divisor converts to the integer 0 -/
theorem exact_mod (ext : Externs) (x y : Float) :
    applyBuiltin ext .MOD_NUM_NUM [.num x, .num y] = .error .modZero ↔ Num.toInt64 y = 0 := by
  rw [app_MOD]
  by_cases hd : Num.toInt64 y = 0 <;> simp [hd]

/-- `match`: `badRegex` exactly when the pattern is invalid (as `regexp.MatchString` reports,
recorded in the externs table) -/
theorem exact_regex (ext : Externs) (p s : String) :
    applyBuiltin ext .MATCH_STR_STR [.str p, .str s] = .error .badRegex ↔
      ext.regex? p s = some none := by
  rw [app_MATCH]
  cases h : ext.regex? p s with
  | none => simp
  | some r => cases r <;> simp

end Yae.C02

#print axioms Yae.C02.allowed_iff
#print axioms Yae.C02.progress
#print axioms Yae.C02.no_internal_fault
#print axioms Yae.C02.progress_run
#print axioms Yae.C02.total_get
#print axioms Yae.C02.total
#print axioms Yae.C02.total_call
#print axioms Yae.C02.fail_exact
#print axioms Yae.C02.exact_index
#print axioms Yae.C02.exact_key
#print axioms Yae.C02.exact_mod
#print axioms Yae.C02.exact_regex
